(* C17  Sequential-model simulation makes every equation hold, also when exogenized.
   Only restatements: every proof is `exact <lemma of proofs/SequentialProofs.v>`.
   The formulas lhs_level_*, lhs_of_level_*, plan_implied_*, rhs_with_residual, residual_body and the write
   sequences simulate_gen / exogenize_gen come from gen/TransformsGen.v, regenerated on every run from
   explanatories/_transforms.py, explanatories/main.py and plans/transforms.py.
   [m] is an arbitrary classification of real values as "missing" (it only decides the when_data fallback). *)
From Coq Require Import ZArith List Reals.
From Verif Require Import lib.Arith gen.TransformsGen gen.SeqSlatableGen model.Sequential model.SeqSlate
                          proofs.SequentialProofs proofs.SeqSlateProofs.
Import ListNotations.
Notation RA := RArithM.

(* 1. each LHS level formula (f-string of create_eval_level_str) inverts the LHS expression (read back from
      _LHS_PATTERN): none, log, diff unconditionally; diff_log for a positive reference value; roc, pct for a
      non-zero one *)
Theorem C17_lhs_transform_inverse : forall m tr (rhs lag : R),
  lhs_dom tr lag -> lhs_of_level (RA m) tr (lhs_level (RA m) tr rhs lag) lag = rhs.
Proof. exact lhs_transform_inverse. Qed.
Print Assumptions C17_lhs_transform_inverse.

(* ... and they are the six documented transforms, with the lag one period back *)
Theorem C17_lhs_formulas : forall m (x rhs lag : R), lag <> 0%R ->
  (lhs_level (RA m) TNone rhs lag = rhs /\ lhs_level (RA m) TLog rhs lag = Rtrigo_def.exp rhs /\
   lhs_level (RA m) TDiff rhs lag = (lag + rhs)%R /\ lhs_level (RA m) TDiffLog rhs lag = (lag * Rtrigo_def.exp rhs)%R /\
   lhs_level (RA m) TRoc rhs lag = (lag * rhs)%R /\ lhs_level (RA m) TPct rhs lag = (lag * (1 + rhs / 100))%R) /\
  (lhs_of_level (RA m) TNone x lag = x /\ lhs_of_level (RA m) TLog x lag = Rpower.ln x /\
   lhs_of_level (RA m) TDiff x lag = (x - lag)%R /\ lhs_of_level (RA m) TDiffLog x lag = (Rpower.ln x - Rpower.ln lag)%R /\
   lhs_of_level (RA m) TRoc x lag = (x / lag)%R /\ lhs_of_level (RA m) TPct x lag = (100 * (x / lag - 1))%R) /\
  (forall tr, lhs_level_shift tr = lhs_of_level_shift tr) /\
  (forall tr, uses_lag tr = true -> lhs_of_level_shift tr = (-1)%Z).
Proof.
  intros m x rhs lag H. split; [exact (lhs_level_formulas m rhs lag)|]. split; [exact (lhs_of_level_formulas m x lag H)|].
  split; [exact lhs_shifts_agree | exact lag_is_previous_period].
Qed.
Print Assumptions C17_lhs_formulas.

(* 2. the level implied by a plan transform has the requested transformed value (flat: zero change) *)
Theorem C17_plan_transform_implied : forall m k (exo lag : R),
  plan_dom k lag -> plan_of_level m k (plan_implied (RA m) k exo lag) lag = plan_target k exo.
Proof. exact plan_transform_implied. Qed.
Print Assumptions C17_plan_transform_implied.

(* 3. one cell.  After Explanatory.simulate the equation transform(lhs) = rhs + residual holds there ... *)
Theorem C17_cell_after_simulate : forall m (e : eqn (RA m)) t (d : data (RA m)),
  wf_eqn m e -> ~ In (e_lhs e, t) (cells_of m (e_rhs e) t) ->
  lhs_dom (e_tr e) (d (e_lhs e) (t + lhs_level_shift (e_tr e))%Z) ->
  holds m e t (simulate_cell (RA m) e t d).
Proof. exact cell_after_simulate. Qed.
Print Assumptions C17_cell_after_simulate.

(* ... and after Explanatory.exogenize the LHS carries the implied value v and the residual written is exactly the
   one that keeps the equation true -- for EVERY input residual d r t (no guard).  This is the statement that
   fails on the code before fixes/C17_1.patch. *)
Theorem C17_cell_after_exogenize : forall m (e : eqn (RA m)) t (v : R) (d : data (RA m)) r,
  e_res e = Some r -> r <> e_lhs e -> ~ In (r, t) (cells_of m (e_rhs e) t) ->
  exogenize_cell (RA m) e t v d (e_lhs e) t = v /\ holds m e t (exogenize_cell (RA m) e t v d).
Proof. exact cell_after_exogenize. Qed.
Print Assumptions C17_cell_after_exogenize.

(* 4. the loop, for ANY list of (period, equation) steps: if no later step writes a cell that an earlier step
      depends on (every value is computed before it is read), then at the end every equation holds in every
      executed period -- identities included, exogenized or not *)
Theorem C17_fold_invariant : forall m pl (steps : list (Z * eqn (RA m))) (d0 : data (RA m)),
  rbw m pl steps -> (forall s, In s steps -> step_ok m s) ->
  (forall s, In s steps -> dom_ok m pl s (run (RA m) pl steps d0)) ->
  forall t e, In (t, e) steps -> holds m e t (run (RA m) pl steps d0).
Proof. exact fold_invariant. Qed.
Print Assumptions C17_fold_invariant.

(* ... and an exogenized LHS keeps, to the end, the value implied by its plan transform at the time of the step *)
Theorem C17_exogenized_value_final : forall m pl pre t (e : eqn (RA m)) post (d0 : data (RA m)) (v : R),
  rbw m pl (pre ++ (t, e) :: post) -> step_ok m (t, e) ->
  detect (RA m) (get_transform (RA m) pl e t) (e_lhs e) t (run (RA m) pl pre d0) = Some v ->
  run (RA m) pl (pre ++ (t, e) :: post) d0 (e_lhs e) t = v.
Proof. exact exogenized_value_final. Qed.
Print Assumptions C17_exogenized_value_final.

(* ... so that at the end the plan transform of the exogenized variable (x, log x, x - x[shift], log x - log x[shift],
   x / x[shift], 100*x/x[shift] - 100; flat: zero change) equals the conditioning series of the input databox *)
Theorem C17_exogenized_hits_target : forall m pl pre t (e : eqn (RA m)) post (d0 : data (RA m)) pp (v : R),
  rbw m pl (pre ++ (t, e) :: post) -> step_ok m (t, e) ->
  get_transform (RA m) pl e t = Some pp -> p_shift pp <> 0%Z ->
  (forall r s', p_row pp = Some r -> In s' pre -> ~ In (r, t) (writes m s')) ->
  detect (RA m) (Some pp) (e_lhs e) t (run (RA m) pl pre d0) = Some v ->
  let dN := run (RA m) pl (pre ++ (t, e) :: post) d0 in
  plan_dom (p_kind pp) (dN (e_lhs e) (t + p_shift pp)%Z) ->
  plan_of_level m (p_kind pp) (dN (e_lhs e) t) (dN (e_lhs e) (t + p_shift pp)%Z)
  = plan_target (p_kind pp) (match p_row pp with Some r => d0 r t | None => 0%R end).
Proof. exact exogenized_hits_target. Qed.
Print Assumptions C17_exogenized_hits_target.

(* 5. execution_order = "dates_equations" on sequentially ordered models without leads of endogenous rows *)
Theorem C17_dates_equations : forall m pl cols (eqs : list (eqn (RA m))) (d0 : data (RA m)),
  increasing cols -> (forall e, In e eqs -> eqn_ok m e) ->
  no_endogenous_leads m pl cols eqs -> sequentially_ordered m pl cols eqs ->
  let dN := simulate_model (RA m) pl DatesEquations cols eqs d0 in
  (forall t e, In t cols -> In e eqs -> dom_ok m pl (t, e) dN) ->
  forall t e, In t cols -> In e eqs -> holds m e t dN.
Proof. exact simulate_dates_equations_correct. Qed.
Print Assumptions C17_dates_equations.

(* execution_order = "equations_dates" on models whose equations read rows of earlier equations and their own lags *)
Theorem C17_equations_dates : forall m pl cols (eqs : list (eqn (RA m))) (d0 : data (RA m)),
  increasing cols -> (forall e, In e eqs -> eqn_ok m e) ->
  no_own_leads m pl cols eqs -> reads_only_earlier m pl cols eqs ->
  let dN := simulate_model (RA m) pl EquationsDates cols eqs d0 in
  (forall t e, In t cols -> In e eqs -> dom_ok m pl (t, e) dN) ->
  forall t e, In t cols -> In e eqs -> holds m e t dN.
Proof. exact simulate_equations_dates_correct. Qed.
Print Assumptions C17_equations_dates.

(* the two orders are the iterators of _simulate_v, and both satisfy reads-before-writes under those conditions *)
Theorem C17_orders_are_reads_before_writes : forall m pl cols (eqs : list (eqn (RA m))),
  increasing cols ->
  (no_endogenous_leads m pl cols eqs -> sequentially_ordered m pl cols eqs ->
   rbw m pl (steps_dates_equations (RA m) cols eqs)) /\
  (no_own_leads m pl cols eqs -> reads_only_earlier m pl cols eqs ->
   rbw m pl (steps_equations_dates (RA m) cols eqs)).
Proof. intros m pl cols eqs H. split; [now apply rbw_dates_equations | now apply rbw_equations_dates]. Qed.
Print Assumptions C17_orders_are_reads_before_writes.

(* non-vacuity: a three-equation model (a level equation, a diff equation, an identity) with a plan exogenizing
   the first variable through its difference meets every hypothesis of both order theorems *)
Example C17_hypotheses_satisfiable : forall m,
  increasing ex_cols /\ (forall e, In e (ex_eqs m) -> eqn_ok m e) /\
  no_endogenous_leads m ex_plan ex_cols (ex_eqs m) /\ sequentially_ordered m ex_plan ex_cols (ex_eqs m) /\
  no_own_leads m ex_plan ex_cols (ex_eqs m) /\ reads_only_earlier m ex_plan ex_cols (ex_eqs m) /\
  (forall (d : data (RA m)) t e, In t ex_cols -> In e (ex_eqs m) -> dom_ok m ex_plan (t, e) d) /\
  (exists t e pp, In t ex_cols /\ In e (ex_eqs m) /\ get_transform (RA m) ex_plan e t = Some pp).
Proof. exact hypotheses_satisfiable. Qed.

(* 6. WHICH numbers the equations are evaluated with.  The initial working array is built from the input databox by
      slatable_for_simulate's fallbacks / overwrites (routing tables regenerated from the source, gen/SeqSlatableGen.v).
      parameters_from_data=False (the default): a parameter row carries the value assigned in the model in every
      column, whatever the input databox holds under that name and whatever shocks_from_data is ... *)
Theorem C17_slate_parameter_from_model : forall m (sm : seqmodel (RA m)) r (v : R) sfd (raw : data (RA m)) c,
  sm_ok m sm -> alookup (RA m) (sm_params sm) r = Some v ->
  initial_slate (RA m) sm false sfd raw r c = v.
Proof. exact slate_parameter_from_model. Qed.
Print Assumptions C17_slate_parameter_from_model.

(* ... parameters_from_data=True: the databox value where it is not missing, the model's value otherwise *)
Theorem C17_slate_parameter_from_data : forall m (sm : seqmodel (RA m)) r (v : R) sfd (raw : data (RA m)) c,
  sm_ok m sm -> alookup (RA m) (sm_params sm) r = Some v ->
  initial_slate (RA m) sm true sfd raw r c = if m (raw r c) then v else raw r c.
Proof. exact slate_parameter_from_data. Qed.
Print Assumptions C17_slate_parameter_from_data.

(* residual rows: shocks_from_data=True (the default) the input residual where present, zero otherwise;
   shocks_from_data=False zero everywhere -- whatever parameters_from_data is; all other rows are the databox rows *)
Theorem C17_slate_residual_rows : forall m (sm : seqmodel (RA m)) r pfd (raw : data (RA m)) c,
  sm_ok m sm -> In r (sm_resids sm) ->
  initial_slate (RA m) sm pfd true raw r c = (if m (raw r c) then 0 else raw r c)%R /\
  initial_slate (RA m) sm pfd false raw r c = 0%R.
Proof. exact slate_residual_rows. Qed.
Print Assumptions C17_slate_residual_rows.

Theorem C17_slate_other_rows : forall m (sm : seqmodel (RA m)) r pfd sfd (raw : data (RA m)) c,
  alookup (RA m) (sm_params sm) r = None -> ~ In r (sm_resids sm) ->
  initial_slate (RA m) sm pfd sfd raw r c = raw r c.
Proof. exact slate_other_row. Qed.
Print Assumptions C17_slate_other_rows.

Theorem C17_flag_defaults : default_parameters_from_data = false /\ default_shocks_from_data = true.
Proof. exact simulate_flag_defaults. Qed.
Print Assumptions C17_flag_defaults.

(* a simulated period's residual is the input residual (zero where the databox has none), under shocks_from_data=True *)
Theorem C17_simulated_residual_is_input : forall m (sm : seqmodel (RA m)) pfd pl o cols (eqs : list (eqn (RA m)))
    (raw : data (RA m)) r c,
  sm_ok m sm -> In r (sm_resids sm) ->
  (forall s, In s (steps_of (RA m) o cols eqs) -> ~ In (r, c) (writes m s)) ->
  simulate_public (RA m) sm pfd true pl o cols eqs raw r c = (if m (raw r c) then 0 else raw r c)%R.
Proof. exact simulated_residual_is_input. Qed.
Print Assumptions C17_simulated_residual_is_input.

(* 7. the public entry point with parameters_from_data=False, for EVERY input databox (also one holding entries named
      like the parameters), either shocks_from_data, any plan: the result does not depend on those entries ... *)
Theorem C17_parameter_data_ignored : forall m (sm : seqmodel (RA m)) sfd pl o cols (eqs : list (eqn (RA m)))
    (raw raw' : data (RA m)),
  sm_ok m sm -> (forall r c, alookup (RA m) (sm_params sm) r = None -> raw r c = raw' r c) ->
  simulate_public (RA m) sm false sfd pl o cols eqs raw = simulate_public (RA m) sm false sfd pl o cols eqs raw'.
Proof. exact simulate_public_ignores_parameter_data. Qed.
Print Assumptions C17_parameter_data_ignored.

(* ... and at the end each equation, WITH THE MODEL'S PARAMETER VALUES written in place of the parameter names,
   holds together with its residual in every simulated period, under either execution order *)
Theorem C17_public_dates_equations : forall m (sm : seqmodel (RA m)) sfd pl cols (eqs : list (eqn (RA m)))
    (raw : data (RA m)),
  sm_ok m sm -> params_not_written m sm eqs ->
  increasing cols -> (forall e, In e eqs -> eqn_ok m e) ->
  no_endogenous_leads m pl cols eqs -> sequentially_ordered m pl cols eqs ->
  let dN := simulate_public (RA m) sm false sfd pl DatesEquations cols eqs raw in
  (forall t e, In t cols -> In e eqs -> dom_ok m pl (t, e) dN) ->
  forall t e, In t cols -> In e eqs -> holds m (subst_eqn (RA m) (sm_params sm) e) t dN.
Proof. exact simulate_public_dates_equations. Qed.
Print Assumptions C17_public_dates_equations.

Theorem C17_public_equations_dates : forall m (sm : seqmodel (RA m)) sfd pl cols (eqs : list (eqn (RA m)))
    (raw : data (RA m)),
  sm_ok m sm -> params_not_written m sm eqs ->
  increasing cols -> (forall e, In e eqs -> eqn_ok m e) ->
  no_own_leads m pl cols eqs -> reads_only_earlier m pl cols eqs ->
  let dN := simulate_public (RA m) sm false sfd pl EquationsDates cols eqs raw in
  (forall t e, In t cols -> In e eqs -> dom_ok m pl (t, e) dN) ->
  forall t e, In t cols -> In e eqs -> holds m (subst_eqn (RA m) (sm_params sm) e) t dN.
Proof. exact simulate_public_equations_dates. Qed.
Print Assumptions C17_public_equations_dates.

(* parameters_from_data=True: the parameter rows used (and reported) are the databox values where present *)
Theorem C17_public_parameter_rows_from_data : forall m (sm : seqmodel (RA m)) sfd pl o cols (eqs : list (eqn (RA m)))
    (raw : data (RA m)) r (v : R) c,
  sm_ok m sm -> params_not_written m sm eqs -> alookup (RA m) (sm_params sm) r = Some v ->
  simulate_public (RA m) sm true sfd pl o cols eqs raw r c = if m (raw r c) then v else raw r c.
Proof. exact simulate_public_parameter_rows_from_data. Qed.
Print Assumptions C17_public_parameter_rows_from_data.

(* non-vacuity: y = p*y[-1] with p = 1/2 in the model meets every hypothesis of both theorems; with a databox that says
   p = 3/10 the simulation uses 1/2, and 3/10 under parameters_from_data=True *)
Example C17_public_hypotheses_satisfiable : forall m,
  sm_ok m (exs_sm m) /\ params_not_written m (exs_sm m) (exs_eqs m) /\ increasing exs_cols /\
  (forall e, In e (exs_eqs m) -> eqn_ok m e) /\
  no_endogenous_leads m exs_plan exs_cols (exs_eqs m) /\ sequentially_ordered m exs_plan exs_cols (exs_eqs m) /\
  no_own_leads m exs_plan exs_cols (exs_eqs m) /\ reads_only_earlier m exs_plan exs_cols (exs_eqs m) /\
  (forall (d : data (RA m)) t e, In t exs_cols -> In e (exs_eqs m) -> dom_ok m exs_plan (t, e) d).
Proof. exact public_hypotheses_satisfiable. Qed.

Example C17_public_example_values : forall m (raw : data (RA m)) sfd pl o c,
  (forall c, raw 1%nat c = (3/10)%R) ->
  simulate_public (RA m) (exs_sm m) false sfd pl o exs_cols (exs_eqs m) raw 1%nat c = (1/2)%R /\
  (m (3/10)%R = false -> simulate_public (RA m) (exs_sm m) true sfd pl o exs_cols (exs_eqs m) raw 1%nat c = (3/10)%R).
Proof. exact public_example_values. Qed.
