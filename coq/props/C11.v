(* C11  Period conversions round-trip; frequency conversion preserves containment.
   Only restatements: every proof is `exact <lemma of proofs/CodecsProofs.v>`.
   in_domain p      : p is a yearly / half-yearly / quarterly / monthly period of a year 1..9999, or a daily period
                      of the CPython date range;   sdmx_domain p : in_domain p, or p is an integer period (any integer).
   The SDMX patterns (gen_sdmx_formats), every format string (gen_to_sdmx_F, gen_to_iso, gen_repr_F), every
   from_sdmx_string body (gen_from_sdmx_F), month_to_segment and the day tables are regenerated from dates.py on every
   run; strings are lists of characters with the str/int/format semantics of lib/PyStr.v; fullmatch is lib/RegexSub.v. *)
From Coq Require Import ZArith Bool Ascii String List.
From Verif Require Import lib.Calendar lib.RegexSub lib.PyStr lib.DatesBase gen.DatesGen model.Dates model.Codecs
     proofs.DatesProofs proofs.CodecsProofs gen.CodecsExtGen model.CodecsExt proofs.CodecsExtProofs
     model.CodecsExt2 proofs.CodecsExt2Proofs.
Import ListNotations.
Open Scope Z_scope.

(* 1. SDMX strings: for every period of every class the text produced by to_sdmx_string() decodes to the same period,
      with the frequency given AND with the frequency auto-detected from the text (first matching entry of
      SDMX_REXP_FORMATS).  On the unrepaired source the INTEGER pattern ends with a stray comma and this fails. *)
Theorem C11_sdmx_roundtrip_autodetect : forall p, sdmx_domain p ->
  exists x, to_sdmx p = Ok x /\ from_sdmx_as (p_freq p) x = Ok p /\ detect x = Some (p_freq p) /\ from_sdmx x = Ok p.
Proof. exact sdmx_roundtrip_autodetect. Qed.
Print Assumptions C11_sdmx_roundtrip_autodetect.

(* 2. ISO strings at every position *)
Theorem C11_iso_roundtrip : forall p pos, in_domain p ->
  exists x, to_iso pos p = Ok x /\ from_iso (p_freq p) x = Ok p.
Proof. exact iso_roundtrip. Qed.
Print Assumptions C11_iso_roundtrip.

(* 3. (year, segment) *)
Theorem C11_year_segment_roundtrip : forall p, in_domain p ->
  exists y seg, to_year_segment p = Ok (y, seg) /\ from_year_segment (p_freq p) y seg = Ok p.
Proof. exact year_segment_roundtrip. Qed.
Print Assumptions C11_year_segment_roundtrip.

(* 4. (year, month, day) at start / middle / end *)
Theorem C11_ymd_roundtrip : forall p pos, in_domain p ->
  exists y m d, to_ymd pos p = Ok (y, m, d) /\ from_ymd (p_freq p) y m d = Ok p.
Proof. exact ymd_roundtrip. Qed.
Print Assumptions C11_ymd_roundtrip.

(* 5. Python dates (to_python_date accepts the date, from_python_date returns the period) *)
Theorem C11_pydate_roundtrip : forall p pos, in_domain p ->
  exists t, to_pydate pos p = Ok t /\ from_pydate (p_freq p) t = Ok p.
Proof. exact pydate_roundtrip. Qed.
Print Assumptions C11_pydate_roundtrip.

(* 6. repr: the constructor call written by repr, evaluated, is the period (term level; the text of repr is tied to
      the implementation by the correspondence, Python's eval is outside the model) *)
Theorem C11_repr_roundtrip : forall p, sdmx_domain p ->
  exists t, repr_term p = Ok t /\ eval_term t = Ok p.
Proof. exact repr_roundtrip. Qed.
Print Assumptions C11_repr_roundtrip.

(* 7. converting to another calendar frequency returns the target period that contains the chosen day of the source *)
Theorem C11_refrequent_contains : forall p pos g, in_domain p -> cal_freq g ->
  exists r y m d a c,
    refrequent g pos p = Ok r /\ p_freq r = g /\ to_ymd pos p = Ok (y, m, d) /\
    to_ymd PStart r = Ok a /\ to_ymd PEnd r = Ok c /\
    ord3 a <= ord_of_ymd y m d <= ord3 c.
Proof. exact refrequent_contains. Qed.
Print Assumptions C11_refrequent_contains.

(* 8. ... so conversion is monotone *)
Theorem C11_refrequent_monotone : forall p q pos g r r', in_domain p -> in_domain q -> cal_freq g ->
  p_freq p = p_freq q -> p_serial p <= p_serial q ->
  refrequent g pos p = Ok r -> refrequent g pos q = Ok r' -> p_freq r = p_freq r' /\ p_serial r <= p_serial r'.
Proof. exact refrequent_monotone. Qed.
Print Assumptions C11_refrequent_monotone.

(* 9. ... and coarse -> fine -> coarse never leaves the original coarse period: every ordered pair (f coarser, g finer:
      g a multiple of f among 1, 2, 4, 12, or g daily), every position on the way down and on the way back *)
Theorem C11_coarse_fine_coarse : forall f g s pos1 pos2, finer f g -> 1 <= s / f <= MAXYEAR ->
  exists r, refrequent g pos1 (mkP f s) = Ok r /\ p_freq r = g /\ refrequent f pos2 r = Ok (mkP f s).
Proof. exact coarse_fine_coarse. Qed.
Print Assumptions C11_coarse_fine_coarse.

(* the regular-expression matcher used for detection is the language semantics of the pattern *)
Theorem C11_fullmatch_spec : forall r s, fullmatch r s = true <-> Matches r s.
Proof. exact fullmatch_spec. Qed.
Print Assumptions C11_fullmatch_spec.

(* str(int) / int(str) of the string model are mutually inverse *)
Theorem C11_int_text_roundtrip : forall n, parse_int (dec_int n) = Some n.
Proof. exact parse_int_dec_int. Qed.
Print Assumptions C11_int_text_roundtrip.

(* 10. the import/export path (databoxes/_exports.py, _imports.py): the date columns of a sheet with any number of
       frequency blocks of any lengths (padded to the longest block) come back as the periods written, each block decoded
       with the frequency of its own mark and nothing else -- default codecs (str / Period.from_sdmx_string) ... *)
Theorem C11_sheet_sdmx_roundtrip : forall blocks, Forall (block_ok sdmx_domain) blocks ->
  exists cols, export_sheet (fmt_period FmtSdmx) blocks = Ok cols /\
               import_sheet (parse_cell ParSdmx) false cols = Ok (map (fun b => (fst b, enumerate_from 0 (snd b))) blocks).
Proof. exact sheet_sdmx_roundtrip. Qed.
Print Assumptions C11_sheet_sdmx_roundtrip.

(* ... and ISO codecs (to_iso_string at any position / Period.from_iso_string), where blocks of different frequencies
   hold the same text *)
Theorem C11_sheet_iso_roundtrip : forall pos blocks, Forall (block_ok in_domain) blocks ->
  exists cols, export_sheet (fmt_period (FmtIso pos)) blocks = Ok cols /\
               import_sheet (parse_cell ParIso) false cols = Ok (map (fun b => (fst b, enumerate_from 0 (snd b))) blocks).
Proof. exact sheet_iso_roundtrip. Qed.
Print Assumptions C11_sheet_iso_roundtrip.

(* start_period_only=True, in general (a block of any length, any padding `total`, SDMX and ISO codecs at every position):
   only the first cell is decoded; the rows of the block are start + 0, start + 1, ... for EVERY data row of the sheet
   (start_only_rows p0 n = [(0, p0 + 0); ...; (n-1, p0 + (n-1))], padding rows included); on the block's own rows the import
   returns exactly the exported periods IF AND ONLY IF the block is a run of consecutive periods (run_from p0 n). *)
Theorem C11_sheet_start_only_sdmx : forall b total, block_ok sdmx_domain b ->
  exists p0 rest cells,
    snd b = p0 :: rest /\
    export_column (fmt_period FmtSdmx) total (snd b) = Ok cells /\
    length cells = (length (snd b) + gen_export_padding total (length (snd b)))%nat /\
    extract_block (parse_cell ParSdmx) true (fst b) cells = Ok (start_only_rows p0 (length cells)) /\
    (firstn (length (snd b)) (start_only_rows p0 (length cells)) = enumerate_from 0 (snd b)
       <-> snd b = run_from p0 (length (snd b))).
Proof. exact sheet_start_only_sdmx_general. Qed.
Print Assumptions C11_sheet_start_only_sdmx.

Theorem C11_sheet_start_only_iso : forall pos b total, block_ok in_domain b ->
  exists p0 rest cells,
    snd b = p0 :: rest /\
    export_column (fmt_period (FmtIso pos)) total (snd b) = Ok cells /\
    length cells = (length (snd b) + gen_export_padding total (length (snd b)))%nat /\
    extract_block (parse_cell ParIso) true (fst b) cells = Ok (start_only_rows p0 (length cells)) /\
    (firstn (length (snd b)) (start_only_rows p0 (length cells)) = enumerate_from 0 (snd b)
       <-> snd b = run_from p0 (length (snd b))).
Proof. exact sheet_start_only_iso_general. Qed.
Print Assumptions C11_sheet_start_only_iso.

(* ... and the whole sheet (any number of blocks): every block is a function of its own first cell and of the number of
   data rows of the sheet, nothing else *)
Theorem C11_sheet_start_only_sdmx_sheet : forall blocks, Forall (block_ok sdmx_domain) blocks ->
  exists cols, export_sheet (fmt_period FmtSdmx) blocks = Ok cols /\
    import_sheet (parse_cell ParSdmx) true cols
      = Ok (map (fun b => (fst b, start_only_rows (hd (mkP 0 0) (snd b))
                   (length (snd b) + gen_export_padding (total_rows blocks) (length (snd b))))) blocks).
Proof. exact sheet_start_only_sdmx_sheet. Qed.
Print Assumptions C11_sheet_start_only_sdmx_sheet.

Theorem C11_sheet_start_only_iso_sheet : forall pos blocks, Forall (block_ok in_domain) blocks ->
  exists cols, export_sheet (fmt_period (FmtIso pos)) blocks = Ok cols /\
    import_sheet (parse_cell ParIso) true cols
      = Ok (map (fun b => (fst b, start_only_rows (hd (mkP 0 0) (snd b))
                   (length (snd b) + gen_export_padding (total_rows blocks) (length (snd b))))) blocks).
Proof. exact sheet_start_only_iso_sheet. Qed.
Print Assumptions C11_sheet_start_only_iso_sheet.

(* non-vacuity: a consecutive quarterly block is a run; a block with a hole is not, and its second row is read as start + 1 *)
Example C11_start_only_example :
  block_ok in_domain (4, [mkP 4 8084; mkP 4 8085; mkP 4 8086]) /\ block_ok in_domain (4, [mkP 4 8084; mkP 4 8086]) /\
  [mkP 4 8084; mkP 4 8085; mkP 4 8086] = run_from (mkP 4 8084) 3 /\ [mkP 4 8084; mkP 4 8086] <> run_from (mkP 4 8084) 2 /\
  bind (export_column (fmt_period (FmtIso PEnd)) 4 [mkP 4 8084; mkP 4 8086]) (extract_block (parse_cell ParIso) true 4)
    = Ok [(0, mkP 4 8084); (1, mkP 4 8085); (2, mkP 4 8086); (3, mkP 4 8087)].
Proof. exact start_only_example. Qed.

(* duplicate periods inside a block and unsorted rows (nothing in block_ok asks for sorted or distinct periods): the rows read
   are (i, the period written in row i); Series.set_data writes them in order, so the imported series holds at q the LAST row
   that carries q (series_lookup), holds nothing at a period that was not written, and when no period repeats every row is
   visible whatever the order of the rows (surviving_rows = the rows read) *)
Theorem C11_sheet_last_write_sdmx : forall b total, block_ok sdmx_domain b ->
  exists cells, export_column (fmt_period FmtSdmx) total (snd b) = Ok cells /\
    extract_block (parse_cell ParSdmx) false (fst b) cells = Ok (enumerate_from 0 (snd b)) /\
    (forall q, series_lookup (enumerate_from 0 (snd b)) q = None <-> ~ In q (snd b)) /\
    (forall q i, series_lookup (enumerate_from 0 (snd b)) q = Some i <->
       exists r1 r2, enumerate_from 0 (snd b) = r1 ++ (i, q) :: r2 /\ ~ In q (map snd r2)) /\
    (NoDup (snd b) -> surviving_rows (enumerate_from 0 (snd b)) = enumerate_from 0 (snd b)).
Proof. exact sheet_block_last_write_sdmx. Qed.
Print Assumptions C11_sheet_last_write_sdmx.

Theorem C11_sheet_last_write_iso : forall pos b total, block_ok in_domain b ->
  exists cells, export_column (fmt_period (FmtIso pos)) total (snd b) = Ok cells /\
    extract_block (parse_cell ParIso) false (fst b) cells = Ok (enumerate_from 0 (snd b)) /\
    (forall q, series_lookup (enumerate_from 0 (snd b)) q = None <-> ~ In q (snd b)) /\
    (forall q i, series_lookup (enumerate_from 0 (snd b)) q = Some i <->
       exists r1 r2, enumerate_from 0 (snd b) = r1 ++ (i, q) :: r2 /\ ~ In q (map snd r2)) /\
    (NoDup (snd b) -> surviving_rows (enumerate_from 0 (snd b)) = enumerate_from 0 (snd b)).
Proof. exact sheet_block_last_write_iso. Qed.
Print Assumptions C11_sheet_last_write_iso.

Example C11_last_write_example :
  surviving_rows (enumerate_from 0 [mkP 4 8086; mkP 4 8084; mkP 4 8086; mkP 4 8085])
    = [(1, mkP 4 8084); (2, mkP 4 8086); (3, mkP 4 8085)] /\
  series_lookup (enumerate_from 0 [mkP 4 8086; mkP 4 8084; mkP 4 8086; mkP 4 8085]) (mkP 4 8086) = Some 2 /\
  series_lookup (enumerate_from 0 [mkP 4 8086; mkP 4 8084; mkP 4 8086; mkP 4 8085]) (mkP 4 8087) = None.
Proof. exact last_write_example. Qed.

(* 6'. eval(repr(p)) = p on the TEXT: the text written by repr (yy(2020), qq(2020,1), dd(2020,1,31), ii(-5), ...) is read by
       the parser of the repr grammar (name, "(", optionally signed integers separated by ",", ")") as exactly the constructor
       and integers of the structured term, whose evaluation is p -- every period of every class *)
Theorem C11_repr_text_roundtrip : forall p, sdmx_domain p ->
  exists x t, repr_str p = Ok x /\ parse_repr x = Some t /\ repr_term p = Ok t /\ eval_term t = Ok p /\
              eval_repr_text x = Ok p.
Proof. exact repr_text_roundtrip. Qed.
Print Assumptions C11_repr_text_roundtrip.

(* the parser reads back every call text, negative integers included *)
Theorem C11_parse_call : forall name a r, forallb is_letter name = true -> parse_repr (call_text name a r) = Some (name, a :: r).
Proof. exact parse_call. Qed.
Print Assumptions C11_parse_call.

Example C11_repr_text_example :
  sdmx_domain (mkP freq_INTEGER (-5)) /\ repr_str (mkP freq_INTEGER (-5)) = Ok (s2l "ii(-5)") /\
  parse_repr (s2l "ii(-5)") = Some (s2l "ii", [-5]) /\ eval_repr_text (s2l "ii(-5)") = Ok (mkP freq_INTEGER (-5)) /\
  parse_repr (s2l "dd(2021,7,29)") = Some (s2l "dd", [2021; 7; 29]) /\
  eval_repr_text (s2l "dd(2021,7,29)") = Ok (mkP freq_DAILY 738000) /\
  parse_repr (s2l "qq(2021,1") = None /\ parse_repr (s2l "qq(2021,,1)") = None /\ parse_repr (s2l "qq(2021,1))") = None.
Proof. exact repr_text_example. Qed.

(* 11. periods reached by arithmetic with Python-int or numpy-int offsets (p + k, k + p, p - k, p.shift(k), any
       history): the serial is a builtin int, the period is the one computed on plain integers, its repr text is the
       plain repr, and the repr term evaluates back to it *)
Theorem C11_arith_serial_pyint : forall f s ops, tt (tp_serial (run_arith gen_casts (tp_init gen_casts f s) ops)) = TPy.
Proof. exact arith_serial_pyint. Qed.
Print Assumptions C11_arith_serial_pyint.

Theorem C11_arith_repr_roundtrip : forall f s ops,
  let q := run_arith gen_casts (tp_init gen_casts f s) ops in
  sdmx_domain (untag q) ->
  untag q = run_plain (mkP f (tv s)) ops /\ repr_str_t q = repr_str (untag q) /\
  exists t, repr_term (untag q) = Ok t /\ eval_term t = Ok (untag q).
Proof. exact arith_repr_roundtrip. Qed.
Print Assumptions C11_arith_repr_roundtrip.

(* without the int() of Period.__init__ (and of __add__) one numpy offset makes the repr text a non-constructor text *)
Theorem C11_arith_without_casts_refuted :
  let c := mkCasts false false false in
  let q := run_arith c (tp_init c 4 (mkT 8080 TPy)) [AAdd (mkT 3 TNp); AAdd (mkT 1 TPy)] in
  tt (tp_serial q) = TNp /\ untag q = mkP 4 8084 /\
  repr_str_t q = Ok (s2l "qq(np.int64(2021),np.int64(1))") /\ repr_str (untag q) = Ok (s2l "qq(2021,1)").
Proof. exact arith_without_casts_refuted. Qed.
Print Assumptions C11_arith_without_casts_refuted.

Example C11_ext_examples :
  block_ok in_domain (1, [mkP 1 2021; mkP 1 2022]) /\ block_ok in_domain (4, [mkP 4 8084]) /\
  export_sheet (fmt_period (FmtIso PStart)) [(1, [mkP 1 2021; mkP 1 2022]); (4, [mkP 4 8084])]
    = Ok [(1, [s2l "2021-01-01"; s2l "2022-01-01"]); (4, [s2l "2021-01-01"; []])] /\
  import_sheet (parse_cell ParIso) false [(1, [s2l "2021-01-01"; s2l "2022-01-01"]); (4, [s2l "2021-01-01"; []])]
    = Ok [(1, [(0, mkP 1 2021); (1, mkP 1 2022)]); (4, [(0, mkP 4 8084)])].
Proof. exact sheet_iso_example. Qed.

(* non-vacuity and concrete instances (quarterly, integer, leap-day ISO string, daily repr, quarterly <-> monthly) *)
Example C11_examples :
  in_domain (mkP 4 8082) /\ in_domain (mkP freq_DAILY 738000) /\ sdmx_domain (mkP freq_INTEGER (-5)) /\
  finer 4 12 /\ finer 2 freq_DAILY /\ cal_freq 12 /\
  to_sdmx (mkP 4 8082) = Ok (s2l "2020-Q3") /\ from_sdmx (s2l "2020-Q3") = Ok (mkP 4 8082) /\
  to_sdmx (mkP freq_INTEGER (-5)) = Ok (s2l "(-5)") /\ from_sdmx (s2l "(-5)") = Ok (mkP freq_INTEGER (-5)) /\
  to_iso PEnd (mkP 12 24241) = Ok (s2l "2020-02-29") /\ repr_str (mkP freq_DAILY 738000) = Ok (s2l "dd(2021,7,29)") /\
  refrequent 12 PEnd (mkP 4 8082) = Ok (mkP 12 24248) /\ refrequent 4 PMiddle (mkP 12 24248) = Ok (mkP 4 8082).
Proof. exact codecs_examples. Qed.
