(* C03  Kalman filter, smoother and likelihood equal exact Gaussian conditioning.
   Only restatements: every proof is `exact <lemma of proofs/KalmanProofs.v or lib/MatLemmas.v>`.

   "Gaussian conditioning" is defined algebraically (lib/MatLemmas.v): for (x, y) with means
   (mu_x, mu_y) and covariance [[Sxx, Sxy], [Sxy', Syy]],
       cond_mean mu_x mu_y Sxy Syy y = mu_x + Sxy Syy^-1 (y - mu_y)
       cond_cov  Sxx Sxy Syy         = Sxx - Sxy Syy^-1 Sxy'
       nll_gauss log log2pi mu S y   = 1/2 (k log2pi + log (det S) + (y - mu)' S^-1 (y - mu))
   The scalar logarithm `flog` and the constant `flog2pi` are Section variables; the only property
   of the logarithm that is used is flog (a b) = flog a + flog b for non-zero a, b.

   The statements are about model/Kalman.v (kf_step, kf_run, likelihood, contributions) on MathComp
   matrices over an arbitrary real field; the same model text, on rationals, is run against irispie's
   kalman_filter by harness/C03.py.  The smoother identities are under C08.
   Not proved (see MANIFEST / report): that the SMOOTHED moments equal the batch conditional moments
   given ALL observations, and the batch characterisation of the predicted/updated shock estimates
   (both are checked numerically by the falsifier on every run). *)
From mathcomp Require Import all_ssreflect all_algebra.
From Verif.lib Require Import MatOps MatMC MatLemmas.
From Verif.model Require Import Kalman.
From Verif.proofs Require Import KalmanProofs BatchProofs.
Set Implicit Arguments.
Unset Strict Implicit.
Import GRing.Theory.
Local Open Scope ring_scope.

Section C03.
Variable F : realFieldType.
Variables (flog : F -> F) (flog2pi : F).
Notation M := (MC flog flog2pi).
Variables n nw : nat.
Notation krun := (@kf_run M n nw).
Notation kstep := (@kf_step M n nw).

(* 0. kf_step (the literal transcription of the loop body of predict, with symmetrize, the
      empty-observation branch and the P-is-None branch) computes, for every symmetric Q and
      symmetric shock covariances, exactly the textbook quantities listed in step_spec *)
Theorem C03_step_meets_spec (a : 'cV[F]_n) (Q : 'M[F]_n) (p : period M n nw) :
  is_sym Q -> ok_period p -> step_spec a Q (kstep a Q p).
Proof. exact: kf_step_spec. Qed.

(* 1. one step = Gaussian conditioning: the prediction (a0, Q0) is the push-forward of (a, Q) through
      the transition equation, (y0, F, Q0 Z') are the joint moments of (alpha_t, y_t), and the update
      (a1, Q1) is the conditional mean / covariance of alpha_t given y_t -- in every period of every run *)
Theorem C03_step_is_conditioning (a : 'cV[F]_n) (Q : 'M[F]_n) (ps : seq (period M n nw)) :
  is_sym Q -> all_ok ps -> cond_chain a Q (krun a Q ps).
Proof. exact: run_is_sequential_conditioning. Qed.

(* 2. tower law: conditioning on y1 and then on y2 (with the conditional moments of (x, y2) given y1)
      equals conditioning on the stacked vector (y1, y2): mean, covariance, and
      nll(y1, y2) = nll(y1) + nll(y2 | y1) *)
Theorem C03_tower_mean nx n1 n2 (mu_x : 'cV[F]_nx) (m1 y1 : 'cV[F]_n1) (m2 y2 : 'cV[F]_n2)
    (Sx1 : 'M[F]_(nx, n1)) (Sx2 : 'M[F]_(nx, n2)) (S11 : 'M[F]_n1) (S12 : 'M[F]_(n1, n2)) (S22 : 'M[F]_n2) :
  S11 \in unitmx -> cond_cov S22 S12^T S11 \in unitmx ->
  cond_mean (cond_mean mu_x m1 Sx1 S11 y1) (cond_mean m2 m1 S12^T S11 y1)
            (cond_cross Sx2 Sx1 S11 S12^T) (cond_cov S22 S12^T S11) y2
  = cond_mean mu_x (col_mx m1 m2) (row_mx Sx1 Sx2) (block_mx S11 S12 S12^T S22) (col_mx y1 y2).
Proof. exact: tower_mean. Qed.

Theorem C03_tower_cov nx n1 n2 (Sxx : 'M[F]_nx)
    (Sx1 : 'M[F]_(nx, n1)) (Sx2 : 'M[F]_(nx, n2)) (S11 : 'M[F]_n1) (S12 : 'M[F]_(n1, n2)) (S22 : 'M[F]_n2) :
  S11 \in unitmx -> cond_cov S22 S12^T S11 \in unitmx -> is_sym S11 ->
  cond_cov (cond_cov Sxx Sx1 S11) (cond_cross Sx2 Sx1 S11 S12^T) (cond_cov S22 S12^T S11)
  = cond_cov Sxx (row_mx Sx1 Sx2) (block_mx S11 S12 S12^T S22).
Proof. exact: tower_cov. Qed.

Theorem C03_tower_nll n1 n2 (m1 y1 : 'cV[F]_n1) (m2 y2 : 'cV[F]_n2)
    (S11 : 'M[F]_n1) (S12 : 'M[F]_(n1, n2)) (S22 : 'M[F]_n2) :
  (forall a b, a != 0 -> b != 0 -> flog (a * b) = flog a + flog b) ->
  is_sym S11 -> S11 \in unitmx -> cond_cov S22 S12^T S11 \in unitmx ->
  nll_gauss flog flog2pi (col_mx m1 m2) (block_mx S11 S12 S12^T S22) (col_mx y1 y2)
  = nll_gauss flog flog2pi m1 S11 y1
    + nll_gauss flog flog2pi (cond_mean m2 m1 S12^T S11 y1) (cond_cov S22 S12^T S11) y2.
Proof. exact: tower_nll. Qed.

(* the block inverse and determinant behind it *)
Theorem C03_schur n1 n2 (A : 'M[F]_n1) (B : 'M[F]_(n1, n2)) (C : 'M[F]_(n2, n1)) (D : 'M[F]_n2) :
  A \in unitmx -> D - C *m invmx A *m B \in unitmx ->
  invmx (block_mx A B C D) = schur_inverse A B C D
  /\ \det (block_mx A B C D) = \det A * \det (D - C *m invmx A *m B).
Proof. exact: schur_inv_det. Qed.

Section Likelihood.
Hypothesis flogM : forall x y : F, x != 0 -> y != 0 -> flog (x * y) = flog x + flog y.

(* 3. the likelihood is the prediction-error decomposition: every contribution is the negative log
      density of that period's observations under N(y0_t, F_t), and the total is their sum *)
Theorem C03_likelihood_is_prediction_error_decomposition (a : 'cV[F]_n) (Q : 'M[F]_n) (ps : seq (period M n nw)) :
  is_sym Q -> all_ok ps -> all_unit (krun a Q ps) ->
  l_nll (likelihood false (krun a Q ps))
  = \sum_(x <- krun a Q ps) nll_gauss flog flog2pi (f_y0 (ff x)) (f_F (ff x)) (p_y (fp x)).
Proof. exact: prediction_error_decomposition. Qed.

(* 4. the per-period contributions sum to the total, with and without variance rescaling, for every
      list of period records (model of the code as repaired by fixes/C03_1.patch; the unrepaired code
      leaves the contributions unscaled when rescale_variance=True and the check reports it) *)
Theorem C03_contributions_sum (b : bool) (fs : seq (fper M n nw)) :
  sum_lg M (contributions (l_var_scale (likelihood b fs)) fs) = l_nll (likelihood b fs).
Proof. exact: contributions_sum. Qed.

Theorem C03_likelihood_closed_form (fs : seq (fper M n nw)) :
  l_nll (likelihood false fs) = 2%:R^-1 * ((N_of fs)%:R * flog2pi + LD_of fs + QF_of fs).
Proof. exact: likelihood_closed_form. Qed.

(* 5. periods without observations contribute nothing and leave the state as predicted *)
Theorem C03_empty_period_contributes_zero (a : 'cV[F]_n) (Q : 'M[F]_n) (p : period M n nw) (f : frec p) :
  step_spec a Q f -> p_ny p = 0%N ->
  [/\ forall vs, contribution vs (mkFper p f) = 0, qf (mkFper p f) = 0, ld (mkFper p f) = 0,
      f_a1 f = f_a0 f & f_Q1 f = f_Q0 f].
Proof. exact: empty_period. Qed.

(* 6. rescale_variance = True: var_scale = sum pe' F^-1 pe / sum n_t and the reported likelihood is the one
      concentrated with respect to a common variance factor *)
Theorem C03_rescale_variance_law (fs : seq (fper M n nw)) :
  N_of fs != 0%N -> QF_of fs != 0 ->
  let vs := QF_of fs / (N_of fs)%:R in
  l_var_scale (likelihood true fs) = vs /\
  l_nll (likelihood true fs)
    = 2%:R^-1 * ((N_of fs)%:R * flog2pi + (LD_of fs + (N_of fs)%:R * flog vs) + (N_of fs)%:R).
Proof. exact: rescaled_likelihood. Qed.

Theorem C03_rescale_variance_no_observations (fs : seq (fper M n nw)) :
  N_of fs = 0%N ->
  l_var_scale (likelihood true fs) = 1 /\ l_nll (likelihood true fs) = 2%:R^-1 * LD_of fs.
Proof. exact: rescaled_likelihood_no_obs. Qed.

(* 6'. ... and that concentrated likelihood is the plain likelihood of the same model with every covariance
       (initial MSE, transition and measurement shock covariances) multiplied by var_scale; the two runs have
       the same means, gains and prediction errors and every MSE of the rescaled run is var_scale times the
       original one (scaled_runs), which is what rescale_stds applies to the reported standard deviations *)
Theorem C03_rescale_is_scaled_model (a : 'cV[F]_n) (Q : 'M[F]_n) (ps : seq (period M n nw)) :
  is_sym Q -> all_ok ps -> all_unit (krun a Q ps) ->
  let fs := krun a Q ps in
  N_of fs != 0%N -> QF_of fs != 0 ->
  let vs := l_var_scale (likelihood true fs) in
  let fs' := krun a (vs *: Q) [seq scale_period vs p | p <- ps] in
  scaled_runs vs fs fs' /\ l_nll (likelihood true fs) = l_nll (likelihood false fs').
Proof. exact: rescale_is_scaled_model. Qed.

(* 7. the filter equals batch conditioning (induction over the periods from 1-2): the joint Gaussian law
      of (alpha_t, Y_t), Y_t = the stacked observations of periods 1..t, is built by push-forward through
      the transition equation (jpredict) and augmentation by the new observation (jobserve); after ANY
      number of periods the filter's updated mean and MSE are the conditional mean and covariance of
      alpha_t given Y_t (`filtered`), and the reported likelihood is the negative log density of Y_t *)
Theorem C03_filter_is_batch (a : 'cV[F]_n) (Q : 'M[F]_n) (ps : seq (period M n nw)) :
  is_sym Q -> all_ok ps -> all_unit (krun a Q ps) ->
  let j := tagged (jrun (j0 a Q) ps) in
  filtered j (last_state a Q (krun a Q ps)).1 (last_state a Q (krun a Q ps)).2
  /\ l_nll (likelihood false (krun a Q ps)) = nll_gauss flog flog2pi (j_mY j) (j_CYY j) (j_Y j).
Proof. exact: filter_is_batch. Qed.

(* 7'. ... and so are the predicted moments: if (a, Q) is the conditional law of the state given the data
       so far, the prediction (a0, Q0) of the next period is the conditional law of the next state given the
       same data (push-forward of the joint law through the transition equation) *)
Theorem C03_prediction_is_batch N (j : joint F n N) (a : 'cV[F]_n) (Q : 'M[F]_n) (p : period M n nw) (f : frec p) :
  filtered j a Q -> step_spec a Q f ->
  let j' := jpredict p j in
  f_a0 f = cond_mean (j_ma j') (j_mY j') (j_CaY j') (j_CYY j') (j_Y j')
  /\ f_Q0 f = cond_cov (j_Caa j') (j_CaY j') (j_CYY j').
Proof. exact: prediction_is_batch. Qed.

End Likelihood.

(* non-vacuity: a concrete one-dimensional system with two observed periods (T = P = Z = H = 1, unit
   variances, any data y1 y2, over any real field) meets every hypothesis used above *)
Example C03_hypotheses_satisfiable (y1 y2 : F) :
  let ps := [:: ex_period flog flog2pi y1; ex_period flog flog2pi y2] in
  let Q : 'M[F]_1 := 1%:M in
  [/\ is_sym Q, all_ok ps & all_unit (@kf_run M 1 1 0 Q ps)].
Proof. exact: ex_hypotheses. Qed.

End C03.

Print Assumptions C03_step_meets_spec.
Print Assumptions C03_step_is_conditioning.
Print Assumptions C03_tower_mean.
Print Assumptions C03_tower_cov.
Print Assumptions C03_tower_nll.
Print Assumptions C03_schur.
Print Assumptions C03_likelihood_is_prediction_error_decomposition.
Print Assumptions C03_contributions_sum.
Print Assumptions C03_likelihood_closed_form.
Print Assumptions C03_empty_period_contributes_zero.
Print Assumptions C03_rescale_variance_law.
Print Assumptions C03_rescale_variance_no_observations.
Print Assumptions C03_rescale_is_scaled_model.
Print Assumptions C03_filter_is_batch.
Print Assumptions C03_prediction_is_batch.

(* ---- round 4: the model OBJECT as a state machine (model/KalmanSession.v; proofs/KalmanSessionProofs.v) ----
   A model is a list of variants (values, solution with its two memo lists of expansion matrices); operations
   assign / solve / alter_num_variants / kalman_filter (both modes) / simulate.  `arun` is the specification
   machine: it stores no solution and no cache, and answers a call with a function of the variant's current
   values, the values it was last solved for, the mode and the variant's data column only.  The black boxes
   (assign1, solve1, devsol, expand, kf, sim) are arbitrary functions. *)
From Verif.model Require KalmanSession.
From Verif.proofs Require KalmanSessionProofs.

(* history independence: for every operation history and every pair of related initial states, everything the
   session returns equals what the specification machine returns, and the final states are related again *)
Theorem C03_session_history_independence (P X S E D O : Type) (assign1 : X -> P -> P) (solve1 : P -> S) (devsol : S -> S)
    (expand : bool -> S -> nat -> E) (fwd_of : D -> option nat) (kf sim : S -> P -> list E -> D -> O)
    (ops : list (KalmanSession.op X D)) (vs : list (KalmanSession.variant P S E)) (avs : list (KalmanSession.avariant P)) :
  List.Forall2 (KalmanSession.rel P S E solve1 expand) vs avs ->
  fst (KalmanSession.run P X S E D O assign1 solve1 devsol expand fwd_of kf sim ops vs) = fst (KalmanSession.arun P X S E D O assign1 solve1 devsol expand fwd_of kf sim ops avs) /\
  match snd (KalmanSession.run P X S E D O assign1 solve1 devsol expand fwd_of kf sim ops vs), snd (KalmanSession.arun P X S E D O assign1 solve1 devsol expand fwd_of kf sim ops avs) with
  | Some r, Some r' => List.Forall2 (KalmanSession.rel P S E solve1 expand) r r'
  | None, None => True
  | _, _ => False
  end.
Proof. exact (KalmanSessionProofs.session_refines P X S E D O assign1 solve1 devsol expand fwd_of kf sim ops vs avs). Qed.

(* in every state reachable from a freshly built model, a variant that is solved for its current values p answers
   a filter / simulate call (b) in either mode exactly as a freshly built and solved single-variant model with
   values p does on that variant's data column *)
Theorem C03_reachable_solved_is_fresh (P X S E D O : Type) (assign1 : X -> P -> P) (solve1 : P -> S) (devsol : S -> S)
    (expand : bool -> S -> nat -> E) (fwd_of : D -> option nat) (kf sim : S -> P -> list E -> D -> O)
    (ops : list (KalmanSession.op X D)) (p0 : P) (b dev : bool) (vs : list (KalmanSession.variant P S E))
    (avs : list (KalmanSession.avariant P)) (ds : list D) (dd : D) (k : nat) (p : P) :
  snd (KalmanSession.run P X S E D O assign1 solve1 devsol expand fwd_of kf sim ops (KalmanSession.fresh P S E solve1 p0)) = Some vs ->
  snd (KalmanSession.arun P X S E D O assign1 solve1 devsol expand fwd_of kf sim ops (cons (KalmanSession.mkAv P p0 (Some p0)) nil)) = Some avs ->
  lt k (length vs) ->
  List.nth k avs (KalmanSession.mkAv P p None) = KalmanSession.mkAv P p (Some p) ->
  List.nth k (List.map snd (KalmanSession.call_model P S E D O devsol expand fwd_of kf sim b dev vs ds dd)) None
  = List.nth 0%nat (List.map snd (KalmanSession.call_model P S E D O devsol expand fwd_of kf sim b dev (KalmanSession.fresh P S E solve1 p)
                                 (cons (KalmanSession.etl ds dd k) nil) dd)) None.
Proof. exact (KalmanSessionProofs.reachable_solved_is_fresh P X S E D O assign1 solve1 devsol expand fwd_of kf sim ops p0 b dev vs avs ds dd k p). Qed.

Print Assumptions C03_session_history_independence.
Print Assumptions C03_reachable_solved_is_fresh.

(* Round 5: the measurement block of the solution (fords/solutions.py: _solve_measurement_equations, REGENERATED from the
   source into gen/MeasBlockGen.v by translator/measblock.py).  For every dimension and every invertible Jacobian F0 of
   the measurement equations w.r.t. the measurement variables (not assumed diagonal or symmetric), the (Z, H, D) the code
   computes make the observation equation  y = Z xi + D + H w  used by the filter EQUIVALENT to the model's linearised
   measurement equations  F0 y + G0 xi + Hc + J0 w = 0. *)
From Verif.gen Require MeasBlockGen.
From Verif.proofs Require MeasBlockProofs.
Theorem C03_measurement_block_solves (K : fieldType) (flog0 : K -> K) (flog2pi0 : K) (ny nxi nw0 na : nat)
    (F0 : 'M[K]_ny) (G0 : 'M[K]_(ny, nxi)) (J0 : 'M[K]_(ny, nw0)) (Hc : 'cV[K]_ny) (Ua : 'M[K]_(nxi, na)) :
  F0 \in unitmx ->
  forall (y : 'cV[K]_ny) (xi : 'cV[K]_nxi) (w : 'cV[K]_nw0),
    (F0 *m y + G0 *m xi + Hc + J0 *m w = 0) <->
    (y = @MeasBlockGen.meas_Z (MC flog0 flog2pi0) ny nxi nw0 na F0 G0 J0 Hc Ua *m xi
         + @MeasBlockGen.meas_D (MC flog0 flog2pi0) ny nxi nw0 na F0 G0 J0 Hc Ua
         + @MeasBlockGen.meas_H (MC flog0 flog2pi0) ny nxi nw0 na F0 G0 J0 Hc Ua *m w).
Proof. exact (@MeasBlockProofs.meas_block_solves K flog0 flog2pi0 ny nxi nw0 na F0 G0 J0 Hc Ua). Qed.

Print Assumptions C03_measurement_block_solves.
