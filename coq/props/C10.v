(* C10  A Series is a period-indexed map: reads, writes, alignment, trim, isolation.
   Restatements only; proofs are in proofs/SeriesProofs.v, proofs/SeriesOpsProofs.v, proofs/SeriesWinProofs.v
   (statistics, moving windows) and proofs/SeriesFillProofs.v (fill_missing).
   Every theorem holds for EVERY scalar carrier A whose missing value is recognisable
   (miss_law), for every series, period, and history of operations. *)
From Coq Require Import ZArith List Bool.
From Verif Require Import lib.Arith lib.ArithOptZ model.Series model.SeriesOps proofs.SeriesProofs proofs.SeriesOpsProofs proofs.SeriesWinProofs proofs.SeriesFillProofs.
Import ListNotations.
Open Scope Z_scope.

Definition lawful (A : Arith) : Prop := forall x : car A, is_miss A x = true -> x = miss A.

(* every state reachable by ANY history of the 18 modelled public operations is well formed
   (rectangular data; no start => no rows) *)
Theorem C10_reachable_states_well_formed : forall A, lawful A -> forall (X : ArithExt A) rs ops,
  AllWF A rs -> AllWF A (fst (run A X rs ops)).
Proof. exact run_WF. Qed.
Print Assumptions C10_reachable_states_well_formed.

(* after writes, operators, lays, stacking, windows, statistics and fills the result has no all-missing
   leading or trailing period, and an all-missing result is the empty series without a start *)
Theorem C10_trimmed_after_writes_and_operators : forall A, lawful A -> forall (X : ArithExt A) rs o d s,
  AllWF A rs -> trimming_op A o = true -> exec A X rs o = (d, Ok s) -> Trimmed A s.
Proof. exact exec_Trimmed. Qed.
Print Assumptions C10_trimmed_after_writes_and_operators.

(* the reported span covers every non-missing value *)
Theorem C10_span_covers : forall A, is_miss A (miss A) = true -> forall (s : series A) t c,
  is_miss A (cell A s t c) = false ->
  exists st en, s_start s = Some st /\ s_end A s = Some en /\ st <= t <= en.
Proof. exact span_covers. Qed.
Print Assumptions C10_span_covers.

(* a write changes exactly the addressed periods; everything else keeps its value *)
Theorem C10_write_changes_exactly_addressed : forall A, lawful A -> forall fr (s : series A) dates rows t,
  WF A s ->
  row_at A (set_data A fr s dates rows None) t
  = match last_assoc A t dates rows None with
    | Some r => bcast_row A (s_nv s) r
    | None => row_at A s t
    end.
Proof. exact row_at_set_data. Qed.
Print Assumptions C10_write_changes_exactly_addressed.

(* a read returns the stored row at the addressed periods and missing elsewhere *)
Theorem C10_read_returns_stored : forall A, lawful A -> forall fr (s : series A) dates t, WF A s ->
  row_at A (recreate A fr s dates None) t = if in_dec Z.eq_dec t dates then row_at A s t else missrow A (s_nv s).
Proof. exact recreate_spec. Qed.
Print Assumptions C10_read_returns_stored.

(* binary operators act period by period on the encompassing span of the aligned operands *)
Theorem C10_binop_pointwise : forall A, lawful A -> forall (f : car A -> car A -> car A) (s1 s2 s : series A),
  WF A s1 -> WF A s2 -> s_nv s1 = s_nv s2 -> (s_start s1 = None -> s_start s2 = None -> False) ->
  binop A f s1 s2 = Ok s ->
  exists lo hi, omin (s_start s1) (s_start s2) = Some lo /\ omax (s_end A s1) (s_end A s2) = Some hi /\
  WF A s /\ s_nv s = s_nv s1 /\
  forall t, row_at A s t = if (lo <=? t) && (t <=? hi) then zip_bcast A f (row_at A s1 t) (row_at A s2 t)
                          else missrow A (s_nv s1).
Proof. exact row_at_binop. Qed.
Print Assumptions C10_binop_pointwise.

(* a time shift moves values by exactly k periods *)
Theorem C10_shift_law : forall A (s : series A) k t, row_at A (shift_by A s k) t = row_at A s (t + k).
Proof. exact row_at_shift. Qed.
Print Assumptions C10_shift_law.

(* trimming never changes the map *)
Theorem C10_trim_preserves_map : forall A, lawful A -> forall (s : series A) t, WF A s ->
  row_at A (trim A s) t = row_at A s t.
Proof. exact row_at_trim. Qed.
Print Assumptions C10_trim_preserves_map.

Theorem C10_overlay_spec : forall A, lawful A -> forall (s o : series A) t, WF A s -> WF A o -> s_nv s = s_nv o ->
  row_at A (overlay_core A s o) t =
    match s_start o, s_end A o with
    | Some a, Some b => if (a <=? t) && (t <=? b) then row_at A o t else row_at A s t
    | _, _ => row_at A s t
    end.
Proof. exact overlay_core_spec. Qed.
Print Assumptions C10_overlay_spec.

Theorem C10_hstack_spec : forall A, lawful A -> forall (s1 s2 r : series A) t lo hi, WF A s1 -> WF A s2 ->
  hstack A s1 s2 = Ok r -> omin (s_start s1) (s_start s2) = Some lo -> omax (s_end A s1) (s_end A s2) = Some hi ->
  row_at A r t = if (lo <=? t) && (t <=? hi) then row_at A s1 t ++ row_at A s2 t else missrow A (s_nv s1 + s_nv s2).
Proof. exact hstack_spec. Qed.
Print Assumptions C10_hstack_spec.

Theorem C10_clip_spec : forall A (s r : series A) a b st en t, WF A s -> s_start s = Some st -> s_end A s = Some en ->
  clip A s a b = Ok r ->
  row_at A r t = if (clip_lo a st <=? t) && (t <=? clip_hi b en) then row_at A s t else missrow A (s_nv s).
Proof. exact clip_spec. Qed.
Print Assumptions C10_clip_spec.

(* scalar operators / element-wise functions that keep missing values missing act cell by cell *)
Theorem C10_elementwise_spec : forall A, lawful A -> forall f (s : series A) t, WF A s -> f (miss A) = miss A ->
  row_at A (map_data A f s) t = map f (row_at A s t).
Proof. exact map_data_spec. Qed.
Print Assumptions C10_elementwise_spec.

(* non-vacuity: a lawful carrier exists and concrete registers satisfy the hypotheses *)
Example C10_lawful_carrier_exists :
  lawful OZArith /\ is_miss OZArith (miss OZArith) = true /\
  AllWF OZArith [mkSeries (A:=OZArith) 4 (Some 8000) 2 [[Some 1; None]; [None; None]; [Some 3; Some 4]];
                 empty_series OZArith 1].
Proof.
  split; [exact OZ_miss_law|]. split; [reflexivity|].
  repeat constructor; simpl; discriminate.
Qed.

(* ------------------------------------------------------------------------------------------------
   values of the statistics across variants and of the moving-window functions (proofs/SeriesWinProofs.v) *)

(* a lawful carrier with the extra operations, for the non-vacuity examples *)
Definition OZX : ArithExt OZArith :=
  mkExt OZArith (option_map Z.abs) (fun x => x)
    (fun a b => match a, b with Some x, Some y => x <? y | _, _ => false end)
    (fun a b => match a, b with Some x, Some y => x =? y | _, _ => false end).
Definition oz_demo : series OZArith :=
  mkSeries (A:=OZArith) 4 (Some 8000) 2 [[Some 1; Some 5]; [Some 2; None]; [None; None]; [Some 4; Some 7]].

(* sum/mean/prod/max/min and their nan-variants: inside the span the statistic of the period's row, a
   missing value outside *)
Theorem C10_statistic_spec : forall A, lawful A -> forall (X : ArithExt A) k (s : series A) t, WF A s ->
  row_at A (statistic A X k s) t
  = if in_span A s t then [stat_value A X k (row_at A s t)] else missrow A 1.
Proof. exact statistic_spec. Qed.
Print Assumptions C10_statistic_spec.
Example C10_statistic_nonvacuous :
  WF OZArith oz_demo /\ row_at OZArith (statistic OZArith OZX StNanSum oz_demo) 8001 = [Some 2]
  /\ row_at OZArith (statistic OZArith OZX StSum oz_demo) 8003 = [Some 11]
  /\ row_at OZArith (statistic OZArith OZX StNanSum oz_demo) 8004 = [None].
Proof. split; [repeat constructor; simpl; discriminate|]. repeat split; reflexivity. Qed.

(* mov_sum / mov_avg / mov_prod with a window of k periods: at every period t of the span, variant c holds
   the left-to-right sum (mean, product) of x(t-k+1), ..., x(t) (periods before the start count as missing);
   outside the span the result is missing *)
Theorem C10_moving_spec : forall A, lawful A -> forall m k (s r : series A) t, WF A s -> moving A m k s = Ok r ->
  row_at A r t
  = if in_span A s t then map (fun c => mov_value A m k (window_at A s t k c)) (seq 0 (s_nv s))
    else missrow A (s_nv s).
Proof. exact moving_spec. Qed.
Print Assumptions C10_moving_spec.
Example C10_moving_nonvacuous :
  moving OZArith MovSum 2 oz_demo
    = Ok (mkSeries (A:=OZArith) 4 (Some 8001) 2 [[Some 3; None]])
  /\ window_at OZArith oz_demo 8001 2 0 = [Some 1; Some 2]
  /\ mov_value OZArith MovSum 2 [Some 1; Some 2] = Some 3.
Proof. repeat split; reflexivity. Qed.

(* the window value is missing as soon as one member of the window is missing, for every carrier whose
   +, * and / propagate the missing value (IEEE NaN does; so does option Z) *)
Theorem C10_moving_missing_member : forall A m k (w : list (car A)) x,
  propagates A (add A) -> propagates A (mul A) ->
  (forall a b, is_miss A a = true -> is_miss A (div A a b) = true) ->
  In x w -> is_miss A x = true -> is_miss A (mov_value A m k w) = true.
Proof. exact mov_value_missing. Qed.
Print Assumptions C10_moving_missing_member.
Example C10_moving_missing_nonvacuous :
  propagates OZArith (add OZArith) /\ propagates OZArith (mul OZArith) /\
  (forall a b, is_miss OZArith a = true -> is_miss OZArith (div OZArith a b) = true).
Proof.
  repeat split; intros [x|] [y|]; simpl; intros H; try reflexivity; discriminate.
Qed.

(* ------------------------------------------------------------------------------------------------
   fill_missing over a contiguous range a..b of periods: span = None works on the whole series, an explicit
   span on the given range (proofs/SeriesFillProofs.v).  fill_dates is the list of periods the code works on. *)

(* periods outside the filled range keep their values *)
Theorem C10_fill_outside_untouched : forall A, lawful A -> forall fr k span (s : series A) a b t, WF A s ->
  fill_dates A span s = zrange a (b + 1) -> ~ (a <= t <= b) ->
  row_at A (fill_missing A fr k span s) t = row_at A s t.
Proof. exact fill_missing_outside. Qed.
Print Assumptions C10_fill_outside_untouched.

(* constant: missing cells of the range take the constant, observed cells keep their value *)
Theorem C10_fill_constant_spec : forall A, lawful A -> forall fr span (s : series A) a b, WF A s ->
  fill_dates A span s = zrange a (b + 1) -> forall v t c, a <= t <= b -> (c < s_nv s)%nat ->
  cell A (fill_missing A fr (FillConst A v) span s) t c
  = if is_miss A (cell A s t c) then v else cell A s t c.
Proof. exact fill_const_spec. Qed.
Print Assumptions C10_fill_constant_spec.

(* previous: a cell of the range takes the last observed value at or before t inside the range (its own value
   when it is observed: u = t), and is missing when there is none *)
Theorem C10_fill_previous_spec : forall A, lawful A -> forall fr span (s : series A) a b, WF A s ->
  fill_dates A span s = zrange a (b + 1) -> forall t c, a <= t <= b -> (c < s_nv s)%nat ->
  let r := cell A (fill_missing A fr (FillPrev A) span s) t c in
  (forall u, a <= u <= t -> is_miss A (cell A s u c) = false ->
     (forall w, u < w <= t -> is_miss A (cell A s w c) = true) -> r = cell A s u c) /\
  ((forall u, a <= u <= t -> is_miss A (cell A s u c) = true) -> r = miss A).
Proof. exact fill_previous_spec. Qed.
Print Assumptions C10_fill_previous_spec.

(* next: a cell of the range takes the first observed value at or after t inside the range, missing when none *)
Theorem C10_fill_next_spec : forall A, lawful A -> forall fr span (s : series A) a b, WF A s ->
  fill_dates A span s = zrange a (b + 1) -> forall t c, a <= t <= b -> (c < s_nv s)%nat ->
  let r := cell A (fill_missing A fr (FillNext A) span s) t c in
  (forall u, t <= u <= b -> is_miss A (cell A s u c) = false ->
     (forall w, t <= w < u -> is_miss A (cell A s w c) = true) -> r = cell A s u c) /\
  ((forall u, t <= u <= b -> is_miss A (cell A s u c) = true) -> r = miss A).
Proof. exact fill_next_spec. Qed.
Print Assumptions C10_fill_next_spec.

(* non-vacuity: the range hypothesis holds for the whole series and for an explicit range, and the three
   methods give the documented values on a concrete series *)
Example C10_fill_nonvacuous :
  (forall (s : series OZArith) st en, s_start s = Some st -> s_end OZArith s = Some en ->
     fill_dates OZArith None s = zrange st (en + 1)) /\
  (forall (s : series OZArith) a b, fill_dates OZArith (Some (zrange a (b + 1))) s = zrange a (b + 1)) /\
  WF OZArith oz_demo /\ fill_dates OZArith None oz_demo = zrange 8000 (8003 + 1) /\
  cell OZArith (fill_missing OZArith 4 (FillPrev OZArith) None oz_demo) 8002 1 = Some 5 /\
  cell OZArith (fill_missing OZArith 4 (FillNext OZArith) None oz_demo) 8002 1 = Some 7 /\
  cell OZArith (fill_missing OZArith 4 (FillConst OZArith (Some 9)) (Some (zrange 8002 (8005 + 1))) oz_demo) 8005 0 = Some 9 /\
  cell OZArith (fill_missing OZArith 4 (FillPrev OZArith) (Some (zrange 8002 (8002 + 1))) oz_demo) 8002 0 = None.
Proof.
  split; [intros s st en Hs He; unfold fill_dates, span_list; now rewrite Hs, He|].
  split; [reflexivity|]. split; [repeat constructor; simpl; discriminate|].
  repeat split; reflexivity.
Qed.
