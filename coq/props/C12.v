(* C12  Aggregation and disaggregation respect calendar membership, are consistent.
   Regular frequencies (serial = year*freq + segment - 1); restatements only. *)
From Coq Require Import ZArith List Bool Reals.
From Verif Require Import lib.Arith lib.ArithOptZ lib.Calendar model.Series model.SeriesOps model.Convert model.ConvertDaily
     proofs.SeriesProofs proofs.ConvertProofs proofs.ConvertDailyProofs.
Import ListNotations.
Open Scope Z_scope.

Definition lawful (A : Arith) : Prop := forall x : car A, is_miss A x = true -> x = miss A.

(* the high periods whose coarse period is l are exactly l*factor, ..., l*factor + factor - 1 *)
Theorem C12_group_membership : forall factor h l, 0 < factor ->
  (h / factor = l <-> exists j, 0 <= j < factor /\ h = l * factor + j).
Proof. exact group_membership. Qed.
Print Assumptions C12_group_membership.

(* aggregate applies the method (after select / discard_missing) to exactly that group, variant by variant *)
Theorem C12_aggregate_applies_method_to_its_group : forall A, lawful A -> forall (X : ArithExt A) m sel disc f_tgt (s r : series A) st en l,
  WF A s -> s_start s = Some st -> s_end A s = Some en ->
  f_tgt <> s_freq s -> f_tgt <= s_freq s ->
  aggregate_regular A X m sel disc f_tgt s = Ok r ->
  row_at A r l =
    if (st / s_freq s * f_tgt <=? l) && (l <=? (en / s_freq s + 1) * f_tgt - 1)
    then agg_row A X m sel disc (s_nv s) (group_rows A s (s_freq s / f_tgt) l)
    else missrow A (s_nv s).
Proof. exact aggregate_spec. Qed.
Print Assumptions C12_aggregate_applies_method_to_its_group.

Theorem C12_group_rows_are_the_members : forall A (s : series A) factor l j, (j < Z.to_nat factor)%nat ->
  nth j (group_rows A s factor l) (missrow A (s_nv s)) = row_at A s (l * factor + Z.of_nat j).
Proof. exact group_rows_nth. Qed.
Print Assumptions C12_group_rows_are_the_members.

(* a missing member makes sum / prod / mean missing when missing values are absorbing (as NaN is) *)
Theorem C12_missing_member_rule : forall A (X : ArithExt A),
  (forall x, add A (miss A) x = miss A) -> (forall x, add A x (miss A) = miss A) ->
  (forall x, mul A (miss A) x = miss A) -> (forall x, mul A x (miss A) = miss A) ->
  (forall x, div A (miss A) x = miss A) ->
  forall m (w : list (car A)), In (miss A) w -> (m = AggSum \/ m = AggProd \/ m = AggMean) ->
  agg_value A X m w = miss A.
Proof. exact missing_member_rule. Qed.
Print Assumptions C12_missing_member_rule.

Theorem C12_first_last_member : forall A (X : ArithExt A) x w,
  agg_value A X AggFirst (x :: w) = x /\ agg_value A X AggLast (x :: w) = last (x :: w) x.
Proof. intros A X x w. exact (conj (first_member A X x w) (last_member A X x w)). Qed.
Print Assumptions C12_first_last_member.

(* disaggregation places values at exactly the documented positions of each low period *)
Theorem C12_disaggregate_placement : forall A, lawful A -> forall d f_tgt (s r : series A) st en h,
  WF A s -> s_start s = Some st -> s_end A s = Some en ->
  f_tgt <> s_freq s -> s_freq s <= f_tgt ->
  disaggregate_regular A d f_tgt s = Ok r ->
  row_at A r h =
    if (st * (f_tgt / s_freq s) <=? h) && (h <=? (en + 1) * (f_tgt / s_freq s) - 1)
    then (if dis_keep d (f_tgt / s_freq s) (h mod (f_tgt / s_freq s)) then row_at A s (h / (f_tgt / s_freq s))
          else missrow A (s_nv s))
    else missrow A (s_nv s).
Proof. exact disaggregate_spec. Qed.
Print Assumptions C12_disaggregate_placement.

(* aggregate(first | last | min | max) of disaggregate(flat) is the original map: every carrier, every series *)
Theorem C12_roundtrip_flat_first_last_min_max : forall A, lawful A -> forall (X : ArithExt A) m f_hi (s d r : series A),
  (m = AggFirst \/ m = AggLast \/ m = AggMin \/ m = AggMax) ->
  WF A s -> s_start s <> None -> 0 < s_freq s -> s_freq s < f_hi -> f_hi = s_freq s * (f_hi / s_freq s) ->
  disaggregate_regular A DisFlat f_hi s = Ok d -> s_freq d = f_hi ->
  aggregate_regular A X m None false (s_freq s) d = Ok r ->
  forall l, row_at A r l = row_at A s l.
Proof.
  intros A HA X m f_hi s d r Hm. apply roundtrip_flat; [exact HA|].
  destruct Hm as [->|[->|[->| ->]]]; [apply first_idem|apply last_idem|apply min_idem|apply max_idem].
Qed.
Print Assumptions C12_roundtrip_flat_first_last_min_max.

(* ... and with mean over the reals *)
Theorem C12_roundtrip_flat_mean : forall (X : ArithExt RArith) f_hi (s d r : series RArith),
  WF RArith s -> s_start s <> None -> 0 < s_freq s -> s_freq s < f_hi -> f_hi = s_freq s * (f_hi / s_freq s) ->
  disaggregate_regular RArith DisFlat f_hi s = Ok d -> s_freq d = f_hi ->
  aggregate_regular RArith X AggMean None false (s_freq s) d = Ok r ->
  forall l, row_at RArith r l = row_at RArith s l.
Proof.
  intros X f_hi s d r. apply roundtrip_flat; [intros x H; discriminate H|apply mean_idem].
Qed.
Print Assumptions C12_roundtrip_flat_mean.

(* non-vacuity: quarterly -> monthly -> quarterly on a concrete series over option Z *)
Example C12_roundtrip_hypotheses_satisfiable :
  let s := mkSeries (A:=OZArith) 4 (Some 8080) 1 [[Some 3]; [None]; [Some 5]] in
  let X := mkExt OZArith (fun x => x) (fun x => x) (fun _ _ => false) (fun _ _ => false) in
  exists d r, disaggregate_regular OZArith DisFlat 12 s = Ok d /\ s_freq d = 12 /\
              aggregate_regular OZArith X AggFirst None false 4 d = Ok r /\
              s_start r = Some 8080 /\ s_data r = [[Some 3]; [None]; [Some 5]].
Proof. eexists. eexists. repeat split; reflexivity. Qed.

(* ================= DAILY source / target (proleptic Gregorian calendar of lib/Calendar.v) ================= *)

(* day n belongs to period t of a regular frequency f (refrequent: year*f + (month-1)//(12//f)) exactly when it lies
   between the first day of the first month and the last day of the last month of t: month lengths and leap years
   (4/100/400 rule) are those of the calendar; all integers n, t *)
Theorem C12_daily_membership : forall f n t, reg_freq f = true ->
  (low_of_day f n = t <-> day_start f t <= n <= day_end f t).
Proof. exact daily_membership. Qed.
Print Assumptions C12_daily_membership.

(* consecutive periods tile the days: no day is lost or counted twice at month ends, 28/29 February and year ends *)
Theorem C12_daily_tiling : forall f t, reg_freq f = true ->
  day_start f t + 27 <= day_end f t /\ day_end f t + 1 = day_start f (t + 1).
Proof. intros f t R. exact (conj (day_start_le_end f t R) (daily_tiling f t R)). Qed.
Print Assumptions C12_daily_tiling.

(* the group aggregated into l consists of the rows of exactly the days belonging to l, in calendar order *)
Theorem C12_daily_group_rows_are_the_days : forall A (s : series A) f l, reg_freq f = true ->
  forall n, low_of_day f n = l <->
            exists j, (j < length (day_rows A s f l))%nat /\ n = day_start f l + Z.of_nat j /\
                      nth j (day_rows A s f l) (missrow A (s_nv s)) = row_at A s n.
Proof. exact day_rows_members. Qed.
Print Assumptions C12_daily_group_rows_are_the_days.

(* aggregate daily -> regular applies the method (after select / discard_missing) to exactly that group *)
Theorem C12_aggregate_daily_applies_method_to_its_days : forall A, lawful A -> forall (X : ArithExt A) m sel disc f_tgt
    (s r : series A) st en l,
  WF A s -> s_start s = Some st -> s_end A s = Some en ->
  aggregate_daily A X m sel disc f_tgt s = Ok r ->
  row_at A r l =
    if (year_of_ord st * f_tgt <=? l) && (l <=? (year_of_ord en + 1) * f_tgt - 1)
    then agg_row A X m sel disc (s_nv s) (day_rows A s f_tgt l)
    else missrow A (s_nv s).
Proof. exact aggregate_daily_spec. Qed.
Print Assumptions C12_aggregate_daily_applies_method_to_its_days.

(* disaggregate regular -> daily: flat fills every day of the period containing it; first / middle / last write the
   value of l at exactly its first day / its first day + (number of its days)//2 / its last day, nothing elsewhere *)
Theorem C12_disaggregate_daily_placement : forall A, lawful A -> forall d (s r : series A) st en h,
  WF A s -> s_start s = Some st -> s_end A s = Some en ->
  disaggregate_daily A d s = Ok r ->
  row_at A r h =
    if (day_start (s_freq s) st <=? h) && (h <=? day_end (s_freq s) en)
    then (let l := low_of_day (s_freq s) h in
          if match d with
             | DisFlat => true
             | DisFirst => h =? day_start (s_freq s) l
             | DisMiddle => h =? day_start (s_freq s) l + ndays (s_freq s) l / 2
             | DisLast => h =? day_end (s_freq s) l
             end
          then row_at A s l else missrow A (s_nv s))
    else missrow A (s_nv s).
Proof. exact disaggregate_daily_spec. Qed.
Print Assumptions C12_disaggregate_daily_placement.

(* aggregate(first | last | min | max) of disaggregate(flat) through DAILY is the original map *)
Theorem C12_roundtrip_flat_daily_first_last_min_max : forall A, lawful A -> forall (X : ArithExt A) m (s d r : series A),
  (m = AggFirst \/ m = AggLast \/ m = AggMin \/ m = AggMax) ->
  WF A s -> reg_freq (s_freq s) = true ->
  disaggregate_daily A DisFlat s = Ok d ->
  aggregate_daily A X m None false (s_freq s) d = Ok r ->
  forall l, row_at A r l = row_at A s l.
Proof.
  intros A HA X m s d r Hm. apply roundtrip_flat_daily; [exact HA|].
  destruct Hm as [->|[->|[->| ->]]]; [apply first_idem|apply last_idem|apply min_idem|apply max_idem].
Qed.
Print Assumptions C12_roundtrip_flat_daily_first_last_min_max.

(* ... and with mean over the reals (every period length 28..366 days) *)
Theorem C12_roundtrip_flat_daily_mean : forall (X : ArithExt RArith) (s d r : series RArith),
  WF RArith s -> reg_freq (s_freq s) = true ->
  disaggregate_daily RArith DisFlat s = Ok d ->
  aggregate_daily RArith X AggMean None false (s_freq s) d = Ok r ->
  forall l, row_at RArith r l = row_at RArith s l.
Proof.
  intros X s d r. apply roundtrip_flat_daily; [intros x H; discriminate H|apply mean_idem].
Qed.
Print Assumptions C12_roundtrip_flat_daily_mean.

(* non-vacuity: 2000M02 (29 days, leap February) .. 2000M04 to daily and back; the hypotheses of the round trip hold *)
Example C12_daily_roundtrip_hypotheses_satisfiable :
  let s := mkSeries (A:=OZArith) 12 (Some 24001) 1 [[Some 3]; [None]; [Some 5]] in
  let X := mkExt OZArith (fun x => x) (fun x => x) (fun _ _ => false) (fun _ _ => false) in
  match disaggregate_daily OZArith DisFlat s with
  | Ok d => s_start d = Some (ord_of_ymd 2000 2 1) /\ length (s_data d) = 90%nat /\
            match aggregate_daily OZArith X AggLast None false 12 d with
            | Ok r => s_start r = Some 24001 /\ s_data r = [[Some 3]; [None]; [Some 5]]
            | Err _ => False
            end
  | Err _ => False
  end.
Proof. vm_compute. repeat split; reflexivity. Qed.

Example C12_daily_membership_leap_day :
  low_of_day 4 (ord_of_ymd 2000 2 29) = 8000 /\ low_of_day 12 (ord_of_ymd 2000 2 29) = 24001 /\
  ndays 12 24001 = 29 /\ ndays 12 (1900 * 12 + 1) = 28 /\ ndays 4 8000 = 91 /\ ndays 1 2000 = 366 /\ ndays 2 4001 = 184.
Proof. vm_compute. repeat split; reflexivity. Qed.
