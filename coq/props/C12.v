(* C12  Aggregation and disaggregation respect calendar membership, are consistent.
   Regular frequencies (serial = year*freq + segment - 1); restatements only. *)
From Coq Require Import ZArith List Bool Reals.
From Verif Require Import lib.Arith lib.ArithOptZ model.Series model.SeriesOps model.Convert
     proofs.SeriesProofs proofs.ConvertProofs.
Import ListNotations.
Open Scope Z_scope.

Definition lawful (A : Arith) : Prop := forall x : car A, is_miss A x = true -> x = miss A.

(* the high periods whose coarse period is l are exactly l*factor, ..., l*factor + factor - 1 *)
Theorem C12_group_membership : forall factor h l, 0 < factor ->
  (h / factor = l <-> exists j, 0 <= j < factor /\ h = l * factor + j).
Proof. exact group_membership. Qed.
Print Assumptions C12_group_membership.

(* aggregate applies the method (after select / discard_missing) to exactly that group, variant by variant *)
Theorem C12_aggregate_applies_method_to_its_group : forall A, lawful A -> forall (X : ArithExt A) m sel disc f_tgt (s r : series A) st en l,
  WF A s -> s_start s = Some st -> s_end A s = Some en ->
  f_tgt <> s_freq s -> f_tgt <= s_freq s ->
  aggregate_regular A X m sel disc f_tgt s = Ok r ->
  row_at A r l =
    if (st / s_freq s * f_tgt <=? l) && (l <=? (en / s_freq s + 1) * f_tgt - 1)
    then agg_row A X m sel disc (s_nv s) (group_rows A s (s_freq s / f_tgt) l)
    else missrow A (s_nv s).
Proof. exact aggregate_spec. Qed.
Print Assumptions C12_aggregate_applies_method_to_its_group.

Theorem C12_group_rows_are_the_members : forall A (s : series A) factor l j, (j < Z.to_nat factor)%nat ->
  nth j (group_rows A s factor l) (missrow A (s_nv s)) = row_at A s (l * factor + Z.of_nat j).
Proof. exact group_rows_nth. Qed.
Print Assumptions C12_group_rows_are_the_members.

(* a missing member makes sum / prod / mean missing when missing values are absorbing (as NaN is) *)
Theorem C12_missing_member_rule : forall A (X : ArithExt A),
  (forall x, add A (miss A) x = miss A) -> (forall x, add A x (miss A) = miss A) ->
  (forall x, mul A (miss A) x = miss A) -> (forall x, mul A x (miss A) = miss A) ->
  (forall x, div A (miss A) x = miss A) ->
  forall m (w : list (car A)), In (miss A) w -> (m = AggSum \/ m = AggProd \/ m = AggMean) ->
  agg_value A X m w = miss A.
Proof. exact missing_member_rule. Qed.
Print Assumptions C12_missing_member_rule.

Theorem C12_first_last_member : forall A (X : ArithExt A) x w,
  agg_value A X AggFirst (x :: w) = x /\ agg_value A X AggLast (x :: w) = last (x :: w) x.
Proof. intros A X x w. exact (conj (first_member A X x w) (last_member A X x w)). Qed.
Print Assumptions C12_first_last_member.

(* disaggregation places values at exactly the documented positions of each low period *)
Theorem C12_disaggregate_placement : forall A, lawful A -> forall d f_tgt (s r : series A) st en h,
  WF A s -> s_start s = Some st -> s_end A s = Some en ->
  f_tgt <> s_freq s -> s_freq s <= f_tgt ->
  disaggregate_regular A d f_tgt s = Ok r ->
  row_at A r h =
    if (st * (f_tgt / s_freq s) <=? h) && (h <=? (en + 1) * (f_tgt / s_freq s) - 1)
    then (if dis_keep d (f_tgt / s_freq s) (h mod (f_tgt / s_freq s)) then row_at A s (h / (f_tgt / s_freq s))
          else missrow A (s_nv s))
    else missrow A (s_nv s).
Proof. exact disaggregate_spec. Qed.
Print Assumptions C12_disaggregate_placement.

(* aggregate(first | last | min | max) of disaggregate(flat) is the original map: every carrier, every series *)
Theorem C12_roundtrip_flat_first_last_min_max : forall A, lawful A -> forall (X : ArithExt A) m f_hi (s d r : series A),
  (m = AggFirst \/ m = AggLast \/ m = AggMin \/ m = AggMax) ->
  WF A s -> s_start s <> None -> 0 < s_freq s -> s_freq s < f_hi -> f_hi = s_freq s * (f_hi / s_freq s) ->
  disaggregate_regular A DisFlat f_hi s = Ok d -> s_freq d = f_hi ->
  aggregate_regular A X m None false (s_freq s) d = Ok r ->
  forall l, row_at A r l = row_at A s l.
Proof.
  intros A HA X m f_hi s d r Hm. apply roundtrip_flat; [exact HA|].
  destruct Hm as [->|[->|[->| ->]]]; [apply first_idem|apply last_idem|apply min_idem|apply max_idem].
Qed.
Print Assumptions C12_roundtrip_flat_first_last_min_max.

(* ... and with mean over the reals *)
Theorem C12_roundtrip_flat_mean : forall (X : ArithExt RArith) f_hi (s d r : series RArith),
  WF RArith s -> s_start s <> None -> 0 < s_freq s -> s_freq s < f_hi -> f_hi = s_freq s * (f_hi / s_freq s) ->
  disaggregate_regular RArith DisFlat f_hi s = Ok d -> s_freq d = f_hi ->
  aggregate_regular RArith X AggMean None false (s_freq s) d = Ok r ->
  forall l, row_at RArith r l = row_at RArith s l.
Proof.
  intros X f_hi s d r. apply roundtrip_flat; [intros x H; discriminate H|apply mean_idem].
Qed.
Print Assumptions C12_roundtrip_flat_mean.

(* non-vacuity: quarterly -> monthly -> quarterly on a concrete series over option Z *)
Example C12_roundtrip_hypotheses_satisfiable :
  let s := mkSeries (A:=OZArith) 4 (Some 8080) 1 [[Some 3]; [None]; [Some 5]] in
  let X := mkExt OZArith (fun x => x) (fun x => x) (fun _ _ => false) (fun _ _ => false) in
  exists d r, disaggregate_regular OZArith DisFlat 12 s = Ok d /\ s_freq d = 12 /\
              aggregate_regular OZArith X AggFirst None false 4 d = Ok r /\
              s_start r = Some 8080 /\ s_data r = [[Some 3]; [None]; [Some 5]].
Proof. eexists. eexists. repeat split; reflexivity. Qed.
