(* C04  Model source text is translated to equations without changing their meaning.
   Only restatements: every proof is `exact <lemma of proofs/LangProofs.v>`.

   The model (model/Lang.v) works one level above the text: token lists and syntax
   trees.  pseudo_template, mov_sequence, pseudo_resolution, shift_name_new,
   residual_template, kind_order, entry_order, loggable_kinds and the ant_/std_
   prefixes come from gen/PseudoGen.v, regenerated from parsers/_pseudofunctions.py,
   equations.py, quantities.py, sources.py, simultaneous/_invariants.py on every run.
   The character-level regular expressions, the PEG grammars (parsimonious) and Jinja
   are glue: exercised by the correspondence run of harness/C04.py, NOT modelled. *)
From Coq Require Import ZArith List String Bool Ring.
From Verif Require Import lib.MakersSyntax gen.MakersGen model.Makers proofs.MakersProofs.
From Verif Require Import lib.PyRange lib.LangSyntax gen.PseudoGen model.Lang proofs.LangProofs proofs.LangStyleProofs.
Import ListNotations.
Open Scope Z_scope.

(* 1. _shift_all_names: the shifted expression denotes the expression at the shifted date,
      for every expression, environment, date and shift, over any carrier *)
Theorem C04_shiftE_sem : forall (C : carrier) (N : Type) (rho : N -> Z -> val C) (e : cexpr N) (k t : Z),
  sem C rho (shiftE k e) t = sem C rho e (t + k).
Proof. exact @shiftE_sem. Qed.
Print Assumptions C04_shiftE_sem.

(* 2. resolve_pseudofunctions: the expansion built from the generated string templates denotes the
      documented formula (pseudo_sem in model/Lang.v), for every expression tree, environment and date *)
Theorem C04_expand_sem : forall C vinv, lawful C vinv ->
  forall (N : Type) (rho : N -> Z -> val C) (e : cexpr N) (t : Z), sem C rho (expand e) t = sem C rho e t.
Proof. exact expand_sem_lawful. Qed.
Print Assumptions C04_expand_sem.

(*    ... spelled out per pseudofunction name: diff(e,k) = e - e[k], pct(e,k) = 100 (e/e[k] - 1),
      mov_sum(e,-n) = sum_{i<n} e[-i], ..., default shifts -1 and -4 *)
Theorem C04_pseudo_formulas : forall C vinv, lawful C vinv -> pseudo_formulas_statement C.
Proof. exact pseudo_formulas_lawful. Qed.
Print Assumptions C04_pseudo_formulas.

(*    ... and every builder's string is delimited by its own parentheses with every hole directly inside
      parentheses, which is what makes the splice into the equation text a substitution in the tree *)
Theorem C04_templates_self_delimiting :
  (forall p, tpl_closed (pseudo_template p) = true /\ holes_safe false (pseudo_template p) = true)
  /\ (forall s, mov_elems_ok s = true).
Proof. exact templates_self_delimiting. Qed.
Print Assumptions C04_templates_self_delimiting.

Theorem C04_resolution_table :
  lookup_pseudo pseudo_resolution "shift" = Some (Pshift, -1) /\
  lookup_pseudo pseudo_resolution "diff" = Some (Pdiff, -1) /\
  lookup_pseudo pseudo_resolution "diff_log" = Some (Pdifflog, -1) /\
  lookup_pseudo pseudo_resolution "difflog" = Some (Pdifflog, -1) /\
  lookup_pseudo pseudo_resolution "pct" = Some (Ppct, -1) /\
  lookup_pseudo pseudo_resolution "roc" = Some (Proc, -1) /\
  lookup_pseudo pseudo_resolution "mov_sum" = Some (Pmovsum, -4) /\
  lookup_pseudo pseudo_resolution "movsum" = Some (Pmovsum, -4) /\
  lookup_pseudo pseudo_resolution "mov_avg" = Some (Pmovavg, -4) /\
  lookup_pseudo pseudo_resolution "movavg" = Some (Pmovavg, -4) /\
  lookup_pseudo pseudo_resolution "mov_prod" = Some (Pmovprod, -4) /\
  lookup_pseudo pseudo_resolution "movprod" = Some (Pmovprod, -4).
Proof. exact resolution_table. Qed.
Print Assumptions C04_resolution_table.

(* 3. the compiled equation: _postprocess_xtring builds -(lhs)+rhs ... *)
Theorem C04_residual_template : residual_template = TBin Add (TNeg (TParen TCode)) TShifted.
Proof. exact residual_template_shape. Qed.
Print Assumptions C04_residual_template.

(*    ... and the xtring of every dynamic and steady equation denotes rhs - lhs of the equation as written
      after macro expansion (side_written: !for/!if inside the equation resolved, <...> evaluated,
      $substitutions$ inlined, pseudofunctions expanded), on arbitrary data X, with the names read at their
      quantity ids and every transition shock of a dynamic transition equation read as shock + anticipated shock *)
Theorem C04_xtring_sem : forall C vinv, lawful C vinv ->
  forall cx subs be names shocks s l r x,
  side_written cx subs be s = Some (l, r) ->
  compile_side cx subs be names shocks s = Some x ->
  forall (X : Z -> Z -> val C) t,
    sem C X x t = vsub C (sem C (rho_model C names shocks X) r t) (sem C (rho_model C names shocks X) l t).
Proof. exact xtring_sem_lawful. Qed.
Print Assumptions C04_xtring_sem.

Theorem C04_xtring_sem_no_anticipation : forall C vinv, lawful C vinv ->
  forall cx subs be names shocks s l r x,
  side_written cx subs be s = Some (l, r) ->
  compile_side cx subs be names shocks s = Some x ->
  forall (X : Z -> Z -> val C),
    (forall n k, mem_s n shocks = true ->
       rho_names C (fun n => index_of n names 0) X (append ant_prefix n) k = vnum C 0 0) ->
    forall t, sem C X x t = vsub C (sem C (rho_names C (fun n => index_of n names 0) X) r t)
                                   (sem C (rho_names C (fun n => index_of n names 0) X) l t).
Proof. exact xtring_sem_no_anticipation. Qed.
Print Assumptions C04_xtring_sem_no_anticipation.

(* 4. _resolve_sequence: on every well-nested sequence (the flattening of a forest of any depth) the
      result is the expansion -- a loop is the concatenation over its tokens of its body with the control
      name replaced, a conditional is its selected branch -- and a bounded fuel suffices *)
Theorem C04_resolve_well_nested : forall (T : Type) (sub : string -> string -> T -> T) cx (f : list node) out,
  expands sub cx f out ->
  exists n, forall fuel, (n <= fuel)%nat -> resolve sub cx true fuel (flatten f) = ROk out.
Proof. exact @resolve_flatten. Qed.
Print Assumptions C04_resolve_well_nested.

Theorem C04_for_expansion : forall (T : Type) (sub : string -> string -> T -> T) cx c toks (body : list node) tl outs,
  tokens_of cx toks = Some tl ->
  Forall2 (fun tok o => expands sub cx (map (subst_node sub c tok) body) o) tl outs ->
  expands sub cx [NFor c toks body] (List.concat outs)
  /\ exists n, forall fuel, (n <= fuel)%nat ->
       resolve sub cx true fuel (DFor c toks :: flatten body ++ [DEnd]) = ROk (List.concat outs).
Proof. exact @for_expansion. Qed.
Print Assumptions C04_for_expansion.

Theorem C04_if_selection : forall (T : Type) (sub : string -> string -> T -> T) cx cd (th : list node) el b out,
  cond_eval cx cd = Some b ->
  expands sub cx (if b then th else match el with Some l => l | None => [] end) out ->
  expands sub cx [NIf cd th el] out
  /\ exists n, forall fuel, (n <= fuel)%nat -> resolve sub cx true fuel (flatten [NIf cd th el]) = ROk out.
Proof. exact @if_selection. Qed.
Print Assumptions C04_if_selection.

Theorem C04_expansion_deterministic : forall (T : Type) (sub : string -> string -> T -> T) cx (f : list node) o1 o2,
  expands sub cx f o1 -> expands sub cx f o2 -> o1 = o2.
Proof. exact @expands_deterministic. Qed.
Print Assumptions C04_expansion_deterministic.

(*    the search for !else that is not bounded by the matching !end (the code before the repair
      fixes/C04_2) does not have this property *)
Theorem C04_unbounded_else_refuted :
  expands sub_nat [] refuting_forest [1%nat; 2%nat]
  /\ resolve sub_nat [] false 100 (flatten refuting_forest) = RErr
  /\ resolve sub_nat [] true 100 (flatten refuting_forest) = ROk [1%nat; 2%nat].
Proof. exact unbounded_else_refuted. Qed.
Print Assumptions C04_unbounded_else_refuted.

(* 5. source variants.  (a) a source and the same source with every !for / !if expanded by hand give the
      same model;  (b) [variants_equal_styles] the model does not depend on {k} vs [k], ^ vs **, = vs :=,
      keyword spellings, <x> vs {{x}}, ?(c)|upper vs ?{c}.
      PARTIAL: comments, line continuations and white space are not represented in the model at all (they are
      removed by character-level regexes: glue); they are covered by the correspondence run only. *)
Theorem C04_variants_equal_unrolled_partial : forall cx (f : list (@node item)) items,
  expands subst_item cx f items ->
  exists n, forall fuel, (n <= fuel)%nat -> compile cx true fuel (flatten f) = compile cx true fuel (map DText items).
Proof. exact unrolled_source_same_model. Qed.
Print Assumptions C04_variants_equal_unrolled_partial.

(*    (b) two sources with the same style erasure (erase_source forgets {k} vs [k], ^ vs **, = vs :=, the spelling of
      the keywords, <x> vs {{x}}, ?(c)|upper vs ?{c}) compile to the same model, for every context and fuel *)
Theorem C04_variants_equal_styles_partial : forall cx be fuel (s1 s2 : source),
  erase_source s1 = erase_source s2 -> compile cx be fuel s1 = compile cx be fuel s2.
Proof. exact same_erasure_same_model. Qed.
Print Assumptions C04_variants_equal_styles_partial.

(* 6. the quantities of the model are exactly the declared ones, with their kinds and descriptions, plus one ant_
      quantity per transition shock and one std_ quantity per shock; log status follows the !log-variables lists *)
Theorem C04_quantities_exactly_declared : forall (decls : list decl) (d : decl),
  In d (all_decls decls) <->
     (In d decls /\ In (d_kind d) entry_order)
  \/ (exists s, In s decls /\ d_kind s = QTransitionShock /\
                d = mkDecl QAnticipatedShockValue (append ant_prefix (d_name s)) (append ant_descr_prefix (descr_or_name s)))
  \/ (exists s, In s decls /\ d_kind s = QTransitionShock /\
                d = mkDecl QTransitionStd (append std_prefix (d_name s)) (append std_descr_prefix (descr_or_name s)))
  \/ (exists s, In s decls /\ d_kind s = QMeasurementShock /\
                d = mkDecl QMeasurementStd (append std_prefix (d_name s)) (append std_descr_prefix (descr_or_name s))).
Proof. exact quantities_exactly_declared. Qed.
Print Assumptions C04_quantities_exactly_declared.

Theorem C04_log_status : forall (allbut : bool) (logs : list string) (d : decl),
  logly_of allbut logs d =
    if mem_kind (d_kind d) [QTransitionVariable; QMeasurementVariable; QExogenousVariable]
    then Some (xorb allbut (mem_s (d_name d) logs)) else None.
Proof. exact log_status_spec. Qed.
Print Assumptions C04_log_status.

(* 7. the compiled functions (makers.make_function, model/Makers.v; mk_cache, mk_func_str_parts, mk_prepare_steps,
      mk_adaptation_names, eq_... regenerated from makers.py, aldi/adaptations.py, equators/plain.py on every run).
      V: Python objects, F: function objects, exec_def: Python's exec of the text of a def in a globals dict (black box).
      In EVERY session of calls (any number of models, any order, any contexts) every call returns the function, the
      text and the globals that its own request (text, context) determines: nothing leaks from one compilation into
      another *)
Theorem C04_session_results : forall (V F : Type) (v_empty_dict : V) (v_adapt : string -> V) (v_fun : F -> V)
    (exec_def : string -> string -> dict V -> F) (reqs : list (request V)),
  run_session V F v_empty_dict v_adapt v_fun exec_def reqs = map (Makers.compile V F v_empty_dict v_adapt v_fun exec_def) reqs.
Proof. exact session_results. Qed.
Print Assumptions C04_session_results.

Theorem C04_session_history_irrelevant : forall (V F : Type) (v_empty_dict : V) (v_adapt : string -> V) (v_fun : F -> V)
    (exec_def : string -> string -> dict V -> F) (pre1 post1 pre2 post2 : list (request V)) (r : request V),
  nth_error (run_session V F v_empty_dict v_adapt v_fun exec_def (pre1 ++ r :: post1)) (List.length pre1)
    = Some (Makers.compile V F v_empty_dict v_adapt v_fun exec_def r) /\
  nth_error (run_session V F v_empty_dict v_adapt v_fun exec_def (pre2 ++ r :: post2)) (List.length pre2)
    = nth_error (run_session V F v_empty_dict v_adapt v_fun exec_def (pre1 ++ r :: post1)) (List.length pre1).
Proof. exact session_history_irrelevant. Qed.
Print Assumptions C04_session_history_irrelevant.

(*    the function of the k-th request is its text compiled in globals in which every name of ITS context (a user
      function) that is not a function adaptation is bound to the object that context binds it to *)
Theorem C04_session_function_context : forall (V F : Type) (v_empty_dict : V) (v_adapt : string -> V) (v_fun : F -> V)
    (exec_def : string -> string -> dict V -> F) (reqs : list (request V)) (k : nat) (r : request V) (n : string),
  nth_error reqs k = Some r ->
  NoDup (map fst (rq_ctx V r)) -> ~ In n mk_adaptation_names -> n <> "__builtins__"%string ->
  exists res, nth_error (run_session V F v_empty_dict v_adapt v_fun exec_def reqs) k = Some res
    /\ rs_func V F res = exec_def (func_str V r) (rq_name V r) (prepare_globals V v_empty_dict v_adapt (rq_ctx V r))
    /\ dict_get n (prepare_globals V v_empty_dict v_adapt (rq_ctx V r)) = dict_get n (rq_ctx V r).
Proof. exact session_function_context. Qed.
Print Assumptions C04_session_function_context.

Theorem C04_globals_bind_adaptations : forall (V : Type) (v_empty_dict : V) (v_adapt : string -> V) (ctx : dict V) (n : string),
  In n mk_adaptation_names -> dict_get n (prepare_globals V v_empty_dict v_adapt ctx) = Some (v_adapt n).
Proof. exact globals_bind_adaptations. Qed.
Print Assumptions C04_globals_bind_adaptations.

(*    any module-level table keyed by something that determines the compiled function is invisible ... *)
Theorem C04_keyed_session_independent : forall (V F : Type) (v_empty_dict : V) (v_adapt : string -> V) (v_fun : F -> V)
    (exec_def : string -> string -> dict V -> F) (key : request V -> string),
  (forall r1 r2, key r1 = key r2 -> Makers.compile V F v_empty_dict v_adapt v_fun exec_def r1
                                   = Makers.compile V F v_empty_dict v_adapt v_fun exec_def r2) ->
  forall reqs tb, table_sound V F v_empty_dict v_adapt v_fun exec_def key tb ->
  run_session_keyed V F v_empty_dict v_adapt v_fun exec_def (Some key) tb reqs
  = map (Makers.compile V F v_empty_dict v_adapt v_fun exec_def) reqs.
Proof. exact keyed_session_independent. Qed.
Print Assumptions C04_keyed_session_independent.

(*    ... and one keyed by the source text alone is not (seeded change C04_r3m2): the second of two models with the
      same equations gets the user function of the first *)
Theorem C04_cache_by_source_refuted :
  map s_observe (s_run CacheBySource refuting_requests) <> map s_observe (s_run CacheNone refuting_requests)
  /\ (exists g, option_map (fun o => dict_get "f" (snd o)) (nth_error (map s_observe (s_run CacheBySource refuting_requests)) 1) = Some g
               /\ g = Some "<f one>"%string)
  /\ option_map (fun o => dict_get "f" (snd o)) (nth_error (map s_observe (s_run CacheNone refuting_requests)) 1)
     = Some (Some "<f two>"%string).
Proof. exact cache_by_source_refuted. Qed.
Print Assumptions C04_cache_by_source_refuted.

(*    copies / unpickling (remake_function) and the equators of all the models of a session *)
Theorem C04_remake_is_make : forall (V F : Type) (v_empty_dict : V) (v_adapt : string -> V) (v_fun : F -> V)
    (exec_def : string -> string -> dict V -> F) (r : request V),
  remake_function V F v_empty_dict v_adapt exec_def (rq_name V r)
     (rs_str V F (Makers.compile V F v_empty_dict v_adapt v_fun exec_def r)) (rq_ctx V r)
  = rs_func V F (Makers.compile V F v_empty_dict v_adapt v_fun exec_def r).
Proof. exact remake_is_make. Qed.
Print Assumptions C04_remake_is_make.

Theorem C04_equators_of_session : forall (V F : Type) (v_empty_dict : V) (v_adapt : string -> V) (v_fun : F -> V)
    (exec_def : string -> string -> dict V -> F) (models : list (list (list string) * dict V)),
  run_session V F v_empty_dict v_adapt v_fun exec_def (List.concat (map (model_requests V) models))
  = List.concat (map (fun m => map (fun xs => Makers.compile V F v_empty_dict v_adapt v_fun exec_def (equator_request V xs (snd m))) (fst m)) models).
Proof. exact equators_of_session. Qed.
Print Assumptions C04_equators_of_session.

Example C04_session_example :
  map (fun o => dict_get "f" (snd o)) (s_session (refuting_requests ++ [mkReq SV "g" ["a"] "f(a)" [("log", "<user log>"); ("f", "<f three>")]]))
  = [Some "<f one>"; Some "<f two>"; Some "<f three>"]%string
  /\ map (fun o => fst (fst o)) (s_session [mkReq SV "g" ["a"; "b"] "f(a)" []]) = ["def g(a, b): return f(a)"]%string
  /\ map (fun o => dict_get "log" (snd o)) (s_session [mkReq SV "g" ["a"] "f(a)" [("log", "<user log>")]]) = [Some "adapt:log"%string].
Proof. exact session_example. Qed.

(* non-vacuity: a lawful carrier exists; a source with a loop, a conditional inside an equation, a
   pseudofunction, a shock, a log list with !all-but compiles to the expected model *)
Example C04_lawful_carrier_exists : lawful QcC Qcanon.Qcinv.
Proof. exact QcC_lawful. Qed.

Example C04_example_compiles :
  exists m, compile [] true 100 example_source = COk m /\ List.length (m_dynamic m) = 2%nat
            /\ map q_name (m_quantities m) = ["y_a"; "y_b"; "e"; "ant_e"; "rho"; "std_e"]%string.
Proof. exact example_compiles_summary. Qed.
