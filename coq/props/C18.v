(* placeholder, replaced below *)
From Verif Require Import lib.MxC18 model.RedVar.
Theorem C18_stub : True. Proof. exact I. Qed.
Print Assumptions C18_stub.
