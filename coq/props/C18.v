(* C18  Reduced-form VAR estimates are the least-squares solution, reproduce the data.
   Only restatements: every proof is `exact <lemma of proofs/RedVarProofs.v, RedVarDataProofs.v or RedVarStatements.v>`.

   The model text (model/RedVar.v) is written once over the matrix interface lib/MxC18.v::MatOps.  The theorems
   below are about its instance [MC solve] on MathComp matrices over an ARBITRARY field F, for arbitrary numbers of
   endogenous (n) and exogenous (m) variables, order q+1, intercept k in {0,1} (any k in fact), sample size N,
   selection w of fitted columns and dummy observations (Ld, Rd).  numpy.linalg.solve is the parameter [solve] and
   enters only through [solve_contract]; the Lyapunov solver and eigvals enter as hypotheses of the _partial
   statements.  The same text is executed on exact rationals against irispie.RedVAR by harness/C18.py. *)
From Coq Require Import String.
From Verif Require Import lib.MxC18 lib.MxC18MC gen.RedVarGen model.RedVar proofs.RedVarProofs proofs.RedVarDataProofs proofs.RedVarStatements.
From Verif Require model.Spectral proofs.SpectralProofs.
From mathcomp Require Import all_ssreflect all_algebra.
Set Implicit Arguments.
Unset Strict Implicit.
Import GRing.Theory.
Local Open Scope ring_scope.

Notation solver F := (forall n p : nat, 'M[F]_n -> 'M[F]_(n, p) -> 'M[F]_(n, p)).

(* 0. the contract of numpy.linalg.solve is satisfiable (by the inverse), and so is the full-rank hypothesis *)
Theorem C18_contract_satisfiable (F : fieldType) :
  solve_contract (fun (n p : nat) (M : 'M[F]_n) (N : 'M[F]_(n, p)) => invmx M *m N).
Proof. exact: solve_by_inverse_contract. Qed.
Print Assumptions C18_contract_satisfiable.

Theorem C18_full_rank_satisfiable : R_example *m R_example^T \in unitmx.
Proof. exact: full_rank_example. Qed.
Print Assumptions C18_full_rank_satisfiable.

(* 1. the estimate solves the normal equations of the fitted columns followed by the dummy observations *)
Theorem C18_normal_equations (F : fieldType) (solve : solver F) (n q m k N Nw Nd : nat)
    (w : 'I_Nw -> 'I_N) (dof : bool)
    (Y0 : 'M[F]_(n, N)) (Y1 : 'M[F]_(n + q * n, N)) (X : 'M[F]_(m, N)) (Kc : 'M[F]_(k, N))
    (Ld : 'M[F]_(n, Nd)) (Rd : 'M[F]_(n + q * n + (m + k), Nd)) :
  solve_contract solve ->
  let est := estimate_core (M := MC solve) (n := n) (q := q) (m := m) (k := k) w dof Y0 Y1 X Kc Ld Rd in
  let L : 'M[F]_(n, Nw + Nd) := est.1.1 in
  let R : 'M[F]_(n + q * n + (m + k), Nw + Nd) := est.1.2 in
  let beta : 'M[F]_(n, n + q * n + (m + k)) := est.2.1.1 in
  (L = row_mx (colsel w Y0) Ld /\ R = row_mx (colsel w (col_mx Y1 (col_mx X Kc))) Rd) /\
  (R *m R^T \in unitmx -> beta *m (R *m R^T) = L *m R^T).
Proof. exact: C18_normal_equations_stmt. Qed.
Print Assumptions C18_normal_equations.

(* 2. residuals are orthogonal to the regressors on the fitted columns (plus the dummy-observation term;
      with no prior, Nd = 0 and that term is an empty sum) *)
Theorem C18_residuals_orthogonal (F : fieldType) (solve : solver F) (n q m k N Nw Nd : nat)
    (w : 'I_Nw -> 'I_N) (dof : bool)
    (Y0 : 'M[F]_(n, N)) (Y1 : 'M[F]_(n + q * n, N)) (X : 'M[F]_(m, N)) (Kc : 'M[F]_(k, N))
    (Ld : 'M[F]_(n, Nd)) (Rd : 'M[F]_(n + q * n + (m + k), Nd)) :
  solve_contract solve ->
  let est := estimate_core (M := MC solve) (n := n) (q := q) (m := m) (k := k) w dof Y0 Y1 X Kc Ld Rd in
  let R : 'M[F]_(n + q * n + (m + k), Nw + Nd) := est.1.2 in
  let beta : 'M[F]_(n, n + q * n + (m + k)) := est.2.1.1 in
  let U : 'M[F]_(n, N) := est.2.1.2 in
  R *m R^T \in unitmx ->
  colsel w U *m (colsel w (col_mx Y1 (col_mx X Kc)))^T + (Ld - beta *m Rd) *m Rd^T = 0.
Proof. exact: C18_residuals_orthogonal_stmt. Qed.
Print Assumptions C18_residuals_orthogonal.

(* 2b. ... and without prior observations (no dummy columns) it is the plain statement U_w R_w' = 0 *)
Theorem C18_residuals_orthogonal_no_prior (F : fieldType) (solve : solver F) (n q m k N Nw : nat)
    (w : 'I_Nw -> 'I_N) (dof : bool)
    (Y0 : 'M[F]_(n, N)) (Y1 : 'M[F]_(n + q * n, N)) (X : 'M[F]_(m, N)) (Kc : 'M[F]_(k, N))
    (Ld : 'M[F]_(n, 0)) (Rd : 'M[F]_(n + q * n + (m + k), 0)) :
  solve_contract solve ->
  let est := estimate_core (M := MC solve) (n := n) (q := q) (m := m) (k := k) w dof Y0 Y1 X Kc Ld Rd in
  let Rw : 'M[F]_(n + q * n + (m + k), Nw) := colsel w (col_mx Y1 (col_mx X Kc)) in
  let U : 'M[F]_(n, N) := est.2.1.2 in
  Rw *m Rw^T \in unitmx -> colsel w U *m Rw^T = 0.
Proof. exact: est_residual_orthogonal_no_prior. Qed.
Print Assumptions C18_residuals_orthogonal_no_prior.

(* 3. fitted equation + stored residual = data: on every column, hence on every fitted observation *)
Theorem C18_fit_plus_residual (F : fieldType) (solve : solver F) (n q m k N Nw Nd : nat)
    (w : 'I_Nw -> 'I_N) (dof : bool)
    (Y0 : 'M[F]_(n, N)) (Y1 : 'M[F]_(n + q * n, N)) (X : 'M[F]_(m, N)) (Kc : 'M[F]_(k, N))
    (Ld : 'M[F]_(n, Nd)) (Rd : 'M[F]_(n + q * n + (m + k), Nd)) :
  let est := estimate_core (M := MC solve) (n := n) (q := q) (m := m) (k := k) w dof Y0 Y1 X Kc Ld Rd in
  let beta : 'M[F]_(n, n + q * n + (m + k)) := est.2.1.1 in
  let U : 'M[F]_(n, N) := est.2.1.2 in
  let A : 'M[F]_(n, n + q * n) := lsubmx beta in
  let B : 'M[F]_(n, m) := lsubmx (rsubmx beta) in
  let c : 'M[F]_(n, k) := rsubmx (rsubmx beta) in
  A *m Y1 + B *m X + c *m Kc + U = Y0 /\
  forall j : 'I_Nw, A *m col (w j) Y1 + B *m col (w j) X + c *m col (w j) Kc + col (w j) U = col (w j) Y0.
Proof. exact: C18_fit_plus_residual_stmt. Qed.
Print Assumptions C18_fit_plus_residual.

(* 4. noise-free data generated by a VAR return that VAR (and zero residuals, zero covariance) *)
Theorem C18_noise_free_recovery (F : fieldType) (solve : solver F) (n q m k N Nw Nd : nat)
    (w : 'I_Nw -> 'I_N) (dof : bool)
    (Y0 : 'M[F]_(n, N)) (Y1 : 'M[F]_(n + q * n, N)) (X : 'M[F]_(m, N)) (Kc : 'M[F]_(k, N))
    (Ld : 'M[F]_(n, Nd)) (Rd : 'M[F]_(n + q * n + (m + k), Nd)) (b : 'M[F]_(n, n + q * n + (m + k))) :
  solve_contract solve ->
  let est := estimate_core (M := MC solve) (n := n) (q := q) (m := m) (k := k) w dof Y0 Y1 X Kc Ld Rd in
  let R : 'M[F]_(n + q * n + (m + k), Nw + Nd) := est.1.2 in
  let beta : 'M[F]_(n, n + q * n + (m + k)) := est.2.1.1 in
  let U : 'M[F]_(n, N) := est.2.1.2 in
  let cov : 'M[F]_n := est.2.2 in
  R *m R^T \in unitmx ->
  colsel w Y0 = b *m colsel w (col_mx Y1 (col_mx X Kc)) -> Ld = b *m Rd ->
  beta = b /\ colsel w U = 0 /\ cov = 0.
Proof. exact: C18_noise_free_recovery_stmt. Qed.
Print Assumptions C18_noise_free_recovery.

(* 5. the residual covariance is the (optionally dof-corrected) second moment of the fitted residuals, symmetric *)
Theorem C18_cov_is_second_moment (F : fieldType) (solve : solver F) (n q m k N Nw Nd : nat)
    (w : 'I_Nw -> 'I_N) (dof : bool)
    (Y0 : 'M[F]_(n, N)) (Y1 : 'M[F]_(n + q * n, N)) (X : 'M[F]_(m, N)) (Kc : 'M[F]_(k, N))
    (Ld : 'M[F]_(n, Nd)) (Rd : 'M[F]_(n + q * n + (m + k), Nd)) :
  (2%:R : F) != 0 -> (k <= 1)%N ->
  let est := estimate_core (M := MC solve) (n := n) (q := q) (m := m) (k := k) w dof Y0 Y1 X Kc Ld Rd in
  let U : 'M[F]_(n, N) := est.2.1.2 in
  let cov : 'M[F]_n := est.2.2 in
  cov = (Nw%:R - (if dof then m + k else 0)%N%:R)^-1 *: (colsel w U *m (colsel w U)^T) /\ cov^T = cov.
Proof. exact: C18_cov_is_second_moment_stmt. Qed.
Print Assumptions C18_cov_is_second_moment.

(* 6. the companion matrix acts on a stack of lags as the stacked VAR recursion: one period of simulate_flat
      maps the state (y(t-1); ...; y(t-p)) to (y(t); y(t-1); ...; y(t-p+1)) with
      y(t) = A (y(t-1); ...; y(t-p)) + c + u(t) + B x(t) *)
Theorem C18_companion_is_stacked_recursion (F : fieldType) (solve : solver F) (n q m k : nat)
    (A : 'M[F]_(n, n + q * n)) (B : 'M[F]_(n, m)) (c : 'M[F]_(n, k))
    (h : nat -> 'cV[F]_n) (u : 'cV[F]_n) (x : 'cV[F]_m) :
  sim_step (M := MC solve) (n := n) (q := q) (m := m) (k := k) A B c (stackf q.+1 h) u x
  = stackf q.+1 (hcons (A *m stackf q.+1 h + c *m const_mx 1 + u + B *m x) h)
  /\ sim_obs (M := MC solve) (n := n) (q := q) (stackf q.+1 (hcons (A *m stackf q.+1 h + c *m const_mx 1 + u + B *m x) h))
     = A *m stackf q.+1 h + c *m const_mx 1 + u + B *m x.
Proof. exact: C18_companion_is_stacked_recursion_stmt. Qed.
Print Assumptions C18_companion_is_stacked_recursion.

(* 7. simulating ANY coefficients (in particular the estimated ones) over the estimation span, from the data's own
      initial condition, with the residuals computed by the model's [residuals] (what estimate stores) and the
      exogenous data, returns the data: by induction over the periods, for every sample size N *)
Theorem C18_simulate_estimate_roundtrip (F : fieldType) (solve : solver F) (n q m k : nat)
    (A : 'M[F]_(n, n + q * n)) (B : 'M[F]_(n, m)) (c : 'M[F]_(n, k))
    (yd : nat -> 'cV[F]_n) (xd : nat -> 'cV[F]_m) (h0 : nat -> 'cV[F]_n) (N : nat) :
  let Y0 : 'M[F]_(n, N) := \matrix_(i, t) yd t i 0 in
  let Y1 : 'M[F]_(n + q * n, N) := \matrix_(i, t) stackf q.+1 (hist yd h0 t) i 0 in
  let X : 'M[F]_(m, N) := \matrix_(i, t) xd t i 0 in
  let U : 'M[F]_(n, N) := residuals (M := MC solve) (n := n) (q := q) (m := m) (k := k) A B c Y0 Y1 X (const_mx 1) in
  simulate (M := MC solve) (n := n) (q := q) (m := m) (k := k) A B c (stackf q.+1 h0)
    [seq (col t U, col t X) | t <- enum 'I_N] = [seq col t Y0 | t <- enum 'I_N].
Proof. exact: simulate_estimate_roundtrip. Qed.
Print Assumptions C18_simulate_estimate_roundtrip.

(* 8. the reported mean solves (I - A_1 - ... - A_p) mu = c, and is the rest point of the recursion *)
Theorem C18_companion_mean (F : fieldType) (solve : solver F) (n q m k : nat)
    (A : 'M[F]_(n, n + q * n)) (B : 'M[F]_(n, m)) (c : 'M[F]_(n, k)) :
  solve_contract solve ->
  let sA : 'M[F]_n := sumA (M := MC solve) A in
  (forall mu : 'cV[F]_n, A *m stackf q.+1 (fun _ => mu) = sA *m mu) /\
  (1%:M - sA \in unitmx ->
     (1%:M - sA) *m var_mean (M := MC solve) (n := n) (q := q) (k := k) A c = c *m const_mx 1) /\
  (forall mu : 'cV[F]_n, (1%:M - sA) *m mu = c *m const_mx 1 ->
     sim_step (M := MC solve) (n := n) (q := q) (m := m) (k := k) A B c (stackf q.+1 (fun _ => mu)) 0 0
     = stackf q.+1 (fun _ => mu)).
Proof. exact: C18_companion_mean_stmt. Qed.
Print Assumptions C18_companion_mean.

(* 9. eigen-structure of the companion matrix: v = (f 0; ...; f q) is an eigenvector for lambda iff the blocks are
      geometric (f i = lambda f (i+1)) and satisfy the VAR recursion; every vector is such a stack.
      _partial: that get_eigenvalues returns the eigenvalues of this matrix rests on numpy.linalg.eigvals (checked
      on every correspondence case against the exact characteristic polynomial of the model's companion matrix) *)
Theorem C18_companion_eigen_partial (F : fieldType) (solve : solver F) (n q : nat)
    (A : 'M[F]_(n, n + q * n)) (lam : F) (f : nat -> 'cV[F]_n) :
  (companion_T (M := MC solve) (n := n) (q := q) A *m stackf q.+1 f = lam *: stackf q.+1 f
   <-> (A *m stackf q.+1 f = lam *: f 0%N /\ forall i, (i < q)%N -> f i = lam *: f i.+1))
  /\ (forall v : 'cV[F]_(q.+1 * n), exists g, v = stackf q.+1 g).
Proof. exact: C18_companion_eigen_partial_stmt. Qed.
Print Assumptions C18_companion_eigen_partial.

(* 10. autocovariances are those of the companion form.
       _partial: the Lyapunov solution Omega is a hypothesis (scipy.linalg.solve_discrete_lyapunov is a black box; its
       output is checked against the model's companion system in exact arithmetic on every correspondence case) *)
Theorem C18_acov_companion_partial (F : fieldType) (solve : solver F) (n q : nat)
    (A : 'M[F]_(n, n + q * n)) (S : 'M[F]_n) (Om : 'M[F]_(n + q * n, n + q * n)) :
  let T : 'M[F]_(n + q * n, n + q * n) := companion_T (M := MC solve) (n := n) (q := q) A in
  (forall upto j : nat, (j <= upto)%N ->
     nth 0 (acov_from (M := MC solve) (n := n) (q := q) T Om upto) j
     = topleft (M := MC solve) (n := n) (q := q) (iter j (mulmx T) Om)) /\
  (forall Z : 'M[F]_(n + q * n, n + q * n), topleft (M := MC solve) (n := n) (q := q) (T *m Z) = A *m lsubmx Z) /\
  (Om = T *m Om *m T^T + companion_sigma (M := MC solve) (n := n) (q := q) S ->
     topleft (M := MC solve) (n := n) (q := q) Om = A *m Om *m A^T + S).
Proof. exact: C18_acov_companion_partial_stmt. Qed.
Print Assumptions C18_acov_companion_partial.

(* 10b. the scalar formulas regenerated from the source on this run (Dimensions properties, degrees-of-freedom
        subtrahend, number of dummy observations of the two priors, position of A inside beta, default residual)
        are the ones the model and the statements above assume.  The matrix fragments gen_ols, gen_residuals,
        gen_cov_residuals, gen_symmetrize are used directly as the model's definitions. *)
Theorem C18_generated_formulas (n p m : nat) (ic dof : bool) :
  gen_dimension_fields = ("num_endogenous" :: "order" :: "has_intercept" :: "num_exogenous" :: nil)%string /\
  gen_num_nonendogenous n p ic m = (m + PeanoNat.Nat.b2n ic)%coq_nat /\
  gen_num_lagged_endogenous n p ic m = (n * p)%coq_nat /\
  gen_num_rhs n p ic m = (n * p + (m + PeanoNat.Nat.b2n ic))%coq_nat /\
  gen_split_a_end n p ic m = (n * p)%coq_nat /\
  gen_dof_subtrahend n p ic m dof = (if dof then (m + PeanoNat.Nat.b2n ic)%coq_nat else 0%N) /\
  gen_minnesota_num_obs n p ic m = (n * p)%coq_nat /\
  gen_mean_num_obs n p ic m = PeanoNat.Nat.b2n ic /\
  gen_default_residual_is_zero = true.
Proof. exact: generated_formulas. Qed.
Print Assumptions C18_generated_formulas.

(* 11. data layer, any value type with a finiteness test: the fitted positions are, in increasing order, exactly the
       columns on which the current observation, all p lags of every endogenous variable and every exogenous
       variable are finite; row i*n+v of the lag stack is lag i+1 of variable v *)
Theorem C18_mask_exact (T : Type) (fin : T -> bool) (one dflt : T) (p k N : nat) (ys xs : list (list T)) :
  (forall r, List.In r ys -> List.length r = (p + N)%coq_nat) ->
  (forall r, List.In r xs -> List.length r = (p + N)%coq_nat) ->
  ys <> nil -> fin one = true ->
  let idx := true_positions 0 (ed_where (estimation_data T fin one dflt p k true ys xs)) in
  Sorted.StronglySorted lt idx /\
  forall j, List.In j idx <->
    (j < N)%coq_nat /\
    (forall r i, List.In r ys -> (i <= p)%coq_nat -> fin (List.nth (p + j - i)%coq_nat r dflt) = true) /\
    (forall r, List.In r xs -> fin (List.nth (p + j)%coq_nat r dflt) = true).
Proof. exact: fitted_positions_exact. Qed.
Print Assumptions C18_mask_exact.

Theorem C18_lag_stacking (T : Type) (dflt : T) (p N : nat) (ys : list (list T)) (i v j : nat) :
  (forall r, List.In r ys -> List.length r = (p + N)%coq_nat) ->
  (i < p)%coq_nat -> (v < List.length ys)%coq_nat -> (j < N)%coq_nat ->
  List.nth j (List.nth (i * List.length ys + v)%coq_nat (stack_y1 T p ys) nil) dflt
  = List.nth (p + j - S i)%coq_nat (List.nth v ys nil) dflt
  /\ List.nth j (List.nth v (stack_y0 T p ys) nil) dflt = List.nth (p + j)%coq_nat (List.nth v ys nil) dflt.
Proof. exact: C18_lag_stacking_stmt. Qed.
Print Assumptions C18_lag_stacking.

(* 12. "its reported ... eigenvalues ... are those of its companion form": what get_max_abs_eigenvalue and get_stability
       report (model/Spectral.v, defined in terms of gen_max_abs_eigenvalue / gen_is_stable regenerated from
       Variant._populate_eigenvalues / is_stable on this run) for ANY list of eigenvalues of any length and order, over any
       type C of complex numbers with any modulus function into any totally pre-ordered type T ([leb] is <=):
       the reported maximum is the modulus of one of the eigenvalues and no eigenvalue has a larger modulus (the spectral
       radius), it does not depend on the order in which eigvals returns the eigenvalues, and the verdict is "stable"
       exactly when every eigenvalue has modulus < 1, "unstable" exactly when one has modulus >= 1.
       numpy.linalg.eigvals itself is a black box (the list [eigs]); the correspondence checks its output against the
       exact characteristic polynomial of the model's companion matrix on every case. *)
Theorem C18_max_abs_eigenvalue_is_spectral_radius (C T : Type) (modulus : C -> T) (leb : T -> T -> bool)
    (of_nat : nat -> T) (cmax : list C -> C)
    (leb_total : forall a b, leb a b = false -> leb b a = true)
    (leb_trans : forall a b c, leb a b = true -> leb b c = true -> leb a c = true) (eigs : list C) :
  eigs <> nil ->
  exists r, Spectral.max_abs_eigenvalue modulus leb of_nat cmax eigs = Some r
    /\ (exists z, List.In z eigs /\ r = modulus z)
    /\ (forall z, List.In z eigs -> leb (modulus z) r = true).
Proof. exact: SpectralProofs.max_abs_eigenvalue_is_spectral_radius. Qed.
Print Assumptions C18_max_abs_eigenvalue_is_spectral_radius.

Theorem C18_max_abs_eigenvalue_order_independent (C T : Type) (modulus : C -> T) (leb : T -> T -> bool)
    (of_nat : nat -> T) (cmax : list C -> C)
    (leb_total : forall a b, leb a b = false -> leb b a = true)
    (leb_trans : forall a b c, leb a b = true -> leb b c = true -> leb a c = true) (eigs eigs' : list C) (r r' : T) :
  Permutation.Permutation eigs eigs' ->
  Spectral.max_abs_eigenvalue modulus leb of_nat cmax eigs = Some r ->
  Spectral.max_abs_eigenvalue modulus leb of_nat cmax eigs' = Some r' ->
  leb r r' = true /\ leb r' r = true.
Proof. exact: SpectralProofs.max_abs_eigenvalue_perm. Qed.
Print Assumptions C18_max_abs_eigenvalue_order_independent.

Theorem C18_stability_verdict (C T : Type) (modulus : C -> T) (leb : T -> T -> bool)
    (of_nat : nat -> T) (cmax : list C -> C)
    (leb_total : forall a b, leb a b = false -> leb b a = true)
    (leb_trans : forall a b c, leb a b = true -> leb b c = true -> leb a c = true) (eigs : list C) :
  (Spectral.is_stable modulus leb of_nat cmax eigs = Some true
     <-> eigs <> nil /\ forall z, List.In z eigs -> Spectral.ltb leb (modulus z) (of_nat 1%N) = true)
  /\ (Spectral.is_stable modulus leb of_nat cmax eigs = Some false
     <-> exists z, List.In z eigs /\ leb (of_nat 1%N) (modulus z) = true)
  /\ (Spectral.is_stable modulus leb of_nat cmax eigs = None <-> eigs = nil).
Proof. exact: SpectralProofs.stability_verdict. Qed.
Print Assumptions C18_stability_verdict.

(* one entry per variant, computed from that variant's eigenvalues alone *)
Theorem C18_spectral_accessors_per_variant (C T : Type) (modulus : C -> T) (leb : T -> T -> bool)
    (of_nat : nat -> T) (cmax : list C -> C) (variants : list (list C)) (i : nat) :
  List.nth i (Spectral.get_max_abs_eigenvalue modulus leb of_nat cmax variants) None
    = Spectral.max_abs_eigenvalue modulus leb of_nat cmax (List.nth i variants nil)
  /\ List.nth i (Spectral.get_stability modulus leb of_nat cmax variants) None
    = Spectral.is_stable modulus leb of_nat cmax (List.nth i variants nil)
  /\ List.nth i (Spectral.get_eigenvalues variants) nil = List.nth i variants nil
  /\ List.length (Spectral.get_max_abs_eigenvalue modulus leb of_nat cmax variants) = List.length variants
  /\ List.length (Spectral.get_stability modulus leb of_nat cmax variants) = List.length variants.
Proof. exact: SpectralProofs.accessors_per_variant. Qed.
Print Assumptions C18_spectral_accessors_per_variant.

(* an order embedding f (on a domain P closed under max) commutes with the maximum: the maximum of the squared moduli
   re^2 + im^2 computed by the executable instance in exact rationals is the square of the maximum modulus *)
Theorem C18_max_commutes_with_order_embedding (T T' : Type) (leb : T -> T -> bool) (leb' : T' -> T' -> bool)
    (f : T -> T') (P : T -> Prop)
    (f_embeds : forall a b, P a -> P b -> leb a b = leb' (f a) (f b)) (l : list T) (x : T) :
  P x -> List.Forall P l -> f (Spectral.max_of leb x l) = Spectral.max_of leb' (f x) (List.map f l).
Proof. exact: SpectralProofs.max_of_embedding. Qed.
Print Assumptions C18_max_commutes_with_order_embedding.

(* non-vacuity: the rationals with squared moduli satisfy the hypotheses (total, transitive, squaring embeds the
   non-negative rationals), and the two shapes in which "largest modulus" differs from "largest eigenvalue" evaluate
   as they should: a dominant negative root -5/4 (unstable), a dominant complex pair 1/8 +- 7/8 i (stable) *)
Theorem C18_spectral_hypotheses_satisfiable :
  (forall a b, SpectralProofs.Qleb a b = false -> SpectralProofs.Qleb b a = true)
  /\ (forall a b c, SpectralProofs.Qleb a b = true -> SpectralProofs.Qleb b c = true -> SpectralProofs.Qleb a c = true)
  /\ (forall a b, QArith_base.Qle (QArith_base.inject_Z BinNums.Z0) a -> QArith_base.Qle (QArith_base.inject_Z BinNums.Z0) b ->
        SpectralProofs.Qleb a b = SpectralProofs.Qleb (QArith_base.Qmult a a) (QArith_base.Qmult b b)).
Proof. exact: SpectralProofs.spectral_hypotheses_satisfiable. Qed.
Print Assumptions C18_spectral_hypotheses_satisfiable.
