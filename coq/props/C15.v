(* C15  Model-implied autocovariances solve the solved model's Lyapunov equation.
   Only restatements: every proof is `exact <lemma of proofs/AcovProofs.v>`.

   The model (model/Acov.v) is the text of fords/covariances.py and of the glue in
   simultaneous/_covariances.py written over the abstract matrix interface lib/MxC15.v;
   here it is instantiated on MathComp matrices over ANY real closed field F
   ([McOps F]); the same text instantiated on exact dyadic numbers is what the
   correspondence run evaluates against Simultaneous.get_acov / get_acorr.

   Contracts (black boxes, premises of the theorems, checked numerically on every recorded call):
     lyap_contract sol Su X  :  X = Ta_stable X Ta_stable^T + Pa_stable Su Pa_stable^T
                                (output of scipy.linalg.solve_discrete_lyapunov), X^T = X;
     lyap_unique Ta          :  that equation has at most one solution (true for a stable Ta_stable;
                                MathComp has no spectral theory, so it is a premise where it is used);
     T Ua = Ua Ta, P = Ua Pa, Za = Z Ua, dlsubmx Ta = 0 : the square solution is the rotation of the
                                block-triangular one (fords/solutions.py; property C01).
   Dimensions: nu unit roots, ns stable roots, ny measurement variables, ne / nw shocks. *)
From mathcomp Require Import all_ssreflect all_algebra.
From Verif.lib Require Import MxC15.
From Verif.model Require Import Acov.
From Verif.proofs Require Import AcovProofs.
Import GRing.Theory Num.Theory.
Local Open Scope ring_scope.

Notation cstd F := (cov_of_std (O:=McOps F)).

(* 1. order 0.  For every row selector L of transition variables that are not loaded on unit roots
      (L Ua[:, :nu] = 0) the reported covariance solves the Lyapunov equation of the SQUARE solution
      xi_t = T xi_(t-1) + P u_t; the measurement block and the cross terms are Z Gxx Z' + H Sw H',
      Gxx Z', Z Gxx. *)
Theorem C15_order0_solves_square_lyapunov :
  forall (F : rcfType) (nu ns ny ne nw : nat)
    (Ta : 'M[F]_(nu + ns)) (Pa : 'M[F]_(nu + ns, ne)) (Za : 'M[F]_(ny, nu + ns)) (H : 'M[F]_(ny, nw))
    (Ua : 'M[F]_(nu + ns)) (tol : F) (std_u : 'rV[F]_ne) (std_w : 'rV[F]_nw) (X : 'M[F]_ns),
  lyap_contract (sol Ta Pa Za H Ua tol) (cstd F std_u) X -> X^T = X ->
  forall (k : nat) (T : 'M[F]_(nu + ns)) (P : 'M[F]_(nu + ns, ne)) (Z : 'M[F]_(ny, nu + ns)),
  T *m Ua = Ua *m Ta -> P = Ua *m Pa -> Za = Z *m Ua -> dlsubmx Ta = 0 ->
  let G := nth 0 (autocov_square_00 (sol Ta Pa Za H Ua tol) (cstd F std_w) X k) 0 in
  (forall m (L : 'M[F]_(m, nu + ns)), L *m lsubmx Ua = 0 ->
     L *m ulsubmx G *m L^T = L *m (T *m ulsubmx G *m T^T + P *m cstd F std_u *m P^T) *m L^T) /\
  drsubmx G = Z *m ulsubmx G *m Z^T + H *m cstd F std_w *m H^T /\
  ursubmx G = ulsubmx G *m Z^T /\ dlsubmx G = Z *m ulsubmx G.
Proof. exact @stmt_order0_square. Qed.
Print Assumptions C15_order0_solves_square_lyapunov.

(* 1'. stationary model (no unit roots): the full equation, and the order recursion with the square
       companion matrix Asq = [[T, 0], [Z T, 0]] of [xi; y] *)
Theorem C15_stationary_model :
  forall (F : rcfType) (ns ny ne nw : nat)
    (Ta : 'M[F]_(0 + ns)) (Pa : 'M[F]_(0 + ns, ne)) (Za : 'M[F]_(ny, 0 + ns)) (H : 'M[F]_(ny, nw))
    (Ua : 'M[F]_(0 + ns)) (tol : F) (std_u : 'rV[F]_ne) (std_w : 'rV[F]_nw) (X : 'M[F]_ns),
  lyap_contract (sol Ta Pa Za H Ua tol) (cstd F std_u) X -> X^T = X ->
  forall (k j : nat) (T : 'M[F]_(0 + ns)) (P : 'M[F]_(0 + ns, ne)) (Z : 'M[F]_(ny, 0 + ns)),
  T *m Ua = Ua *m Ta -> P = Ua *m Pa -> Za = Z *m Ua -> (j < k)%N ->
  let G := fun j => nth 0 (autocov_square_00 (sol Ta Pa Za H Ua tol) (cstd F std_w) X k) j in
  let Gxx := ulsubmx (G 0%N) in
  Gxx = T *m Gxx *m T^T + P *m cstd F std_u *m P^T /\
  G j.+1 = Asq T Z *m G j.
Proof. exact @stmt_stationary. Qed.
Print Assumptions C15_stationary_model.

(* 1''. the order-0 matrix of the triangular system [alpha; y] is the stationary covariance of
        s_t = A s_(t-1) + E [u_t; w_t]  (unit-root part of alpha switched off) *)
Theorem C15_order0_triangular_stationary :
  forall (F : rcfType) (nu ns ny ne nw : nat)
    (Ta : 'M[F]_(nu + ns)) (Pa : 'M[F]_(nu + ns, ne)) (Za : 'M[F]_(ny, nu + ns)) (H : 'M[F]_(ny, nw))
    (Ua : 'M[F]_(nu + ns)) (tol : F) (std_u : 'rV[F]_ne) (std_w : 'rV[F]_nw) (X : 'M[F]_ns),
  lyap_contract (sol Ta Pa Za H Ua tol) (cstd F std_u) X -> X^T = X ->
  forall k : nat,
  let G0 := nth 0 (autocov_triangular_00 (sol Ta Pa Za H Ua tol) (cstd F std_w) X k) 0 in
  let A := A_tri (sol Ta Pa Za H Ua tol) in
  G0 = A *m G0 *m A^T + Emx Pa Za H *m Sigma (cstd F std_u) (cstd F std_w) *m (Emx Pa Za H)^T.
Proof. exact @stmt_order0_triangular. Qed.
Print Assumptions C15_order0_triangular_stationary.

(* 2. order j: G_(j+1) = A G_j, G_j = A^j G_0, and the square matrices are the rotation by diag(Ua, I) *)
Theorem C15_order_j :
  forall (F : rcfType) (nu ns ny ne nw : nat)
    (Ta : 'M[F]_(nu + ns)) (Pa : 'M[F]_(nu + ns, ne)) (Za : 'M[F]_(ny, nu + ns)) (H : 'M[F]_(ny, nw))
    (Ua : 'M[F]_(nu + ns)) (tol : F) (std_w : 'rV[F]_nw) (X : 'M[F]_ns) (k j : nat), (j < k)%N ->
  let Gt := fun j => nth 0 (autocov_triangular_00 (sol Ta Pa Za H Ua tol) (cstd F std_w) X k) j in
  let Gs := fun j => nth 0 (autocov_square_00 (sol Ta Pa Za H Ua tol) (cstd F std_w) X k) j in
  let A := A_tri (sol Ta Pa Za H Ua tol) in
  Gt j.+1 = A *m Gt j /\ Gt j = iter j (mulmx A) (Gt 0%N) /\
  Gs j = @Wm F nu ns ny Ua *m Gt j *m (@Wm F nu ns ny Ua)^T.
Proof. exact @stmt_order_j. Qed.
Print Assumptions C15_order_j.

(* 2'. in terms of the square solution: on every combination Lf of [xi; y] that carries no unit root
       (Lf [Ua[:, :nu]; Za[:, :nu]] = 0) order j+1 is the square companion matrix times order j *)
Theorem C15_order_j_square :
  forall (F : rcfType) (nu ns ny ne nw : nat)
    (Ta : 'M[F]_(nu + ns)) (Pa : 'M[F]_(nu + ns, ne)) (Za : 'M[F]_(ny, nu + ns)) (H : 'M[F]_(ny, nw))
    (Ua : 'M[F]_(nu + ns)) (tol : F) (std_w : 'rV[F]_nw) (X : 'M[F]_ns) (k j : nat)
    (T : 'M[F]_(nu + ns)) (Z : 'M[F]_(ny, nu + ns)) m (Lf : 'M[F]_(m, nu + ns + ny)),
  T *m Ua = Ua *m Ta -> Za = Z *m Ua -> dlsubmx Ta = 0 -> (j < k)%N ->
  Lf *m Uload Za Ua = 0 ->
  let Gs := fun j => nth 0 (autocov_square_00 (sol Ta Pa Za H Ua tol) (cstd F std_w) X k) j in
  Lf *m Gs j.+1 = Lf *m Asq T Z *m Gs j.
Proof. exact @stmt_order_j_square. Qed.
Print Assumptions C15_order_j_square.

(* 2''. cov(x_(t+j), x_t) of a linear process.  Random vectors are represented by their loadings on N
        uncorrelated unit-variance primitive shocks (cov X Y = X Y^T, so bilinearity is matrix algebra):
        if x_(t+1) = A x_t + e_(t+1), the innovations have covariance Q and are uncorrelated with the
        past, and the initial covariance G0 solves G0 = A G0 A' + Q, then the variance is G0 at every
        date and the lag-j autocovariance is A^j G0 (induction on t and j; any horizon Tmax). *)
Theorem C15_linear_process_autocov :
  forall (F : rcfType) (n N : nat) (A Q G0 : 'M[F]_n) (Tmax : nat) (x e : nat -> 'M[F]_(n, N)),
  (forall t, (t < Tmax)%N -> x t.+1 = A *m x t + e t.+1) ->
  (forall t s, (s <= t)%N -> (t < Tmax)%N -> cov (e t.+1) (x s) = 0) ->
  (forall t, (t < Tmax)%N -> cov (e t.+1) (e t.+1) = Q) ->
  cov (x 0%N) (x 0%N) = G0 -> G0 = A *m G0 *m A^T + Q ->
  forall t j, (t + j <= Tmax)%N ->
    cov (x t) (x t) = G0 /\ cov (x (t + j)%N) (x t) = iter j (mulmx A) G0.
Proof.
exact (fun F n N A Q G0 Tmax x e H1 H2 H3 H4 H5 t j tj =>
  conj (process_variance H1 H2 H3 H4 H5 (leq_trans (leq_addr j t) tj)) (process_autocov H1 H2 H3 H4 H5 tj)).
Qed.
Print Assumptions C15_linear_process_autocov.

(* ... and the model's order-j output IS that autocovariance, for the triangular system and, rotated, for
   the square one (xi = Ua alpha) *)
Theorem C15_order_j_is_process_autocov :
  forall (F : rcfType) (nu ns ny ne nw : nat)
    (Ta : 'M[F]_(nu + ns)) (Pa : 'M[F]_(nu + ns, ne)) (Za : 'M[F]_(ny, nu + ns)) (H : 'M[F]_(ny, nw))
    (Ua : 'M[F]_(nu + ns)) (tol : F) (Su : 'M[F]_ne) (Sw : 'M[F]_nw) (X : 'M[F]_ns),
  lyap_contract (sol Ta Pa Za H Ua tol) Su X -> X^T = X ->
  forall (N Tmax : nat) (x e : nat -> 'M[F]_(nu + ns + ny, N)),
  (forall t, (t < Tmax)%N -> x t.+1 = A_tri (sol Ta Pa Za H Ua tol) *m x t + e t.+1) ->
  (forall t s, (s <= t)%N -> (t < Tmax)%N -> cov (e t.+1) (x s) = 0) ->
  (forall t, (t < Tmax)%N -> cov (e t.+1) (e t.+1) = Qe Pa Za H Su Sw) ->
  cov (x 0%N) (x 0%N) = cov_triangular_00 (sol Ta Pa Za H Ua tol) Sw X ->
  forall t j k, (t + j <= Tmax)%N -> (j <= k)%N ->
    cov (x (t + j)%N) (x t) = nth 0 (autocov_triangular_00 (sol Ta Pa Za H Ua tol) Sw X k) j /\
    cov (@Wm F nu ns ny Ua *m x (t + j)%N) (@Wm F nu ns ny Ua *m x t) =
      nth 0 (autocov_square_00 (sol Ta Pa Za H Ua tol) Sw X k) j.
Proof. exact @order_j_is_process_autocov. Qed.
Print Assumptions C15_order_j_is_process_autocov.

(* 3. NaN mask and selection of the current-dated rows: entry (a, b) of every order of getv_autocov is
      NaN exactly when row s a or column s b is loaded on a unit root (some |Ua[i, c]| or |Za[i, c]|,
      c < nu, above the tolerance), and the unmasked number otherwise *)
Theorem C15_unit_root_rows_nan :
  forall (F : rcfType) (nu ns ny ne nw : nat)
    (Ta : 'M[F]_(nu + ns)) (Pa : 'M[F]_(nu + ns, ne)) (Za : 'M[F]_(ny, nu + ns)) (H : 'M[F]_(ny, nw))
    (Ua : 'M[F]_(nu + ns)) (tol : F) (std_w : 'rV[F]_nw) (X : 'M[F]_ns)
    (kk : nat) (s : 'I_kk -> 'I_(nu + ns + ny)) (k j : nat) (a b : 'I_kk), (j <= k)%N ->
  nth (const_mx None) (getv_autocov (sol Ta Pa Za H Ua tol) s std_w X k) j a b =
    if loaded Za Ua tol (s a) || loaded Za Ua tol (s b) then None
    else Some (nth 0 (autocov_square_00 (sol Ta Pa Za H Ua tol) (cstd F std_w) X k) j (s a) (s b)).
Proof.
exact @stmt_unit_root_rows_nan.
Qed.
Print Assumptions C15_unit_root_rows_nan.

Theorem C15_loaded_iff :
  forall (F : rcfType) (nu ns ny : nat) (Za : 'M[F]_(ny, nu + ns)) (Ua : 'M[F]_(nu + ns)) (tol : F) (i : 'I_(nu + ns + ny)),
  loaded Za Ua tol i = [exists c : 'I_nu, tol < `|col_mx (lsubmx Ua) (lsubmx Za) i c|].
Proof. exact (fun F nu ns ny Za Ua tol i => erefl _). Qed.
Print Assumptions C15_loaded_iff.

(* 4. scaling every standard deviation by c scales every autocovariance by c^2 (linearity + the
      uniqueness contract of the Lyapunov solver) *)
Theorem C15_scale_square :
  forall (F : rcfType) (nu ns ny ne nw : nat)
    (Ta : 'M[F]_(nu + ns)) (Pa : 'M[F]_(nu + ns, ne)) (Za : 'M[F]_(ny, nu + ns)) (H : 'M[F]_(ny, nw))
    (Ua : 'M[F]_(nu + ns)) (tol : F) (c : F) (std_u : 'rV[F]_ne) (std_w : 'rV[F]_nw) (X X' : 'M[F]_ns),
  lyap_unique Ta ->
  lyap_contract (sol Ta Pa Za H Ua tol) (cstd F std_u) X ->
  lyap_contract (sol Ta Pa Za H Ua tol) (cstd F (c *: std_u)) X' ->
  forall (k j : nat), (j <= k)%N ->
  nth 0 (autocov_square_00 (sol Ta Pa Za H Ua tol) (cstd F (c *: std_w)) X' k) j =
    c ^+ 2 *: nth 0 (autocov_square_00 (sol Ta Pa Za H Ua tol) (cstd F std_w) X k) j.
Proof. exact @scale_square. Qed.
Print Assumptions C15_scale_square.

Theorem C15_scale_square_reported :
  forall (F : rcfType) (nu ns ny ne nw : nat)
    (Ta : 'M[F]_(nu + ns)) (Pa : 'M[F]_(nu + ns, ne)) (Za : 'M[F]_(ny, nu + ns)) (H : 'M[F]_(ny, nw))
    (Ua : 'M[F]_(nu + ns)) (tol : F) (c : F) (std_u : 'rV[F]_ne) (std_w : 'rV[F]_nw) (X X' : 'M[F]_ns),
  lyap_unique Ta ->
  lyap_contract (sol Ta Pa Za H Ua tol) (cstd F std_u) X ->
  lyap_contract (sol Ta Pa Za H Ua tol) (cstd F (c *: std_u)) X' ->
  forall (kk : nat) (s : 'I_kk -> 'I_(nu + ns + ny)) (k j : nat) (a b : 'I_kk), (j <= k)%N ->
  nth (const_mx None) (getv_autocov (sol Ta Pa Za H Ua tol) s (c *: std_w) X' k) j a b =
    omap (fun v => c ^+ 2 * v) (nth (const_mx None) (getv_autocov (sol Ta Pa Za H Ua tol) s std_w X k) j a b).
Proof. exact @scale_square_masked. Qed.
Print Assumptions C15_scale_square_reported.

(* under the uniqueness contract the solver's output is symmetric, so X^T = X above is not an extra
   assumption on a correct solver *)
Theorem C15_lyapunov_output_symmetric :
  forall (F : rcfType) (nu ns ny ne nw : nat)
    (Ta : 'M[F]_(nu + ns)) (Pa : 'M[F]_(nu + ns, ne)) (Za : 'M[F]_(ny, nu + ns)) (H : 'M[F]_(ny, nw))
    (Ua : 'M[F]_(nu + ns)) (tol : F) (Su : 'M[F]_ne) (X : 'M[F]_ns),
  lyap_unique Ta -> Su^T = Su -> lyap_contract (sol Ta Pa Za H Ua tol) Su X -> X^T = X.
Proof. exact @lyap_sym. Qed.
Print Assumptions C15_lyapunov_output_symmetric.

(* 5. acorr_from_acov: every order is the autocovariance divided by the two order-0 standard
      deviations; NaN stays NaN; the diagonal of order 0 is 1; invariant under the scaling of 4. *)
Theorem C15_acorr_scaling :
  forall (F : rcfType) (kk : nat) (c0 : 'M[option F]_kk) (l : seq 'M[option F]_kk) (j : nat) (a b : 'I_kk) (va vb v : F),
  (j < size (c0 :: l))%N -> c0 a a = Some va -> c0 b b = Some vb -> 0 < va -> 0 < vb ->
  nth (const_mx None) (c0 :: l) j a b = Some v ->
  nth (const_mx None) (acorr_from_acov (O:=McOps F) (c0 :: l)) j a b = Some (v / (Num.sqrt va * Num.sqrt vb)).
Proof. exact @acorr_scaling. Qed.
Print Assumptions C15_acorr_scaling.

Theorem C15_acorr_entries :
  forall (F : rcfType) (kk : nat) (c0 : 'M[option F]_kk) (l : seq 'M[option F]_kk) (j : nat) (a b : 'I_kk),
  (j < size (c0 :: l))%N ->
  size (acorr_from_acov (O:=McOps F) (c0 :: l)) = size (c0 :: l) /\
  nth (const_mx None) (acorr_from_acov (O:=McOps F) (c0 :: l)) j a b =
    omap (fun v => v * (inv_std (c0 a a) * inv_std (c0 b b))) (nth (const_mx None) (c0 :: l) j a b).
Proof. exact (fun F kk c0 l j a b jl => conj (size_acorr (c0 :: l)) (acorr_entries a b jl)). Qed.
Print Assumptions C15_acorr_entries.

Theorem C15_acorr_diag_one :
  forall (F : rcfType) (kk : nat) (c0 : 'M[option F]_kk) (l : seq 'M[option F]_kk) (a : 'I_kk) (va : F),
  c0 a a = Some va -> 0 < va ->
  nth (const_mx None) (acorr_from_acov (O:=McOps F) (c0 :: l)) 0 a a = Some 1.
Proof. exact @acorr_diag_one. Qed.
Print Assumptions C15_acorr_diag_one.

Theorem C15_acorr_scale_invariant :
  forall (F : rcfType) (kk : nat) (s : F) (c0 : 'M[option F]_kk) (l : seq 'M[option F]_kk) (c0' : 'M[option F]_kk)
    (l' : seq 'M[option F]_kk), s != 0 -> size l' = size l ->
  (forall j a b, nth (const_mx None) (c0' :: l') j a b =
                 omap (fun v => s ^+ 2 * v) (nth (const_mx None) (c0 :: l) j a b)) ->
  forall j a b, (j < size (c0 :: l))%N ->
  nth (const_mx None) (acorr_from_acov (O:=McOps F) (c0' :: l')) j a b =
  nth (const_mx None) (acorr_from_acov (O:=McOps F) (c0 :: l)) j a b.
Proof. exact @acorr_scale_invariant. Qed.
Print Assumptions C15_acorr_scale_invariant.

(* non-vacuity: a system with one unit root and one stable root (Ta = [[1, 1], [0, 1/2]], X = 4/3)
   meets every contract used above, with a non-zero covariance *)
Example C15_hypotheses_satisfiable : forall F : rcfType,
  lyap_unique (exTa F) /\
  lyap_contract (sol (exTa F) (exPa F) (exZa F) 1%:M 1%:M 0) (cstd F (exstd F)) (exX F) /\
  (exX F)^T = exX F /\ exX F != 0 /\ dlsubmx (exTa F) = 0 /\
  exTa F *m 1%:M = 1%:M *m exTa F /\ exPa F = 1%:M *m exPa F /\ exZa F = exZa F *m 1%:M.
Proof. exact @hypotheses_satisfiable. Qed.

