(* C05  Steady state returned by solve_steady satisfies the steady-state equations.
   Only restatements: every proof is `exact <lemma of proofs/SteadyProofs.v>`.
   The model (model/Steady.v) is defined in terms of gen/SteadyGen.v, regenerated from the source on every run, and is
   run bit for bit against Simultaneous.steady by the correspondence (harness/C05.py).  The Levenberg solver and
   numpy's lstsq are oracles: their outputs are universally quantified; theorems say what follows when the residual
   they report is below the tolerance.

   What is NOT proved: that the solver converges; "at every date" for general nonlinear growth models (it is false of
   the algorithm, C05_two_dates_do_not_suffice; the general statement is C05_every_date_partial = the two evaluated
   dates); floating-point rounding (theorems are over R). *)
From Coq Require Import ZArith List Bool Reals.
From Verif Require Import lib.Arith gen.SteadyGen gen.SteadyPlanGen model.Steady model.SteadyPlan proofs.SteadyProofs proofs.SteadyPlanProofs.
Import ListNotations.
Notation RA := RArith.

(* ---------------------------------------------------------------------------------------------------------------
   1. path_shape: the row of quantity q in the array built from stored levels and changes is, for EVERY column,
      level + change*shift (not a log-variable) or level * change^shift (log-variable) *)
Theorem C05_path_shape : forall lg (v : variant RA) ncols first q j,
  (q < length (v_levels RA v))%nat -> (j < ncols)%nat -> (2 <= ncols)%nat ->
  (is_log lg q = true -> (0 < vget RA (v_levels RA v) q)%R) ->
  aget RA (create_steady_array RA nobad lg v ncols first) q (Z.of_nat j) =
  if is_log lg q
  then (vget RA (v_levels RA v) q * Rpower (vget RA (v_changes RA v) q) (IZR (first + Z.of_nat j)))%R
  else (vget RA (v_levels RA v) q + vget RA (v_changes RA v) q * IZR (first + Z.of_nat j))%R.
Proof. exact path_shape. Qed.
Print Assumptions C05_path_shape.

(* ... read inductively: each column is the previous one plus the change (times the change for log-variables);
   constant when the change is 0 (resp. 1) *)
Theorem C05_path_shape_step : forall lg (v : variant RA) ncols first q j,
  (q < length (v_levels RA v))%nat -> (S j < ncols)%nat ->
  (is_log lg q = true -> (0 < vget RA (v_levels RA v) q /\ 0 < vget RA (v_changes RA v) q)%R) ->
  let a := create_steady_array RA nobad lg v ncols first in
  aget RA a q (Z.of_nat (S j)) =
  if is_log lg q then (aget RA a q (Z.of_nat j) * vget RA (v_changes RA v) q)%R
  else (aget RA a q (Z.of_nat j) + vget RA (v_changes RA v) q)%R.
Proof. exact path_shape_step. Qed.
Print Assumptions C05_path_shape_step.

Theorem C05_path_constant : forall l s, path_value false l 0 s = l /\ path_value true l 1 s = l.
Proof. exact c05_path_constant_stmt. Qed.
Print Assumptions C05_path_constant.

(* ---------------------------------------------------------------------------------------------------------------
   2. guess_roundtrip.  ev = the evaluator built for (variant v, block), v' = the variant after
      _update_variant_with_final_guess with final guess g.
      (a) index level, every carrier-independent: what extract_levels/changes select from the updated vectors is the
          corresponding part of the guess, g = levels-part ++ changes-part *)
Theorem C05_guess_roundtrip_index : forall flat lg (v : variant RA) wrt level_qids change_qids eqs g,
  let ev := the_ev flat lg v wrt level_qids change_qids eqs in
  length (v_changes RA v) = length (v_levels RA v) ->
  length g = (count_true (ev_bl RA ev) + count_true (ev_bc RA ev))%nat ->
  mask_select (new_levels RA ev g) (ev_bl RA ev) = gl flat wrt level_qids g /\
  (flat = false -> mask_select (new_changes RA ev g) (ev_bc RA ev) = gc wrt level_qids g /\
                   g = gl flat wrt level_qids g ++ gc wrt level_qids g).
Proof. exact c05_guess_roundtrip_index_stmt. Qed.
Print Assumptions C05_guess_roundtrip_index.

(* (b) cell level: reading the written variant back in maybe-log form gives the guess at every solved level cell
       and every solved change cell *)
Theorem C05_guess_roundtrip_cells : forall flat lg kinds (v : variant RA) wrt level_qids change_qids eqs g,
  let ev := the_ev flat lg v wrt level_qids change_qids eqs in
  let v' := the_v' flat lg kinds v wrt level_qids change_qids eqs g in
  length (v_changes RA v) = length (v_levels RA v) -> NoDup wrt ->
  (forall q, In q wrt -> (q < length (v_levels RA v))%nat) ->
  length g = (count_true (ev_bl RA ev) + count_true (ev_bc RA ev))%nat ->
  (forall q, In q wrt -> In q change_qids -> is_loggable (kind_of kinds q) = true) ->
  forall i, (i < length wrt)%nat ->
    (In (nth i wrt O) level_qids ->
       maybelog_level RA lg v' (nth i wrt O) = nth (rank (bl wrt level_qids) i) (gl flat wrt level_qids g) 0%R) /\
    (flat = false -> In (nth i wrt O) change_qids ->
       maybelog_change RA lg v' (nth i wrt O) = nth (rank (bc flat wrt change_qids) i) (gc wrt level_qids g) 0%R).
Proof. exact c05_guess_roundtrip_cells_stmt. Qed.
Print Assumptions C05_guess_roundtrip_cells.

(* (c) every other cell of the variant is unchanged: fixed / exogenized quantities keep their values, parameters
       that are not endogenized are never written, endogenized parameters are exactly among the written cells.
       (In flat mode the evaluator first resets all changes to their flat values: v1.) *)
Theorem C05_other_cells_unchanged : forall flat lg kinds (v : variant RA) wrt level_qids change_qids eqs g,
  let ev := the_ev flat lg v wrt level_qids change_qids eqs in
  let v' := the_v' flat lg kinds v wrt level_qids change_qids eqs g in
  length (v_changes RA v) = length (v_levels RA v) -> NoDup wrt ->
  (forall q, In q wrt -> (q < length (v_levels RA v))%nat) ->
  length g = (count_true (ev_bl RA ev) + count_true (ev_bc RA ev))%nat ->
  (forall q, In q wrt -> In q change_qids -> is_loggable (kind_of kinds q) = true) ->
  forall q,
    (~ (In q wrt /\ In q level_qids) -> vget RA (v_levels RA v') q = vget RA (v_levels RA v) q) /\
    (~ (flat = false /\ In q wrt /\ In q change_qids) ->
       vget RA (v_changes RA v') q = vget RA (v_changes RA (if flat then zero_changes RA lg v else v)) q).
Proof. exact c05_other_cells_unchanged_stmt. Qed.
Print Assumptions C05_other_cells_unchanged.

(* ---------------------------------------------------------------------------------------------------------------
   3. residual_is_equations: the vector handed to the solver at guess g is exactly the block's steady equations
      evaluated on the path that the levels and changes STORED AFTER WRITE-BACK define, at date t (flat) / at dates
      t and t+1 (non-flat) *)
Theorem C05_residual_is_equations : forall flat lg kinds (v : variant RA) wrt level_qids change_qids eqs g,
  let ev := the_ev flat lg v wrt level_qids change_qids eqs in
  let P := stored_path flat lg kinds v wrt level_qids change_qids eqs g in
  length (v_changes RA v) = length (v_levels RA v) -> NoDup wrt ->
  (forall q, In q wrt -> (q < length (v_levels RA v))%nat) ->
  length g = (count_true (ev_bl RA ev) + count_true (ev_bc RA ev))%nat ->
  (forall q, In q wrt -> In q change_qids -> is_loggable (kind_of kinds q) = true) ->
  (forall e q s, In e eqs -> In (q, s) (tokens RA e) -> (q < length (v_levels RA v))%nat) ->
  ev_func RA ev g = map (eval RA (at_date P 0)) eqs ++ (if flat then [] else map (eval RA (at_date P 1)) eqs).
Proof. exact residual_on_stored_path. Qed.
Print Assumptions C05_residual_is_equations.

(* ... the same on the array Variant.create_steady_array builds from the written variant *)
Theorem C05_residual_is_equations_array : forall flat lg kinds (v : variant RA) wrt level_qids change_qids eqs g,
  let ev := the_ev flat lg v wrt level_qids change_qids eqs in
  let S := stored_array flat lg kinds v wrt level_qids change_qids eqs g in
  let off := off eqs in
  length (v_changes RA v) = length (v_levels RA v) -> NoDup wrt ->
  (forall q, In q wrt -> (q < length (v_levels RA v))%nat) ->
  length g = (count_true (ev_bl RA ev) + count_true (ev_bc RA ev))%nat ->
  (forall q, In q wrt -> In q change_qids -> is_loggable (kind_of kinds q) = true) ->
  (forall e q s, In e eqs -> In (q, s) (tokens RA e) -> (q < length (v_levels RA v))%nat) ->
  ev_func RA ev g = eval_eqs RA S off eqs ++ (if flat then [] else eval_eqs RA S (gen_time_k_column off) eqs).
Proof. exact residual_is_equations. Qed.
Print Assumptions C05_residual_is_equations_array.

(* 4a. every_date_partial: for ANY model (nonlinear, growth): when the solver reports success (max-norm of the
   residual vector below tol) every equation of the block is within tol on the stored path at the evaluated dates
   t and t+1.  Other dates are NOT covered in general (see C05_two_dates_do_not_suffice). *)
Theorem C05_every_date_partial : forall flat lg kinds (v : variant RA) wrt level_qids change_qids eqs g,
  let ev := the_ev flat lg v wrt level_qids change_qids eqs in
  let P := stored_path flat lg kinds v wrt level_qids change_qids eqs g in
  length (v_changes RA v) = length (v_levels RA v) -> NoDup wrt ->
  (forall q, In q wrt -> (q < length (v_levels RA v))%nat) ->
  length g = (count_true (ev_bl RA ev) + count_true (ev_bc RA ev))%nat ->
  (forall q, In q wrt -> In q change_qids -> is_loggable (kind_of kinds q) = true) ->
  (forall e q s, In e eqs -> In (q, s) (tokens RA e) -> (q < length (v_levels RA v))%nat) ->
  forall tol, Forall (fun r => (Rabs r < tol)%R) (ev_func RA ev g) ->
  forall e, In e eqs ->
    (Rabs (eval RA (at_date P 0) e) < tol)%R /\ (flat = false -> (Rabs (eval RA (at_date P 1) e) < tol)%R).
Proof. exact success_means_equations_hold. Qed.
Print Assumptions C05_every_date_partial.

Theorem C05_two_dates_do_not_suffice :
  exists f : Z -> R, (exists a b c : R, forall t, f t = (a * Rpower 1 (IZR t) + b * Rpower 2 (IZR t) + c * Rpower 4 (IZR t))%R)
                     /\ f 0%Z = 0%R /\ f 1%Z = 0%R /\ f 2%Z <> 0%R.
Proof. exact two_dates_do_not_suffice. Qed.
Print Assumptions C05_two_dates_do_not_suffice.

(* 4b. every_date, flat paths: any equation, every date *)
Theorem C05_every_date_flat : forall (P : nat -> Z -> R) (e : expr RA),
  (forall q s, In (q, s) (tokens RA e) -> forall t, P q t = P q 0%Z) ->
  forall t, eval RA (at_date P t) e = eval RA (at_date P 0) e.
Proof. exact every_date_flat. Qed.
Print Assumptions C05_every_date_flat.

(* 4c. every_date, residual affine in time (linear in variables on arithmetic paths and in logs of log-variables
   on geometric paths, coefficients constant in time): two dates determine all dates *)
Theorem C05_every_date_affine : forall (P : nat -> Z -> R) (e : expr RA), affine_expr P e ->
  (eval RA (at_date P 0) e = 0%R -> eval RA (at_date P 1) e = 0%R -> forall t, eval RA (at_date P t) e = 0%R) /\
  (forall tol, (Rabs (eval RA (at_date P 0) e) <= tol)%R -> (Rabs (eval RA (at_date P 1) e) <= tol)%R ->
     forall t, (Rabs (eval RA (at_date P t) e) <= (1 + 2 * Rabs (IZR t)) * tol)%R).
Proof. exact c05_every_date_affine_stmt. Qed.
Print Assumptions C05_every_date_affine.

(* 4d. every_date, log-affine: lhs = rhs with both sides monomials (products / quotients / constant powers of
   positive constants, flat positive quantities and log-variables on geometric paths, exp of affine expressions) *)
Theorem C05_every_date_log_affine : forall (P : nat -> Z -> R) (a b : expr RA), mono_expr P a -> mono_expr P b ->
  eval RA (at_date P 0) (EAdd (ENeg a) b) = 0%R -> eval RA (at_date P 1) (EAdd (ENeg a) b) = 0%R ->
  forall t, eval RA (at_date P t) (EAdd (ENeg a) b) = 0%R.
Proof. exact every_date_log_affine. Qed.
Print Assumptions C05_every_date_log_affine.

(* ---------------------------------------------------------------------------------------------------------------
   5. blockwise_equals_joint, abstractly: blocks run one after another, each only writing its own quantities and
      making its own equations hold; in a block-triangular order all equations hold at the end *)
Theorem C05_blockwise_equals_joint : forall (state eqn : Type) (holds : state -> eqn -> Prop)
    (same_on : state -> state -> nat -> Prop) (qids_of : eqn -> list nat) (inv : state -> Prop),
  (forall s s' e, (forall q, In q (qids_of e) -> same_on s s' q) -> holds s e -> holds s' e) ->
  forall (bs : list (blk state eqn)) s0,
  all_good state eqn holds same_on inv bs s0 -> triangular state eqn qids_of bs ->
  forall b e, In b bs -> In e (beqs state eqn b) -> holds (run_blocks state eqn bs s0) e.
Proof. exact blockwise_equals_joint. Qed.
Print Assumptions C05_blockwise_equals_joint.

(* ... and for the model of _steady_nonlinear itself (one variant; blocks from blazer or one joint block; plan
   bookkeeping included): if every block handed to the solver is well formed, the blocks are in a block-triangular
   order and every recorded residual vector is below tol, then EVERY equation of EVERY solved block holds within tol
   on the path of the finally stored levels and changes, at date t (and t+1 when not flat) *)
Theorem C05_steady_nonlinear_sound : forall flat lg kinds eqs p split blocks orcs (v : variant RA) tol,
  let res := steady_nonlinear RA nobad flat lg kinds eqs p split blocks orcs v in
  let wrt := fst (fst (resolve_wrt kinds p)) in
  let fixl := snd (fst (resolve_wrt kinds p)) in
  let fixc := snd (resolve_wrt kinds p) in
  let blocks1 := if split then blocks else [mkBlock (seq 0 (length eqs)) wrt] in
  let mbs := pair_blocks kinds eqs fixl fixc blocks1 orcs in
  vinv flat lg (length kinds) v -> Forall (mb_wf flat kinds (length kinds)) mbs -> mtriangular mbs ->
  Forall (fun o => Forall (fun r => (Rabs r < tol)%R) (o_resid RA o)) (r_blocks RA res) ->
  forall b e, In b mbs -> In e (mb_eqs b) ->
    eq_holds flat lg tol (mkVariant RA (r_levels RA res) (r_changes RA res)) e.
Proof. exact steady_nonlinear_sound_observed. Qed.
Print Assumptions C05_steady_nonlinear_sound.

(* solving as one system (split_into_blocks=False) needs no order hypothesis *)
Theorem C05_joint_is_triangular : forall b : mblock, mtriangular [b].
Proof. exact mtriangular_single. Qed.
Print Assumptions C05_joint_is_triangular.

(* flat mode: at EVERY date *)
Theorem C05_steady_nonlinear_flat_every_date : forall lg kinds eqs p split blocks orcs (v : variant RA) tol,
  let flat := true in
  let res := steady_nonlinear RA nobad flat lg kinds eqs p split blocks orcs v in
  let wrt := fst (fst (resolve_wrt kinds p)) in
  let fixl := snd (fst (resolve_wrt kinds p)) in
  let fixc := snd (resolve_wrt kinds p) in
  let blocks1 := if split then blocks else [mkBlock (seq 0 (length eqs)) wrt] in
  let mbs := pair_blocks kinds eqs fixl fixc blocks1 orcs in
  vinv flat lg (length kinds) v -> all_ok flat lg kinds tol (length kinds) mbs v -> mtriangular mbs ->
  forall b e, In b mbs -> In e (mb_eqs b) ->
  forall t : Z, (Rabs (eval RA (at_date (vpath lg (mkVariant RA (r_levels RA res) (r_changes RA res))) t) e) < tol)%R.
Proof. exact steady_nonlinear_flat_every_date. Qed.
Print Assumptions C05_steady_nonlinear_flat_every_date.

(* ---------------------------------------------------------------------------------------------------------------
   6. linear steady state (fords/steadiers.py): an exact solution of the stacked system (what lstsq returns for a
      model possessing a steady state) satisfies A xi_t + B xi_{t-1} + C = 0 and F y_t + G xi_t + H = 0 on the path
      xi_t = Xi + t dXi, y_t = Y + t dY at EVERY date t; flat: (A+B) Xi = -C *)
Theorem C05_linear_growth_transition : forall (Am Bm : list (list R)) (Cv xi dxi : list R),
  length Bm = length Am -> length Cv = length Am -> length dxi = length xi ->
  (forall i, (i < length Am)%nat -> length (nth i Am []) = length xi) ->
  (forall i, (i < length Am)%nat -> length (nth i Bm []) = length xi) ->
  zeros (vsub RA (matvec RA (negm RA (lin_AB RA Am Bm)) (xi ++ dxi)) (Cv ++ Cv)) ->
  forall (t : Z) i, (i < length Am)%nat ->
    (rdot (nth i Am []) (vaxpy xi dxi (IZR t)) + rdot (nth i Bm []) (vaxpy xi dxi (IZR t - 1)) + nth i Cv 0 = 0)%R.
Proof. exact linear_nonflat_transition. Qed.
Print Assumptions C05_linear_growth_transition.

Theorem C05_linear_growth_measurement : forall (Fm Gm : list (list R)) (Hv xi dxi y dy : list R),
  length Gm = length Fm -> length Hv = length Fm -> length dxi = length xi -> length dy = length y ->
  (forall i, (i < length Fm)%nat -> length (nth i Fm []) = length y) ->
  (forall i, (i < length Fm)%nat -> length (nth i Gm []) = length xi) ->
  zeros (vsub RA (matvec RA (negm RA (lin_FF RA Fm)) (y ++ dy))
                 (vadd RA (matvec RA (lin_GG RA Gm) (xi ++ dxi)) (Hv ++ Hv))) ->
  forall (t : Z) i, (i < length Fm)%nat ->
    (rdot (nth i Fm []) (vaxpy y dy (IZR t)) + rdot (nth i Gm []) (vaxpy xi dxi (IZR t)) + nth i Hv 0 = 0)%R.
Proof. exact linear_nonflat_measurement. Qed.
Print Assumptions C05_linear_growth_measurement.

Theorem C05_linear_flat : forall (Am Bm Fm Gm : list (list R)) (Cv Hv xi y : list R),
  length Bm = length Am -> length Cv = length Am ->
  (forall i, (i < length Am)%nat -> length (nth i Am []) = length xi) ->
  (forall i, (i < length Am)%nat -> length (nth i Bm []) = length xi) ->
  length Gm = length Fm -> length Hv = length Fm ->
  zeros (fst (lin_flat_residuals RA Am Bm Fm Gm Cv Hv xi y)) -> zeros (snd (lin_flat_residuals RA Am Bm Fm Gm Cv Hv xi y)) ->
  (forall i, (i < length Am)%nat -> (rdot (nth i Am []) xi + rdot (nth i Bm []) xi + nth i Cv 0 = 0)%R) /\
  (forall i, (i < length Fm)%nat -> (rdot (nth i Fm []) y + rdot (nth i Gm []) xi + nth i Hv 0 = 0)%R).
Proof. exact c05_linear_flat_stmt. Qed.
Print Assumptions C05_linear_flat.

(* ---------------------------------------------------------------------------------------------------------------
   non-vacuity: the hypotheses of C05_steady_nonlinear_sound are met by a flat stationary model
   (x = 1/2 x{-1} + 1, final guess 2) and by a unit root with drift (u = u{-1} + g, g = 3, final guess level 5, change 3) *)
Example C05_hypotheses_satisfiable_flat :
  vinv true [Some false] 1 ex_flat_v /\ Forall (mb_wf true [KEndog] 1) ex_flat_mbs /\ mtriangular ex_flat_mbs /\
  Forall (fun o => Forall (fun r => (Rabs r < 1 / 1000)%R) (o_resid RA o)) (r_blocks RA ex_flat_res) /\
  ex_flat_mbs = [mkMB [ex_flat_eq] [0%nat] [0%nat] [0%nat] [2%R]] /\
  r_levels RA ex_flat_res = [2%R] /\ r_changes RA ex_flat_res = [0%R].
Proof. exact example_flat. Qed.

Example C05_hypotheses_satisfiable_growth :
  vinv false [Some false; None] 2 ex_rw_v /\ Forall (mb_wf false [KEndog; KParam] 2) ex_rw_mbs /\ mtriangular ex_rw_mbs /\
  Forall (fun o => Forall (fun r => (Rabs r < 1 / 1000)%R) (o_resid RA o)) (r_blocks RA ex_rw_res) /\
  ex_rw_mbs = [mkMB [ex_rw_eq] [0%nat] [0%nat] [0%nat] [5%R; 3%R]] /\
  r_levels RA ex_rw_res = [5%R; 3%R] /\ r_changes RA ex_rw_res = [3%R; 0%R].
Proof. exact example_growth. Qed.

(* ---------------------------------------------------------------------------------------------------------------
   7. steady plans (plans/steady_plans.py as a register machine, model/SteadyPlan.v; the guard of fix/unfix, the
      method -> register table, the set algebra of _resolve_steady_wrt and the descriptor of _steady_linear are
      regenerated from the source into gen/SteadyPlanGen.v).
   (a) after ANY history of public calls on a fresh SteadyPlan, a successful fix(names) leaves every named quantity
       with its level fixed and, in growth mode, its change fixed as well *)
Theorem C05_plan_fix_fixes_level_and_change : forall endog params flat h s n,
  let p := run (init_plan endog params flat) h in
  let r := step p (OFix s) in
  snd r = true -> sel_covers (sp_fixl p) s n = true ->
  is_on (sp_fixl (fst r)) n = true /\ (flat = false -> is_on (sp_fixc (fst r)) n = true).
Proof. exact fix_fixes_level_and_change. Qed.
Print Assumptions C05_plan_fix_fixes_level_and_change.

Theorem C05_plan_unfix_unfixes : forall endog params flat h s n,
  let p := run (init_plan endog params flat) h in
  let r := step p (OUnfix s) in
  snd r = true -> sel_covers (sp_fixl p) s n = true ->
  is_on (sp_fixl (fst r)) n = false /\ is_on (sp_fixc (fst r)) n = false.
Proof. exact unfix_unfixes_level_and_change. Qed.
Print Assumptions C05_plan_unfix_unfixes.

(* (b) a call that does not name a quantity in a register leaves its status there: a status lasts over every later
       history that does not name it (exogenize/endogenize/fix_level/fix_change/fix/unfix/swap/unswap alike) *)
Theorem C05_plan_status_lasts : forall p h r n, forallb (fun o => negb (touches o r n)) h = true ->
  is_on (get_reg (run p h) r) n = is_on (get_reg p r) n.
Proof. exact status_lasts. Qed.
Print Assumptions C05_plan_status_lasts.

(* (c) every call keeps the key set of every register; the registers reachable from SteadyPlan(model) *)
Theorem C05_plan_reachable_keys : forall endog params flat h,
  let p := run (init_plan endog params flat) h in
  keys (sp_exog p) = endog /\ keys (sp_endog p) = params /\ keys (sp_fixl p) = endog /\
  keys (sp_fixc p) = if flat then [] else endog.
Proof. exact reachable_keys. Qed.
Print Assumptions C05_plan_reachable_keys.

(* (d) what the plan hands to the solver: unknowns = endogenous minus exogenized plus endogenized; per block the level is
       an unknown unless fixed, the change unless fixed or the quantity is an endogenized parameter; the regenerated
       set algebra of _resolve_steady_wrt is the modelled one *)
Theorem C05_plan_unknowns : forall kinds p bq q,
  (In q (fst (fst (resolve_wrt kinds p))) <->
     (q < length kinds)%nat /\
     ((is_endog (kind_of kinds q) = true /\ ~ In q (p_exogenized p)) \/ In q (p_endogenized p))) /\
  (In q (level_unknowns kinds p bq) <-> (q < length kinds)%nat /\ In q bq /\ ~ In q (p_fixed_level p)) /\
  (In q (change_unknowns kinds p bq) <->
     (q < length kinds)%nat /\ In q bq /\ ~ In q (p_fixed_change p) /\ ~ In q (p_endogenized p)).
Proof. exact unknowns_of_plan. Qed.
Print Assumptions C05_plan_unknowns.

Theorem C05_resolve_wrt_is_source : forall kinds p, resolve_wrt_gen kinds p = resolve_wrt kinds p.
Proof. exact resolve_wrt_is_source. Qed.
Print Assumptions C05_resolve_wrt_is_source.

(* (e) through the WHOLE loop of _steady_nonlinear (every block, any well-formed oracle outputs) a fixed-level quantity
       keeps its stored level and, in growth mode, a fixed-change quantity keeps its stored change *)
Theorem C05_steady_nonlinear_keeps_fixed : forall flat lg kinds eqs p split blocks orcs (v : variant RA) tol,
  let res := steady_nonlinear RA nobad flat lg kinds eqs p split blocks orcs v in
  let wrt := fst (fst (resolve_wrt kinds p)) in
  let fixl := snd (fst (resolve_wrt kinds p)) in
  let fixc := snd (resolve_wrt kinds p) in
  let blocks1 := if split then blocks else [mkBlock (seq 0 (length eqs)) wrt] in
  let mbs := pair_blocks kinds eqs fixl fixc blocks1 orcs in
  vinv flat lg (length kinds) v -> all_ok flat lg kinds tol (length kinds) mbs v ->
  forall q,
    (In q fixl -> vget RA (r_levels RA res) q = vget RA (v_levels RA v) q) /\
    (flat = false -> In q fixc -> vget RA (r_changes RA res) q = vget RA (v_changes RA v) q).
Proof. exact steady_nonlinear_keeps_fixed. Qed.
Print Assumptions C05_steady_nonlinear_keeps_fixed.

(* (f) end to end: fixed by plan.fix(names) after any history h1, not named by the later calls h2  =>  the assigned level
       (growth mode: and the assigned change) is what solve_steady's nonlinear loop leaves stored *)
Theorem C05_plan_fix_keeps_assigned_path : forall endog params flat h1 s h2 n lg kinds eqs split blocks orcs (v : variant RA) tol,
  let p0 := run (init_plan endog params flat) h1 in
  let pf := run (init_plan endog params flat) (h1 ++ OFix s :: h2) in
  let pl := plan_view (Some pf) in
  let res := steady_nonlinear RA nobad flat lg kinds eqs pl split blocks orcs v in
  let blocks1 := if split then blocks else [mkBlock (seq 0 (length eqs)) (fst (fst (resolve_wrt kinds pl)))] in
  let mbs := pair_blocks kinds eqs (snd (fst (resolve_wrt kinds pl))) (snd (resolve_wrt kinds pl)) blocks1 orcs in
  snd (step p0 (OFix s)) = true -> sel_covers (sp_fixl p0) s n = true -> (n < length kinds)%nat ->
  forallb (fun o => negb (touches o RFixL n)) h2 = true -> forallb (fun o => negb (touches o RFixC n)) h2 = true ->
  vinv flat lg (length kinds) v -> all_ok flat lg kinds tol (length kinds) mbs v ->
  vget RA (r_levels RA res) n = vget RA (v_levels RA v) n /\
  (flat = false -> vget RA (r_changes RA res) n = vget RA (v_changes RA v) n).
Proof. exact fix_keeps_assigned_path. Qed.
Print Assumptions C05_plan_fix_keeps_assigned_path.

(* 8. the linear steady state is computed from the STEADY descriptor (the `!!` versions), and the positions of the
      solution vector are read off the same descriptor *)
Theorem C05_linear_uses_steady_descriptor : forall (S T : Type) (sys_of : descriptor -> S) (toks_of : descriptor -> T),
  linear_system sys_of = sys_of DSteady /\ linear_tokens toks_of = toks_of DSteady.
Proof. exact linear_steady_uses_steady_descriptor. Qed.
Print Assumptions C05_linear_uses_steady_descriptor.

(* non-vacuity: a growth-mode history with a successful fix, and a flat-mode history with failing calls *)
Example C05_plan_example_growth :
  let p0 := init_plan [0; 1]%nat [2]%nat false in
  let h := [OCall MExogenize (SNames [1%nat]); OFix (SNames [0%nat]); OCall MEndogenize (SNames [2%nat]);
            OCall MUnexogenize SAll] in
  map snd (run_trace p0 h) = [true; true; true; true] /\
  run p0 h = mkSP [(0, false); (1, false)]%nat [(2%nat, true)] [(0, true); (1, false)]%nat [(0, true); (1, false)]%nat /\
  resolve_wrt [KEndog; KEndog; KParam] (plan_view (Some (run p0 h))) = ([0; 1; 2], [0], [0; 2])%nat /\
  level_unknowns [KEndog; KEndog; KParam] (plan_view (Some (run p0 h))) [0; 1; 2]%nat = [1; 2]%nat /\
  change_unknowns [KEndog; KEndog; KParam] (plan_view (Some (run p0 h))) [0; 1; 2]%nat = [1]%nat.
Proof. exact ex_plan_growth. Qed.
