(* C05 placeholder while the harness is developed *)
From Coq Require Import ZArith List.
From Verif Require Import lib.Arith model.Steady.
Theorem C05_placeholder : True. Proof. exact I. Qed.
Print Assumptions C05_placeholder.
