(* C14  Trend filters return the optimum of their problem; trend plus gap is the data.
   Only restatements: every proof is `exact <lemma of proofs/HPProofs.v or proofs/L1Proofs.v>`.

   The statements are about the model text of model/HP.v and model/L1.v (written once over the matrix
   interface of lib/MxC14.v) read at the MathComp instance [MCOps F], F ANY realFieldType.  The same
   text, read at the bigQ instance, is what the correspondence evaluates against the implementation.
   hp_stencil, hp_level_row, hp_change_row, l1_stencil_1/2 come from gen/HPGen.v, regenerated from
   series/_hp.py and series/_ell_one.py on every run.

   Oracles (premises, never axioms):  [solve] = numpy.linalg.solve with the contract  M (solve M b) = b
   on the call the model makes;  [qp] = daqp with the KKT conditions of its box QP;  [lg]/[ex] = numpy
   log/exp with  exp(a-b) = exp a / exp b,  exp(log x) = x  for x > 0. *)
From Coq Require Import ZArith List.
From mathcomp Require Import all_ssreflect all_algebra.
From Verif Require Import MxC14 HPGen HP L1 HPProofs L1Proofs.
Import GRing.Theory Num.Theory.
Local Open Scope ring_scope.

Notation O := (MCOps _).

(* ---------------------------------------------------------------- hpf *)

(* 1. The returned trend meets the level/change constraints exactly and minimises the Hodrick-Prescott
      objective  hp_J = sum over observed periods (y - t)^2 + lam * sum (second differences of t)^2
      among ALL trends that meet them; the excess of any other feasible trend is the quadratic form
      (t'-t)'(E + lam K'K)(t'-t) >= 0.  Any length n, observation pattern, constraint lists. *)
Theorem C14_hp_optimal :
  forall (F : realFieldType) (n : nat) (lam : F) (data : list (option F)) (lc cc : list (nat * F))
         (solve : forall m, 'M[F]_m -> 'cV[F]_m -> 'cV[F]_m),
  hp_M O n lam data lc cc *m solve _ (hp_M O n lam data lc cc) (hp_rhs O n data lc cc) = hp_rhs O n data lc cc ->
  0 <= lam ->
  let t := hp_trend_vec O solve n lam data lc cc in
  hp_C O n lc cc *m t = hp_c O lc cc /\
  forall t' : 'cV[F]_n, hp_C O n lc cc *m t' = hp_c O lc cc ->
    hp_J lam data t' - hp_J lam data t = hp_Q lam data (t' - t) /\
    0 <= hp_Q lam data (t' - t) /\ hp_J lam data t <= hp_J lam data t'.
Proof. move=> F n lam data lc cc solve Hs Hl; exact: (hp_optimal Hs Hl). Qed.
Print Assumptions C14_hp_optimal.

(* 1b. what "C t = c" means: trend = level value at each level-constrained period; change of the trend
       = change value at each change-constrained period *)
Theorem C14_hp_constraints_met :
  forall (F : realFieldType) (n : nat) (lc cc : list (nat * F)) (t : 'cV[F]_n),
  hp_C O n lc cc *m t = hp_c O lc cc ->
  (forall i, (i < length lc)%N -> (cpos O lc i < n)%N -> vget t (cpos O lc i) = cval O lc i) /\
  (forall i, (i < length cc)%N -> (0 < cpos O cc i < n)%N ->
             vget t (cpos O cc i) - vget t (cpos O cc i).-1 = cval O cc i).
Proof. move=> F; exact: hp_constraints_met. Qed.
Print Assumptions C14_hp_constraints_met.

(* 2. Uniqueness: with an invertible bordered matrix no other feasible trend does as well *)
Theorem C14_hp_unique :
  forall (F : realFieldType) (n : nat) (lam : F) (data : list (option F)) (lc cc : list (nat * F))
         (solve : forall m, 'M[F]_m -> 'cV[F]_m -> 'cV[F]_m),
  hp_M O n lam data lc cc *m solve _ (hp_M O n lam data lc cc) (hp_rhs O n data lc cc) = hp_rhs O n data lc cc ->
  0 < lam -> hp_M O n lam data lc cc \in unitmx ->
  forall t' : 'cV[F]_n, hp_C O n lc cc *m t' = hp_c O lc cc ->
    hp_J lam data t' <= hp_J lam data (hp_trend_vec O solve n lam data lc cc) ->
    t' = hp_trend_vec O solve n lam data lc cc.
Proof. move=> F n lam data lc cc solve Hs Hl Hu; exact: (hp_unique Hs Hl Hu). Qed.
Print Assumptions C14_hp_unique.

(* 2b. ... and the bordered matrix IS invertible whenever lam > 0, two periods are observed and the
       constraint rows are linearly independent (missing observations are bridged by the smoothness term) *)
Theorem C14_hp_wellposed :
  forall (F : realFieldType) (n : nat) (lam : F) (data : list (option F)) (lc cc : list (nat * F)) (i1 i2 : nat),
  0 < lam -> (i1 < i2 < n)%N -> obs_at O data i1 -> obs_at O data i2 ->
  (forall mu : 'cV[F]_(length lc + length cc), (hp_C O n lc cc)^T *m mu = 0 -> mu = 0) ->
  hp_M O n lam data lc cc \in unitmx.
Proof. move=> F n lam data lc cc i1 i2; exact: hp_wellposed. Qed.
Print Assumptions C14_hp_wellposed.

(* 2c. non-vacuity of the oracle contract: whenever the bordered matrix is invertible (2b: e.g. without
       constraints, lam > 0 and two observations), solve := M^-1 b satisfies the contract assumed above *)
Theorem C14_hp_contract_satisfiable :
  forall (F : realFieldType) (n : nat) (lam : F) (data : list (option F)) (lc cc : list (nat * F)),
  hp_M O n lam data lc cc \in unitmx ->
  let solve := fun m (A : 'M[F]_m) (b : 'cV[F]_m) => invmx A *m b in
  hp_M O n lam data lc cc *m solve _ (hp_M O n lam data lc cc) (hp_rhs O n data lc cc) = hp_rhs O n data lc cc.
Proof. move=> F n lam data lc cc; exact: hp_contract_satisfiable. Qed.
Print Assumptions C14_hp_contract_satisfiable.

Theorem C14_hp_unconstrained_wellposed :
  forall (F : realFieldType) (n : nat) (lam : F) (data : list (option F)) (i1 i2 : nat),
  0 < lam -> (i1 < i2 < n)%N -> obs_at O data i1 -> obs_at O data i2 ->
  hp_M O n lam data nil nil \in unitmx.
Proof. move=> F n lam data i1 i2; exact: hp_unconstrained_wellposed. Qed.
Print Assumptions C14_hp_unconstrained_wellposed.

(* 3. trend + gap = data on observed rows; the gap is missing exactly where the data are *)
Theorem C14_trend_plus_gap :
  forall (F : realFieldType) (n : nat) (lam : F) (data : list (option F)) (lc cc : list (nat * F))
         (solve : forall m, 'M[F]_m -> 'cV[F]_m -> 'cV[F]_m) (i : nat),
  match hp_gap O solve n lam data lc cc i with
  | Some g => List.nth i data None = Some (hp_trend O solve n lam data lc cc i + g)
  | None => List.nth i data None = None
  end.
Proof. move=> F n lam data lc cc solve i; exact: hp_trend_plus_gap. Qed.
Print Assumptions C14_trend_plus_gap.

(* 3b. the same on the returned Series (public result of hpf), log=False *)
Theorem C14_series_trend_plus_gap :
  forall (F : realFieldType) (solve : forall m, 'M[F]_m -> 'cV[F]_m -> 'cV[F]_m) (lg ex : F -> F)
         (a : hp_args O) (v : list (option F)) (t : Z) (g : F),
  a_log O a = false -> hpf_gap_at O solve lg ex a v t = Some g ->
  exists y tr, at_period O (a_start O a) v t = Some y /\ hpf_trend_at O solve lg ex a v t = Some tr /\
               tr + g = y.
Proof. move=> F; exact: hpf_trend_plus_gap. Qed.
Print Assumptions C14_series_trend_plus_gap.

Theorem C14_series_gap_defined :
  forall (F : realFieldType) (solve : forall m, 'M[F]_m -> 'cV[F]_m -> 'cV[F]_m) (lg ex : F -> F)
         (a : hp_args O) (v : list (option F)) (t : Z),
  (hpf_gap_at O solve lg ex a v t = None <-> (in_span O a t = false \/ at_period O (a_start O a) v t = None)) /\
  (hpf_trend_at O solve lg ex a v t = None <-> in_span O a t = false).
Proof.
move=> F solve lg ex a v t; split; [exact: hpf_gap_defined | exact: hpf_trend_defined].
Qed.
Print Assumptions C14_series_gap_defined.

(* 4. A straight line is returned unchanged -- also when some of its points are missing, and with
      constraints that lie on the line *)
Theorem C14_line_invariant :
  forall (F : realFieldType) (n : nat) (lam : F) (data : list (option F)) (lc cc : list (nat * F))
         (solve : forall m, 'M[F]_m -> 'cV[F]_m -> 'cV[F]_m) (a b : F),
  let line := (\col_(i < n) (a + b * i%:R)) : 'cV[F]_n in
  (forall i, (i < n)%N -> obs_at O data i -> val_at O data i = a + b * i%:R) ->
  hp_C O n lc cc *m line = hp_c O lc cc ->
  hp_M O n lam data lc cc \in unitmx ->
  hp_M O n lam data lc cc *m solve _ (hp_M O n lam data lc cc) (hp_rhs O n data lc cc) = hp_rhs O n data lc cc ->
  hp_trend_vec O solve n lam data lc cc = line.
Proof. move=> F n lam data lc cc solve a b; exact: hp_line_invariant. Qed.
Print Assumptions C14_line_invariant.

(* 5. log=True filters the logarithms and exponentiates: trend * gap = data *)
Theorem C14_log_mode :
  forall (F : realFieldType) (solve : forall m, 'M[F]_m -> 'cV[F]_m -> 'cV[F]_m) (lg ex : F -> F)
         (a : hp_args O) (v : list (option F)) (t : Z) (g : F),
  (forall x z, ex (x - z) = ex x / ex z) -> (forall x, ex x != 0) -> (forall x, 0 < x -> ex (lg x) = x) ->
  a_log O a = true -> hpf_gap_at O solve lg ex a v t = Some g ->
  exists y ltr, at_period O (a_start O a) v t = Some y /\
                hpf_trend_at O solve lg ex a v t = Some (ex ltr) /\
                ltr = hp_trend O solve (enc_len O a) (smooth_of O a) (log_data O lg (enc_data O a v))
                               (log_cs O lg (prepare O a (a_level O a)))
                               (log_cs O lg (drop_first_date O (prepare O a (a_change O a))))
                               (Z.to_nat (Z.sub t (enc_start O a))) /\
                (0 < y -> ex ltr * g = y).
Proof. move=> F; exact: hpf_log_mode. Qed.
Print Assumptions C14_log_mode.

(* 6. The requested span only selects rows: for every span inside the span covered by the data and the
      constraints the filter problem is the same one (that of span=None), and the result at period t is
      its row t when t is in the requested span, nothing otherwise *)
Theorem C14_clip_only :
  forall (F : realFieldType) (solve : forall m, 'M[F]_m -> 'cV[F]_m -> 'cV[F]_m) (lg ex : F -> F)
         (a : hp_args O) (s : Z * Z) (v : list (option F)) (t : Z),
  span_inside O a s ->
  let a0 := with_span O a None in
  hpf_trend_at O solve lg ex (with_span O a (Some s)) v t =
    (if Z.leb (fst s) t && Z.leb t (snd s)
     then Some (hp_trend_mode O solve lg ex (a_log O a) (enc_len O a0) (smooth_of O a0) (enc_data O a0 v)
                  (prepare O a0 (a_level O a)) (drop_first_date O (prepare O a0 (a_change O a)))
                  (Z.to_nat (Z.sub t (enc_start O a0))))
     else None) /\
  hpf_gap_at O solve lg ex (with_span O a (Some s)) v t =
    (if Z.leb (fst s) t && Z.leb t (snd s)
     then hp_gap_mode O solve lg ex (a_log O a) (enc_len O a0) (smooth_of O a0) (enc_data O a0 v)
                  (prepare O a0 (a_level O a)) (drop_first_date O (prepare O a0 (a_change O a)))
                  (Z.to_nat (Z.sub t (enc_start O a0)))
     else None).
Proof. move=> F solve lg ex a s v t; exact: hpf_clip_only. Qed.
Print Assumptions C14_clip_only.

(* 6b. a filter span reaching BEYOND the data (on the right): appending an unobserved, unconstrained period
       leaves the trend on the original periods unchanged and continues it by linear extrapolation; by
       induction the same holds for any number of appended periods.  (The mirror statement for periods
       prepended on the left is not proved; the falsifier checks both sides on the implementation.) *)
Theorem C14_hp_extend_right_partial :
  forall (F : realFieldType) (n : nat) (lam : F) (data : list (option F)) (lc cc : list (nat * F))
         (solve : forall m, 'M[F]_m -> 'cV[F]_m -> 'cV[F]_m),
  (2 <= n)%N -> obs_at O data n = false ->
  (forall i, (i < length lc)%N -> (cpos O lc i < n)%N) ->
  (forall i, (i < length cc)%N -> (cpos O cc i < n)%N) ->
  0 < lam ->
  hp_M O n lam data lc cc *m solve _ (hp_M O n lam data lc cc) (hp_rhs O n data lc cc) = hp_rhs O n data lc cc ->
  hp_M O (n + 1) lam data lc cc *m solve _ (hp_M O (n + 1) lam data lc cc) (hp_rhs O (n + 1) data lc cc)
    = hp_rhs O (n + 1) data lc cc ->
  hp_M O (n + 1) lam data lc cc \in unitmx ->
  hp_trend_vec O solve (n + 1) lam data lc cc = extend1 (hp_trend_vec O solve n lam data lc cc).
Proof. move=> F n lam data lc cc solve H2 Hd Hlc Hcc; exact: (hp_extend_right H2 Hd Hlc Hcc). Qed.
Print Assumptions C14_hp_extend_right_partial.

(* ---------------------------------------------------------------- lonf *)

(* 7. trend + gap = data *)
Theorem C14_l1_identity :
  forall (F : realFieldType) (order n : nat) (ys : list F) (qp : forall m, 'M[F]_m -> 'cV[F]_m -> F -> 'cV[F]_m) (lam : F),
  l1_trend_vec O qp order n lam ys + l1_gap_vec O qp order n lam ys = l1_y O n ys.
Proof. move=> F order n ys qp lam; exact: l1_identity. Qed.
Print Assumptions C14_l1_identity.

(* 8. The KKT conditions of the box QP handed to daqp (H = D D', f = -D y, bounds +-lam) at its answer nu
      are EQUIVALENT to the optimality certificate of the l1 trend-filter problem at trend = y - D' nu:
      |nu_i| <= lam and nu_i (D trend)_i = lam |(D trend)_i|, i.e. s = nu/lam is a subgradient of |.|_1 at
      D trend and y - trend = lam D' s *)
Theorem C14_l1_kkt :
  forall (F : realFieldType) (order n : nat) (ys : list F) (qp : forall m, 'M[F]_m -> 'cV[F]_m -> F -> 'cV[F]_m) (lam : F),
  0 < lam ->
  let nu := l1_nu O qp order n lam ys in
  (box_kkt nu lam (l1_H O order n *m nu + l1_f O order n ys)
   <-> l1_cert (l1_D O order n) (l1_y O n ys) nu lam).
Proof. move=> F order n ys qp lam; exact: l1_kkt. Qed.
Print Assumptions C14_l1_kkt.

Theorem C14_l1_subgradient :
  forall (F : realFieldType) (p n : nat) (D : 'M[F]_(p, n)) (y : 'cV[F]_n) (nu : 'cV[F]_p) (lam : F),
  0 < lam -> l1_cert D y nu lam ->
  exists s : 'cV[F]_p,
    (forall i, `|s i 0| <= 1 /\ s i 0 * (l1_r D y nu) i 0 = `|(l1_r D y nu) i 0|) /\
    y - l1_x D y nu = lam *: (D^T *m s).
Proof. move=> F p n D y nu lam; exact: l1_cert_subgradient. Qed.
Print Assumptions C14_l1_subgradient.

(* 9. ... and they make the returned trend THE minimiser of  1/2 sum (y - x)^2 + lam sum |order-th
      differences of x|  over all x (order 1 or 2, any length) *)
Theorem C14_l1_optimal :
  forall (F : realFieldType) (order n : nat) (ys : list F) (qp : forall m, 'M[F]_m -> 'cV[F]_m -> F -> 'cV[F]_m) (lam : F),
  (order == 1%N) || (order == 2%N) -> 0 < lam ->
  let nu := l1_nu O qp order n lam ys in
  box_kkt nu lam (l1_H O order n *m nu + l1_f O order n ys) ->
  forall x' : 'cV[F]_n,
    l1_obj order ys lam (l1_trend_vec O qp order n lam ys) <= l1_obj order ys lam x' /\
    (l1_obj order ys lam x' <= l1_obj order ys lam (l1_trend_vec O qp order n lam ys) ->
     x' = l1_trend_vec O qp order n lam ys).
Proof. move=> F order n ys qp lam Ho Hl; exact: (l1_optimal Ho Hl). Qed.
Print Assumptions C14_l1_optimal.

(* 10. Soundness of the checker the correspondence runs on daqp's recorded answer (exact rationals):
       if kkt_ok accepts nu with bound lam' and slack eps, then NO x' has an objective (smoothing lam')
       that is lower than that of y - D' nu (smoothing lam) by more than eps *)
Theorem C14_kkt_ok_sound :
  forall (F : realFieldType) (order n : nat) (ys : list F) (lam lam' eps : F) (nu : 'cV[F]_(n - order)),
  (order == 1%N) || (order == 2%N) ->
  kkt_ok O order n lam lam' eps ys nu = true ->
  forall x' : 'cV[F]_n,
    l1_obj order ys lam (l1_x (l1_D O order n) (l1_y O n ys) nu) <= l1_obj order ys lam' x' + eps.
Proof. move=> F order n ys lam lam' eps nu Ho; exact: (kkt_ok_sound Ho). Qed.
Print Assumptions C14_kkt_ok_sound.


(* 7b. the same on the lists lonf puts into the returned Series *)
Theorem C14_l1_variant_identity :
  forall (F : realFieldType) (qp : forall m, 'M[F]_m -> 'cV[F]_m -> F -> 'cV[F]_m) (order : nat) (lam : F)
         (ys : list F) (i : nat),
  (i < length ys)%N ->
  List.nth i (fst (l1_variant O qp order lam ys)) 0 + List.nth i (snd (l1_variant O qp order lam ys)) 0
  = List.nth i ys 0.
Proof. move=> F; exact: l1_variant_identity. Qed.
Print Assumptions C14_l1_variant_identity.

(* 9b. non-vacuity of the KKT premise, and "nothing to smooth": when the order-th differences of the data
       vanish, nu = 0 is a KKT point and the data are returned unchanged *)
Theorem C14_l1_kkt_zero :
  forall (F : realFieldType) (order n : nat) (ys : list F) (lam : F),
  0 < lam -> l1_D O order n *m l1_y O n ys = 0 ->
  let qp0 := fun m (_ : 'M[F]_m) (_ : 'cV[F]_m) (_ : F) => (0 : 'cV[F]_m) in
  box_kkt (l1_nu O qp0 order n lam ys) lam
          (l1_H O order n *m l1_nu O qp0 order n lam ys + l1_f O order n ys)
  /\ l1_trend_vec O qp0 order n lam ys = l1_y O n ys.
Proof. move=> F; exact: l1_kkt_zero. Qed.
Print Assumptions C14_l1_kkt_zero.

(* 11. what the correspondence case files evaluate (hpf_model: one solve per variant, any carrier) is,
       value by value, the functions hpf_trend_at / hpf_gap_at that the theorems above speak about *)
Theorem C14_model_pointwise :
  forall (Ops : MatOps) (solve : forall n, mx Ops n n -> mx Ops n 1 -> mx Ops n 1) (lg ex : sc Ops -> sc Ops)
         (a : hp_args Ops) (w : Z) (len : nat),
  hpf_model Ops solve lg ex a w len =
  List.map (fun v => (List.map (hpf_trend_at Ops solve lg ex a v) (window w len),
                      List.map (hpf_gap_at Ops solve lg ex a v) (window w len))) (a_vars Ops a).
Proof. exact: hpf_model_pointwise. Qed.
Print Assumptions C14_model_pointwise.
