(* C09  Periods behave as calendar-consistent integers and spans as their ranges.
   Only restatements: every proof is `exact <lemma of proofs/DatesProofs.v>`.
   period = (frequency value, serial); every gen_* definition underneath (arithmetic bodies, comparison bodies, tables,
   keyword arms, Span mutators, range triple) is regenerated from dates.py on every run; the calendar is
   lib/Calendar.v (ordinal 1 = 0001-01-01, as CPython's datetime.date). *)
From Coq Require Import ZArith Bool Ascii String List.
From Verif Require Import lib.Calendar lib.PyRange lib.Period lib.DatesBase gen.DatesGen model.Dates proofs.DatesProofs.
Import ListNotations.
Open Scope Z_scope.

(* 1. p + (q - p) == q, (p + n) - p == n, associativity, p - n == p + (-n) *)
Theorem C09_add_sub_laws : forall p q n m,
  (p_freq p = p_freq q -> exists d, psub q p = Ok d /\ padd p d = q) /\
  psub (padd p n) p = Ok n /\
  padd (padd p n) m = padd p (n + m) /\
  padd p 0 = p /\
  psub_int p n = padd p (- n) /\
  psub_int (padd p n) n = p.
Proof. exact add_sub_laws. Qed.
Print Assumptions C09_add_sub_laws.

(* 2. within one frequency <= is a total order, < its strict part *)
Theorem C09_total_order : forall p q r, p_freq p = p_freq q -> p_freq q = p_freq r ->
  ple p p /\
  (ple p q -> ple q p -> p = q) /\
  (ple p q -> ple q r -> ple p r) /\
  (ple p q \/ ple q p) /\
  (plt p q <-> ple p q /\ p <> q) /\
  (plt p q \/ p = q \/ plt q p).
Proof. exact total_order. Qed.
Print Assumptions C09_total_order.

(* every comparison operator is the sign test of the difference p - q; the difference is 0 exactly for equal periods *)
Theorem C09_cmp_agrees_with_sub : forall p q, p_freq p = p_freq q ->
  exists d, psub p q = Ok d /\ (forall c, pcmp c p (Some q) = Ok (cmp_sem c d)) /\ (d = 0 <-> p = q).
Proof. exact cmp_agrees_with_sub. Qed.
Print Assumptions C09_cmp_agrees_with_sub.

(* equal periods hash equally (the hash is a function of hash_key), and the key determines the period *)
Theorem C09_eq_implies_same_hash_key : forall p q, pcmp CEq p (Some q) = Ok true -> hash_key p = hash_key q.
Proof. exact eq_implies_same_hash_key. Qed.
Print Assumptions C09_eq_implies_same_hash_key.

Theorem C09_hash_key_injective : forall p q, hash_key p = hash_key q -> p = q.
Proof. exact hash_key_injective. Qed.
Print Assumptions C09_hash_key_injective.

(* 3. mixing frequencies (or comparing with None) is rejected with IrisPieError, never silently compared *)
Theorem C09_mixed_frequency_rejected : forall p q step, p_freq p <> p_freq q ->
  psub p q = Err ErrFreq /\
  (forall c, pcmp c p (Some q) = Err ErrFreq) /\
  (forall c, pcmp c p None = Err ErrFreq) /\
  span_make (Some (At p)) (Some (At q)) step = Err ErrFreq /\
  periods_from_until p q step = Err ErrFreq /\
  (forall s t st2, sp_start s = At p -> sp_start t = At q -> sp_end s = At p -> sp_end t = At q ->
     sp_step t = st2 -> span_eq s t = Err ErrFreq).
Proof. exact mixed_frequency_rejected. Qed.
Print Assumptions C09_mixed_frequency_rejected.

Theorem C09_none_rejected : forall p c, pcmp c p None = Err ErrFreq.
Proof. exact none_rejected. Qed.
Print Assumptions C09_none_rejected.

(* 4. consecutive regular periods tile the calendar without gap or overlap: for every yearly / half-yearly /
      quarterly / monthly period of every year >= 1, start <= middle <= end are valid dates and the day after the end
      of p is the start of p + 1 *)
Theorem C09_tiling : forall f s, is_regular_freq f = true -> 1 <= s / f ->
  let p := mkP f s in
  exists a b c a',
    to_ymd PStart p = Ok a /\ to_ymd PMiddle p = Ok b /\ to_ymd PEnd p = Ok c /\
    to_ymd PStart (padd p 1) = Ok a' /\
    valid3 a /\ valid3 b /\ valid3 c /\ valid3 a' /\
    ord3 a <= ord3 b <= ord3 c /\ ord3 c + 1 = ord3 a'.
Proof. exact tiling. Qed.
Print Assumptions C09_tiling.

Theorem C09_tiling_daily : forall n, in_calendar n -> in_calendar (n + 1) ->
  exists a b, to_ordinal PEnd (mkP freq_DAILY n) = Ok a /\ to_ordinal PStart (padd (mkP freq_DAILY n) 1) = Ok b /\
              a + 1 = b.
Proof. exact tiling_daily. Qed.
Print Assumptions C09_tiling_daily.

(* 5. year / segment accessors agree with the calendar dates *)
Theorem C09_accessors_vs_calendar_regular : forall f s, is_regular_freq f = true ->
  let p := mkP f s in
  let y := s / f in
  let seg := s mod f + 1 in
  to_year_segment p = Ok (y, seg) /\ p_year p = Ok y /\ p_segment p = Ok seg /\
  1 <= seg <= f /\
  from_year_segment f y seg = Ok p /\
  p = padd (mkP f (gen_reg_from_year_segment f y 1)) (seg - 1) /\
  to_ymd PStart p = Ok (y, seg_start_month f seg, 1) /\
  to_ymd PEnd p = Ok (y, seg_end_month f seg, days_in_month y (seg_end_month f seg)) /\
  (seg = 1 -> to_ymd PStart p = Ok (y, 1, 1)) /\
  (seg = f -> to_ymd PEnd p = Ok (y, 12, 31)).
Proof. exact accessors_vs_calendar_regular. Qed.
Print Assumptions C09_accessors_vs_calendar_regular.

(* daily: the period IS the calendar day (every position), year = calendar year, segment = day of the year.
   On the unrepaired source this fails at `gen_daily_to_year_segment_welltyped = true` (int - datetime.date). *)
Theorem C09_accessors_vs_calendar_daily : forall n, in_calendar n ->
  let p := mkP freq_DAILY n in
  (forall pos, to_ymd pos p = Ok (ymd_of_ord n)) /\
  (forall pos, to_ordinal pos p = Ok n) /\
  to_year_segment p = Ok (year_of_ord n, doy_of_ord n) /\
  p_year p = Ok (year_of_ord n) /\ p_segment p = Ok (doy_of_ord n) /\
  1 <= doy_of_ord n <= year_len (year_of_ord n) /\
  from_year_segment freq_DAILY (year_of_ord n) (doy_of_ord n) = Ok p /\
  (let '(y, m, d) := ymd_of_ord n in from_ymd freq_DAILY y m d = Ok p).
Proof. exact accessors_vs_calendar_daily. Qed.
Print Assumptions C09_accessors_vs_calendar_daily.

(* 6. keyword shifts land on the documented period *)
Theorem C09_shift_keywords_regular : forall f s, is_regular_freq f = true ->
  let p := mkP f s in
  let y := s / f in
  let seg := s mod f + 1 in
  pshift p (ByKw "yoy") = Ok (Some (padd p (- f))) /\
  pshift p (ByKw "soy") = Ok (Some (mkP f (y * f))) /\
  pshift p (ByKw "boy") = pshift p (ByKw "soy") /\
  to_year_segment (mkP f (y * f)) = Ok (y, 1) /\
  pshift p (ByKw "eopy") = Ok (Some (mkP f (y * f - 1))) /\
  to_year_segment (mkP f (y * f - 1)) = Ok (y - 1, f) /\
  pshift p (ByKw "tty") = Ok (if seg >? 1 then Some (padd p (-1)) else None) /\
  (forall k, pshift p (ByInt k) = Ok (Some (padd p k))).
Proof. exact shift_keywords_regular. Qed.
Print Assumptions C09_shift_keywords_regular.

Theorem C09_shift_keywords_daily : forall n, in_calendar n ->
  let p := mkP freq_DAILY n in
  let y := year_of_ord n in
  pshift p (ByKw "yoy") = Ok (Some (padd p (- 365))) /\
  pshift p (ByKw "soy") = Ok (Some (mkP freq_DAILY (ord_of_ymd y 1 1))) /\
  pshift p (ByKw "boy") = pshift p (ByKw "soy") /\
  (2 <= y -> pshift p (ByKw "eopy") = Ok (Some (mkP freq_DAILY (ord_of_ymd (y - 1) 12 31))) /\
             ord_of_ymd (y - 1) 12 31 + 1 = ord_of_ymd y 1 1) /\
  pshift p (ByKw "tty") = Ok (if doy_of_ord n >? 1 then Some (padd p (-1)) else None).
Proof. exact shift_keywords_daily. Qed.
Print Assumptions C09_shift_keywords_daily.

(* 7. a (resolved) Span enumerates exactly start, start+step, ... up to end in the direction of step; its length,
      iteration and indexing (also negative) agree with one another *)
Theorem C09_span_enumerates : forall s p q c,
  sp_needs s = false -> sp_start s = At p -> sp_end s = At q -> sp_step s = c -> c <> 0 ->
  let a := p_serial p in
  let e := p_serial q in
  let n := span_count a e c in
  span_len s = Ok n /\
  span_iter s = Ok (map (fun i => padd p (Z.of_nat i * c)) (seq 0 (Z.to_nat n))) /\
  (forall i, 0 <= i < n -> span_nth s i = Ok (padd p (i * c)) /\ span_nth s (i - n) = Ok (padd p (i * c))) /\
  (forall i, n <= i \/ i < - n -> span_nth s i = Err ErrIndex) /\
  (forall i, 0 <= i < n -> (0 < c -> a <= a + i * c <= e) /\ (c < 0 -> e <= a + i * c <= a)) /\
  (0 < c -> e < a + n * c) /\ (c < 0 -> a + n * c < e) /\
  (n = 0 <-> (0 < c /\ e < a) \/ (c < 0 /\ a < e)).
Proof. exact span_enumerates. Qed.
Print Assumptions C09_span_enumerates.

Theorem C09_span_slice_full : forall s p q c l,
  sp_needs s = false -> sp_start s = At p -> sp_end s = At q -> sp_step s = c -> c <> 0 ->
  span_iter s = Ok l -> span_slice s (None, None, None) = Ok l.
Proof. exact span_slice_full. Qed.
Print Assumptions C09_span_slice_full.

Theorem C09_span_shift : forall s p q c k,
  sp_needs s = false -> sp_start s = At p -> sp_end s = At q -> sp_step s = c -> c <> 0 ->
  let s' := sstep s (OShift k) in
  span_len s' = span_len s /\
  (forall l, span_iter s = Ok l -> span_iter s' = Ok (map (fun x => padd x k) l)) /\
  (p_freq p = p_freq q -> span_add s k = Ok s').
Proof. exact span_shift. Qed.
Print Assumptions C09_span_shift.

Theorem C09_reverse_involutive : forall s, sstep (sstep s OReverse) OReverse = s.
Proof. exact reverse_involutive. Qed.
Print Assumptions C09_reverse_involutive.

(* the reversed span lists the same periods backwards when the step divides the distance; otherwise the reversed span
   still enumerates end, end-step, ... down to start (C09_span_enumerates applied to it) -- the property asks no more *)
Theorem C09_reverse_exact_when_divisible : forall s p q c l,
  sp_needs s = false -> sp_start s = At p -> sp_end s = At q -> sp_step s = c -> c <> 0 ->
  p_freq p = p_freq q ->
  (p_serial q - p_serial p) mod c = 0 -> span_iter s = Ok l ->
  span_iter (sstep s OReverse) = Ok (rev l).
Proof. exact reverse_exact_when_divisible. Qed.
Print Assumptions C09_reverse_exact_when_divisible.

(* 8. resolution against any context commutes with every in-place operation and every history *)
Theorem C09_resolve_then_ops_commute : forall c ops s,
  span_resolve c (run_ops s ops) = dmap (fun r => run_ops r ops) (span_resolve c s).
Proof. exact resolve_then_history_commute. Qed.
Print Assumptions C09_resolve_then_ops_commute.

(* 8b. resolution never mixes frequencies.  span_make / span_resolve are assembled from the statement shapes regenerated
       from Span.__init__ / Span.resolve (gen_span_init_start/end/needs/checks_when_resolved, gen_span_resolve).
       For EVERY span (concrete, half-open, fully open; any offsets, step, flag) and EVERY context, resolve either rejects
       with IrisPieError -- exactly when the two resolved ends have different frequencies -- or returns a resolved span
       whose two ends are periods of one frequency *)
Theorem C09_resolve_rejects_or_single_frequency : forall c s,
  match span_resolve c s with
  | Err e => e = ErrFreq /\ ep_freq_in c (sp_start s) <> ep_freq_in c (sp_end s)
  | Ok r => sp_needs r = false /\ sp_step r = sp_step s /\
            sp_start r = ep_resolve c (sp_start s) /\ sp_end r = ep_resolve c (sp_end s) /\
            exists p q, sp_start r = At p /\ sp_end r = At q /\ p_freq p = p_freq q /\
                        p_freq p = ep_freq_in c (sp_start s) /\ p_freq q = ep_freq_in c (sp_end s)
  end.
Proof. exact resolve_rejects_or_single_frequency. Qed.
Print Assumptions C09_resolve_rejects_or_single_frequency.

Theorem C09_resolve_accepts_iff_one_frequency : forall c s,
  (ep_freq_in c (sp_start s) = ep_freq_in c (sp_end s) ->
     span_resolve c s = Ok (mkSpan (ep_resolve c (sp_start s)) (ep_resolve c (sp_end s)) (sp_step s) false)) /\
  (ep_freq_in c (sp_start s) <> ep_freq_in c (sp_end s) -> span_resolve c s = Err ErrFreq).
Proof. exact resolve_accepts_iff_one_frequency. Qed.
Print Assumptions C09_resolve_accepts_iff_one_frequency.

(* the call shapes: one fixed end of frequency F, the open side taken from a context date of another frequency; a fully
   open span against a context whose two dates differ in frequency *)
Theorem C09_resolve_half_open_mixed_rejected : forall c p (b : bool) o step needs,
  p_freq (if b then c_start c else c_end c) <> p_freq p ->
  span_resolve c (mkSpan (At p) (Ctx b o) step needs) = Err ErrFreq /\
  span_resolve c (mkSpan (Ctx b o) (At p) step needs) = Err ErrFreq.
Proof. exact resolve_half_open_mixed_rejected. Qed.
Print Assumptions C09_resolve_half_open_mixed_rejected.

Theorem C09_resolve_open_mixed_context_rejected : forall c b o o' step needs,
  p_freq (c_start c) <> p_freq (c_end c) ->
  span_resolve c (mkSpan (Ctx b o) (Ctx (negb b) o') step needs) = Err ErrFreq.
Proof. exact resolve_open_mixed_context_rejected. Qed.
Print Assumptions C09_resolve_open_mixed_context_rejected.

Theorem C09_resolved_listing_one_frequency : forall c s r l,
  span_resolve c s = Ok r -> span_iter r = Ok l -> forall x, In x l -> p_freq x = ep_freq_in c (sp_start s) /\
                                                                       p_freq x = ep_freq_in c (sp_end s).
Proof. exact resolved_listing_one_frequency. Qed.
Print Assumptions C09_resolved_listing_one_frequency.

(* histories: after ANY sequence of public operations (in-place reverse/shift/shift_start/shift_end, + - >> << reversed()
   and resolve against contexts of ANY frequencies; a raising operation leaves the span unchanged) applied to a span the
   constructor accepted, a span that claims to be resolved has two period ends of one frequency and lists that frequency *)
Theorem C09_every_history_single_frequency : forall l a b c s, span_make a b c = Ok s ->
  let t := run_public s l in
  span_wf t /\
  (sp_needs t = false -> exists p q, sp_start t = At p /\ sp_end t = At q /\ p_freq p = p_freq q /\
                                    forall xs x, span_iter t = Ok xs -> In x xs -> p_freq x = p_freq p).
Proof. exact every_history_single_frequency. Qed.
Print Assumptions C09_every_history_single_frequency.

(* the constructor assembled from the regenerated fragments: defaults in the direction of the step, needs_resolve, check *)
Theorem C09_span_constructor_shape : forall a b step, span_make a b step =
  let s := match a with Some e => e | None => Ctx (step >? 0) 0 end in
  let e := match b with Some e => e | None => Ctx (negb (step >? 0)) 0 end in
  let needs := ep_needs s || ep_needs e in
  if needs then Ok (mkSpan s e step true)
  else match s, e with
       | At p, At q => if check_periods p (Some q) then Ok (mkSpan s e step false) else Err ErrFreq
       | _, _ => Err ErrFreq
       end.
Proof. exact span_make_unfold. Qed.
Print Assumptions C09_span_constructor_shape.

(* what the constructor establishes is preserved by every history of in-place mutations *)
Theorem C09_history_wellformed : forall ops a b c s, span_make a b c = Ok s -> span_wf (run_ops s ops).
Proof. exact history_wellformed. Qed.
Print Assumptions C09_history_wellformed.

(* 9. after ANY sequence of reverse / shift / shift_start / shift_end the span equals the functional composition:
      the two original end points shifted by the accumulated amounts, swapped and the step negated iff the number of
      reversals is odd; its listing is the enumeration of that closed form *)
Theorem C09_history_invariant : forall ops s, run_ops s ops = closed_form s (summarize ops).
Proof. exact history_invariant. Qed.
Print Assumptions C09_history_invariant.

Theorem C09_history_enumerates : forall ops s p q c,
  let t := run_ops s ops in
  sp_needs t = false -> sp_start t = At p -> sp_end t = At q -> sp_step t = c -> c <> 0 ->
  t = closed_form s (summarize ops) /\
  span_iter t = Ok (map (fun i => padd p (Z.of_nat i * c)) (seq 0 (Z.to_nat (span_count (p_serial p) (p_serial q) c)))).
Proof. exact history_enumerates. Qed.
Print Assumptions C09_history_enumerates.

(* 10. the hand-written regular-frequency arithmetic of lib/Period.v (used by the Series / Temporal models of C10,
       C12, C13) agrees with the fragments generated from dates.py *)
Theorem C09_period_lib_agrees : forall f t y seg,
  ysf_serial y seg f = gen_serial_from_ysf y seg f /\
  ysf_serial y seg f = gen_reg_from_year_segment f y seg /\
  serial_year f t = gen_reg_year f t /\
  serial_seg f t = gen_reg_segment f t /\
  (serial_year f t, serial_seg f t) = gen_reg_to_year_segment f t /\
  p_soy f t = gen_reg_create_soy f t /\
  p_eopy f t = gen_reg_create_eopy f t /\
  p_tty f t = gen_reg_create_tty f t /\
  pshift (mkP f t) (ByKw "yoy") = Ok (Some (mkP f (p_yoy f t))).
Proof. exact period_lib_agrees. Qed.
Print Assumptions C09_period_lib_agrees.

Theorem C09_period_shift_agrees : forall f b t, is_regular_freq f = true ->
  pshift (mkP f t) (shift_of b) = Ok (option_map (mkP f) (period_shift f b t)).
Proof. exact period_shift_agrees. Qed.
Print Assumptions C09_period_shift_agrees.

(* the calendar underneath: fromordinal / toordinal are mutually inverse on the supported range *)
Theorem C09_calendar_inverse : forall y m d n,
  (valid_ymd y m d -> ymd_of_ord (ord_of_ymd y m d) = (y, m, d)) /\
  (let '(y', m', d') := ymd_of_ord n in ord_of_ymd y' m' d' = n /\ 1 <= m' <= 12 /\ 1 <= d' <= days_in_month y' m'
                                          /\ y' = year_of_ord n).
Proof. exact calendar_inverse. Qed.
Print Assumptions C09_calendar_inverse.

(* 11. periods built from calendar dates (Period.from_ymd / from_python_date / from_iso_string / the second half of
       refrequent, every frequency): the period contains the date, its year is the date's year and its segment is the
       1-based index of the block of 12/f months that contains the date's month; month_to_segment is regenerated from
       the source for each class *)
Theorem C09_from_date_agrees_with_calendar : forall g y m d, is_regular_freq g = true -> valid_ymd y m d -> y <= MAXYEAR ->
  exists r, from_ymd g y m d = Ok r /\ p_freq r = g /\
            to_year_segment r = Ok (y, month_to_segment g m) /\
            1 <= month_to_segment g m <= g /\
            seg_start_month g (month_to_segment g m) <= m <= seg_end_month g (month_to_segment g m) /\
            month_to_segment g m = (m - 1) / (12 / g) + 1 /\
            to_ymd PStart r = Ok (y, seg_start_month g (month_to_segment g m), 1) /\
            to_ymd PEnd r = Ok (y, seg_end_month g (month_to_segment g m),
                                days_in_month y (seg_end_month g (month_to_segment g m))).
Proof. exact from_date_agrees_with_calendar. Qed.
Print Assumptions C09_from_date_agrees_with_calendar.

Theorem C09_from_date_contains : forall g y m d, cal_freq g -> valid_ymd y m d -> y <= MAXYEAR ->
  exists r a c, from_ymd g y m d = Ok r /\ p_freq r = g /\ in_domain r /\
                to_ymd PStart r = Ok a /\ to_ymd PEnd r = Ok c /\ valid3 a /\ valid3 c /\
                ord3 a <= ord_of_ymd y m d <= ord3 c.
Proof. exact from_ymd_contains. Qed.
Print Assumptions C09_from_date_contains.

Theorem C09_from_date_daily : forall y m d, valid_ymd y m d -> y <= MAXYEAR ->
  exists r, from_ymd freq_DAILY y m d = Ok r /\ (forall pos, to_ymd pos r = Ok (y, m, d)) /\
            to_year_segment r = Ok (y, days_before_month y m + d).
Proof. exact from_date_daily. Qed.
Print Assumptions C09_from_date_daily.

(* the date of a period at ANY position builds the same period back *)
Theorem C09_date_roundtrip : forall p pos, in_domain p ->
  exists y m d, to_ymd pos p = Ok (y, m, d) /\ valid_ymd y m d /\ y <= MAXYEAR /\ from_ymd (p_freq p) y m d = Ok p.
Proof. exact domain_date. Qed.
Print Assumptions C09_date_roundtrip.

(* non-vacuity: the hypotheses above are met by concrete periods and spans (a quarterly span with step 3 and its
   reversal, a contextual span mutated, resolved against a monthly context and listed) *)
Example C09_hypotheses_satisfiable :
  is_regular_freq 4 = true /\ 1 <= 8081 / 4 /\ in_calendar 738000 /\ in_calendar (738000 + 1) /\
  (exists s, span_make (Some (At (mkP 4 8080))) (Some (At (mkP 4 8091))) 3 = Ok s /\ sp_needs s = false /\
             sp_step s <> 0 /\ span_iter s = Ok [mkP 4 8080; mkP 4 8083; mkP 4 8086; mkP 4 8089] /\
             span_iter (sstep s OReverse) = Ok [mkP 4 8091; mkP 4 8088; mkP 4 8085; mkP 4 8082]) /\
  (exists s r, span_make None (Some (Ctx false (-1))) 1 = Ok s /\ sp_needs s = true /\
               span_resolve (mkCtx (mkP 12 24240) (mkP 12 24250)) (run_ops s [OShift 2; OReverse; OShiftEnd 1]) = Ok r /\
               span_iter r = Ok [mkP 12 24251; mkP 12 24250; mkP 12 24249; mkP 12 24248; mkP 12 24247; mkP 12 24246;
                                 mkP 12 24245; mkP 12 24244; mkP 12 24243]).
Proof. exact hypotheses_satisfiable. Qed.

(* non-vacuity of the resolution theorems: quarterly start + open end against a monthly context is rejected, against a
   quarterly context it lists quarters; a fully open backward span against a mixed context is rejected; a history with a
   rejected and an accepted resolution *)
Example C09_resolve_examples :
  (exists s, span_make (Some (At (mkP 4 8080))) None 1 = Ok s /\ sp_needs s = true /\
     span_resolve (mkCtx (mkP 12 24240) (mkP 12 24246)) s = Err ErrFreq /\
     (exists r, span_resolve (mkCtx (mkP 4 8078) (mkP 4 8083)) s = Ok r /\
                span_iter r = Ok [mkP 4 8080; mkP 4 8081; mkP 4 8082; mkP 4 8083]) /\
     (exists r, run_public s [PMut (OShiftEnd (-1)); PResolve (mkCtx (mkP 12 24240) (mkP 12 24246)); PMut OReverse;
                              PResolve (mkCtx (mkP 4 8078) (mkP 4 8083))] = r /\
                span_iter r = Ok [mkP 4 8082; mkP 4 8081; mkP 4 8080])) /\
  (exists s, span_make None None (-2) = Ok s /\
     span_resolve (mkCtx (mkP 4 8078) (mkP 12 24246)) s = Err ErrFreq /\
     exists r, span_resolve (mkCtx (mkP 12 24240) (mkP 12 24246)) s = Ok r /\
               span_iter r = Ok [mkP 12 24246; mkP 12 24244; mkP 12 24242; mkP 12 24240]).
Proof. exact resolve_examples. Qed.
