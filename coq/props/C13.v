(* C13  Change and cumulation transforms follow their formulas, invert each other.
   Only restatements: every proof is `exact <lemma of proofs/TemporalProofs.v>`.
   The definitions change_*, conv_*, cum_*_forward/backward come from
   gen/TemporalGen.v, regenerated from series/_temporal.py on every run. *)
From Coq Require Import ZArith List Reals.
From Verif Require Import lib.Arith lib.PyRange lib.Period model.Series gen.TemporalGen model.Temporal
     proofs.SeriesProofs proofs.TemporalProofs.
From Verif Require Import lib.Calendar gen.DatesGen model.TemporalKw proofs.TemporalKwProofs proofs.TemporalKwExamples.
Import ListNotations.
Notation RA := RArith.

(* 1. documented formulas, period by period (x = current value, y = reference value, f = annualisation factor) *)
Theorem C13_formulas : forall f x y : R,
  change_diff RA f x y = (x - y)%R /\
  change_adiff RA f x y = (f * (x - y))%R /\
  change_diff_log RA f x y = (Rpower.ln x - Rpower.ln y)%R /\
  change_adiff_log RA f x y = (f * (Rpower.ln x - Rpower.ln y))%R /\
  change_roc RA f x y = (x / y)%R /\
  change_aroc RA f x y = Rpower (x / y) f /\
  change_pct RA f x y = (100 * (x / y - 1))%R /\
  change_apct RA f x y = (100 * (Rpower (x / y) f - 1))%R.
Proof. exact formulas_all. Qed.
Print Assumptions C13_formulas.

Theorem C13_shifts_and_factor :
  change_diff_default_shift = Some (-1)%Z /\ change_diff_log_default_shift = Some (-1)%Z /\
  change_roc_default_shift = Some (-1)%Z /\ change_pct_default_shift = Some (-1)%Z /\
  change_adiff_fixed_shift = Some (-1)%Z /\ change_adiff_log_fixed_shift = Some (-1)%Z /\
  change_aroc_fixed_shift = Some (-1)%Z /\ change_apct_fixed_shift = Some (-1)%Z /\
  change_adiff_uses_factor = true /\ change_adiff_log_uses_factor = true /\
  change_aroc_uses_factor = true /\ change_apct_uses_factor = true /\
  change_diff_uses_factor = false /\ change_diff_log_uses_factor = false /\
  change_roc_uses_factor = false /\ change_pct_uses_factor = false.
Proof. exact shifts_as_documented. Qed.
Print Assumptions C13_shifts_and_factor.

(* only negative integer shifts are accepted *)
Theorem C13_invalid_shift_rejected : forall k : Z, invalid_int_shift k = true <-> (0 <= k)%Z.
Proof. exact invalid_shift_iff. Qed.
Print Assumptions C13_invalid_shift_rejected.

(* 2. the rate helpers are consistent with the change functions *)
Theorem C13_rate_helpers_consistent : forall f g x y : R, (0 < x / y)%R -> f <> 0%R -> y <> 0%R ->
  conv_roc_from_pct RA g (change_pct RA f x y) = change_roc RA f x y /\
  conv_pct_from_roc RA g (change_roc RA f x y) = change_pct RA f x y /\
  conv_pct_from_apct RA f (change_apct RA f x y) = change_pct RA f x y /\
  conv_roc_from_apct RA f (change_apct RA f x y) = change_roc RA f x y /\
  conv_roc_from_aroc RA f (change_aroc RA f x y) = change_roc RA f x y.
Proof. exact rate_helpers_all. Qed.
Print Assumptions C13_rate_helpers_consistent.

(* 3. cumulating a change series forward, with the original series as initial condition, reproduces
      the original series, for diff / diff_log / pct / roc at every negative shift -k *)
Theorem C13_cum_forward_inverts : forall ck (x c r : series RA) st k,
  let en := (st + Z.of_nat (length (s_data x)) - 1)%Z in
  WF RA x -> s_start x = Some st -> (0 < k <= en - st)%Z ->
  cells_in RA (dom_of ck) x st en ->
  change RA (chg_of ck) (ByInt (- k)) x = Ok c ->
  temporal_cumulation RA ck (ByInt (- k)) (InitSeries RA x) (SpanFromTo (st + k) en 1) c = Ok r ->
  forall t, (st <= t <= en)%Z -> row_at RA r t = row_at RA x t.
Proof. exact cum_forward_inverts. Qed.
Print Assumptions C13_cum_forward_inverts.

(* ... and backward, over any backward span a, a-1, ..., b inside the data *)
Theorem C13_cum_backward_inverts : forall ck (x c r : series RA) st k a b,
  let en := (st + Z.of_nat (length (s_data x)) - 1)%Z in
  WF RA x -> s_start x = Some st -> (0 < k)%Z -> (st <= b <= a)%Z -> (a + k <= en)%Z ->
  cells_in RA (dom_of ck) x st en ->
  change RA (chg_of ck) (ByInt (- k)) x = Ok c ->
  temporal_cumulation RA ck (ByInt (- k)) (InitSeries RA x) (SpanFromTo a b (-1)) c = Ok r ->
  forall t, (b <= t <= a + k)%Z -> row_at RA r t = row_at RA x t.
Proof. exact cum_backward_inverts. Qed.
Print Assumptions C13_cum_backward_inverts.

(* non-vacuity: a concrete quarterly series meets the hypotheses (shift -2) *)
Example C13_hypotheses_satisfiable :
  let x := mkSeries (A:=RA) 4 (Some 8000%Z) 1 [[1%R]; [2%R]; [4%R]; [8%R]; [16%R]] in
  WF RA x /\ s_start x = Some 8000%Z /\ (0 < 2 <= (8000 + 5 - 1) - 8000)%Z /\
  cells_in RA (dom_of CumRoc) x 8000 8004 /\
  exists c r, change RA KRoc (ByInt (-2)) x = Ok c /\
              temporal_cumulation RA CumRoc (ByInt (-2)) (InitSeries RA x) (SpanFromTo 8002 8004 1) c = Ok r.
Proof. exact hypotheses_satisfiable. Qed.

(* ---------------------------------------------------------------------------------------------------------
   Keyword shifts (yoy / soy / eopy / tty) for EVERY frequency class, DAILY included (model/TemporalKw.v).
   kw_ref fr by t = Period.shift(by) of the period with serial t: for fr = 365 it is built from the fragments
   gen_daily_create_soy / _eopy / _tty and gen_shift_arm_yoy that translator/dates.py regenerates from dates.py
   (over lib/Calendar.v); None = the code raises, Some None = create_tty returned None (no reference).
   --------------------------------------------------------------------------------------------------------- *)

(* 4. the documented reference day of a daily period t (proleptic Gregorian ordinal, 1 <= t <= 3652059):
      soy = 1 January of the year of t; eopy = 31 December of the previous year (the day before that 1 January; the
      code raises in year 1); tty = the previous day except on 1 January; yoy = 365 days back as coded *)
Theorem C13_daily_reference_days : forall t, in_cal t ->
  let y := year_of_ord t in
  let jan1 := ord_of_ymd y 1 1 in
  ymd_of_ord jan1 = (y, 1, 1)%Z /\ (jan1 <= t)%Z /\
  kw_ref 365 Soy t = Some (Some jan1) /\
  ((2 <= y)%Z -> kw_ref 365 Eopy t = Some (Some (jan1 - 1)%Z) /\ ymd_of_ord (jan1 - 1) = (y - 1, 12, 31)%Z) /\
  (y = 1%Z -> kw_ref 365 Eopy t = None) /\
  kw_ref 365 Tty t = Some (if (t =? jan1)%Z then None else Some (t - 1)%Z) /\
  kw_ref 365 Yoy t = Some (Some (t - 365)%Z).
Proof. exact daily_reference_days. Qed.
Print Assumptions C13_daily_reference_days.

(* non-vacuity: 739251 = 2024-12-31 (leap year), 738886 = 2024-01-01; ordinal 300 lies in year 1 *)
Example C13_daily_reference_days_example :
  in_cal 739251 /\ ymd_of_ord 739251 = (2024, 12, 31)%Z /\ ymd_of_ord 738886 = (2024, 1, 1)%Z /\
  kw_ref 365 Soy 739251 = Some (Some 738886%Z) /\ kw_ref 365 Eopy 739251 = Some (Some 738885%Z) /\
  kw_ref 365 Tty 739251 = Some (Some 739250%Z) /\ kw_ref 365 Tty 738886 = Some None /\
  kw_ref 365 Yoy 739251 = Some (Some 738886%Z) /\ kw_ref 365 Eopy 300 = None.
Proof. exact daily_reference_days_example. Qed.

(* the regular classes keep the references of lib/Period.v (tied to dates.py by C09) *)
Theorem C13_regular_reference : forall fr by_ t, fr <> 365%Z -> kw_ref fr by_ t = Some (period_shift fr by_ t).
Proof. exact regular_kw_ref. Qed.
Print Assumptions C13_regular_reference.

(* 5. the change with a keyword (or integer) shift is the documented formula against that reference, period by period,
      for every frequency class; where create_tty gives no reference the shifted copy holds the neutral value *)
Theorem C13_kw_change_formula : forall k by_ (x c : series RA) st,
  let en := (st + Z.of_nat (length (s_data x)) - 1)%Z in
  WF RA x -> s_start x = Some st -> change_fixed_shift k = None ->
  change_kw RA k by_ x = Ok c ->
  forall t, (st <= t <= en)%Z ->
    match kw_ref (s_freq x) by_ t with
    | Some (Some r) => row_at RA c t = zip_bcast RA (change_fun RA k (factor_of RA x)) (row_at RA x t) (row_at RA x r)
    | Some None => row_at RA c t = zip_bcast RA (change_fun RA k (factor_of RA x)) (row_at RA x t)
                                     (bcast_row RA (s_nv x) [nval RA (change_neutral k)])
    | None => False
    end.
Proof. exact kw_change_formula. Qed.
Print Assumptions C13_kw_change_formula.

(* 6. documented start-of-year value with tty ("the value of the resulting series is unchanged"): diff and roc,
      every frequency class *)
Theorem C13_tty_start_of_year_unchanged : forall k (x c : series RA) st,
  let en := (st + Z.of_nat (length (s_data x)) - 1)%Z in
  k = KDiff \/ k = KRoc ->
  WF RA x -> s_start x = Some st ->
  change_kw RA k Tty x = Ok c ->
  forall t, (st <= t <= en)%Z -> kw_ref (s_freq x) Tty t = Some None -> row_at RA c t = row_at RA x t.
Proof. exact tty_start_of_year_unchanged. Qed.
Print Assumptions C13_tty_start_of_year_unchanged.

(* the start-of-year periods are the first segment of a regular year and 1 January of a daily year *)
Theorem C13_tty_start_of_year_periods :
  (forall fr t, fr <> 365%Z -> (t mod fr = 0)%Z -> kw_ref fr Tty t = Some None) /\
  (forall t, in_cal t -> t = ord_of_ymd (year_of_ord t) 1 1 -> kw_ref 365 Tty t = Some None).
Proof. exact (conj tty_none_regular tty_none_daily). Qed.
Print Assumptions C13_tty_start_of_year_periods.

(* 7. forward cumulation with the same keyword shift and the original series as initial condition reproduces the
      series on the span a..b -- any frequency class, any number of years (leap or common) inside the span *)
Theorem C13_kw_cum_forward_inverts : forall ck by_ (x c r : series RA) st a b,
  let en := (st + Z.of_nat (length (s_data x)) - 1)%Z in
  let fr := s_freq x in
  WF RA x -> s_start x = Some st -> cells_in RA (dom_of ck) x st en ->
  (st <= a <= b)%Z -> (b <= en)%Z ->
  (forall t q, (a <= t <= b)%Z -> kw_ref fr by_ t = Some (Some q) -> (st <= q <= t)%Z) ->
  ((exists q, kw_ref fr by_ a = Some (Some q)) \/
   (kw_ref fr by_ a = Some None /\ (a = b \/ kw_ref fr by_ (a + 1) = Some (Some a)))) ->
  change_kw RA (chg_of ck) by_ x = Ok c ->
  s_freq c = fr ->
  temporal_cumulation_kw RA ck by_ (InitSeries RA x) (SpanFromTo a b 1) c = Ok r ->
  forall t, (a <= t <= b)%Z -> row_at RA r t = row_at RA x t.
Proof. exact kw_cum_forward_inverts. Qed.
Print Assumptions C13_kw_cum_forward_inverts.

(* non-vacuity of 5-7: a daily series 2023-12-30 .. 2024-01-03, roc / cum_roc with "tty" from 1 January on *)
Example C13_kw_hypotheses_satisfiable :
  let x := ex_daily in
  WF RA x /\ s_start x = Some 738884%Z /\ cells_in RA (dom_of CumRoc) x 738884 (738884 + 5 - 1) /\
  (738884 <= 738886 <= 738888)%Z /\ (738888 <= 738884 + 5 - 1)%Z /\
  (forall t q, (738886 <= t <= 738888)%Z -> kw_ref 365 Tty t = Some (Some q) -> (738884 <= q <= t)%Z) /\
  (kw_ref 365 Tty 738886 = Some None /\ kw_ref 365 Tty (738886 + 1) = Some (Some 738886%Z)) /\
  exists c r, change_kw RA KRoc Tty x = Ok c /\ s_freq c = 365%Z /\
              temporal_cumulation_kw RA CumRoc Tty (InitSeries RA x) (SpanFromTo 738886 738888 1) c = Ok r.
Proof. exact kw_hypotheses_satisfiable. Qed.
