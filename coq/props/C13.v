From Verif Require Import lib.Arith model.Temporal.
Theorem C13_stub : True. Proof. exact I. Qed.
Print Assumptions C13_stub.
