(* C13  Change and cumulation transforms follow their formulas, invert each other.
   Only restatements: every proof is `exact <lemma of proofs/TemporalProofs.v>`.
   The definitions change_*, conv_*, cum_*_forward/backward come from
   gen/TemporalGen.v, regenerated from series/_temporal.py on every run. *)
From Coq Require Import ZArith List Reals.
From Verif Require Import lib.Arith lib.PyRange lib.Period model.Series gen.TemporalGen model.Temporal
     proofs.SeriesProofs proofs.TemporalProofs.
Import ListNotations.
Notation RA := RArith.

(* 1. documented formulas, period by period (x = current value, y = reference value, f = annualisation factor) *)
Theorem C13_formulas : forall f x y : R,
  change_diff RA f x y = (x - y)%R /\
  change_adiff RA f x y = (f * (x - y))%R /\
  change_diff_log RA f x y = (Rpower.ln x - Rpower.ln y)%R /\
  change_adiff_log RA f x y = (f * (Rpower.ln x - Rpower.ln y))%R /\
  change_roc RA f x y = (x / y)%R /\
  change_aroc RA f x y = Rpower (x / y) f /\
  change_pct RA f x y = (100 * (x / y - 1))%R /\
  change_apct RA f x y = (100 * (Rpower (x / y) f - 1))%R.
Proof. exact formulas_all. Qed.
Print Assumptions C13_formulas.

Theorem C13_shifts_and_factor :
  change_diff_default_shift = Some (-1)%Z /\ change_diff_log_default_shift = Some (-1)%Z /\
  change_roc_default_shift = Some (-1)%Z /\ change_pct_default_shift = Some (-1)%Z /\
  change_adiff_fixed_shift = Some (-1)%Z /\ change_adiff_log_fixed_shift = Some (-1)%Z /\
  change_aroc_fixed_shift = Some (-1)%Z /\ change_apct_fixed_shift = Some (-1)%Z /\
  change_adiff_uses_factor = true /\ change_adiff_log_uses_factor = true /\
  change_aroc_uses_factor = true /\ change_apct_uses_factor = true /\
  change_diff_uses_factor = false /\ change_diff_log_uses_factor = false /\
  change_roc_uses_factor = false /\ change_pct_uses_factor = false.
Proof. exact shifts_as_documented. Qed.
Print Assumptions C13_shifts_and_factor.

(* only negative integer shifts are accepted *)
Theorem C13_invalid_shift_rejected : forall k : Z, invalid_int_shift k = true <-> (0 <= k)%Z.
Proof. exact invalid_shift_iff. Qed.
Print Assumptions C13_invalid_shift_rejected.

(* 2. the rate helpers are consistent with the change functions *)
Theorem C13_rate_helpers_consistent : forall f g x y : R, (0 < x / y)%R -> f <> 0%R -> y <> 0%R ->
  conv_roc_from_pct RA g (change_pct RA f x y) = change_roc RA f x y /\
  conv_pct_from_roc RA g (change_roc RA f x y) = change_pct RA f x y /\
  conv_pct_from_apct RA f (change_apct RA f x y) = change_pct RA f x y /\
  conv_roc_from_apct RA f (change_apct RA f x y) = change_roc RA f x y /\
  conv_roc_from_aroc RA f (change_aroc RA f x y) = change_roc RA f x y.
Proof. exact rate_helpers_all. Qed.
Print Assumptions C13_rate_helpers_consistent.

(* 3. cumulating a change series forward, with the original series as initial condition, reproduces
      the original series, for diff / diff_log / pct / roc at every negative shift -k *)
Theorem C13_cum_forward_inverts : forall ck (x c r : series RA) st k,
  let en := (st + Z.of_nat (length (s_data x)) - 1)%Z in
  WF RA x -> s_start x = Some st -> (0 < k <= en - st)%Z ->
  cells_in RA (dom_of ck) x st en ->
  change RA (chg_of ck) (ByInt (- k)) x = Ok c ->
  temporal_cumulation RA ck (ByInt (- k)) (InitSeries RA x) (SpanFromTo (st + k) en 1) c = Ok r ->
  forall t, (st <= t <= en)%Z -> row_at RA r t = row_at RA x t.
Proof. exact cum_forward_inverts. Qed.
Print Assumptions C13_cum_forward_inverts.

(* ... and backward, over any backward span a, a-1, ..., b inside the data *)
Theorem C13_cum_backward_inverts : forall ck (x c r : series RA) st k a b,
  let en := (st + Z.of_nat (length (s_data x)) - 1)%Z in
  WF RA x -> s_start x = Some st -> (0 < k)%Z -> (st <= b <= a)%Z -> (a + k <= en)%Z ->
  cells_in RA (dom_of ck) x st en ->
  change RA (chg_of ck) (ByInt (- k)) x = Ok c ->
  temporal_cumulation RA ck (ByInt (- k)) (InitSeries RA x) (SpanFromTo a b (-1)) c = Ok r ->
  forall t, (b <= t <= a + k)%Z -> row_at RA r t = row_at RA x t.
Proof. exact cum_backward_inverts. Qed.
Print Assumptions C13_cum_backward_inverts.

(* non-vacuity: a concrete quarterly series meets the hypotheses (shift -2) *)
Example C13_hypotheses_satisfiable :
  let x := mkSeries (A:=RA) 4 (Some 8000%Z) 1 [[1%R]; [2%R]; [4%R]; [8%R]; [16%R]] in
  WF RA x /\ s_start x = Some 8000%Z /\ (0 < 2 <= (8000 + 5 - 1) - 8000)%Z /\
  cells_in RA (dom_of CumRoc) x 8000 8004 /\
  exists c r, change RA KRoc (ByInt (-2)) x = Ok c /\
              temporal_cumulation RA CumRoc (ByInt (-2)) (InitSeries RA x) (SpanFromTo 8002 8004 1) c = Ok r.
Proof. exact hypotheses_satisfiable. Qed.
