(* C06  Nonlinear simulations satisfy the equations; match first order when linear.
   Only restatements: every proof is `exact <lemma of proofs/StackedProofs.v>`.
   The models are model/Frames.v and model/Stacked.v; fr_*, prune_skipped, jac_lhs_row, stack_equation_fastest,
   term_* come from gen/FramesGen.v, regenerated from frames.py, stacked_time/_jacobians.py, _evaluators.py and
   fords/terminators.py on every run.  The Newton solver, the AD Jacobian values (C02) and the first-order solution
   (C01) are contracts: they enter as oracles / hypotheses. *)
From Coq Require Import ZArith List Bool Sorted Reals.
From Verif Require Import gen.FramesGen model.Frames model.Stacked proofs.StackedProofs.
Import ListNotations.
Open Scope Z_scope.

(* 0. the periods of the data array: the base span extended by the deepest lag and lead of ANY quantity (endogenous
      or exogenous variable, shock); every cell an equation can read has a valid non-negative column *)
Theorem C06_extended_periods_cover : forall b0 b1 lo hi p s,
  b0 <= p <= b1 -> lo <= s <= hi ->
  let ps := extended_periods b0 b1 lo hi in
  In (p + s) ps
  /\ 0 <= column_of (b0 + lo) (p + s) < Z.of_nat (length ps)
  /\ nth (Z.to_nat (column_of (b0 + lo) (p + s))) ps 0 = p + s.
Proof. exact extended_periods_cover. Qed.
Print Assumptions C06_extended_periods_cover.

(* 1. frames: for EVERY span length n, first period a, break-point vector bp (first entry set, as
      _populate_base_break_points does) and simulation-end rule se, the frames partition the base span in order,
      start exactly at the break points, are non-empty, and the first one starts at the first base period *)
Theorem C06_frames_tile : forall se n a bp,
  (0 < n)%nat -> length bp = n -> hd false bp = true ->
  let ps := zrange_from a n in
  let frs := split_frames se bp ps in
  concat (map frame_cover frs) = ps
  /\ map f_start frs = break_periods bp ps
  /\ Forall (fun f => f_start f <= f_end f
                      /\ a <= f_start f < a + Z.of_nat n
                      /\ nth (Z.to_nat (f_start f - a)) bp false = true
                      /\ f_sim_end f = se (f_start f) (f_end f)) frs
  /\ hd_error (map f_start frs) = Some a.
Proof. exact frames_tile. Qed.
Print Assumptions C06_frames_tile.

(* the break-point vector the stacked-time simulator builds: a column is a break point iff it is the first one,
   or some unanticipated shock is finite and non-zero there, or the plan endogenizes an unanticipated shock there;
   it has the length of the base span and its first entry set, so C06_frames_tile applies to it *)
Theorem C06_update_break_points_spec : forall V (nz : V -> bool) bp arr,
  Forall (fun r => length r = length bp) arr ->
  length (update_break_points nz bp arr) = length bp
  /\ forall k, nth k (update_break_points nz bp arr) false
               = nth k bp false || existsb (fun r => nth k (map nz r) false) arr.
Proof. exact update_break_points_spec. Qed.
Print Assumptions C06_update_break_points_spec.

Theorem C06_break_points_wf : forall V (nz : V -> bool) n ucut pcut,
  (0 < n)%nat ->
  match ucut with Some a => Forall (fun r => length r = n) a | None => True end ->
  match pcut with Some a => Forall (fun r => length r = n) a | None => True end ->
  length (populate_base_break_points nz n ucut pcut) = n
  /\ hd false (populate_base_break_points nz n ucut pcut) = true.
Proof. exact populate_base_break_points_wf. Qed.
Print Assumptions C06_break_points_wf.

(* 2. period by period = one single-period frame per base period, one column to run, nothing pruned *)
Theorem C06_pbp_is_single_period_frames : forall n a, (0 < n)%nat ->
  pbp_frames (zrange_from a n) = map (fun p => mkFrame p p p) (zrange_from a n).
Proof. exact pbp_is_single_period_frames. Qed.
Print Assumptions C06_pbp_is_single_period_frames.

Theorem C06_single_period_frame : forall (V : Type) (zero : V) uq fcp p d,
  let f := mkFrame p p p in
  columns_to_run fcp f = [p - fcp]
  /\ f_first fcp f = f_last fcp f /\ f_last fcp f = f_sim_last fcp f
  /\ prune zero uq fcp f d = d.
Proof. exact @single_period_frame. Qed.
Print Assumptions C06_single_period_frame.

(* 3. unknown cells = endogenous x columns, minus exogenized, plus endogenized; strictly sorted (no cell twice);
      as many unknowns as stacked equations iff as many exogenized as endogenized cells *)
Theorem C06_wrt_spots_algebra : forall p cols qids,
  let base := base_spots cols qids in
  let exog := exogenized_spots p cols in
  let endog := endogenized_spots p cols in
  let wrt := wrt_spots (Some p) cols qids in
  (forall s, In s wrt <-> (In s base /\ ~ In s exog) \/ In s endog)
  /\ StronglySorted slt wrt /\ NoDup wrt
  /\ (NoDup cols -> NoDup qids -> incl exog base -> (forall s, In s endog -> ~ In s base) ->
      forall neq, length qids = neq ->
      (length wrt = (neq * length cols)%nat <-> length (sort_spots exog) = length (sort_spots endog))).
Proof. exact wrt_spots_algebra. Qed.
Print Assumptions C06_wrt_spots_algebra.

Theorem C06_wrt_spots_no_plan : forall cols qids,
  wrt_spots None cols qids = base_spots cols qids
  /\ length (wrt_spots None cols qids) = (length qids * length cols)%nat.
Proof. exact wrt_spots_no_plan. Qed.
Print Assumptions C06_wrt_spots_no_plan.

(* 4. stacking: (equation, column index) <-> position in the stacked residual is a bijection, and the stacked
      vector carries equation e at column index j at position e + neq*j *)
Theorem C06_stack_index_bijection : forall neq ncols, 0 < neq ->
  (forall e j, 0 <= e < neq -> 0 <= j < ncols ->
     0 <= stack_index neq e j < neq * ncols
     /\ stack_index neq e j mod neq = e /\ stack_index neq e j / neq = j)
  /\ (forall i, 0 <= i < neq * ncols ->
        0 <= i mod neq < neq /\ 0 <= i / neq < ncols /\ stack_index neq (i mod neq) (i / neq) = i).
Proof. exact stack_index_bijection. Qed.
Print Assumptions C06_stack_index_bijection.

(* 5. max-norm success <=> every transition equation in every simulated column is within tolerance, evaluated on
      the frame's data with the solution written on the unknown cells and the cells beyond the last simulated
      column as produced by the terminal operator in force (any operator: identity for terminal="data") *)
Theorem C06_stacked_zero_iff_all_zero : forall eqs term cols D spots x tol, (0 < tol)%R ->
  (max_norm (stacked_residual eqs term cols D spots x) < tol)%R <->
  (forall e j, (e < length eqs)%nat -> (j < length cols)%nat ->
     (Rabs (nth e eqs (fun _ _ => 0%R) (term (upd D spots x)) (nth j cols 0%Z)) < tol)%R).
Proof. exact stacked_zero_iff_all_zero. Qed.
Print Assumptions C06_stacked_zero_iff_all_zero.

Theorem C06_stacked_residual_nth : forall eqs term cols D spots x e j,
  (e < length eqs)%nat -> (j < length cols)%nat ->
  nth (e + length eqs * j) (stacked_residual eqs term cols D spots x) 0%R =
  nth e eqs (fun _ _ => 0%R) (term (upd D spots x)) (nth j cols 0%Z).
Proof. exact stacked_residual_nth. Qed.
Print Assumptions C06_stacked_residual_nth.

(* the first-order terminal cells of the model lie beyond the last simulated column, in current-dated rows *)
Theorem C06_terminal_cells_beyond_last : forall qids last max_lead q c,
  fo_cells qids last max_lead q c = true -> last < c <= last + max_lead /\ In q qids.
Proof. exact fo_cells_beyond_last. Qed.
Print Assumptions C06_terminal_cells_beyond_last.

(* 6. write-back and frame conditions (any cell type, any array shape, any solver output) *)
Theorem C06_write_back_spec : forall (V : Type) (dflt : V) uq fcp f main fdata q c,
  get dflt (write_back dflt uq fcp f main fdata) q c =
  if written_back uq fcp f q c && inb main q c then get dflt fdata q c else get dflt main q c.
Proof. exact @write_back_spec. Qed.
Print Assumptions C06_write_back_spec.

Theorem C06_writeback_frame : forall (V : Type) (dflt : V) uq fcp f main fdata q c,
  f_first fcp f <= f_last fcp f ->
  (c < f_first fcp f \/ f_last fcp f < c) ->
  get dflt (write_back dflt uq fcp f main fdata) q c = get dflt main q c.
Proof. exact @writeback_frame. Qed.
Print Assumptions C06_writeback_frame.

Theorem C06_writeback_unanticipated_rows : forall (V : Type) (dflt : V) uq fcp f main fdata q c,
  zmem q uq = true -> c <> f_first fcp f ->
  get dflt (write_back dflt uq fcp f main fdata) q c = get dflt main q c.
Proof. exact @writeback_unanticipated_rows. Qed.
Print Assumptions C06_writeback_unanticipated_rows.

Theorem C06_prune_spec : forall (V : Type) (dflt zero : V) uq fcp f d q c,
  get dflt (prune zero uq fcp f d) q c =
  if negb (f_start f =? f_sim_end f) && zmem q uq && (f_first fcp f + 1 <=? c) && inb d q c
  then zero else get dflt d q c.
Proof. exact @prune_spec. Qed.
Print Assumptions C06_prune_spec.

Theorem C06_frame_after_untouched : forall (V : Type) (dflt : V) pre oracle wrt term q c,
  touched wrt term q c = false ->
  get dflt (frame_after dflt pre oracle wrt term) q c = get dflt pre q c.
Proof. exact @frame_after_untouched. Qed.
Print Assumptions C06_frame_after_untouched.

Theorem C06_update_cells_outside : forall (V : Type) (dflt : V) spots vals d q c,
  ~ In (q, c) spots -> get dflt (update_cells d spots vals) q c = get dflt d q c.
Proof. exact @update_cells_outside. Qed.
Print Assumptions C06_update_cells_outside.

Theorem C06_update_cells_at : forall (V : Type) (dflt : V) spots vals d k q c,
  NoDup spots -> length vals = length spots -> nth_error spots k = Some (q, c) -> inb d q c = true ->
  get dflt (update_cells d spots vals) q c = nth k vals dflt.
Proof. exact @update_cells_at. Qed.
Print Assumptions C06_update_cells_at.

(* exogenized cells carry their input values after the frame is simulated, whatever the solver returns *)
Theorem C06_exogenized_untouched : forall (V : Type) (dflt zero : V) S input main f oracle q c,
  In (q, c) (frame_exog S f) ->
  touched (frame_wrt S f) (frame_term S f) q c = false ->
  inb main q c = true ->
  get dflt (fst (step_frame dflt zero S input main f oracle)) q c = get dflt input q c.
Proof. exact @exogenized_untouched. Qed.
Print Assumptions C06_exogenized_untouched.

Theorem C06_exogenized_not_unknown : forall p cols qids s,
  In s (exogenized_spots p cols) -> ~ In s (endogenized_spots p cols) ->
  ~ In s (wrt_spots (Some p) cols qids).
Proof. exact exogenized_not_wrt. Qed.
Print Assumptions C06_exogenized_not_unknown.

(* the whole frame loop, any number of frames, any solver outputs: columns outside the base columns never change *)
Theorem C06_run_frames_outside : forall (V : Type) (dflt zero : V) S input frames oracles main b0 b1 q c,
  Forall (fun f => b0 <= f_first (s_fcp S) f /\ f_first (s_fcp S) f <= f_last (s_fcp S) f
                   /\ f_last (s_fcp S) f <= b1) frames ->
  (c < b0 \/ b1 < c) ->
  get dflt (snd (run_frames dflt zero S input main frames oracles)) q c = get dflt main q c.
Proof. exact @run_frames_outside. Qed.
Print Assumptions C06_run_frames_outside.

(* rows that no frame's solver owns, that are not exogenized and are not unanticipated-shock rows (measurement
   variables, exogenous variables, parameters) keep their input values through the whole frame loop *)
Theorem C06_rows_left_as_input : forall (V : Type) (dflt zero : V) S input frames oracles main q c,
  zmem q (s_uqids S) = false ->
  Forall (fun f => (forall c', touched (frame_wrt S f) (frame_term S f) q c' = false)
                   /\ (forall c', ~ In (q, c') (frame_exog S f))) frames ->
  get dflt (snd (run_frames dflt zero S input main frames oracles)) q c = get dflt main q c.
Proof. exact @run_frames_row_untouched. Qed.
Print Assumptions C06_rows_left_as_input.

(* every entry of the Jacobian map lies in the stacked row of (its equation, its column index) -- the row of the
   residual of that equation in that column -- and in the column of the unknown Token(qid, shift + column) *)
Theorem C06_jacobian_map_rows : forall wrt_tokens cols lhs r c rr rc,
  In (r, c, rr, rc) (jac_map wrt_tokens cols lhs) ->
  exists de toks tok col,
    nth_error wrt_tokens de = Some toks /\ In tok toks /\ nth_error cols (Z.to_nat rc) = Some col /\ 0 <= rc
    /\ r = stack_index (Z.of_nat (length wrt_tokens)) (0 + Z.of_nat de) rc
    /\ index_last (fst tok, snd tok + col) lhs = Some c.
Proof. intros wrt_tokens cols lhs r c rr rc. exact (jac_map_from_spec _ wrt_tokens 0 0 cols lhs r c rr rc). Qed.
Print Assumptions C06_jacobian_map_rows.

Theorem C06_index_last_spec : forall s l r, index_last s l = Some r ->
  0 <= r < Z.of_nat (length l) /\ nth (Z.to_nat r) l (r, r) = s.
Proof. exact index_last_spec. Qed.
Print Assumptions C06_index_last_spec.

(* 7. linear models.  For affine equations and an affine terminal operator (identity, or the first-order
      continuation of the last columns), with the first-order path P as contract from C01
      (it satisfies every equation in every simulated column with leads read through the terminal operator, and it
      carries the same inputs off the unknown cells):
      (a) P is a zero of the stacked system and passes the solver's test;
      (b) the stacked system is affine in the unknowns;
      (c) if its linear part (the stacked Jacobian) is non-singular, every exact zero equals P: same results. *)
Theorem C06_first_order_is_zero : forall aeqs T cols spots (D P : darr),
  (forall e j, (e < length aeqs)%nat -> (j < length cols)%nat ->
     eval_affine (nth e aeqs ([], 0%R)) (term_affine T P) (nth j cols 0%Z) = 0%R) ->
  (forall q c, ~ In (q, c) spots -> P q c = D q c) ->
  (forall e j, (e < length aeqs)%nat -> (j < length cols)%nat ->
     residual (map eval_affine aeqs) (term_affine T) cols D spots (x_first_order spots P) e j = 0%R)
  /\ (forall tol, (0 < tol)%R ->
      (max_norm (stacked_residual (map eval_affine aeqs) (term_affine T) cols D spots (x_first_order spots P)) < tol)%R).
Proof.
  intros aeqs T cols spots D P H1 H2. split.
  - exact (first_order_is_zero aeqs T cols spots D P H1 H2).
  - exact (first_order_passes_test aeqs T cols spots D P H1 H2).
Qed.
Print Assumptions C06_first_order_is_zero.

Theorem C06_stacked_system_affine : forall aeqs T cols spots (D : darr) x y e j,
  (e < length aeqs)%nat ->
  (residual (map eval_affine aeqs) (term_affine T) cols D spots x e j -
   residual (map eval_affine aeqs) (term_affine T) cols D spots y e j)%R =
  stacked_linear aeqs T cols spots (fun k => (x k - y k)%R) e j.
Proof. exact residual_affine. Qed.
Print Assumptions C06_stacked_system_affine.

Theorem C06_linear_agrees : forall aeqs T cols spots (D P : darr),
  (forall e j, (e < length aeqs)%nat -> (j < length cols)%nat ->
     eval_affine (nth e aeqs ([], 0%R)) (term_affine T P) (nth j cols 0%Z) = 0%R) ->
  (forall q c, ~ In (q, c) spots -> P q c = D q c) ->
  (forall dx : nat -> R,
     (forall e j, (e < length aeqs)%nat -> (j < length cols)%nat -> stacked_linear aeqs T cols spots dx e j = 0%R) ->
     forall k, (k < length spots)%nat -> dx k = 0%R) ->
  forall x : nat -> R,
  (forall e j, (e < length aeqs)%nat -> (j < length cols)%nat ->
     residual (map eval_affine aeqs) (term_affine T) cols D spots x e j = 0%R) ->
  (forall k, (k < length spots)%nat -> x k = x_first_order spots P k)
  /\ (forall q c, upd D spots x q c = P q c).
Proof. exact linear_agrees. Qed.
Print Assumptions C06_linear_agrees.

(* non-vacuity: concrete objects meet the hypotheses *)
Example C06_linear_agrees_hypotheses_satisfiable :
  (forall e j, (e < length ex_aeqs)%nat -> (j < length [1])%nat ->
     eval_affine (nth e ex_aeqs ([], 0%R)) (term_affine ex_T ex_P) (nth j [1] 0%Z) = 0%R)
  /\ (forall q c, ~ In (q, c) [(0, 1)] -> ex_P q c = ex_D q c)
  /\ (forall dx : nat -> R,
        (forall e j, (e < length ex_aeqs)%nat -> (j < length [1])%nat ->
           stacked_linear ex_aeqs ex_T [1] [(0, 1)] dx e j = 0%R) ->
        forall k, (k < length [(0, 1)])%nat -> dx k = 0%R).
Proof. exact linear_agrees_hypotheses_satisfiable. Qed.

Example C06_frames_example :
  stacked_frames [true; false; false; true; false] (zrange_from 100 5)
  = [mkFrame 100 102 104; mkFrame 103 104 104]
  /\ pbp_frames (zrange_from 100 3) = [mkFrame 100 100 100; mkFrame 101 101 101; mkFrame 102 102 102].
Proof. exact frames_example. Qed.

Example C06_wrt_spots_example :
  let p := mkPlan [(0, [false; true; false])] [(5, [true; false; false])] [] [] in
  wrt_spots (Some p) [2; 3; 4] [0; 1]
  = [(0, 2); (0, 4); (1, 2); (1, 3); (1, 4); (5, 2)]
  /\ incl (exogenized_spots p [2; 3; 4]) (base_spots [2; 3; 4] [0; 1])
  /\ (forall s, In s (endogenized_spots p [2; 3; 4]) -> ~ In s (base_spots [2; 3; 4] [0; 1])).
Proof. exact wrt_spots_example. Qed.

From Verif Require Import lib.SimProg gen.SimReportGen model.SimReport proofs.SimReportProofs.

(* 12. "Whenever a simulation reports success": the report of Inlay.simulate over ANY number of variants and frames.
       sim_program, stream_add, stream_fin come from gen/SimReportGen.v (the statement shapes of the loops of
       Inlay.simulate and of the four streams of wrongdoings.py, regenerated on every run); status is the oracle of
       the per-frame exit statuses (the Newton solver).  For when_fails in {critical, error, warning} simulate()
       returns normally and without a warning iff every frame of every variant reports success ... *)
Theorem C06_simulate_reports_success_iff : forall k status nfs, k <> WSilent ->
  reports_success (simulate_report k status nfs) = true <-> all_success status nfs.
Proof. exact simulate_reports_success_iff. Qed.
Print Assumptions C06_simulate_reports_success_iff.

(* ... so whatever a successful frame guarantees (C06_stacked_zero_iff_all_zero: every equation x period of the frame
   within tolerance) holds in every frame of every variant when simulate() reports success *)
Theorem C06_simulate_success_every_frame_within : forall k status nfs (within : nat -> nat -> Prop), k <> WSilent ->
  (forall v f, status v f = true -> within v f) ->
  reports_success (simulate_report k status nfs) = true ->
  forall v f, (v < length nfs)%nat -> (f < nth v nfs 0%nat)%nat -> within v f.
Proof. exact simulate_success_every_frame_within. Qed.
Print Assumptions C06_simulate_success_every_frame_within.

(* the same for every program shape with the report inside the frame loop and every reporting stream *)
Theorem C06_report_iff_all_frames : forall add_of fin_of k status p, report_in_frame_loop p = true ->
  forall nfs, reporting_kind add_of fin_of k = true ->
  reports_success (simulate_outcome add_of fin_of k status p nfs) = true <-> all_success status nfs.
Proof. exact report_iff_all_frames. Qed.
Print Assumptions C06_report_iff_all_frames.

Theorem C06_sim_program_shape : report_in_frame_loop sim_program = true
  /\ reporting_kind stream_add stream_fin default_when_fails = true.
Proof. exact (conj sim_program_shape default_kind_reports). Qed.
Print Assumptions C06_sim_program_shape.

(* when_fails="silent" never reports: the per-frame statuses of return_info are then the report *)
Theorem C06_silent_never_reports : forall status nfs,
  simulate_report WSilent status nfs = OReturned \/ simulate_report WSilent status nfs = ONameError.
Proof. exact silent_never_reports. Qed.
Print Assumptions C06_silent_never_reports.

(* 13. the equations in force are the MODEL's: the dataslate row of a parameter / shock / std name, as assembled by
       _slatable_for_simulate_or_kalman_filter (slatable_blocks), the wiring of the flags of simulate()
       (sim_flag_wiring) and Variant.from_databox_variant (variant_post), all regenerated from the source: with the
       flag of the group off the row is the model's value whatever the databox holds; with it on, the databox's values
       with the model's value where the databox has nothing *)
Theorem C06_simulate_row_by_flag : forall (V : Type) (is_nan : V -> bool) (src : group -> nat -> option V) nn sim_flags g n v row,
  (n < nn)%nat -> src g n = Some v -> (forall g', g' <> g -> src g' n = None) ->
  simulate_row is_nan src nn sim_flags n row
  = if sim_flags g then map (fun x => if is_nan x then v else x) row else map (fun _ => v) row.
Proof. exact simulate_row_by_flag. Qed.
Print Assumptions C06_simulate_row_by_flag.

Theorem C06_parameter_rows_ignore_databox : forall (V : Type) (is_nan : V -> bool) (src : group -> nat -> option V) nn sim_flags n v row row',
  (n < nn)%nat -> src GParameters n = Some v -> (forall g', g' <> GParameters -> src g' n = None) ->
  sim_flags GParameters = false -> length row = length row' ->
  simulate_row is_nan src nn sim_flags n row = simulate_row is_nan src nn sim_flags n row'
  /\ (forall c, (c < length row)%nat -> nth_error (simulate_row is_nan src nn sim_flags n row) c = Some v).
Proof. exact parameter_rows_ignore_databox. Qed.
Print Assumptions C06_parameter_rows_ignore_databox.

Theorem C06_default_flags : sim_default_from_data GParameters = false
  /\ sim_default_from_data GShocks = true /\ sim_default_from_data GStds = true.
Proof. exact default_parameters_not_from_data. Qed.
Print Assumptions C06_default_flags.
