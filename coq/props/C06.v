From Coq Require Import ZArith List.
From Verif Require Import model.Frames model.Stacked proofs.StackedProofs.
Theorem C06_stub : True.
Proof. exact stub_true. Qed.
Print Assumptions C06_stub.
