(* C19  Databox, dataslate and CSV conversions are lossless on selected names and span.
   Restatements only; proofs are in proofs/CsvProofs.v and proofs/DataboxProofs.v.

   The CSV theorems hold for EVERY scalar carrier with a recognisable missing value and for EVERY
   period <-> text and number <-> text codec that round-trips (hypotheses below; the period codecs of
   irispie are the subject of C11, float formatting is glue): for every databox, every name
   selection, every frequency-span option, description row and nan string.  The dataslate and the
   operation theorems hold for every databox, span, option and history of operations. *)
From Coq Require Import String Ascii ZArith List Bool.
From Verif Require Import lib.Arith lib.ArithOptZ model.Series model.SeriesOps model.Databox model.Slate model.Csv gen.CsvGen
  proofs.SeriesProofs proofs.SeriesOpsProofs proofs.DataboxProofs proofs.CsvProofs
  gen.Csv4Gen model.Csv4 proofs.Databox4Proofs proofs.Csv4Proofs
  gen.Csv5Gen model.Csv5 proofs.Csv5Proofs
  model.Merge6 proofs.Merge6Proofs proofs.Csv6Proofs.
Import ListNotations.
Open Scope Z_scope.

Definition lawful (A : Arith) : Prop := forall x : car A, is_miss A x = true -> x = miss A.

(* ------------------------------------------------------------------ CSV *)

(* import (export db) succeeds and returns exactly the exported series -- the series of the selected
   names whose frequency is in the frequency span -- under their names, with their descriptions (when the
   description row is written) and as the series [imp_series] characterised by the next theorem; nothing
   else is returned.  Stated exceptions (hypotheses): a name that is empty, "*" or starts with "__"; a
   series without variants; an exported frequency without periods (this includes series without a start,
   which are exported under the unknown frequency with no periods). *)
Theorem C19_csv_roundtrip : forall A, lawful A ->
  forall (fmt_period : Z -> Z -> string) (parse_period : Z -> string -> option Z)
         (fmt_val : car A -> string) (parse_val : string -> car A) (rnd : car A -> car A),
  (forall f t, fmt_period f t <> ""%string) ->
  (forall f t, parse_period f (fmt_period f t) = Some t) ->
  (forall x, is_miss A (rnd x) = false -> parse_val (fmt_val (rnd x)) = rnd x) ->
  forall o : wopts, parse_val (w_nan o) = miss A ->
  forall db : databox A,
  let db1 := selected A db o in
  let fs := resolve_fspan A db1 (w_fspan o) in
  NoDup (map fst (w_fspan o)) ->
  (forall n d s ps, dget A db1 n = Some (ISer A d s) -> In (sfreq A s, ps) fs ->
     good_name n /\ WF A s /\ (1 <= s_nv s)%nat /\ ps <> [] /\
     is_start (mark_of_freq (sfreq A s)) = Some (sfreq A s)) ->
  exists db', import A parse_period parse_val (w_desc o) (export A fmt_period fmt_val rnd db o) = Ok db' /\
    (forall n d s ps, dget A db1 n = Some (ISer A d s) -> In (sfreq A s, ps) fs ->
       let s' := imp_series A rnd (sfreq A s) ps s in
       dget A db' n = Some (ISer A (kept_desc A ps s' (if w_desc o then d else ""%string)) s')) /\
    (forall n, (forall d s ps, dget A db1 n = Some (ISer A d s) -> ~ In (sfreq A s, ps) fs) -> dget A db' n = None).
Proof. exact csv_roundtrip. Qed.
Print Assumptions C19_csv_roundtrip.

(* the series that comes back: same number of variants, well formed and trimmed, the block's frequency, and
   period by period the rounded values of the original on the exported periods, missing elsewhere *)
Theorem C19_csv_values_on_span : forall A, lawful A -> forall (rnd : car A -> car A) f ps (s : series A), WF A s ->
  let s' := imp_series A rnd f ps s in
  WF A s' /\ Trimmed A s' /\ s_nv s' = s_nv s /\
  (forall t, row_at A s' t = if in_dec Z.eq_dec t ps then map rnd (row_at A s t) else missrow A (s_nv s)) /\
  (s_start s' <> None -> s_freq s' = f).
Proof. exact imp_series_spec. Qed.
Print Assumptions C19_csv_values_on_span.

(* a trimmed series whose span is covered by the exported periods comes back as itself, values rounded:
   same frequency, start, end, variants *)
Theorem C19_csv_series_identity : forall A, lawful A -> forall rnd : car A -> car A, is_miss A (miss A) = true ->
  forall ps (s : series A) st,
  (forall x, is_miss A (rnd x) = is_miss A x) -> WF A s -> Trimmed A s -> s_start s = Some st ->
  (forall t, st <= t < st + Z.of_nat (length (s_data s)) -> In t ps) ->
  imp_series A rnd (s_freq s) ps s = rounded A rnd s.
Proof. exact imp_series_identity. Qed.
Print Assumptions C19_csv_series_identity.

(* the composition for the default frequency span: every series of the selected names comes back under its
   name, with its description and as itself with rounded values; scalars and lists are not exported *)
Theorem C19_csv_lossless_default : forall A, lawful A -> is_miss A (miss A) = true ->
  forall (fmt_period : Z -> Z -> string) (parse_period : Z -> string -> option Z)
         (fmt_val : car A -> string) (parse_val : string -> car A) (rnd : car A -> car A),
  (forall f t, fmt_period f t <> ""%string) ->
  (forall f t, parse_period f (fmt_period f t) = Some t) ->
  (forall x, is_miss A (rnd x) = false -> parse_val (fmt_val (rnd x)) = rnd x) ->
  (forall x, is_miss A (rnd x) = is_miss A x) ->
  forall o : wopts, parse_val (w_nan o) = miss A ->
  forall db : databox A,
  let db1 := selected A db o in
  w_fspan o = default_fspan ->
  (forall n d s, dget A db1 n = Some (ISer A d s) ->
     good_name n /\ WF A s /\ Trimmed A s /\ (1 <= s_nv s)%nat /\ s_start s <> None /\
     In (s_freq s) default_freq_order /\ s_freq s <> -1) ->
  exists db', import A parse_period parse_val (w_desc o) (export A fmt_period fmt_val rnd db o) = Ok db' /\
    forall n, dget A db' n = match dget A db1 n with
                             | Some (INon (ESer d s)) => Some (ISer A (if w_desc o then d else ""%string) (rounded A rnd s))
                             | _ => None
                             end.
Proof. exact csv_lossless_default. Qed.
Print Assumptions C19_csv_lossless_default.

(* every frequency of the enum (regenerated from dates.py) is written as a mark that the import recognises *)
Theorem C19_csv_frequency_marks : forall f, In f (map snd freq_members) -> is_start (mark_of_freq f) = Some f.
Proof. exact marks_roundtrip. Qed.
Print Assumptions C19_csv_frequency_marks.

(* the exceptions are real (concrete sheets, evaluated): a name starting with "__" loses its block; a series
   whose observations are all missing comes back empty without its description *)
Theorem C19_csv_exceptions_refuted :
  CsvExamples.roundtrip false [("__x"%string, ISer OZArith "" (CsvExamples.ser [[Some 1]]));
                               ("b"%string, ISer OZArith "" (CsvExamples.ser [[Some 2]]))] = Ok []
  /\ CsvExamples.roundtrip true [("a"%string, ISer OZArith "about a" (CsvExamples.ser [[None]; [None]]));
                                 ("b"%string, ISer OZArith "about b" (CsvExamples.ser [[Some 2]]))]
     = Ok [("a"%string, ISer OZArith "" (empty_series OZArith 1)); ("b"%string, ISer OZArith "about b" (CsvExamples.ser [[Some 2]]))].
Proof. exact (conj CsvExamples.dunder_name_lost CsvExamples.all_missing_comes_back_empty). Qed.
Print Assumptions C19_csv_exceptions_refuted.

(* ---- empty series (no observations, unknown frequency) in the sheet ---- *)

(* the exporter's frequency -> periods table as the source builds it (_resolve_frequency_span; the keep test
   [fspan_keep] is regenerated from the source): a frequency that is a key of the frequency-span option and has at
   least one selected series -- the unknown frequency of empty series included -- is never dropped *)
Theorem C19_csv_table_keeps_every_frequency_with_series : forall A (db : databox A) fs f x,
  In (f, x) fs -> series_of_freq A db f <> [] -> In f (map fst (resolve_fspan_src A db fs)).
Proof. exact fspan_table_complete. Qed.
Print Assumptions C19_csv_table_keeps_every_frequency_with_series.

(* ... and the sheet written with that table is the sheet of [export] (the subject of C19_csv_roundtrip), for every
   databox (any mix of frequencies, empty series, scalars, lists), name selection and option *)
Theorem C19_csv_export_table_same_sheet : forall A fmt_period fmt_val rnd (db : databox A) (o : wopts),
  export_src A fmt_period fmt_val rnd db o = export A fmt_period fmt_val rnd db o.
Proof. exact export_src_same. Qed.
Print Assumptions C19_csv_export_table_same_sheet.

(* a block without dated rows -- the __unknown__ block of empty series, in a sheet with or without data rows -- is
   read back as empty series carrying the names, variant counts (columns) and descriptions of its header.
   _partial: the composition with [export] for databoxes that mix dated and empty series is evaluated on instances
   (C19_csv_empty_series_examples) and compared with the implementation on every run, not proved in general *)
Theorem C19_csv_undated_block_partial : forall A parse_period parse_val (name_row desc_row : row) (data_rows : grid)
  (db : databox A) f dc ec,
  Forall (fun r => cell_at r dc = ""%string) data_rows ->
  (data_rows <> [] -> parse_period f ""%string <> None) ->
  import_block A parse_period parse_val name_row desc_row data_rows (Ok db) (f, dc, ec)
  = Ok (fold_left (fun d g => let '(cs, n, ds) := g in dset A d n (ISer A ds (empty_series A (length cs))))
                  (header_groups name_row desc_row dc ec) db).
Proof. exact import_block_no_periods. Qed.
Print Assumptions C19_csv_undated_block_partial.

Theorem C19_csv_empty_series_examples :
  CsvExamples.roundtrip true [("e"%string, ISer OZArith "about e" (empty_series OZArith 1)); ("e2"%string, ISer OZArith "" (empty_series OZArith 3))]
  = Ok [("e"%string, ISer OZArith "about e" (empty_series OZArith 1)); ("e2"%string, ISer OZArith "" (empty_series OZArith 3))]
  /\ Csv4Examples.roundtrip' true [("e"%string, ISer OZArith "about e" (empty_series OZArith 2));
                                    ("a"%string, ISer OZArith "about a" (CsvExamples.ser [[Some 1]; [Some 2]]))]
     = Ok [("a"%string, ISer OZArith "about a" (CsvExamples.ser [[Some 1]; [Some 2]]));
           ("e"%string, ISer OZArith "about e" (empty_series OZArith 2))]
  /\ In (-1, None) default_fspan.
Proof. exact (conj CsvExamples.only_empty_series_roundtrip (conj Csv4Examples.mixed_empty_series_roundtrip Csv4Examples.default_table_has_unknown)). Qed.
Print Assumptions C19_csv_empty_series_examples.

(* ------------------------------------------------------------------ dataslate *)

(* databox -> dataslate on [from, from+n) -> databox: every requested name comes back as a series with one
   variant per dataslate variant whose value at (period, variant) is [expected]: the input value of that
   period (series variants and lists consumed exhaust-then-last, numbers constant, absent names missing),
   cleared outside the base columns when clipping to the base span is requested, replaced by the declared
   fallback only where missing and by the declared overwrite everywhere; missing outside the span; names
   that were not requested are absent *)
Theorem C19_slate_roundtrip : forall A, lawful A ->
  forall (db : databox A) nms fr from n (o : sopts A) trimmed db',
  slate_roundtrip A db (Some nms) fr from n o trimmed = Ok db' ->
  (forall nm, In nm nms ->
     exists s, dget A db' nm = Some (ISer A ""%string s) /\ WF A s /\ s_nv s = o_nvar o /\
               (trimmed = true -> Trimmed A s) /\
               forall t k, (k < o_nvar o)%nat ->
                 cell A s t k = if (from <=? t) && (t <? from + Z.of_nat n) then expected A db o nm k from t else miss A)
  /\ (forall nm, ~ In nm nms -> dget A db' nm = None).
Proof. exact slate_roundtrip_spec. Qed.
Print Assumptions C19_slate_roundtrip.

(* the dataslate as an object (multi-step use): removing periods from the start never moves a value to another
   period and keeps exactly the base periods that remain (a base column sitting exactly at the cut included);
   removing periods from the end keeps the remaining columns and base columns; to_databox(span="base") returns, for
   every name, the dataslate columns of the base span at the base periods and missing elsewhere *)
Theorem C19_slate_remove_start : forall A (d d' : dslate A) (k : Z), 0 <= k -> ds_remove_start A d k = Ok d' ->
  let j := Z.to_nat k in
  ds_names A d' = ds_names A d /\
  ds_periods A d' = skipn j (ds_periods A d) /\
  map (fun i => nth i (ds_periods A d') 0) (ds_base A d')
    = map (fun i => nth i (ds_periods A d) 0) (filter (fun i => Nat.leb j i) (ds_base A d)) /\
  forall kv q t, slate_cell A (ds_data A d') kv q t = slate_cell A (ds_data A d) kv q (j + t).
Proof. exact ds_remove_start_spec. Qed.
Print Assumptions C19_slate_remove_start.

Theorem C19_slate_remove_end : forall A (d d' : dslate A) (k : Z), 0 <= k -> ds_remove_end A d k = Ok d' ->
  let j := Z.to_nat k in
  (j = 0%nat -> d' = d) /\
  (j <> 0%nat ->
     ds_names A d' = ds_names A d /\
     ds_periods A d' = firstn (length (ds_periods A d) - j) (ds_periods A d) /\
     ds_base A d' = filter (fun i => Nat.ltb i (length (ds_periods A d'))) (ds_base A d) /\
     forall kv q t, (t < length (nth q (nth kv (ds_data A d) []) []) - j)%nat ->
       slate_cell A (ds_data A d') kv q t = slate_cell A (ds_data A d) kv q t).
Proof. exact ds_remove_end_spec. Qed.
Print Assumptions C19_slate_remove_end.

Theorem C19_slate_to_databox_base : forall A, lawful A -> forall (d : dslate A) fr trimmed db' b0 rest,
  ds_base A d = b0 :: rest ->
  ds_to_databox A d fr true trimmed = Ok db' ->
  let p0 := nth b0 (ds_periods A d) 0 in
  let w := (Nat.min (S (last (ds_base A d) b0)) (ds_ncols A d) - b0)%nat in
  forall nm, In nm (ds_names A d) ->
    exists s q, nth q (ds_names A d) ""%string = nm /\ (q < length (ds_names A d))%nat /\
      dget A db' nm = Some (ISer A ""%string s) /\ WF A s /\ s_nv s = length (ds_data A d) /\
      forall t k, (k < length (ds_data A d))%nat ->
        cell A s t k = if (p0 <=? t) && (t <? p0 + Z.of_nat w)
                       then slate_cell A (ds_data A d) k q (b0 + Z.to_nat (t - p0)) else miss A.
Proof. exact ds_to_databox_base_spec. Qed.
Print Assumptions C19_slate_to_databox_base.

(* ------------------------------------------------------------------ databox operations *)

(* one operation: a name outside the operation's selection keeps its item *)
Theorem C19_ops_frame : forall A (rs : dregs A) (o : dop) (db' : databox A) n,
  dexec A rs o = Ok db' -> ~ touches A rs o n -> dget A db' n = dget A (getd A rs (op_dst o)) n.
Proof. exact dexec_frame. Qed.
Print Assumptions C19_ops_frame.

(* any history of operations over any number of databoxes: a name of register r that no operation selects
   keeps its item (induction over the history; the history stops at the first operation that raises) *)
Theorem C19_ops_frame_histories : forall A (ops : list dop) (rs : dregs A) r n,
  (r < length rs)%nat -> untouched A rs ops r n ->
  dget A (getd A (fst (drun A rs ops)) r) n = dget A (getd A rs r) n.
Proof. exact drun_frame. Qed.
Print Assumptions C19_ops_frame_histories.

(* names stay unique along every history (the model state is a dictionary) *)
Theorem C19_ops_unique_names : forall A (ops : list dop) (rs : dregs A), AllND A rs -> AllND A (fst (drun A rs ops)).
Proof. exact drun_ND. Qed.
Print Assumptions C19_ops_unique_names.

(* remove / keep: dictionary semantics on exactly the resolved names *)
Theorem C19_remove_spec : forall A (db db' : databox A) (s : sel), ND A db -> d_remove A db s = Ok db' ->
  ND A db' /\ forall k, dget A db' k =
    match s with SelAll => dget A db k | _ => if smem k (sel_resolved A db s) then None else dget A db k end.
Proof. exact remove_spec. Qed.
Print Assumptions C19_remove_spec.

Theorem C19_keep_spec : forall A (db : databox A) (s : sel), ND A db ->
  ND A (d_keep A db s) /\ forall k, dget A (d_keep A db s) k =
    match s with SelAll => dget A db k | _ => if smem k (sel_resolved A db s) then dget A db k else None end.
Proof. exact keep_spec. Qed.
Print Assumptions C19_keep_spec.

(* rename / copy with an injective renaming onto names that are not sources: every target holds its source's
   item, renamed sources disappear, everything else is untouched (rename) or absent (copy) *)
Theorem C19_rename_spec : forall A (db : databox A) (s : sel) (t : tgt), ND A db ->
  let ps := resolve (names A db) s t in
  NoDup (map fst ps) -> NoDup (map snd ps) -> (forall x, In x (map snd ps) -> ~ In x (map fst ps)) ->
  exists db', d_rename A db s t = Ok db' /\ ND A db' /\
    forall k, dget A db' k = match tgt_src ps k with
                             | Some src => dget A db src
                             | None => if smem k (map fst ps) then None else dget A db k
                             end.
Proof. exact rename_spec. Qed.
Print Assumptions C19_rename_spec.

Theorem C19_copy_spec : forall A (db : databox A) (s : sel) (t : tgt), ND A db -> (s <> SelAll \/ t <> TgtSame) ->
  let ps := resolve (names A db) s t in
  NoDup (map fst ps) -> NoDup (map snd ps) -> (forall x, In x (map snd ps) -> ~ In x (map fst ps)) ->
  exists db', d_copy A db s t = Ok db' /\ ND A db' /\
    forall k, dget A db' k = match tgt_src ps k with Some src => dget A db src | None => None end.
Proof. exact copy_spec. Qed.
Print Assumptions C19_copy_spec.

(* overlay / underlay: every selected name that is a series of a known frequency in both databoxes, with equal
   frequencies, becomes Series.overlay / Series.underlay of the two series (C10 gives their period-by-period
   meaning); every other name keeps its item; the key order does not change *)
Theorem C19_lay_spec : forall A (under : bool) (db other db' : databox A) ns, ND A db ->
  d_lay A under db other ns = Ok db' ->
  ND A db' /\ names A db' = names A db /\
  forall k, dget A db' k =
    if smem k (lay_names A db other ns)
    then match lay_result A under db other k with Ok (Some it) => Some it | _ => dget A db k end
    else dget A db k.
Proof. exact lay_spec. Qed.
Print Assumptions C19_lay_spec.

(* clip: Series.clip on exactly the series of the frequency of the given period(s) *)
Theorem C19_clip_spec : forall A (db : databox A) f a b, ND A db ->
  ND A (d_clip A db f a b) /\ forall k, dget A (d_clip A db f a b) k =
    match a, b with
    | None, None => dget A db k
    | _, _ => option_map (clip_item A f a b) (dget A db k)
    end.
Proof. exact clip_spec19. Qed.
Print Assumptions C19_clip_spec.

(* prepend is underlay with the other databox clipped at the end period *)
Theorem C19_prepend_spec : forall A (db other : databox A) f e,
  d_prepend A db other f e = d_lay A true db (d_clip A other f None (Some e)) None.
Proof. exact prepend_def. Qed.
Print Assumptions C19_prepend_spec.

(* merge of one databox: new keys are added, duplicate keys are combined by the strategy, other keys untouched *)
Theorem C19_merge_spec : forall A (db other db' : databox A) (st : strategy), ND A db -> ND A other ->
  d_merge A db [other] st = Ok db' ->
  ND A db' /\ forall k, merged A st db other k (dget A db' k).
Proof. exact merge_spec. Qed.
Print Assumptions C19_merge_spec.

(* merge of ANY list of databoxes in one call: the result is a chain of single-databox merges (C19_merge_spec for
   every link), each against the keys present at that moment *)
Theorem C19_merge_many_spec : forall A (db : databox A) others db' st, ND A db -> Forall (ND A) others ->
  d_merge A db others st = Ok db' -> ND A db' /\ merge_chain A st db others db'.
Proof. exact merge_many_spec. Qed.
Print Assumptions C19_merge_many_spec.

(* ... hence every key holds the strategy folded over ALL its occurrences in the merged databoxes, in their order,
   starting from the target's own item: also a key that is new to the target and occurs in two merged databoxes *)
Theorem C19_merge_many_key : forall A (db : databox A) others db' st, ND A db -> Forall (ND A) others ->
  d_merge A db others st = Ok db' ->
  forall k, merge_key A st (dget A db k) (occurrences A others k) = Ok (dget A db' k).
Proof. exact merge_many_key. Qed.
Print Assumptions C19_merge_many_key.

Theorem C19_merge_two_new_key : forall A (db b c db' : databox A) st k v1 v2, ND A db -> ND A b -> ND A c ->
  d_merge A db [b; c] st = Ok db' -> dget A db k = None -> dget A b k = Some v1 -> dget A c k = Some v2 ->
  exists it, merge_val A st v1 v2 = Ok it /\ dget A db' k = Some it.
Proof. exact merge_two_new_key. Qed.
Print Assumptions C19_merge_two_new_key.

Theorem C19_merge_many_examples :
  d_merge OZArith [] [[("k"%string, Merge4Examples.sc 2)]; [("k"%string, Merge4Examples.sc 3)]] MDiscard = Ok [("k"%string, Merge4Examples.sc 2)]
  /\ d_merge OZArith [] [[("k"%string, Merge4Examples.sc 2)]; [("k"%string, Merge4Examples.sc 3)]] (MReport true) = Err 2%nat.
Proof. exact (conj Merge4Examples.discard_keeps_first Merge4Examples.error_on_duplicate_among_others). Qed.
Print Assumptions C19_merge_many_examples.

(* ---- round 6: merge with the strategies error / critical over ANY list of databoxes ---- *)

(* error / critical raise iff some key occurs twice among the keys of the target and of the merged databoxes (for every
   target and every list of databoxes); when no key occurs twice the result is the target followed by all items of the
   merged databoxes in their order *)
Theorem C19_merge_error_raises_iff : forall A (db : databox A) others, ND A db ->
  (d_merge A db others (MReport true) = Err 2%nat <-> ~ NoDup (all_keys A db others)).
Proof. exact merge_error_raises_iff. Qed.
Print Assumptions C19_merge_error_raises_iff.

Theorem C19_merge_error_spec : forall A (db : databox A) others, ND A db ->
  (NoDup (all_keys A db others) -> d_merge A db others (MReport true) = Ok (db ++ concat others)) /\
  (~ NoDup (all_keys A db others) -> d_merge A db others (MReport true) = Err 2%nat).
Proof. exact merge_error_spec. Qed.
Print Assumptions C19_merge_error_spec.

(* merge is an in-place procedure: [merge_report_state critical db others] (model/Merge6.v, compared with the target
   databox of the implementation after the call returned OR raised, on every run) is the target after the call and
   whether a duplicate key was met.  The value / exception of d_merge is determined by the run of the loop to its end: *)
Theorem C19_merge_report_run : forall A (db : databox A) others r,
  d_merge A db others (MReport r)
  = let '(d, dup) := merge_report_state A false db others in if r && dup then Err 2%nat else Ok d.
Proof. exact merge_report_run. Qed.
Print Assumptions C19_merge_report_run.

(* error and critical meet a duplicate (raise) in exactly the same cases *)
Theorem C19_merge_report_dup_iff : forall A c (db : databox A) others, ND A db ->
  (snd (merge_report_state A c db others) = true <-> ~ NoDup (all_keys A db others)).
Proof. exact merge_report_dup_iff. Qed.
Print Assumptions C19_merge_report_dup_iff.

(* the target after silent / warning / error -- ALSO when error raised (the stream raises after the loop): every
   existing key keeps its item, every new key holds its first occurrence in the merged databoxes.  "A raising merge
   changes nothing" is therefore NOT what the code does (refuted on an instance below): what holds is that no EXISTING
   item is changed or removed *)
Theorem C19_merge_error_state : forall A (db : databox A) others k,
  dget A (fst (merge_report_state A false db others)) k
  = match dget A db k with Some v => Some v | None => dget A (concat others) k end.
Proof. exact merge_error_state. Qed.
Print Assumptions C19_merge_error_state.

(* the target after critical (raises at the first duplicate): the items met before the first duplicate were added *)
Theorem C19_merge_critical_state : forall A (db : databox A) others,
  fst (merge_report_state A true db others) = db ++ fresh_prefix A (names A db) (concat others).
Proof. exact merge_critical_state. Qed.
Print Assumptions C19_merge_critical_state.

Theorem C19_merge_report_keeps_existing : forall A c (db : databox A) others k v,
  dget A db k = Some v -> dget A (fst (merge_report_state A c db others)) k = Some v.
Proof. exact merge_report_keeps_existing. Qed.
Print Assumptions C19_merge_report_keeps_existing.

(* non-vacuity, and the refutation of "nothing is changed when it raises": target {a}, merged {x, a, y} and {y, z} *)
Theorem C19_merge_report_examples :
  merge_report_state OZArith false Merge6Examples.T [Merge6Examples.B; Merge6Examples.C]
  = ([("a"%string, Merge6Examples.sc 1); ("x"%string, Merge6Examples.sc 2); ("y"%string, Merge6Examples.sc 4);
      ("z"%string, Merge6Examples.sc 6)], true)
  /\ merge_report_state OZArith true Merge6Examples.T [Merge6Examples.B; Merge6Examples.C]
     = ([("a"%string, Merge6Examples.sc 1); ("x"%string, Merge6Examples.sc 2)], true)
  /\ d_merge OZArith Merge6Examples.T [Merge6Examples.B; Merge6Examples.C] (MReport true) = Err 2%nat
  /\ (NoDup (all_keys OZArith Merge6Examples.T [Merge6Examples.C])
      /\ d_merge OZArith Merge6Examples.T [Merge6Examples.C] (MReport true) = Ok (Merge6Examples.T ++ Merge6Examples.C)).
Proof. exact (conj Merge6Examples.error_state (conj Merge6Examples.critical_state (conj Merge6Examples.error_raises Merge6Examples.no_duplicate))). Qed.
Print Assumptions C19_merge_report_examples.


(* a databox that is not the destination of any operation of a history keeps all its items, whatever is done to
   the other databoxes: the result of copy (a register of its own) and its source never influence each other.
   (The model has value semantics; that the implementation's databoxes do not share mutable items is checked by
   the correspondence, which compares EVERY databox of the session after each history, and by the falsifier.) *)
Theorem C19_ops_other_databoxes_untouched : forall A (ops : list dop) (rs : dregs A) r,
  (forall o, In o ops -> op_dst o <> r) -> getd A (fst (drun A rs ops)) r = getd A rs r.
Proof. exact drun_other_register. Qed.
Print Assumptions C19_ops_other_databoxes_untouched.

(* ---- round 5: the selected periods of a block are an arbitrary list (Span with any step, descending, hand-picked) ---- *)

(* the array the exporter builds (one array per name read through the accessor regenerated from the source, stacked by
   hstack behind an empty lead): row i holds the values of all series of the block AT period i of the selected list *)
Theorem C19_csv_data_array_rows : forall A (its : list (string * (string * series A))) ps,
  data_array A its ps = map (fun t => flat_map (fun p => row_at A (snd (snd p)) t) its) ps.
Proof. exact data_array_rows. Qed.
Print Assumptions C19_csv_data_array_rows.

(* the block as the source assembles it (zip of the selected periods with the rows of that array) is the block of
   model/Csv.v that C19_csv_roundtrip / C19_csv_values_on_span are about -- for every list of periods *)
Theorem C19_csv_block_of_source : forall A fmt_period fmt_val rnd (o : wopts) total f ps
  (its : list (string * (string * series A))),
  block_grid_src A fmt_period fmt_val rnd o total f ps its = block_grid A fmt_period fmt_val rnd o total f ps its.
Proof. exact block_grid_src_eq. Qed.
Print Assumptions C19_csv_block_of_source.

(* in the sheet, next to the date of the i-th selected period stand, for every series of the block, its (rounded)
   values at THAT period *)
Theorem C19_csv_row_holds_values_at_its_period : forall A fmt_period fmt_val rnd (o : wopts) total f ps
  (its : list (string * (string * series A))) i,
  (i < length ps)%nat ->
  nth ((if w_desc o then 2 else 1) + i) (block_grid_src A fmt_period fmt_val rnd o total f ps its) []
  = fmt_period f (nth i ps 0)
    :: flat_map (fun p => map (val_cell A fmt_val rnd (w_nan o)) (row_at A (snd (snd p)) (nth i ps 0))) its
    ++ [""%string].
Proof. exact block_row_at_its_period. Qed.
Print Assumptions C19_csv_row_holds_values_at_its_period.

(* one slice from the first to the last selected period is the same data exactly on runs of consecutive increasing
   periods ... *)
Theorem C19_csv_slice_equals_lookup_on_runs : forall A (s : series A) a b, a <= b ->
  sliced_rows A s (zrange a (b + 1)) = get_data A s (zrange a (b + 1)).
Proof. exact sliced_rows_on_runs. Qed.
Print Assumptions C19_csv_slice_equals_lookup_on_runs.

(* ... and not on other lists of distinct periods (every second period; a descending span) *)
Theorem C19_csv_slice_refuted :
  (exists (s : series OZArith) ps, NoDup ps /\ sliced_rows OZArith s ps <> get_data OZArith s ps) /\
  sliced_rows OZArith s5 [10; 12; 14] = [[Some 1]; [Some 2]; [Some 3]; [Some 4]; [Some 5]] /\
  get_data OZArith s5 [10; 12; 14] = [[Some 1]; [Some 3]; [Some 5]] /\
  sliced_rows OZArith s5 [12; 11; 10] = [] /\
  get_data OZArith s5 [12; 11; 10] = [[Some 3]; [Some 2]; [Some 1]].
Proof. exact sliced_rows_refuted. Qed.
Print Assumptions C19_csv_slice_refuted.


(* ---- round 6: REPEATED periods in an explicit period list (span= / frequency_span=) ---- *)
(* C19_csv_roundtrip, C19_csv_values_on_span and C19_csv_row_holds_values_at_its_period already hold for lists with
   repeats (no NoDup premise on the periods).  Explicitly: the sheet holds one row per POSITION of the list, and two
   positions holding the same period get identical rows ... *)
Theorem C19_csv_rows_of_repeated_period : forall A fmt_period fmt_val rnd (o : wopts) total f ps
  (its : list (string * (string * series A))) i j,
  (i < length ps)%nat -> (j < length ps)%nat -> nth i ps 0 = nth j ps 0 ->
  nth ((if w_desc o then 2 else 1) + i) (block_grid_src A fmt_period fmt_val rnd o total f ps its) []
  = nth ((if w_desc o then 2 else 1) + j) (block_grid_src A fmt_period fmt_val rnd o total f ps its) [].
Proof. exact block_rows_of_repeated_period. Qed.
Print Assumptions C19_csv_rows_of_repeated_period.

(* ... and the import (dated rows are stored by Series.set_data: the LAST row of a period wins) returns a series that
   depends only on the SET of selected periods: repeats and order change nothing *)
Theorem C19_csv_import_periods_as_set : forall A, lawful A -> is_miss A (miss A) = true ->
  forall (rnd : car A -> car A) f ps ps' (s : series A), WF A s -> (forall t, In t ps <-> In t ps') ->
  imp_series A rnd f ps s = imp_series A rnd f ps' s.
Proof. exact imp_series_periods_as_set. Qed.
Print Assumptions C19_csv_import_periods_as_set.

Theorem C19_csv_import_repeats_dropped : forall A, lawful A -> is_miss A (miss A) = true ->
  forall (rnd : car A -> car A) f ps (s : series A), WF A s ->
  imp_series A rnd f ps s = imp_series A rnd f (nodup Z.eq_dec ps) s.
Proof. exact imp_series_nodup. Qed.
Print Assumptions C19_csv_import_repeats_dropped.

Theorem C19_csv_repeated_period_example :
  imp_series OZArith (fun x => x) 1 [10; 11; 10] s5 = imp_series OZArith (fun x => x) 1 [10; 11] s5 /\ ~ NoDup [10; 11; 10].
Proof. exact Csv6Examples.repeated_period_same_series. Qed.
Print Assumptions C19_csv_repeated_period_example.

(* non-vacuity: a lawful carrier, a concrete sheet that round-trips, a concrete history *)
Example C19_nonvacuous :
  lawful OZArith /\
  CsvExamples.roundtrip true [("a"%string, ISer OZArith "about a" (CsvExamples.ser [[Some 1]; [None]; [Some 2]]));
                              ("k"%string, INon (@EScal OZArith (Some 3)))]
  = Ok [("a"%string, ISer OZArith "about a" (CsvExamples.ser [[Some 1]; [None]; [Some 2]]))].
Proof. split; [exact OZ_miss_law|exact CsvExamples.roundtrip_ok]. Qed.
