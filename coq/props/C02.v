(* C02  Jacobians from algorithmic differentiation equal the true derivatives.  (work in progress) *)
From Coq Require Import Reals ZArith List.
From Coquelicot Require Import Coquelicot.
From Verif Require Import lib.Dual lib.DualR gen.AldiGen model.AldiTree model.AldiDen model.AldiMaps proofs.AldiProofs.
Local Open Scope R_scope.

Theorem C02_eval_correct : forall (gam : R -> token -> R) (sd : token -> R) (lg : Z -> bool) (s0 : R) (t : tree RD),
  (forall v, In v (vars RD t) -> leaf_ok gam sd lg s0 v) ->
  adm t (gam s0) -> result_ok gam s0 t (eval RD (gam s0) sd lg t).
Proof. exact eval_correct. Qed.
Print Assumptions C02_eval_correct.
