(* C02  Jacobians from algorithmic differentiation equal the true derivatives.
   Only restatements: every proof is `exact <lemma of proofs/AldiProofs.v>`.

   atom_* (the differentiation rules on dual numbers (value, diff)), atom_diff, atom_methods, offered, has_rpow
   come from gen/AldiGen.v, regenerated on every run from the text of aldi/differentiators.py (class Atom) and
   aldi/adaptations.py; fd_two_sided from gen/AldiFdGen.v (aldi/finite_differentiators.py).
   RD is Coq's real numbers; [derives F x d] says: fst d = F x and F has derivative snd d at x (Coquelicot).
   eval (model/AldiTree.v) is the evaluator that Context.eval amounts to; den (model/AldiDen.v) is the residual
   of an equation as a real function of the data; adm = inside the domain and away from kinks. *)
From Coq Require Import Reals ZArith List String.
From Coquelicot Require Import Coquelicot.
From Verif Require Import lib.Dual lib.DualR gen.AldiGen gen.AldiFdGen model.AldiTree model.AldiDen model.AldiMaps
     proofs.AldiProofs model.AldiSelect proofs.AldiSelectProofs.
Import ListNotations.
Local Open Scope R_scope.

(* ---- 1. every rule is the true derivative -------------------------------------------------------------- *)

Theorem C02_rules_arithmetic : forall (f g : R -> R) (x f' g' c : R), is_derive f x f' -> is_derive g x g' ->
  derives (fun u => - f u) x (atom_neg RD (f x, f')) /\
  derives f x (atom_pos RD (f x, f')) /\
  derives (fun u => f u + g u) x (atom_add_aa RD (f x, f') (g x, g')) /\
  derives (fun u => f u + c) x (atom_add_ac RD (f x, f') c) /\
  derives (fun u => c + f u) x (atom_radd RD (f x, f') c) /\
  derives (fun u => f u - g u) x (atom_sub_aa RD (f x, f') (g x, g')) /\
  derives (fun u => f u - c) x (atom_sub_ac RD (f x, f') c) /\
  derives (fun u => c - f u) x (atom_rsub RD (f x, f') c) /\
  derives (fun u => f u * g u) x (atom_mul_aa RD (f x, f') (g x, g')) /\
  derives (fun u => f u * c) x (atom_mul_ac RD (f x, f') c) /\
  derives (fun u => c * f u) x (atom_rmul RD (f x, f') c) /\
  derives (fun u => f u / c) x (atom_truediv_ac RD (f x, f') c) /\
  (g x <> 0 -> derives (fun u => f u / g u) x (atom_truediv_aa RD (f x, f') (g x, g'))) /\
  (f x <> 0 -> derives (fun u => c / f u) x (atom_rtruediv RD (f x, f') c)).
Proof. exact rules_arithmetic. Qed.
Print Assumptions C02_rules_arithmetic.

(* power: positive base with any exponent (a number or an expression), or a non-zero base with a literal integer *)
Theorem C02_rules_power : forall (f g : R -> R) (x f' g' c : R) (n : Z), is_derive f x f' -> is_derive g x g' ->
  (0 < f x -> derives (fun u => rpow (f u) c) x (atom_pow_ac RD (f x, f') c)) /\
  (f x <> 0 -> derives (fun u => rpow (f u) (IZR n)) x (atom_pow_ac RD (f x, f') (IZR n))) /\
  (0 < f x -> derives (fun u => rpow (f u) (g u)) x (atom_pow_aa RD (f x, f') (g x, g'))) /\
  (0 < c -> derives (fun u => rpow c (f u)) x (atom_exponential RD (f x, f') c)).
Proof. exact rules_power. Qed.
Print Assumptions C02_rules_power.

Theorem C02_rules_functions : forall (f : R -> R) (x f' : R), is_derive f x f' ->
  (0 < f x -> derives (fun u => ln (f u)) x (atom_log RD (f x, f'))) /\
  derives (fun u => exp (f u)) x (atom_exp RD (f x, f')) /\
  (0 < f x -> derives (fun u => sqrt (f u)) x (atom_sqrt RD (f x, f'))) /\
  derives (fun u => expit (f u)) x (atom_logistic RD (f x, f')).
Proof. exact rules_functions. Qed.
Print Assumptions C02_rules_functions.

Theorem C02_rules_maximum : forall (f g : R -> R) (x f' g' c : R), is_derive f x f' -> is_derive g x g' ->
  (f x <> g x -> derives (fun u => Rmax (f u) (g u)) x (atom_maximum_aa RD (f x, f') (g x, g'))) /\
  (f x <> c -> derives (fun u => Rmax (f u) c) x (atom_maximum_ac RD (f x, f') c)).
Proof. exact rules_maximum. Qed.
Print Assumptions C02_rules_maximum.

(* minimum: not reachable as an Atom method under the offered name (rejected), or differentiated correctly *)
Theorem C02_minimum_rule_or_unreachable :
  minimum_is_method = false \/
  ((forall (f g : R -> R) (x f' g' : R), is_derive f x f' -> is_derive g x g' -> f x <> g x ->
      derives (fun u => Rmin (f u) (g u)) x (atom_minimum_aa RD (f x, f') (g x, g'))) /\
   (forall (f : R -> R) (x f' c : R), is_derive f x f' -> f x <> c ->
      derives (fun u => Rmin (f u) c) x (atom_minimum_ac RD (f x, f') c))).
Proof. exact minimum_rule_or_unreachable. Qed.
Print Assumptions C02_minimum_rule_or_unreachable.

(* number ** expression: class Atom has no __rpow__ (Python raises TypeError: rejected), or its rule is correct *)
Theorem C02_rpow_rule_or_absent :
  has_rpow = false \/
  (forall (f : R -> R) (x f' c : R), is_derive f x f' -> 0 < c ->
     derives (fun u => rpow c (f u)) x (atom_rpow RD (f x, f') c)).
Proof. exact rpow_rule_or_absent. Qed.
Print Assumptions C02_rpow_rule_or_absent.

(* ---- 2. expression trees: value and derivative along any differentiable curve of evaluation points ------- *)

Theorem C02_eval_correct : forall (gam : R -> token -> R) (sd : token -> R) (lg : Z -> bool) (s0 : R) (t : tree RD),
  (forall v, In v (vars RD t) -> leaf_ok gam sd lg s0 v) ->
  adm t (gam s0) ->
  result_ok gam s0 t (eval RD (gam s0) sd lg t).
Proof. exact eval_correct. Qed.
Print Assumptions C02_eval_correct.

(* the diff computed for an equation, seeded on one token occurrence, is the partial derivative of the residual
   w.r.t. that occurrence (every other token, including other lags of the same variable, held fixed) ... *)
Theorem C02_equation_diff_plain : forall (t : tree RD) rho lg tok,
  lg (fst tok) = false -> adm t rho -> eval RD rho (ind RD tok) lg t <> VRej ->
  is_derive (fun u => den t (upd rho tok u)) (rho tok) (diff_of RD (eval_equation RD rho (ind RD tok) lg t)).
Proof. exact equation_diff_plain. Qed.
Print Assumptions C02_equation_diff_plain.

(* ... and w.r.t. its logarithm when the variable is a log-variable *)
Theorem C02_equation_diff_log : forall (t : tree RD) rho lg tok,
  lg (fst tok) = true -> 0 < rho tok -> adm t rho -> eval RD rho (ind RD tok) lg t <> VRej ->
  is_derive (fun u => den t (upd rho tok (exp u))) (ln (rho tok)) (diff_of RD (eval_equation RD rho (ind RD tok) lg t)).
Proof. exact equation_diff_log. Qed.
Print Assumptions C02_equation_diff_log.

(* steady state: seeds 1 and `shift` give the derivatives w.r.t. the (log) level and the (log) change *)
Theorem C02_steady_level : forall (t : tree RD) (lg : Z -> bool) (lev chg : Z -> R) (q0 : Z),
  adm t (steady_path lg lev chg) ->
  result_ok (fun u => steady_path lg (updz lev q0 u) chg) (lev q0) t
            (eval RD (steady_path lg lev chg) (seed_level RD q0) lg t).
Proof. exact steady_level_correct. Qed.
Print Assumptions C02_steady_level.

Theorem C02_steady_change : forall (t : tree RD) (lg : Z -> bool) (lev chg : Z -> R) (q0 : Z),
  adm t (steady_path lg lev chg) ->
  result_ok (fun u => steady_path lg lev (updz chg q0 u)) (chg q0) t
            (eval RD (steady_path lg lev chg) (seed_change RD q0) lg t).
Proof. exact steady_change_correct. Qed.
Print Assumptions C02_steady_change.

(* the second block row [Ak, Bk + k*Ak] of the non-flat steady Jacobian: residuals evaluated k periods ahead *)
Theorem C02_steady_level_shifted : forall (t : tree RD) (lg : Z -> bool) (lev chg : Z -> R) (q0 k : Z),
  adm t (shift_rho RD (steady_path lg lev chg) k) ->
  result_ok (fun u => shift_rho RD (steady_path lg (updz lev q0 u) chg) k) (lev q0) t
            (eval RD (shift_rho RD (steady_path lg lev chg) k) (seed_level RD q0) lg t).
Proof. exact steady_level_shifted. Qed.
Print Assumptions C02_steady_level_shifted.

Theorem C02_steady_change_shifted : forall (t : tree RD) (lg : Z -> bool) (lev chg : Z -> R) (q0 k : Z),
  adm t (shift_rho RD (steady_path lg lev chg) k) ->
  match eval RD (shift_rho RD (steady_path lg lev chg) k) (seed_level RD q0) lg t,
        eval RD (shift_rho RD (steady_path lg lev chg) k) (seed_change RD q0) lg t with
  | VA dA, VA dB =>
      is_derive (fun u => den t (shift_rho RD (steady_path lg lev (updz chg q0 u)) k)) (chg q0)
                (snd dB + IZR k * snd dA)
  | _, _ => True
  end.
Proof. exact steady_change_shifted. Qed.
Print Assumptions C02_steady_change_shifted.

(* the computed diff is linear in the seeds *)
Theorem C02_eval_linear : forall rho lg sd1 sd2 c (t : tree RD),
  lin3 c (eval RD rho sd1 lg t) (eval RD rho sd2 lg t) (eval RD rho (sd3 sd1 sd2 c) lg t).
Proof. exact eval_linear. Qed.
Print Assumptions C02_eval_linear.

(* a token that does not occur in an equation: the true derivative is 0 *)
Theorem C02_partial_absent : forall (t : tree RD) rho v (g : R -> R) x, ~ In v (vars RD t) ->
  is_derive (fun u => den t (upd rho v (g u))) x 0.
Proof. exact partial_absent. Qed.
Print Assumptions C02_partial_absent.

(* ---- 3. offered in equations: differentiated correctly or rejected -------------------------------------- *)

Theorem C02_offered_or_rejected : forall name, In name offered ->
  is_method name = false \/ proved_function name = true.
Proof. exact offered_or_rejected. Qed.
Print Assumptions C02_offered_or_rejected.

(* ---- 4. placement ---------------------------------------------------------------------------------------- *)

Theorem C02_array_map_places : forall {V} (zero : V) (td : nat -> nat -> V) eids m cols offs rcol off i eid k t c,
  (forall e, In e eids -> NoDup (wrt_of m e)) ->
  nth_error eids i = Some eid -> nth_error (wrt_of m eid) k = Some t -> col_of cols t = Some c ->
  cell zero td (array_map_static eids m cols offs rcol off) i (off + c)%nat = td (offset_of offs eid + k)%nat rcol.
Proof. exact @array_map_places. Qed.
Print Assumptions C02_array_map_places.

Theorem C02_array_map_zero_elsewhere : forall {V} (zero : V) (td : nat -> nat -> V) eids m cols offs rcol off r cc,
  (forall i eid k t c, nth_error eids i = Some eid -> nth_error (wrt_of m eid) k = Some t -> col_of cols t = Some c ->
     (r, cc) <> (i, (off + c)%nat)) ->
  cell zero td (array_map_static eids m cols offs rcol off) r cc = zero.
Proof. exact @array_map_zero_elsewhere. Qed.
Print Assumptions C02_array_map_zero_elsewhere.

Theorem C02_stacked_map_places : forall {V} (zero : V) (td : nat -> nat -> V) eids m spots cte i eid k tok j col c,
  (forall e, In e eids -> NoDup (wrt_of m e)) ->
  nth_error eids i = Some eid -> nth_error (wrt_of m eid) k = Some tok -> nth_error cte j = Some col ->
  col_of (some_columns spots) (shifted tok col) = Some c ->
  cell zero td (stacked_map eids m spots cte) (i + List.length eids * j)%nat c
  = td (prefix_len m (firstn i eids) + k)%nat j.
Proof. exact @stacked_map_places. Qed.
Print Assumptions C02_stacked_map_places.

Theorem C02_stacked_map_zero_elsewhere : forall {V} (zero : V) (td : nat -> nat -> V) eids m spots cte r cc,
  (forall i eid k tok j col, nth_error eids i = Some eid -> nth_error (wrt_of m eid) k = Some tok ->
     nth_error cte j = Some col -> col_of (some_columns spots) (shifted tok col) = Some cc ->
     r <> (i + List.length eids * j)%nat) ->
  cell zero td (stacked_map eids m spots cte) r cc = zero.
Proof. exact @stacked_map_zero_elsewhere. Qed.
Print Assumptions C02_stacked_map_zero_elsewhere.

(* the stacked-time Jacobian as assembled: cell (equation i in period j, column of the spot) holds the diff of that
   equation computed on the data of period j, seeded on the token that the spot is for that period *)
Theorem C02_stacked_jacobian_entry : forall rho lg (l1 l2 : list (Z * tree RD)) m spots cte eid t k tok j col c,
  (forall e, In e (map fst (l1 ++ (eid, t) :: l2)) -> NoDup (wrt_of m e)) ->
  nth_error (wrt_of m eid) k = Some tok -> nth_error cte j = Some col ->
  col_of (some_columns spots) (shifted tok col) = Some c ->
  cell 0 (td2_of RD (stacked_td RD rho lg (l1 ++ (eid, t) :: l2) m cte))
       (stacked_map (map fst (l1 ++ (eid, t) :: l2)) m spots cte)
       (List.length l1 + List.length (map fst (l1 ++ (eid, t) :: l2)) * j)%nat c
  = diff_of RD (eval_equation RD (shift_rho RD rho col) (ind RD tok) lg t).
Proof. exact stacked_jacobian_entry. Qed.
Print Assumptions C02_stacked_jacobian_entry.

(* the terminal-condition correction of the stacked-time Jacobian (fords/terminators.py): which column of the first-order
   transition matrices is added into which column of the Jacobian *)
Theorem C02_terminal_map_pairs : forall terminit spots i j,
  In (i, j) (terminal_jacobian_map terminit spots) <->
  exists t, nth_error terminit j = Some t /\ col_of (some_columns spots) t = Some i.
Proof. exact terminal_map_pairs. Qed.
Print Assumptions C02_terminal_map_pairs.

(* a matrix of the unsolved system (A, B with its lagged columns, D, F, G, J): entry (i, c) is the diff of equation
   eids[i] seeded on the token of column c; with C02_equation_diff_plain/_log it is the partial derivative *)
Theorem C02_system_matrix_entry : forall rho lg (l1 l2 : list (Z * tree RD)) m eids cols i c eid t tok k,
  ~ In eid (map fst l2) ->
  (forall e, In e eids -> NoDup (wrt_of m e)) ->
  nth_error eids i = Some eid -> col_of cols tok = Some c -> nth_error (wrt_of m eid) k = Some tok ->
  nth c (nth i (system_matrix RD rho lg (l1 ++ (eid, t) :: l2) m eids cols) []) 0
  = diff_of RD (eval_equation RD rho (ind RD tok) lg t).
Proof. exact system_matrix_entry. Qed.
Print Assumptions C02_system_matrix_entry.

Theorem C02_system_matrix_zero : forall rho lg (eqs : list (Z * tree RD)) m eids cols i c eid tok,
  nth_error eids i = Some eid -> col_of cols tok = Some c -> ~ In tok (wrt_of m eid) ->
  nth c (nth i (system_matrix RD rho lg eqs m eids cols) []) 0 = 0.
Proof. exact system_matrix_zero. Qed.
Print Assumptions C02_system_matrix_zero.

(* columns of B that SystemMap blanks out (the lagged token is itself a transition variable) stay empty *)
Theorem C02_system_matrix_none_column : forall rho lg (eqs : list (Z * tree RD)) m eids cols i c,
  (i < List.length eids)%nat -> nth_error cols c = Some None ->
  nth c (nth i (system_matrix RD rho lg eqs m eids cols) []) 0 = 0.
Proof. exact system_matrix_none_column. Qed.
Print Assumptions C02_system_matrix_none_column.

(* ---- 5. user functions: the two-sided quotient is the derivative of affine functions (only) --------------- *)
Theorem C02_user_function_quotient_partial : forall a b x : R,
  is_derive (fun u => a * u + b) x (fd_two_sided (fun u => a * u + b) x).
Proof. exact fd_two_sided_affine_is_derivative. Qed.
Print Assumptions C02_user_function_quotient_partial.

(* ---- 6. the two defective rules as they were found are provably not derivatives --------------------------- *)
Theorem C02_sqrt_rule_as_found_refuted :
  exists (f : R -> R) (x f' : R), is_derive f x f' /\ 0 < f x /\
    ~ derives (fun u => sqrt (f u)) x (sqrt_rule_as_found (f x, f')).
Proof. exact sqrt_rule_as_found_refuted. Qed.
Print Assumptions C02_sqrt_rule_as_found_refuted.

Theorem C02_maximum_rule_as_found_refuted :
  exists (f g : R -> R) (x f' g' : R), is_derive f x f' /\ is_derive g x g' /\ f x <> g x /\
    ~ derives (fun u => Rmax (f u) (g u)) x (maximum_aa_rule_as_found (f x, f') (g x, g')).
Proof. exact maximum_aa_rule_as_found_refuted. Qed.
Print Assumptions C02_maximum_rule_as_found_refuted.

(* non-vacuity: sqrt(x*x) at x = 4 is admissible, is not rejected, and its derivative is computed as 1 *)
Example C02_hypotheses_satisfiable :
  let t : tree RD := TFun FSqrt (TBin BMul (TVar 0 0) (TVar 0 0)) in
  let rho : token -> R := fun _ => 4 in
  adm t rho /\ (exists d, eval RD rho (ind RD (0%Z, 0%Z)) (fun _ => false) t = VA d /\ snd d = 1).
Proof. exact hypotheses_satisfiable. Qed.


(* ---- 7. steady plans (fix_level / fix_change): the columns kept from the full non-flat Jacobian
        [levels of all wrt_qids | changes of all wrt_qids] are those of the unknowns
        [iterated levels | iterated changes], for EVERY pair of subsets (steadiers/evaluators.py eval_jacob) -------- *)
Theorem C02_steady_plan_columns : forall (V : Type) (d : label -> V) (wrt levels changes : list Z),
  reduce_row (mask_of wrt levels) (mask_of wrt changes) (map d (full_labels wrt))
  = map d (unknown_labels wrt (mask_of wrt levels) (mask_of wrt changes)).
Proof. exact (@plan_reduced_row_is_unknowns). Qed.
Print Assumptions C02_steady_plan_columns.

Theorem C02_steady_plan_entry : forall (V : Type) (d : label -> V) (wrt : list Z) (ml mc : list bool) (j : nat) (u : label) (dflt : V),
  List.length ml = List.length wrt ->
  nth_error (unknown_labels wrt ml mc) j = Some u ->
  nth j (reduce_row ml mc (map d (full_labels wrt))) dflt = d u.
Proof. exact (@reduced_entry_is_unknown). Qed.
Print Assumptions C02_steady_plan_entry.

Theorem C02_steady_column_index : forall (V : Type) (ml mc : list bool) (rowL rowC : list V) (d : V),
  List.length ml = List.length rowL -> List.length mc = List.length rowC ->
  gather (column_index ml mc (List.length rowL)) (rowL ++ rowC) d = reduce_row ml mc (rowL ++ rowC).
Proof. exact (@column_index_correct). Qed.
Print Assumptions C02_steady_column_index.

Theorem C02_steady_column_index_offset_by_iterated_levels_refuted :
  exists (wrt : list Z) (ml mc : list bool),
    gather (column_index ml mc (count_true ml)) (full_labels wrt) (false, 0%Z) <> unknown_labels wrt ml mc.
Proof. exact column_index_offset_by_iterated_levels_refuted. Qed.
Print Assumptions C02_steady_column_index_offset_by_iterated_levels_refuted.

(* ---- 8. the terminator caches the rows of the terminal map on its first call: with the STRUCTURAL pattern
        (the same at every evaluation point) every later call, at any point, adds the full terminal-condition
        correction; with the pattern of the non-zero VALUES of the first call it does not -------------------------- *)
Theorem C02_terminal_rows_every_call : forall (V : Type) (zero : V) (add : V -> V -> V),
  (forall x, add x zero = x) ->
  forall (S : list nat) pairs calls st,
  (st = None \/ st = Some S) ->
  List.Forall (fun call => fst (fst call) = S /\ zero_outside zero S (snd call)) calls ->
  List.Forall2 (fun out call => forall r c, out r c = corrected_all add pairs (snd (fst call)) (snd call) r c)
          (trun add st pairs calls) calls.
Proof. exact (@trun_structural_valid). Qed.
Print Assumptions C02_terminal_rows_every_call.

Theorem C02_structural_rows_cover : forall (V : Type) (m : coo V) r c v, ~ In r (coo_rows m) -> ~ In (r, c, v) m.
Proof. exact (@outside_coo_rows_no_entry). Qed.
Print Assumptions C02_structural_rows_cover.

Theorem C02_terminal_value_pattern_refuted :
  exists (pairs : list (nat * nat)) (t1 t2 : coo Z) (regular : nat -> nat -> Z),
    map (fun e => fst e) t1 = map (fun e => fst e) t2 /\
    let addm (t : coo Z) : nat -> nat -> Z :=
        fun r c => fold_right Z.add 0%Z (map (fun e => if andb (Nat.eqb (fst (fst e)) r) (Nat.eqb (snd (fst e)) c) then snd e else 0%Z) t) in
    let calls := [ (nonzero_rows (Z.eqb 0) t1, regular, addm t1); (nonzero_rows (Z.eqb 0) t2, regular, addm t2) ] in
    exists out1 out2, trun Z.add None pairs calls = [out1; out2] /\
      out2 0%nat 0%nat <> corrected_all Z.add pairs regular (addm t2) 0%nat 0%nat.
Proof. exact trun_value_pattern_refuted. Qed.
Print Assumptions C02_terminal_value_pattern_refuted.
