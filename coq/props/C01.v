(* C01  First-order solution satisfies the model equations and is the stable one.

   Only restatements: every proof is `exact <lemma of proofs/Ford*Proofs.v>`.
   The model (model/Ford.v) is one text over the matrix interface lib/MxC01.v; here it is instantiated on
   MathComp matrices over an ARBITRARY field F and ARBITRARY sizes nb (backward/stable), nf (forward/unstable),
   ne (shocks), ny, nw.  The ordered QZ decomposition (S, T, Q, Z), the Schur factors (Ta, u) and lstsq (modelled
   as inverse) are oracles: their contracts are premises.  The classification predicates come from gen/FordGen.v,
   regenerated from fords/solutions.py on every run.

   Notation of the statements (t = a simulated period):
     xi[t]        the solution (transition) vector, xi[t] = T xi[t-1] + K + P (u[t] + v[t]) - X a[t]
     u, v         unanticipated / anticipated shock vectors;  e[t] = u[t] + v[t]
     a[t]         = sum_{k>=1} J^(k-1) Ru v[t+k], the effect of shocks anticipated after t  (ant (drop t.+1 vs))
     xi+ (full)   the stacked system vector [leads; xi] implied by a state and an anticipation term
*)
From Verif Require Import lib.MxC01 gen.FordGen model.Ford
     proofs.FordProofs proofs.FordSquareProofs proofs.FordSimProofs proofs.FordPathProofs proofs.FordLeadsProofs
     proofs.FordDiscreteProofs proofs.FordExampleProofs proofs.FordMeasUniqueProofs
     lib.MxScale gen.FordSteadyGen model.FordSteady proofs.FordSteadyProofs
     lib.VarStmt gen.VariantListGen model.VariantList proofs.VariantListProofs.
From mathcomp Require Import all_ssreflect all_algebra.
Import GRing.Theory.
Local Open Scope ring_scope.

(* 1. The triangular solution (G, Ru, Ku, Xg0, Xg1, Tg, Rg, Kg, J, Xg of _solve_transition_equations) makes BOTH blocks
      of the QZ-transformed system hold:  S w[t] + T w[t-1|t] + Q C + Q D e[t] = 0  along
      gamma[t] = Tg gamma[t-1] + Kg + Rg e[t] - Xg a[t],  u[t] = Ku + a[t],  u[t-1|t] = Ku + Ru e[t] + J a[t],  s = gamma + G u,
      for every gamma[t-1], shock e[t] and anticipation term a[t] *)
Theorem C01_triangular_solves_system :
  forall (F : fieldType) (nb nf ne : nat) (S T Q : 'M[F]_(nb + nf)) (Z : 'M[F]_(nf + nb, nb + nf))
         (C : 'cV[F]_(nb + nf)) (D : 'M[F]_(nb + nf, ne)),
  let p := @solve_transition (MCOps F) nb nf ne S T Q Z C D in
  dlsubmx S = 0 -> dlsubmx T = 0 ->
  ulsubmx S \in unitmx -> drsubmx T \in unitmx -> drsubmx S + drsubmx T \in unitmx ->
  forall (g0 : 'cV[F]_nb) (e : 'cV[F]_ne) (a : 'cV[F]_nf),
  let g1 := ts_Tg p *m g0 + ts_Kg p + ts_Rg p *m e - ts_Xg p *m a in
  let u1 := ts_Ku p + a in
  let u0 := ts_Ku p + (ts_Ru p *m e + ts_J p *m a) in
  S *m col_mx (g1 + ts_G p *m u1) u1 + T *m col_mx (g0 + ts_G p *m u0) u0 + Q *m C + Q *m D *m e = 0.
Proof. exact: triangular_solves_system. Qed.
Print Assumptions C01_triangular_solves_system.

(* 2. EVERY simulated period of simulate_flat, from EVERY initial condition, with EVERY path of unanticipated (us) and
      anticipated (vs) shocks, satisfies the unsolved system
            A xi+[t] + B xi+[t-1|t] + C + D e[t] = 0
      where the backward rows of xi+[t] and xi+[t-1|t] are the simulated xi[t], xi[t-1] themselves, and xi+[t-1|t] is the
      previous stacked vector revised for the news:  anticipation term a[t-1] + Ru u[t]  (= a[t-1] when no unanticipated
      shock arrives, i.e. exactly the previous period's own xi+) *)
Theorem C01_square_solves_system :
  forall (F : fieldType) (nb nf ne : nat) (A B : 'M[F]_(nb + nf, nf + nb)) (C : 'cV[F]_(nb + nf)) (D : 'M[F]_(nb + nf, ne))
         (S T Q : 'M[F]_(nb + nf)) (Z : 'M[F]_(nf + nb, nb + nf)) (Ta u : 'M[F]_nb),
  let p := @solve_transition (MCOps F) nb nf ne S T Q Z C D in
  let sq := @square_from_triangular (MCOps F) nb nf ne (@detach (MCOps F) nb nf ne p Ta u) in
  Q *m A *m Z = S -> Q *m B *m Z = T -> Q \in unitmx ->
  dlsubmx S = 0 -> dlsubmx T = 0 ->
  ulsubmx S \in unitmx -> drsubmx T \in unitmx -> drsubmx S + drsubmx T \in unitmx -> dlsubmx Z \in unitmx ->
  u *m u^T = 1%:M -> ts_Tg p = u *m Ta *m u^T ->
  forall (true_init : nat -> bool) (init : 'cV[F]_nb) (us vs : seq 'cV[F]_ne), size us = size vs ->
  let xis := @simulate_flat (MCOps F) nb nf ne false true_init (sq_T sq) (sq_P sq) (sq_K sq) (sq_X sq) (ts_J p) (ts_Ru p)
                            init us vs in
  let xi_init : 'cV[F]_nb := @mrowmask (MCOps F) nb 1 true_init init in
  forall t, (t < size us)%N ->
  let xi_t := nth 0 xis t in let xi_p := nth 0 (xi_init :: xis) t in
  let a_t := ant (ts_J p) (ts_Ru p) (drop t.+1 vs) in let a_p := ant (ts_J p) (ts_Ru p) (drop t vs) in
  let e_t := nth 0 us t + nth 0 vs t in
  [/\ A *m full C D S T Q Z xi_t a_t + B *m full C D S T Q Z xi_p (a_p + ts_Ru p *m nth 0 us t) + C + D *m e_t = 0,
      dsubmx (full C D S T Q Z xi_t a_t) = xi_t &
      dsubmx (full C D S T Q Z xi_p (a_p + ts_Ru p *m nth 0 us t)) = xi_p].
Proof. exact: square_solves_system. Qed.
Print Assumptions C01_square_solves_system.

(* frame-by-frame simulation (simulate(..., force_split_frames=True): a new frame at every unanticipated shock, each frame a
   flat simulation to the end of the base span with later unanticipated shocks pruned, only its own periods written back)
   returns exactly the flat path, so Theorem 2 and all that follows hold for it as well *)
Theorem C01_split_frames_equal_flat :
  forall (F : fieldType) (nb nf ne : nat) (T : 'M[F]_nb) (P : 'M[F]_(nb, ne)) (X : 'M[F]_(nb, nf)) (J : 'M[F]_nf)
         (Ru : 'M[F]_(nf, ne)) (K : 'cV[F]_nb) (deviation : bool) (true_init : nat -> bool) (init : 'cV[F]_nb)
         (us vs : seq 'cV[F]_ne),
  size us = size vs ->
  @simulate_split (MCOps F) nb nf ne deviation true_init T P K X J Ru init us vs
  = @simulate_flat (MCOps F) nb nf ne deviation true_init T P K X J Ru init us vs.
Proof. exact: split_frames_equal_flat. Qed.
Print Assumptions C01_split_frames_equal_flat.

(* 3. Anticipated shocks: the impact the code adds in column t (Rx[0] v[t] + Rx[1] v[t+1] + ..., Rx[k] = -X J^(k-1) Ru,
      truncated at the last non-zero anticipated shock) is  P v[t] - X a[t];  and a[t-1] = sum_k J^k Ru v[t+k]
      (forward expansion, by induction over the horizon) *)
Theorem C01_anticipated_impacts :
  forall (F : fieldType) (nb nf ne : nat) (P : 'M[F]_(nb, ne)) (X : 'M[F]_(nb, nf)) (J : 'M[F]_nf) (Ru : 'M[F]_(nf, ne))
         (vs : seq 'cV[F]_ne) (t : nat), (t < size vs)%N ->
  let imps := @anticipated_impacts (MCOps F) nb nf ne P X J Ru vs in
  size imps = size vs /\
  imp_val (nth None imps t) = P *m nth 0 vs t - X *m ant J Ru (drop t.+1 vs).
Proof. exact: impacts_spec. Qed.
Print Assumptions C01_anticipated_impacts.

Theorem C01_forward_expansion :
  forall (F : fieldType) (nf ne : nat) (J : 'M[F]_nf) (Ru : 'M[F]_(nf, ne)) (vs : seq 'cV[F]_ne),
  ant J Ru vs = \sum_(0 <= k < size vs) @mpow (MCOps F) nf J k *m Ru *m nth 0 vs k.
Proof. exact: ant_closed. Qed.
Print Assumptions C01_forward_expansion.

(* 4. Leads are read from the model-consistent continuation of the same path.  For ANY solved model whose stacked
      vector xp satisfies the system along the recursion (Theorem 2 provides this for `full`), and any chain of positions
      idx 0, ..., idx n linked by dynamic-identity rows (x{k} today = x{k+1} in yesterday's vector):
      the entry of xi+ for x{+n} equals the entry for x{0} n periods ahead on the continuation c (no unanticipated shocks) *)
Theorem C01_leads_from_continuation :
  forall (F : fieldType) (nb nf ne : nat) (A B : 'M[F]_(nb + nf, nf + nb)) (C : 'cV[F]_(nb + nf)) (D : 'M[F]_(nb + nf, ne))
         (Tsq : 'M[F]_nb) (K : 'cV[F]_nb) (P : 'M[F]_(nb, ne)) (X : 'M[F]_(nb, nf)) (J : 'M[F]_nf) (Ru : 'M[F]_(nf, ne))
         (xp : 'cV[F]_nb -> 'cV[F]_nf -> 'cV[F]_(nf + nb)),
  (forall xi a, dsubmx (xp xi a) = xi) ->
  (forall xi0 e a, A *m xp (Tsq *m xi0 + K + P *m e - X *m a) a + B *m xp xi0 (Ru *m e + J *m a) + C + D *m e = 0) ->
  forall (c : nat -> 'cV[F]_nb) (a : nat -> 'cV[F]_nf) (v : nat -> 'cV[F]_ne),
  (forall m, c m.+1 = Tsq *m c m + K + P *m v m.+1 - X *m a m.+1) ->
  (forall m, a m = Ru *m v m.+1 + J *m a m.+1) ->
  forall (idx : nat -> 'I_(nf + nb)) (n : nat) (j0 : 'I_nb),
  idx 0%N = rshift nf j0 ->
  (forall k, (k < n)%N -> exists r, dynid_row A B C D r (idx k) (idx k.+1)) ->
  forall m, xp (c m) (a m) (idx n) 0 = c (m + n)%N j0 0.
Proof. exact: leads_are_future_states. Qed.
Print Assumptions C01_leads_from_continuation.

(* ... in particular for the solution of Theorem 2: the lead entries of `full` ARE the future states of the continuation *)
Theorem C01_leads_of_solution :
  forall (F : fieldType) (nb nf ne : nat) (A B : 'M[F]_(nb + nf, nf + nb)) (C : 'cV[F]_(nb + nf)) (D : 'M[F]_(nb + nf, ne))
         (S T Q : 'M[F]_(nb + nf)) (Z : 'M[F]_(nf + nb, nb + nf)) (Ta u : 'M[F]_nb),
  let p := @solve_transition (MCOps F) nb nf ne S T Q Z C D in
  let sq := @square_from_triangular (MCOps F) nb nf ne (@detach (MCOps F) nb nf ne p Ta u) in
  Q *m A *m Z = S -> Q *m B *m Z = T -> Q \in unitmx ->
  dlsubmx S = 0 -> dlsubmx T = 0 ->
  ulsubmx S \in unitmx -> drsubmx T \in unitmx -> drsubmx S + drsubmx T \in unitmx -> dlsubmx Z \in unitmx ->
  u *m u^T = 1%:M -> ts_Tg p = u *m Ta *m u^T ->
  forall (c : nat -> 'cV[F]_nb) (a : nat -> 'cV[F]_nf) (v : nat -> 'cV[F]_ne),
  (forall m, c m.+1 = sq_T sq *m c m + sq_K sq + sq_P sq *m v m.+1 - sq_X sq *m a m.+1) ->
  (forall m, a m = ts_Ru p *m v m.+1 + ts_J p *m a m.+1) ->
  forall (idx : nat -> 'I_(nf + nb)) (n : nat) (j0 : 'I_nb),
  idx 0%N = rshift nf j0 ->
  (forall k, (k < n)%N -> exists r, dynid_row A B C D r (idx k) (idx k.+1)) ->
  forall m, full C D S T Q Z (c m) (a m) (idx n) 0 = c (m + n)%N j0 0.
Proof. exact: leads_of_full. Qed.
Print Assumptions C01_leads_of_solution.

(* 5. The dynamic identities built by _create_dynid_matrices from a token vector: one row per token not at its quantity's
      maximum shift, in vector order, pairing (q,k) at position i with (q,k+1) at position j; as linear forms
      dynid_A[r].x + dynid_B[r].y = x[i] - y[j]  (entries +1 / -1 regenerated from the source) *)
Theorem C01_dynid_rows :
  forall (vec : list token) (ps : list (nat * nat)), dynid_pairs vec = Some ps ->
  List.map fst ps = nonmax_positions vec vec 0 /\
  List.Forall (dynid_pair_ok vec) ps /\
  forall r i j (x y : list BinNums.Z), List.nth_error ps r = Some (i, j) ->
    length x = length vec -> length y = length vec ->
    BinInt.Z.add (dotZ (List.nth r (dynid_A vec ps) nil) x) (dotZ (List.nth r (dynid_B vec ps) nil) y)
    = BinInt.Z.sub (List.nth i x BinNums.Z0) (List.nth j y BinNums.Z0).
Proof. exact dynid_rows. Qed.
Print Assumptions C01_dynid_rows.

(* for EVERY set of tokens, the system vector built by SystemVectors is closed under "one period later, up to the maximum
   lead" of each quantity: the list.index call of _create_dynid_matrices never fails and the identities exist *)
Theorem C01_dynid_total :
  forall actual meas : list token, exists ps, dynid_pairs (system_vector actual meas) = Some ps.
Proof. exact system_vector_dynid_total. Qed.
Print Assumptions C01_dynid_total.

(* 6. A steady state of the unsolved system is a fixed point of the solved recursion ... *)
Theorem C01_steady_is_fixed_point :
  forall (F : fieldType) (nb nf ne : nat) (A B : 'M[F]_(nb + nf, nf + nb)) (C : 'cV[F]_(nb + nf)) (D : 'M[F]_(nb + nf, ne))
         (S T Q : 'M[F]_(nb + nf)) (Z : 'M[F]_(nf + nb, nb + nf)) (Zi : 'M[F]_(nb + nf, nf + nb)) (Ta u : 'M[F]_nb),
  let p := @solve_transition (MCOps F) nb nf ne S T Q Z C D in
  let sq := @square_from_triangular (MCOps F) nb nf ne (@detach (MCOps F) nb nf ne p Ta u) in
  Q *m A *m Z = S -> Q *m B *m Z = T -> Z *m Zi = 1%:M ->
  dlsubmx S = 0 -> dlsubmx T = 0 ->
  ulsubmx S \in unitmx -> drsubmx S + drsubmx T \in unitmx -> dlsubmx Z \in unitmx ->
  u *m u^T = 1%:M -> ts_Tg p = u *m Ta *m u^T ->
  forall xbar : 'cV[F]_(nf + nb), A *m xbar + B *m xbar + C = 0 ->
  sq_T sq *m dsubmx xbar + sq_K sq = dsubmx xbar.
Proof. exact: steady_is_fixed_point. Qed.
Print Assumptions C01_steady_is_fixed_point.

(* balanced growth: three consecutive points of an affine steady-state path that satisfy the unsolved system are one
   step of the solved recursion (the case x0 = x1 = x2 is the theorem above); for a model not declared linear
   System.__init__ stores C = -(A xi + B xi_lagged), which makes the first premise hold by construction *)
Theorem C01_steady_path_is_solution :
  forall (F : fieldType) (nb nf ne : nat) (A B : 'M[F]_(nb + nf, nf + nb)) (C : 'cV[F]_(nb + nf)) (D : 'M[F]_(nb + nf, ne))
         (S T Q : 'M[F]_(nb + nf)) (Z : 'M[F]_(nf + nb, nb + nf)) (Zi : 'M[F]_(nb + nf, nf + nb)) (Ta u : 'M[F]_nb),
  let p := @solve_transition (MCOps F) nb nf ne S T Q Z C D in
  let sq := @square_from_triangular (MCOps F) nb nf ne (@detach (MCOps F) nb nf ne p Ta u) in
  Q *m A *m Z = S -> Q *m B *m Z = T -> Z *m Zi = 1%:M ->
  dlsubmx S = 0 -> dlsubmx T = 0 ->
  ulsubmx S \in unitmx -> drsubmx S + drsubmx T \in unitmx -> dlsubmx Z \in unitmx ->
  u *m u^T = 1%:M -> ts_Tg p = u *m Ta *m u^T ->
  forall x0 x1 x2 : 'cV[F]_(nf + nb),
  A *m x1 + B *m x0 + C = 0 -> A *m x2 + B *m x1 + C = 0 -> x2 - x1 = x1 - x0 ->
  sq_T sq *m dsubmx x0 + sq_K sq = dsubmx x1.
Proof. exact: steady_path_is_solution. Qed.
Print Assumptions C01_steady_path_is_solution.

Theorem C01_system_constant :
  forall (F : fieldType) (nb nf : nat) (A B : 'M[F]_(nb + nf, nf + nb)) (x1 x0 : 'cV[F]_(nf + nb)),
  A *m x1 + B *m x0 + @system_constant (MCOps F) (nb + nf) (nf + nb) A B x1 x0 = 0.
Proof. exact: system_constant_spec. Qed.
Print Assumptions C01_system_constant.

(* ... and then a level simulation equals the steady state plus the deviation simulation of the same shocks,
   period by period (create_deviation_solution zeroes K; zero_false_init_xi masks the initial condition) *)
Theorem C01_level_is_steady_plus_deviation :
  forall (F : fieldType) (nb nf ne : nat) (T : 'M[F]_nb) (P : 'M[F]_(nb, ne)) (K : 'cV[F]_nb) (X : 'M[F]_(nb, nf))
         (J : 'M[F]_nf) (Ru : 'M[F]_(nf, ne)) (true_init : nat -> bool) (xbar d : 'cV[F]_nb) (us vs : seq 'cV[F]_ne),
  T *m xbar + K = xbar ->
  T *m @mrowmask (MCOps F) nb 1 true_init xbar = T *m xbar ->
  @simulate_flat (MCOps F) nb nf ne false true_init T P K X J Ru (xbar + d) us vs
  = [seq xbar + x | x <- @simulate_flat (MCOps F) nb nf ne true true_init T P K X J Ru d us vs].
Proof. exact: level_is_steady_plus_deviation. Qed.
Print Assumptions C01_level_is_steady_plus_deviation.

(* the same along a growing steady-state path xb: level run = path + deviation run, period by period *)
Theorem C01_level_is_steady_path_plus_deviation :
  forall (F : fieldType) (nb nf ne : nat) (T : 'M[F]_nb) (P : 'M[F]_(nb, ne)) (K : 'cV[F]_nb) (X : 'M[F]_(nb, nf))
         (J : 'M[F]_nf) (Ru : 'M[F]_(nf, ne)) (true_init : nat -> bool) (d : 'cV[F]_nb) (us vs : seq 'cV[F]_ne)
         (xb : nat -> 'cV[F]_nb),
  (forall t, T *m xb t + K = xb t.+1) ->
  T *m @mrowmask (MCOps F) nb 1 true_init (xb 0%N) = T *m xb 0%N ->
  let dev := @simulate_flat (MCOps F) nb nf ne true true_init T P K X J Ru d us vs in
  let lev := @simulate_flat (MCOps F) nb nf ne false true_init T P K X J Ru (xb 0%N + d) us vs in
  size lev = size dev /\ forall t, (t < size dev)%N -> nth 0 lev t = xb t.+1 + nth 0 dev t.
Proof. exact: level_path_pointwise. Qed.
Print Assumptions C01_level_is_steady_path_plus_deviation.

(* the deviation path satisfies the homogeneous system (C = 0) in every period *)
Theorem C01_deviation_solves_homogeneous_system :
  forall (F : fieldType) (nb nf ne : nat) (A B : 'M[F]_(nb + nf, nf + nb)) (C : 'cV[F]_(nb + nf)) (D : 'M[F]_(nb + nf, ne))
         (S T Q : 'M[F]_(nb + nf)) (Z : 'M[F]_(nf + nb, nb + nf)) (Ta u : 'M[F]_nb),
  let p := @solve_transition (MCOps F) nb nf ne S T Q Z C D in
  let sq := @square_from_triangular (MCOps F) nb nf ne (@detach (MCOps F) nb nf ne p Ta u) in
  Q *m A *m Z = S -> Q *m B *m Z = T -> Q \in unitmx ->
  dlsubmx S = 0 -> dlsubmx T = 0 ->
  ulsubmx S \in unitmx -> drsubmx T \in unitmx -> drsubmx S + drsubmx T \in unitmx -> dlsubmx Z \in unitmx ->
  u *m u^T = 1%:M -> ts_Tg p = u *m Ta *m u^T ->
  forall (true_init : nat -> bool) (init : 'cV[F]_nb) (us vs : seq 'cV[F]_ne), size us = size vs ->
  let dev := @simulate_flat (MCOps F) nb nf ne true true_init (sq_T sq) (sq_P sq) (sq_K sq) (sq_X sq) (ts_J p) (ts_Ru p)
                            init us vs in
  let d_init : 'cV[F]_nb := @mrowmask (MCOps F) nb 1 true_init init in
  forall t, (t < size us)%N ->
  let xi_t := nth 0 dev t in let xi_p := nth 0 (d_init :: dev) t in
  let a_t := ant (ts_J p) (ts_Ru p) (drop t.+1 vs) in let a_p := ant (ts_J p) (ts_Ru p) (drop t vs) in
  let e_t := nth 0 us t + nth 0 vs t in
  A *m full 0 D S T Q Z xi_t a_t + B *m full 0 D S T Q Z xi_p (a_p + ts_Ru p *m nth 0 us t) + 0 + D *m e_t = 0.
Proof. exact: deviation_solves_homogeneous_system. Qed.
Print Assumptions C01_deviation_solves_homogeneous_system.

(* 7. Measurement block:  F (Z xi + H w + D) + G [leads; xi] + H~ + J w = 0 *)
Theorem C01_measurement_block :
  forall (F : fieldType) (nb nf ny nw : nat) (Fm : 'M[F]_ny) (Gm : 'M[F]_(ny, nf + nb)) (Hc : 'cV[F]_ny)
         (Jm : 'M[F]_(ny, nw)) (Ua : 'M[F]_nb),
  let ms := @solve_measurement (MCOps F) nb nf ny nw Fm Gm Hc Jm Ua in
  Fm \in unitmx -> lsubmx Gm = 0 ->
  forall (f : 'cV[F]_nf) (xi : 'cV[F]_nb) (w : 'cV[F]_nw),
  Fm *m (ms_Z ms *m xi + ms_H ms *m w + ms_D ms) + Gm *m col_mx f xi + Hc + Jm *m w = 0.
Proof. exact: measurement_block. Qed.
Print Assumptions C01_measurement_block.

Theorem C01_measurement_holds_along_path :
  forall (F : fieldType) (nb nf ny nw : nat) (Fm : 'M[F]_ny) (Gm : 'M[F]_(ny, nf + nb)) (Hc : 'cV[F]_ny)
         (Jm : 'M[F]_(ny, nw)) (Ua : 'M[F]_nb),
  let ms := @solve_measurement (MCOps F) nb nf ny nw Fm Gm Hc Jm Ua in
  Fm \in unitmx -> lsubmx Gm = 0 ->
  forall (xis : seq 'cV[F]_nb) (ws : seq 'cV[F]_nw) (f : 'cV[F]_nf) (t : nat), (t < size xis)%N -> (t < size ws)%N ->
  let y_t := nth 0 (@simulate_measurement (MCOps F) nb ny nw false (ms_Z ms) (ms_H ms) (ms_D ms) xis ws) t in
  Fm *m y_t + Gm *m col_mx f (nth 0 xis t) + Hc + Jm *m nth 0 ws t = 0.
Proof. exact: measurement_holds_along_path. Qed.
Print Assumptions C01_measurement_holds_along_path.

(* the guard `lsubmx Gm = 0` (no leads of transition variables in measurement equations) cannot be dropped: the code
   keeps only system.G[:, num_forwards:], and for  o = x{+1} + 1  the computed (Z, H, D) violates the equation *)
Theorem C01_measurement_leads_refuted :
  exists (Fm : 'M[rat_fieldType]_1) (Gm : 'M[rat_fieldType]_(1, 1 + 1)) (Hc : 'cV[rat_fieldType]_1)
         (Jm : 'M[rat_fieldType]_(1, 0)) (Ua : 'M[rat_fieldType]_1)
         (f : 'cV[rat_fieldType]_1) (xi : 'cV[rat_fieldType]_1) (w : 'cV[rat_fieldType]_0),
  let ms := @solve_measurement (MCOps rat_fieldType) 1 1 1 0 Fm Gm Hc Jm Ua in
  Fm \in unitmx /\
  Fm *m (ms_Z ms *m xi + ms_H ms *m w + ms_D ms) + Gm *m col_mx f xi + Hc + Jm *m w != 0.
Proof. exact: measurement_leads_refuted. Qed.
Print Assumptions C01_measurement_leads_refuted.

(* 7b. The measurement clause determines (Z, H, D): for ANY invertible F (also one that is not diagonal, symmetric or
       triangular: measurement equations referring to other measurement variables) the matrices computed by
       _solve_measurement_equations are the only ones that satisfy the clause for every state and measurement shock; hence a
       different way of solving the block that changes any of them violates the property on some input *)
Theorem C01_measurement_solution_unique :
  forall (F : fieldType) (nb nf ny nw : nat) (Fm : 'M[F]_ny) (Gm : 'M[F]_(ny, nf + nb)) (Hc : 'cV[F]_ny)
         (Jm : 'M[F]_(ny, nw)) (Ua : 'M[F]_nb),
  let ms := @solve_measurement (MCOps F) nb nf ny nw Fm Gm Hc Jm Ua in
  Fm \in unitmx -> lsubmx Gm = 0 ->
  forall (Z' : 'M[F]_(ny, nb)) (H' : 'M[F]_(ny, nw)) (D' : 'cV[F]_ny),
  (forall (f : 'cV[F]_nf) (xi : 'cV[F]_nb) (w : 'cV[F]_nw),
     Fm *m (Z' *m xi + H' *m w + D') + Gm *m col_mx f xi + Hc + Jm *m w = 0) ->
  [/\ Z' = ms_Z ms, H' = ms_H ms & D' = ms_D ms].
Proof. exact: measurement_solution_unique. Qed.
Print Assumptions C01_measurement_solution_unique.

(* solving with the TRANSPOSE of F is refuted for every invertible non-symmetric F (block  F y - F xi = 0, i.e. y = xi) *)
Theorem C01_measurement_transposed_solve_refuted :
  forall (F : fieldType) (ny : nat) (Fm : 'M[F]_ny), Fm \in unitmx -> Fm^T != Fm ->
  let Gm : 'M[F]_(ny, 0 + ny) := row_mx 0 (- Fm) in
  let Zt : 'M[F]_(ny, ny) := invmx (- Fm^T) *m rsubmx Gm in
  ~ (forall xi : 'cV[F]_ny, Fm *m (Zt *m xi) + Gm *m col_mx (0 : 'cV[F]_0) xi = 0).
Proof. exact: measurement_transposed_solve_refuted. Qed.
Print Assumptions C01_measurement_transposed_solve_refuted.

Theorem C01_nonsymmetric_unit_exists :
  forall F : fieldType, exists Fm : 'M[F]_(1 + 1), Fm \in unitmx /\ Fm^T != Fm.
Proof. exact: nonsymmetric_unit_exists. Qed.
Print Assumptions C01_nonsymmetric_unit_exists.

(* 8. Blanchard-Kahn verdict and eigenvalue classes, over the predicates regenerated from fords/solutions.py *)
Theorem C01_verdict_iff_count :
  forall (ks : list ekind) (nf : nat),
  (classify_system_stability ks nf = S_STABLE <-> count_kind E_UNSTABLE ks = nf) /\
  (classify_system_stability ks nf = S_NO_STABLE <-> (count_kind E_UNSTABLE ks > nf)%coq_nat) /\
  (classify_system_stability ks nf = S_MULTIPLE_STABLE <-> (count_kind E_UNSTABLE ks < nf)%coq_nat).
Proof. exact verdict_iff_count. Qed.
Print Assumptions C01_verdict_iff_count.

Theorem C01_classes_partition :
  forall tol : QArith_base.Q, QArith_base.Qle (QArith_base.Qmake BinNums.Z0 BinNums.xH) tol -> forall x : QArith_base.Q,
  let a := Qabs.Qabs x in
  let one := QArith_base.Qmake (BinNums.Zpos BinNums.xH) BinNums.xH in
  let k := classify_eigenvalue_stability (is_stable_root tol) (is_unit_root tol) x in
  (k = E_STABLE /\ QArith_base.Qlt a (QArith_base.Qminus one tol)) \/
  (k = E_UNIT_ROOT /\ QArith_base.Qle (QArith_base.Qminus one tol) a /\ QArith_base.Qlt a (QArith_base.Qplus one tol)) \/
  (k = E_UNSTABLE /\ QArith_base.Qle (QArith_base.Qplus one tol) a).
Proof. exact classes_partition. Qed.
Print Assumptions C01_classes_partition.

Theorem C01_counts_and_verdict :
  forall (tol : QArith_base.Q) (l : list QArith_base.Q) (nf : nat),
  let r := stability tol l nf in
  (rep_num_stable r + rep_num_unit r + rep_num_unstable r = length l)%coq_nat /\
  (rep_verdict r = S_STABLE <-> rep_num_unstable r = nf).
Proof. exact stability_report_spec. Qed.
Print Assumptions C01_counts_and_verdict.

(* the ordering predicate handed to ordqz selects exactly the roots -beta/alpha that the classifier does not call unstable *)
Theorem C01_qz_sort_consistent :
  forall tol : QArith_base.Q, QArith_base.Qle (QArith_base.Qmake BinNums.Z0 BinNums.xH) tol ->
  forall alpha beta : QArith_base.Q, ~ QArith_base.Qeq alpha (QArith_base.Qmake BinNums.Z0 BinNums.xH) ->
  is_alpha_beta_stable_or_unit_root tol alpha beta = true <->
  classify_eigenvalue_stability (is_stable_root tol) (is_unit_root tol)
    (QArith_base.Qdiv (QArith_base.Qopp beta) alpha) <> E_UNSTABLE.
Proof. exact qz_sort_consistent. Qed.
Print Assumptions C01_qz_sort_consistent.

(* 9. "Non-explosive", PARTIAL: the recursion matrix T is similar (through Z21) to Tg = -S11^-1 T11, which is similar
      (through the orthogonal u) to Ta; its eigenvalues are exactly the generalised eigenvalues of the pencil block
      (S11, T11), i.e. the roots the QZ oracle ordered first.  NOT proved: that |roots| < 1 bounds the powers of T
      (no spectral theory for matrix powers in MathComp 1.15). *)
Theorem C01_recursion_spectrum_partial :
  forall (F : fieldType) (nb nf ne : nat) (C : 'cV[F]_(nb + nf)) (D : 'M[F]_(nb + nf, ne)) (S T Q : 'M[F]_(nb + nf))
         (Z : 'M[F]_(nf + nb, nb + nf)) (Ta u : 'M[F]_nb),
  let p := @solve_transition (MCOps F) nb nf ne S T Q Z C D in
  let sq := @square_from_triangular (MCOps F) nb nf ne (@detach (MCOps F) nb nf ne p Ta u) in
  ulsubmx S \in unitmx -> dlsubmx Z \in unitmx -> u *m u^T = 1%:M -> ts_Tg p = u *m Ta *m u^T ->
  [/\ sq_T sq *m dlsubmx Z = dlsubmx Z *m ts_Tg p,
      ulsubmx S *m ts_Tg p + ulsubmx T = 0,
      ts_Tg p *m u = u *m Ta
    & forall a : F, eigenvalue (sq_T sq) a = (\det (a *: ulsubmx S + ulsubmx T) == 0)].
Proof. exact: recursion_spectrum_partial. Qed.
Print Assumptions C01_recursion_spectrum_partial.

(* 10. Non-vacuity: the contracts are met by a concrete determinate model over the rationals
       (one backward and one forward variable, roots 1/2 and 2) *)
Theorem C01_contracts_satisfiable :
  [/\ exQ *m exA *m exZ = exS, exQ *m exB *m exZ = exT, exQ \in unitmx & exZ *m exZ = 1%:M] /\
  [/\ dlsubmx exS = 0, dlsubmx exT = 0 & ulsubmx exS \in unitmx] /\
  [/\ drsubmx exT \in unitmx, drsubmx exS + drsubmx exT \in unitmx & dlsubmx exZ \in unitmx] /\
  [/\ exu *m exu^T = 1%:M &
      ts_Tg (@solve_transition (MCOps rat_fieldType) 1 1 1 exS exT exQ exZ exC exD) = exu *m exTa *m exu^T].
Proof. exact: contracts_satisfiable. Qed.
Print Assumptions C01_contracts_satisfiable.

(* 11. Steady state of a model declared linear=True, flat=False (fords/steadiers.py::solve_steady_linear_nonflat; the twelve
       blocks of the stacked matrices AB, FF, GG and the constant k are regenerated from the source, gen/FordSteadyGen.v).
       Whatever lstsq returns: if (Xi, dXi, Y, dY) solves the two stacked systems, then levels + s * changes satisfy the
       transition AND the measurement equations at every date (every scalar s, hence every integer t): the reported steady
       state is a steady-state PATH.  With Theorem C01_steady_path_is_solution / C01_level_is_steady_path_plus_deviation this
       is "level simulation = steady state + deviation simulation" for transition variables of such models ... *)
Theorem C01_steady_nonflat_is_path :
  forall (F : fieldType) (m n p : nat) (A B : 'M[F]_(m, n)) (C : 'cV[F]_m) (Fm : 'M[F]_p) (G : 'M[F]_(p, n)) (H : 'cV[F]_p)
         (Xi dXi : 'cV[F]_n) (Y dY : 'cV[F]_p),
  @nonflat_transition_rows (MCOps F) m n A B C Xi dXi = (0, 0) ->
  @nonflat_measurement_rows (MCOps F) p n Fm G H Xi dXi Y dY = (0, 0) ->
  forall s : F,
  A *m (Xi + (s + 1) *: dXi) + B *m (Xi + s *: dXi) + C = 0 /\
  Fm *m (Y + s *: dY) + G *m (Xi + s *: dXi) + H = 0.
Proof. exact: nonflat_is_path. Qed.
Print Assumptions C01_steady_nonflat_is_path.

(* the same on the model's own path (level + t * change by repeated addition) at every date t = 0, 1, 2, ... *)
Theorem C01_steady_nonflat_residuals_vanish :
  forall (F : fieldType) (m n p : nat) (A B : 'M[F]_(m, n)) (C : 'cV[F]_m) (Fm : 'M[F]_p) (G : 'M[F]_(p, n)) (H : 'cV[F]_p)
         (Xi dXi : 'cV[F]_n) (Y dY : 'cV[F]_p),
  @nonflat_transition_rows (MCOps F) m n A B C Xi dXi = (0, 0) ->
  @nonflat_measurement_rows (MCOps F) p n Fm G H Xi dXi Y dY = (0, 0) ->
  forall t : nat,
  @transition_residual_at (MCOps F) m n A B C Xi dXi t = 0 /\
  @measurement_residual_at (MCOps F) p n Fm G H Xi dXi Y dY t = 0.
Proof. exact: nonflat_residuals_vanish. Qed.
Print Assumptions C01_steady_nonflat_residuals_vanish.

(* ... and for measurement variables: a point of the steady-state path that satisfies the measurement equations is
   reproduced by the solved measurement block (ybar = Z xbar + D), so the level simulation of a measurement variable
   equals its steady-state value plus its deviation simulation, also along a growing steady state *)
Theorem C01_measurement_level_is_steady_plus_deviation :
  forall (F : fieldType) (nb nf ny nw : nat) (Fm : 'M[F]_ny) (Gm : 'M[F]_(ny, nf + nb)) (Hc : 'cV[F]_ny)
         (Jm : 'M[F]_(ny, nw)) (Ua : 'M[F]_nb),
  let ms := @solve_measurement (MCOps F) nb nf ny nw Fm Gm Hc Jm Ua in
  Fm \in unitmx -> lsubmx Gm = 0 ->
  forall (f : 'cV[F]_nf) (xbar d : 'cV[F]_nb) (ybar : 'cV[F]_ny) (w : 'cV[F]_nw),
  Fm *m ybar + Gm *m col_mx f xbar + Hc = 0 ->
  ms_Z ms *m (xbar + d) + ms_H ms *m w + ms_D ms = ybar + (ms_Z ms *m d + ms_H ms *m w).
Proof. exact: measurement_level_is_steady_plus_deviation. Qed.
Print Assumptions C01_measurement_level_is_steady_plus_deviation.

(* 12. Parameter variants (has_variants.py::Mixin; the list-filling statement of expand_num_variants is regenerated from the
       source, gen/VariantListGen.v).  After ANY history of alter_num_variants / assign calls on a model object the list of
       variants never holds one Variant object twice ... *)
Theorem C01_variants_never_alias :
  forall ops : list vop, List.NoDup (vars (run ops init)).
Proof. exact variants_never_alias. Qed.
Print Assumptions C01_variants_never_alias.

(* ... hence a per-variant assignment  assign(name=[v0, v1, ...])  leaves variant i with ITS value v_i (for every i, every
   number of variants, every history), and touches no other name: the parameters that steady() and solve() read for
   variant i -- and therefore the equations the simulated path of variant i has to satisfy -- are those assigned to it *)
Theorem C01_variant_assignment_is_per_variant :
  forall (ops : list vop) (name : nat) (vals : list BinNums.Z) (i : nat),
  let st := run ops init in
  (i < length (vars st))%coq_nat -> (i < length vals)%coq_nat ->
  read (assign name vals st) i name = List.nth i vals BinNums.Z0 /\
  (forall nm j, nm <> name -> read (assign name vals st) j nm = read st j nm).
Proof. exact history_then_assign. Qed.
Print Assumptions C01_variant_assignment_is_per_variant.

(* the restriction to statements that copy once PER new variant cannot be dropped:  `+= [last.copy()] * count`  aliases *)
Theorem C01_repeated_element_aliases_refuted :
  ~ List.NoDup (vars (exec_expand (SExtendRepeat ECopyLast) 3 init)).
Proof. exact extend_repeat_aliases. Qed.
Print Assumptions C01_repeated_element_aliases_refuted.
