(* C08  Smoothed estimates reproduce the data and are a simulation of the model.
   Only restatements: every proof is `exact <lemma of proofs/SmootherProofs.v>`.

   The statements are about model/Kalman.v (kf_step, kf_run, one_step_back, smooth_back, update_all,
   gen_period, xi_med, xi_var) instantiated on MathComp matrices over an arbitrary real field F
   (lib/MatMC.v); the same model text, instantiated on rationals, is run against irispie's
   kalman_filter by harness/C08.py.  Quantification: every state dimension n, number of measurement
   shocks nw, every list of periods ps (any length; per-period number of observed rows, transition
   matrices, shock loadings, covariances, shock means, constants all free to vary), every initial
   mean a and symmetric initial MSE Q.

   Spec vocabulary (proofs/SmootherProofs.v, proofs/KalmanProofs.v):
     is_sym A            A^T = A
     ok_period p         the two shock covariance matrices of period p are symmetric
     all_ok ps           ok_period for every period
     all_unit fs         the prediction MSE matrix F of every period is invertible
     Tr st               T_{t+1}' r_{t+1} for the backward state st left by the later periods (0 if none)
     trans_eq a_prev s   alpha_hat = T a_prev + K + P u_hat + v_impact          (transition equation)
     sim_chain a0 ss     trans_eq along the whole list, each from the smoothed state before it
     meas_eq s           Z alpha_hat + D + H w_hat = y   on the observed rows   (measurement equations)
     dev_period / dev_fper / dev_sper abar    the deviation-mode input / the level results minus abar *)
From mathcomp Require Import all_ssreflect all_algebra.
From Verif.lib Require Import MatOps MatMC MatLemmas.
From Verif.model Require Import Kalman.
From Verif.proofs Require Import KalmanProofs SmootherProofs BatchProofs UnknownInitProofs.
Set Implicit Arguments.
Unset Strict Implicit.
Import GRing.Theory.
Local Open Scope ring_scope.

Section C08.
Variable F : realFieldType.
Variables (flog : F -> F) (flog2pi : F).
Notation M := (MC flog flog2pi).
Variables n nw : nat.
Notation krun := (@kf_run M n nw).
Notation sback := (@smooth_back M n nw).
Notation osb := (@one_step_back M n nw).

(* 1. alpha_hat_t = a1_t + Q1_t T_{t+1}' r_{t+1}, for every period of every run *)
Theorem C08_smooth_alt (a : 'cV[F]_n) (Q : 'M[F]_n) (ps : seq (period M n nw)) :
  is_sym Q -> all_ok ps -> alt_all (krun a Q ps).
Proof. exact: smooth_alt_run. Qed.

(* 2. the smoothed states are a simulation of the model: alpha_hat_t = T alpha_hat_{t-1} + K + P u_hat_t
      (+ v_impact) with u_hat_t = u0_t + cov_u P' r_t; the first one starts from the smoothed initial
      condition a + Q T_0' r_0 *)
Theorem C08_smooth_is_simulation (a : 'cV[F]_n) (Q : 'M[F]_n) (ps : seq (period M n nw)) :
  is_sym Q -> all_ok ps ->
  sim_chain (a + Q *m Tr (sback (krun a Q ps)).2) (sback (krun a Q ps)).1.
Proof. exact: smooth_is_simulation_run. Qed.

(* 3. the smoothed states and measurement shocks satisfy every measurement equation on the observed
      rows: Z alpha_hat_t + D + H w_hat_t = y_t *)
Theorem C08_smooth_reproduces_data (a : 'cV[F]_n) (Q : 'M[F]_n) (ps : seq (period M n nw)) :
  is_sym Q -> all_ok ps -> all_unit (krun a Q ps) -> all_meas (sback (krun a Q ps)).1.
Proof. exact: smooth_reproduces_data_run. Qed.

(* ... and so do the updated (filtered) states a1_t with the updated measurement shocks *)
Theorem C08_update_reproduces_data (a : 'cV[F]_n) (Q : 'M[F]_n) (ps : seq (period M n nw)) :
  is_sym Q -> all_ok ps -> all_unit (krun a Q ps) -> all_update (update_all (krun a Q ps)).
Proof. exact: update_run. Qed.

(* 4. deviation mode = level mode minus steady state *)
Theorem C08_deviation_commutes (abar a : 'cV[F]_n) (Q : 'M[F]_n) (ps : seq (period M n nw)) (b : bool) (vs : F) :
  all_steady abar ps ->
  let lev := krun a Q ps in
  let dev := krun (a - abar) Q [seq dev_period abar p | p <- ps] in
  [/\ dev = [seq dev_fper abar x | x <- lev],
      (sback dev).1 = [seq dev_sper abar s | s <- (sback lev).1],
      update_all dev = [seq dev_sper abar s | s <- update_all lev],
      likelihood b dev = likelihood b lev &
      @contributions M n nw vs dev = @contributions M n nw vs lev].
Proof. exact: deviation_commutes_run. Qed.

(* 6. unit-root models (diffuse_method="fixed_unknown"): correcting the cached run for the estimated unknown
      part of the initial state (the Xi recursion of predict, estimate_unknown_init, correct_for_unknown_init)
      IS the filter run started from the initial mean a + Xi_init delta -- so theorems 1-5 hold for what
      kalman_filter returns for such models as well; delta solves the GLS normal equations *)
Theorem C08_unknown_init_is_rerun k (a : 'cV[F]_n) (Q : 'M[F]_n) (ps : seq (period M n nw)) (Xi : 'M[F]_(n, k)) :
  @correct_for_unknown_init M n nw k Xi (krun a Q ps)
  = krun (a + Xi *m @estimate_unknown_init M n nw k (krun a Q ps) (@xi_run M n nw k Xi None (krun a Q ps))) Q ps.
Proof. exact: correct_for_unknown_init_is_rerun. Qed.

Theorem C08_unknown_init_normal_equations k (fs : seq (fper M n nw)) (Xis : seq 'M[F]_(n, k)) :
  gls_S fs Xis \in unitmx ->
  gls_S fs Xis *m @estimate_unknown_init M n nw k fs Xis = gls_b fs Xis.
Proof. exact: estimate_solves_normal_equations. Qed.

Section Mapping.
Variables nu nyf nxi : nat.
Variable s : solution M n nw nu nyf nxi.

(* 3'. for the periods generated from a model: the measurement equations above are the model's
       measurement block Za, D, H read on the rows observed in the period; the side conditions
       all_ok hold for every data set *)
Theorem C08_observed_rows (d : pdata M n nw nu nyf) (alpha : 'cV[F]_n) (w : 'cV[F]_nw) :
  let p := gen_period s d in
  p_Z p *m alpha + p_D p + p_H p *m w = mc_sel (d_mask d) (so_Za s *m alpha + so_D s + so_H s *m w)
  /\ p_y p = mc_sel (d_mask d) (d_y d).
Proof. exact: gen_period_meas. Qed.

Theorem C08_generated_periods_ok (data : seq (pdata M n nw nu nyf)) :
  all_ok (List.map (gen_period s) data).
Proof. exact: all_ok_gen. Qed.

(* 5. output mapping: the stored values of the current-dated transition variables are the rows
      curr_xi_indexes of Ua alpha, their variances the corresponding diagonal entries of Ua Q Ua';
      the mapping is linear (so the deviation shift of thm 4 is Ua abar in variable space) *)
Theorem C08_output_mapping (a abar : 'cV[F]_n) (Q : 'M[F]_n) (i : 'I_(length (so_curr_xi s))) (r : 'I_nxi) :
  nth 0%N (so_curr_xi s) i = r ->
  [/\ xi_med s a = mc_rows (so_curr_xi s) (so_Ua s *m a),
      xi_med s a i ord0 = (so_Ua s *m a) r ord0,
      xi_med s (a - abar) = xi_med s a - xi_med s abar &
      let U := mc_rows (so_curr_xi s) (so_Ua s) in
      (U *m Q *m U^T) i i = (so_Ua s *m Q *m (so_Ua s)^T) r r].
Proof. exact: output_mapping. Qed.

End Mapping.

(* non-vacuity: a concrete one-dimensional system with two observed periods (T = P = Z = H = 1, unit
   variances, any data y1 y2, over any real field) meets every hypothesis used above *)
Example C08_hypotheses_satisfiable (y1 y2 : F) :
  let ps := [:: ex_period flog flog2pi y1; ex_period flog flog2pi y2] in
  let Q : 'M[F]_1 := 1%:M in
  [/\ is_sym Q, all_ok ps & all_unit (@kf_run M 1 1 0 Q ps)].
Proof. exact: ex_hypotheses. Qed.

End C08.

Print Assumptions C08_smooth_alt.
Print Assumptions C08_smooth_is_simulation.
Print Assumptions C08_smooth_reproduces_data.
Print Assumptions C08_update_reproduces_data.
Print Assumptions C08_deviation_commutes.
Print Assumptions C08_unknown_init_is_rerun.
Print Assumptions C08_unknown_init_normal_equations.
Print Assumptions C08_observed_rows.
Print Assumptions C08_generated_periods_ok.
Print Assumptions C08_output_mapping.

(* ---- round 4: the model OBJECT as a state machine (model/KalmanSession.v; proofs/KalmanSessionProofs.v) ----
   A model is a list of variants (values, solution with its two memo lists of expansion matrices); operations
   assign / solve / alter_num_variants / kalman_filter (both modes) / simulate.  `arun` is the specification
   machine: it stores no solution and no cache, and answers a call with a function of the variant's current
   values, the values it was last solved for, the mode and the variant's data column only.  The black boxes
   (assign1, solve1, devsol, expand, kf, sim) are arbitrary functions. *)
From Verif.model Require KalmanSession.
From Verif.proofs Require KalmanSessionProofs.

(* variant pointwise: output k of a filter / simulate call on a model with any number of variants is the output of
   the same call on the single-variant model made of variant k, with data column k *)
Theorem C08_call_variant_pointwise (P S E D O : Type) (devsol : S -> S) (expand : bool -> S -> nat -> E)
    (fwd_of : D -> option nat) (kf sim : S -> P -> list E -> D -> O)
    (b dev : bool) (vs : list (KalmanSession.variant P S E)) (ds : list D) (dd : D) (k : nat)
    (dflt : KalmanSession.variant P S E) :
  lt k (length vs) ->
  List.nth k (List.map snd (KalmanSession.call_model P S E D O devsol expand fwd_of kf sim b dev vs ds dd)) None
  = List.nth 0%nat (List.map snd (KalmanSession.call_model P S E D O devsol expand fwd_of kf sim b dev (cons (List.nth k vs dflt) nil)
                                 (cons (KalmanSession.etl ds dd k) nil) dd)) None.
Proof. exact (KalmanSessionProofs.call_pointwise P S E D O devsol expand fwd_of kf sim b dev vs ds dd k dflt). Qed.

(* every session started on a freshly built and solved model returns what the specification machine returns *)
Theorem C08_session_from_fresh_refines (P X S E D O : Type) (assign1 : X -> P -> P) (solve1 : P -> S) (devsol : S -> S)
    (expand : bool -> S -> nat -> E) (fwd_of : D -> option nat) (kf sim : S -> P -> list E -> D -> O)
    (ops : list (KalmanSession.op X D)) (p : P) :
  fst (KalmanSession.run P X S E D O assign1 solve1 devsol expand fwd_of kf sim ops (KalmanSession.fresh P S E solve1 p))
  = fst (KalmanSession.arun P X S E D O assign1 solve1 devsol expand fwd_of kf sim ops (cons (KalmanSession.mkAv P p (Some p)) nil)).
Proof. exact (KalmanSessionProofs.session_from_fresh_refines P X S E D O assign1 solve1 devsol expand fwd_of kf sim ops p). Qed.

Print Assumptions C08_call_variant_pointwise.
Print Assumptions C08_session_from_fresh_refines.

(* Round 5: the measurement block of the solution (fords/solutions.py: _solve_measurement_equations, REGENERATED from the
   source into gen/MeasBlockGen.v by translator/measblock.py).  For every dimension and every invertible Jacobian F0 of
   the measurement equations w.r.t. the measurement variables (not assumed diagonal or symmetric), the (Z, H, D) the code
   computes make the observation equation  y = Z xi + D + H w  used by the filter EQUIVALENT to the model's linearised
   measurement equations  F0 y + G0 xi + Hc + J0 w = 0. *)
From Verif.gen Require MeasBlockGen.
From Verif.proofs Require MeasBlockProofs.
Theorem C08_measurement_block_solves (K : fieldType) (flog0 : K -> K) (flog2pi0 : K) (ny nxi nw0 na : nat)
    (F0 : 'M[K]_ny) (G0 : 'M[K]_(ny, nxi)) (J0 : 'M[K]_(ny, nw0)) (Hc : 'cV[K]_ny) (Ua : 'M[K]_(nxi, na)) :
  F0 \in unitmx ->
  forall (y : 'cV[K]_ny) (xi : 'cV[K]_nxi) (w : 'cV[K]_nw0),
    (F0 *m y + G0 *m xi + Hc + J0 *m w = 0) <->
    (y = @MeasBlockGen.meas_Z (MC flog0 flog2pi0) ny nxi nw0 na F0 G0 J0 Hc Ua *m xi
         + @MeasBlockGen.meas_D (MC flog0 flog2pi0) ny nxi nw0 na F0 G0 J0 Hc Ua
         + @MeasBlockGen.meas_H (MC flog0 flog2pi0) ny nxi nw0 na F0 G0 J0 Hc Ua *m w).
Proof. exact (@MeasBlockProofs.meas_block_solves K flog0 flog2pi0 ny nxi nw0 na F0 G0 J0 Hc Ua). Qed.

Print Assumptions C08_measurement_block_solves.
