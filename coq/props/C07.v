(* C07  Simulation plans hit exogenized points exactly; swaps invert a simulation.
   Only restatements: every proof is `exact <lemma>` of lib/PlanRegs.v (plan bookkeeping), lib/PlanStacked.v
   (method stacked_time, on the frames / wrt_spots model of C06) or proofs/PlansProofs.v (method first_order, on the
   Kalman model of C03/C08).

   The models: model/Plans.v
     Part A  the four registers of a SimulationPlan of a Simultaneous model as a state machine over the history of
             exogenize_* / endogenize_* / swap_* calls (names and periods resolved and validated as the code does,
             raising calls leave the registers as they are), and the views the simulators read;
     Part B  _simulate_conditional: the Kalman smoother of model/Kalman.v run on the state
             [xi; endogenized anticipated shocks] with Z selecting the exogenized rows, H = 0, D = 0, zero initial MSE
             on xi, shock variances std^2 on the endogenized cells and 0 elsewhere (aug_period, cond_run), the
             transition of the augmented block through _generate_R (gen_R), the write-back of _store_smooth.
   The same Part B text is evaluated in 2^-384 fixed point inside the frame loop (lib/PlansCase.v) and compared with
   Simultaneous.simulate(..., plan=..., method="first_order") by harness/C07.py; Part A is compared exactly. *)

(* ====================================================================================================== *)
(* 1. plan bookkeeping (any history of calls)                                                              *)
(* ====================================================================================================== *)
From Coq Require Import List Bool Arith ZArith.
From Verif Require Import lib.MatOps model.Kalman model.Plans lib.PlanRegs.
Import ListNotations.

(* 1a. the state machine invariant: after ANY history of calls on a well-formed plan the plan is well-formed (every
       register row has one entry per period), has the same span and the same names, and every register point holds
       what the elementary writes of the history leave there: the last one covering the point wins *)
Theorem C07_history_invariant : forall (cs : list call) (p : plan), wf_plan p ->
  let p' := fst (apply_calls p cs) in
  wf_plan p' /\ same_shape p p' /\
  (forall r n k, point p' r n k = after_writes r n k (point p r n k) (flat_map (ewrites_of_call p) cs)).
Proof. exact apply_calls_spec. Qed.
Print Assumptions C07_history_invariant.

(* 1b. on a fresh SimulationPlan(model, span): a point is None unless some valid call covered it, and then it holds
       the status of the last such call; calls with names outside the register or dates outside the span write
       nothing (swap_* keeps the writes made before the failing one) *)
Theorem C07_registers_last_write_wins : forall start nper nvar nshock cs r n k,
  let p0 := new_plan start nper nvar nshock in
  point (fst (apply_calls p0 cs)) r n k = after_writes r n k SNone (flat_map (ewrites_of_call p0) cs).
Proof. exact registers_last_write_wins. Qed.
Print Assumptions C07_registers_last_write_wins.

(* 1c. one validated write changes exactly the points (name in names) x (period in periods) of its register *)
Theorem C07_write_changes_covered_points : forall p r dates names v, wf_plan p ->
  let p' := fst (write_to_register p r dates names v) in
  wf_plan p' /\ same_shape p p' /\
  (forall r' n k, point p' r' n k =
     match ew_of p r dates names v with Some w => apply_ew r' n k (point p r' n k) w | None => point p r' n k end).
Proof. exact write_to_register_spec. Qed.
Print Assumptions C07_write_changes_covered_points.

(* 1d. the views: get_register_as_bool_array (what both simulators read), is_empty,
       any_endogenized_*_except_start (decides frame splitting), get_<register>(), get_<register>_in_period *)
Theorem C07_bool_array_view : forall p r names periods i j, i < length names -> j < length periods ->
  nth j (nth i (bool_array p r names periods) []) false =
  let d := nth j periods 0%Z in
  if in_span p d then status_bool (point p r (nth i names 0) (Z.to_nat (d - pl_start p))) else false.
Proof. exact bool_array_spec. Qed.
Print Assumptions C07_bool_array_view.

Theorem C07_is_empty_view : forall p,
  plan_is_empty p = true <-> forall r n k, is_active (point p r n k) = false.
Proof. exact plan_is_empty_spec. Qed.
Print Assumptions C07_is_empty_view.

Theorem C07_any_except_start_view : forall p r,
  any_except_start p r = true <-> exists n k, is_active (point p r n (S k)) = true.
Proof. exact any_except_start_spec. Qed.
Print Assumptions C07_any_except_start_view.

Theorem C07_registered_periods_view : forall p r n d, n < length (get_register p r) ->
  In d (nth n (registered_periods p r) []) <->
  exists k, k < length (nth n (get_register p r) []) /\ d = (pl_start p + Z.of_nat k)%Z /\ is_active (point p r n k) = true.
Proof. exact registered_periods_spec. Qed.
Print Assumptions C07_registered_periods_view.

Theorem C07_names_in_period_view : forall p r d n,
  In n (names_in_period p r d) <->
  n < length (get_register p r) /\ status_bool (point p r n (Z.to_nat (d - pl_start p))) = true.
Proof. exact names_in_period_spec. Qed.
Print Assumptions C07_names_in_period_view.

(* 1e. the boolean incidence arrays the simulators (fords/simulators.py, stacked_time/simulators.py) and the frame
       splitter read, over ANY history of calls on a fresh plan: an entry is True iff its period is in the base span and
       the LAST elementary write covering (name, period) had status=True; points switched off by status=False read
       False like points never written.  The element formula is the one in the source (gen/PlanLoopGen.v, regenerated
       on every run from get_register_as_bool_array and _is_active_status) *)
From Verif Require Import gen.PlanLoopGen proofs.PlanLoopProofs.

Theorem C07_bool_array_element_is_source_formula : forall p row d,
  point_bool p row d
  = gen_point_value status_bool st_is_none st_is_true st_is_false (negb (in_span p d))
                    (nth (Z.to_nat (d - pl_start p)) row SNone).
Proof. exact point_bool_generated. Qed.
Print Assumptions C07_bool_array_element_is_source_formula.

Theorem C07_is_active_is_source_formula : forall s,
  is_active s = gen_is_active status_bool st_is_none st_is_true st_is_false s.
Proof. exact is_active_generated. Qed.
Print Assumptions C07_is_active_is_source_formula.

Theorem C07_bool_array_last_write_wins : forall start nper nvar nshock cs r names periods i j,
  i < length names -> j < length periods ->
  let p0 := new_plan start nper nvar nshock in
  let p := fst (apply_calls p0 cs) in
  let d := nth j periods 0%Z in
  nth j (nth i (bool_array p r names periods) []) false = true <->
  in_span p0 d = true /\
  after_writes r (nth i names 0) (Z.to_nat (d - start)) SNone (flat_map (ewrites_of_call p0) cs) = STrue.
Proof. exact bool_array_last_write_wins. Qed.
Print Assumptions C07_bool_array_last_write_wins.

Theorem C07_switched_off_reads_false : forall start nper nvar nshock cs r names periods i j,
  i < length names -> j < length periods ->
  let p0 := new_plan start nper nvar nshock in
  after_writes r (nth i names 0) (Z.to_nat (nth j periods 0%Z - start)) SNone (flat_map (ewrites_of_call p0) cs) <> STrue ->
  nth j (nth i (bool_array (fst (apply_calls p0 cs)) r names periods) []) false = false.
Proof. exact switched_off_reads_false. Qed.
Print Assumptions C07_switched_off_reads_false.

(* ====================================================================================================== *)
(* 1'. the loop over variants of Simultaneous.simulate (model/SimVariants.v over gen/PlanLoopGen.v)         *)
(* ====================================================================================================== *)
From Verif Require Import model.Variants model.SimVariants.

(* variant k of the result of simulate(...) on a model with any number of variants and a databox with any number of
   columns = the one-variant simulation (sim1: create_frames, initial guess, frame loop; any simulator) of model
   variant k, reading the exogenized values from, and working on, variant k of the input data; etl = exhaust_then_last *)
Theorem C07_variant_loop_pointwise : forall (MV DS PL : Type) (dm : MV) (dd : DS) (sim1 : MV -> PL -> DS -> DS -> DS)
    nv ms pl ds k, k < nv ->
  nth k (simulate_variants MV DS PL dm dd sim1 nv ms pl ds) dd = sim1 (etl MV ms dm k) pl (etl DS ds dd k) (etl DS ds dd k).
Proof. exact variant_pointwise. Qed.
Print Assumptions C07_variant_loop_pointwise.

Theorem C07_variant_equals_single_variant_call : forall (MV DS PL : Type) (dm : MV) (dd : DS) (sim1 : MV -> PL -> DS -> DS -> DS)
    nv ms pl ds k, k < nv ->
  nth k (simulate_variants MV DS PL dm dd sim1 nv ms pl ds) dd
  = nth 0 (simulate_variants MV DS PL dm dd sim1 1 [etl MV ms dm k] pl [etl DS ds dd k]) dd.
Proof. exact variant_equals_singleton. Qed.
Print Assumptions C07_variant_equals_single_variant_call.

Theorem C07_other_variants_irrelevant : forall (MV DS PL : Type) (dm : MV) (dd : DS) (sim1 : MV -> PL -> DS -> DS -> DS)
    nv ms ms' pl ds ds' k, k < nv ->
  etl MV ms dm k = etl MV ms' dm k -> etl DS ds dd k = etl DS ds' dd k ->
  nth k (simulate_variants MV DS PL dm dd sim1 nv ms pl ds) dd = nth k (simulate_variants MV DS PL dm dd sim1 nv ms' pl ds') dd.
Proof. exact other_variants_irrelevant. Qed.
Print Assumptions C07_other_variants_irrelevant.

(* the clause "every exogenized variable equals its input value at every exogenized date" for every variant: given
   that the one-variant simulator leaves the values of ITS input_data_array in the exogenized cells (3a for
   first_order, 2b for stacked_time), variant k of the result carries variant k's input values there *)
Theorem C07_every_variant_hits_its_own_input : forall (MV DS PL : Type) (dm : MV) (dd : DS)
    (sim1 : MV -> PL -> DS -> DS -> DS) (cell val : Type) (get : DS -> cell -> val) (exogenized : PL -> cell -> bool),
  (forall m pl input work c, exogenized pl c = true -> get (sim1 m pl input work) c = get input c) ->
  forall nv ms pl ds k c, k < nv -> k < length ds -> exogenized pl c = true ->
  get (nth k (simulate_variants MV DS PL dm dd sim1 nv ms pl ds) dd) c = get (nth k ds dd) c.
Proof. exact every_variant_hits_its_own_input. Qed.
Print Assumptions C07_every_variant_hits_its_own_input.

(* ====================================================================================================== *)
(* 2. method stacked_time: swapping unknown cells (model/Stacked.v of C06)                                  *)
(* ====================================================================================================== *)
From Verif Require Import gen.FramesGen model.Frames model.Stacked proofs.StackedProofs lib.PlanStacked.

(* 2a. the unknown cells of a frame = endogenous cells, minus the exogenized, plus the endogenized ones *)
Theorem C07_stacked_swapped_unknowns : forall p cols qids s,
  In s (wrt_spots (Some p) cols qids) <->
  (In s (base_spots cols qids) /\ ~ In s (exogenized_spots p cols)) \/ In s (endogenized_spots p cols).
Proof. exact swapped_unknowns. Qed.
Print Assumptions C07_stacked_swapped_unknowns.

(* 2b. every exogenized cell carries its input value after the frame is simulated, whatever the solver returns *)
Theorem C07_stacked_exogenized_hit : forall (V : Type) (dflt zero : V) S input main f oracle q c,
  In (q, c) (frame_exog S f) ->
  touched (frame_wrt S f) (frame_term S f) q c = false ->
  inb main q c = true ->
  get dflt (fst (step_frame dflt zero S input main f oracle)) q c = get dflt input q c.
Proof. exact @exogenized_untouched. Qed.
Print Assumptions C07_stacked_exogenized_hit.

(* 2c. only endogenized shocks can change: outside the endogenous rows the unknown cells are endogenized cells, and a
       shock cell that is not endogenized in the frame keeps its value *)
Theorem C07_stacked_shock_unknowns_are_endogenized : forall p cols qids q c,
  ~ In q qids -> In (q, c) (wrt_spots (Some p) cols qids) -> In (q, c) (endogenized_spots p cols).
Proof. exact shock_unknowns_are_endogenized. Qed.
Print Assumptions C07_stacked_shock_unknowns_are_endogenized.

Theorem C07_stacked_shock_cell_kept : forall (V : Type) (dflt : V) pre oracle p cols qids term q c,
  ~ In q qids ->
  match term with Some t => ~ In q (t_curr_xi_qids t) /\ ~ In q (t_logly t) | None => True end ->
  ~ In (q, c) (endogenized_spots p cols) ->
  get dflt (frame_after dflt pre oracle (wrt_spots (Some p) cols qids) term) q c = get dflt pre q c.
Proof. exact @shock_cell_kept. Qed.
Print Assumptions C07_stacked_shock_cell_kept.

(* 2d. "still satisfies the equations" and "swap inverts" for stacked_time are C06_stacked_zero_iff_all_zero (a frame
       that passes the solver's test satisfies every equation in every column, on the swapped unknowns) and
       C06_linear_agrees (a non-singular stacked Jacobian has one zero: the path it was generated from); they are
       stated over the reals in props/C06.v and are not repeated here. *)

(* ====================================================================================================== *)
(* 3. method first_order: conditional simulation = Kalman smoother with noiseless observations             *)
(* ====================================================================================================== *)
From mathcomp Require Import all_ssreflect all_algebra.
From Verif.lib Require Import MatMC MatLemmas.
From Verif.proofs Require Import KalmanProofs SmootherProofs PlansProofs.
From Verif.lib Require Import PlansFord.
From Verif.model Require Ford.
From Verif.proofs Require FordProofs FordSimProofs.
Set Implicit Arguments.
Unset Strict Implicit.
Import GRing.Theory.
Local Open Scope ring_scope.

Section C07.
(* any real field; any sizes: n = length of the transition vector, nu transition shocks, nw measurement shocks;
   any positions curr of the current-dated variables in the transition vector *)
Variable F : realFieldType.
Variables (flog : F -> F) (flog2pi : F).
Notation M := (MC flog flog2pi).
Variables n nu nw : nat.
Variable curr : seq nat.
(* any first-order solution (T, P, K), any expansion Rx[k] of the anticipated shocks, any input anticipated shocks vs
   (one column per simulated column), any incidence inc of the endogenized anticipated cells (date-major),
   any initial condition a0, any standard deviations, any list of simulated columns cols (masks of exogenized
   variables, their input values, std of the endogenized unanticipated shocks (0 elsewhere), input shocks) *)
Variable s : csys M n nu.
Variable Rx : nat -> 'M[F]_(n, nu).
Variable vs : seq 'cV[F]_nu.
Variable inc : incidence.
Variables (a0 : 'cV[F]_n) (std_v : seq F) (cols : seq (ccol M nu nw curr)).

Notation l := (run_l s Rx vs inc a0 std_v cols).         (* = cond_run ...: the smoothed periods *)
Notation fs := (run_fs s Rx vs inc a0 std_v cols).       (* the forward pass *)
Notation oxi := (@out_xi M n nw inc).
Notation ocurr := (@out_curr M n nw curr inc).
Notation ovs := (@out_vs M n nu nw vs inc).
Notation outu := (@out_u F flog flog2pi n nu nw inc).

(* 3a. exogenized_hit: every exogenized variable equals its input value in every exogenized column (corollary of
       C08_smooth_reproduces_data with H = 0), provided every prediction MSE matrix F_t is invertible *)
Theorem C07_exogenized_hit : all_unit fs ->
  pall (fun c x => forall k : 'I_(length curr), nth false (c_mask c) k -> ocurr x k ord0 = c_target c k ord0) cols l.
Proof. exact: run_hits. Qed.

(* ... the value written for the k-th current-dated variable is its entry of the smoothed transition vector *)
Theorem C07_stored_value_is_transition_entry : forall (x : sper M (n + nv_of inc) nw) (k : 'I_(length curr)) (r : 'I_n),
  nth 0%N curr k = r -> ocurr x k ord0 = oxi x r ord0.
Proof. exact: ocurr_entry. Qed.

(* 3b. only_endogenized_change: a transition shock whose std in the column is 0 (not endogenized there) keeps its input
       value, measurement shocks keep their input values, and the anticipated shocks change only on the incidence *)
Theorem C07_only_endogenized_change : size vs = size inc ->
  pall (fun c x => (forall i : 'I_nu, nth 0 (c_std_u c) i = 0 -> outu x i ord0 = c_u0 c i ord0)
                   /\ s_w (so x) = c_w0 c) cols l
  /\ (forall k (j : 'I_nu), ~~ nth false (nth [::] inc k) j -> nth 0 (ovs l) k j ord0 = nth 0 vs k j ord0).
Proof. exact: run_changes_only_endogenized. Qed.

(* 3c. still_a_simulation: the returned transition vectors are the ordinary first-order simulation (simulate_flat:
       xi_t = T xi_{t-1} + K + P u_t + sum_{s>=t} Rx[s-t] v_s, the recursion C01 proves to satisfy the model equations)
       of the returned shocks from the given initial condition *)
Theorem C07_still_a_simulation : size vs = size inc ->
  [seq oxi x | x <- l] = flat_path s (@ant_impact M n nu Rx (ovs l)) 0 a0 [seq outu x | x <- l].
Proof. exact: run_is_simulation. Qed.

(* ... which rests on: the transition block _generate_R builds for the augmented state is the anticipated impact of
       the endogenized values spread over their (shock, date) cells *)
Theorem C07_generate_R_is_anticipated_impact : forall t i (ic : incidence) (v : 'cV[F]_(nv_of ic)),
  @gen_R M n nu Rx t i ic *m v = @imp_sum M n nu Rx t i (@dv_list M nu ic v).
Proof. exact: gen_R_mul. Qed.

(* 3d. swap_inverts: if the inputs off the endogenized cells are those of an ordinary simulation driven by ustar
       (unanticipated) and vs + spread(vstar) (anticipated), the targets are that simulation's values, and the impact
       map from the endogenized cells to the exogenized cells is non-singular, then the conditional simulation
       returns the driving shocks and the whole path *)
Theorem C07_swap_inverts : forall (ustar : seq 'cV[F]_nu) (vstar : 'cV[F]_(nv_of inc)),
  size vs = size inc -> size cols = size inc -> size ustar = size cols ->
  all_unit fs -> impact_nonsingular s Rx inc cols ->
  pall2 (fun c (u : 'cV[F]_nu) => forall i : 'I_nu, nth 0 (c_std_u c) i = 0 -> u i ord0 = c_u0 c i ord0) cols ustar ->
  let vsstar := @add_cols M nu vs (@dv_list M nu inc vstar) in
  let xistar := flat_path s (@ant_impact M n nu Rx vsstar) 0 a0 ustar in
  pall2 (fun c (xi : 'cV[F]_n) => mc_sel (c_mask c) (c_target c) = at_targets c xi) cols xistar ->
  [/\ [seq outu x | x <- l] = ustar, ovs l = vsstar & [seq oxi x | x <- l] = xistar].
Proof. exact: run_inverts_swap. Qed.

(* what all_unit asks of the first simulated column: the exogenized rows of R Sigma_v R' + P Sigma_u P' form an
   invertible matrix (R = _generate_R(0); Sigma_v, Sigma_u = variances of the endogenized anticipated / unanticipated
   shocks): some endogenized shock must move every exogenized variable of that column *)
Theorem C07_first_column_F : forall (c : ccol M nu nw curr),
  let Zs := mc_sel (c_mask c) (Z_xi M n curr) in
  f_F (@kf_step M (n + nv_of inc) nw (@aug_init_med M n inc a0) (@aug_init_mse M n inc std_v)
                (@aug_period M n nu nw curr s Rx vs inc 0 c))
  = Zs *m (@gen_R M n nu Rx 0 0 inc *m cov_from_std M (nv_of inc) std_v *m (@gen_R M n nu Rx 0 0 inc)^T
           + cs_P s *m cov_from_std M nu (c_std_u c) *m (cs_P s)^T) *m Zs^T.
Proof. exact: first_F. Qed.

End C07.

(* 3e. ... "hence by C01 the model equations": with the expansion Rx[k] the code uses (Rx[0] = P, Rx[k] = -X J^(k-1) Ru),
       the returned transition vectors are exactly the recursion model/Ford.v::flat_run with
       model/Ford.v::anticipated_impacts -- the model of simulate_flat about which C01_square_solves_system proves that
       every simulated period satisfies the unsolved model equations -- driven by the RETURNED shocks *)
Theorem C07_result_is_C01_simulation :
  forall (F : realFieldType) (flog : F -> F) (flog2pi : F) (n nu nf nw : nat) (curr : seq nat)
         (T : 'M[F]_n) (P : 'M[F]_(n, nu)) (K : 'cV[F]_n) (X : 'M[F]_(n, nf)) (J : 'M[F]_nf) (Ru : 'M[F]_(nf, nu))
         (vs : seq 'cV[F]_nu) (inc : incidence) (a0 : 'cV[F]_n) (std_v : seq F)
         (cols : seq (ccol (MC flog flog2pi) nu nw curr)),
  let M := MC flog flog2pi in
  let s := @mkCsys M n nu T P K in
  let Rx := @expand_at M n nu nf P X J Ru in
  size vs = size inc -> size cols = size inc ->
  let l := run_l s Rx vs inc a0 std_v cols in
  [seq @out_xi M n nw inc x | x <- l]
  = @Ford.flat_run (FordProofs.MCOps F) n nu T K P a0 [seq @out_u F flog flog2pi n nu nw inc x | x <- l]
      (@Ford.anticipated_impacts (FordProofs.MCOps F) n nf nu P X J Ru (@out_vs M n nu nw vs inc l)).
Proof. move=> F flog flog2pi n nu nf nw curr T P K X J Ru vs inc a0 std_v cols; exact: run_is_C01_simulation. Qed.

(* ... the anticipated impact of 3c is the one C01 characterises: P v_t - X a_t, a_t = sum_{k>=1} J^(k-1) Ru v_{t+k} *)
Theorem C07_anticipated_impact_is_C01 :
  forall (F : realFieldType) (flog : F -> F) (flog2pi : F) (n nu nf : nat)
         (P : 'M[F]_(n, nu)) (X : 'M[F]_(n, nf)) (J : 'M[F]_nf) (Ru : 'M[F]_(nf, nu)) (vs : seq 'cV[F]_nu) (t : nat),
  (t < size vs)%N ->
  @ant_impact (MC flog flog2pi) n nu (@expand_at (MC flog flog2pi) n nu nf P X J Ru) vs t
  = P *m nth 0 vs t - X *m @FordSimProofs.ant F nf nu J Ru (drop t.+1 vs).
Proof. move=> F flog flog2pi n nu nf P X J Ru vs t; exact: ant_impact_is_C01. Qed.

(* non-vacuity: x_t = rho x_{t-1} + e_t over any real field, one simulated period in which x is exogenized (any
   target tau) and e endogenized: every hypothesis of 3a-3d holds (sizes, invertible F, non-singular impact map) *)
Example C07_hypotheses_satisfiable (F : realFieldType) (flog : F -> F) (flog2pi rho tau : F) :
  let cols := [:: ex_col flog flog2pi tau] in
  [/\ size (ex_vs F) = size ex_inc, size cols = size ex_inc,
      all_unit (run_fs (ex_s flog flog2pi rho) (ex_Rx F) (ex_vs F) ex_inc 0 [::] cols) &
      impact_nonsingular (ex_s flog flog2pi rho) (ex_Rx F) ex_inc cols].
Proof. exact: ex_hypotheses. Qed.

Print Assumptions C07_exogenized_hit.
Print Assumptions C07_stored_value_is_transition_entry.
Print Assumptions C07_only_endogenized_change.
Print Assumptions C07_still_a_simulation.
Print Assumptions C07_generate_R_is_anticipated_impact.
Print Assumptions C07_swap_inverts.
Print Assumptions C07_first_column_F.
Print Assumptions C07_result_is_C01_simulation.
Print Assumptions C07_anticipated_impact_is_C01.
