(* C20  Copies, pickles and parameter variants are independent, equivalent models.
   Only restatements: every proof is `exact <lemma of proofs/{Heap,Variants,Portable}Proofs.v>`.

   What is a theorem here
     1. independence: on a heap in which the verified checker finds no mutable object reachable from both
        roots, no sequence (and no interleaving) of in-place modifications and allocations by the holder of
        one root changes anything observable from the other root;
     2. variants: every history of assign (exhaust-then-last broadcasting) / per-variant operations /
        alter_num_variants acts on variant k exactly as the projected history acts on a single-variant model;
     3. the portable codec (names, kinds, log status, descriptions, equations, flags, context names,
        per-variant level/change values) round-trips.
   What is NOT a theorem (checked differentially by harness/C20.py against the same implementation):
     "a copy / pickle behaves identically in steady state, solution, simulation" and that the real
     solve/steady/simulate are per-variant functions; the real object graphs are extracted by the harness
     (mutability by type) and fed to the checker of part 1. *)
From Coq Require Import ZArith List Bool PArith.
From Verif Require Import gen.PortableGen model.Heap model.Variants model.Portable
     proofs.HeapProofs proofs.VariantsProofs proofs.PortableProofs.
Import ListNotations.

(* ------------------------------------------------------------------ 1. independence *)

Theorem C20_checker_sound : forall (m : hmap) (r1 r2 : loc),
  no_shared_mutable m r1 r2 = true ->
  forall g' R', steps (sem m, [r1]) (g', R') ->
    (forall l, reach (sem m) r2 l -> g' l = sem m l) /\
    (forall n, unfold n g' r2 = unfold n (sem m) r2) /\
    (forall T (obs : heap -> loc -> T), local_obs obs -> obs g' r2 = obs (sem m) r2).
Proof. exact checker_sound. Qed.
Print Assumptions C20_checker_sound.

Theorem C20_checker_sound_symmetric : forall (m : hmap) (r1 r2 : loc),
  no_shared_mutable m r1 r2 = true ->
  forall g' R', steps (sem m, [r2]) (g', R') ->
    (forall l, reach (sem m) r1 l -> g' l = sem m l) /\
    (forall n, unfold n g' r1 = unfold n (sem m) r1) /\
    (forall T (obs : heap -> loc -> T), local_obs obs -> obs g' r1 = obs (sem m) r1).
Proof. exact checker_sound_sym. Qed.
Print Assumptions C20_checker_sound_symmetric.

(* all interleavings of the two parties *)
Theorem C20_checker_sound_interleaved : forall (m : hmap) (r1 r2 : loc),
  no_shared_mutable m r1 r2 = true ->
  forall g R1 R2, asteps (sem m, [r1], [r2]) (g, R1, R2) ->
    (forall g' R1', step (g, R1) (g', R1') ->
       forall r, In r R2 -> forall T (obs : heap -> loc -> T), local_obs obs -> obs g' r = obs g r) /\
    (forall g' R2', step (g, R2) (g', R2') ->
       forall r, In r R1 -> forall T (obs : heap -> loc -> T), local_obs obs -> obs g' r = obs g r).
Proof. exact checker_sound_interleaved. Qed.
Print Assumptions C20_checker_sound_interleaved.

(* projection (non-interference in the classical sense): after any interleaving, each party sees exactly what it
   would see had it run alone *)
Theorem C20_checker_sound_projection : forall (m : hmap) (r1 r2 : loc),
  no_shared_mutable m r1 r2 = true ->
  forall g R1 R2, asteps (sem m, [r1], [r2]) (g, R1, R2) ->
  (exists h, steps (sem m, [r2]) (h, R2) /\
             (forall x, acc g R2 x -> h x = g x) /\
             (forall r, In r R2 -> forall T (obs : heap -> loc -> T), local_obs obs -> obs h r = obs g r)) /\
  (exists h, steps (sem m, [r1]) (h, R1) /\
             (forall x, acc g R1 x -> h x = g x) /\
             (forall r, In r R1 -> forall T (obs : heap -> loc -> T), local_obs obs -> obs h r = obs g r)).
Proof. exact checker_sound_projection. Qed.
Print Assumptions C20_checker_sound_projection.

(* unfolding the graph to any depth is a local observation *)
Theorem C20_unfold_is_local : forall n, local_obs (unfold n).
Proof. exact unfold_local. Qed.
Print Assumptions C20_unfold_is_local.

(* the guard cannot be dropped: a shared mutable object is written through; and it is satisfiable *)
Theorem C20_shared_mutable_interferes :
  no_shared_mutable ex_shared 1%positive 2%positive = false /\
  exists g' R', steps (sem ex_shared, [1%positive]) (g', R') /\
                unfold 2 g' 2%positive <> unfold 2 (sem ex_shared) 2%positive.
Proof. exact shared_mutable_interferes. Qed.
Print Assumptions C20_shared_mutable_interferes.

Theorem C20_checker_nonvacuous :
  no_shared_mutable ex_copy 1%positive 2%positive = true /\
  exists g' R', step (sem ex_copy, [1%positive]) (g', R') /\ g' 3%positive <> sem ex_copy 3%positive.
Proof. exact (conj ex_copy_passes ex_copy_has_write). Qed.
Print Assumptions C20_checker_nonvacuous.

(* ------------------------------------------------------------------ 2. variants *)

(* broadcasting: zip(variants, exhaust_then_last(xs, d)) gives variant k the item xs[k], else the last item,
   else the default *)
Theorem C20_broadcast_exhaust_then_last : forall (V X : Type) (dv : V) (g : X -> V -> V) vs xs d k,
  k < length vs ->
  nth k (zip_stream V X g vs xs d) dv = g (etl X xs d k) (nth k vs dv) /\
  (k < length xs -> etl X xs d k = nth k xs d) /\
  (length xs <= k -> etl X xs d k = last xs d).
Proof.
  intros V X dv g vs xs d k H.
  exact (conj (zip_stream_nth V X dv g vs xs d k H) (conj (etl_in_range X xs d k) (etl_beyond X xs d k))).
Qed.
Print Assumptions C20_broadcast_exhaust_then_last.

(* alter_num_variants: n variants afterwards; variant k is old variant min(k, old-1): shrinking truncates,
   expanding repeats the last; it fails exactly for n = 0 on a non-empty model (or growing an empty one) *)
Theorem C20_alter_num_variants : forall (V : Type) (dv : V) n vs,
  (forall out, alter V dv n vs = Some out ->
     length out = n /\ forall k, k < n -> nth k out dv = nth (Nat.min k (length vs - 1)) vs dv) /\
  (alter V dv n vs = None <-> (n = 0 /\ vs <> []) \/ (vs = [] /\ 0 < n)) /\
  alter V dv (length vs) vs = Some vs.
Proof.
  intros V dv n vs. split; [ | split].
  - intros out H. split; [exact (alter_length V dv n vs out H) | intros k Hk; exact (alter_nth V dv n vs out k H Hk)].
  - exact (alter_fails_iff V dv n vs).
  - exact (alter_same V dv vs).
Qed.
Print Assumptions C20_alter_num_variants.

(* variant k after ANY history = its own single-variant history applied to its ancestor *)
Theorem C20_variant_pointwise : forall (I V X : Type) (dv : V) (assign1 : I -> X -> V -> V) i ops vs out k,
  run I V X dv assign1 i ops vs = Some out -> k < length out ->
  anc_run I V X ops (length vs) k < length vs /\
  nth k out dv = fun_run I V X assign1 i ops (length vs) k (nth (anc_run I V X ops (length vs) k) vs dv).
Proof.
  intros I V X dv assign1 i ops vs out k H Hk.
  exact (conj (anc_run_lt I V X dv assign1 i ops vs out k H Hk)
              (variant_pointwise_history I V X dv assign1 i ops vs out k H Hk)).
Qed.
Print Assumptions C20_variant_pointwise.

(* ... which is what a single-variant model computes when it is given variant k's own inputs *)
Theorem C20_variant_equals_singleton : forall (I V X : Type) (dv : V) (assign1 : I -> X -> V -> V) i ops vs out k,
  run I V X dv assign1 i ops vs = Some out -> k < length out ->
  run I V X dv assign1 i (project I V X ops (length vs) k) [nth (anc_run I V X ops (length vs) k) vs dv] = Some [nth k out dv].
Proof. exact variant_equals_singleton. Qed.
Print Assumptions C20_variant_equals_singleton.

(* the property's pipeline: n variants, per-variant parameter values, then steady / solve / ... *)
Theorem C20_variant_k_pipeline : forall (I V X : Type) (dv : V) (assign1 : I -> X -> V -> V)
    i v0 n xs d (fs : list (I -> V -> V)) out k,
  run I V X dv assign1 i (OAlter n :: OAssign xs d :: map OMap fs) [v0] = Some out -> k < n ->
  nth k out dv = fold_left (fun v f => f i v) fs (assign1 i (etl X xs d k) v0).
Proof. exact variant_k_pipeline. Qed.
Print Assumptions C20_variant_k_pipeline.

(* ------------------------------------------------------------------ 3. portable representation *)

Theorem C20_portable_roundtrip : forall (N : Type) (m : mdesc N),
  wf_mdesc N m -> decode N (encode N m) = Some m.
Proof. exact portable_roundtrip. Qed.
Print Assumptions C20_portable_roundtrip.

(* the guard (no empty steady form) is needed by the code's `complement_human or human` *)
Theorem C20_portable_guard_needed : forall N : Type,
  exists e, dec_equation N (enc_equation N e) <> Some e.
Proof. exact equation_roundtrip_needs_guard. Qed.
Print Assumptions C20_portable_guard_needed.

(* quantities are listed kind by kind (every kind exactly once, in the order read from the source by the translator);
   listing again changes nothing and loses nothing *)
Theorem C20_portable_order_stable : forall qs,
  by_kind (by_kind qs) = by_kind qs /\ (forall q, In q (by_kind qs) <-> In q qs) /\
  (forall k, length (filter (qkind_eqb k) all_qkinds) = 1).
Proof. intros qs. exact (conj (by_kind_idempotent qs) (conj (by_kind_same_elements qs) all_qkinds_complete)). Qed.
Print Assumptions C20_portable_order_stable.
