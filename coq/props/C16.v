(* C16  Block decomposition of an incidence matrix is a valid sequential ordering.
   Only restatements: every proof is `exact <lemma of proofs/BlazerProofs.v>`.
   The model (model/Blazer.v) is defined in terms of gen/BlazerGen.v, regenerated from
   incidences/blazer.py, sequentials/main.py and sequentials/_invariants.py on every run.

   Vocabulary (proofs/BlazerProofs.v):
     is_square im n            n rows of n booleans
     has_perfect_matching im   exists a permutation p with im[i][p[i]] = true for every row i
     perm_oracle o             every answer o k key of the argsort oracle is a permutation of the positions
                               of key -- NOT required to sort
     beids bs / bqids bs       concatenation of the eids / qids of the blocks, in block order
     square b                  as many equations as quantities
     Inc im eids qids e q      the equation labelled e involves the quantity labelled q
     block_lower_triangular    an equation of a block involves only quantities of that block and of earlier blocks
     block_matching            the block's equations and quantities can be paired off along incidences
                               (the diagonal block is structurally non-singular) *)
From Coq Require Import List Arith Bool Permutation.
From Verif Require Import gen.BlazerGen model.Blazer proofs.BlazerProofs.
Import ListNotations.

(* 1. blaze: for every size, every square matrix with a perfect matching, every labelling by distinct ids and
      EVERY oracle that returns permutations: blaze does not raise and its blocks partition the equations and
      the quantities (each exactly once), are square, block-lower-triangular and structurally non-singular. *)
Theorem C16_blocks_valid : forall (oracle : oracle_t) (im : bmat) (eids qids : list nat) (n : nat),
  perm_oracle oracle ->
  is_square im n -> length eids = n -> length qids = n -> NoDup eids -> NoDup qids ->
  has_perfect_matching im ->
  exists out, blaze oracle im eids qids = Some out /\
    Permutation (beids (o_blocks out)) eids /\
    Permutation (bqids (o_blocks out)) qids /\
    Forall square (o_blocks out) /\
    block_lower_triangular im eids qids (o_blocks out) /\
    Forall (block_matching im eids qids) (o_blocks out).
Proof. exact blaze_valid. Qed.
Print Assumptions C16_blocks_valid.

(* 2. the recursion of prefetch is modelled with fuel = size of the matrix; that fuel suffices: any larger
      fuel gives the same result, for every incidence relation and all id lists *)
Theorem C16_prefetch_fuel_suffices : forall (inc : nat -> nat -> bool) (f1 f2 : nat) (es qs : list nat),
  msize es qs <= f1 -> msize es qs <= f2 -> prefetch inc f1 es qs = prefetch inc f2 es qs.
Proof. exact prefetch_fuel_irrelevant. Qed.
Print Assumptions C16_prefetch_fuel_suffices.

(* 3. Sequential.sequentialize, for models in which every equation has its own LHS name (which occurs in it):
      a returned order is a permutation of the equations in which every LHS variable used at zero shift has been
      determined by an earlier equation, and the model holds the equations in that order afterwards *)
Theorem C16_sequentialize_causal : forall (M : list eqn) (ord : list nat) (M' : list eqn),
  distinct_lhs M -> lhs_occurs M ->
  sequentialize M = (SeqOk ord, M') ->
  (Permutation ord (seq 0 (length M)) /\ causal_order M ord) /\ M' = permute (0, []) ord M.
Proof. exact sequentialize_sound_now. Qed.
Print Assumptions C16_sequentialize_causal.

(* 4. ... it is complete: whenever some sequential order exists, sequentialize returns one *)
Theorem C16_sequentialize_complete : forall M : list eqn,
  distinct_lhs M -> lhs_occurs M ->
  (exists ord, Permutation ord (seq 0 (length M)) /\ causal_order M ord) ->
  exists ord', fst (sequentialize M) = SeqOk ord'.
Proof. exact sequentialize_complete_now. Qed.
Print Assumptions C16_sequentialize_complete.

(* 5. ... so it raises exactly when no sequential order exists ... *)
Theorem C16_sequentialize_raises_iff : forall M : list eqn,
  distinct_lhs M -> lhs_occurs M ->
  ((exists code, fst (sequentialize M) = SeqErr code) <->
   ~ exists ord, Permutation ord (seq 0 (length M)) /\ causal_order M ord).
Proof. exact sequentialize_raises_iff. Qed.
Print Assumptions C16_sequentialize_raises_iff.

(* 6. ... and then the model is left untouched (any model, any error) *)
Theorem C16_failure_leaves_model : forall (M : list eqn) (code : nat) (M' : list eqn),
  sequentialize M = (SeqErr code, M') -> M' = M.
Proof. exact sequentialize_failure_untouched_now. Qed.
Print Assumptions C16_failure_leaves_model.

(* 6b. Sequential.is_sequential is True exactly when the current order of the equations is causal *)
Theorem C16_is_sequential_iff : forall M : list eqn,
  distinct_lhs M -> (model_is_sequential M = true <-> causal_order M (seq 0 (length M))).
Proof. exact is_sequential_iff. Qed.
Print Assumptions C16_is_sequential_iff.

(* 7. statements 3, 4 and 6 do not depend on whether sequentialize_strictly raises its own error (the current
      source constructs the IrisPieError without raising it; BlazerGen.strict_failure_raises = false): they are
      proved for both behaviours *)
Theorem C16_sequentialize_either_way : forall (raises : bool) (M : list eqn),
  distinct_lhs M -> lhs_occurs M ->
  (forall ord M', sequentialize_gen raises M = (SeqOk ord, M') ->
                  (Permutation ord (seq 0 (length M)) /\ causal_order M ord) /\ M' = permute (0, []) ord M) /\
  ((exists ord, Permutation ord (seq 0 (length M)) /\ causal_order M ord) ->
   exists ord', fst (sequentialize_gen raises M) = SeqOk ord') /\
  (forall code M', sequentialize_gen raises M = (SeqErr code, M') -> M' = M).
Proof. exact sequentialize_either_way. Qed.
Print Assumptions C16_sequentialize_either_way.

(* non-vacuity: a 6x6 matrix with a perfect matching off the diagonal meets the hypotheses of 1; oracles
   meeting the contract exist (a sorting one, the identity, a reversing one); with the sorting oracle the model
   returns the blocks the implementation returns, with the identity oracle coarser but valid ones *)
Example C16_hypotheses_satisfiable :
  (is_square ex_im 6 /\ length ex_eids = 6 /\ length ex_qids = 6 /\ NoDup ex_eids /\ NoDup ex_qids /\
   has_perfect_matching ex_im) /\
  perm_oracle sorting_oracle /\ perm_oracle id_oracle /\ perm_oracle rev_oracle /\
  (option_map o_blocks (blaze sorting_oracle ex_im ex_eids ex_qids)
   = Some [([12], [22]); ([10; 13], [25; 26]); ([11; 15], [23; 24]); ([14], [21])] /\
   option_map o_blocks (blaze id_oracle ex_im ex_eids ex_qids)
   = Some [([12], [22]); ([10; 11; 13; 15], [23; 24; 25; 26]); ([14], [21])]).
Proof. exact (conj ex_hypotheses (conj sorting_oracle_perm (conj id_oracle_perm (conj rev_oracle_perm ex_blaze)))). Qed.

(* non-vacuity for 3-6: a four-equation model that is not in sequential order is reordered; a cycle raises *)
Example C16_sequential_examples :
  (distinct_lhs ex_model /\ lhs_occurs ex_model /\ model_is_sequential ex_model = false) /\
  sequentialize ex_model = (SeqOk [3; 1; 0; 2], [(3, [3]); (1, [1; 3]); (0, [0; 1]); (2, [2; 0; 1])]) /\
  (distinct_lhs ex_cycle /\ lhs_occurs ex_cycle /\ sequentialize ex_cycle = (SeqErr ERR_VALUE, ex_cycle)).
Proof. exact (conj ex_model_hypotheses (conj ex_model_sequentialize ex_cycle_fails)). Qed.
