(* C03 / C08, round 4: the model object as a state machine (model/KalmanSession.v).

   1. session_refines: for EVERY operation history, everything a session returns (filter and simulate calls,
      both modes, any number of variants, any data broadcast) equals what the cache-free, solution-free
      specification machine returns, whose answer to a call is by definition a function of the variant's
      current values, the values it was last solved for, the mode and the variant's data only.
      (=> no dependence on earlier calls: stale solutions / stale memo lists are excluded.)
   2. call_pointwise: output k of a call on a model with any number of variants is the output of the same
      call on the single-variant model made of variant k, with data column k.
   3. solved_is_fresh: in any reachable state, a variant that is solved for its current values answers a
      call exactly as a freshly built, freshly solved single-variant model with those values.
   The only hypothesis about the black boxes is expand_dev-free: none is needed, because the expansion is
   always taken from the level solution (as the code does). *)
From Coq Require Import List Arith Bool Lia.
From Verif Require Import model.KalmanSession.
Import ListNotations.

Section Stream.
Variables A B X : Type.

Lemma zip_stream_length (g : X -> A -> B) vs xs d : length (zip_stream g vs xs d) = length vs.
Proof. revert xs d; induction vs as [|v vs IH]; intros [|x xs] d; cbn; auto. Qed.

Lemma last_cons_default (x : X) xs d : last (x :: xs) d = last xs x.
Proof. revert x d; induction xs as [|y ys IH]; intros x d; [reflexivity|].
  change (last (x :: y :: ys) d) with (last (y :: ys) d). rewrite IH.
  change (last (y :: ys) x) with (last (y :: ys) x). symmetry. apply IH. Qed.

Lemma zip_stream_nth (g : X -> A -> B) vs xs d k (da : A) (db : B) :
  k < length vs -> nth k (zip_stream g vs xs d) db = g (etl xs d k) (nth k vs da).
Proof.
  revert xs d k; induction vs as [|v vs IH]; intros xs d k Hk; [cbn in Hk; lia|].
  destruct xs as [|x xs]; destruct k as [|k]; cbn [zip_stream nth].
  - reflexivity.
  - rewrite IH by (cbn in Hk; lia). unfold etl. destruct k; reflexivity.
  - reflexivity.
  - rewrite IH by (cbn in Hk; lia). unfold etl. cbn [nth]. rewrite last_cons_default. reflexivity.
Qed.

Lemma zip_stream_map_fst {C : Type} (g : X -> A -> B) (f : B -> C) vs xs d :
  map f (zip_stream g vs xs d) = zip_stream (fun x a => f (g x a)) vs xs d.
Proof. revert xs d; induction vs as [|v vs IH]; intros [|x xs] d; cbn; try rewrite IH; auto. Qed.
End Stream.

Lemma F2_length {A B} (R : A -> B -> Prop) l l' : Forall2 R l l' -> length l = length l'.
Proof. induction 1; cbn; auto. Qed.

Lemma Forall2_zip_stream {A A' B B' X : Type} (R : A -> A' -> Prop) (Q : B -> B' -> Prop)
    (g : X -> A -> B) (g' : X -> A' -> B') :
  (forall x a a', R a a' -> Q (g x a) (g' x a')) ->
  forall vs vs', Forall2 R vs vs' -> forall xs d, Forall2 Q (zip_stream g vs xs d) (zip_stream g' vs' xs d).
Proof.
  intros H vs vs' F; induction F as [|a a' vs vs' Ha F IH]; intros [|x xs] d; cbn; constructor; auto.
Qed.

Lemma zip_stream_ext_rel {A A' B X : Type} (R : A -> A' -> Prop) (g : X -> A -> B) (g' : X -> A' -> B) :
  (forall x a a', R a a' -> g x a = g' x a') ->
  forall vs vs', Forall2 R vs vs' -> forall xs d, zip_stream g vs xs d = zip_stream g' vs' xs d.
Proof.
  intros H vs vs' F; induction F as [|a a' vs vs' Ha F IH]; intros [|x xs] d; cbn; try reflexivity;
    (rewrite (H _ _ _ Ha); f_equal; apply IH).
Qed.

Section Session.
Variables P X S E D O : Type.
Variable assign1 : X -> P -> P.
Variable solve1 : P -> S.
Variable devsol : S -> S.
Variable expand : bool -> S -> nat -> E.
Variable fwd_of : D -> option nat.
Variable kf : S -> P -> list E -> D -> O.
Variable sim : S -> P -> list E -> D -> O.

Notation variant := (variant P S E).
Notation avariant := (avariant P).
Notation rel := (rel P S E solve1 expand).
Notation canon := (canon S E expand).
Notation extend := (extend S E expand).
Notation use_cache := (use_cache S E expand).
Notation call_variant := (call_variant P S E D O devsol expand fwd_of kf sim).
Notation call_model := (call_model P S E D O devsol expand fwd_of kf sim).
Notation acall_variant := (acall_variant P S E D O solve1 devsol expand fwd_of kf sim).
Notation spec_out := (spec_out P S E D O solve1 devsol expand fwd_of kf sim).
Notation step := (step P X S E D O assign1 solve1 devsol expand fwd_of kf sim).
Notation astep := (astep P X S E D O assign1 solve1 devsol expand fwd_of kf sim).
Notation run := (run P X S E D O assign1 solve1 devsol expand fwd_of kf sim).
Notation arun := (arun P X S E D O assign1 solve1 devsol expand fwd_of kf sim).
Notation fresh := (fresh P S E solve1).

(* ---- the memo list ---- *)
Lemma canon_nil b s : canon b s [].
Proof. reflexivity. Qed.

Lemma extend_canon b s cache k :
  canon b s cache ->
  canon b s (extend b s cache k) /\ firstn k (extend b s cache k) = map (expand b s) (seq 0 k).
Proof.
  unfold KalmanSession.canon, KalmanSession.extend. intros Hc.
  set (n := length cache) in *.
  assert (Hall : cache ++ map (expand b s) (seq n (k - n)) = map (expand b s) (seq 0 (n + (k - n)))).
  { rewrite seq_app, map_app, <- Hc. reflexivity. }
  rewrite Hall. split.
  - rewrite map_length, seq_length. reflexivity.
  - destruct (le_lt_dec k n) as [Hle|Hlt].
    + replace (n + (k - n)) with (k + (n - k)) by lia.
      rewrite seq_app, map_app, firstn_app, map_length, seq_length.
      replace (k - k) with 0 by lia. rewrite firstn_O, app_nil_r.
      apply firstn_all2. rewrite map_length, seq_length. lia.
    + replace (n + (k - n)) with k by lia.
      apply firstn_all2. rewrite map_length, seq_length. lia.
Qed.

(* ---- one call on one variant ---- *)
Lemma call_variant_refines b dev d (v : variant) (a : avariant) :
  rel v a ->
  rel (fst (call_variant b dev d v)) a /\ snd (call_variant b dev d v) = acall_variant b dev d a.
Proof.
  intros [Hp Hs]. unfold KalmanSession.call_variant, KalmanSession.acall_variant.
  destruct (v_sol _ _ _ v) as [c|] eqn:Ev; destruct (a_solved _ a) as [ps|] eqn:Ea; try contradiction.
  2:{ cbn. split; [split; [assumption|rewrite Ev, Ea; exact I]|reflexivity]. }
  destruct Hs as (Hsol & Hsq & Htri).
  unfold KalmanSession.use_cache, KalmanSession.spec_out.
  destruct (fwd_of d) as [k|]; cbn [fst snd gets_solution option_map v_sol v_par].
  - destruct b; cbn [c_s c_sq c_tri].
    + destruct (extend_canon true _ _ k Htri) as [Hc Hf].
      split; [split; [assumption|cbn; rewrite Ea; auto]|].
      rewrite Hf, Hsol, Hp. destruct dev; reflexivity.
    + destruct (extend_canon false _ _ k Hsq) as [Hc Hf].
      split; [split; [assumption|cbn; rewrite Ea; auto]|].
      rewrite Hf, Hsol, Hp. destruct dev; reflexivity.
  - split; [split; [assumption|cbn; rewrite Ea; auto]|].
    rewrite Hsol, Hp. destruct b, dev; reflexivity.
Qed.

Lemma call_model_refines b dev vs avs ds dd :
  Forall2 rel vs avs ->
  Forall2 rel (map fst (call_model b dev vs ds dd)) avs /\
  map snd (call_model b dev vs ds dd) = zip_stream (acall_variant b dev) avs ds dd.
Proof.
  unfold KalmanSession.call_model. intros F. revert ds dd.
  induction F as [|v a vs avs Hva F IH]; intros ds dd; [split; [constructor|reflexivity]|].
  destruct ds as [|d ds]; cbn [zip_stream map].
  - destruct (call_variant_refines b dev dd v a Hva) as [H1 H2].
    destruct (IH [] dd) as [I1 I2]. split; [constructor; assumption|rewrite H2, I2; reflexivity].
  - destruct (call_variant_refines b dev d v a Hva) as [H1 H2].
    destruct (IH ds d) as [I1 I2]. split; [constructor; assumption|rewrite H2, I2; reflexivity].
Qed.

(* ---- alter ---- *)
Lemma Forall2_last {A B} (R : A -> B -> Prop) l l' d d' :
  Forall2 R l l' -> R d d' -> R (last l d) (last l' d').
Proof. intros F; revert d d'; induction F as [|x y l l' Hxy F IH]; intros d d' Hd; [assumption|].
  destruct F; [assumption|]. apply IH. assumption. Qed.

Lemma Forall2_firstn {A B} (R : A -> B -> Prop) n l l' : Forall2 R l l' -> Forall2 R (firstn n l) (firstn n l').
Proof. intros F; revert n; induction F; intros [|n]; cbn; constructor; auto. Qed.

Lemma Forall2_repeat {A B} (R : A -> B -> Prop) x y n : R x y -> Forall2 R (repeat x n) (repeat y n).
Proof. intros H; induction n; cbn; constructor; auto. Qed.

Lemma alter_refines {A B} (R : A -> B -> Prop) n l l' :
  Forall2 R l l' ->
  match alter n l, alter n l' with
  | Some r, Some r' => Forall2 R r r'
  | None, None => True
  | _, _ => False
  end.
Proof.
  intros F. unfold alter. destruct (n <? 1); [exact I|].
  pose proof (F2_length _ _ _ F) as Hlen.
  destruct F as [|x y l l' Hxy F]; [exact I|].
  rewrite <- Hlen. destruct (n <? length (x :: l)).
  - apply Forall2_firstn. constructor; assumption.
  - apply Forall2_app; [constructor; assumption|].
    apply Forall2_repeat. apply Forall2_last; [constructor; assumption|assumption].
Qed.

(* ---- one operation, a whole session ---- *)
Lemma step_refines o vs avs :
  Forall2 rel vs avs ->
  snd (step o vs) = snd (astep o avs) /\
  match fst (step o vs), fst (astep o avs) with
  | Some r, Some r' => Forall2 rel r r'
  | None, None => True
  | _, _ => False
  end.
Proof.
  intros F. destruct o as [xs d| |n|dev ds dd|dev ds dd]; cbn [step astep KalmanSession.step KalmanSession.astep fst snd].
  - split; [reflexivity|].
    apply (Forall2_zip_stream rel rel); [|assumption].
    intros x v a [Hp Hs]. split; [cbn; rewrite Hp; reflexivity|exact Hs].
  - split; [reflexivity|].
    induction F as [|v a vs avs [Hp Hs] F IH]; cbn; constructor; [|assumption].
    split; [exact Hp|]. cbn. rewrite Hp. repeat split; reflexivity.
  - split; [reflexivity|]. apply alter_refines; assumption.
  - destruct (call_model_refines true dev vs avs ds dd F) as [H1 H2]. split; assumption.
  - destruct (call_model_refines false dev vs avs ds dd F) as [H1 H2]. split; assumption.
Qed.

Theorem session_refines ops : forall vs avs,
  Forall2 rel vs avs ->
  fst (run ops vs) = fst (arun ops avs) /\
  match snd (run ops vs), snd (arun ops avs) with
  | Some r, Some r' => Forall2 rel r r'
  | None, None => True
  | _, _ => False
  end.
Proof.
  induction ops as [|o ops IH]; intros vs avs F; [split; [reflexivity|exact F]|].
  cbn [KalmanSession.run KalmanSession.arun].
  destruct (step_refines o vs avs F) as [Hout Hst].
  destruct (step o vs) as [[r|] out]; destruct (astep o avs) as [[r'|] out']; cbn [fst snd] in *;
    try contradiction; subst out'.
  - destruct (IH r r' Hst) as [H1 H2]. cbn [fst snd]. rewrite H1. split; [reflexivity|assumption].
  - split; [reflexivity|exact I].
Qed.

(* a freshly built and solved model is related to its abstract twin *)
Lemma fresh_rel p : Forall2 rel (fresh p) [mkAv P p (Some p)].
Proof. constructor; [|constructor]. split; [reflexivity|]. cbn. repeat split; reflexivity. Qed.

(* an unsolved single-variant model *)
Lemma unsolved_rel p : Forall2 rel [mkVariant P S E p None] [mkAv P p None].
Proof. constructor; [|constructor]. split; [reflexivity|exact I]. Qed.

(* ---- pointwise in the variants ---- *)
Theorem call_pointwise b dev (vs : list variant) ds dd k dflt :
  k < length vs ->
  nth k (map snd (call_model b dev vs ds dd)) None
  = nth 0 (map snd (call_model b dev [nth k vs dflt] [etl ds dd k] dd)) None.
Proof.
  intros Hk. unfold KalmanSession.call_model.
  rewrite zip_stream_map_fst.
  rewrite (zip_stream_nth _ _ _ _ _ _ _ k dflt None Hk).
  reflexivity.
Qed.

(* ---- a variant solved for its current values answers as a fresh model ---- *)
Theorem solved_is_fresh b dev (vs : list variant) (avs : list avariant) ds dd k p :
  Forall2 rel vs avs ->
  k < length vs ->
  nth k avs (mkAv P p None) = mkAv P p (Some p) ->
  nth k (map snd (call_model b dev vs ds dd)) None
  = nth 0 (map snd (call_model b dev (fresh p) [etl ds dd k] dd)) None.
Proof.
  intros F Hk Ha.
  destruct (call_model_refines b dev vs avs ds dd F) as [_ H]. rewrite H.
  destruct (call_model_refines b dev (fresh p) _ [etl ds dd k] dd (fresh_rel p)) as [_ H']. rewrite H'.
  rewrite (zip_stream_nth _ _ _ _ _ _ _ k (mkAv P p None) None) by (rewrite <- (F2_length _ _ _ F); exact Hk).
  rewrite Ha. reflexivity.
Qed.

(* ... in every state reachable from a freshly built model by any session *)
Theorem reachable_solved_is_fresh ops p0 b dev (vs : list variant) (avs : list avariant) ds dd k p :
  snd (run ops (fresh p0)) = Some vs ->
  snd (arun ops [mkAv P p0 (Some p0)]) = Some avs ->
  k < length vs ->
  nth k avs (mkAv P p None) = mkAv P p (Some p) ->
  nth k (map snd (call_model b dev vs ds dd)) None
  = nth 0 (map snd (call_model b dev (fresh p) [etl ds dd k] dd)) None.
Proof.
  intros Hr Ha Hk Hs.
  destruct (session_refines ops _ _ (fresh_rel p0)) as [_ H]. rewrite Hr, Ha in H.
  eapply solved_is_fresh; eassumption.
Qed.

(* solve() leaves every variant solved for its current values (specification machine) *)
Lemma astep_solve_all_solved (avs : list avariant) r :
  fst (astep (OSolve X D) avs) = Some r -> Forall (fun a => a_solved P a = Some (a_par P a)) r.
Proof.
  cbn. intros H; injection H as <-. induction avs; cbn; constructor; auto.
Qed.

(* every session that starts from a freshly built model (solved or not) refines the specification *)
Corollary session_from_fresh_refines ops p :
  fst (run ops (fresh p)) = fst (arun ops [mkAv P p (Some p)]).
Proof. apply session_refines, fresh_rel. Qed.

End Session.

(* ---- non-vacuity: a concrete session on small carriers ------------------------------------------- *)
Module Example.
(* values = a number; solve1 p = 10 p; deviation = +1; expansion matrices (basis, solution, k);
   the filter returns everything it was handed *)
Definition kfx (s p : nat) (ex : list (bool * nat * nat)) (d : nat * option nat) := (s, p, ex, fst d).
Definition ops : list (op nat (nat * option nat)) :=
  [ OAlter _ _ 2; OAssign _ _ [3; 4] 4; OSolve _ _; OFilter _ _ true [(7, Some 2)] (7, Some 2);
    OAssign _ _ [5; 6] 6; OSolve _ _; OSimulate _ _ false [(8, Some 1); (9, Some 3)] (9, Some 3);
    OFilter _ _ true [(7, Some 3)] (7, Some 3); OAlter _ _ 3; OFilter _ _ false [(7, None)] (7, None) ].
Definition runx := run nat nat nat (bool * nat * nat) (nat * option nat) _
                       (fun x _ => x) (fun p => 10 * p) Datatypes.S (fun b s k => (b, s, k)) snd kfx kfx.
Definition arunx := arun nat nat nat (bool * nat * nat) (nat * option nat) _
                       (fun x _ => x) (fun p => 10 * p) Datatypes.S (fun b s k => (b, s, k)) snd kfx kfx.

Example session_nonvacuous :
  fst (runx ops (fresh nat nat _ (fun p => 10 * p) 1)) = fst (arunx ops [mkAv nat 1 (Some 1)]) /\
  (* after the second solve, the deviation-mode filter sees the NEW solutions 50 / 60 (+1), three expansion
     matrices of the new level solution, and each variant its own *)
  nth 7 (fst (runx ops (fresh nat nat _ (fun p => 10 * p) 1))) []
  = [Some (51, 5, [(true, 50, 0); (true, 50, 1); (true, 50, 2)], 7);
     Some (61, 6, [(true, 60, 0); (true, 60, 1); (true, 60, 2)], 7)] /\
  length (nth 9 (fst (runx ops (fresh nat nat _ (fun p => 10 * p) 1))) []) = 3.
Proof. vm_compute. repeat split. Qed.
End Example.
