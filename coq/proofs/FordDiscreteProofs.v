(* C01  Discrete part (plain Coq): eigenvalue classification / Blanchard-Kahn verdict over the generated
   predicates of gen/FordGen.v, and the dynamic identities built from the token vector. *)
From Coq Require Import List ZArith QArith Qabs Bool Lia Lqa.
From Verif Require Import lib.MxC01 gen.FordGen model.Ford.
Import ListNotations.

(* ------------------------------------------------------------------ booleans of gen/FordGen.v *)
Lemma Qltb_lt x y : Qltb x y = true <-> (x < y)%Q.
Proof.
  unfold Qltb. rewrite negb_true_iff. split; intro H.
  - apply Qnot_le_lt. intro L. apply Qle_bool_iff in L. congruence.
  - destruct (Qle_bool y x) eqn:E; auto. apply Qle_bool_iff in E. exfalso. apply (Qlt_not_le _ _ H E).
Qed.
Lemma Qleb_le x y : Qleb x y = true <-> (x <= y)%Q.
Proof. unfold Qleb. apply Qle_bool_iff. Qed.
Lemma Qgeb_ge x y : Qgeb x y = true <-> (y <= x)%Q.
Proof. unfold Qgeb. apply Qleb_le. Qed.
Lemma Qltb_false x y : Qltb x y = false <-> (y <= x)%Q.
Proof.
  split; intro H.
  - destruct (Qlt_le_dec x y) as [L|L]; auto. apply Qltb_lt in L. congruence.
  - destruct (Qltb x y) eqn:E; auto. apply Qltb_lt in E. exfalso. apply (Qlt_not_le _ _ E H).
Qed.

Lemma Qabs_idem x : Qabs (Qabs x) = Qabs x.
Proof. destruct x as [n d]. unfold Qabs. f_equal. apply Z.abs_involutive. Qed.

(* ------------------------------------------------------------------ the three classes *)
Section Classes.
Variable tol : Q.
Hypothesis tol_nonneg : (0 <= tol)%Q.
Notation classify := (classify_eigenvalue_stability (is_stable_root tol) (is_unit_root tol)).

Lemma stable_iff x : classify x = E_STABLE <-> (Qabs x < 1 - tol)%Q.
Proof.
  unfold classify_eigenvalue_stability, is_stable_root, is_unit_root. rewrite !Qabs_idem.
  destruct (Qltb (Qabs x) (1 - tol)) eqn:E1.
  - apply Qltb_lt in E1. tauto.
  - apply Qltb_false in E1. split; intro H.
    + destruct (_ && _); discriminate.
    + exfalso. apply (Qlt_not_le _ _ H E1).
Qed.

Lemma unit_iff x : classify x = E_UNIT_ROOT <-> (1 - tol <= Qabs x /\ Qabs x < 1 + tol)%Q.
Proof.
  unfold classify_eigenvalue_stability, is_stable_root, is_unit_root. rewrite !Qabs_idem.
  destruct (Qltb (Qabs x) (1 - tol)) eqn:E1.
  - apply Qltb_lt in E1. split; [discriminate|]. intros [H _]. exfalso. apply (Qlt_not_le _ _ E1 H).
  - apply Qltb_false in E1.
    destruct (Qgeb (Qabs x) (1 - tol)) eqn:E2; destruct (Qltb (Qabs x) (1 + tol)) eqn:E3; simpl.
    + apply Qltb_lt in E3. tauto.
    + apply Qltb_false in E3. split; [discriminate|]. intros [_ H]. exfalso. apply (Qlt_not_le _ _ H E3).
    + assert (Qgeb (Qabs x) (1 - tol) = true) by (apply Qgeb_ge; exact E1). congruence.
    + assert (Qgeb (Qabs x) (1 - tol) = true) by (apply Qgeb_ge; exact E1). congruence.
Qed.

Lemma unstable_iff x : classify x = E_UNSTABLE <-> (1 + tol <= Qabs x)%Q.
Proof.
  unfold classify_eigenvalue_stability, is_stable_root, is_unit_root. rewrite !Qabs_idem.
  destruct (Qltb (Qabs x) (1 - tol)) eqn:E1.
  - apply Qltb_lt in E1. split; [discriminate|]. intro H. exfalso.
    assert (1 - tol <= 1 + tol)%Q by lra. lra.
  - apply Qltb_false in E1.
    assert (E2 : Qgeb (Qabs x) (1 - tol) = true) by (apply Qgeb_ge; exact E1). rewrite E2. simpl.
    destruct (Qltb (Qabs x) (1 + tol)) eqn:E3.
    + apply Qltb_lt in E3. split; [discriminate|]. intro H. exfalso. apply (Qlt_not_le _ _ E3 H).
    + apply Qltb_false in E3. tauto.
Qed.

(* every eigenvalue falls in exactly one class: the three conditions are exhaustive and exclusive *)
Theorem classes_partition x :
  let a := Qabs x in
  (classify x = E_STABLE /\ (a < 1 - tol)%Q) \/
  (classify x = E_UNIT_ROOT /\ (1 - tol <= a < 1 + tol)%Q) \/
  (classify x = E_UNSTABLE /\ (1 + tol <= a)%Q).
Proof.
  intro a. destruct (classify x) eqn:E.
  - left. split; auto. apply stable_iff; auto.
  - right; left. split; auto. apply unit_iff; auto.
  - right; right. split; auto. apply unstable_iff; auto.
Qed.

(* the ordering predicate handed to the QZ oracle selects exactly the roots -beta/alpha that are not
   classified unstable: the two thresholds agree *)
Theorem qz_sort_consistent alpha beta : ~ (alpha == 0)%Q ->
  is_alpha_beta_stable_or_unit_root tol alpha beta = true <-> classify (- beta / alpha) <> E_UNSTABLE.
Proof.
  intro nz.
  assert (apos : (0 < Qabs alpha)%Q).
  { destruct (Qlt_le_dec 0 (Qabs alpha)) as [H|H]; auto. exfalso. apply nz.
    assert (H0 : (Qabs alpha == 0)%Q) by (apply Qle_antisym; [exact H | apply Qabs_nonneg]).
    destruct (Qlt_le_dec alpha 0) as [L|L].
    - rewrite Qabs_neg in H0 by lra. lra.
    - rewrite Qabs_pos in H0 by lra. lra. }
  assert (E : (Qabs (- beta / alpha) == Qabs beta / Qabs alpha)%Q).
  { unfold Qdiv. rewrite Qabs_Qmult, Qabs_opp, Qabs_Qinv. reflexivity. }
  unfold is_alpha_beta_stable_or_unit_root. rewrite Qltb_lt.
  split.
  - intros H U. apply unstable_iff in U. rewrite E in U.
    assert (Qabs beta / Qabs alpha < 1 + tol)%Q.
    { apply Qlt_shift_div_r; auto. }
    lra.
  - intro NU. destruct (Qlt_le_dec (Qabs beta) ((1 + tol) * Qabs alpha)) as [L|L]; auto.
    exfalso. apply NU. apply unstable_iff. rewrite E. apply Qle_shift_div_l; auto.
Qed.

End Classes.

(* ------------------------------------------------------------------ counts and verdict *)
Lemma count_kinds_total (ks : list ekind) :
  (count_kind E_STABLE ks + count_kind E_UNIT_ROOT ks + count_kind E_UNSTABLE ks = length ks)%nat.
Proof.
  unfold count_kind. induction ks as [|k ks IH]; simpl; auto.
  destruct k; simpl; lia.
Qed.

Lemma count_unstable_spec tol (l : list Q) :
  count_kind E_UNSTABLE (classify_eigenvalues_stability tol l)
  = length (filter (fun x => match classify_eigenvalue_stability (is_stable_root tol) (is_unit_root tol) x with
                             | E_UNSTABLE => true | _ => false end) l).
Proof.
  unfold count_kind, classify_eigenvalues_stability. induction l as [|x l IH]; simpl; auto.
  destruct (classify_eigenvalue_stability _ _ x); simpl; auto.
Qed.

(* Theorem: STABLE iff the number of unstable roots equals the number of forward-looking variables;
   otherwise NO_STABLE (too many) or MULTIPLE_STABLE (too few) *)
Theorem verdict_iff_count (ks : list ekind) (nf : nat) :
  (classify_system_stability ks nf = S_STABLE <-> count_kind E_UNSTABLE ks = nf) /\
  (classify_system_stability ks nf = S_NO_STABLE <-> (count_kind E_UNSTABLE ks > nf)%nat) /\
  (classify_system_stability ks nf = S_MULTIPLE_STABLE <-> (count_kind E_UNSTABLE ks < nf)%nat).
Proof.
  unfold classify_system_stability, ngtb.
  destruct (Nat.eqb_spec (count_kind E_UNSTABLE ks) nf) as [e|ne].
  - repeat split; intros; try discriminate; try lia; auto.
  - destruct (Nat.ltb_spec nf (count_kind E_UNSTABLE ks)) as [l|l].
    + repeat split; intros; try discriminate; try lia; auto.
    + repeat split; intros; try discriminate; try lia; auto.
Qed.

Theorem stability_report_spec tol (l : list Q) (nf : nat) :
  let r := stability tol l nf in
  (rep_num_stable r + rep_num_unit r + rep_num_unstable r = length l)%nat /\
  (rep_verdict r = S_STABLE <-> rep_num_unstable r = nf).
Proof.
  simpl. split.
  - rewrite count_kinds_total. unfold classify_eigenvalues_stability. apply map_length.
  - apply verdict_iff_count.
Qed.
