(* C01  Discrete part (plain Coq): eigenvalue classification / Blanchard-Kahn verdict over the generated
   predicates of gen/FordGen.v, and the dynamic identities built from the token vector. *)
From Coq Require Import List ZArith QArith Qabs Bool Lia Lqa.
From Verif Require Import lib.MxC01 gen.FordGen model.Ford.
Import ListNotations.

(* ------------------------------------------------------------------ booleans of gen/FordGen.v *)
Lemma Qltb_lt x y : Qltb x y = true <-> (x < y)%Q.
Proof.
  unfold Qltb. rewrite negb_true_iff. split; intro H.
  - apply Qnot_le_lt. intro L. apply Qle_bool_iff in L. congruence.
  - destruct (Qle_bool y x) eqn:E; auto. apply Qle_bool_iff in E. exfalso. apply (Qlt_not_le _ _ H E).
Qed.
Lemma Qleb_le x y : Qleb x y = true <-> (x <= y)%Q.
Proof. unfold Qleb. apply Qle_bool_iff. Qed.
Lemma Qgeb_ge x y : Qgeb x y = true <-> (y <= x)%Q.
Proof. unfold Qgeb. apply Qleb_le. Qed.
Lemma Qltb_false x y : Qltb x y = false <-> (y <= x)%Q.
Proof.
  split; intro H.
  - destruct (Qlt_le_dec x y) as [L|L]; auto. apply Qltb_lt in L. congruence.
  - destruct (Qltb x y) eqn:E; auto. apply Qltb_lt in E. exfalso. apply (Qlt_not_le _ _ E H).
Qed.

Lemma Qabs_idem x : Qabs (Qabs x) = Qabs x.
Proof. destruct x as [n d]. unfold Qabs. f_equal. apply Z.abs_involutive. Qed.

(* ------------------------------------------------------------------ the three classes *)
Section Classes.
Variable tol : Q.
Hypothesis tol_nonneg : (0 <= tol)%Q.
Notation classify := (classify_eigenvalue_stability (is_stable_root tol) (is_unit_root tol)).

Lemma stable_iff x : classify x = E_STABLE <-> (Qabs x < 1 - tol)%Q.
Proof.
  unfold classify_eigenvalue_stability, is_stable_root, is_unit_root. rewrite !Qabs_idem.
  destruct (Qltb (Qabs x) (1 - tol)) eqn:E1.
  - apply Qltb_lt in E1. tauto.
  - apply Qltb_false in E1. split; intro H.
    + destruct (_ && _); discriminate.
    + exfalso. apply (Qlt_not_le _ _ H E1).
Qed.

Lemma unit_iff x : classify x = E_UNIT_ROOT <-> (1 - tol <= Qabs x /\ Qabs x < 1 + tol)%Q.
Proof.
  unfold classify_eigenvalue_stability, is_stable_root, is_unit_root. rewrite !Qabs_idem.
  destruct (Qltb (Qabs x) (1 - tol)) eqn:E1.
  - apply Qltb_lt in E1. split; [discriminate|]. intros [H _]. exfalso. apply (Qlt_not_le _ _ E1 H).
  - apply Qltb_false in E1.
    destruct (Qgeb (Qabs x) (1 - tol)) eqn:E2; destruct (Qltb (Qabs x) (1 + tol)) eqn:E3; simpl.
    + apply Qltb_lt in E3. tauto.
    + apply Qltb_false in E3. split; [discriminate|]. intros [_ H]. exfalso. apply (Qlt_not_le _ _ H E3).
    + assert (Qgeb (Qabs x) (1 - tol) = true) by (apply Qgeb_ge; exact E1). congruence.
    + assert (Qgeb (Qabs x) (1 - tol) = true) by (apply Qgeb_ge; exact E1). congruence.
Qed.

Lemma unstable_iff x : classify x = E_UNSTABLE <-> (1 + tol <= Qabs x)%Q.
Proof.
  unfold classify_eigenvalue_stability, is_stable_root, is_unit_root. rewrite !Qabs_idem.
  destruct (Qltb (Qabs x) (1 - tol)) eqn:E1.
  - apply Qltb_lt in E1. split; [discriminate|]. intro H. exfalso.
    assert (1 - tol <= 1 + tol)%Q by lra. lra.
  - apply Qltb_false in E1.
    assert (E2 : Qgeb (Qabs x) (1 - tol) = true) by (apply Qgeb_ge; exact E1). rewrite E2. simpl.
    destruct (Qltb (Qabs x) (1 + tol)) eqn:E3.
    + apply Qltb_lt in E3. split; [discriminate|]. intro H. exfalso. apply (Qlt_not_le _ _ E3 H).
    + apply Qltb_false in E3. tauto.
Qed.

(* every eigenvalue falls in exactly one class: the three conditions are exhaustive and exclusive *)
Theorem classes_partition x :
  let a := Qabs x in
  (classify x = E_STABLE /\ (a < 1 - tol)%Q) \/
  (classify x = E_UNIT_ROOT /\ (1 - tol <= a < 1 + tol)%Q) \/
  (classify x = E_UNSTABLE /\ (1 + tol <= a)%Q).
Proof.
  intro a. destruct (classify x) eqn:E.
  - left. split; auto. apply stable_iff; auto.
  - right; left. split; auto. apply unit_iff; auto.
  - right; right. split; auto. apply unstable_iff; auto.
Qed.

(* the ordering predicate handed to the QZ oracle selects exactly the roots -beta/alpha that are not
   classified unstable: the two thresholds agree *)
Theorem qz_sort_consistent alpha beta : ~ (alpha == 0)%Q ->
  is_alpha_beta_stable_or_unit_root tol alpha beta = true <-> classify (- beta / alpha) <> E_UNSTABLE.
Proof.
  intro nz.
  assert (apos : (0 < Qabs alpha)%Q).
  { destruct (Qlt_le_dec 0 (Qabs alpha)) as [H|H]; auto. exfalso. apply nz.
    assert (H0 : (Qabs alpha == 0)%Q) by (apply Qle_antisym; [exact H | apply Qabs_nonneg]).
    destruct (Qlt_le_dec alpha 0) as [L|L].
    - rewrite Qabs_neg in H0 by lra. lra.
    - rewrite Qabs_pos in H0 by lra. lra. }
  assert (E : (Qabs (- beta / alpha) == Qabs beta / Qabs alpha)%Q).
  { unfold Qdiv. rewrite Qabs_Qmult, Qabs_opp, Qabs_Qinv. reflexivity. }
  unfold is_alpha_beta_stable_or_unit_root. rewrite Qltb_lt.
  split.
  - intros H U. apply unstable_iff in U. rewrite E in U.
    assert (Qabs beta / Qabs alpha < 1 + tol)%Q.
    { apply Qlt_shift_div_r; auto. }
    lra.
  - intro NU. destruct (Qlt_le_dec (Qabs beta) ((1 + tol) * Qabs alpha)) as [L|L]; auto.
    exfalso. apply NU. apply unstable_iff. rewrite E. apply Qle_shift_div_l; auto.
Qed.

End Classes.

(* ------------------------------------------------------------------ counts and verdict *)
Lemma count_kinds_total (ks : list ekind) :
  (count_kind E_STABLE ks + count_kind E_UNIT_ROOT ks + count_kind E_UNSTABLE ks = length ks)%nat.
Proof.
  unfold count_kind. induction ks as [|k ks IH]; simpl; auto.
  destruct k; simpl; lia.
Qed.

Lemma count_unstable_spec tol (l : list Q) :
  count_kind E_UNSTABLE (classify_eigenvalues_stability tol l)
  = length (filter (fun x => match classify_eigenvalue_stability (is_stable_root tol) (is_unit_root tol) x with
                             | E_UNSTABLE => true | _ => false end) l).
Proof.
  unfold count_kind, classify_eigenvalues_stability. induction l as [|x l IH]; simpl; auto.
  destruct (classify_eigenvalue_stability _ _ x); simpl; auto.
Qed.

(* Theorem: STABLE iff the number of unstable roots equals the number of forward-looking variables;
   otherwise NO_STABLE (too many) or MULTIPLE_STABLE (too few) *)
Theorem verdict_iff_count (ks : list ekind) (nf : nat) :
  (classify_system_stability ks nf = S_STABLE <-> count_kind E_UNSTABLE ks = nf) /\
  (classify_system_stability ks nf = S_NO_STABLE <-> (count_kind E_UNSTABLE ks > nf)%nat) /\
  (classify_system_stability ks nf = S_MULTIPLE_STABLE <-> (count_kind E_UNSTABLE ks < nf)%nat).
Proof.
  unfold classify_system_stability, ngtb.
  destruct (Nat.eqb_spec (count_kind E_UNSTABLE ks) nf) as [e|ne].
  - repeat split; intros; try discriminate; try lia; auto.
  - destruct (Nat.ltb_spec nf (count_kind E_UNSTABLE ks)) as [l|l].
    + repeat split; intros; try discriminate; try lia; auto.
    + repeat split; intros; try discriminate; try lia; auto.
Qed.

Theorem stability_report_spec tol (l : list Q) (nf : nat) :
  let r := stability tol l nf in
  (rep_num_stable r + rep_num_unit r + rep_num_unstable r = length l)%nat /\
  (rep_verdict r = S_STABLE <-> rep_num_unstable r = nf).
Proof.
  simpl. split.
  - rewrite count_kinds_total. unfold classify_eigenvalues_stability. apply map_length.
  - apply verdict_iff_count.
Qed.

(* ================================================================== *)
(* Dynamic identities built from the token vector (_create_dynid_matrices) *)

Lemma tok_eqb_eq (a b : token) : tok_eqb a b = true <-> a = b.
Proof.
  unfold tok_eqb. destruct a as [qa ka], b as [qb kb]; simpl. rewrite andb_true_iff, Nat.eqb_eq, Z.eqb_eq.
  split; [intros [-> ->]; reflexivity | intro H; inversion H; auto].
Qed.

Lemma index_tok_some t l j : index_tok t l = Some j -> nth_error l j = Some t.
Proof.
  revert j. induction l as [|x l IH]; simpl; intros j H; [discriminate|].
  destruct (tok_eqb t x) eqn:E.
  - inversion H; subst. apply tok_eqb_eq in E. subst. reflexivity.
  - destruct (index_tok t l) as [j'|]; simpl in H; [|discriminate]. inversion H; subst. simpl. apply IH. reflexivity.
Qed.

Lemma index_tok_none t l : index_tok t l = None -> ~ In t l.
Proof.
  induction l as [|x l IH]; simpl; intros H; [tauto|].
  destruct (tok_eqb t x) eqn:E; [discriminate|].
  destruct (index_tok t l); simpl in H; [discriminate|].
  intros [->|I]; [|apply IH; auto].
  assert (tok_eqb t t = true) by (apply tok_eqb_eq; reflexivity). congruence.
Qed.

Lemma index_tok_in t l : In t l -> exists j, index_tok t l = Some j.
Proof.
  intro I. destruct (index_tok t l) eqn:E; [eauto|]. exfalso. apply (index_tok_none _ _ E I).
Qed.

(* a row of the dynamic identities: token (q,k) at position i is not at the maximum shift of q,
   and position j holds the same quantity one period later *)
Definition dynid_pair_ok (vec : list token) (p : nat * nat) : Prop :=
  exists q k, nth_error vec (fst p) = Some (q, k) /\ k <> max_shift q vec /\
              nth_error vec (snd p) = Some (q, dynid_next_shift k).

(* positions (in order) of the tokens that are not at their quantity's maximum shift *)
Fixpoint nonmax_positions (vec rest : list token) (i : nat) : list nat :=
  match rest with
  | [] => []
  | t :: r => if (snd t =? max_shift (fst t) vec)%Z then nonmax_positions vec r (S i)
              else i :: nonmax_positions vec r (S i)
  end.

Lemma dynid_pairs_from_spec vec rest : forall pre i ps,
  vec = pre ++ rest -> length pre = i -> dynid_pairs_from vec rest i = Some ps ->
  Forall (dynid_pair_ok vec) ps /\ map fst ps = nonmax_positions vec rest i.
Proof.
  induction rest as [|t r IH]; intros pre i ps Hv Hl H; simpl in *.
  - inversion H; subst. split; constructor.
  - assert (Hv' : vec = (pre ++ [t]) ++ r) by (rewrite <- app_assoc; exact Hv).
    assert (Hl' : length (pre ++ [t]) = S i) by (rewrite app_length; simpl; lia).
    destruct (snd t =? max_shift (fst t) vec)%Z eqn:E.
    + apply (IH _ _ _ Hv' Hl' H).
    + destruct (index_tok (fst t, dynid_next_shift (snd t)) vec) as [j|] eqn:Ej; [|discriminate].
      destruct (dynid_pairs_from vec r (S i)) as [ps'|] eqn:Er; [|discriminate].
      inversion H; subst ps. destruct (IH _ _ _ Hv' Hl' Er) as [F M].
      split; [constructor; auto | simpl; f_equal; auto].
      exists (fst t), (snd t). simpl. repeat split.
      * rewrite Hv. rewrite nth_error_app2 by lia. rewrite Hl, Nat.sub_diag. destruct t; reflexivity.
      * apply Z.eqb_neq. exact E.
      * apply index_tok_some. exact Ej.
Qed.

(* dense rows as the code writes them, applied to integer vectors *)
Definition dotZ (a b : list Z) : Z := fold_left (fun acc p => (acc + fst p * snd p)%Z) (combine a b) 0%Z.

Lemma fold_dot_acc (l : list (Z * Z)) (z : Z) :
  fold_left (fun acc p => (acc + fst p * snd p)%Z) l z = (z + fold_left (fun acc p => (acc + fst p * snd p)%Z) l 0)%Z.
Proof.
  revert z. induction l as [|p l IH]; intro z; simpl; [lia|].
  rewrite IH. rewrite (IH (fst p * snd p)%Z). lia.
Qed.

Lemma dot_unit_seq (v : Z) (i : nat) : forall (n s : nat) (x : list Z), length x = n ->
  dotZ (map (fun c => if Nat.eqb c i then v else 0%Z) (seq s n)) x
  = if (s <=? i)%nat && (i <? s + n)%nat then (v * nth (i - s) x 0)%Z else 0%Z.
Proof.
  unfold dotZ. induction n as [|n IH]; intros s x Hx.
  - cbn [seq map combine fold_left]. destruct (s <=? i)%nat eqn:A; cbn [andb]; auto.
    destruct (Nat.ltb_spec i (s + 0)); auto. apply Nat.leb_le in A. lia.
  - destruct x as [|x0 x]; [discriminate|]. cbn [length] in Hx. injection Hx as Hx.
    cbn [seq map combine fold_left fst snd].
    rewrite fold_dot_acc. rewrite (IH (S s) x Hx).
    destruct (Nat.eqb_spec s i) as [e|ne].
    + subst i. rewrite Nat.leb_refl. cbn [andb].
      destruct (Nat.leb_spec (S s) s); [lia|]. cbn [andb].
      destruct (Nat.ltb_spec s (s + S n)); [|lia]. rewrite Nat.sub_diag. cbn [nth]. lia.
    + destruct (Nat.leb_spec s i), (Nat.leb_spec (S s) i); cbn [andb]; try lia.
      destruct (Nat.ltb_spec i (S s + n)), (Nat.ltb_spec i (s + S n)); try lia.
      replace (i - s)%nat with (S (i - S s)) by lia. cbn [nth]. lia.
Qed.

Lemma dot_unit_row n i v x : length x = n -> (i < n)%nat -> dotZ (unit_row n i v) x = (v * nth i x 0)%Z.
Proof.
  intros Hx Hi. unfold unit_row. rewrite (dot_unit_seq v i n 0 x Hx). cbn [Nat.leb andb Nat.add].
  destruct (Nat.ltb_spec i n); [|lia]. rewrite Nat.sub_0_r. reflexivity.
Qed.

(* Theorem (dynid_rows): when _create_dynid_matrices succeeds, there is exactly one row per token that is not
   at its quantity's maximum shift, in vector order; row r pairs position i (token (q,k)) with position j
   (token (q,k+1)); and as linear forms  dynid_A[r] . x + dynid_B[r] . y = x[i] - y[j]: the identity
   "x{k} today equals x{k+1} of the previous period's vector" *)
Theorem dynid_rows vec ps : dynid_pairs vec = Some ps ->
  map fst ps = nonmax_positions vec vec 0 /\
  Forall (dynid_pair_ok vec) ps /\
  forall r i j (x y : list Z), nth_error ps r = Some (i, j) ->
    length x = length vec -> length y = length vec ->
    (dotZ (nth r (dynid_A vec ps) []) x + dotZ (nth r (dynid_B vec ps) []) y = nth i x 0 - nth j y 0)%Z.
Proof.
  intro H. destruct (dynid_pairs_from_spec vec vec [] 0 ps eq_refl eq_refl H) as [F M].
  split; [exact M|]. split; [exact F|].
  intros r i j x y Hr Hx Hy.
  assert (Hp : dynid_pair_ok vec (i, j)).
  { rewrite Forall_forall in F. apply F. eapply nth_error_In; eauto. }
  destruct Hp as (q & k & Hi & _ & Hj). simpl in Hi, Hj.
  assert (Li : (i < length vec)%nat) by (apply nth_error_Some; congruence).
  assert (Lj : (j < length vec)%nat) by (apply nth_error_Some; congruence).
  unfold dynid_A, dynid_B.
  assert (EA : nth r (map (fun p => unit_row (length vec) (fst p) dynid_A_entry) ps) [] = unit_row (length vec) i dynid_A_entry).
  { apply nth_error_nth. rewrite nth_error_map, Hr. reflexivity. }
  assert (EB : nth r (map (fun p => unit_row (length vec) (snd p) dynid_B_entry) ps) [] = unit_row (length vec) j dynid_B_entry).
  { apply nth_error_nth. rewrite nth_error_map, Hr. reflexivity. }
  rewrite EA, EB, (dot_unit_row _ _ _ _ Hx Li), (dot_unit_row _ _ _ _ Hy Lj).
  unfold dynid_A_entry, dynid_B_entry. lia.
Qed.

(* ================================================================== *)
(* The system vector is closed under "one period later, up to the maximum lead", so the list.index
   call of _create_dynid_matrices never fails: for EVERY set of tokens the dynamic identities exist *)

Lemma in_zrange a b k : In k (zrange a b) <-> (a <= k < b)%Z.
Proof.
  unfold zrange. rewrite in_map_iff. split.
  - intros (i & <- & Hi). apply in_seq in Hi. lia.
  - intros H. exists (Z.to_nat (k - a)). split; [lia|]. apply in_seq. lia.
Qed.

Lemma in_dedup_nat x l : In x (dedup_nat l) <-> In x l.
Proof.
  induction l as [|y l IH]; simpl; [tauto|].
  destruct (existsb (Nat.eqb y) l) eqn:E.
  - rewrite IH. split; [tauto|]. intros [->|H]; auto.
    apply existsb_exists in E. destruct E as (z & Hz & Ez). apply Nat.eqb_eq in Ez. subst. exact Hz.
  - simpl. rewrite IH. tauto.
Qed.

Lemma in_shifts_of q k l : In k (shifts_of q l) <-> In (q, k) l.
Proof.
  unfold shifts_of. rewrite in_map_iff. split.
  - intros ([q' k'] & <- & H). apply filter_In in H. destruct H as [H E]. simpl in E. apply Nat.eqb_eq in E. subst. exact H.
  - intro H. exists (q, k). split; auto. apply filter_In. split; auto. simpl. apply Nat.eqb_refl.
Qed.

Lemma fold_max_ge (l : list Z) (x : Z) : (x <= fold_left Z.max l x)%Z /\ forall y, In y l -> (y <= fold_left Z.max l x)%Z.
Proof.
  revert x. induction l as [|z l IH]; intro x; simpl; [split; [lia | tauto]|].
  destruct (IH (Z.max x z)) as [A B]. split; [lia|]. intros y [->|H]; [lia | auto].
Qed.

Lemma fold_max_in (l : list Z) (x : Z) : fold_left Z.max l x = x \/ In (fold_left Z.max l x) l.
Proof.
  revert x. induction l as [|z l IH]; intro x; simpl; [auto|].
  destruct (IH (Z.max x z)) as [E|H]; [|auto].
  rewrite E. destruct (Z.max_spec x z) as [[_ ->]|[_ ->]]; auto.
Qed.

Lemma max_list_spec d l : l <> [] -> In (max_list d l) l /\ forall y, In y l -> (y <= max_list d l)%Z.
Proof.
  destruct l as [|x l]; [congruence|]. intros _. simpl.
  destruct (fold_max_ge l x) as [A B]. split.
  - destruct (fold_max_in l x) as [E|H]; [left; auto | right; auto].
  - intros y [<-|H]; auto.
Qed.

Lemma in_insert_tok t t' l : In t' (insert_tok t l) <-> t' = t \/ In t' l.
Proof.
  induction l as [|x l IH]; simpl; [intuition|].
  destruct (key_leb t x); simpl; [intuition|]. rewrite IH. intuition.
Qed.

Lemma in_sort_tokens t l : In t (sort_tokens l) <-> In t l.
Proof.
  unfold sort_tokens. induction l as [|x l IH]; simpl; [tauto|].
  rewrite in_insert_tok, IH. intuition.
Qed.

Lemma in_create_vector toks q k :
  In (q, k) (create_system_transition_vector toks) <->
  In q (map fst toks) /\
  (system_range_lo (system_min_shift_floor (min_shift q toks)) <= k < system_range_hi (max_shift q toks))%Z.
Proof.
  unfold create_system_transition_vector. rewrite in_flat_map. split.
  - intros (q' & Hq & H). apply in_map_iff in H. destruct H as (k' & E & Hk). inversion E; subst.
    apply (proj1 (in_dedup_nat _ _)) in Hq. apply (proj1 (in_zrange _ _ _)) in Hk. split; [exact Hq | exact Hk].
  - intros [Hq Hk]. exists q. split; [apply (proj2 (in_dedup_nat _ _)); exact Hq|]. apply in_map_iff. exists k. split; [reflexivity|]. apply (proj2 (in_zrange _ _ _)). exact Hk.
Qed.

Lemma dynid_pairs_from_total vec rest : forall i,
  (forall t, In t rest -> snd t <> max_shift (fst t) vec -> In (fst t, dynid_next_shift (snd t)) vec) ->
  exists ps, dynid_pairs_from vec rest i = Some ps.
Proof.
  induction rest as [|t r IH]; intros i H; simpl; [eauto|].
  destruct (IH (S i)) as [ps Hps]; [intros; apply H; simpl; auto|].
  destruct (snd t =? max_shift (fst t) vec)%Z eqn:E; [eauto|].
  apply Z.eqb_neq in E.
  destruct (index_tok_in _ _ (H t (or_introl eq_refl) E)) as [j Hj].
  rewrite Hj, Hps. eauto.
Qed.

Theorem system_vector_dynid_total (actual meas : list token) :
  exists ps, dynid_pairs (system_vector actual meas) = Some ps.
Proof.
  unfold dynid_pairs. apply dynid_pairs_from_total.
  set (toks := adjust_for_measurement actual meas).
  set (vec := system_vector actual meas).
  intros [q k] Hin Hmax. simpl in *.
  assert (Hcv : forall q' k', In (q', k') vec <-> In (q', k') (create_system_transition_vector toks)).
  { intros. unfold vec, system_vector. apply in_sort_tokens. }
  apply Hcv in Hin. apply in_create_vector in Hin. destruct Hin as [Hq [Hlo Hhi]].
  unfold system_range_hi in *.
  (* the maximum shift of q inside the vector is the top of its range *)
  assert (Htop : In (q, max_shift q toks) vec).
  { apply Hcv. apply in_create_vector. split; auto. unfold system_range_hi. lia. }
  assert (Hne : shifts_of q vec <> []).
  { intro E. apply in_shifts_of in Htop. rewrite E in Htop. destruct Htop. }
  destruct (max_list_spec 0%Z _ Hne) as [Min Mub]. fold (max_shift q vec) in Min, Mub.
  assert (Mle : (max_shift q vec < max_shift q toks + 1)%Z).
  { apply in_shifts_of in Min. apply Hcv in Min. apply in_create_vector in Min. unfold system_range_hi in Min. lia. }
  assert (Mge : (max_shift q toks <= max_shift q vec)%Z) by (apply Mub; apply in_shifts_of; exact Htop).
  apply Hcv. apply in_create_vector. split; auto. unfold dynid_next_shift, system_range_hi. lia.
Qed.
