(* C20  Variants: every operation acts pointwise; variant k of a multi-variant model has the
   history of a single-variant model given variant k's inputs. *)
From Coq Require Import List Arith Bool Lia.
From Verif Require Import model.Variants.
Import ListNotations.

Section Lists.
Context {A : Type}.

Lemma last_indep : forall (l : list A) x d d', last (x :: l) d = last (x :: l) d'.
Proof.
  induction l as [ | y l IH]; intros x d d'; [reflexivity | ].
  change (last (y :: l) d = last (y :: l) d'). apply IH.
Qed.

Lemma last_cons_default : forall (l : list A) x d, last (x :: l) d = last l x.
Proof.
  destruct l as [ | y l]; intros x d; [reflexivity | ].
  change (last (y :: l) d = last (y :: l) x). apply last_indep.
Qed.

Lemma nth_firstn_lt : forall (l : list A) n k d, k < n -> nth k (firstn n l) d = nth k l d.
Proof.
  induction l as [ | x l IH]; intros n k d H.
  - rewrite firstn_nil. reflexivity.
  - destruct n as [ | n]; [lia | ]. destruct k as [ | k]; [reflexivity | ].
    cbn [firstn nth]. apply IH. lia.
Qed.

Lemma nth_repeat_lt : forall (x : A) m k d, k < m -> nth k (repeat x m) d = x.
Proof.
  induction m as [ | m IH]; intros k d H; [lia | ].
  destruct k as [ | k]; [reflexivity | ]. cbn [repeat nth]. apply IH. lia.
Qed.

Lemma last_as_nth : forall (l : list A) d, last l d = nth (length l - 1) l d.
Proof.
  induction l as [ | x l IH]; intros d; [reflexivity | ].
  destruct l as [ | y l]; [reflexivity | ].
  change (last (y :: l) d = nth (length (y :: l)) (x :: y :: l) d).
  rewrite IH. cbn [length nth]. replace (S (length l) - 1) with (length l) by lia. reflexivity.
Qed.

End Lists.

Section Proofs.

Variables I V X : Type.
Variable dv : V.
Variable assign1 : I -> X -> V -> V.

Notation etl := (etl X).
Notation zip_stream := (zip_stream V X).
Notation alter := (alter V dv).
Notation apply_op := (apply_op I V X dv assign1).
Notation run := (run I V X dv assign1).
Notation single_op := (single_op I V X assign1).
Notation fun_run := (fun_run I V X assign1).
Notation anc_op := (@anc_op I V X).
Notation anc_run := (@anc_run I V X).
Notation len_after := (@len_after I V X).
Notation project := (@project I V X).

(* ---------------- exhaust-then-last broadcasting *)

Lemma etl_nil : forall d k, etl [] d k = d.
Proof. intros d k. unfold Variants.etl. destruct k; reflexivity. Qed.

Lemma etl_cons_S : forall x xs d k, etl (x :: xs) d (S k) = etl xs x k.
Proof.
  intros x xs d k. unfold Variants.etl. rewrite last_cons_default. reflexivity.
Qed.

Lemma zip_stream_length : forall g vs xs d, length (zip_stream g vs xs d) = length vs.
Proof.
  intros g. induction vs as [ | v vs IH]; intros xs d; [reflexivity | ].
  destruct xs as [ | x xs]; cbn [Variants.zip_stream length]; rewrite IH; reflexivity.
Qed.

(* zip(variants, exhaust_then_last(xs, d)): variant k meets xs[k], or the last item, or the default *)
Lemma zip_stream_nth : forall g vs xs d k, k < length vs ->
  nth k (zip_stream g vs xs d) dv = g (etl xs d k) (nth k vs dv).
Proof.
  intros g. induction vs as [ | v vs IH]; intros xs d k H; [cbn in H; lia | ].
  destruct xs as [ | x xs]; cbn [Variants.zip_stream].
  - destruct k as [ | k]; cbn [nth].
    + rewrite etl_nil. reflexivity.
    + rewrite IH by (cbn in H; lia). rewrite !etl_nil. reflexivity.
  - destruct k as [ | k]; cbn [nth].
    + reflexivity.
    + rewrite IH by (cbn in H; lia). rewrite etl_cons_S. reflexivity.
Qed.

Lemma etl_in_range : forall xs d k, k < length xs -> etl xs d k = nth k xs d.
Proof. intros xs d k H. unfold Variants.etl. apply nth_indep. assumption. Qed.

Lemma etl_beyond : forall xs d k, length xs <= k -> etl xs d k = last xs d.
Proof. intros xs d k H. unfold Variants.etl. apply nth_overflow. assumption. Qed.

(* ---------------- alter_num_variants *)

Lemma alter_shrink : forall n vs, 1 <= n <= length vs -> alter n vs = Some (firstn n vs).
Proof.
  intros n vs H. unfold Variants.alter.
  destruct (Nat.ltb_spec n (length vs)).
  - destruct (Nat.ltb_spec n 1); [lia | reflexivity].
  - assert (n = length vs) by lia. subst n. rewrite Nat.ltb_irrefl, firstn_all. reflexivity.
Qed.

Lemma alter_expand : forall n vs, vs <> [] -> length vs <= n ->
  alter n vs = Some (vs ++ repeat (last vs dv) (n - length vs)).
Proof.
  intros n vs Hne H. unfold Variants.alter.
  destruct (Nat.ltb_spec n (length vs)); [lia | ].
  destruct (Nat.ltb_spec (length vs) n).
  - destruct vs; [congruence | reflexivity].
  - replace (n - length vs) with 0 by lia. cbn [repeat]. rewrite app_nil_r. reflexivity.
Qed.

Lemma alter_nil : forall n, alter n [] = match n with 0 => Some [] | _ => None end.
Proof. intros [ | n]; reflexivity. Qed.

Lemma alter_zero : forall vs, vs <> [] -> alter 0 vs = None.
Proof. intros [ | v vs] H; [congruence | reflexivity]. Qed.

Lemma alter_cases : forall n vs out, alter n vs = Some out ->
  (n = 0 /\ vs = [] /\ out = []) \/
  (1 <= n <= length vs /\ out = firstn n vs) \/
  (vs <> [] /\ length vs <= n /\ out = vs ++ repeat (last vs dv) (n - length vs)).
Proof.
  intros n vs out H. destruct vs as [ | v vs'] eqn:Ev.
  - rewrite alter_nil in H. destruct n; [ | discriminate]. injection H as <-. left. auto.
  - rewrite <- Ev in *. assert (Hne : vs <> []) by (rewrite Ev; discriminate).
    destruct n as [ | n]; [rewrite alter_zero in H by assumption; discriminate | ].
    destruct (Nat.le_gt_cases (S n) (length vs)).
    + rewrite alter_shrink in H by lia. injection H as <-. right. left. split; [lia | reflexivity].
    + rewrite alter_expand in H by (assumption || lia). injection H as <-. right. right.
      split; [assumption | split; [lia | reflexivity]].
Qed.

Lemma alter_length : forall n vs out, alter n vs = Some out -> length out = n.
Proof.
  intros n vs out H. destruct (alter_cases n vs out H) as [(-> & _ & ->) | [(Hn & ->) | (Hne & Hn & ->)]].
  - reflexivity.
  - rewrite firstn_length. lia.
  - rewrite app_length, repeat_length. lia.
Qed.

Lemma alter_nth : forall n vs out k, alter n vs = Some out -> k < n ->
  nth k out dv = nth (Nat.min k (length vs - 1)) vs dv.
Proof.
  intros n vs out k H Hk. destruct (alter_cases n vs out H) as [(-> & _ & ->) | [(Hn & ->) | (Hne & Hn & ->)]].
  - lia.
  - rewrite nth_firstn_lt by assumption. f_equal. lia.
  - assert (0 < length vs) by (destruct vs; [congruence | cbn; lia]).
    destruct (Nat.lt_ge_cases k (length vs)).
    + rewrite app_nth1 by assumption. f_equal. lia.
    + rewrite app_nth2 by assumption. rewrite nth_repeat_lt by lia.
      rewrite last_as_nth. f_equal. lia.
Qed.

Lemma alter_fails_iff : forall n vs, alter n vs = None <-> (n = 0 /\ vs <> []) \/ (vs = [] /\ 0 < n).
Proof.
  intros n vs. unfold Variants.alter.
  destruct (Nat.ltb_spec n (length vs)).
  - destruct (Nat.ltb_spec n 1).
    + split; [intros _; left; split; [lia | intros ->; cbn in *; lia] | reflexivity].
    + split; [discriminate | intros [[-> _] | [-> _]]; cbn in *; lia].
  - destruct (Nat.ltb_spec (length vs) n).
    + destruct vs as [ | v vs].
      * split; [intros _; right; split; [reflexivity | cbn in *; lia] | reflexivity].
      * split; [discriminate | intros [[-> _] | [E _]]; [cbn in *; lia | discriminate]].
    + split; [discriminate | ]. intros [[-> N] | [-> N]].
      * destruct vs; [congruence | cbn in *; lia].
      * cbn in *. lia.
Qed.

Lemma alter_same : forall vs, alter (length vs) vs = Some vs.
Proof.
  intros vs. unfold Variants.alter. rewrite Nat.ltb_irrefl. reflexivity.
Qed.

(* ---------------- one operation, one variant *)

Lemma apply_op_length : forall i o vs out, apply_op i o vs = Some out -> length out = len_after o (length vs).
Proof.
  intros i o vs out H. destruct o as [xs d | f | n]; cbn in H |- *.
  - injection H as <-. apply zip_stream_length.
  - injection H as <-. apply map_length.
  - eapply alter_length; eauto.
Qed.

Lemma anc_op_lt : forall i o vs out j, apply_op i o vs = Some out -> j < length out ->
  anc_op o (length vs) j < length vs.
Proof.
  intros i o vs out j H Hj. pose proof (apply_op_length i o vs out H) as L.
  destruct o as [xs d | f | n]; cbn in *.
  - lia.
  - lia.
  - assert (vs <> []).
    { intros ->. unfold Variants.alter in H. cbn in H. destruct n; [cbn in *; lia | discriminate]. }
    destruct vs; [congruence | cbn [length]; lia].
Qed.

(* variant j after the operation = the per-variant function applied to its ancestor *)
Lemma apply_op_nth : forall i o vs out j, apply_op i o vs = Some out -> j < length out ->
  nth j out dv = single_op i o j (nth (anc_op o (length vs) j) vs dv).
Proof.
  intros i o vs out j H Hj. pose proof (apply_op_length i o vs out H) as L.
  destruct o as [xs d | f | n]; cbn in *.
  - injection H as <-. apply zip_stream_nth. lia.
  - injection H as <-. rewrite (nth_indep _ dv (f i dv)) by (rewrite map_length; lia).
    apply map_nth.
  - eapply alter_nth; eauto. lia.
Qed.

(* ---------------- whole histories *)

Theorem run_length : forall i ops vs out, run i ops vs = Some out ->
  length out = fold_left (fun len o => len_after o len) ops (length vs).
Proof.
  intros i. induction ops as [ | o r IH]; intros vs out H; cbn in *.
  - injection H as <-. reflexivity.
  - destruct (apply_op i o vs) as [vs' | ] eqn:E; [ | discriminate].
    rewrite (IH vs' out H). rewrite (apply_op_length i o vs vs' E). reflexivity.
Qed.

Theorem anc_run_lt : forall i ops vs out k, run i ops vs = Some out -> k < length out ->
  anc_run ops (length vs) k < length vs.
Proof.
  intros i. induction ops as [ | o r IH]; intros vs out k H Hk; cbn in *.
  - injection H as <-. assumption.
  - destruct (apply_op i o vs) as [vs' | ] eqn:E; [ | discriminate].
    rewrite <- (apply_op_length i o vs vs' E).
    eapply anc_op_lt; eauto.
Qed.

(* Variant k after ANY history of assign / per-variant operations / alter_num_variants is the result of
   its own single-variant history applied to its ancestor. *)
Theorem variant_pointwise_history : forall i ops vs out k, run i ops vs = Some out -> k < length out ->
  nth k out dv = fun_run i ops (length vs) k (nth (anc_run ops (length vs) k) vs dv).
Proof.
  intros i. induction ops as [ | o r IH]; intros vs out k H Hk; cbn in *.
  - injection H as <-. reflexivity.
  - destruct (apply_op i o vs) as [vs' | ] eqn:E; [ | discriminate].
    pose proof (apply_op_length i o vs vs' E) as L.
    rewrite (IH vs' out k H Hk). rewrite L.
    f_equal. rewrite <- L. apply apply_op_nth; [assumption | ].
    eapply anc_run_lt; eauto.
Qed.

(* a single-variant model that is given variant k's own inputs goes through the same values *)
Lemma run_project_single : forall i ops len k v,
  run i (project ops len k) [v] = Some [fun_run i ops len k v].
Proof.
  intros i. induction ops as [ | o r IH]; intros len k v.
  - reflexivity.
  - destruct o as [xs d | f | n]; simpl; apply IH.
Qed.

Theorem variant_equals_singleton : forall i ops vs out k, run i ops vs = Some out -> k < length out ->
  run i (project ops (length vs) k) [nth (anc_run ops (length vs) k) vs dv] = Some [nth k out dv].
Proof.
  intros i ops vs out k H Hk. rewrite run_project_single.
  rewrite (variant_pointwise_history i ops vs out k H Hk). reflexivity.
Qed.

(* the pipeline of the property text: expand to n variants, assign per-variant parameter values, then
   steady, solve (any per-variant functions): variant k equals the single-variant model assigned value k *)
Corollary variant_k_pipeline : forall i v0 n xs d (fs : list (I -> V -> V)) out k,
  run i (OAlter n :: OAssign xs d :: map OMap fs) [v0] = Some out -> k < n ->
  nth k out dv = fold_left (fun v f => f i v) fs (assign1 i (etl xs d k) v0).
Proof.
  intros i v0 n xs d fs out k H Hk.
  assert (Hlen : length out = n).
  { rewrite (run_length i _ _ _ H). cbn. clear. induction fs; [reflexivity | assumption]. }
  rewrite (variant_pointwise_history i _ _ _ k H) by lia.
  cbn [Variants.fun_run Variants.anc_run Variants.len_after length Variants.single_op].
  assert (A : forall len, anc_run (map OMap fs) len k = k).
  { clear. induction fs; intros len; [reflexivity | cbn; apply IHfs]. }
  rewrite !A. cbn [Variants.anc_op].
  replace (nth _ [v0] dv) with v0 by (destruct (Nat.min k (1 - 1)) eqn:E; [reflexivity | cbn in E; lia]).
  generalize (assign1 i (etl xs d k) v0). clear.
  induction fs as [ | f fs IH]; intros v; [reflexivity | ].
  cbn [map Variants.fun_run Variants.len_after Variants.single_op fold_left]. apply IH.
Qed.

End Proofs.
