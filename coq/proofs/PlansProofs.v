(* Proofs about the first-order conditional simulation (model/Plans.v, Part B) on the MathComp instance:
   exogenized cells are hit, only endogenized shocks change, the result is an ordinary first-order
   simulation driven by the returned shocks, and an exactly identified swap inverts a simulation.
   The one-period facts about the Kalman smoother come from proofs/SmootherProofs.v (C08). *)
From mathcomp Require Import all_ssreflect all_algebra.
From mathcomp Require Import ring.
From Verif.lib Require Import MatOps MatMC MatLemmas.
From Verif.model Require Import Kalman Plans.
From Verif.proofs Require Import KalmanProofs SmootherProofs.
Set Implicit Arguments.
Unset Strict Implicit.
Unset Printing Implicit Defensive.
Import GRing.Theory Num.Theory.
Local Open Scope ring_scope.

(* ---------------------------------------------------------------- *)
(* selection by a mask: which rows are kept                          *)
(* ---------------------------------------------------------------- *)
Section Masks.
Variable F : fieldType.

Lemma mem_mask_nth (T : eqType) (x : T) (m : seq bool) (s : seq T) :
  uniq s -> x \in mask m s = (x \in s) && nth false m (index x s).
Proof.
elim: m s => [|b m IH] [|y s] //=; first by rewrite nth_nil andbF.
case/andP=> ny us; rewrite in_cons; case: b => /=.
  rewrite in_cons IH // [y == x]eq_sym; case: (x =P y) => [->|_] //=.
rewrite IH // [y == x]eq_sym; case: (x =P y) => [E|_] //=.
by rewrite E (negbTE ny).
Qed.

(* the i-th kept row is a row whose mask bit is set *)
Lemma sel_ord_set msk m i (r : 'I_m) : sel_ord msk m i = Some r -> nth false msk r.
Proof.
rewrite /sel_ord => E.
have : r \in mask msk (enum 'I_m).
  have := mem_nth r (s := mask msk (enum 'I_m)) (n := i).
  case: (ltnP i (size (mask msk (enum 'I_m)))) E => [lt|ge].
    by rewrite (drop_nth r lt) /= => -[->] /(_ isT).
  by rewrite drop_oversize.
by rewrite mem_mask_nth ?enum_uniq // mem_enum index_enum_ord.
Qed.

(* every row whose mask bit is set is kept *)
Lemma sel_ord_kept msk m (r : 'I_m) : nth false msk r -> exists i, sel_ord msk m i = Some r.
Proof.
move=> h; have rin : r \in mask msk (enum 'I_m).
  by rewrite mem_mask_nth ?enum_uniq // mem_enum index_enum_ord.
exists (index r (mask msk (enum 'I_m))).
by rewrite /sel_ord (drop_nth r) ?index_mem //= nth_index.
Qed.

Lemma size_mask_le (T : Type) msk (s : seq T) : (size (mask msk s) <= count_true msk)%N.
Proof.
elim: msk s => [|[] msk IH] [|y s] //=.
by apply: leq_trans (IH s) _.
Qed.

(* two selections agree iff the matrices agree on the rows whose bit is set (rows within the mask) *)
Lemma mc_sel_eqP m k msk (A B : 'M[F]_(m, k)) :
  mc_sel msk A = mc_sel msk B -> forall r : 'I_m, nth false msk r -> row r A = row r B.
Proof.
rewrite !mc_selE => E r /sel_ord_kept [i Ei].
have lti : (i < count_true msk)%N.
  case: (ltnP i (count_true msk)) => // ge.
  move: Ei; rewrite /sel_ord drop_oversize //.
  exact: leq_trans (size_mask_le _ _) ge.
apply/rowP=> j; move/matrixP/(_ (Ordinal lti) j): E.
by rewrite !mxE /= Ei.
Qed.

Lemma mc_sel0 m k msk : mc_sel msk (0 : 'M[F]_(m, k)) = 0.
Proof. by rewrite mc_selE; apply/matrixP=> i j; rewrite !mxE; case: (sel_ord _ _ _) => [r|]; rewrite ?mxE. Qed.

End Masks.

Section PlansProofs.
Variable F : realFieldType.
Variables (flog : F -> F) (flog2pi : F).
Notation M := (MC flog flog2pi).
Variables n nu nw : nat.
Variable curr : seq nat.
Notation ncur := (length curr).
Notation ccol := (@ccol M nu nw curr).
Notation csys := (@csys M n nu).

Variable s : csys.
Variable Rx : nat -> 'M[F]_(n, nu).
Variable vs : seq 'cV[F]_nu.
Variable inc : incidence.
Notation nv := (nv_of inc).
Notation na := (n + nv_of inc)%N.
Notation period := (period M na nw).
Notation fper := (fper M na nw).
Notation sper := (sper M na nw).
Notation krun := (@kf_run M na nw).
Notation kstep := (@kf_step M na nw).
Notation sback := (@smooth_back M na nw).
Notation osb := (@one_step_back M na nw).
Notation aug := (@aug_period M n nu nw curr s Rx vs inc).
Notation cper := (@cond_periods M n nu nw curr s Rx vs inc).
Notation T := (cs_T s).
Notation P := (cs_P s).
Notation K := (cs_K s).
Notation Zxi := (Z_xi M n curr).
Notation imed := (@aug_init_med M n inc).
Notation aimp := (@ant_impact M n nu Rx).
Notation genR := (fun t => @gen_R M n nu Rx t 0 inc).
Notation oxi := (@out_xi M n nw inc).
Notation ov := (@out_v M n nw inc).
Notation imse := (@aug_init_mse M n inc).
Implicit Types (c : ccol) (x : sper) (a : 'cV[F]_na) (Q : 'M[F]_na).

(* a column vector read at a position given as a number (0 outside) *)
Definition vec_nth k (v : 'cV[F]_k) (i : nat) : F := if insub i is Some j then v j ord0 else 0.
(* data[u_qids, t] = u *)
Definition out_u x : 'cV[F]_nu := \col_i vec_nth (s_u (so x)) i.

Lemma vec_nthE k (v : 'cV[F]_k) (i : 'I_k) : vec_nth v i = v i ord0.
Proof. by rewrite /vec_nth valK. Qed.
Lemma col_vec_nth k (v : 'cV[F]_k) : \col_i vec_nth v i = v.
Proof. by apply/colP=> i; rewrite mxE vec_nthE. Qed.

(* ---- the periods of the conditional run satisfy the side conditions of C08 ---- *)
Lemma cov_from_std_sym k (l : seq F) : is_sym (cov_from_std M k l).
Proof. by rewrite /is_sym /cov_from_std /=; apply/matrixP=> i j; rewrite !mxE eq_sym; case: eqP => // ->. Qed.

Lemma aug_ok t c : ok_period (aug t c).
Proof. by split; [exact: cov_from_std_sym | exact: sym0]. Qed.

Lemma cper_ok t cols : all_ok (cper t cols).
Proof. by elim: cols t => [|c cols IH] t //=; split; [exact: aug_ok | exact: IH]. Qed.

Lemma init_mse_sym std_v : is_sym (imse std_v).
Proof.
rewrite /is_sym /aug_init_mse /= tr_block_mx !trmx0.
by have /= -> := cov_from_std_sym nv std_v.
Qed.


(* ---- the fields of an augmented period, decoded ---- *)

(* the transition equation of an augmented period, split into the xi block and the block of the
   endogenized anticipated shocks (which is carried over unchanged) *)
Lemma aug_trans t c (al : 'cV[F]_na) (u : 'cV[F]_nu) :
  p_T (aug t c) *m al + p_K (aug t c) + P_times (p_us (aug t c)) u + v_term (aug t c)
  = col_mx (T *m usubmx al + K + P *m u + aimp vs t + genR t *m dsubmx al) (dsubmx al).
Proof.
rewrite /v_term /= -{1}[al]vsubmxK mul_block_col mul_col_mx !add_col_mx !mul0mx !mul1mx !addr0 add0r.
by congr col_mx; rewrite -!addrA; congr (_ + _); rewrite addrC -!addrA.
Qed.

Lemma cov_row0 k (l : seq F) (i : 'I_k) : nth 0 l i = 0 -> forall j, cov_from_std M k l j i = 0.
Proof.
move=> li j; rewrite /cov_from_std /= mxE; case: eqP => // ->.
case: (ltnP i (size l)) => [lt|ge]; last by rewrite nth_default // size_map.
by rewrite (nth_map 0) // li mulr0.
Qed.

Lemma zero_row_mul k m (C : 'M[F]_k) (B : 'M[F]_(k, m)) (i : 'I_k) :
  (forall j, C j i = 0) -> forall j, (C^T *m B) i j = 0.
Proof. by move=> h j; rewrite mxE big1 // => l _; rewrite mxE h mul0r. Qed.

(* what one backward step returns for an augmented period *)
Definition R_sim t (a_prev : 'cV[F]_na) c x : Prop :=
  [/\ oxi x = T *m usubmx a_prev + K + P *m out_u x + aimp vs t + genR t *m dsubmx a_prev,
      ov x = dsubmx a_prev,
      forall i : 'I_nu, nth 0 (c_std_u c) i = 0 -> out_u x i ord0 = c_u0 c i ord0 &
      s_w (so x) = c_w0 c].

Local Opaque kf_step one_step_back.

Lemma aug_sim_step t c a Q st : is_sym Q ->
  let f := kstep a Q (aug t c) in
  let o := (osb (mkFper (aug t c) f) st).1 in let st' := (osb (mkFper (aug t c) f) st).2 in
  R_sim t (a + Q *m Tr st') c (mkSper (mkFper (aug t c) f) o).
Proof.
move=> sQ; cbv zeta.
have sp : step_spec a Q (kstep a Q (aug t c)) := kf_step_spec a sQ (aug_ok t c).
have := sim_step st (proj1 (aug_ok t c)) sp; cbv zeta; rewrite (aug_trans t c) => Hs.
have := osb_spec (kstep a Q (aug t c)) st; cbv zeta; case=> [Er _ Eu Ew _].
set o := (osb _ st).1 in Hs Er Eu Ew *; set st' := (osb _ st).2 in Hs Er Eu Ew *.
have Eo : out_u (mkSper (mkFper (aug t c) (kstep a Q (aug t c))) o) = s_u o by rewrite /out_u /= col_vec_nth.
split.
- by rewrite /out_xi /= Hs col_mxKu Eo.
- by rewrite /out_v /= Hs col_mxKd.
- move=> i li; rewrite Eo Eu (sp_P_cov_u sp) /= trmx_mul mxE mxE [X in _ + X]big1 ?addr0 // => j _.
  by rewrite zero_row_mul ?mul0r // => k; exact: cov_row0.
- by rewrite Ew (sp_H_cov_w sp) /= mul0mx trmx0 mul0mx addr0.
Qed.

(* relations along a run: one per simulated column, each from the smoothed state before it *)
Fixpoint cchain (R : nat -> 'cV[F]_na -> ccol -> sper -> Prop) t (a_prev : 'cV[F]_na)
    (cols : seq ccol) (l : seq sper) : Prop :=
  match cols, l with
  | c :: cols', x :: l' => R t a_prev c x /\ cchain R t.+1 (s_a (so x)) cols' l'
  | [::], [::] => True
  | _, _ => False
  end.

Theorem cond_sim_run t a Q cols : is_sym Q ->
  cchain R_sim t (a + Q *m Tr (sback (krun a Q (cper t cols))).2) cols (sback (krun a Q (cper t cols))).1.
Proof.
elim: cols t a Q => [|c cols IH] t a Q sQ; first by [].
rewrite [cper _ _]/= krun_cons sback_cons.
have sp := kf_step_spec a sQ (aug_ok t c).
set fs := krun _ _ (cper t.+1 cols).
have IHc := IH t.+1 (f_a1 (kstep a Q (aug t c))) _ (sp_Q1s sp); rewrite -/fs in IHc.
have Ha := smooth_alt_step (sback fs).2 sp.
rewrite /=; split; first exact: aug_sim_step.
by rewrite Ha.
Qed.


(* ---- exogenized cells ---- *)

Notation ocurr := (@out_curr M n nw curr inc).

Lemma Zxi_mul (xi : 'cV[F]_n) : Zxi *m xi = mc_rows curr xi.
Proof. by rewrite /Z_xi /= -mc_rows_mul mul1mx. Qed.

Definition R_hit (t : nat) (a_prev : 'cV[F]_na) c x : Prop :=
  mc_sel (c_mask c) (ocurr x) = mc_sel (c_mask c) (c_target c).

Lemma aug_hit_step t c a Q st : is_sym Q ->
  let f := kstep a Q (aug t c) in
  f_F f \in unitmx ->
  R_hit t a c (mkSper (mkFper (aug t c) f) (osb (mkFper (aug t c) f) st).1).
Proof.
move=> sQ; cbv zeta => uF.
have sp : step_spec a Q (kstep a Q (aug t c)) := kf_step_spec a sQ (aug_ok t c).
have := data_step st (proj2 (aug_ok t c)) sp uF; cbv zeta.
set o := (osb _ st).1.
rewrite /R_hit /out_curr /out_xi /= mul0mx !addr0 -{1}[s_a o]vsubmxK mul_row_col mul0mx addr0.
by rewrite -mc_sel_mul Zxi_mul.
Qed.

Theorem cond_hit_run t a Q cols : is_sym Q -> all_unit (krun a Q (cper t cols)) ->
  cchain R_hit t a cols (sback (krun a Q (cper t cols))).1.
Proof.
elim: cols t a Q => [|c cols IH] t a Q sQ; first by [].
rewrite [cper _ _]/= krun_cons sback_cons; case=> uF uFs.
have sp := kf_step_spec a sQ (aug_ok t c).
rewrite /=; split; first exact: aug_hit_step.
have := IH t.+1 (f_a1 (kstep a Q (aug t c))) _ (sp_Q1s sp) uFs.
set l := (sback _).1; set a1 := f_a1 _; set a2 := s_a _.
by elim: (cols) (t.+1) a1 a2 l => [|c' cs IHc] t' b1 b2 [|x l'] //= [h /IHc hh]; split => //; exact: hh.
Qed.

Local Transparent kf_step one_step_back.

(* ---- the initial condition: zero MSE on xi ---- *)

Lemma init_smoothed (a0 : 'cV[F]_n) std_v (r : 'cV[F]_na) :
  imed a0 + imse std_v *m r = col_mx a0 (cov_from_std M nv std_v *m dsubmx r).
Proof.
rewrite /aug_init_med /aug_init_mse /= -{1}[r]vsubmxK mul_block_col !mul0mx addr0 add0r add_col_mx.
by rewrite addr0 add0r.
Qed.

Lemma blockF q k (Tm : 'M[F]_n) (R : 'M[F]_(n, k)) (Sv : 'M[F]_k) (Pm : 'M[F]_(n, nu)) (Su : 'M[F]_nu)
    (Zs : 'M[F]_(q, n)) :
  row_mx Zs (0 : 'M_(q, k))
    *m (block_mx Tm R 0 1%:M *m block_mx 0 0 0 Sv *m (block_mx Tm R 0 1%:M)^T + col_mx Pm 0 *m Su *m (col_mx Pm 0)^T)
    *m (row_mx Zs (0 : 'M_(q, k)))^T
  = Zs *m (R *m Sv *m R^T + Pm *m Su *m Pm^T) *m Zs^T.
Proof.
rewrite mulmx_block tr_block_mx mulmx_block mul_col_mx tr_col_mx mul_col_row.
have simp := (trmx0, trmx1, mul0mx, mulmx0, mul1mx, mulmx1, add0r, addr0).
rewrite !simp add_block_mx !simp tr_row_mx mul_row_block !simp mul_row_col !simp.
by [].
Qed.

(* the prediction MSE matrix of the first simulated column: the exogenized rows of
   R Sigma_v R' + P Sigma_u P' (R = _generate_R(0), Sigma_v, Sigma_u the variances of the endogenized anticipated and
   unanticipated shocks); "all_unit" asks for its invertibility, and for that of its later counterparts *)
Lemma first_F (a0 : 'cV[F]_n) std_v c :
  let Zs := mc_sel (c_mask c) Zxi in
  f_F (kstep (imed a0) (imse std_v) (aug 0 c))
  = Zs *m (genR 0%N *m cov_from_std M nv std_v *m (genR 0%N)^T
           + P *m cov_from_std M nu (c_std_u c) *m P^T) *m Zs^T.
Proof.
move=> Zs; have sp := kf_step_spec (imed a0) (init_mse_sym std_v) (aug_ok 0 c).
rewrite (sp_F sp) (sp_Q0 sp).
have -> : p_H (aug 0 c) = 0 by [].
rewrite !mul0mx addr0; exact: blockF.
Qed.

(* ---- _generate_R is the anticipated impact of the spread-out increments ---- *)

Lemma mcolselE m k msk (A : 'M[F]_(m, k)) : (mc_sel msk A^T)^T = A *m (mc_sel msk (1%:M : 'M[F]_k)^T)^T.
Proof. by rewrite trmx1 -{1}[A^T]mul1mx mc_sel_mul trmx_mul trmxK. Qed.

Notation dvl := (@dv_list M nu).
Notation isum := (@imp_sum M n nu Rx).

Lemma gen_R_mul t i (ic : incidence) (v : 'cV[F]_(nv_of ic)) :
  @gen_R M n nu Rx t i ic *m v = isum t i (dvl ic v).
Proof.
elim: ic i v => [|c ic IH] i v /=; first by rewrite mul_thin_flat.
rewrite -{1}[v]vsubmxK mul_row_col IH; congr (_ + _).
by case: (Nat.ltb i t); rewrite ?mul0mx // mcolselE mulmxA.
Qed.


(* ---- linearity of the anticipated impact ---- *)

Notation addc := (@add_cols M nu).

Lemma size_dvl (ic : incidence) (v : 'cV[F]_(nv_of ic)) : size (dvl ic v) = size ic.
Proof. by elim: ic v => [|c ic IH] v //=; rewrite IH. Qed.

Lemma size_addc (v1 v2 : seq 'cV[F]_nu) : size v1 = size v2 -> size (addc v1 v2) = size v1.
Proof. by elim: v1 v2 => [|x v1 IH] [|y v2] //= [/IH ->]. Qed.

Lemma isum_add t i (v1 v2 : seq 'cV[F]_nu) : size v1 = size v2 ->
  isum t i (addc v1 v2) = isum t i v1 + isum t i v2.
Proof.
elim: v1 v2 i => [|x v1 IH] [|y v2] i //=; first by rewrite addr0.
case=> /IH ->; case: (Nat.ltb i t); first by rewrite !add0r.
by rewrite mulmxDr addrACA.
Qed.

(* pointwise difference of two lists of columns *)
Fixpoint subc k (l1 l2 : seq 'cV[F]_k) : seq 'cV[F]_k :=
  match l1, l2 with x :: r1, y :: r2 => (x - y) :: subc r1 r2 | _, _ => [::] end.

Lemma isum_sub t i (v1 v2 : seq 'cV[F]_nu) : size v1 = size v2 ->
  isum t i (subc v1 v2) = isum t i v1 - isum t i v2.
Proof.
elim: v1 v2 i => [|x v1 IH] [|y v2] i //=; first by rewrite subr0.
case=> /IH ->; case: (Nat.ltb i t); first by rewrite !add0r.
by rewrite mulmxBr opprD addrACA.
Qed.

Lemma dvl_sub (ic : incidence) (v1 v2 : 'cV[F]_(nv_of ic)) : dvl ic (v1 - v2) = subc (dvl ic v1) (dvl ic v2).
Proof.
elim: ic v1 v2 => [|c ic IH] v1 v2 //=.
by rewrite [usubmx _]linearB [dsubmx _]linearB /= IH mulmxBr.
Qed.

Lemma subc_addc_l (v d1 d2 : seq 'cV[F]_nu) : size v = size d1 -> size d1 = size d2 ->
  subc (addc v d1) (addc v d2) = subc d1 d2.
Proof.
elim: v d1 d2 => [|x v IH] [|y d1] [|z d2] //= [e1] [e2]; rewrite IH //.
by congr (_ :: _); rewrite opprD addrACA subrr add0r.
Qed.

(* ---- the ordinary first-order simulation (simulate_flat; C01) ---- *)

(* xi_t = T xi_{t-1} + K + P u_t + impact_t from column t on *)
Fixpoint flat_path (imp : nat -> 'cV[F]_n) (t : nat) (xi : 'cV[F]_n) (us : seq 'cV[F]_nu) : seq 'cV[F]_n :=
  if us is u :: r then
    let xi' := T *m xi + K + P *m u + imp t in xi' :: flat_path imp t.+1 xi' r
  else [::].

(* its homogeneous part: the response to shock increments *)
Fixpoint lin_path (imp : nat -> 'cV[F]_n) (t : nat) (xi : 'cV[F]_n) (us : seq 'cV[F]_nu) : seq 'cV[F]_n :=
  if us is u :: r then
    let xi' := T *m xi + P *m u + imp t in xi' :: lin_path imp t.+1 xi' r
  else [::].

Lemma flat_path_ext imp1 imp2 t xi us : (forall k, imp1 k = imp2 k) -> flat_path imp1 t xi us = flat_path imp2 t xi us.
Proof. by move=> E; elim: us t xi => [|u us IH] t xi //=; rewrite E IH. Qed.

Lemma lin_path_ext imp1 imp2 t xi us : (forall k, imp1 k = imp2 k) -> lin_path imp1 t xi us = lin_path imp2 t xi us.
Proof. by move=> E; elim: us t xi => [|u us IH] t xi //=; rewrite E IH. Qed.

Lemma flat_path_sub imp1 imp2 t (y1 y2 : 'cV[F]_n) us1 us2 : size us1 = size us2 ->
  subc (flat_path imp1 t y1 us1) (flat_path imp2 t y2 us2)
  = lin_path (fun k => imp1 k - imp2 k) t (y1 - y2) (subc us1 us2).
Proof.
elim: us1 us2 t y1 y2 => [|u1 us1 IH] [|u2 us2] t y1 y2 //= [e].
have E : T *m y1 + K + P *m u1 + imp1 t - (T *m y2 + K + P *m u2 + imp2 t)
          = T *m (y1 - y2) + P *m (u1 - u2) + (imp1 t - imp2 t).
  by rewrite !mulmxBr; mx_abel.
by rewrite -E IH.
Qed.

Lemma lin_path0 t us : (forall u, List.In u us -> u = 0) -> 
  forall xi, List.In xi (lin_path (fun=> 0) t 0 us) -> xi = 0.
Proof.
elim: us t => [|u us IH] t h xi //=.
have u0 : u = 0 by apply: h; left.
rewrite u0 !mulmx0 !addr0 => -[<- //|]; apply: IH => v hv; apply: h; by right.
Qed.


(* ---- from the chain of one-period relations to paths ---- *)

Notation ovs := (@out_vs M n nu nw vs inc).

Lemma chain_paths t (aprev : 'cV[F]_na) cols (l : seq sper) : cchain R_sim t aprev cols l ->
  [seq oxi x | x <- l]
    = flat_path (fun k => aimp vs k + genR k *m dsubmx aprev) t (usubmx aprev) [seq out_u x | x <- l]
  /\ (forall x, List.In x l -> ov x = dsubmx aprev).
Proof.
elim: cols l t aprev => [|c cols IH] [|x l] t aprev //=.
case=> -[E1 E2 _ _] /IH [Ep Ev].
rewrite /out_xi /out_v /= in E1 E2 Ep Ev.
split; last by move=> y [<- //|/Ev ->].
rewrite addrA -E1; congr (_ :: _).
by rewrite Ep E2.
Qed.

Lemma out_vs_eq (v : 'cV[F]_nv) (l : seq sper) : (forall x, List.In x l -> ov x = v) -> l <> [::] ->
  ovs l = addc vs (dvl inc v).
Proof.
move=> h ne; rewrite /out_vs; case E: (List.rev l) => [|x r].
  by case: ne; rewrite -(List.rev_involutive l) E.
by rewrite h //; apply/List.in_rev; rewrite E; left.
Qed.

Lemma cchain_size R t (aprev : 'cV[F]_na) cols (l : seq sper) : cchain R t aprev cols l -> size l = size cols.
Proof. by elim: cols l t aprev => [|c cols IH] [|x l] t aprev //= [_ /IH ->]. Qed.

Lemma cchain_impl (R1 R2 : nat -> 'cV[F]_na -> ccol -> sper -> Prop) t (aprev : 'cV[F]_na) cols (l : seq sper) :
  (forall t a c x, R1 t a c x -> R2 t a c x) -> cchain R1 t aprev cols l -> cchain R2 t aprev cols l.
Proof. by move=> h; elim: cols l t aprev => [|c cols IH] [|x l] t aprev //= [/h ? /IH ?]. Qed.

(* ---------------------------------------------------------------- *)
(* the conditional simulation of one frame                           *)
(* ---------------------------------------------------------------- *)
Section Run.
Variables (a0 : 'cV[F]_n) (std_v : seq F) (cols : seq ccol).

Definition run_fs : seq fper := krun (imed a0) (imse std_v) (cper 0 cols).
Definition run_l : seq sper := @cond_run M n nu nw curr s Rx vs inc a0 std_v cols.
(* the smoothed values of the endogenized anticipated shocks (increments over their inputs) *)
Definition vhat : 'cV[F]_nv := cov_from_std M nv std_v *m dsubmx (Tr (sback run_fs).2).

Lemma run_lE : run_l = (sback run_fs).1.
Proof. by []. Qed.

Lemma run_chain : cchain R_sim 0 (col_mx a0 vhat) cols run_l.
Proof. by rewrite -init_smoothed run_lE; apply: cond_sim_run; exact: init_mse_sym. Qed.

Lemma run_size : size run_l = size cols.
Proof. exact: cchain_size run_chain. Qed.

Lemma run_vs : cols <> [::] -> ovs run_l = addc vs (dvl inc vhat).
Proof.
move=> ne; have [_ Ev] := chain_paths run_chain; rewrite col_mxKd in Ev.
apply: out_vs_eq Ev _ => E; move: run_size; rewrite E.
by case: (cols) ne.
Qed.

(* the result is the ordinary first-order simulation of the returned shocks from the given initial condition *)
Theorem run_is_simulation : size vs = size inc ->
  [seq oxi x | x <- run_l] = flat_path (aimp (ovs run_l)) 0 a0 [seq out_u x | x <- run_l].
Proof.
move=> sz; have := run_size; have := run_vs; case Ec: cols => [|c0 cs] Hv Hs.
  by case: run_l Hs.
have [-> _] := chain_paths run_chain; rewrite col_mxKu col_mxKd Hv //.
apply: flat_path_ext => k.
by rewrite /ant_impact isum_add ?size_dvl // gen_R_mul.
Qed.


Lemma size_run_vs : size vs = size inc -> size (ovs run_l) = size vs.
Proof.
move=> sz; have := run_size; have := run_vs; case Ec: cols => [|c0 cs] Hv Hs.
  by case: run_l Hs.
by rewrite Hv // size_addc // size_dvl.
Qed.

(* pairs (simulated column, its result) *)
Fixpoint pall (R : ccol -> sper -> Prop) (cs : seq ccol) (l : seq sper) : Prop :=
  match cs, l with
  | c :: cs', x :: l' => R c x /\ pall R cs' l'
  | [::], [::] => True
  | _, _ => False
  end.

Lemma cchain_pall (R : nat -> 'cV[F]_na -> ccol -> sper -> Prop) (R' : ccol -> sper -> Prop) t (ap : 'cV[F]_na) cs l :
  (forall t a c x, R t a c x -> R' c x) -> cchain R t ap cs l -> pall R' cs l.
Proof. by move=> h; elim: cs l t ap => [|c cs IH] [|x l] t ap //= [/h ? /IH ?]. Qed.

(* every exogenized cell carries its input value *)
Theorem run_hits : all_unit run_fs ->
  pall (fun c x => forall k : 'I_ncur, nth false (c_mask c) k -> ocurr x k ord0 = c_target c k ord0) cols run_l.
Proof.
move=> uF; have := cond_hit_run (init_mse_sym std_v) uF; rewrite -/run_fs -run_lE.
apply: cchain_pall => t a c x /mc_sel_eqP h k /h /rowP/(_ ord0).
by rewrite !mxE.
Qed.

(* ... and that value is the variable's entry of the transition vector *)
Lemma ocurr_entry x (k : 'I_ncur) (r : 'I_n) : nth 0%N curr k = r -> ocurr x k ord0 = oxi x r ord0.
Proof. by move=> E; rewrite /out_curr /= (mc_rows_entry _ _ E). Qed.

Lemma dvl_off (ic : incidence) (v : 'cV[F]_(nv_of ic)) k (j : 'I_nu) :
  ~~ nth false (nth [::] ic k) j -> nth 0 (dvl ic v) k j ord0 = 0.
Proof.
elim: ic v k => [|c ic IH] v [|k] //=; rewrite ?mxE //; last exact: IH.
move=> cj; rewrite big1 // => q _.
rewrite [X in X * _](_ : _ = 0) ?mul0r // mxE mc_selE mxE.
case E: (sel_ord c nu q) => [r|] //; rewrite trmx1 mxE.
case: eqP => // rj; move: (sel_ord_set E); rewrite rj.
by rewrite (negbTE cj).
Qed.

Lemma nth_addc (v1 v2 : seq 'cV[F]_nu) k : size v1 = size v2 ->
  nth 0 (addc v1 v2) k = nth 0 v1 k + nth 0 v2 k.
Proof.
elim: v1 v2 k => [|x v1 IH] [|y v2] [|k] //=; rewrite ?addr0 //.
by case=> /IH.
Qed.

(* only endogenized shocks at endogenized dates differ from their inputs *)
Theorem run_changes_only_endogenized : size vs = size inc ->
  pall (fun c x => (forall i : 'I_nu, nth 0 (c_std_u c) i = 0 -> out_u x i ord0 = c_u0 c i ord0)
                   /\ s_w (so x) = c_w0 c) cols run_l
  /\ (forall k (j : 'I_nu), ~~ nth false (nth [::] inc k) j ->
        nth 0 (ovs run_l) k j ord0 = nth 0 vs k j ord0).
Proof.
move=> sz; split.
  by apply: cchain_pall run_chain => t a c x [].
move=> k j off; have := run_size; have := run_vs; case Ec: cols => [|c0 cs] Hv Hs.
  by case: run_l Hs.
by rewrite Hv // nth_addc ?size_dvl // mxE dvl_off // addr0.
Qed.


(* ---- an exactly identified swap inverts a simulation ---- *)

Fixpoint pall2 A (R : ccol -> A -> Prop) (cs : seq ccol) (l : seq A) : Prop :=
  match cs, l with
  | c :: cs', y :: l' => R c y /\ pall2 R cs' l'
  | [::], [::] => True
  | _, _ => False
  end.

Lemma pall_sub k (g : sper -> 'cV[F]_k) (R1 : ccol -> sper -> Prop) (R2 R3 : ccol -> 'cV[F]_k -> Prop) cs l l2 :
  (forall c x y, R1 c x -> R2 c y -> R3 c (g x - y)) ->
  pall R1 cs l -> pall2 R2 cs l2 -> pall2 R3 cs (subc [seq g x | x <- l] l2).
Proof.
move=> h; elim: cs l l2 => [|c cs IH] [|x l] [|y l2] //= [r1 p1] [r2 p2].
by split; [exact: h | exact: IH].
Qed.

Lemma subc_eq0 k (l1 l2 : seq 'cV[F]_k) : size l1 = size l2 ->
  (forall d, List.In d (subc l1 l2) -> d = 0) -> l1 = l2.
Proof.
elim: l1 l2 => [|x l1 IH] [|y l2] //= [sz] h.
rewrite (IH l2 sz); last by move=> d hd; apply: h; right.
by congr (_ :: _); apply/subr0_eq/h; left.
Qed.

(* a shock increment that lives on the endogenized_unanticipated cells of the column *)
Definition off_cells c (u : 'cV[F]_nu) : Prop := forall i : 'I_nu, nth 0 (c_std_u c) i = 0 -> u i ord0 = 0.
(* the exogenized cells of the column, read off a transition vector *)
Definition at_targets c (xi : 'cV[F]_n) : 'cV[F]_(count_true (c_mask c)) := mc_sel (c_mask c) (mc_rows curr xi).

(* "the impact matrix from the endogenized cells to the exogenized cells is non-singular": the linear map
   (increments of the endogenized unanticipated shocks, increments w of the endogenized anticipated shocks)
   |-> (response of the exogenized cells) has a trivial kernel; the response is the homogeneous first-order
   recursion started at zero *)
Definition impact_nonsingular : Prop :=
  forall (dus : seq 'cV[F]_nu) (w : 'cV[F]_nv), size dus = size cols ->
    pall2 off_cells cols dus ->
    pall2 (fun c (dxi : 'cV[F]_n) => at_targets c dxi = 0) cols (lin_path (fun t => isum t 0 (dvl inc w)) 0 0 dus) ->
    (forall du, List.In du dus -> du = 0) /\ w = 0.

Theorem run_inverts_swap (ustar : seq 'cV[F]_nu) (vstar : 'cV[F]_nv) :
  size vs = size inc -> size cols = size inc -> size ustar = size cols ->
  all_unit run_fs -> impact_nonsingular ->
  pall2 (fun c (u : 'cV[F]_nu) => forall i : 'I_nu, nth 0 (c_std_u c) i = 0 -> u i ord0 = c_u0 c i ord0) cols ustar ->
  let vsstar := addc vs (dvl inc vstar) in
  let xistar := flat_path (aimp vsstar) 0 a0 ustar in
  pall2 (fun c (xi : 'cV[F]_n) => mc_sel (c_mask c) (c_target c) = at_targets c xi) cols xistar ->
  [/\ [seq out_u x | x <- run_l] = ustar, ovs run_l = vsstar & [seq oxi x | x <- run_l] = xistar].
Proof.
move=> szv szc szu uF ns Hu vsstar xistar Ht.
have Evs : ovs run_l = addc vs (dvl inc vhat).
  have := run_size; have := run_vs; case Ec: cols => [|c0 cs] Hv Hs; last exact: Hv.
  have v0 : vs = [::] by apply: size0nil; rewrite szv -szc Ec.
  by case: run_l Hs => // _; rewrite /out_vs /= v0.
have Esim := run_is_simulation szv.
have [Hk _] := run_changes_only_endogenized szv.
have Hh : pall (fun c x => mc_sel (c_mask c) (mc_rows curr (oxi x)) = mc_sel (c_mask c) (c_target c)) cols run_l.
  have := cond_hit_run (init_mse_sym std_v) uF; rewrite -/run_fs -run_lE.
  by apply: cchain_pall => t a c x.
set us_hat := [seq out_u x | x <- run_l] in Esim *.
set xis_hat := [seq oxi x | x <- run_l] in Esim *.
have szh : size us_hat = size ustar by rewrite size_map run_size szu.
(* the difference between the result and the driving simulation is a homogeneous response *)
have Ed : subc xis_hat xistar
          = lin_path (fun t => isum t 0 (dvl inc (vhat - vstar))) 0 0 (subc us_hat ustar).
  rewrite Esim Evs /xistar flat_path_sub // subrr; apply: lin_path_ext => k.
  by rewrite /ant_impact -isum_sub ?size_addc ?size_dvl // subc_addc_l ?size_dvl // dvl_sub.
have [H0 Hw] : (forall du, List.In du (subc us_hat ustar) -> du = 0) /\ vhat - vstar = 0.
  apply: ns.
  - have: size us_hat = size ustar := szh.
    by rewrite -szu; elim: (us_hat) (ustar) => [|? ? IH] [|? ?] //= [/IH ->].
  - apply: (pall_sub _ Hk Hu) => c x y [hx _] hy i li.
    by rewrite mxE [X in _ + X]mxE hx // hy // subrr.
  - rewrite -Ed; apply: (pall_sub _ Hh Ht) => c x y hx hy.
    by rewrite /at_targets mc_rows_sub mc_sel_sub hx hy subrr.
have Eu : us_hat = ustar := subc_eq0 szh H0.
have Ev : vhat = vstar := subr0_eq Hw.
by split; rewrite // ?Evs ?Ev // Esim Evs Ev Eu.
Qed.

End Run.

End PlansProofs.

(* ---------------------------------------------------------------- *)
(* non-vacuity: a concrete plan meets every hypothesis used above    *)
(* ---------------------------------------------------------------- *)
Section Example.
Variable F : realFieldType.
Variables (flog : F -> F) (flog2pi : F).
Notation M := (MC flog flog2pi).
Variables rho tau : F.

(* x_t = rho x_{t-1} + e_t; one simulated period in which x is exogenized (target tau) and e endogenized
   (unanticipated, std 1); nothing anticipated *)
Definition ex_curr : seq nat := [:: 0%N].
Definition ex_s : csys M 1 1 := @mkCsys M 1 1 (rho%:M) 1%:M 0.
Definition ex_col : ccol M 1 0 ex_curr := @mkCcol M 1 0 ex_curr [:: true] (tau%:M) [:: 1] 0 0.
Definition ex_inc : incidence := [:: [:: false]].
Definition ex_vs : seq 'cV[F]_1 := [:: 0].
Definition ex_Rx : nat -> 'M[F]_(1, 1) := fun=> 0.

Lemma ex_sel k (A : 'M[F]_(1, k)) : mc_sel [:: true] A = A.
Proof.
rewrite mc_selE; apply/matrixP=> i j; rewrite !mxE.
have [i' E] := @sel_ord_kept [:: true] 1 ord0 isT.
have i0 : i' = 0%N.
  case: i' E => // i'; rewrite /sel_ord drop_oversize //.
  exact: leq_trans (size_mask_le _ _) _.
by rewrite i0 in E; rewrite !ord1 /= E ord1.
Qed.

Lemma ex_rows k (A : 'M[F]_(1, k)) : mc_rows [:: 0%N] A = A.
Proof. by apply/matrixP=> i j; rewrite (@mc_rows_entry _ _ _ _ _ _ ord0) ?ord1. Qed.

Lemma ex_cov1 : cov_from_std M 1 [:: 1] = 1%:M :> 'M[F]_1.
Proof. by apply/matrixP=> i j; rewrite !mxE !ord1 /= mul1r. Qed.

Theorem ex_hypotheses :
  let cols := [:: ex_col] in
  [/\ size ex_vs = size ex_inc, size cols = size ex_inc,
      all_unit (run_fs ex_s ex_Rx ex_vs ex_inc 0 [::] cols) &
      impact_nonsingular ex_s ex_Rx ex_inc cols].
Proof.
split=> //.
- rewrite /run_fs /=; split=> //.
  have /= -> := @first_F F flog flog2pi 1 1 0 ex_curr ex_s ex_Rx ex_vs ex_inc 0 [::] ex_col.
  rewrite [X in X *m _ *m _^T + _]thinmx0 !mul0mx add0r.
  have /= -> := ex_cov1.
  by rewrite /ex_curr ex_rows ex_sel !mulmx1 trmx1 ?mulmx1 ?mul1mx unitmx1.
- move=> [|du [|? ?]] w //= _ _ [h _]; split; last by rewrite [w]flatmx0.
  move: h; rewrite /at_targets /= ex_rows ex_sel !mulmx0 !add0r mul1mx.
  by rewrite /ex_Rx mul0mx !addr0 => -> d [<-|[]].
Qed.

End Example.
