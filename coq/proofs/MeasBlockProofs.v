(* The measurement block of the first-order solution (fords/solutions.py: _solve_measurement_equations), as regenerated
   from the source into gen/MeasBlockGen.v, instantiated on MathComp matrices over an arbitrary field.

   The linearised measurement equations are  F y + G xi + Hc + J w = 0  (F = Jacobian w.r.t. the measurement variables,
   NOT assumed diagonal or symmetric).  meas_block_solves: for invertible F, the triple (Z, H, D) the code computes turns
   them into the observation equation  y = Z xi + D + H w  the Kalman filter uses - the two are EQUIVALENT for every
   y, xi, w, every dimension.  Hence (props/C08.v) estimates that satisfy the filter's observation equation satisfy the
   model's measurement equations. *)
From mathcomp Require Import all_ssreflect all_algebra.
From Verif.lib Require Import MatOps MatMC.
From Verif.gen Require Import MeasBlockGen.
Set Implicit Arguments.
Unset Strict Implicit.
Import GRing.Theory.
Local Open Scope ring_scope.

Section MeasBlock.
Variable K : fieldType.
Variables (flog : K -> K) (flog2pi : K).
Notation M := (MC flog flog2pi).
Variables ny nxi nw na : nat.
Variables (F : 'M[K]_ny) (G : 'M[K]_(ny, nxi)) (J : 'M[K]_(ny, nw)) (Hc : 'cV[K]_ny) (Ua : 'M[K]_(nxi, na)).

Notation Z := (@meas_Z M ny nxi nw na F G J Hc Ua).
Notation H := (@meas_H M ny nxi nw na F G J Hc Ua).
Notation D := (@meas_D M ny nxi nw na F G J Hc Ua).
Notation Za := (@meas_Za M ny nxi nw na F G J Hc Ua).

Lemma unitmx_opp : F \in unitmx -> (- F) \in unitmx.
Proof. by move=> uF; rewrite -scaleN1r unitmxZ // rpredN unitr1. Qed.

(* the defining equations of the three matrices *)
Lemma meas_block_defining : F \in unitmx -> F *m Z + G = 0 /\ F *m H + J = 0 /\ F *m D + Hc = 0.
Proof.
move=> uF; have uA := unitmx_opp uF.
rewrite /meas_Z /meas_H /meas_D /left_div /=.
have e : forall p (B : 'M[K]_(ny, p)), F *m (invmx (- F) *m B) + B = 0.
  move=> p B; rewrite -[F in F *m _]opprK mulNmx mulKVmx //; exact: addNr.
by split; [|split]; apply: e.
Qed.

(* any (z, h, d) with these defining equations turns the measurement equations into the observation equation *)
Lemma solved_block_equiv (z : 'M[K]_(ny, nxi)) (h : 'M[K]_(ny, nw)) (d : 'cV[K]_ny) :
  F \in unitmx -> F *m z + G = 0 -> F *m h + J = 0 -> F *m d + Hc = 0 ->
  forall (y : 'cV[K]_ny) (xi : 'cV[K]_nxi) (w : 'cV[K]_nw),
    (F *m y + G *m xi + Hc + J *m w = 0) <-> (y = z *m xi + d + h *m w).
Proof.
move=> uF eZ eH eD y xi w.
have fZ : F *m z = - G by apply/eqP; rewrite -subr_eq0 opprK; apply/eqP.
have fH : F *m h = - J by apply/eqP; rewrite -subr_eq0 opprK; apply/eqP.
have fD : F *m d = - Hc by apply/eqP; rewrite -subr_eq0 opprK; apply/eqP.
have -> : F *m y + G *m xi + Hc + J *m w = F *m (y - (z *m xi + d + h *m w)).
  by rewrite mulmxBr !mulmxDr !mulmxA fZ fH fD !mulNmx !opprD !opprK !addrA.
split.
- move=> e; apply/eqP; rewrite -subr_eq0; apply/eqP.
  by rewrite -[LHS](mulKmx uF) e mulmx0.
- by move=> <-; rewrite subrr mulmx0.
Qed.

Theorem meas_block_solves : F \in unitmx ->
  forall (y : 'cV[K]_ny) (xi : 'cV[K]_nxi) (w : 'cV[K]_nw),
    (F *m y + G *m xi + Hc + J *m w = 0) <-> (y = Z *m xi + D + H *m w).
Proof.
move=> uF; have [eZ [eH eD]] := meas_block_defining uF.
exact: (solved_block_equiv uF eZ eH eD).
Qed.

(* Za = Z Ua: the observation equation on the triangular state alpha (xi = Ua alpha) *)
Lemma meas_Za_eq : Za = Z *m Ua.
Proof. by []. Qed.

End MeasBlock.

(* Non-vacuity: the only hypothesis (F invertible) is satisfiable in every dimension, e.g. by F = -I (every measurement
   equation of the form  y_j = ...  contributes -1 on the diagonal); non-symmetric instances are exercised by the
   correspondence and the falsifier (generated models whose measurement equations refer to other measurement variables). *)
Example meas_block_nonvacuous (n : nat) : ((-1)%:M : 'M[rat]_n) \in unitmx.
Proof. by rewrite unitmxE det_scalar unitrX // unitrN unitr1. Qed.
