(* C10: pointwise (total-map) specification of fill_missing of model/SeriesOps.v over a contiguous span
   (the whole series, or an explicit range of periods), for every carrier. *)
From Coq Require Import ZArith List Bool Lia.
From Verif Require Import lib.Arith model.Series model.SeriesOps proofs.SeriesProofs proofs.SeriesOpsProofs.
Import ListNotations.
Open Scope Z_scope.

Section FillProofs.
Variable A : Arith.
Notation V := (car A).
Notation series := (series A).
Hypothesis miss_law : forall x : V, is_miss A x = true -> x = miss A.

(* variant c of s over the periods a..b *)
Definition col_span (s : series) (a b : Z) (c : nat) : list V := map (fun u => cell A s u c) (zrange a (b + 1)).

(* the periods fill_missing works on *)
Definition fill_dates (span : option (list Z)) (s : series) : list Z :=
  match span with Some d => d | None => span_list A s end.

Lemma transpose_as_map (cols : list (list V)) a b :
  transpose_cols A cols (length (zrange a (b + 1)))
  = map (fun u => map (fun c => nth (Z.to_nat (u - a)) c (miss A)) cols) (zrange a (b + 1)).
Proof.
  unfold transpose_cols, zrange. rewrite map_length, seq_length, map_map. apply map_ext. intros i.
  apply map_ext. intros c. f_equal. lia.
Qed.

(* rows: inside the filled range every variant is the filled column at the period's position; every other
   period keeps its row *)
Theorem fill_missing_rows fr k span (s : series) a b t : WF A s ->
  fill_dates span s = zrange a (b + 1) ->
  row_at A (fill_missing A fr k span s) t
  = if (a <=? t) && (t <=? b)
    then map (fun c => nth (Z.to_nat (t - a)) (fill_col A k (zrange a (b + 1)) c (col_span s a b c)) (miss A))
             (seq 0 (s_nv s))
    else row_at A s t.
Proof.
  intros Hwf Hd. unfold fill_missing. fold (fill_dates span s). rewrite Hd.
  rewrite row_at_trim by (try assumption; now apply set_data_WF).
  rewrite row_at_set_data by assumption.
  rewrite transpose_as_map.
  destruct (andb _ _) eqn:E.
  - apply andb_true_iff in E as [E1 E2]. apply Z.leb_le in E1, E2.
    rewrite last_assoc_map by (apply In_zrange; lia).
    rewrite bcast_row_id by (now rewrite !map_length, seq_length).
    rewrite map_map. apply map_ext. intros c. do 2 f_equal.
    unfold col_span, col_of, get_data. rewrite map_map. reflexivity.
  - rewrite last_assoc_notin; [reflexivity|]. intros Hin. apply In_zrange in Hin.
    apply andb_false_iff in E as [E|E]; apply Z.leb_gt in E; lia.
Qed.

Theorem fill_missing_outside fr k span (s : series) a b t : WF A s ->
  fill_dates span s = zrange a (b + 1) -> ~ (a <= t <= b) ->
  row_at A (fill_missing A fr k span s) t = row_at A s t.
Proof.
  intros Hwf Hd Ht. rewrite (fill_missing_rows fr k span s a b t Hwf Hd).
  destruct (Z.leb_spec a t); destruct (Z.leb_spec t b); simpl; try reflexivity. lia.
Qed.

Lemma fill_missing_cell fr k span (s : series) a b t c : WF A s ->
  fill_dates span s = zrange a (b + 1) -> a <= t <= b -> (c < s_nv s)%nat ->
  cell A (fill_missing A fr k span s) t c
  = nth (Z.to_nat (t - a)) (fill_col A k (zrange a (b + 1)) c (col_span s a b c)) (miss A).
Proof.
  intros Hwf Hd Ht Hc. unfold cell at 1. rewrite (fill_missing_rows fr k span s a b t Hwf Hd).
  destruct (Z.leb_spec a t); [|lia]. destruct (Z.leb_spec t b); [|lia]. simpl.
  rewrite nth_map_in with (d' := O) by (now rewrite seq_length). now rewrite seq_nth.
Qed.

Lemma col_span_length s a b c : length (col_span s a b c) = Z.to_nat (b + 1 - a).
Proof. unfold col_span. now rewrite map_length, zrange_length. Qed.

Lemma col_span_nth s a b c i : (i < Z.to_nat (b + 1 - a))%nat ->
  nth i (col_span s a b c) (miss A) = cell A s (a + Z.of_nat i) c.
Proof.
  intros Hi. unfold col_span. rewrite nth_map_in with (d' := 0) by (now rewrite zrange_length).
  now rewrite zrange_nth.
Qed.

(* ---------------------------------------------------------------- columns *)
Lemma nth_combine_seq (col : list V) i : (i < length col)%nat ->
  nth i (combine (seq 0 (length col)) col) (O, miss A) = (i, nth i col (miss A)).
Proof. intros Hi. rewrite combine_nth by (now rewrite seq_length). now rewrite seq_nth. Qed.

Lemma obs_gen (col : list V) a :
  map fst (filter (fun p => is_obs A (snd p)) (combine (seq a (length col)) col))
  = filter (fun j => is_obs A (nth (j - a) col (miss A))) (seq a (length col)).
Proof.
  revert a. induction col as [|x col IH]; intros a; [reflexivity|].
  cbn [length seq combine filter snd]. rewrite Nat.sub_diag. change (nth 0 (x :: col) (miss A)) with x.
  assert (Ht : filter (fun j => is_obs A (nth (j - a) (x :: col) (miss A))) (seq (S a) (length col))
               = filter (fun j => is_obs A (nth (j - S a) col (miss A))) (seq (S a) (length col))).
  { apply filter_ext_in. intros j Hj. apply in_seq in Hj.
    replace (j - a)%nat with (S (j - S a)) by lia. reflexivity. }
  rewrite Ht, <- IH. destruct (is_obs A x); reflexivity || (cbn [map fst]; reflexivity).
Qed.

Lemma obs_indexes_filter (col : list V) :
  obs_indexes A col = filter (fun j => is_obs A (nth j col (miss A))) (seq 0 (length col)).
Proof.
  unfold obs_indexes. rewrite obs_gen. apply filter_ext. intros j. now rewrite Nat.sub_0_r.
Qed.

Lemma filter_twice {T} (f g : T -> bool) l : filter f (filter g l) = filter (fun x => g x && f x) l.
Proof.
  induction l as [|x l IH]; [reflexivity|]. simpl. destruct (g x); simpl; [destruct (f x); now rewrite IH|assumption].
Qed.

Lemma last_filter_seq (q : nat -> bool) a n :
  match hd_error (rev (filter q (seq a n))) with
  | Some j => q j = true /\ (a <= j < a + n)%nat /\ forall l, (j < l < a + n)%nat -> q l = false
  | None => forall l, (a <= l < a + n)%nat -> q l = false
  end.
Proof.
  induction n as [|n IH]; [simpl; intros; lia|].
  rewrite seq_S, filter_app, rev_app_distr. simpl. destruct (q (a + n)%nat) eqn:E; simpl.
  - split; [assumption|]. split; [lia|]. intros; lia.
  - destruct (hd_error (rev (filter q (seq a n)))) as [j|].
    + destruct IH as (H1 & H2 & H3). split; [assumption|]. split; [lia|]. intros l Hl.
      destruct (Nat.eq_dec l (a + n)); [now subst|]. apply H3. lia.
    + intros l Hl. destruct (Nat.eq_dec l (a + n)); [now subst|]. apply IH. lia.
Qed.

Lemma first_filter_seq (q : nat -> bool) a n :
  match hd_error (filter q (seq a n)) with
  | Some j => q j = true /\ (a <= j < a + n)%nat /\ forall l, (a <= l < j)%nat -> q l = false
  | None => forall l, (a <= l < a + n)%nat -> q l = false
  end.
Proof.
  revert a. induction n as [|n IH]; intros a; [simpl; intros; lia|].
  simpl. destruct (q a) eqn:E; simpl.
  - split; [assumption|]. split; [lia|]. intros; lia.
  - specialize (IH (S a)). destruct (hd_error (filter q (seq (S a) n))) as [j|].
    + destruct IH as (H1 & H2 & H3). split; [assumption|]. split; [lia|]. intros l Hl.
      destruct (Nat.eq_dec l a); [now subst|]. apply H3. lia.
    + intros l Hl. destruct (Nat.eq_dec l a); [now subst|]. apply IH. lia.
Qed.

Notation at_ col j := (nth j col (miss A)).

(* the last observed position at or before i *)
Lemma prev_obs_spec (col : list V) i : (i < length col)%nat ->
  match prev_obs i (obs_indexes A col) with
  | Some j => (j <= i)%nat /\ is_miss A (at_ col j) = false /\
              forall l, (j < l <= i)%nat -> is_miss A (at_ col l) = true
  | None => forall l, (l <= i)%nat -> is_miss A (at_ col l) = true
  end.
Proof.
  intros Hi. unfold prev_obs. rewrite obs_indexes_filter, filter_twice.
  pose proof (last_filter_seq (fun x => is_obs A (at_ col x) && Nat.leb x i) 0 (length col)) as H.
  destruct (hd_error _) as [j|].
  - destruct H as (H1 & H2 & H3). apply andb_true_iff in H1 as [H1a H1b]. apply Nat.leb_le in H1b.
    unfold is_obs in H1a. apply negb_true_iff in H1a. repeat split; try assumption.
    intros l Hl. specialize (H3 l ltac:(lia)). apply andb_false_iff in H3 as [H3|H3].
    + unfold is_obs in H3. now apply negb_false_iff in H3.
    + apply Nat.leb_gt in H3. lia.
  - intros l Hl. specialize (H l ltac:(lia)). apply andb_false_iff in H as [H|H].
    + unfold is_obs in H. now apply negb_false_iff in H.
    + apply Nat.leb_gt in H. lia.
Qed.

(* the first observed position at or after i *)
Lemma next_obs_spec (col : list V) i : (i < length col)%nat ->
  match next_obs i (obs_indexes A col) with
  | Some j => (i <= j < length col)%nat /\ is_miss A (at_ col j) = false /\
              forall l, (i <= l < j)%nat -> is_miss A (at_ col l) = true
  | None => forall l, (i <= l < length col)%nat -> is_miss A (at_ col l) = true
  end.
Proof.
  intros Hi. unfold next_obs. rewrite obs_indexes_filter, filter_twice.
  pose proof (first_filter_seq (fun x => is_obs A (at_ col x) && Nat.leb i x) 0 (length col)) as H.
  destruct (hd_error _) as [j|].
  - destruct H as (H1 & H2 & H3). apply andb_true_iff in H1 as [H1a H1b]. apply Nat.leb_le in H1b.
    unfold is_obs in H1a. apply negb_true_iff in H1a. repeat split; try assumption; try lia.
    intros l Hl. specialize (H3 l ltac:(lia)). apply andb_false_iff in H3 as [H3|H3].
    + unfold is_obs in H3. now apply negb_false_iff in H3.
    + apply Nat.leb_gt in H3. lia.
  - intros l Hl. specialize (H l ltac:(lia)). apply andb_false_iff in H as [H|H].
    + unfold is_obs in H. now apply negb_false_iff in H.
    + apply Nat.leb_gt in H. lia.
Qed.

Lemma obs_empty_all_miss (col : list V) l : obs_indexes A col = [] -> (l < length col)%nat ->
  is_miss A (at_ col l) = true.
Proof.
  intros E Hl. rewrite obs_indexes_filter in E.
  destruct (is_miss A (at_ col l)) eqn:Em; [reflexivity|].
  assert (Hin : In l (filter (fun j => is_obs A (at_ col j)) (seq 0 (length col)))).
  { apply filter_In. split; [apply in_seq; lia|]. unfold is_obs. now rewrite Em. }
  rewrite E in Hin. destruct Hin.
Qed.

Lemma fill_col_const v dates c (col : list V) i : (i < length col)%nat ->
  nth i (fill_col A (FillConst A v) dates c col) (miss A)
  = if is_miss A (at_ col i) then v else at_ col i.
Proof.
  intros Hi. unfold fill_col. destruct (obs_indexes A col).
  - now rewrite nth_map_in with (d' := miss A).
  - rewrite nth_map_in with (d' := (O, miss A)) by (now rewrite combine_length, seq_length, Nat.min_id).
    rewrite nth_combine_seq by assumption. unfold is_obs. now destruct (is_miss A (at_ col i)).
Qed.

Lemma fill_col_prev dates c (col : list V) i : (i < length col)%nat ->
  nth i (fill_col A (FillPrev A) dates c col) (miss A)
  = if is_miss A (at_ col i) then
      match prev_obs i (obs_indexes A col) with Some j => at_ col j | None => miss A end
    else at_ col i.
Proof.
  intros Hi. unfold fill_col. destruct (obs_indexes A col) eqn:Eo.
  - pose proof (obs_empty_all_miss col i Eo Hi) as Hm. rewrite Hm. unfold prev_obs. simpl. now apply miss_law.
  - rewrite nth_map_in with (d' := (O, miss A)) by (now rewrite combine_length, seq_length, Nat.min_id).
    rewrite nth_combine_seq by assumption. unfold is_obs. now destruct (is_miss A (at_ col i)).
Qed.

Lemma fill_col_next dates c (col : list V) i : (i < length col)%nat ->
  nth i (fill_col A (FillNext A) dates c col) (miss A)
  = if is_miss A (at_ col i) then
      match next_obs i (obs_indexes A col) with Some j => at_ col j | None => miss A end
    else at_ col i.
Proof.
  intros Hi. unfold fill_col. destruct (obs_indexes A col) eqn:Eo.
  - pose proof (obs_empty_all_miss col i Eo Hi) as Hm. rewrite Hm. unfold next_obs. simpl. now apply miss_law.
  - rewrite nth_map_in with (d' := (O, miss A)) by (now rewrite combine_length, seq_length, Nat.min_id).
    rewrite nth_combine_seq by assumption. unfold is_obs. now destruct (is_miss A (at_ col i)).
Qed.

(* ---------------------------------------------------------------- fill_missing on the total map *)
Section OnMap.
Variables (fr : Z) (span : option (list Z)) (s : series) (a b : Z).
Hypothesis Hwf : WF A s.
Hypothesis Hd : fill_dates span s = zrange a (b + 1).

(* constant: missing cells of the range take the constant, observed cells keep their value *)
Theorem fill_const_spec v t c : a <= t <= b -> (c < s_nv s)%nat ->
  cell A (fill_missing A fr (FillConst A v) span s) t c
  = if is_miss A (cell A s t c) then v else cell A s t c.
Proof.
  intros Ht Hc. rewrite (fill_missing_cell fr _ span s a b t c Hwf Hd Ht Hc).
  rewrite fill_col_const by (rewrite col_span_length; lia).
  rewrite col_span_nth by lia. replace (a + Z.of_nat (Z.to_nat (t - a))) with t by lia. reflexivity.
Qed.

(* previous: an observed cell keeps its value; a missing cell takes the last observed value at or before t
   inside the range, and stays missing when there is none *)
Theorem fill_previous_spec t c : a <= t <= b -> (c < s_nv s)%nat ->
  let r := cell A (fill_missing A fr (FillPrev A) span s) t c in
  (forall u, a <= u <= t -> is_miss A (cell A s u c) = false ->
     (forall w, u < w <= t -> is_miss A (cell A s w c) = true) -> r = cell A s u c) /\
  ((forall u, a <= u <= t -> is_miss A (cell A s u c) = true) -> r = miss A).
Proof.
  intros Ht Hc. cbv zeta. rewrite (fill_missing_cell fr _ span s a b t c Hwf Hd Ht Hc).
  set (i := Z.to_nat (t - a)). set (col := col_span s a b c).
  assert (Hi : (i < length col)%nat) by (subst i col; rewrite col_span_length; lia).
  assert (Hn : forall j, (j <= i)%nat -> at_ col j = cell A s (a + Z.of_nat j) c)
    by (intros j Hj; subst col i; apply col_span_nth; lia).
  rewrite fill_col_prev by assumption.
  pose proof (prev_obs_spec col i Hi) as Hp.
  split.
  - intros u Hu Hobs Hgap.
    assert (Eu : u = a + Z.of_nat (Z.to_nat (u - a))) by lia.
    destruct (is_miss A (at_ col i)) eqn:Em.
    + destruct (prev_obs i (obs_indexes A col)) as [j|].
      * destruct Hp as (Hj & Hjo & Hjg).
        destruct (Nat.lt_trichotomy j (Z.to_nat (u - a))) as [Hlt|[Heq|Hgt]].
        -- specialize (Hjg (Z.to_nat (u - a)) ltac:(subst i; lia)).
           rewrite Hn, <- Eu in Hjg by (subst i; lia). congruence.
        -- subst j. rewrite Hn by assumption. now rewrite <- Eu.
        -- specialize (Hgap (a + Z.of_nat j) ltac:(subst i; lia)). rewrite <- Hn in Hgap by assumption. congruence.
      * specialize (Hp (Z.to_nat (u - a)) ltac:(subst i; lia)).
        rewrite Hn, <- Eu in Hp by (subst i; lia). congruence.
    + destruct (Z.eq_dec u t) as [->|Hne].
      * rewrite Hn by lia. f_equal. subst i. lia.
      * specialize (Hgap t ltac:(lia)). rewrite Hn in Em by lia.
        replace (a + Z.of_nat i) with t in Em by (subst i; lia). congruence.
  - intros Hall.
    assert (Hall' : forall j, (j <= i)%nat -> is_miss A (at_ col j) = true).
    { intros j Hj. rewrite Hn by assumption. apply Hall. subst i. lia. }
    rewrite (Hall' i) by lia.
    destruct (prev_obs i (obs_indexes A col)) as [j|]; [|reflexivity].
    destruct Hp as (Hj & Hjo & _). rewrite Hall' in Hjo by assumption. discriminate.
Qed.

(* next: an observed cell keeps its value; a missing cell takes the first observed value at or after t
   inside the range, and stays missing when there is none *)
Theorem fill_next_spec t c : a <= t <= b -> (c < s_nv s)%nat ->
  let r := cell A (fill_missing A fr (FillNext A) span s) t c in
  (forall u, t <= u <= b -> is_miss A (cell A s u c) = false ->
     (forall w, t <= w < u -> is_miss A (cell A s w c) = true) -> r = cell A s u c) /\
  ((forall u, t <= u <= b -> is_miss A (cell A s u c) = true) -> r = miss A).
Proof.
  intros Ht Hc. cbv zeta. rewrite (fill_missing_cell fr _ span s a b t c Hwf Hd Ht Hc).
  set (i := Z.to_nat (t - a)). set (col := col_span s a b c).
  assert (Hlen : length col = Z.to_nat (b + 1 - a)) by (subst col; apply col_span_length).
  assert (Hi : (i < length col)%nat) by (subst i; lia).
  assert (Hn : forall j, (j < length col)%nat -> at_ col j = cell A s (a + Z.of_nat j) c)
    by (intros j Hj; subst col; apply col_span_nth; lia).
  rewrite fill_col_next by assumption.
  pose proof (next_obs_spec col i Hi) as Hp.
  split.
  - intros u Hu Hobs Hgap.
    assert (Eu : u = a + Z.of_nat (Z.to_nat (u - a))) by lia.
    assert (Hul : (Z.to_nat (u - a) < length col)%nat) by lia.
    destruct (is_miss A (at_ col i)) eqn:Em.
    + destruct (next_obs i (obs_indexes A col)) as [j|].
      * destruct Hp as (Hj & Hjo & Hjg).
        destruct (Nat.lt_trichotomy j (Z.to_nat (u - a))) as [Hlt|[Heq|Hgt]].
        -- specialize (Hgap (a + Z.of_nat j) ltac:(subst i; lia)). rewrite <- Hn in Hgap by lia. congruence.
        -- subst j. rewrite Hn by assumption. now rewrite <- Eu.
        -- specialize (Hjg (Z.to_nat (u - a)) ltac:(subst i; lia)).
           rewrite Hn, <- Eu in Hjg by assumption. congruence.
      * specialize (Hp (Z.to_nat (u - a)) ltac:(subst i; lia)).
        rewrite Hn, <- Eu in Hp by assumption. congruence.
    + destruct (Z.eq_dec u t) as [->|Hne].
      * rewrite Hn by lia. f_equal. subst i. lia.
      * specialize (Hgap t ltac:(lia)). rewrite Hn in Em by lia.
        replace (a + Z.of_nat i) with t in Em by (subst i; lia). congruence.
  - intros Hall.
    assert (Hall' : forall j, (i <= j < length col)%nat -> is_miss A (at_ col j) = true).
    { intros j Hj. rewrite Hn by lia. apply Hall. subst i. lia. }
    rewrite (Hall' i) by lia.
    destruct (next_obs i (obs_indexes A col)) as [j|]; [|reflexivity].
    destruct Hp as (Hj & Hjo & _). rewrite Hall' in Hjo by lia. discriminate.
Qed.

End OnMap.
End FillProofs.
