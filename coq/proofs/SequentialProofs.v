(* C17: proofs about model/Sequential.v over the reals.
   The scalar formulas come from gen/TransformsGen.v (regenerated from the source on every run), so every
   lemma below is re-checked against what explanatories/_transforms.py, explanatories/main.py and
   plans/transforms.py say now. *)
From Coq Require Import ZArith List Bool Lia Reals Lra.
From Verif Require Import lib.Arith gen.TransformsGen model.Sequential.
Import ListNotations.

(* The real carrier with an ARBITRARY classification of values as "missing" (is_miss decides the when_data
   fallback of plans only): every theorem below holds whichever values count as missing. *)
Definition RArithM (m : R -> bool) : Arith := {|
  car := R; add := Rplus; sub := Rminus; mul := Rmult; div := Rdiv; neg := Ropp;
  ofZ := IZR; ln := Rpower.ln; exp := Rtrigo_def.exp; pow := Rpower;
  miss := 0%R; is_miss := m |}.

(* ------------------------------------------------------------------ generic: ordered pairs of a list *)
Section OrdPairs.
Context {T : Type}.
Fixpoint ordpairs (R : T -> T -> Prop) (l : list T) : Prop :=
  match l with
  | [] => True
  | a :: r => (forall b, In b r -> R a b) /\ ordpairs R r
  end.

Lemma ordpairs_app R l1 l2 :
  ordpairs R (l1 ++ l2) <-> ordpairs R l1 /\ ordpairs R l2 /\ (forall a b, In a l1 -> In b l2 -> R a b).
Proof.
  induction l1 as [|x l1 IH]; cbn.
  - split; [intros H; repeat split; [exact H | intros a b []] | tauto].
  - rewrite IH. split.
    + intros [Hx [H1 [H2 H12]]]. repeat split; auto.
      * intros b Hb. apply Hx, in_or_app. now left.
      * intros a b [<-|Ha] Hb; [apply Hx, in_or_app; now right | now apply H12].
    + intros [[Hx H1] [H2 H12]]. repeat split; auto.
      intros b Hb. apply in_app_or in Hb as [Hb|Hb]; [now apply Hx | apply H12; [now left | exact Hb]].
Qed.

Lemma ordpairs_weaken (R R' : T -> T -> Prop) l :
  (forall a b, In a l -> In b l -> R a b -> R' a b) -> ordpairs R l -> ordpairs R' l.
Proof.
  induction l as [|x l IH]; cbn; [tauto|]. intros H [Hx Hl]. split.
  - intros b Hb. apply H; [now left | now right | now apply Hx].
  - apply IH; [|exact Hl]. intros a b Ha Hb. apply H; now right.
Qed.
End OrdPairs.

Lemma ordpairs_map {T U} (f : T -> U) (R : U -> U -> Prop) l :
  ordpairs R (map f l) <-> ordpairs (fun a b => R (f a) (f b)) l.
Proof.
  induction l as [|x l IH]; cbn; [tauto|]. rewrite IH. split; intros [Hx Hl]; split; auto.
  - intros b Hb. apply Hx, in_map, Hb.
  - intros b Hb. apply in_map_iff in Hb as [a [<- Ha]]. now apply Hx.
Qed.

Lemma ordpairs_flat_map {T U} (f : T -> list U) (R : U -> U -> Prop) l :
  (forall x, In x l -> ordpairs R (f x)) ->
  ordpairs (fun x y => forall a b, In a (f x) -> In b (f y) -> R a b) l ->
  ordpairs R (flat_map f l).
Proof.
  induction l as [|x l IH]; cbn; [tauto|]. intros Hin [Hx Hl].
  apply ordpairs_app. split; [apply Hin; now left|]. split.
  - apply IH; [|exact Hl]. intros y Hy. apply Hin. now right.
  - intros a b Ha Hb. apply in_flat_map in Hb as [y [Hy Hb]]. exact (Hx y Hy a b Ha Hb).
Qed.

(* ------------------------------------------------------------------ the development over the reals *)
Section Real.
Variable m : R -> bool.
Notation A := (RArithM m).
Notation data := (data A).
Notation expr := (expr A).
Notation eqn := (eqn A).
Notation Rln := Rpower.ln.
Notation Rexp := Rtrigo_def.exp.
Local Open Scope R_scope.

(* unfold the generated formulas and the carrier down to operations on R *)
Ltac gen_unfold :=
  cbv beta iota delta [RArithM car add sub mul div neg ofZ ln exp lhs_level lhs_of_level plan_implied
    lhs_level_none lhs_level_log lhs_level_diff lhs_level_diff_log lhs_level_roc lhs_level_pct
    lhs_of_level_none lhs_of_level_log lhs_of_level_diff lhs_of_level_diff_log lhs_of_level_roc lhs_of_level_pct
    plan_implied_none plan_implied_log plan_implied_diff plan_implied_diff_log plan_implied_roc plan_implied_pct
    plan_implied_flat rhs_with_residual residual_body].

(* ---------- 1. LHS transforms: the level formula inverts the LHS expression ---------- *)

(* domain of the reference (lagged) value *)
Definition lhs_dom (tr : transform) (lag : R) : Prop :=
  match tr with
  | TNone | TLog | TDiff => True
  | TDiffLog => 0 < lag
  | TRoc | TPct => lag <> 0
  end.

Lemma lhs_inverse_none rhs lag lag' : lhs_of_level_none A (lhs_level_none A rhs lag) lag' = rhs.
Proof. reflexivity. Qed.
Lemma lhs_inverse_log rhs lag lag' : lhs_of_level_log A (lhs_level_log A rhs lag) lag' = rhs.
Proof. gen_unfold. apply ln_exp. Qed.
Lemma lhs_inverse_diff rhs lag : lhs_of_level_diff A (lhs_level_diff A rhs lag) lag = rhs.
Proof. gen_unfold. ring. Qed.
Lemma lhs_inverse_diff_log rhs lag : 0 < lag -> lhs_of_level_diff_log A (lhs_level_diff_log A rhs lag) lag = rhs.
Proof. intros H. gen_unfold. rewrite ln_mult, ln_exp; [ring | exact H | apply exp_pos]. Qed.
Lemma lhs_inverse_roc rhs lag : lag <> 0 -> lhs_of_level_roc A (lhs_level_roc A rhs lag) lag = rhs.
Proof. intros H. gen_unfold. field. exact H. Qed.
Lemma lhs_inverse_pct rhs lag : lag <> 0 -> lhs_of_level_pct A (lhs_level_pct A rhs lag) lag = rhs.
Proof. intros H. gen_unfold. field. exact H. Qed.

Theorem lhs_transform_inverse tr rhs lag :
  lhs_dom tr lag -> lhs_of_level A tr (lhs_level A tr rhs lag) lag = rhs.
Proof.
  destruct tr; cbn [lhs_dom lhs_of_level lhs_level]; intros H.
  - apply lhs_inverse_none. - apply lhs_inverse_log. - apply lhs_inverse_diff.
  - now apply lhs_inverse_diff_log. - now apply lhs_inverse_roc. - now apply lhs_inverse_pct.
Qed.

(* the level formulas are the documented ones (reading aid; the theorem above is what matters) *)
Lemma lhs_level_formulas rhs lag :
  lhs_level A TNone rhs lag = rhs /\ lhs_level A TLog rhs lag = Rexp rhs /\
  lhs_level A TDiff rhs lag = lag + rhs /\ lhs_level A TDiffLog rhs lag = lag * Rexp rhs /\
  lhs_level A TRoc rhs lag = lag * rhs /\ lhs_level A TPct rhs lag = lag * (1 + rhs / 100).
Proof. repeat split. Qed.

Lemma lhs_of_level_formulas x lag : lag <> 0 ->
  lhs_of_level A TNone x lag = x /\ lhs_of_level A TLog x lag = Rln x /\
  lhs_of_level A TDiff x lag = x - lag /\ lhs_of_level A TDiffLog x lag = Rln x - Rln lag /\
  lhs_of_level A TRoc x lag = x / lag /\ lhs_of_level A TPct x lag = 100 * (x / lag - 1).
Proof. intros H. repeat split. gen_unfold. field. exact H. Qed.

(* the lag token of the level formula and the lag in the LHS pattern are the same period *)
Lemma lhs_shifts_agree tr : lhs_level_shift tr = lhs_of_level_shift tr.
Proof. destruct tr; reflexivity. Qed.

(* transforms that ignore the reference value have shift 0, the others a strictly negative one *)
Definition uses_lag (tr : transform) : bool :=
  match tr with TNone | TLog => false | _ => true end.
Lemma shift_negative tr : uses_lag tr = true -> (lhs_of_level_shift tr < 0)%Z.
Proof. destruct tr; cbn; intros H; try discriminate; reflexivity. Qed.
Lemma lag_is_previous_period tr : uses_lag tr = true -> lhs_of_level_shift tr = (-1)%Z.
Proof. destruct tr; cbn; intros H; try discriminate; reflexivity. Qed.
Lemma lag_ignored tr x l l' : uses_lag tr = false -> lhs_of_level A tr x l = lhs_of_level A tr x l'.
Proof. destruct tr; cbn; intros H; try discriminate; reflexivity. Qed.
Lemma lag_ignored_level tr x l l' : uses_lag tr = false -> lhs_level A tr x l = lhs_level A tr x l'.
Proof. destruct tr; cbn; intros H; try discriminate; reflexivity. Qed.

(* ---------- 2. plan transforms: the implied level has the requested transformed value ---------- *)

(* the transform a plan kind stands for, written with the LHS expressions read back from _LHS_PATTERN *)
Definition plan_of_level (k : pkind) (x lag : R) : R :=
  match k with
  | PNone => lhs_of_level_none A x lag | PLog => lhs_of_level_log A x lag
  | PDiff => lhs_of_level_diff A x lag | PDiffLog => lhs_of_level_diff_log A x lag
  | PRoc => lhs_of_level_roc A x lag | PPct => lhs_of_level_pct A x lag
  | PFlat => lhs_of_level_diff A x lag            (* flat: zero change *)
  end.
Definition plan_dom (k : pkind) (lag : R) : Prop :=
  match k with
  | PNone | PLog | PDiff | PFlat => True
  | PDiffLog => 0 < lag
  | PRoc | PPct => lag <> 0
  end.
Definition plan_target (k : pkind) (exo : R) : R := match k with PFlat => 0 | _ => exo end.

Theorem plan_transform_implied k exo lag :
  plan_dom k lag -> plan_of_level k (plan_implied A k exo lag) lag = plan_target k exo.
Proof.
  destruct k; cbn [plan_dom plan_of_level plan_implied plan_target]; intros H.
  - reflexivity.
  - gen_unfold. apply ln_exp.
  - gen_unfold. ring.
  - gen_unfold. rewrite ln_mult, ln_exp; [ring | exact H | apply exp_pos].
  - gen_unfold. field. exact H.
  - gen_unfold. field. exact H.
  - gen_unfold. ring.
Qed.

Lemma plan_default_shift_is_previous_period : plan_default_shift = (-1)%Z.
Proof. reflexivity. Qed.

(* ---------- 3. the data array ---------- *)
Definition cell := (nat * Z)%type.
Definition at_ (d : data) (c : cell) : R := d (fst c) (snd c).

Lemma upd_same (d : data) r c v : upd A d r c v r c = v.
Proof. unfold upd. now rewrite Nat.eqb_refl, Z.eqb_refl. Qed.

Lemma upd_other (d : data) r c v r' c' : (r', c') <> (r, c) -> upd A d r c v r' c' = d r' c'.
Proof.
  intros H. unfold upd. destruct (Nat.eqb_spec r' r); [|reflexivity].
  destruct (Z.eqb_spec c' c); [|reflexivity]. subst. now contradiction H.
Qed.

Definition cells_of (e : expr) (t : Z) : list cell := map (fun rs => (fst rs, (t + snd rs)%Z)) (vars A e).

Lemma cells_of_app (a b : expr) t c :
  In c (map (fun rs => (fst rs, (t + snd rs)%Z)) (vars A a ++ vars A b)) <->
  In c (cells_of a t) \/ In c (cells_of b t).
Proof. unfold cells_of. rewrite map_app. apply in_app_iff. Qed.

Lemma eval_ext (e : expr) (d d' : data) t :
  (forall c, In c (cells_of e t) -> at_ d c = at_ d' c) -> eval A e d t = eval A e d' t.
Proof.
  induction e; cbn [eval]; intros H;
    try (rewrite IHe1, IHe2; [reflexivity | | ];
         intros c Hc; apply H; unfold cells_of; cbn [vars]; apply cells_of_app; auto);
    try (rewrite IHe; [reflexivity|]; intros c Hc; apply H; exact Hc).
  - reflexivity.
  - apply (H (r, (t + s)%Z)). now left.
Qed.

Lemma eval_upd (e : expr) (d : data) t r c v :
  ~ In (r, c) (cells_of e t) -> eval A e (upd A d r c v) t = eval A e d t.
Proof.
  intros H. apply eval_ext. intros [r' c'] Hc. unfold at_; cbn [fst snd].
  apply upd_other. intros E. apply H. now rewrite <- E.
Qed.

(* ---------- 4. one cell: after simulate / exogenize the equation holds there ---------- *)

(* "the equation holds at period t": transform(lhs) = rhs [+ residual] *)
Definition holds (e : eqn) (t : Z) (d : data) : Prop := lhs_value A e t d = rhs_total A e t d.

(* residual row differs from the LHS row *)
Definition wf_eqn (e : eqn) : Prop := match e_res e with Some r => r <> e_lhs e | None => True end.
(* the written RHS mentions neither its own LHS nor its own residual at the current period *)
Definition eqn_ok (e : eqn) : Prop :=
  wf_eqn e /\ ~ In (e_lhs e, 0%Z) (vars A (e_rhs e)) /\
  (forall r, e_res e = Some r -> ~ In (r, 0%Z) (vars A (e_rhs e))).

Lemma not_in_cells (e : expr) t r : ~ In (r, 0%Z) (vars A e) -> ~ In (r, t) (cells_of e t).
Proof.
  intros H Hin. unfold cells_of in Hin. apply in_map_iff in Hin as [[r' s] [E Hin]]. cbn in E.
  injection E as -> E. assert (s = 0%Z) by lia. subst. exact (H Hin).
Qed.

Lemma rhs_total_upd_lhs (e : eqn) t (d : data) v :
  wf_eqn e -> ~ In (e_lhs e, t) (cells_of (e_rhs e) t) ->
  rhs_total A e t (upd A d (e_lhs e) t v) = rhs_total A e t d.
Proof.
  intros Hwf Hrhs. unfold rhs_total, wf_eqn in *. rewrite eval_upd by exact Hrhs.
  destruct (e_res e) as [r|]; [|reflexivity]. rewrite upd_other; [reflexivity|]. intros E. injection E as E. exact (Hwf E).
Qed.

Theorem cell_after_simulate (e : eqn) t (d : data) :
  wf_eqn e -> ~ In (e_lhs e, t) (cells_of (e_rhs e) t) ->
  lhs_dom (e_tr e) (d (e_lhs e) (t + lhs_level_shift (e_tr e))%Z) ->
  holds e t (simulate_cell A e t d).
Proof.
  intros Hwf Hrhs Hdom. unfold holds, simulate_cell, simulate_gen, set_lhs.
  rewrite rhs_total_upd_lhs by assumption.
  unfold lhs_value, eval_level. rewrite upd_same.
  rewrite (lhs_shifts_agree (e_tr e)) in *.
  destruct (uses_lag (e_tr e)) eqn:Hu.
  - rewrite upd_other.
    + now apply lhs_transform_inverse.
    + pose proof (shift_negative _ Hu) as Hs. intros E. injection E as E. lia.
  - rewrite (lag_ignored _ _ _ (d (e_lhs e) (t + lhs_of_level_shift (e_tr e))%Z) Hu).
    apply lhs_transform_inverse. destruct (e_tr e); cbn in *; try discriminate; exact I.
Qed.

(* what Explanatory.exogenize leaves in the LHS cell and in the residual cell *)
Lemma exogenize_cell_lhs (e : eqn) t v (d : data) :
  wf_eqn e -> exogenize_cell A e t v d (e_lhs e) t = v.
Proof.
  intros Hwf. unfold exogenize_cell, exogenize_gen, set_lhs, set_res, wf_eqn in *.
  destruct (e_res e) as [r|].
  - repeat (rewrite upd_other by (intros E; injection E as E; auto)). apply upd_same.
  - apply upd_same.
Qed.

(* Under the guard "the input residual is zero" the equation holds after exogenize -- also for the code before
   fixes/C17_1.patch (this lemma is placed first so that on that code it is still checked). *)
Lemma cell_after_exogenize_zero_residual (e : eqn) t v (d : data) r :
  e_res e = Some r -> r <> e_lhs e -> ~ In (r, t) (cells_of (e_rhs e) t) -> d r t = 0 ->
  holds e t (exogenize_cell A e t v d).
Proof.
  intros Hres Hne Hrhs Hz.
  unfold holds, exogenize_cell, exogenize_gen, set_lhs, set_res, eval_residual, lhs_value, rhs_total.
  rewrite Hres.
  repeat rewrite (eval_upd _ _ _ r t) by exact Hrhs.
  repeat (rewrite upd_same || rewrite (upd_other _ r t) by (intros E; injection E as E; auto; lia)).
  rewrite ?(upd_other _ (e_lhs e) t v r t) by (intros E; injection E as E; auto).
  rewrite ?Hz. gen_unfold. ring.
Qed.

(* The equation holds after exogenize, whatever residual the input databox carried.
   (On the code before fixes/C17_1.patch the residual body was evaluated with the OLD residual still in the
    RHS and this lemma was false: see exogenize_unrepaired_refuted below.) *)
Theorem cell_after_exogenize (e : eqn) t v (d : data) r :
  e_res e = Some r -> r <> e_lhs e -> ~ In (r, t) (cells_of (e_rhs e) t) ->
  exogenize_cell A e t v d (e_lhs e) t = v /\ holds e t (exogenize_cell A e t v d).
Proof.
  intros Hres Hne Hrhs. split.
  { apply exogenize_cell_lhs. unfold wf_eqn. now rewrite Hres. }
  unfold holds, exogenize_cell, exogenize_gen, set_lhs, set_res, eval_residual, lhs_value, rhs_total.
  rewrite Hres.
  repeat rewrite (eval_upd _ _ _ r t) by exact Hrhs.
  repeat (rewrite upd_same || rewrite (upd_other _ r t) by (intros E; injection E as E; auto; lia)).
  gen_unfold. ring.
Qed.


(* ---------- 5. the loop: reads-before-writes implies every equation holds at the end ---------- *)
Notation stepT := (Z * eqn)%type.

Definition res_cell (e : eqn) (t : Z) : list cell := match e_res e with Some r => [(r, t)] | None => [] end.

(* cells a step may write *)
Definition writes (s : stepT) : list cell := (e_lhs (snd s), fst s) :: res_cell (snd s) (fst s).

(* cells the equation at that period mentions *)
Definition eq_cells (s : stepT) : list cell :=
  let '(t, e) := s in
  (e_lhs e, t) :: (e_lhs e, (t + lhs_of_level_shift (e_tr e))%Z) :: res_cell e t ++ cells_of (e_rhs e) t.

(* cells _detect_exogenized reads *)
Definition plan_cells (pl : plan) (s : stepT) : list cell :=
  let '(t, e) := s in
  match get_transform A pl e t with
  | None => []
  | Some pp => (e_lhs e, (t + p_shift pp)%Z) :: match p_row pp with Some r => [(r, t)] | None => [] end
  end.

Definition deps (pl : plan) (s : stepT) : list cell := eq_cells s ++ plan_cells pl s.

(* the order computes every value before it is read: no later step writes a cell an earlier step depends on *)
Definition rbw (pl : plan) (steps : list stepT) : Prop :=
  ordpairs (fun s s' => forall c, In c (writes s') -> ~ In c (deps pl s)) steps.

Definition step_ok (s : stepT) : Prop :=
  let '(t, e) := s in
  wf_eqn e /\ ~ In (e_lhs e, t) (cells_of (e_rhs e) t) /\
  (forall r, e_res e = Some r -> ~ In (r, t) (cells_of (e_rhs e) t)).

Lemma eqn_ok_step_ok e t : eqn_ok e -> step_ok (t, e).
Proof.
  intros [Hwf [Hl Hr]]. repeat split; [exact Hwf | now apply not_in_cells |].
  intros r Hr'. apply not_in_cells. now apply Hr.
Qed.

(* a step that may be simulated (not exogenized, or exogenized only when data are available) needs the
   reference value inside the domain of its transform *)
Definition may_simulate (pl : plan) (s : stepT) : Prop :=
  match get_transform A pl (snd s) (fst s) with None => True | Some pp => p_when_data pp = true end.
Definition dom_ok (pl : plan) (s : stepT) (d : data) : Prop :=
  may_simulate pl s -> lhs_dom (e_tr (snd s)) (d (e_lhs (snd s)) (fst s + lhs_of_level_shift (e_tr (snd s)))%Z).

(* frame: a step changes only the cells it writes *)
Lemma set_lhs_frame e t (d : data) v c : ~ In c (writes (t, e)) -> at_ (set_lhs A e t d v) c = at_ d c.
Proof.
  intros H. destruct c as [r' c']. unfold at_, set_lhs; cbn [fst snd]. apply upd_other.
  intros E. apply H. left. now rewrite E.
Qed.
Lemma set_res_frame e t (d : data) v c : ~ In c (writes (t, e)) -> at_ (set_res A e t d v) c = at_ d c.
Proof.
  intros H. destruct c as [r' c']. unfold at_, set_res; cbn [fst snd].
  destruct (e_res e) as [r|] eqn:Hr; [|reflexivity]. apply upd_other.
  intros E. apply H. right. unfold res_cell; cbn [fst snd]. rewrite Hr. left. now rewrite E.
Qed.

Lemma step_frame pl s (d : data) c : ~ In c (writes s) -> at_ (step A pl s d) c = at_ d c.
Proof.
  destruct s as [t e]. intros H. unfold step.
  destruct (detect A (get_transform A pl e t) (e_lhs e) t d) as [v|].
  - unfold exogenize_cell, exogenize_gen. now rewrite ?set_res_frame, ?set_lhs_frame by exact H.
  - unfold simulate_cell, simulate_gen. now rewrite ?set_res_frame, ?set_lhs_frame by exact H.
Qed.

Lemma run_frame pl steps (d : data) c :
  (forall s, In s steps -> ~ In c (writes s)) -> at_ (run A pl steps d) c = at_ d c.
Proof.
  revert d. induction steps as [|s steps IH]; intros d H; [reflexivity|].
  cbn [run fold_left]. change (at_ (run A pl steps (step A pl s d)) c = at_ d c).
  rewrite IH by (intros s' Hs'; apply H; now right). apply step_frame, H. now left.
Qed.

(* the equation at a step depends only on eq_cells *)
Lemma holds_ext e t (d d' : data) :
  (forall c, In c (eq_cells (t, e)) -> at_ d c = at_ d' c) -> holds e t d -> holds e t d'.
Proof.
  intros H. unfold holds, lhs_value, rhs_total. cbn [eq_cells] in H.
  assert (H1 := H (e_lhs e, t) (or_introl eq_refl)).
  assert (H2 := H (e_lhs e, (t + lhs_of_level_shift (e_tr e))%Z) (or_intror (or_introl eq_refl))).
  unfold at_ in H1, H2; cbn [fst snd] in H1, H2. rewrite <- H1, <- H2.
  rewrite <- (eval_ext (e_rhs e) d d' t)
    by (intros c Hc; apply H; right; right; apply in_or_app; now right).
  unfold res_cell in H. destruct (e_res e) as [r|]; [|tauto].
  assert (H3 := H (r, t) (or_intror (or_intror (or_introl eq_refl)))).
  unfold at_ in H3; cbn [fst snd] in H3. now rewrite <- H3.
Qed.

Lemma detect_ext pl e t (d d' : data) :
  (forall c, In c (plan_cells pl (t, e)) -> at_ d c = at_ d' c) ->
  detect A (get_transform A pl e t) (e_lhs e) t d = detect A (get_transform A pl e t) (e_lhs e) t d'.
Proof.
  intros H. cbn [plan_cells] in H. unfold detect. destruct (get_transform A pl e t) as [pp|]; [|reflexivity].
  assert (H1 := H (e_lhs e, (t + p_shift pp)%Z) (or_introl eq_refl)). unfold at_ in H1; cbn [fst snd] in H1.
  rewrite <- H1. destruct (p_row pp) as [r|]; [|reflexivity].
  assert (H2 := H (r, t) (or_intror (or_introl eq_refl))). unfold at_ in H2; cbn [fst snd] in H2. now rewrite <- H2.
Qed.

(* after one step the equation holds at its cell *)
Lemma step_establishes pl t e (d : data) :
  step_ok (t, e) -> dom_ok pl (t, e) d -> holds e t (step A pl (t, e) d).
Proof.
  intros [Hwf [Hl Hr]] Hdom. unfold step, dom_ok, may_simulate in *. cbn [fst snd] in Hdom.
  destruct (detect A (get_transform A pl e t) (e_lhs e) t d) as [v|] eqn:Hd.
  - (* exogenized: never an identity *)
    unfold get_transform in Hd. destruct (e_res e) as [r|] eqn:Hres; [|discriminate].
    refine (proj2 (cell_after_exogenize e t v d r Hres _ (Hr r eq_refl))).
    unfold wf_eqn in Hwf. now rewrite Hres in Hwf.
  - apply cell_after_simulate; [exact Hwf | exact Hl |]. rewrite lhs_shifts_agree. apply Hdom.
    unfold detect in Hd. destruct (get_transform A pl e t) as [pp|]; [|exact I].
    destruct (p_when_data pp); [reflexivity|]. cbn in Hd. discriminate.
Qed.

(* and, when exogenized, the LHS carries the implied value *)
Lemma step_exogenized_value pl t e (d : data) v :
  step_ok (t, e) -> detect A (get_transform A pl e t) (e_lhs e) t d = Some v ->
  step A pl (t, e) d (e_lhs e) t = v.
Proof.
  intros [Hwf _] Hd. unfold step. rewrite Hd. now apply exogenize_cell_lhs.
Qed.

(* THE FOLD INVARIANT.  For ANY list of steps (period, equation) executed in order: if no later step writes a
   cell an earlier step depends on, then at the end every equation holds in every executed period. *)
Theorem fold_invariant pl steps (d0 : data) :
  rbw pl steps -> (forall s, In s steps -> step_ok s) ->
  (forall s, In s steps -> dom_ok pl s (run A pl steps d0)) ->
  forall t e, In (t, e) steps -> holds e t (run A pl steps d0).
Proof.
  revert d0. induction steps as [|s steps IH]; intros d0 Hrbw Hok Hdom t e Hin; [contradiction|].
  cbn [run fold_left] in *. change (fold_left (fun d s => step A pl s d) steps (step A pl s d0))
    with (run A pl steps (step A pl s d0)) in *.
  destruct Hrbw as [Hs Hrbw].
  assert (Hfin : forall c, In c (deps pl s) -> at_ (run A pl steps (step A pl s d0)) c = at_ (step A pl s d0) c).
  { intros c Hc. apply run_frame. intros s' Hs' Hw. exact (Hs s' Hs' c Hw Hc). }
  destruct Hin as [->|Hin].
  - (* the first step: established by the step, preserved by the rest *)
    apply (holds_ext e t (step A pl (t, e) d0)).
    + intros c Hc. symmetry. apply Hfin. apply in_or_app. now left.
    + apply step_establishes; [apply Hok; now left|].
      intros Hm. specialize (Hdom (t, e) (or_introl eq_refl) Hm). cbn [fst snd] in *.
      (* the reference value is the same before the step and at the end *)
      pose (c := (e_lhs e, (t + lhs_of_level_shift (e_tr e))%Z)).
      assert (Hc : In c (deps pl (t, e))) by (apply in_or_app; left; right; now left).
      pose proof (Hfin c Hc) as Hfc. unfold at_, c in Hfc; cbn [fst snd] in Hfc. rewrite Hfc in Hdom.
      destruct (uses_lag (e_tr e)) eqn:Hu.
      * destruct (Hok (t, e) (or_introl eq_refl)) as [Hwf _].
        assert (Hnw : ~ In c (writes (t, e))).
        { pose proof (shift_negative _ Hu) as Hneg. unfold c, writes, res_cell; cbn [fst snd].
          intros [E|E].
          - injection E as E. lia.
          - destruct (e_res e) as [r|] eqn:Hr; [|contradiction]. destruct E as [E|[]].
            injection E as E1 E2. lia. }
        pose proof (step_frame pl (t, e) d0 c Hnw) as Hf. unfold at_, c in Hf; cbn [fst snd] in Hf. now rewrite <- Hf.
      * destruct (e_tr e); cbn in *; try discriminate; exact I.
  - apply IH; auto.
    + intros s' Hs'. apply Hok. now right.
    + intros s' Hs'. apply Hdom. now right.
Qed.

(* ... and every exogenized point carries the value implied by its plan transform, computed from the data at
   the time of the step (which, by reads-before-writes, are final except for the cell itself) *)
Theorem exogenized_value_final pl pre t e post (d0 : data) v :
  rbw pl (pre ++ (t, e) :: post) -> step_ok (t, e) ->
  detect A (get_transform A pl e t) (e_lhs e) t (run A pl pre d0) = Some v ->
  run A pl (pre ++ (t, e) :: post) d0 (e_lhs e) t = v.
Proof.
  intros Hrbw Hok Hd. unfold run. rewrite fold_left_app. cbn [fold_left].
  change (run A pl post (step A pl (t, e) (run A pl pre d0)) (e_lhs e) t = v).
  apply ordpairs_app in Hrbw as [_ [[Hs _] _]].
  pose proof (run_frame pl post (step A pl (t, e) (run A pl pre d0)) (e_lhs e, t)) as Hf.
  unfold at_ in Hf; cbn [fst snd] in Hf. rewrite Hf.
  - now apply step_exogenized_value.
  - intros s' Hs' Hw. apply (Hs s' Hs' _ Hw). apply in_or_app. left. now left.
Qed.

(* ... so that, at the end, the plan transform of the exogenized variable equals the conditioning series of the
   input databox (which no earlier step has overwritten): x[t] for "none", log x[t], x[t]-x[t+shift], ... *)
Theorem exogenized_hits_target pl pre t e post (d0 : data) pp v :
  rbw pl (pre ++ (t, e) :: post) -> step_ok (t, e) ->
  get_transform A pl e t = Some pp -> p_shift pp <> 0%Z ->
  (forall r s', p_row pp = Some r -> In s' pre -> ~ In (r, t) (writes s')) ->
  detect A (Some pp) (e_lhs e) t (run A pl pre d0) = Some v ->
  let dN := run A pl (pre ++ (t, e) :: post) d0 in
  plan_dom (p_kind pp) (dN (e_lhs e) (t + p_shift pp)%Z) ->
  plan_of_level (p_kind pp) (dN (e_lhs e) t) (dN (e_lhs e) (t + p_shift pp)%Z)
  = plan_target (p_kind pp) (match p_row pp with Some r => d0 r t | None => 0 end).
Proof.
  intros Hrbw Hok Hgt Hsh Hrow Hd dN Hdom.
  assert (Hv : dN (e_lhs e) t = v).
  { unfold dN. apply exogenized_value_final; [exact Hrbw | exact Hok | now rewrite Hgt]. }
  (* the reference value is final at the time of the step *)
  assert (Hlag : dN (e_lhs e) (t + p_shift pp)%Z = run A pl pre d0 (e_lhs e) (t + p_shift pp)%Z).
  { unfold dN, run. rewrite fold_left_app. cbn [fold_left].
    change (run A pl post (step A pl (t, e) (run A pl pre d0)) (e_lhs e) (t + p_shift pp)%Z
            = run A pl pre d0 (e_lhs e) (t + p_shift pp)%Z).
    pose proof Hrbw as Hrbw'. apply ordpairs_app in Hrbw' as [_ [[Hs _] _]].
    pose (c := (e_lhs e, (t + p_shift pp)%Z)).
    assert (Hc : In c (deps pl (t, e))).
    { apply in_or_app. right. unfold plan_cells. rewrite Hgt. now left. }
    pose proof (run_frame pl post (step A pl (t, e) (run A pl pre d0)) c) as Hf.
    unfold at_, c in Hf; cbn [fst snd] in Hf. rewrite Hf by (intros s' Hs' Hw; exact (Hs s' Hs' _ Hw Hc)).
    pose proof (step_frame pl (t, e) (run A pl pre d0) c) as Hg. unfold at_, c in Hg; cbn [fst snd] in Hg.
    apply Hg. destruct Hok as [Hwf _]. unfold writes, res_cell, wf_eqn in *; cbn [fst snd].
    intros [E|E]; [injection E as E; lia|]. destruct (e_res e) as [r|]; [|contradiction].
    destruct E as [E|[]]. injection E as E1 E2. lia. }
  rewrite Hlag in *. rewrite Hv.
  unfold detect in Hd. destruct (p_when_data pp && _)%bool in Hd; [discriminate|]. injection Hd as <-.
  destruct (p_row pp) as [r|] eqn:Hr.
  - pose proof (run_frame pl pre d0 (r, t)) as Hf. unfold at_ in Hf; cbn [fst snd] in Hf.
    rewrite Hf by (intros s' Hs'; now apply (Hrow r s')).
    now apply plan_transform_implied.
  - now apply plan_transform_implied.
Qed.

(* ---------- 6. the two execution orders ---------- *)

(* tokens (row, shift) a step at period t depends on *)
Definition tokens (pl : plan) (t : Z) (e : eqn) : list (nat * Z) :=
  ((e_lhs e, 0%Z) :: (e_lhs e, lhs_of_level_shift (e_tr e))
     :: match e_res e with Some r => [(r, 0%Z)] | None => [] end ++ vars A (e_rhs e))
  ++ match get_transform A pl e t with
     | None => []
     | Some pp => (e_lhs e, p_shift pp) :: match p_row pp with Some r => [(r, 0%Z)] | None => [] end
     end.

(* rows an equation writes *)
Definition wrows (e : eqn) : list nat := e_lhs e :: match e_res e with Some r => [r] | None => [] end.

Lemma deps_tokens pl t e c :
  In c (deps pl (t, e)) -> exists r s, In (r, s) (tokens pl t e) /\ c = (r, (t + s)%Z).
Proof.
  unfold deps, tokens, eq_cells, plan_cells, res_cell, cells_of. intros H.
  apply in_app_or in H as [H|H].
  - destruct H as [<-|[<-|H]].
    + exists (e_lhs e), 0%Z. split; [apply in_or_app; left; now left | f_equal; lia].
    + exists (e_lhs e), (lhs_of_level_shift (e_tr e)). split; [apply in_or_app; left; right; now left | reflexivity].
    + apply in_app_or in H as [H|H].
      * destruct (e_res e) as [r|]; [|contradiction]. destruct H as [<-|[]].
        exists r, 0%Z. split; [|f_equal; lia]. apply in_or_app; left. right; right. apply in_or_app; left. now left.
      * apply in_map_iff in H as [[r s] [<- H]]. exists r, s. split; [|reflexivity].
        apply in_or_app; left. right; right. apply in_or_app. now right.
  - destruct (get_transform A pl e t) as [pp|]; [|contradiction]. destruct H as [<-|H].
    + exists (e_lhs e), (p_shift pp). split; [apply in_or_app; right; now left | reflexivity].
    + destruct (p_row pp) as [r|]; [|contradiction]. destruct H as [<-|[]].
      exists r, 0%Z. split; [apply in_or_app; right; right; now left | f_equal; lia].
Qed.

Lemma writes_wrows t e c : In c (writes (t, e)) -> exists r, In r (wrows e) /\ c = (r, t).
Proof.
  unfold writes, wrows, res_cell; cbn [fst snd]. intros [<-|H].
  - exists (e_lhs e). split; [now left | reflexivity].
  - destruct (e_res e) as [r|]; [|contradiction]. destruct H as [<-|[]]. exists r. split; [right; now left | reflexivity].
Qed.

(* a later step (t', e') does not disturb an earlier one (t, e) unless some token of e at shift t'-t is a row e' writes *)
Lemma undisturbed pl t e t' e' :
  (forall r s, In (r, s) (tokens pl t e) -> In r (wrows e') -> (t + s)%Z <> t') ->
  forall c, In c (writes (t', e')) -> ~ In c (deps pl (t, e)).
Proof.
  intros H c Hw Hd. apply writes_wrows in Hw as [w [Hw ->]].
  apply deps_tokens in Hd as [r [s [Htok E]]]. injection E as -> E. exact (H _ _ Htok Hw (eq_sym E)).
Qed.

Definition increasing (cols : list Z) : Prop := ordpairs Z.lt cols.

(* no equation reads a lead of a row that some equation writes *)
Definition no_endogenous_leads (pl : plan) (cols : list Z) (eqs : list eqn) : Prop :=
  forall t e e' r s, In t cols -> In e eqs -> In e' eqs ->
    In (r, s) (tokens pl t e) -> In r (wrows e') -> (s <= 0)%Z.

(* sequentially ordered: an equation reads rows written by LATER equations only at strictly negative shifts
   (in particular all written rows are pairwise different) *)
Definition sequentially_ordered (pl : plan) (cols : list Z) (eqs : list eqn) : Prop :=
  ordpairs (fun e e' => forall t r s, In t cols -> In (r, s) (tokens pl t e) -> In r (wrows e') -> (s < 0)%Z) eqs.

Lemma in_steps_de cols eqs (t : Z) (e : eqn) :
  In (t, e) (steps_dates_equations A cols eqs) <-> In t cols /\ In e eqs.
Proof.
  unfold steps_dates_equations. rewrite in_flat_map. split.
  - intros [t' [Ht H]]. apply in_map_iff in H as [e' [E He]]. injection E as -> ->. now split.
  - intros [Ht He]. exists t. split; [exact Ht|]. apply in_map_iff. now exists e.
Qed.
Lemma in_steps_ed cols eqs (t : Z) (e : eqn) :
  In (t, e) (steps_equations_dates A cols eqs) <-> In t cols /\ In e eqs.
Proof.
  unfold steps_equations_dates. rewrite in_flat_map. split.
  - intros [e' [He H]]. apply in_map_iff in H as [t' [E Ht]]. injection E as -> ->. now split.
  - intros [Ht He]. exists e. split; [exact He|]. apply in_map_iff. now exists t.
Qed.

Theorem rbw_dates_equations pl cols eqs :
  increasing cols -> no_endogenous_leads pl cols eqs -> sequentially_ordered pl cols eqs ->
  rbw pl (steps_dates_equations A cols eqs).
Proof.
  intros Hinc Hlead Hseq. unfold rbw, steps_dates_equations. apply ordpairs_flat_map.
  - intros t Ht. apply ordpairs_map. revert Hseq. apply ordpairs_weaken.
    intros e e' He He' H. apply undisturbed. intros r s Htok Hw E.
    specialize (H t r s Ht Htok Hw). lia.
  - revert Hinc. apply ordpairs_weaken. intros t t' Ht Ht' Hlt a b Ha Hb.
    apply in_map_iff in Ha as [e [<- He]]. apply in_map_iff in Hb as [e' [<- He']].
    apply undisturbed. intros r s Htok Hw E. specialize (Hlead t e e' r s Ht He He' Htok Hw). lia.
Qed.

(* equations_dates: an equation reads its own rows at non-positive shifts only, and no row of a later equation *)
Definition no_own_leads (pl : plan) (cols : list Z) (eqs : list eqn) : Prop :=
  forall t e r s, In t cols -> In e eqs -> In (r, s) (tokens pl t e) -> In r (wrows e) -> (s <= 0)%Z.
Definition reads_only_earlier (pl : plan) (cols : list Z) (eqs : list eqn) : Prop :=
  ordpairs (fun e e' => forall t r s, In t cols -> In (r, s) (tokens pl t e) -> ~ In r (wrows e')) eqs.

Theorem rbw_equations_dates pl cols eqs :
  increasing cols -> no_own_leads pl cols eqs -> reads_only_earlier pl cols eqs ->
  rbw pl (steps_equations_dates A cols eqs).
Proof.
  intros Hinc Hown Hearlier. unfold rbw, steps_equations_dates. apply ordpairs_flat_map.
  - intros e He. apply ordpairs_map. revert Hinc. apply ordpairs_weaken.
    intros t t' Ht Ht' Hlt. apply undisturbed. intros r s Htok Hw E.
    specialize (Hown t e r s Ht He Htok Hw). lia.
  - revert Hearlier. apply ordpairs_weaken. intros e e' He He' H a b Ha Hb.
    apply in_map_iff in Ha as [t [<- Ht]]. apply in_map_iff in Hb as [t' [<- Ht']].
    apply undisturbed. intros r s Htok Hw _. exact (H t r s Ht Htok Hw).
Qed.

(* THE PROPERTY for execution_order="dates_equations" *)
Theorem simulate_dates_equations_correct pl cols eqs (d0 : data) :
  increasing cols -> (forall e, In e eqs -> eqn_ok e) ->
  no_endogenous_leads pl cols eqs -> sequentially_ordered pl cols eqs ->
  let dN := simulate_model A pl DatesEquations cols eqs d0 in
  (forall t e, In t cols -> In e eqs -> dom_ok pl (t, e) dN) ->
  forall t e, In t cols -> In e eqs -> holds e t dN.
Proof.
  intros Hinc Hok Hlead Hseq dN Hdom t e Ht He. unfold dN, simulate_model, steps_of.
  apply fold_invariant.
  - now apply rbw_dates_equations.
  - intros [t' e'] H. apply in_steps_de in H as [_ H]. now apply eqn_ok_step_ok, Hok.
  - intros [t' e'] H. apply in_steps_de in H as [H1 H2]. now apply Hdom.
  - now apply in_steps_de.
Qed.

(* THE PROPERTY for execution_order="equations_dates" *)
Theorem simulate_equations_dates_correct pl cols eqs (d0 : data) :
  increasing cols -> (forall e, In e eqs -> eqn_ok e) ->
  no_own_leads pl cols eqs -> reads_only_earlier pl cols eqs ->
  let dN := simulate_model A pl EquationsDates cols eqs d0 in
  (forall t e, In t cols -> In e eqs -> dom_ok pl (t, e) dN) ->
  forall t e, In t cols -> In e eqs -> holds e t dN.
Proof.
  intros Hinc Hok Hown Hearlier dN Hdom t e Ht He. unfold dN, simulate_model, steps_of.
  apply fold_invariant.
  - now apply rbw_equations_dates.
  - intros [t' e'] H. apply in_steps_ed in H as [_ H]. now apply eqn_ok_step_ok, Hok.
  - intros [t' e'] H. apply in_steps_ed in H as [H1 H2]. now apply Hdom.
  - now apply in_steps_ed.
Qed.

(* ---------- 7. the defect repaired by fixes/C17_1.patch, kept as a lemma about the OLD code ---------- *)

(* Explanatory.exogenize as it was: the residual body is evaluated while the residual cell still holds the
   input residual, which the RHS string includes *)
Definition exogenize_unrepaired (e : eqn) (t : Z) (v : R) (d : data) : data :=
  let d := set_lhs A e t d v in
  let d := set_res A e t d (eval_residual A e t d) in
  d.

(* it leaves the equation violated by exactly the input residual *)
Lemma exogenize_unrepaired_gap (e : eqn) t v (d : data) r :
  e_res e = Some r -> r <> e_lhs e -> ~ In (r, t) (cells_of (e_rhs e) t) ->
  let d' := exogenize_unrepaired e t v d in
  lhs_value A e t d' = rhs_total A e t d' + d r t.
Proof.
  intros Hres Hne Hrhs d'. subst d'. unfold exogenize_unrepaired, set_lhs, set_res, eval_residual, lhs_value, rhs_total.
  rewrite Hres.
  repeat rewrite (eval_upd _ _ _ r t) by exact Hrhs.
  repeat (rewrite upd_same || rewrite (upd_other _ r t) by (intros E; injection E as E; auto; lia)).
  rewrite (upd_other _ (e_lhs e) t v r t) by (intros E; injection E as E; auto).
  gen_unfold. ring.
Qed.

Lemma exogenize_unrepaired_refuted :
  exists (e : eqn) t v (d : data) r,
    e_res e = Some r /\ r <> e_lhs e /\ ~ In (r, t) (cells_of (e_rhs e) t) /\
    ~ holds e t (exogenize_unrepaired e t v d).
Proof.
  (* x = 0.5*x[-1] + res, x exogenized to 2, initial condition 1, input residual 0.25 *)
  set (e := mkEqn A 0%nat TNone (EMul A (ECst A (1/2)) (EVar A 0%nat (-1)%Z)) (Some 1%nat)).
  exists e, 0%Z, 2, (fun r _ => match r with O => 1 | _ => 1/4 end), 1%nat.
  assert (Hrhs : ~ In (1%nat, 0%Z) (cells_of (e_rhs e) 0)).
  { cbn. intros [E|[]]. discriminate. }
  repeat split; [discriminate | exact Hrhs |].
  intros H. unfold holds in H.
  rewrite (exogenize_unrepaired_gap e 0%Z 2 _ 1%nat eq_refl) in H; [lra | discriminate | exact Hrhs].
Qed.

(* ---------- 8. non-vacuity: a concrete model meets every hypothesis of both order theorems ---------- *)
(* rows: 0 = y0, 1 = y1, 2 = z, 3 = res_y0, 4 = res_y1, 5 = diff_y0 (plan series), 6 = q
     y0 = 0.5*y0[-1] + z ;  diff(y1) = 0.1*y0 + y1[-1] ;  q === y0 + y1
   plan: y0 exogenized through its first difference at period 1 *)
Definition ex_eqs : list eqn :=
  [ mkEqn A 0%nat TNone (EAdd A (EMul A (ECst A (1/2)) (EVar A 0%nat (-1)%Z)) (EVar A 2%nat 0%Z)) (Some 3%nat);
    mkEqn A 1%nat TDiff (EAdd A (EMul A (ECst A (1/10)) (EVar A 0%nat 0%Z)) (EVar A 1%nat (-1)%Z)) (Some 4%nat);
    mkEqn A 6%nat TNone (EAdd A (EVar A 0%nat 0%Z) (EVar A 1%nat 0%Z)) None ].
Definition ex_plan : plan := plan_of_list [((0%nat, 1%Z), mkPP PDiff false (-1)%Z (Some 5%nat))].
Definition ex_cols : list Z := [0; 1; 2]%Z.

Ltac in_cases :=
  repeat match goal with
         | H : In _ (_ :: _) |- _ => destruct H as [H|H]
         | H : In _ [] |- _ => destruct H
         | H : _ \/ _ |- _ => destruct H as [H|H]
         | H : False |- _ => destruct H
         | H : (_, _) = (_, _) |- _ => injection H as ? ?
         | H : Some _ = Some _ |- _ => injection H as ?
         end.
Ltac fin := intros; in_cases; subst; try lia; try congruence; try discriminate.

Lemma hypotheses_satisfiable :
  increasing ex_cols /\ (forall e, In e ex_eqs -> eqn_ok e) /\
  no_endogenous_leads ex_plan ex_cols ex_eqs /\ sequentially_ordered ex_plan ex_cols ex_eqs /\
  no_own_leads ex_plan ex_cols ex_eqs /\ reads_only_earlier ex_plan ex_cols ex_eqs /\
  (forall (d : data) t e, In t ex_cols -> In e ex_eqs -> dom_ok ex_plan (t, e) d) /\
  (exists t e pp, In t ex_cols /\ In e ex_eqs /\ get_transform A ex_plan e t = Some pp).
Proof.
  unfold ex_cols, ex_eqs.
  split; [cbn; repeat split; fin|].
  split.
  { intros e He. unfold eqn_ok, wf_eqn. in_cases; subst; cbn; repeat split; try intros ? ?; try intro; fin. }
  split.
  { intros t e e' r s Ht He He' Htok Hw. in_cases; subst; cbn in Htok, Hw; fin. }
  split.
  { cbn. repeat split; intros; in_cases; subst; cbn in *; fin. }
  split.
  { intros t e r s Ht He Htok Hw. in_cases; subst; cbn in Htok, Hw; fin. }
  split.
  { cbn. repeat split; intros; in_cases; subst; cbn in *; try intro; fin. }
  split.
  { intros d t e Ht He Hm. in_cases; subst; cbn; exact I. }
  exists 1%Z. eexists. eexists. split; [right; now left|]. split; [now left|]. reflexivity.
Qed.

End Real.
