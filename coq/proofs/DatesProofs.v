(* Proofs about the Dates model (model/Dates.v over gen/DatesGen.v, lib/Calendar.v).
   Everything that mentions a gen_* definition is re-checked against the
   current source of dates.py on every run. *)
From Coq Require Import ZArith Bool Ascii String List Lia.
From Verif Require Import lib.Calendar lib.PyRange lib.Period lib.DatesBase lib.PyStr gen.DatesGen model.Dates.
Import ListNotations.
Open Scope Z_scope.

Local Ltac Zify.zify_post_hook ::= Z.div_mod_to_equations.

(* ------------------------------------------------------------------ basics *)

Lemma period_eta : forall p, mkP (p_freq p) (p_serial p) = p.
Proof. destruct p; reflexivity. Qed.

Lemma period_ext : forall p q, p_freq p = p_freq q -> p_serial p = p_serial q -> p = q.
Proof. destruct p, q; cbn; intros; subst; reflexivity. Qed.

Lemma same_class_iff : forall p q, same_class p q = true <-> p_freq p = p_freq q.
Proof. intros. unfold same_class. apply Z.eqb_eq. Qed.

Lemma check_some : forall p q, check_periods p (Some q) = true <-> p_freq p = p_freq q.
Proof. intros. unfold check_periods. cbn. apply same_class_iff. Qed.

Lemma check_some_false : forall p q, p_freq p <> p_freq q -> check_periods p (Some q) = false.
Proof.
  intros p q H. destruct (check_periods p (Some q)) eqn:E; [| reflexivity].
  apply check_some in E. contradiction.
Qed.

Lemma check_none : forall p, check_periods p None = false.
Proof. intros. unfold check_periods. apply andb_false_r. Qed.

(* the comparison bodies are the integer comparisons of the serials, and all of them are checked *)
Lemma cmp_fun_spec : forall c a b,
  cmp_fun c a b = match c with CEq => a =? b | CNe => negb (a =? b) | CLt => a <? b | CLe => a <=? b
                             | CGt => b <? a | CGe => b <=? a end.
Proof.
  intros c a b. destruct c; cbn; unfold gen_cmp_eq, gen_cmp_ne, gen_cmp_lt, gen_cmp_le, gen_cmp_gt, gen_cmp_ge;
    try reflexivity.
  - apply Z.gtb_ltb.
  - apply Z.geb_leb.
Qed.

Lemma cmp_all_checked : forall c, cmp_checked c = true.
Proof. destruct c; reflexivity. Qed.

(* ------------------------------------------------------------------ 1. arithmetic laws *)

Lemma padd_freq : forall p n, p_freq (padd p n) = p_freq p.
Proof. reflexivity. Qed.

Lemma padd_serial : forall p n, p_serial (padd p n) = p_serial p + n.
Proof. reflexivity. Qed.

Lemma padd_0 : forall p, padd p 0 = p.
Proof. intros. apply period_ext; cbn; unfold gen_period_add; lia. Qed.

Lemma padd_padd : forall p n m, padd (padd p n) m = padd p (n + m).
Proof. intros. apply period_ext; cbn; unfold gen_period_add; lia. Qed.

Lemma psub_int_padd : forall p n, psub_int p n = padd p (- n).
Proof. intros. apply period_ext; cbn; unfold gen_period_sub_int, gen_period_add; lia. Qed.

Lemma psub_same : forall p q, p_freq p = p_freq q -> psub p q = Ok (p_serial p - p_serial q).
Proof.
  intros p q H. unfold psub. rewrite (proj2 (check_some p q) H). cbn. reflexivity.
Qed.

Lemma psub_mixed : forall p q, p_freq p <> p_freq q -> psub p q = Err ErrFreq.
Proof. intros p q H. unfold psub. rewrite check_some_false by assumption. reflexivity. Qed.

(* p + (q - p) == q ; (p + n) - p == n ; (p + n) + m == p + (n + m) ; p - n == p + (-n) *)
Theorem add_sub_laws : forall p q n m,
  (p_freq p = p_freq q -> exists d, psub q p = Ok d /\ padd p d = q) /\
  psub (padd p n) p = Ok n /\
  padd (padd p n) m = padd p (n + m) /\
  padd p 0 = p /\
  psub_int p n = padd p (- n) /\
  psub_int (padd p n) n = p.
Proof.
  intros p q n m. refine (conj _ (conj _ (conj _ (conj _ (conj _ _))))).
  - intros H. exists (p_serial q - p_serial p). split; [apply psub_same; congruence |].
    apply period_ext; cbn; unfold gen_period_add; [assumption | lia].
  - rewrite psub_same by reflexivity. f_equal. cbn. unfold gen_period_add. lia.
  - apply padd_padd.
  - apply padd_0.
  - apply psub_int_padd.
  - rewrite psub_int_padd, padd_padd. replace (n + - n) with 0 by lia. apply padd_0.
Qed.

(* ------------------------------------------------------------------ 2. order, comparison, hashing *)

Definition cmp_sem (c : cmpop) (d : Z) : bool :=
  match c with CEq => d =? 0 | CNe => negb (d =? 0) | CLt => d <? 0 | CLe => d <=? 0 | CGt => 0 <? d | CGe => 0 <=? d end.

Lemma pcmp_same : forall c p q, p_freq p = p_freq q ->
  pcmp c p (Some q) = Ok (cmp_sem c (p_serial p - p_serial q)).
Proof.
  intros c p q H. unfold pcmp. rewrite cmp_all_checked, (proj2 (check_some p q) H). cbn [unchecked].
  f_equal. rewrite cmp_fun_spec. destruct c; cbn [cmp_sem].
  - destruct (Z.eqb_spec (p_serial p) (p_serial q)), (Z.eqb_spec (p_serial p - p_serial q) 0); try reflexivity; lia.
  - destruct (Z.eqb_spec (p_serial p) (p_serial q)), (Z.eqb_spec (p_serial p - p_serial q) 0); try reflexivity; lia.
  - destruct (Z.ltb_spec (p_serial p) (p_serial q)), (Z.ltb_spec (p_serial p - p_serial q) 0); try reflexivity; lia.
  - destruct (Z.leb_spec (p_serial p) (p_serial q)), (Z.leb_spec (p_serial p - p_serial q) 0); try reflexivity; lia.
  - destruct (Z.ltb_spec (p_serial q) (p_serial p)), (Z.ltb_spec 0 (p_serial p - p_serial q)); try reflexivity; lia.
  - destruct (Z.leb_spec (p_serial q) (p_serial p)), (Z.leb_spec 0 (p_serial p - p_serial q)); try reflexivity; lia.
Qed.

(* comparison, equality and subtraction agree: every comparison is the sign test of p - q *)
Theorem cmp_agrees_with_sub : forall p q, p_freq p = p_freq q ->
  exists d, psub p q = Ok d /\ (forall c, pcmp c p (Some q) = Ok (cmp_sem c d)) /\ (d = 0 <-> p = q).
Proof.
  intros p q H. exists (p_serial p - p_serial q). split; [apply psub_same; assumption |]. split.
  - intros c. apply pcmp_same. assumption.
  - split; intros E.
    + apply period_ext; [assumption | lia].
    + subst. lia.
Qed.

Definition ple (p q : period) : Prop := pcmp CLe p (Some q) = Ok true.
Definition plt (p q : period) : Prop := pcmp CLt p (Some q) = Ok true.

Lemma ple_iff : forall p q, p_freq p = p_freq q -> (ple p q <-> p_serial p <= p_serial q).
Proof.
  intros p q H. unfold ple. rewrite pcmp_same by assumption. cbn.
  destruct (Z.leb_spec (p_serial p - p_serial q) 0); split; intros; try reflexivity; try lia; try discriminate.
Qed.

Lemma plt_iff : forall p q, p_freq p = p_freq q -> (plt p q <-> p_serial p < p_serial q).
Proof.
  intros p q H. unfold plt. rewrite pcmp_same by assumption. cbn.
  destruct (Z.ltb_spec (p_serial p - p_serial q) 0); split; intros; try reflexivity; try lia; try discriminate.
Qed.

(* within one frequency <= is a total order and < is its strict part *)
Theorem total_order : forall p q r, p_freq p = p_freq q -> p_freq q = p_freq r ->
  ple p p /\
  (ple p q -> ple q p -> p = q) /\
  (ple p q -> ple q r -> ple p r) /\
  (ple p q \/ ple q p) /\
  (plt p q <-> ple p q /\ p <> q) /\
  (plt p q \/ p = q \/ plt q p).
Proof.
  intros p q r H1 H2.
  assert (H3 : p_freq p = p_freq r) by congruence.
  rewrite !ple_iff, !plt_iff by congruence.
  assert (EQ : p = q <-> p_serial p = p_serial q).
  { split; [intros; subst; reflexivity | intros; apply period_ext; assumption]. }
  refine (conj _ (conj _ (conj _ (conj _ (conj _ _))))); try lia.
  - intros. apply EQ. lia.
  - rewrite EQ. lia.
  - rewrite EQ. lia.
Qed.

Theorem eq_implies_same_hash_key : forall p q,
  pcmp CEq p (Some q) = Ok true -> hash_key p = hash_key q.
Proof.
  intros p q H. unfold pcmp in H. rewrite cmp_all_checked in H.
  destruct (check_periods p (Some q)) eqn:C; [| discriminate].
  apply check_some in C. cbn [unchecked] in H. rewrite cmp_fun_spec in H. injection H as H.
  apply Z.eqb_eq in H. unfold hash_key, gen_hash_key. congruence.
Qed.

Theorem hash_key_injective : forall p q, hash_key p = hash_key q -> p = q.
Proof.
  intros p q H. unfold hash_key, gen_hash_key in H. injection H as H1 H2. apply period_ext; assumption.
Qed.

(* ------------------------------------------------------------------ 3. mixed frequencies are rejected *)

(* the constructor assembled from the fragments regenerated from Span.__init__ is the constructor as it was modelled by
   hand: missing end points default to the contextual start / end in the direction of the step, needs_resolve is the
   disjunction, and a resolved span is accepted only when _check_periods passes *)
Lemma span_make_unfold : forall a b step, span_make a b step =
  let s := match a with Some e => e | None => Ctx (step >? 0) 0 end in
  let e := match b with Some e => e | None => Ctx (negb (step >? 0)) 0 end in
  let needs := ep_needs s || ep_needs e in
  if needs then Ok (mkSpan s e step true)
  else match s, e with
       | At p, At q => if check_periods p (Some q) then Ok (mkSpan s e step false) else Err ErrFreq
       | _, _ => Err ErrFreq
       end.
Proof.
  intros a b step. unfold span_make, gen_span_init_start, gen_span_init_end, gen_span_init_needs,
    gen_span_init_checks_when_resolved.
  destruct a as [[p | fa oa] |], b as [[q | fb ob] |], (step >? 0); reflexivity.
Qed.

Lemma span_make_mixed : forall p q step, p_freq p <> p_freq q ->
  span_make (Some (At p)) (Some (At q)) step = Err ErrFreq.
Proof. intros. rewrite span_make_unfold. cbn [ep_needs orb]. rewrite check_some_false by assumption. reflexivity. Qed.

Theorem mixed_frequency_rejected : forall p q step, p_freq p <> p_freq q ->
  psub p q = Err ErrFreq /\
  (forall c, pcmp c p (Some q) = Err ErrFreq) /\
  (forall c, pcmp c p None = Err ErrFreq) /\
  span_make (Some (At p)) (Some (At q)) step = Err ErrFreq /\
  periods_from_until p q step = Err ErrFreq /\
  (forall s t st2, sp_start s = At p -> sp_start t = At q -> sp_end s = At p -> sp_end t = At q ->
     sp_step t = st2 -> span_eq s t = Err ErrFreq).
Proof.
  intros p q step H. repeat split.
  - apply psub_mixed. assumption.
  - intros c. unfold pcmp. rewrite cmp_all_checked, check_some_false by assumption. reflexivity.
  - intros c. unfold pcmp. rewrite cmp_all_checked, check_none. reflexivity.
  - apply span_make_mixed. assumption.
  - unfold periods_from_until. rewrite check_some_false by assumption. reflexivity.
  - intros s t st2 A B C D _. unfold span_eq. rewrite A, B, C, D.
    unfold pcmp. rewrite cmp_all_checked, check_some_false by assumption. reflexivity.
Qed.

(* comparing with None is rejected for every period *)
Theorem none_rejected : forall p c, pcmp c p None = Err ErrFreq.
Proof. intros. unfold pcmp. rewrite cmp_all_checked, check_none. reflexivity. Qed.

(* ------------------------------------------------------------------ 4. regular periods and the calendar *)

Lemma regular_cases : forall f, is_regular_freq f = true -> f = 1 \/ f = 2 \/ f = 4 \/ f = 12.
Proof.
  intros f H. unfold is_regular_freq, gen_class_freq_YEARLY, gen_class_freq_HALFYEARLY, gen_class_freq_QUARTERLY,
    gen_class_freq_MONTHLY, freq_YEARLY, freq_HALFYEARLY, freq_QUARTERLY, freq_MONTHLY in H.
  rewrite !orb_true_iff, !Z.eqb_eq in H. lia.
Qed.

Lemma regular_kind : forall f, is_regular_freq f = true -> kind_of f = KReg.
Proof. intros f H. unfold kind_of. rewrite H. reflexivity. Qed.

Lemma daily_kind : kind_of freq_DAILY = KDaily.
Proof. reflexivity. Qed.

Lemma integer_kind : kind_of freq_INTEGER = KInt.
Proof. reflexivity. Qed.

(* first and last month of the seg-th period of a year *)
Definition seg_start_month (f seg : Z) : Z := (seg - 1) * (12 / f) + 1.
Definition seg_end_month (f seg : Z) : Z := seg * (12 / f).

Ltac seg_cases s f Hk :=
  let k := fresh "k" in
  let C := fresh "C" in
  let E := fresh "E" in
  remember (s mod f) as k eqn:Hk;
  assert (C : 0 <= k < f) by (subst k; apply Z.mod_pos_bound; lia);
  first
    [ assert (E : k = 0) by lia
    | assert (E : k = 0 \/ k = 1) by lia; destruct E as [E | E]
    | assert (E : k = 0 \/ k = 1 \/ k = 2 \/ k = 3) by lia; destruct E as [E | [E | [E | E]]]
    | assert (E : k = 0 \/ k = 1 \/ k = 2 \/ k = 3 \/ k = 4 \/ k = 5 \/ k = 6 \/ k = 7 \/ k = 8 \/ k = 9 \/ k = 10 \/ k = 11)
        by lia; destruct E as [E | [E | [E | [E | [E | [E | [E | [E | [E | [E | [E | E]]]]]]]]]]] ];
  rewrite E in *; clear E C.

Ltac rw_mod := match goal with H : _ = ?s mod ?f |- _ => rewrite <- H end.
Ltac to_ymd_compute :=
  unfold to_ymd; cbn [p_freq p_serial];
  match goal with |- context [kind_of ?f] => change (kind_of f) with KReg end;
  unfold gen_reg_to_ymd, gen_reg_to_year_segment; rw_mod; cbn.

Lemma reg_to_ymd_spec : forall f s, is_regular_freq f = true ->
  let y := s / f in
  let seg := s mod f + 1 in
  to_ymd PStart (mkP f s) = Ok (y, seg_start_month f seg, 1) /\
  to_ymd PEnd (mkP f s) = Ok (y, seg_end_month f seg, days_in_month y (seg_end_month f seg)) /\
  exists mm md, to_ymd PMiddle (mkP f s) = Ok (y, mm, md) /\
                seg_start_month f seg <= mm <= seg_end_month f seg /\ 1 <= md <= days_in_month y mm.
Proof.
  intros f s R y seg. subst y seg. unfold seg_start_month, seg_end_month.
  destruct (regular_cases f R) as [-> | [-> | [-> | ->]]];
    [seg_cases s 1 Hk | seg_cases s 2 Hk | seg_cases s 4 Hk | seg_cases s 12 Hk];
    (split; [to_ymd_compute; reflexivity |
     split; [to_ymd_compute; reflexivity |
       eexists; eexists; split; [to_ymd_compute; reflexivity |
         try rw_mod; unfold days_in_month; cbn; try destruct (is_leap _); lia]]]).
Qed.

Definition ord3 (t : Z * Z * Z) : Z := let '(y, m, d) := t in ord_of_ymd y m d.
Definition valid3 (t : Z * Z * Z) : Prop := let '(y, m, d) := t in valid_ymd y m d.

Lemma ord_le_lex : forall y m1 d1 m2 d2, valid_ymd y m1 d1 -> valid_ymd y m2 d2 ->
  m1 < m2 \/ (m1 = m2 /\ d1 <= d2) -> ord_of_ymd y m1 d1 <= ord_of_ymd y m2 d2.
Proof.
  intros y m1 d1 m2 d2 V1 V2 H.
  destruct (Z.eq_dec m1 m2) as [-> |].
  - unfold ord_of_ymd. lia.
  - apply Z.lt_le_incl. apply ord_of_ymd_lt; try assumption. cbn. lia.
Qed.

Lemma seg_months_range : forall f seg, is_regular_freq f = true -> 1 <= seg <= f ->
  1 <= seg_start_month f seg <= seg_end_month f seg /\ seg_end_month f seg <= 12 /\
  (seg < f -> seg_end_month f seg + 1 = seg_start_month f (seg + 1)) /\
  (seg = f -> seg_end_month f seg = 12) /\ seg_start_month f 1 = 1.
Proof.
  intros f seg R H. unfold seg_start_month, seg_end_month.
  destruct (regular_cases f R) as [-> | [-> | [-> | ->]]]; cbn; lia.
Qed.

(* consecutive periods tile the calendar: start <= middle <= end are valid dates of the period's year, and the day
   after the end of p is the start of p + 1 *)
Theorem tiling : forall f s, is_regular_freq f = true -> 1 <= s / f ->
  let p := mkP f s in
  exists a b c a',
    to_ymd PStart p = Ok a /\ to_ymd PMiddle p = Ok b /\ to_ymd PEnd p = Ok c /\
    to_ymd PStart (padd p 1) = Ok a' /\
    valid3 a /\ valid3 b /\ valid3 c /\ valid3 a' /\
    ord3 a <= ord3 b <= ord3 c /\ ord3 c + 1 = ord3 a'.
Proof.
  intros f s R Y p. subst p.
  destruct (reg_to_ymd_spec f s R) as (A & C & mm & md & B & Bm & Bd).
  assert (F : 0 < f) by (destruct (regular_cases f R) as [-> | [-> | [-> | ->]]]; lia).
  assert (S : 1 <= s mod f + 1 <= f) by (pose proof (Z.mod_pos_bound s f F); lia).
  destruct (seg_months_range f (s mod f + 1) R S) as (M1 & M2 & M3 & M4 & M5).
  unfold padd. cbn [p_freq p_serial]. unfold gen_period_add.
  destruct (reg_to_ymd_spec f (s + 1) R) as (A' & _).
  do 4 eexists. split; [exact A |]. split; [exact B |]. split; [exact C |]. split; [exact A' |].
  set (y := s / f) in *. set (seg := s mod f + 1) in *.
  assert (Va : valid_ymd y (seg_start_month f seg) 1).
  { unfold valid_ymd. pose proof (dim_range y (seg_start_month f seg)). lia. }
  assert (Vb : valid_ymd y mm md) by (unfold valid_ymd; lia).
  assert (Vc : valid_ymd y (seg_end_month f seg) (days_in_month y (seg_end_month f seg))).
  { unfold valid_ymd. pose proof (dim_range y (seg_end_month f seg)). lia. }
  cbn [valid3 ord3].
  (* year and segment of p + 1 *)
  assert (N : (seg < f /\ (s + 1) / f = y /\ (s + 1) mod f + 1 = seg + 1) \/
              (seg = f /\ (s + 1) / f = y + 1 /\ (s + 1) mod f + 1 = 1)).
  { subst y seg. destruct (regular_cases f R) as [-> | [-> | [-> | ->]]]; lia. }
  destruct N as [(N1 & N2 & N3) | (N1 & N2 & N3)]; rewrite N2, N3.
  - specialize (M3 N1).
    assert (Va' : valid_ymd y (seg_start_month f (seg + 1)) 1).
    { unfold valid_ymd. pose proof (dim_range y (seg_start_month f (seg + 1))).
      destruct (seg_months_range f (seg + 1) R ltac:(lia)) as (? & ? & _). lia. }
    refine (conj Va (conj Vb (conj Vc (conj Va' (conj (conj _ _) _))))).
    + apply ord_le_lex; try assumption. lia.
    + apply ord_le_lex; try assumption.
      destruct (Z.eq_dec mm (seg_end_month f seg)) as [E | E]; [right; split; [assumption | rewrite <- E; lia] | left; lia].
    + rewrite <- M3. apply month_boundary. destruct Va' as (_ & ? & _). lia.
  - specialize (M4 N1). rewrite M5.
    assert (Va' : valid_ymd (y + 1) 1 1) by (unfold valid_ymd; cbn; lia).
    refine (conj Va (conj Vb (conj Vc (conj Va' (conj (conj _ _) _))))).
    + apply ord_le_lex; try assumption. lia.
    + apply ord_le_lex; try assumption.
      destruct (Z.eq_dec mm (seg_end_month f seg)) as [E | E]; [right; split; [assumption | rewrite <- E; lia] | left; lia].
    + rewrite M4. change (days_in_month y 12) with 31. apply year_boundary.
Qed.

(* year / segment accessors agree with the calendar: the period with accessors (y, seg) is the seg-th period of
   calendar year y; segment 1 starts on 1 January, segment f ends on 31 December *)
Theorem accessors_vs_calendar_regular : forall f s, is_regular_freq f = true ->
  let p := mkP f s in
  let y := s / f in
  let seg := s mod f + 1 in
  to_year_segment p = Ok (y, seg) /\ p_year p = Ok y /\ p_segment p = Ok seg /\
  1 <= seg <= f /\
  from_year_segment f y seg = Ok p /\
  p = padd (mkP f (gen_reg_from_year_segment f y 1)) (seg - 1) /\
  to_ymd PStart p = Ok (y, seg_start_month f seg, 1) /\
  to_ymd PEnd p = Ok (y, seg_end_month f seg, days_in_month y (seg_end_month f seg)) /\
  (seg = 1 -> to_ymd PStart p = Ok (y, 1, 1)) /\
  (seg = f -> to_ymd PEnd p = Ok (y, 12, 31)).
Proof.
  intros f s R p y seg. subst p y seg.
  assert (F : 0 < f) by (destruct (regular_cases f R) as [-> | [-> | [-> | ->]]]; lia).
  pose proof (Z.mod_pos_bound s f F) as MB.
  destruct (reg_to_ymd_spec f s R) as (A & C & _).
  unfold to_year_segment, p_year, p_segment, from_year_segment. cbn [p_freq p_serial].
  rewrite (regular_kind f R).
  refine (conj _ (conj _ (conj _ (conj _ (conj _ (conj _ (conj _ (conj _ (conj _ _))))))))); try reflexivity;
    try assumption.
  - lia.
  - f_equal. f_equal. unfold gen_reg_from_year_segment. pose proof (Z.div_mod s f). lia.
  - apply period_ext; cbn; [reflexivity |]. unfold gen_period_add, gen_reg_from_year_segment.
    pose proof (Z.div_mod s f). lia.
  - intros E. rewrite A, E. reflexivity.
  - intros E. rewrite C, E.
    destruct (seg_months_range f f R ltac:(lia)) as (_ & _ & _ & M4 & _). rewrite (M4 eq_refl). reflexivity.
Qed.

(* ------------------------------------------------------------------ 5. daily periods and the calendar *)

Definition in_calendar (n : Z) : Prop := 1 <= n <= max_ordinal.

Lemma ord_ok_true : forall n, in_calendar n -> ord_ok n = true.
Proof. intros n [A B]. unfold ord_ok. apply andb_true_iff. split; apply Z.leb_le; assumption. Qed.

Lemma date_ok_spec : forall y m d, date_ok y m d = true <-> valid_ymd y m d /\ y <= MAXYEAR.
Proof. intros. unfold date_ok. rewrite andb_true_iff, valid_ymdb_spec, Z.leb_le. tauto. Qed.

Lemma date_ok_jan1 : forall n, in_calendar n -> date_ok (year_of_ord n) 1 1 = true.
Proof.
  intros n H. apply date_ok_spec. pose proof (year_in_range n H) as Y. unfold MINYEAR, MAXYEAR in *.
  split; [| lia]. unfold valid_ymd. cbn. lia.
Qed.

Lemma ymd_of_ord_eta : forall n, (year_of_ord n, month_of_ord n, day_of_ord n) = ymd_of_ord n.
Proof. intros. unfold month_of_ord, day_of_ord, ymd_of_ord. reflexivity. Qed.

(* a daily period is the calendar day with its ordinal: every position is the day itself, the year is the
   calendar year, the segment is the day of the year *)
Theorem accessors_vs_calendar_daily : forall n, in_calendar n ->
  let p := mkP freq_DAILY n in
  (forall pos, to_ymd pos p = Ok (ymd_of_ord n)) /\
  (forall pos, to_ordinal pos p = Ok n) /\
  to_year_segment p = Ok (year_of_ord n, doy_of_ord n) /\
  p_year p = Ok (year_of_ord n) /\ p_segment p = Ok (doy_of_ord n) /\
  1 <= doy_of_ord n <= year_len (year_of_ord n) /\
  from_year_segment freq_DAILY (year_of_ord n) (doy_of_ord n) = Ok p /\
  (let '(y, m, d) := ymd_of_ord n in from_ymd freq_DAILY y m d = Ok p).
Proof.
  intros n H p. subst p.
  pose proof (ord_ok_true n H) as O. pose proof (date_ok_jan1 n H) as J.
  assert (TY : forall pos, to_ymd pos (mkP freq_DAILY n) = Ok (ymd_of_ord n)).
  { intros pos. unfold to_ymd. cbn [p_freq p_serial]. rewrite daily_kind.
    change gen_daily_to_ymd_welltyped with true. cbv iota. unfold gen_daily_to_ymd. rewrite O. cbn [of_opt].
    rewrite ymd_of_ord_eta. reflexivity. }
  assert (DOY : n - ord_of_ymd (year_of_ord n) 1 1 + 1 = doy_of_ord n).
  { unfold doy_of_ord. rewrite ord_jan1. lia. }
  pose proof (ord_of_ymd_of_ord n) as V. pose proof (ymd_of_ord_valid n ltac:(destruct H; lia)) as W.
  destruct (ymd_of_ord n) as [[y m] d] eqn:E. destruct V as (V1 & V2 & V3 & V4).
  refine (conj TY (conj _ (conj _ (conj _ (conj _ (conj _ (conj _ _))))))).
  - intros pos. unfold to_ordinal. rewrite TY. cbn [bind].
    assert (date_ok y m d = true) as ->.
    { apply date_ok_spec. split; [assumption |]. subst y. apply (year_in_range n H). }
    rewrite V1. reflexivity.
  - unfold to_year_segment. cbn [p_freq p_serial]. rewrite daily_kind.
    assert (W1 : gen_daily_to_year_segment_welltyped = true) by reflexivity. rewrite W1.
    unfold gen_daily_to_year_segment. rewrite O, J. cbn [andb of_opt]. rewrite DOY. reflexivity.
  - unfold p_year. cbn [p_freq p_serial]. rewrite daily_kind.
    assert (W1 : gen_daily_year_welltyped = true) by reflexivity. rewrite W1.
    unfold gen_daily_year. rewrite O. reflexivity.
  - unfold p_segment. cbn [p_freq p_serial]. rewrite daily_kind.
    assert (W1 : gen_daily_segment_welltyped = true) by reflexivity. rewrite W1.
    unfold gen_daily_segment. rewrite O, J. cbn [andb of_opt]. rewrite DOY. reflexivity.
  - apply doy_range.
  - unfold from_year_segment. rewrite daily_kind. unfold gen_daily_from_year_segment. rewrite J. cbn [of_opt dmap].
    f_equal. f_equal. unfold doy_of_ord. rewrite ord_jan1. lia.
  - unfold from_ymd. rewrite daily_kind. unfold gen_daily_from_ymd.
    assert (date_ok y m d = true) as ->.
    { apply date_ok_spec. split; [assumption |]. subst y. apply (year_in_range n H). }
    cbn [of_opt dmap]. rewrite V1. reflexivity.
Qed.

(* consecutive daily periods are consecutive calendar days *)
Theorem tiling_daily : forall n, in_calendar n -> in_calendar (n + 1) ->
  exists a b, to_ordinal PEnd (mkP freq_DAILY n) = Ok a /\ to_ordinal PStart (padd (mkP freq_DAILY n) 1) = Ok b /\
              a + 1 = b.
Proof.
  intros n H1 H2. exists n, (n + 1).
  destruct (accessors_vs_calendar_daily n H1) as (_ & A & _).
  destruct (accessors_vs_calendar_daily (n + 1) H2) as (_ & B & _).
  split; [apply A |]. split; [| reflexivity]. unfold padd. cbn [p_freq p_serial]. unfold gen_period_add. apply B.
Qed.

(* ------------------------------------------------------------------ 6. keyword shifts *)

Theorem shift_keywords_regular : forall f s, is_regular_freq f = true ->
  let p := mkP f s in
  let y := s / f in
  let seg := s mod f + 1 in
  pshift p (ByKw "yoy") = Ok (Some (padd p (- f))) /\
  pshift p (ByKw "soy") = Ok (Some (mkP f (y * f))) /\
  pshift p (ByKw "boy") = pshift p (ByKw "soy") /\
  to_year_segment (mkP f (y * f)) = Ok (y, 1) /\
  pshift p (ByKw "eopy") = Ok (Some (mkP f (y * f - 1))) /\
  to_year_segment (mkP f (y * f - 1)) = Ok (y - 1, f) /\
  pshift p (ByKw "tty") = Ok (if seg >? 1 then Some (padd p (-1)) else None) /\
  (forall k, pshift p (ByInt k) = Ok (Some (padd p k))).
Proof.
  intros f s R p y seg. subst p y seg.
  assert (F : 0 < f) by (destruct (regular_cases f R) as [-> | [-> | [-> | ->]]]; lia).
  unfold pshift. cbn [sassoc gen_shift_arms String.eqb Ascii.eqb Bool.eqb].
  unfold create_soy, create_eopy, create_tty, to_year_segment. cbn [p_freq p_serial]. rewrite (regular_kind f R).
  cbn [dmap option_map].
  refine (conj _ (conj _ (conj _ (conj _ (conj _ (conj _ (conj _ _))))))).
  - f_equal; f_equal; try (apply period_ext; cbn; [reflexivity |]; unfold gen_shift_arm_yoy, gen_period_add; lia).
  - f_equal; f_equal; f_equal; try (unfold gen_reg_create_soy; lia).
  - reflexivity.
  - f_equal. unfold gen_reg_to_year_segment. f_equal.
    + rewrite Z.div_mul by lia. reflexivity.
    + rewrite Z.mod_mul by lia. reflexivity.
  - f_equal; f_equal; f_equal; try (unfold gen_reg_create_eopy; lia).
  - f_equal. unfold gen_reg_to_year_segment. f_equal.
    + replace (s / f * f - 1) with ((s / f - 1) * f + (f - 1)) by lia.
      rewrite Z.div_add_l by (clear - F; lia). rewrite (Z.div_small (f - 1) f) by (clear - F; lia). ring.
    + replace (s / f * f - 1) with ((f - 1) + (s / f - 1) * f) by lia.
      rewrite Z.mod_add by (clear - F; lia). rewrite (Z.mod_small (f - 1) f) by (clear - F; lia). ring.
  - f_equal. unfold gen_reg_create_tty. destruct (s mod f + 1 >? 1); reflexivity.
  - intros k. reflexivity.
Qed.

Theorem shift_keywords_daily : forall n, in_calendar n ->
  let p := mkP freq_DAILY n in
  let y := year_of_ord n in
  pshift p (ByKw "yoy") = Ok (Some (padd p (- 365))) /\
  pshift p (ByKw "soy") = Ok (Some (mkP freq_DAILY (ord_of_ymd y 1 1))) /\
  pshift p (ByKw "boy") = pshift p (ByKw "soy") /\
  (2 <= y -> pshift p (ByKw "eopy") = Ok (Some (mkP freq_DAILY (ord_of_ymd (y - 1) 12 31))) /\
             ord_of_ymd (y - 1) 12 31 + 1 = ord_of_ymd y 1 1) /\
  pshift p (ByKw "tty") = Ok (if doy_of_ord n >? 1 then Some (padd p (-1)) else None).
Proof.
  intros n H p y. subst p y.
  pose proof (ord_ok_true n H) as O. pose proof (date_ok_jan1 n H) as J.
  unfold pshift. cbn [sassoc gen_shift_arms String.eqb Ascii.eqb Bool.eqb].
  unfold create_soy, create_eopy, create_tty. cbn [p_freq p_serial]. rewrite daily_kind.
  refine (conj _ (conj _ (conj _ (conj _ _)))).
  - f_equal.
  - assert (W1 : gen_daily_create_soy_welltyped = true) by reflexivity. rewrite W1.
    unfold gen_daily_create_soy. rewrite O, J. reflexivity.
  - reflexivity.
  - intros Y2. split.
    + assert (W1 : gen_daily_create_eopy_welltyped = true) by reflexivity. rewrite W1.
      unfold gen_daily_create_eopy. rewrite O.
      assert (date_ok (year_of_ord n - 1) 12 31 = true) as ->.
      { apply date_ok_spec. pose proof (year_in_range n H). unfold MINYEAR, MAXYEAR in *.
        split; [| lia]. unfold valid_ymd. cbn. lia. }
      reflexivity.
    + replace (year_of_ord n) with (year_of_ord n - 1 + 1) at 2 by lia. apply year_boundary.
  - assert (W1 : gen_daily_create_tty_welltyped = true) by reflexivity. rewrite W1.
    unfold gen_daily_create_tty. rewrite O, J. cbn [andb of_opt dmap].
    replace (n - ord_of_ymd (year_of_ord n) 1 1 + 1) with (doy_of_ord n)
      by (unfold doy_of_ord; rewrite ord_jan1; lia).
    destruct (doy_of_ord n >? 1); reflexivity.
Qed.

(* ------------------------------------------------------------------ 7. spans *)

Lemma div_bounds : forall x c, 0 < c -> c * (x / c) <= x < c * (x / c) + c.
Proof. intros x c H. pose proof (Z.div_mod x c ltac:(lia)). pose proof (Z.mod_pos_bound x c H). lia. Qed.

(* number of periods of Span(start = a, end = e, step = c) *)
Definition span_count (a e c : Z) : Z :=
  if c >? 0 then Z.max 0 ((e - a) / c + 1) else if c <? 0 then Z.max 0 ((a - e) / (- c) + 1) else 0.

Lemma gen_sign_spec : forall c, gen_sign c = if c >? 0 then 1 else if c =? 0 then 0 else -1.
Proof. reflexivity. Qed.

Lemma range_len_span : forall a e c, py_range_len a (e + gen_sign c) c = span_count a e c.
Proof.
  intros a e c. unfold py_range_len, span_count. rewrite gen_sign_spec.
  destruct (Z.gtb_spec c 0).
  - replace (e + 1 - a + c - 1) with ((e - a) + 1 * c) by lia. rewrite Z.div_add by lia. reflexivity.
  - destruct (Z.ltb_spec c 0); [| reflexivity].
    destruct (Z.eqb_spec c 0); [lia |].
    replace (a - (e + -1) - c - 1) with ((a - e) + 1 * (- c)) by lia. rewrite Z.div_add by lia. reflexivity.
Qed.

Lemma span_count_nonneg : forall a e c, 0 <= span_count a e c.
Proof. intros. unfold span_count. destruct (c >? 0); [lia |]. destruct (c <? 0); lia. Qed.

(* the enumeration start, start+step, ... stays between start and end (in the direction of step) and stops at the
   last such period *)
Lemma span_count_spec : forall a e c, c <> 0 ->
  let n := span_count a e c in
  (forall i, 0 <= i < n -> (0 < c -> a <= a + i * c <= e) /\ (c < 0 -> e <= a + i * c <= a)) /\
  (0 < c -> e < a + n * c) /\ (c < 0 -> a + n * c < e) /\
  (n = 0 <-> (0 < c /\ e < a) \/ (c < 0 /\ a < e)).
Proof.
  intros a e c C n. subst n. unfold span_count.
  destruct (Z.gtb_spec c 0).
  - pose proof (div_bounds (e - a) c H) as B.
    repeat split; intros; try lia; try nia.
  - destruct (Z.ltb_spec c 0); [| lia].
    pose proof (div_bounds (a - e) (- c) ltac:(lia)) as B.
    repeat split; intros; try lia; try nia.
Qed.

(* well-formed spans: what the constructor establishes and the in-place operations preserve *)
Definition span_wf (s : span) : Prop :=
  sp_needs s = ep_needs (sp_start s) || ep_needs (sp_end s) /\
  (sp_needs s = false -> exists p q, sp_start s = At p /\ sp_end s = At q /\ p_freq p = p_freq q).

Lemma span_make_wf : forall a b c s, span_make a b c = Ok s -> span_wf s.
Proof.
  intros a b c s H. rewrite span_make_unfold in H. cbv zeta in H.
  set (x := match a with Some e => e | None => Ctx (c >? 0) 0 end) in *.
  set (y := match b with Some e => e | None => Ctx (negb (c >? 0)) 0 end) in *.
  destruct (ep_needs x || ep_needs y) eqn:N.
  - injection H as <-. split; cbn; [symmetry; assumption | discriminate].
  - destruct x as [p |]; [| discriminate]. destruct y as [q |]; [| discriminate].
    destruct (check_periods p (Some q)) eqn:K; [| discriminate]. injection H as <-.
    split; cbn; [reflexivity |]. intros _. exists p, q. repeat split. apply check_some. assumption.
Qed.

Lemma ep_add_needs : forall e k, ep_needs (ep_add e k) = ep_needs e.
Proof. destruct e; reflexivity. Qed.

Lemma sstep_wf : forall s o, span_wf s -> span_wf (sstep s o).
Proof.
  intros s o [W1 W2]. destruct o; unfold sstep, with_state, gen_span_reverse, gen_span_shift, gen_span_shift_start,
    gen_span_shift_end; (split; cbn [sp_needs sp_start sp_end]; [rewrite ?ep_add_needs, W1; auto using orb_comm |]);
    intros N; destruct (W2 N) as (p & q & -> & -> & F); cbn [ep_add].
  - exists q, p. auto.
  - exists (padd p k), (padd q k). auto.
  - exists (padd p k), q. auto.
  - exists p, (padd q k). auto.
Qed.

Lemma run_ops_wf : forall ops s, span_wf s -> span_wf (run_ops s ops).
Proof. induction ops; intros; cbn; [assumption |]. apply IHops. apply sstep_wf. assumption. Qed.

Section ResolvedSpan.
Variables (s : span) (p q : period) (c : Z).
Hypothesis Hn : sp_needs s = false.
Hypothesis Hs : sp_start s = At p.
Hypothesis He : sp_end s = At q.
Hypothesis Hc : sp_step s = c.
Hypothesis Hnz : c <> 0.

Let a := p_serial p.
Let e := p_serial q.
Let n := span_count a e c.

Lemma resolved_range : span_range s = Ok (a, e + gen_sign c, c).
Proof. unfold span_range. rewrite Hn, Hs, He, Hc. reflexivity. Qed.

Lemma resolved_len : span_len s = Ok n.
Proof.
  unfold span_len. rewrite Hn, resolved_range. cbn [bind range_len].
  destruct (Z.eqb_spec c 0); [contradiction |]. rewrite range_len_span. reflexivity.
Qed.

Lemma resolved_iter : span_iter s = Ok (map (fun i => padd p (Z.of_nat i * c)) (seq 0 (Z.to_nat n))).
Proof.
  unfold span_iter, span_serials. rewrite Hn, resolved_range. cbn [bind range_list].
  destruct (Z.eqb_spec c 0); [contradiction |]. cbn [dmap]. f_equal.
  unfold py_range. rewrite range_len_span, map_map. unfold span_freq. rewrite Hs. reflexivity.
Qed.

Lemma resolved_nth : forall i,
  span_nth s i = if (0 <=? i) && (i <? n) then Ok (padd p (i * c))
                 else if (- n <=? i) && (i <? 0) then Ok (padd p ((i + n) * c))
                 else Err ErrIndex.
Proof.
  intros i. unfold span_nth. rewrite Hn, resolved_range. cbn [bind range_nth].
  destruct (Z.eqb_spec c 0); [contradiction |]. rewrite range_len_span. fold n.
  unfold span_freq. rewrite Hs.
  pose proof (span_count_nonneg a e c). fold n in H.
  destruct (Z.ltb_spec i 0).
  - destruct (Z.leb_spec 0 i); [lia |]. cbn [andb].
    destruct (Z.ltb_spec (i + n) 0), (Z.leb_spec n (i + n)), (Z.leb_spec (- n) i); cbn; try reflexivity; lia.
  - destruct (Z.leb_spec 0 i); [| lia]. cbn [andb].
    destruct (Z.ltb_spec i 0); [lia |].
    destruct (Z.leb_spec n i), (Z.ltb_spec i n), (Z.leb_spec (- n) i); cbn; try reflexivity; lia.
Qed.

(* indexing agrees with iteration *)
Lemma resolved_nth_iter : forall i l, span_iter s = Ok l -> 0 <= i < n ->
  span_nth s i = Ok (nth (Z.to_nat i) l p) /\ (Z.to_nat i < length l)%nat.
Proof.
  intros i l L I. rewrite resolved_iter in L. injection L as <-.
  rewrite resolved_nth.
  destruct (Z.leb_spec 0 i); [| lia]. destruct (Z.ltb_spec i n); [| lia]. cbn [andb].
  rewrite map_length, seq_length. split; [| lia].
  rewrite (nth_indep _ p (padd p (Z.of_nat 0 * c))) by (rewrite map_length, seq_length; lia).
  rewrite (map_nth (fun i => padd p (Z.of_nat i * c))). rewrite seq_nth by lia.
  cbn [plus]. rewrite Z2Nat.id by lia. reflexivity.
Qed.

Lemma resolved_len_iter : forall l, span_iter s = Ok l -> span_len s = Ok (Z.of_nat (length l)).
Proof.
  intros l L. rewrite resolved_iter in L. injection L as <-. rewrite resolved_len, map_length, seq_length.
  rewrite Z2Nat.id by apply span_count_nonneg. reflexivity.
Qed.

End ResolvedSpan.

(* A resolved span enumerates exactly start, start+step, ... up to end, in the direction of step; its length, its
   iteration and its indexing (also with negative indices) agree with one another *)
Theorem span_enumerates : forall s p q c,
  sp_needs s = false -> sp_start s = At p -> sp_end s = At q -> sp_step s = c -> c <> 0 ->
  let a := p_serial p in
  let e := p_serial q in
  let n := span_count a e c in
  span_len s = Ok n /\
  span_iter s = Ok (map (fun i => padd p (Z.of_nat i * c)) (seq 0 (Z.to_nat n))) /\
  (forall i, 0 <= i < n -> span_nth s i = Ok (padd p (i * c)) /\ span_nth s (i - n) = Ok (padd p (i * c))) /\
  (forall i, n <= i \/ i < - n -> span_nth s i = Err ErrIndex) /\
  (forall i, 0 <= i < n -> (0 < c -> a <= a + i * c <= e) /\ (c < 0 -> e <= a + i * c <= a)) /\
  (0 < c -> e < a + n * c) /\ (c < 0 -> a + n * c < e) /\
  (n = 0 <-> (0 < c /\ e < a) \/ (c < 0 /\ a < e)).
Proof.
  intros s p q c Hn Hs He Hc Hnz a e n.
  pose proof (span_count_spec a e c Hnz) as (S1 & S2 & S3 & S4). fold n in S1, S2, S3, S4.
  pose proof (span_count_nonneg a e c) as NN. fold n in NN.
  refine (conj _ (conj _ (conj _ (conj _ (conj S1 (conj S2 (conj S3 S4))))))).
  - apply (resolved_len s p q c); assumption.
  - apply (resolved_iter s p q c); assumption.
  - intros i I. rewrite !(resolved_nth s p q c) by assumption. fold a e n. split.
    + destruct (Z.leb_spec 0 i), (Z.ltb_spec i n); try lia. reflexivity.
    + destruct (Z.leb_spec 0 (i - n)); [lia |]. cbn [andb].
      destruct (Z.leb_spec (- n) (i - n)), (Z.ltb_spec (i - n) 0); try lia. cbn [andb].
      f_equal. f_equal. lia.
  - intros i I. rewrite (resolved_nth s p q c) by assumption. fold a e n.
    destruct (Z.leb_spec 0 i), (Z.ltb_spec i n), (Z.leb_spec (- n) i), (Z.ltb_spec i 0); cbn; try reflexivity; lia.
Qed.

(* the full slice s[:] is the whole listing *)
Lemma select_idx_all : forall (T : Type) (l : list T) k idx,
  (forall j, k <= j < k + Z.of_nat (length l) -> existsb (Z.eqb j) idx = true) -> select_idx l k idx = l.
Proof.
  induction l as [| x l IH]; intros k idx H; cbn [select_idx]; [reflexivity |].
  rewrite H by (cbn [length]; lia). f_equal. apply IH. intros j J. apply H. cbn [length]. lia.
Qed.

Lemma in_py_range_unit : forall n j, 0 <= j < n -> existsb (Z.eqb j) (py_range 0 n 1) = true.
Proof.
  intros n j J. apply existsb_exists. exists j. split; [| apply Z.eqb_refl].
  unfold py_range, py_range_len. cbn [Z.gtb Z.compare].
  replace ((n - 0 + 1 - 1) / 1) with n by (rewrite Z.div_1_r; lia).
  apply in_map_iff. exists (Z.to_nat j). split; [lia |]. apply in_seq. lia.
Qed.

Theorem span_slice_full : forall s p q c l,
  sp_needs s = false -> sp_start s = At p -> sp_end s = At q -> sp_step s = c -> c <> 0 ->
  span_iter s = Ok l -> span_slice s (None, None, None) = Ok l.
Proof.
  intros s p q c l Hn Hs He Hc Hnz L. unfold span_slice.
  rewrite (resolved_len_iter s p q c Hn Hs He Hc Hnz l L). cbn [bind slice_indices Z.eqb Z.ltb Z.compare].
  rewrite L. cbn [bind]. f_equal. apply select_idx_all. intros j J. apply in_py_range_unit. lia.
Qed.

(* shifting a span shifts every period of its listing and keeps the length; the functional form + agrees with the
   in-place form *)
Theorem span_shift : forall s p q c k,
  sp_needs s = false -> sp_start s = At p -> sp_end s = At q -> sp_step s = c -> c <> 0 ->
  let s' := sstep s (OShift k) in
  span_len s' = span_len s /\
  (forall l, span_iter s = Ok l -> span_iter s' = Ok (map (fun x => padd x k) l)) /\
  (p_freq p = p_freq q -> span_add s k = Ok s').
Proof.
  intros s p q c k Hn Hs He Hc Hnz s'.
  assert (Hn' : sp_needs s' = false) by exact Hn.
  assert (Hs' : sp_start s' = At (padd p k)) by (subst s'; cbn; rewrite Hs; reflexivity).
  assert (He' : sp_end s' = At (padd q k)) by (subst s'; cbn; rewrite He; reflexivity).
  assert (Hc' : sp_step s' = c) by exact Hc.
  assert (CNT : span_count (p_serial (padd p k)) (p_serial (padd q k)) c = span_count (p_serial p) (p_serial q) c).
  { cbn [padd p_serial]. unfold gen_period_add, span_count.
    replace (p_serial q + k - (p_serial p + k)) with (p_serial q - p_serial p) by lia.
    replace (p_serial p + k - (p_serial q + k)) with (p_serial p - p_serial q) by lia. reflexivity. }
  refine (conj _ (conj _ _)).
  - rewrite (resolved_len s' _ _ c Hn' Hs' He' Hc' Hnz), (resolved_len s p q c Hn Hs He Hc Hnz), CNT. reflexivity.
  - intros l L. rewrite (resolved_iter s p q c Hn Hs He Hc Hnz) in L. injection L as <-.
    rewrite (resolved_iter s' _ _ c Hn' Hs' He' Hc' Hnz), CNT, map_map. f_equal. apply map_ext. intros i.
    rewrite !padd_padd. f_equal. lia.
  - intros F. unfold span_add. rewrite span_make_unfold. rewrite Hs, He. cbn [ep_add ep_needs orb].
    rewrite (proj2 (check_some (padd p k) (padd q k))) by exact F.
    subst s'. unfold sstep, with_state, gen_span_shift. rewrite Hs, He, Hn, Hc. reflexivity.
Qed.

Lemma rev_map_seq : forall (T : Type) (f : nat -> T) N,
  rev (map f (seq 0 N)) = map (fun i => f (N - 1 - i)%nat) (seq 0 N).
Proof.
  intros T f N. induction N as [| N IH]; [reflexivity |].
  transitivity (f N :: rev (map f (seq 0 N))).
  - rewrite seq_S, map_app, rev_app_distr. reflexivity.
  - rewrite IH. change (seq 0 (S N)) with (0%nat :: seq 1 N). cbn [map].
    f_equal; [f_equal; lia |].
    rewrite <- seq_shift, map_map. apply map_ext_in. intros i I. f_equal. lia.
Qed.

Theorem reverse_involutive : forall s, sstep (sstep s OReverse) OReverse = s.
Proof.
  intros s. destruct s as [a b c n]. unfold sstep, with_state, gen_span_reverse. cbn.
  f_equal. lia.
Qed.

(* reversal swaps the ends and negates the step; the reversed span lists the same periods backwards exactly when the
   step divides the distance (otherwise it still enumerates end, end-step, ... down to start, by span_enumerates) *)
Theorem reverse_exact_when_divisible : forall s p q c l,
  sp_needs s = false -> sp_start s = At p -> sp_end s = At q -> sp_step s = c -> c <> 0 ->
  p_freq p = p_freq q ->
  (p_serial q - p_serial p) mod c = 0 -> span_iter s = Ok l ->
  span_iter (sstep s OReverse) = Ok (rev l).
Proof.
  intros s p q c l Hn Hs He Hc Hnz F D L.
  set (s' := sstep s OReverse).
  assert (Hn' : sp_needs s' = false) by exact Hn.
  assert (Hs' : sp_start s' = At q) by (subst s'; cbn; rewrite He; reflexivity).
  assert (He' : sp_end s' = At p) by (subst s'; cbn; rewrite Hs; reflexivity).
  assert (Hc' : sp_step s' = - c) by (subst s'; cbn; rewrite Hc; reflexivity).
  rewrite (resolved_iter s p q c Hn Hs He Hc Hnz) in L. injection L as <-.
  rewrite (resolved_iter s' q p (- c) Hn' Hs' He' Hc' ltac:(lia)).
  set (a := p_serial p) in *. set (e := p_serial q) in *.
  assert (CNT : span_count e a (- c) = span_count a e c).
  { unfold span_count. destruct (Z.gtb_spec c 0).
    - destruct (Z.gtb_spec (- c) 0); [lia |]. destruct (Z.ltb_spec (- c) 0); [| lia].
      replace (- - c) with c by lia. reflexivity.
    - destruct (Z.ltb_spec c 0); [| lia]. destruct (Z.gtb_spec (- c) 0); [| lia]. reflexivity. }
  rewrite CNT, rev_map_seq. f_equal. apply map_ext_in. intros i I. apply in_seq in I.
  set (n := span_count a e c) in *.
  assert (NN : 0 <= n) by apply span_count_nonneg.
  assert (LAST : (n - 1) * c = e - a).
  { assert (1 <= n) by lia. subst n. unfold span_count in *.
    destruct (Z.gtb_spec c 0).
    - pose proof (Z.div_mod (e - a) c Hnz). rewrite D in H1. lia.
    - destruct (Z.ltb_spec c 0); [| lia].
      assert (D' : (a - e) mod (- c) = 0).
      { replace (a - e) with (- (e - a)) by lia. rewrite Z.mod_opp_opp by lia. rewrite D. reflexivity. }
      pose proof (Z.div_mod (a - e) (- c) ltac:(lia)). rewrite D' in H2. lia. }
  apply period_ext; cbn [padd p_freq p_serial]; [symmetry; exact F | unfold gen_period_add].
  fold a e. rewrite Nat2Z.inj_sub, Nat2Z.inj_sub by lia. rewrite Z2Nat.id by lia. cbn [Z.of_nat]. nia.
Qed.

(* ------------------------------------------------------------------ 8. resolution and in-place histories *)

Lemma ep_add_0 : forall e, ep_add e 0 = e.
Proof. destruct e; cbn; [rewrite padd_0; reflexivity | unfold gen_ctx_add; f_equal; lia]. Qed.

Lemma ep_add_add : forall e a b, ep_add (ep_add e a) b = ep_add e (a + b).
Proof. destruct e; intros; cbn; [rewrite padd_padd; reflexivity | unfold gen_ctx_add; f_equal; lia]. Qed.

Lemma ep_resolve_add : forall c e k, ep_resolve c (ep_add e k) = ep_add (ep_resolve c e) k.
Proof.
  intros c e k. destruct e as [p | [|] o]; cbn; [reflexivity | |]; rewrite padd_padd; reflexivity.
Qed.

Lemma ep_resolve_at : forall c e, exists p, ep_resolve c e = At p.
Proof. intros c e. destruct e as [p | [|] o]; cbn; eauto. Qed.

Lemma span_make_at : forall p q c, span_make (Some (At p)) (Some (At q)) c =
  if check_periods p (Some q) then Ok (mkSpan (At p) (At q) c false) else Err ErrFreq.
Proof. intros. rewrite span_make_unfold. reflexivity. Qed.

(* Span.resolve as regenerated from the source (gen_span_resolve): an end point that is already a period is kept, a
   contextual one is resolved, and the result is built by the constructor *)
Lemma span_resolve_unfold : forall c s, span_resolve c s =
  span_make (Some (ep_resolve c (sp_start s))) (Some (ep_resolve c (sp_end s))) (sp_step s).
Proof.
  intros c s. unfold span_resolve, gen_span_resolve.
  destruct (sp_start s) as [p | [|] o], (sp_end s) as [q | [|] o']; reflexivity.
Qed.

(* resolving against a context commutes with every in-place operation *)
Theorem resolve_then_ops_commute : forall c s o,
  span_resolve c (sstep s o) = dmap (fun r => sstep r o) (span_resolve c s).
Proof.
  intros c s o. rewrite !span_resolve_unfold.
  destruct (ep_resolve_at c (sp_start s)) as (p & P). destruct (ep_resolve_at c (sp_end s)) as (q & Q).
  destruct o; unfold sstep, with_state, gen_span_reverse, gen_span_shift, gen_span_shift_start, gen_span_shift_end;
    cbn [sp_start sp_end sp_step]; rewrite ?ep_resolve_add, P, Q; cbn [ep_add]; rewrite !span_make_at.
  - assert (check_periods q (Some p) = check_periods p (Some q)) as ->.
    { unfold check_periods, same_class. rewrite Z.eqb_sym. reflexivity. }
    destruct (check_periods p (Some q)); reflexivity.
  - change (check_periods (padd p k) (Some (padd q k))) with (check_periods p (Some q)).
    destruct (check_periods p (Some q)); reflexivity.
  - change (check_periods (padd p k) (Some q)) with (check_periods p (Some q)).
    destruct (check_periods p (Some q)); reflexivity.
  - change (check_periods p (Some (padd q k))) with (check_periods p (Some q)).
    destruct (check_periods p (Some q)); reflexivity.
Qed.

Theorem resolve_then_history_commute : forall c ops s,
  span_resolve c (run_ops s ops) = dmap (fun r => run_ops r ops) (span_resolve c s).
Proof.
  intros c ops. induction ops as [| o ops IH]; intros s; cbn [run_ops fold_left].
  - destruct (span_resolve c s); reflexivity.
  - fold (run_ops (sstep s o) ops). rewrite IH, resolve_then_ops_commute.
    destruct (span_resolve c s); reflexivity.
Qed.

(* summary of a history: has the span been flipped, and by how much have the ORIGINAL start and end moved *)
Record summary := mkSum { su_flip : bool; su_da : Z; su_db : Z }.

Definition sum_step (u : summary) (o : sop) : summary :=
  match o with
  | OReverse => mkSum (negb (su_flip u)) (su_da u) (su_db u)
  | OShift k => mkSum (su_flip u) (su_da u + k) (su_db u + k)
  | OShiftStart k => if su_flip u then mkSum true (su_da u) (su_db u + k) else mkSum false (su_da u + k) (su_db u)
  | OShiftEnd k => if su_flip u then mkSum true (su_da u + k) (su_db u) else mkSum false (su_da u) (su_db u + k)
  end.

Definition summarize (ops : list sop) : summary := fold_left sum_step ops (mkSum false 0 0).

(* the pure (functional) composition: shift the two original end points, then swap and negate if flipped *)
Definition closed_form (s : span) (u : summary) : span :=
  let a := ep_add (sp_start s) (su_da u) in
  let b := ep_add (sp_end s) (su_db u) in
  if su_flip u then mkSpan b a (- sp_step s) (sp_needs s) else mkSpan a b (sp_step s) (sp_needs s).

Lemma closed_form_step : forall s u o, sstep (closed_form s u) o = closed_form s (sum_step u o).
Proof.
  intros s [fl da db] o. unfold closed_form. cbn [su_flip su_da su_db].
  destruct o, fl; unfold sstep, with_state, gen_span_reverse, gen_span_shift, gen_span_shift_start, gen_span_shift_end,
    sum_step; cbn [sp_start sp_end sp_step sp_needs su_flip su_da su_db negb]; rewrite ?ep_add_add;
    try reflexivity; f_equal; lia.
Qed.

(* after ANY sequence of in-place mutations the span is the closed form of the history's summary *)
Theorem history_invariant : forall ops s, run_ops s ops = closed_form s (summarize ops).
Proof.
  intros ops s.
  assert (G : forall ops u, fold_left sstep ops (closed_form s u) = closed_form s (fold_left sum_step ops u)).
  { induction ops0 as [| o ops0 IH]; intros u; cbn [fold_left]; [reflexivity |]. rewrite closed_form_step. apply IH. }
  unfold run_ops, summarize. rewrite <- G. f_equal.
  unfold closed_form. cbn [su_flip su_da su_db]. rewrite !ep_add_0. destruct s; reflexivity.
Qed.

(* consequently the listing after a history is the enumeration of the closed form *)
Corollary history_enumerates : forall ops s p q c,
  let t := run_ops s ops in
  sp_needs t = false -> sp_start t = At p -> sp_end t = At q -> sp_step t = c -> c <> 0 ->
  t = closed_form s (summarize ops) /\
  span_iter t = Ok (map (fun i => padd p (Z.of_nat i * c)) (seq 0 (Z.to_nat (span_count (p_serial p) (p_serial q) c)))).
Proof.
  intros ops s p q c t Hn Hs He Hc Hnz. split; [apply history_invariant |].
  apply (resolved_iter t p q c); assumption.
Qed.

(* ------------------------------------------------------------------ 9. lib/Period.v agrees with the generated fragments *)

Theorem period_lib_agrees : forall f t y seg,
  ysf_serial y seg f = gen_serial_from_ysf y seg f /\
  ysf_serial y seg f = gen_reg_from_year_segment f y seg /\
  serial_year f t = gen_reg_year f t /\
  serial_seg f t = gen_reg_segment f t /\
  (serial_year f t, serial_seg f t) = gen_reg_to_year_segment f t /\
  p_soy f t = gen_reg_create_soy f t /\
  p_eopy f t = gen_reg_create_eopy f t /\
  p_tty f t = gen_reg_create_tty f t /\
  pshift (mkP f t) (ByKw "yoy") = Ok (Some (mkP f (p_yoy f t))).
Proof.
  intros f t y seg. unfold ysf_serial, gen_serial_from_ysf, gen_reg_from_year_segment, serial_year, gen_reg_year,
    serial_seg, gen_reg_segment, gen_reg_to_year_segment, p_soy, p_eopy, p_tty, p_yoy, gen_reg_create_soy,
    gen_reg_create_eopy, gen_reg_create_tty, ysf_serial, serial_year, serial_seg.
  refine (conj _ (conj _ (conj _ (conj _ (conj _ (conj _ (conj _ (conj _ _)))))))); try reflexivity; try lia.
  all: try (destruct (t mod f + 1 >? 1); [f_equal; lia | reflexivity]).
  all: try (unfold pshift; cbn [sassoc gen_shift_arms String.eqb Ascii.eqb Bool.eqb]; cbn [p_freq p_serial];
            f_equal; f_equal; f_equal; try (unfold gen_shift_arm_yoy; lia)).
Qed.

Definition shift_of (b : shift_spec) : shift_by :=
  match b with Period.ByInt k => ByInt k | Yoy => ByKw "yoy" | Soy => ByKw "soy" | Eopy => ByKw "eopy" | Tty => ByKw "tty" end.

(* Period.period_shift (used by the Series / Temporal models) is Period.shift of the Dates model on regular frequencies *)
Theorem period_shift_agrees : forall f b t, is_regular_freq f = true ->
  pshift (mkP f t) (shift_of b) = Ok (option_map (mkP f) (period_shift f b t)).
Proof.
  intros f b t R. destruct (period_lib_agrees f t 0 0) as (_ & _ & _ & _ & _ & S & E & T & Y).
  destruct b; cbn [shift_of period_shift option_map].
  - reflexivity.
  - exact Y.
  - unfold pshift. cbn [sassoc gen_shift_arms String.eqb Ascii.eqb Bool.eqb]. unfold create_soy. cbn [p_freq p_serial].
    rewrite (regular_kind f R), S. reflexivity.
  - unfold pshift. cbn [sassoc gen_shift_arms String.eqb Ascii.eqb Bool.eqb]. unfold create_eopy. cbn [p_freq p_serial].
    rewrite (regular_kind f R), E. reflexivity.
  - unfold pshift. cbn [sassoc gen_shift_arms String.eqb Ascii.eqb Bool.eqb]. unfold create_tty. cbn [p_freq p_serial].
    rewrite (regular_kind f R), T. reflexivity.
Qed.

(* ------------------------------------------------------------------ 10. non-vacuity *)

Example hypotheses_satisfiable :
  is_regular_freq 4 = true /\ 1 <= 8081 / 4 /\ in_calendar 738000 /\ in_calendar (738000 + 1) /\
  (exists s, span_make (Some (At (mkP 4 8080))) (Some (At (mkP 4 8091))) 3 = Ok s /\ sp_needs s = false /\
             sp_step s <> 0 /\ span_iter s = Ok [mkP 4 8080; mkP 4 8083; mkP 4 8086; mkP 4 8089] /\
             span_iter (sstep s OReverse) = Ok [mkP 4 8091; mkP 4 8088; mkP 4 8085; mkP 4 8082]) /\
  (exists s r, span_make None (Some (Ctx false (-1))) 1 = Ok s /\ sp_needs s = true /\
               span_resolve (mkCtx (mkP 12 24240) (mkP 12 24250)) (run_ops s [OShift 2; OReverse; OShiftEnd 1]) = Ok r /\
               span_iter r = Ok [mkP 12 24251; mkP 12 24250; mkP 12 24249; mkP 12 24248; mkP 12 24247; mkP 12 24246;
                                 mkP 12 24245; mkP 12 24244; mkP 12 24243]).
Proof.
  split; [reflexivity |]. split; [vm_compute; discriminate |]. split; [unfold in_calendar, max_ordinal; lia |].
  split; [unfold in_calendar, max_ordinal; lia |]. split.
  - eexists. split; [reflexivity |]. split; [reflexivity |]. split; [cbn; lia |]. split; vm_compute; reflexivity.
  - eexists. eexists. split; [reflexivity |]. split; [reflexivity |]. split; vm_compute; reflexivity.
Qed.

Lemma history_wellformed : forall ops a b c s, span_make a b c = Ok s -> span_wf (run_ops s ops).
Proof. intros. apply run_ops_wf. eapply span_make_wf. eassumption. Qed.

Lemma calendar_inverse : forall y m d n,
  (valid_ymd y m d -> ymd_of_ord (ord_of_ymd y m d) = (y, m, d)) /\
  (let '(y', m', d') := ymd_of_ord n in ord_of_ymd y' m' d' = n /\ 1 <= m' <= 12 /\ 1 <= d' <= days_in_month y' m'
                                          /\ y' = year_of_ord n).
Proof. intros. split; [apply ymd_of_ord_of_ymd | apply ord_of_ymd_of_ord]. Qed.

(* ================================================================== 11. periods built from calendar dates
   (from_ymd = from_python_date = from_iso_string = the second half of refrequent) *)

(* ------------------------------------------------------------------ months and segments *)

Ltac month12 m :=
  let H := fresh in
  assert (H : m = 1 \/ m = 2 \/ m = 3 \/ m = 4 \/ m = 5 \/ m = 6 \/ m = 7 \/ m = 8 \/ m = 9 \/ m = 10 \/ m = 11 \/ m = 12)
    by lia;
  repeat (destruct H as [H | H]); subst m.

Lemma mts_spec : forall f m, is_regular_freq f = true -> 1 <= m <= 12 ->
  let seg := month_to_segment f m in
  1 <= seg <= f /\ seg_start_month f seg <= m <= seg_end_month f seg.
Proof.
  intros f m R M. destruct (regular_cases f R) as [-> | [-> | [-> | ->]]]; month12 m; vm_compute; repeat split; discriminate.
Qed.

Lemma mts_cases : forall m,
  month_to_segment 1 m = 1 /\ month_to_segment 2 m = 1 + (m - 1) / 6 /\ month_to_segment 4 m = 1 + (m - 1) / 3 /\
  month_to_segment 12 m = m.
Proof. intros. repeat split; reflexivity. Qed.

Lemma mts_mono : forall f a b, is_regular_freq f = true -> a <= b -> month_to_segment f a <= month_to_segment f b.
Proof.
  intros f a b R H. destruct (mts_cases a) as (A1 & A2 & A3 & A4). destruct (mts_cases b) as (B1 & B2 & B3 & B4).
  destruct (regular_cases f R) as [-> | [-> | [-> | ->]]]; lia.
Qed.

(* every month of the seg-th period maps back to seg *)
Lemma mts_of_segment : forall f seg m, is_regular_freq f = true -> 1 <= seg <= f ->
  seg_start_month f seg <= m <= seg_end_month f seg -> month_to_segment f m = seg.
Proof.
  intros f seg m R S M. unfold seg_start_month, seg_end_month in M. destruct (mts_cases m) as (A1 & A2 & A3 & A4).
  destruct (regular_cases f R) as [-> | [-> | [-> | ->]]];
    [change (12 / 1) with 12 in M | change (12 / 2) with 6 in M | change (12 / 4) with 3 in M | change (12 / 12) with 1 in M];
    lia.
Qed.

Lemma regular_pos : forall f, is_regular_freq f = true -> 0 < f.
Proof. intros f R. destruct (regular_cases f R) as [-> | [-> | [-> | ->]]]; lia. Qed.

Lemma from_ymd_regular : forall f y m d, is_regular_freq f = true ->
  from_ymd f y m d = Ok (mkP f (y * f + month_to_segment f m - 1)).
Proof.
  intros f y m d R. unfold from_ymd. rewrite (regular_kind f R). unfold gen_reg_from_ymd. reflexivity.
Qed.

Lemma year_seg_of_serial : forall f y seg, 0 < f -> 1 <= seg <= f ->
  (y * f + seg - 1) / f = y /\ (y * f + seg - 1) mod f + 1 = seg.
Proof.
  intros f y seg F S. replace (y * f + seg - 1) with ((seg - 1) + y * f) by lia.
  rewrite Z.div_add, Z.mod_add by lia. rewrite Z.div_small, Z.mod_small by lia. lia.
Qed.

(* ------------------------------------------------------------------ (year, month, day) round trips *)

(* regular: the date at ANY position converts back to the period *)
Theorem ymd_roundtrip_regular : forall f s pos, is_regular_freq f = true ->
  exists y m d, to_ymd pos (mkP f s) = Ok (y, m, d) /\ from_ymd f y m d = Ok (mkP f s) /\
                y = s / f /\ seg_start_month f (s mod f + 1) <= m <= seg_end_month f (s mod f + 1) /\
                1 <= d <= days_in_month y m.
Proof.
  intros f s pos R. pose proof (regular_pos f R) as F.
  destruct (reg_to_ymd_spec f s R) as (A & C & mm & md & B & Bm & Bd).
  pose proof (Z.mod_pos_bound s f F) as MB.
  destruct (seg_months_range f (s mod f + 1) R ltac:(lia)) as (M1 & M2 & _).
  assert (BACK : forall m, seg_start_month f (s mod f + 1) <= m <= seg_end_month f (s mod f + 1) ->
                 forall d, from_ymd f (s / f) m d = Ok (mkP f s)).
  { intros m Hm d. rewrite from_ymd_regular by assumption. rewrite (mts_of_segment f (s mod f + 1) m R) by lia.
    f_equal. f_equal. pose proof (Z.div_mod s f). lia. }
  destruct pos.
  - exists (s / f), (seg_start_month f (s mod f + 1)), 1. split; [exact A |]. split; [apply BACK; lia |].
    pose proof (dim_range (s / f) (seg_start_month f (s mod f + 1))). repeat split; lia.
  - exists (s / f), mm, md. split; [exact B |]. split; [apply BACK; lia |]. repeat split; lia.
  - exists (s / f), (seg_end_month f (s mod f + 1)), (days_in_month (s / f) (seg_end_month f (s mod f + 1))).
    split; [exact C |]. split; [apply BACK; lia |].
    pose proof (dim_range (s / f) (seg_end_month f (s mod f + 1))). repeat split; lia.
Qed.

Theorem ymd_roundtrip_daily : forall n pos, in_calendar n ->
  exists y m d, to_ymd pos (mkP freq_DAILY n) = Ok (y, m, d) /\ from_ymd freq_DAILY y m d = Ok (mkP freq_DAILY n) /\
                (y, m, d) = ymd_of_ord n.
Proof.
  intros n pos H. destruct (accessors_vs_calendar_daily n H) as (A & _ & _ & _ & _ & _ & _ & B).
  destruct (ymd_of_ord n) as [[y m] d] eqn:E. exists y, m, d. rewrite A. auto.
Qed.

(* the calendar periods of the supported range *)
Definition in_domain (p : period) : Prop :=
  (is_regular_freq (p_freq p) = true /\ 1 <= p_serial p / p_freq p <= MAXYEAR) \/
  (p_freq p = freq_DAILY /\ in_calendar (p_serial p)).

Definition cal_freq (g : Z) : Prop := is_regular_freq g = true \/ g = freq_DAILY.

Definition ymd_le (a b : Z * Z * Z) : Prop := a = b \/ ymd_lt a b.

Lemma ord_in_calendar : forall y m d, valid_ymd y m d -> y <= MAXYEAR -> in_calendar (ord_of_ymd y m d).
Proof.
  intros y m d V Y. pose proof (ord_of_ymd_range y m d V) as R. destruct V as (Y1 & _).
  assert (days_before_year 1 <= days_before_year y) by (apply dby_mono; lia).
  assert (days_before_year (y + 1) <= days_before_year 10000) by (apply dby_mono; unfold MAXYEAR in Y; lia).
  change (days_before_year 10000) with 3652059 in H0. rewrite dby_1 in H. unfold in_calendar, max_ordinal. lia.
Qed.

(* the date of a period of the domain at any position is a valid date of the supported range *)
Lemma domain_date : forall p pos, in_domain p ->
  exists y m d, to_ymd pos p = Ok (y, m, d) /\ valid_ymd y m d /\ y <= MAXYEAR /\ from_ymd (p_freq p) y m d = Ok p.
Proof.
  intros [f s] pos [[R Y] | [E C]]; cbn [p_freq p_serial] in *.
  - destruct (ymd_roundtrip_regular f s pos R) as (y & m & d & A & B & Ey & Em & Ed).
    exists y, m, d. pose proof (regular_pos f R) as F. pose proof (Z.mod_pos_bound s f F) as MB.
    destruct (seg_months_range f (s mod f + 1) R ltac:(lia)) as (M1 & M2 & _).
    repeat split; try assumption; subst y; lia.
  - subst f. destruct (ymd_roundtrip_daily s pos C) as (y & m & d & A & B & E).
    exists y, m, d. pose proof (ymd_of_ord_valid s ltac:(destruct C; lia)) as V. rewrite <- E in V.
    pose proof (ord_of_ymd_of_ord s) as W. rewrite <- E in W. destruct W as (_ & _ & _ & Ey).
    repeat split; try assumption; try apply V. subst y. apply (year_in_range s C).
Qed.

(* from_ymd returns the target-frequency period that contains the date *)
Lemma from_ymd_contains : forall g y m d, cal_freq g -> valid_ymd y m d -> y <= MAXYEAR ->
  exists r a c, from_ymd g y m d = Ok r /\ p_freq r = g /\ in_domain r /\
                to_ymd PStart r = Ok a /\ to_ymd PEnd r = Ok c /\ valid3 a /\ valid3 c /\
                ord3 a <= ord_of_ymd y m d <= ord3 c.
Proof.
  intros g y m d [R | ->] V Y.
  - pose proof (regular_pos g R) as F. destruct V as (Y1 & M & D).
    destruct (mts_spec g m R M) as (S & Sm). cbv zeta in S, Sm.
    set (seg := month_to_segment g m) in *.
    destruct (year_seg_of_serial g y seg F S) as (Ey & Es).
    destruct (reg_to_ymd_spec g (y * g + seg - 1) R) as (A & C & _). rewrite Ey, Es in A, C.
    destruct (seg_months_range g seg R S) as (M1 & M2 & _).
    eexists. eexists. eexists. split; [apply from_ymd_regular; assumption |]. fold seg.
    split; [reflexivity |]. split; [left; cbn [p_freq p_serial]; rewrite Ey; split; [assumption | lia] |].
    split; [exact A |]. split; [exact C |].
    assert (Va : valid_ymd y (seg_start_month g seg) 1).
    { unfold valid_ymd. pose proof (dim_range y (seg_start_month g seg)). lia. }
    assert (Vc : valid_ymd y (seg_end_month g seg) (days_in_month y (seg_end_month g seg))).
    { unfold valid_ymd. pose proof (dim_range y (seg_end_month g seg)). lia. }
    split; [exact Va |]. split; [exact Vc |]. cbn [ord3]. split.
    + apply ord_le_lex; [assumption | unfold valid_ymd; lia |]. lia.
    + apply ord_le_lex; [unfold valid_ymd; lia | assumption |].
      destruct (Z.eq_dec m (seg_end_month g seg)) as [E | E]; [right; split; [assumption | rewrite <- E; lia] | left; lia].
  - pose proof (ord_in_calendar y m d V Y) as C.
    destruct (accessors_vs_calendar_daily _ C) as (A & _).
    exists (mkP freq_DAILY (ord_of_ymd y m d)), (y, m, d), (y, m, d).
    split. { unfold from_ymd. rewrite daily_kind. unfold gen_daily_from_ymd.
             rewrite (proj2 (date_ok_spec y m d) (conj V Y)). reflexivity. }
    split; [reflexivity |]. split; [right; split; [reflexivity | exact C] |].
    rewrite !A, ymd_of_ord_of_ymd by assumption. cbn [valid3 ord3].
    refine (conj eq_refl (conj eq_refl (conj V (conj V _)))). lia.
Qed.


(* a period built from a calendar date contains that date, and its year / segment accessors agree with the calendar:
   the year is the date's year and the segment is the one whose months contain the date's month *)
Theorem from_date_agrees_with_calendar : forall g y m d, is_regular_freq g = true -> valid_ymd y m d -> y <= MAXYEAR ->
  exists r, from_ymd g y m d = Ok r /\ p_freq r = g /\
            to_year_segment r = Ok (y, month_to_segment g m) /\
            1 <= month_to_segment g m <= g /\
            seg_start_month g (month_to_segment g m) <= m <= seg_end_month g (month_to_segment g m) /\
            month_to_segment g m = (m - 1) / (12 / g) + 1 /\
            to_ymd PStart r = Ok (y, seg_start_month g (month_to_segment g m), 1) /\
            to_ymd PEnd r = Ok (y, seg_end_month g (month_to_segment g m),
                                days_in_month y (seg_end_month g (month_to_segment g m))).
Proof.
  intros g y m d R V Y. destruct V as (Y1 & M & D).
  pose proof (regular_pos g R) as F. destruct (mts_spec g m R M) as (S & Sm). cbv zeta in S, Sm.
  set (seg := month_to_segment g m) in *.
  destruct (year_seg_of_serial g y seg F S) as (Ey & Es).
  destruct (accessors_vs_calendar_regular g (y * g + seg - 1) R) as (A1 & _ & _ & _ & _ & _ & A7 & A8 & _).
  cbv zeta in A1, A7, A8. rewrite Ey, Es in A1, A7, A8.
  exists (mkP g (y * g + seg - 1)). split; [apply from_ymd_regular; assumption |].
  refine (conj eq_refl (conj A1 (conj S (conj Sm (conj _ (conj A7 A8)))))).
  destruct (mts_cases m) as (C1 & C2 & C3 & C4). subst seg.
  destruct (regular_cases g R) as [-> | [-> | [-> | ->]]];
    [change (12 / 1) with 12 | change (12 / 2) with 6 | change (12 / 4) with 3 | change (12 / 12) with 1]; lia.
Qed.

Theorem from_date_daily : forall y m d, valid_ymd y m d -> y <= MAXYEAR ->
  exists r, from_ymd freq_DAILY y m d = Ok r /\ (forall pos, to_ymd pos r = Ok (y, m, d)) /\
            to_year_segment r = Ok (y, days_before_month y m + d).
Proof.
  intros y m d V Y. pose proof (ord_in_calendar y m d V Y) as C.
  destruct (accessors_vs_calendar_daily _ C) as (A & _ & B & _).
  exists (mkP freq_DAILY (ord_of_ymd y m d)).
  split. { unfold from_ymd. rewrite daily_kind. unfold gen_daily_from_ymd.
           rewrite (proj2 (date_ok_spec y m d) (conj V Y)). reflexivity. }
  split.
  - intros pos. rewrite A, ymd_of_ord_of_ymd by assumption. reflexivity.
  - rewrite B, year_of_ord_of_ymd, doy_of_ord_ymd by assumption. reflexivity.
Qed.

(* ------------------------------------------------------------------ 12. resolution never mixes frequencies *)

(* the frequency an end point has once it is resolved against the context c *)
Definition ep_freq_in (c : context) (e : endpoint) : Z :=
  match e with
  | At p => p_freq p
  | Ctx true _ => p_freq (c_start c)
  | Ctx false _ => p_freq (c_end c)
  end.

Lemma ep_resolve_freq : forall c e p, ep_resolve c e = At p -> p_freq p = ep_freq_in c e.
Proof.
  intros c e p H. destruct e as [r | [|] o]; cbn in H; injection H as <-; cbn [ep_freq_in]; rewrite ?padd_freq; reflexivity.
Qed.

(* Span.resolve(context), for EVERY span (concrete, half-open, fully open, any offsets, any step, any value of the
   needs_resolve flag) and EVERY context: it either rejects with IrisPieError -- exactly when the two resolved ends are
   periods of different frequencies -- or returns a resolved span whose two ends are periods of ONE frequency, namely
   the fixed end points / the context's dates moved by the offsets, with the step unchanged *)
Theorem resolve_rejects_or_single_frequency : forall c s,
  match span_resolve c s with
  | Err e => e = ErrFreq /\ ep_freq_in c (sp_start s) <> ep_freq_in c (sp_end s)
  | Ok r => sp_needs r = false /\ sp_step r = sp_step s /\
            sp_start r = ep_resolve c (sp_start s) /\ sp_end r = ep_resolve c (sp_end s) /\
            exists p q, sp_start r = At p /\ sp_end r = At q /\ p_freq p = p_freq q /\
                        p_freq p = ep_freq_in c (sp_start s) /\ p_freq q = ep_freq_in c (sp_end s)
  end.
Proof.
  intros c s. rewrite span_resolve_unfold.
  destruct (ep_resolve_at c (sp_start s)) as (p & P). destruct (ep_resolve_at c (sp_end s)) as (q & Q).
  rewrite P, Q, span_make_at.
  pose proof (ep_resolve_freq _ _ _ P) as FP. pose proof (ep_resolve_freq _ _ _ Q) as FQ.
  destruct (check_periods p (Some q)) eqn:K.
  - apply check_some in K. cbn [sp_needs sp_step sp_start sp_end]. repeat split. exists p, q. repeat split; assumption.
  - split; [reflexivity |]. intros F. rewrite <- FP, <- FQ in F. apply check_some in F. congruence.
Qed.

(* both directions at once: resolution succeeds iff the fixed end points and the context dates that are used have one
   frequency; otherwise the mix is rejected, never returned *)
Theorem resolve_accepts_iff_one_frequency : forall c s,
  (ep_freq_in c (sp_start s) = ep_freq_in c (sp_end s) ->
     span_resolve c s = Ok (mkSpan (ep_resolve c (sp_start s)) (ep_resolve c (sp_end s)) (sp_step s) false)) /\
  (ep_freq_in c (sp_start s) <> ep_freq_in c (sp_end s) -> span_resolve c s = Err ErrFreq).
Proof.
  intros c s. rewrite span_resolve_unfold.
  destruct (ep_resolve_at c (sp_start s)) as (p & P). destruct (ep_resolve_at c (sp_end s)) as (q & Q).
  rewrite P, Q, span_make_at.
  rewrite <- (ep_resolve_freq _ _ _ P), <- (ep_resolve_freq _ _ _ Q). split; intros F.
  - apply check_some in F. rewrite F. reflexivity.
  - rewrite check_some_false by assumption. reflexivity.
Qed.

(* the call shapes of the property text: a half-open span with one fixed end of frequency F resolved against a context
   whose date on the open side has another frequency, and a fully open span against a context whose two dates differ *)
Theorem resolve_half_open_mixed_rejected : forall c p (b : bool) o step needs,
  p_freq (if b then c_start c else c_end c) <> p_freq p ->
  span_resolve c (mkSpan (At p) (Ctx b o) step needs) = Err ErrFreq /\
  span_resolve c (mkSpan (Ctx b o) (At p) step needs) = Err ErrFreq.
Proof.
  intros c p b o step needs F.
  split; apply (proj2 (resolve_accepts_iff_one_frequency c _)); cbn [sp_start sp_end ep_freq_in]; destruct b; congruence.
Qed.

Theorem resolve_open_mixed_context_rejected : forall c b o o' step needs,
  p_freq (c_start c) <> p_freq (c_end c) ->
  span_resolve c (mkSpan (Ctx b o) (Ctx (negb b) o') step needs) = Err ErrFreq.
Proof.
  intros c b o o' step needs F.
  apply (proj2 (resolve_accepts_iff_one_frequency c _)); cbn [sp_start sp_end ep_freq_in]; destruct b; cbn [negb]; congruence.
Qed.

(* a resolved span lists periods of its one frequency only, as many as the serial distance says *)
Theorem resolved_listing_one_frequency : forall c s r l,
  span_resolve c s = Ok r -> span_iter r = Ok l -> forall x, In x l -> p_freq x = ep_freq_in c (sp_start s) /\
                                                                       p_freq x = ep_freq_in c (sp_end s).
Proof.
  intros c s r l R L x X. pose proof (resolve_rejects_or_single_frequency c s) as H. rewrite R in H.
  destruct H as (N & _ & _ & _ & p & q & Sp & Sq & F & FP & FQ).
  unfold span_iter in L. rewrite N in L. unfold span_freq in L. rewrite Sp in L.
  destruct (span_serials r) as [zs | e]; cbn [dmap] in L; [| discriminate]. injection L as <-.
  apply in_map_iff in X. destruct X as (z & <- & _). cbn [p_freq]. split; congruence.
Qed.

(* every public way of deriving a span from a span: the in-place mutators, + - >> << reversed(), and resolve against an
   arbitrary context; an operation that raises leaves the span as it was *)
Inductive span_op :=
| PMut (o : sop) | PAdd (k : Z) | PSub (k : Z) | PRsh (k : Z) | PLsh (k : Z) | PReversed | PResolve (c : context).

Definition apply_op (s : span) (a : span_op) : dres span :=
  match a with
  | PMut o => Ok (sstep s o)
  | PAdd k => span_add s k
  | PSub k => span_sub s k
  | PRsh k => span_rshift s k
  | PLsh k => span_lshift s k
  | PReversed => Ok (span_reversed s)
  | PResolve c => span_resolve c s
  end.

Fixpoint run_public (s : span) (l : list span_op) : span :=
  match l with
  | [] => s
  | a :: r => match apply_op s a with Ok s' => run_public s' r | Err _ => run_public s r end
  end.

Lemma apply_op_wf : forall s a s', span_wf s -> apply_op s a = Ok s' -> span_wf s'.
Proof.
  intros s a s' W H. destruct a; cbn [apply_op] in H.
  - injection H as <-. apply sstep_wf. assumption.
  - eapply span_make_wf. exact H.
  - eapply span_make_wf. exact H.
  - unfold span_rshift in H. destruct (k <? 0); [discriminate |]. eapply span_make_wf. exact H.
  - unfold span_lshift in H. destruct (k >? 0); [discriminate |]. eapply span_make_wf. exact H.
  - injection H as <-. apply sstep_wf. assumption.
  - rewrite span_resolve_unfold in H. eapply span_make_wf. exact H.
Qed.

Lemma run_public_wf : forall l s, span_wf s -> span_wf (run_public s l).
Proof.
  induction l as [| a l IH]; intros s W; cbn [run_public]; [assumption |].
  destruct (apply_op s a) as [s' | e] eqn:A; apply IH; [eapply apply_op_wf; eassumption | assumption].
Qed.

(* HISTORIES: whatever sequence of public operations -- including any number of resolutions against contexts of any
   frequencies -- is applied to a span that the constructor accepted, a span that claims to be resolved has two period
   ends of ONE frequency, and its listing has that frequency *)
Theorem every_history_single_frequency : forall l a b c s, span_make a b c = Ok s ->
  let t := run_public s l in
  span_wf t /\
  (sp_needs t = false -> exists p q, sp_start t = At p /\ sp_end t = At q /\ p_freq p = p_freq q /\
                                    forall xs x, span_iter t = Ok xs -> In x xs -> p_freq x = p_freq p).
Proof.
  intros l a b c s M t. assert (W : span_wf t) by (apply run_public_wf; eapply span_make_wf; exact M).
  split; [exact W |]. intros N. destruct W as (_ & W2). destruct (W2 N) as (p & q & Sp & Sq & F).
  exists p, q. repeat split; try assumption. intros xs x L X.
  unfold span_iter in L. rewrite N in L. unfold span_freq in L. rewrite Sp in L.
  destruct (span_serials t) as [zs | e]; cbn [dmap] in L; [| discriminate]. injection L as <-.
  apply in_map_iff in X. destruct X as (z & <- & _). reflexivity.
Qed.

(* non-vacuity: a quarterly start with an open end against a monthly context is rejected, against a quarterly context
   it resolves and lists quarters; a fully open span against a context with a quarterly start and a monthly end is
   rejected; a history with two resolutions of which the first is rejected *)
Example resolve_examples :
  (exists s, span_make (Some (At (mkP 4 8080))) None 1 = Ok s /\ sp_needs s = true /\
     span_resolve (mkCtx (mkP 12 24240) (mkP 12 24246)) s = Err ErrFreq /\
     (exists r, span_resolve (mkCtx (mkP 4 8078) (mkP 4 8083)) s = Ok r /\
                span_iter r = Ok [mkP 4 8080; mkP 4 8081; mkP 4 8082; mkP 4 8083]) /\
     (exists r, run_public s [PMut (OShiftEnd (-1)); PResolve (mkCtx (mkP 12 24240) (mkP 12 24246)); PMut OReverse;
                              PResolve (mkCtx (mkP 4 8078) (mkP 4 8083))] = r /\
                span_iter r = Ok [mkP 4 8082; mkP 4 8081; mkP 4 8080])) /\
  (exists s, span_make None None (-2) = Ok s /\
     span_resolve (mkCtx (mkP 4 8078) (mkP 12 24246)) s = Err ErrFreq /\
     exists r, span_resolve (mkCtx (mkP 12 24240) (mkP 12 24246)) s = Ok r /\
               span_iter r = Ok [mkP 12 24246; mkP 12 24244; mkP 12 24242; mkP 12 24240]).
Proof.
  split.
  - eexists. split; [reflexivity |]. split; [reflexivity |]. split; [vm_compute; reflexivity |]. split.
    + eexists. split; vm_compute; reflexivity.
    + eexists. split; [reflexivity |]. vm_compute. reflexivity.
  - eexists. split; [reflexivity |]. split; [vm_compute; reflexivity |].
    eexists. split; vm_compute; reflexivity.
Qed.
