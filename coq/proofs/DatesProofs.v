(* Proofs about the Dates model (model/Dates.v over gen/DatesGen.v, lib/Calendar.v).
   Everything that mentions a gen_* definition is re-checked against the
   current source of dates.py on every run. *)
From Coq Require Import ZArith Bool Ascii String List Lia.
From Verif Require Import lib.Calendar lib.PyRange lib.Period lib.DatesBase lib.PyStr gen.DatesGen model.Dates.
Import ListNotations.
Open Scope Z_scope.

Local Ltac Zify.zify_post_hook ::= Z.div_mod_to_equations.

(* ------------------------------------------------------------------ basics *)

Lemma period_eta : forall p, mkP (p_freq p) (p_serial p) = p.
Proof. destruct p; reflexivity. Qed.

Lemma period_ext : forall p q, p_freq p = p_freq q -> p_serial p = p_serial q -> p = q.
Proof. destruct p, q; cbn; intros; subst; reflexivity. Qed.

Lemma same_class_iff : forall p q, same_class p q = true <-> p_freq p = p_freq q.
Proof. intros. unfold same_class. apply Z.eqb_eq. Qed.

Lemma check_some : forall p q, check_periods p (Some q) = true <-> p_freq p = p_freq q.
Proof. intros. unfold check_periods. cbn. apply same_class_iff. Qed.

Lemma check_some_false : forall p q, p_freq p <> p_freq q -> check_periods p (Some q) = false.
Proof.
  intros p q H. destruct (check_periods p (Some q)) eqn:E; [| reflexivity].
  apply check_some in E. contradiction.
Qed.

Lemma check_none : forall p, check_periods p None = false.
Proof. intros. unfold check_periods. apply andb_false_r. Qed.

(* the comparison bodies are the integer comparisons of the serials, and all of them are checked *)
Lemma cmp_fun_spec : forall c a b,
  cmp_fun c a b = match c with CEq => a =? b | CNe => negb (a =? b) | CLt => a <? b | CLe => a <=? b
                             | CGt => b <? a | CGe => b <=? a end.
Proof.
  intros c a b. destruct c; cbn; unfold gen_cmp_eq, gen_cmp_ne, gen_cmp_lt, gen_cmp_le, gen_cmp_gt, gen_cmp_ge;
    try reflexivity.
  - apply Z.gtb_ltb.
  - apply Z.geb_leb.
Qed.

Lemma cmp_all_checked : forall c, cmp_checked c = true.
Proof. destruct c; reflexivity. Qed.

(* ------------------------------------------------------------------ 1. arithmetic laws *)

Lemma padd_freq : forall p n, p_freq (padd p n) = p_freq p.
Proof. reflexivity. Qed.

Lemma padd_serial : forall p n, p_serial (padd p n) = p_serial p + n.
Proof. reflexivity. Qed.

Lemma padd_0 : forall p, padd p 0 = p.
Proof. intros. apply period_ext; cbn; unfold gen_period_add; lia. Qed.

Lemma padd_padd : forall p n m, padd (padd p n) m = padd p (n + m).
Proof. intros. apply period_ext; cbn; unfold gen_period_add; lia. Qed.

Lemma psub_int_padd : forall p n, psub_int p n = padd p (- n).
Proof. intros. apply period_ext; cbn; unfold gen_period_sub_int, gen_period_add; lia. Qed.

Lemma psub_same : forall p q, p_freq p = p_freq q -> psub p q = Ok (p_serial p - p_serial q).
Proof.
  intros p q H. unfold psub. rewrite (proj2 (check_some p q) H). cbn. reflexivity.
Qed.

Lemma psub_mixed : forall p q, p_freq p <> p_freq q -> psub p q = Err ErrFreq.
Proof. intros p q H. unfold psub. rewrite check_some_false by assumption. reflexivity. Qed.

(* p + (q - p) == q ; (p + n) - p == n ; (p + n) + m == p + (n + m) ; p - n == p + (-n) *)
Theorem add_sub_laws : forall p q n m,
  (p_freq p = p_freq q -> exists d, psub q p = Ok d /\ padd p d = q) /\
  psub (padd p n) p = Ok n /\
  padd (padd p n) m = padd p (n + m) /\
  padd p 0 = p /\
  psub_int p n = padd p (- n) /\
  psub_int (padd p n) n = p.
Proof.
  intros p q n m. refine (conj _ (conj _ (conj _ (conj _ (conj _ _))))).
  - intros H. exists (p_serial q - p_serial p). split; [apply psub_same; congruence |].
    apply period_ext; cbn; unfold gen_period_add; [assumption | lia].
  - rewrite psub_same by reflexivity. f_equal. cbn. unfold gen_period_add. lia.
  - apply padd_padd.
  - apply padd_0.
  - apply psub_int_padd.
  - rewrite psub_int_padd, padd_padd. replace (n + - n) with 0 by lia. apply padd_0.
Qed.

(* ------------------------------------------------------------------ 2. order, comparison, hashing *)

Definition cmp_sem (c : cmpop) (d : Z) : bool :=
  match c with CEq => d =? 0 | CNe => negb (d =? 0) | CLt => d <? 0 | CLe => d <=? 0 | CGt => 0 <? d | CGe => 0 <=? d end.

Lemma pcmp_same : forall c p q, p_freq p = p_freq q ->
  pcmp c p (Some q) = Ok (cmp_sem c (p_serial p - p_serial q)).
Proof.
  intros c p q H. unfold pcmp. rewrite cmp_all_checked, (proj2 (check_some p q) H). cbn [unchecked].
  f_equal. rewrite cmp_fun_spec. destruct c; cbn [cmp_sem].
  - destruct (Z.eqb_spec (p_serial p) (p_serial q)), (Z.eqb_spec (p_serial p - p_serial q) 0); try reflexivity; lia.
  - destruct (Z.eqb_spec (p_serial p) (p_serial q)), (Z.eqb_spec (p_serial p - p_serial q) 0); try reflexivity; lia.
  - destruct (Z.ltb_spec (p_serial p) (p_serial q)), (Z.ltb_spec (p_serial p - p_serial q) 0); try reflexivity; lia.
  - destruct (Z.leb_spec (p_serial p) (p_serial q)), (Z.leb_spec (p_serial p - p_serial q) 0); try reflexivity; lia.
  - destruct (Z.ltb_spec (p_serial q) (p_serial p)), (Z.ltb_spec 0 (p_serial p - p_serial q)); try reflexivity; lia.
  - destruct (Z.leb_spec (p_serial q) (p_serial p)), (Z.leb_spec 0 (p_serial p - p_serial q)); try reflexivity; lia.
Qed.

(* comparison, equality and subtraction agree: every comparison is the sign test of p - q *)
Theorem cmp_agrees_with_sub : forall p q, p_freq p = p_freq q ->
  exists d, psub p q = Ok d /\ (forall c, pcmp c p (Some q) = Ok (cmp_sem c d)) /\ (d = 0 <-> p = q).
Proof.
  intros p q H. exists (p_serial p - p_serial q). split; [apply psub_same; assumption |]. split.
  - intros c. apply pcmp_same. assumption.
  - split; intros E.
    + apply period_ext; [assumption | lia].
    + subst. lia.
Qed.

Definition ple (p q : period) : Prop := pcmp CLe p (Some q) = Ok true.
Definition plt (p q : period) : Prop := pcmp CLt p (Some q) = Ok true.

Lemma ple_iff : forall p q, p_freq p = p_freq q -> (ple p q <-> p_serial p <= p_serial q).
Proof.
  intros p q H. unfold ple. rewrite pcmp_same by assumption. cbn.
  destruct (Z.leb_spec (p_serial p - p_serial q) 0); split; intros; try reflexivity; try lia; try discriminate.
Qed.

Lemma plt_iff : forall p q, p_freq p = p_freq q -> (plt p q <-> p_serial p < p_serial q).
Proof.
  intros p q H. unfold plt. rewrite pcmp_same by assumption. cbn.
  destruct (Z.ltb_spec (p_serial p - p_serial q) 0); split; intros; try reflexivity; try lia; try discriminate.
Qed.

(* within one frequency <= is a total order and < is its strict part *)
Theorem total_order : forall p q r, p_freq p = p_freq q -> p_freq q = p_freq r ->
  ple p p /\
  (ple p q -> ple q p -> p = q) /\
  (ple p q -> ple q r -> ple p r) /\
  (ple p q \/ ple q p) /\
  (plt p q <-> ple p q /\ p <> q) /\
  (plt p q \/ p = q \/ plt q p).
Proof.
  intros p q r H1 H2.
  assert (H3 : p_freq p = p_freq r) by congruence.
  rewrite !ple_iff, !plt_iff by congruence.
  assert (EQ : p = q <-> p_serial p = p_serial q).
  { split; [intros; subst; reflexivity | intros; apply period_ext; assumption]. }
  refine (conj _ (conj _ (conj _ (conj _ (conj _ _))))); try lia.
  - intros. apply EQ. lia.
  - rewrite EQ. lia.
  - rewrite EQ. lia.
Qed.

Theorem eq_implies_same_hash_key : forall p q,
  pcmp CEq p (Some q) = Ok true -> hash_key p = hash_key q.
Proof.
  intros p q H. unfold pcmp in H. rewrite cmp_all_checked in H.
  destruct (check_periods p (Some q)) eqn:C; [| discriminate].
  apply check_some in C. cbn [unchecked] in H. rewrite cmp_fun_spec in H. injection H as H.
  apply Z.eqb_eq in H. unfold hash_key, gen_hash_key. congruence.
Qed.

Theorem hash_key_injective : forall p q, hash_key p = hash_key q -> p = q.
Proof.
  intros p q H. unfold hash_key, gen_hash_key in H. injection H as H1 H2. apply period_ext; assumption.
Qed.

(* ------------------------------------------------------------------ 3. mixed frequencies are rejected *)

Lemma span_make_mixed : forall p q step, p_freq p <> p_freq q ->
  span_make (Some (At p)) (Some (At q)) step = Err ErrFreq.
Proof. intros. unfold span_make. cbn [ep_needs orb]. rewrite check_some_false by assumption. reflexivity. Qed.

Theorem mixed_frequency_rejected : forall p q step, p_freq p <> p_freq q ->
  psub p q = Err ErrFreq /\
  (forall c, pcmp c p (Some q) = Err ErrFreq) /\
  (forall c, pcmp c p None = Err ErrFreq) /\
  span_make (Some (At p)) (Some (At q)) step = Err ErrFreq /\
  periods_from_until p q step = Err ErrFreq /\
  (forall s t st2, sp_start s = At p -> sp_start t = At q -> sp_end s = At p -> sp_end t = At q ->
     sp_step t = st2 -> span_eq s t = Err ErrFreq).
Proof.
  intros p q step H. repeat split.
  - apply psub_mixed. assumption.
  - intros c. unfold pcmp. rewrite cmp_all_checked, check_some_false by assumption. reflexivity.
  - intros c. unfold pcmp. rewrite cmp_all_checked, check_none. reflexivity.
  - apply span_make_mixed. assumption.
  - unfold periods_from_until. rewrite check_some_false by assumption. reflexivity.
  - intros s t st2 A B C D _. unfold span_eq. rewrite A, B, C, D.
    unfold pcmp. rewrite cmp_all_checked, check_some_false by assumption. reflexivity.
Qed.

(* comparing with None is rejected for every period *)
Theorem none_rejected : forall p c, pcmp c p None = Err ErrFreq.
Proof. intros. unfold pcmp. rewrite cmp_all_checked, check_none. reflexivity. Qed.

(* ------------------------------------------------------------------ 4. regular periods and the calendar *)

Lemma regular_cases : forall f, is_regular_freq f = true -> f = 1 \/ f = 2 \/ f = 4 \/ f = 12.
Proof.
  intros f H. unfold is_regular_freq, gen_class_freq_YEARLY, gen_class_freq_HALFYEARLY, gen_class_freq_QUARTERLY,
    gen_class_freq_MONTHLY, freq_YEARLY, freq_HALFYEARLY, freq_QUARTERLY, freq_MONTHLY in H.
  rewrite !orb_true_iff, !Z.eqb_eq in H. lia.
Qed.

Lemma regular_kind : forall f, is_regular_freq f = true -> kind_of f = KReg.
Proof. intros f H. unfold kind_of. rewrite H. reflexivity. Qed.

Lemma daily_kind : kind_of freq_DAILY = KDaily.
Proof. reflexivity. Qed.

Lemma integer_kind : kind_of freq_INTEGER = KInt.
Proof. reflexivity. Qed.

(* first and last month of the seg-th period of a year *)
Definition seg_start_month (f seg : Z) : Z := (seg - 1) * (12 / f) + 1.
Definition seg_end_month (f seg : Z) : Z := seg * (12 / f).

Ltac seg_cases s f Hk :=
  let k := fresh "k" in
  let C := fresh "C" in
  let E := fresh "E" in
  remember (s mod f) as k eqn:Hk;
  assert (C : 0 <= k < f) by (subst k; apply Z.mod_pos_bound; lia);
  first
    [ assert (E : k = 0) by lia
    | assert (E : k = 0 \/ k = 1) by lia; destruct E as [E | E]
    | assert (E : k = 0 \/ k = 1 \/ k = 2 \/ k = 3) by lia; destruct E as [E | [E | [E | E]]]
    | assert (E : k = 0 \/ k = 1 \/ k = 2 \/ k = 3 \/ k = 4 \/ k = 5 \/ k = 6 \/ k = 7 \/ k = 8 \/ k = 9 \/ k = 10 \/ k = 11)
        by lia; destruct E as [E | [E | [E | [E | [E | [E | [E | [E | [E | [E | [E | E]]]]]]]]]]] ];
  rewrite E in *; clear E C.

Ltac rw_mod := match goal with H : _ = ?s mod ?f |- _ => rewrite <- H end.
Ltac to_ymd_compute :=
  unfold to_ymd; cbn [p_freq p_serial];
  match goal with |- context [kind_of ?f] => change (kind_of f) with KReg end;
  unfold gen_reg_to_ymd, gen_reg_to_year_segment; rw_mod; cbn.

Lemma reg_to_ymd_spec : forall f s, is_regular_freq f = true ->
  let y := s / f in
  let seg := s mod f + 1 in
  to_ymd PStart (mkP f s) = Ok (y, seg_start_month f seg, 1) /\
  to_ymd PEnd (mkP f s) = Ok (y, seg_end_month f seg, days_in_month y (seg_end_month f seg)) /\
  exists mm md, to_ymd PMiddle (mkP f s) = Ok (y, mm, md) /\
                seg_start_month f seg <= mm <= seg_end_month f seg /\ 1 <= md <= days_in_month y mm.
Proof.
  intros f s R y seg. subst y seg. unfold seg_start_month, seg_end_month.
  destruct (regular_cases f R) as [-> | [-> | [-> | ->]]];
    [seg_cases s 1 Hk | seg_cases s 2 Hk | seg_cases s 4 Hk | seg_cases s 12 Hk];
    (split; [to_ymd_compute; reflexivity |
     split; [to_ymd_compute; reflexivity |
       eexists; eexists; split; [to_ymd_compute; reflexivity |
         try rw_mod; unfold days_in_month; cbn; try destruct (is_leap _); lia]]]).
Qed.

Definition ord3 (t : Z * Z * Z) : Z := let '(y, m, d) := t in ord_of_ymd y m d.
Definition valid3 (t : Z * Z * Z) : Prop := let '(y, m, d) := t in valid_ymd y m d.

Lemma ord_le_lex : forall y m1 d1 m2 d2, valid_ymd y m1 d1 -> valid_ymd y m2 d2 ->
  m1 < m2 \/ (m1 = m2 /\ d1 <= d2) -> ord_of_ymd y m1 d1 <= ord_of_ymd y m2 d2.
Proof.
  intros y m1 d1 m2 d2 V1 V2 H.
  destruct (Z.eq_dec m1 m2) as [-> |].
  - unfold ord_of_ymd. lia.
  - apply Z.lt_le_incl. apply ord_of_ymd_lt; try assumption. cbn. lia.
Qed.

Lemma seg_months_range : forall f seg, is_regular_freq f = true -> 1 <= seg <= f ->
  1 <= seg_start_month f seg <= seg_end_month f seg /\ seg_end_month f seg <= 12 /\
  (seg < f -> seg_end_month f seg + 1 = seg_start_month f (seg + 1)) /\
  (seg = f -> seg_end_month f seg = 12) /\ seg_start_month f 1 = 1.
Proof.
  intros f seg R H. unfold seg_start_month, seg_end_month.
  destruct (regular_cases f R) as [-> | [-> | [-> | ->]]]; cbn; lia.
Qed.

(* consecutive periods tile the calendar: start <= middle <= end are valid dates of the period's year, and the day
   after the end of p is the start of p + 1 *)
Theorem tiling : forall f s, is_regular_freq f = true -> 1 <= s / f ->
  let p := mkP f s in
  exists a b c a',
    to_ymd PStart p = Ok a /\ to_ymd PMiddle p = Ok b /\ to_ymd PEnd p = Ok c /\
    to_ymd PStart (padd p 1) = Ok a' /\
    valid3 a /\ valid3 b /\ valid3 c /\ valid3 a' /\
    ord3 a <= ord3 b <= ord3 c /\ ord3 c + 1 = ord3 a'.
Proof.
  intros f s R Y p. subst p.
  destruct (reg_to_ymd_spec f s R) as (A & C & mm & md & B & Bm & Bd).
  assert (F : 0 < f) by (destruct (regular_cases f R) as [-> | [-> | [-> | ->]]]; lia).
  assert (S : 1 <= s mod f + 1 <= f) by (pose proof (Z.mod_pos_bound s f F); lia).
  destruct (seg_months_range f (s mod f + 1) R S) as (M1 & M2 & M3 & M4 & M5).
  unfold padd. cbn [p_freq p_serial]. unfold gen_period_add.
  destruct (reg_to_ymd_spec f (s + 1) R) as (A' & _).
  do 4 eexists. split; [exact A |]. split; [exact B |]. split; [exact C |]. split; [exact A' |].
  set (y := s / f) in *. set (seg := s mod f + 1) in *.
  assert (Va : valid_ymd y (seg_start_month f seg) 1).
  { unfold valid_ymd. pose proof (dim_range y (seg_start_month f seg)). lia. }
  assert (Vb : valid_ymd y mm md) by (unfold valid_ymd; lia).
  assert (Vc : valid_ymd y (seg_end_month f seg) (days_in_month y (seg_end_month f seg))).
  { unfold valid_ymd. pose proof (dim_range y (seg_end_month f seg)). lia. }
  cbn [valid3 ord3].
  (* year and segment of p + 1 *)
  assert (N : (seg < f /\ (s + 1) / f = y /\ (s + 1) mod f + 1 = seg + 1) \/
              (seg = f /\ (s + 1) / f = y + 1 /\ (s + 1) mod f + 1 = 1)).
  { subst y seg. destruct (regular_cases f R) as [-> | [-> | [-> | ->]]]; lia. }
  destruct N as [(N1 & N2 & N3) | (N1 & N2 & N3)]; rewrite N2, N3.
  - specialize (M3 N1).
    assert (Va' : valid_ymd y (seg_start_month f (seg + 1)) 1).
    { unfold valid_ymd. pose proof (dim_range y (seg_start_month f (seg + 1))).
      destruct (seg_months_range f (seg + 1) R ltac:(lia)) as (? & ? & _). lia. }
    refine (conj Va (conj Vb (conj Vc (conj Va' (conj (conj _ _) _))))).
    + apply ord_le_lex; try assumption. lia.
    + apply ord_le_lex; try assumption.
      destruct (Z.eq_dec mm (seg_end_month f seg)) as [E | E]; [right; split; [assumption | rewrite <- E; lia] | left; lia].
    + rewrite <- M3. apply month_boundary. destruct Va' as (_ & ? & _). lia.
  - specialize (M4 N1). rewrite M5.
    assert (Va' : valid_ymd (y + 1) 1 1) by (unfold valid_ymd; cbn; lia).
    refine (conj Va (conj Vb (conj Vc (conj Va' (conj (conj _ _) _))))).
    + apply ord_le_lex; try assumption. lia.
    + apply ord_le_lex; try assumption.
      destruct (Z.eq_dec mm (seg_end_month f seg)) as [E | E]; [right; split; [assumption | rewrite <- E; lia] | left; lia].
    + rewrite M4. change (days_in_month y 12) with 31. apply year_boundary.
Qed.

(* year / segment accessors agree with the calendar: the period with accessors (y, seg) is the seg-th period of
   calendar year y; segment 1 starts on 1 January, segment f ends on 31 December *)
Theorem accessors_vs_calendar_regular : forall f s, is_regular_freq f = true ->
  let p := mkP f s in
  let y := s / f in
  let seg := s mod f + 1 in
  to_year_segment p = Ok (y, seg) /\ p_year p = Ok y /\ p_segment p = Ok seg /\
  1 <= seg <= f /\
  from_year_segment f y seg = Ok p /\
  p = padd (mkP f (gen_reg_from_year_segment f y 1)) (seg - 1) /\
  to_ymd PStart p = Ok (y, seg_start_month f seg, 1) /\
  to_ymd PEnd p = Ok (y, seg_end_month f seg, days_in_month y (seg_end_month f seg)) /\
  (seg = 1 -> to_ymd PStart p = Ok (y, 1, 1)) /\
  (seg = f -> to_ymd PEnd p = Ok (y, 12, 31)).
Proof.
  intros f s R p y seg. subst p y seg.
  assert (F : 0 < f) by (destruct (regular_cases f R) as [-> | [-> | [-> | ->]]]; lia).
  pose proof (Z.mod_pos_bound s f F) as MB.
  destruct (reg_to_ymd_spec f s R) as (A & C & _).
  unfold to_year_segment, p_year, p_segment, from_year_segment. cbn [p_freq p_serial].
  rewrite (regular_kind f R).
  refine (conj _ (conj _ (conj _ (conj _ (conj _ (conj _ (conj _ (conj _ (conj _ _))))))))); try reflexivity;
    try assumption.
  - lia.
  - f_equal. f_equal. unfold gen_reg_from_year_segment. pose proof (Z.div_mod s f). lia.
  - apply period_ext; cbn; [reflexivity |]. unfold gen_period_add, gen_reg_from_year_segment.
    pose proof (Z.div_mod s f). lia.
  - intros E. rewrite A, E. reflexivity.
  - intros E. rewrite C, E.
    destruct (seg_months_range f f R ltac:(lia)) as (_ & _ & _ & M4 & _). rewrite (M4 eq_refl). reflexivity.
Qed.

(* ------------------------------------------------------------------ 5. daily periods and the calendar *)

Definition in_calendar (n : Z) : Prop := 1 <= n <= max_ordinal.

Lemma ord_ok_true : forall n, in_calendar n -> ord_ok n = true.
Proof. intros n [A B]. unfold ord_ok. apply andb_true_iff. split; apply Z.leb_le; assumption. Qed.

Lemma date_ok_spec : forall y m d, date_ok y m d = true <-> valid_ymd y m d /\ y <= MAXYEAR.
Proof. intros. unfold date_ok. rewrite andb_true_iff, valid_ymdb_spec, Z.leb_le. tauto. Qed.

Lemma date_ok_jan1 : forall n, in_calendar n -> date_ok (year_of_ord n) 1 1 = true.
Proof.
  intros n H. apply date_ok_spec. pose proof (year_in_range n H) as Y. unfold MINYEAR, MAXYEAR in *.
  split; [| lia]. unfold valid_ymd. cbn. lia.
Qed.

Lemma ymd_of_ord_eta : forall n, (year_of_ord n, month_of_ord n, day_of_ord n) = ymd_of_ord n.
Proof. intros. unfold month_of_ord, day_of_ord, ymd_of_ord. reflexivity. Qed.

(* a daily period is the calendar day with its ordinal: every position is the day itself, the year is the
   calendar year, the segment is the day of the year *)
Theorem accessors_vs_calendar_daily : forall n, in_calendar n ->
  let p := mkP freq_DAILY n in
  (forall pos, to_ymd pos p = Ok (ymd_of_ord n)) /\
  (forall pos, to_ordinal pos p = Ok n) /\
  to_year_segment p = Ok (year_of_ord n, doy_of_ord n) /\
  p_year p = Ok (year_of_ord n) /\ p_segment p = Ok (doy_of_ord n) /\
  1 <= doy_of_ord n <= year_len (year_of_ord n) /\
  from_year_segment freq_DAILY (year_of_ord n) (doy_of_ord n) = Ok p /\
  (let '(y, m, d) := ymd_of_ord n in from_ymd freq_DAILY y m d = Ok p).
Proof.
  intros n H p. subst p.
  pose proof (ord_ok_true n H) as O. pose proof (date_ok_jan1 n H) as J.
  assert (TY : forall pos, to_ymd pos (mkP freq_DAILY n) = Ok (ymd_of_ord n)).
  { intros pos. unfold to_ymd. cbn [p_freq p_serial]. rewrite daily_kind.
    change gen_daily_to_ymd_welltyped with true. cbv iota. unfold gen_daily_to_ymd. rewrite O. cbn [of_opt].
    rewrite ymd_of_ord_eta. reflexivity. }
  assert (DOY : n - ord_of_ymd (year_of_ord n) 1 1 + 1 = doy_of_ord n).
  { unfold doy_of_ord. rewrite ord_jan1. lia. }
  pose proof (ord_of_ymd_of_ord n) as V. pose proof (ymd_of_ord_valid n ltac:(destruct H; lia)) as W.
  destruct (ymd_of_ord n) as [[y m] d] eqn:E. destruct V as (V1 & V2 & V3 & V4).
  refine (conj TY (conj _ (conj _ (conj _ (conj _ (conj _ (conj _ _))))))).
  - intros pos. unfold to_ordinal. rewrite TY. cbn [bind].
    assert (date_ok y m d = true) as ->.
    { apply date_ok_spec. split; [assumption |]. subst y. apply (year_in_range n H). }
    rewrite V1. reflexivity.
  - unfold to_year_segment. cbn [p_freq p_serial]. rewrite daily_kind.
    assert (W1 : gen_daily_to_year_segment_welltyped = true) by reflexivity. rewrite W1.
    unfold gen_daily_to_year_segment. rewrite O, J. cbn [andb of_opt]. rewrite DOY. reflexivity.
  - unfold p_year. cbn [p_freq p_serial]. rewrite daily_kind.
    assert (W1 : gen_daily_year_welltyped = true) by reflexivity. rewrite W1.
    unfold gen_daily_year. rewrite O. reflexivity.
  - unfold p_segment. cbn [p_freq p_serial]. rewrite daily_kind.
    assert (W1 : gen_daily_segment_welltyped = true) by reflexivity. rewrite W1.
    unfold gen_daily_segment. rewrite O, J. cbn [andb of_opt]. rewrite DOY. reflexivity.
  - apply doy_range.
  - unfold from_year_segment. rewrite daily_kind. unfold gen_daily_from_year_segment. rewrite J. cbn [of_opt dmap].
    f_equal. f_equal. unfold doy_of_ord. rewrite ord_jan1. lia.
  - unfold from_ymd. rewrite daily_kind. unfold gen_daily_from_ymd.
    assert (date_ok y m d = true) as ->.
    { apply date_ok_spec. split; [assumption |]. subst y. apply (year_in_range n H). }
    cbn [of_opt dmap]. rewrite V1. reflexivity.
Qed.

(* consecutive daily periods are consecutive calendar days *)
Theorem tiling_daily : forall n, in_calendar n -> in_calendar (n + 1) ->
  exists a b, to_ordinal PEnd (mkP freq_DAILY n) = Ok a /\ to_ordinal PStart (padd (mkP freq_DAILY n) 1) = Ok b /\
              a + 1 = b.
Proof.
  intros n H1 H2. exists n, (n + 1).
  destruct (accessors_vs_calendar_daily n H1) as (_ & A & _).
  destruct (accessors_vs_calendar_daily (n + 1) H2) as (_ & B & _).
  split; [apply A |]. split; [| reflexivity]. unfold padd. cbn [p_freq p_serial]. unfold gen_period_add. apply B.
Qed.

(* ------------------------------------------------------------------ 6. keyword shifts *)

Theorem shift_keywords_regular : forall f s, is_regular_freq f = true ->
  let p := mkP f s in
  let y := s / f in
  let seg := s mod f + 1 in
  pshift p (ByKw "yoy") = Ok (Some (padd p (- f))) /\
  pshift p (ByKw "soy") = Ok (Some (mkP f (y * f))) /\
  pshift p (ByKw "boy") = pshift p (ByKw "soy") /\
  to_year_segment (mkP f (y * f)) = Ok (y, 1) /\
  pshift p (ByKw "eopy") = Ok (Some (mkP f (y * f - 1))) /\
  to_year_segment (mkP f (y * f - 1)) = Ok (y - 1, f) /\
  pshift p (ByKw "tty") = Ok (if seg >? 1 then Some (padd p (-1)) else None) /\
  (forall k, pshift p (ByInt k) = Ok (Some (padd p k))).
Proof.
  intros f s R p y seg. subst p y seg.
  assert (F : 0 < f) by (destruct (regular_cases f R) as [-> | [-> | [-> | ->]]]; lia).
  unfold pshift. cbn [sassoc gen_shift_arms String.eqb Ascii.eqb Bool.eqb].
  unfold create_soy, create_eopy, create_tty, to_year_segment. cbn [p_freq p_serial]. rewrite (regular_kind f R).
  cbn [dmap option_map].
  refine (conj _ (conj _ (conj _ (conj _ (conj _ (conj _ (conj _ _))))))).
  - f_equal; f_equal; try (apply period_ext; cbn; [reflexivity |]; unfold gen_shift_arm_yoy, gen_period_add; lia).
  - f_equal; f_equal; f_equal; try (unfold gen_reg_create_soy; lia).
  - reflexivity.
  - f_equal. unfold gen_reg_to_year_segment. f_equal.
    + rewrite Z.div_mul by lia. reflexivity.
    + rewrite Z.mod_mul by lia. reflexivity.
  - f_equal; f_equal; f_equal; try (unfold gen_reg_create_eopy; lia).
  - f_equal. unfold gen_reg_to_year_segment. f_equal.
    + replace (s / f * f - 1) with ((s / f - 1) * f + (f - 1)) by lia.
      rewrite Z.div_add_l by (clear - F; lia). rewrite (Z.div_small (f - 1) f) by (clear - F; lia). ring.
    + replace (s / f * f - 1) with ((f - 1) + (s / f - 1) * f) by lia.
      rewrite Z.mod_add by (clear - F; lia). rewrite (Z.mod_small (f - 1) f) by (clear - F; lia). ring.
  - f_equal. unfold gen_reg_create_tty. destruct (s mod f + 1 >? 1); reflexivity.
  - intros k. reflexivity.
Qed.

Theorem shift_keywords_daily : forall n, in_calendar n ->
  let p := mkP freq_DAILY n in
  let y := year_of_ord n in
  pshift p (ByKw "yoy") = Ok (Some (padd p (- 365))) /\
  pshift p (ByKw "soy") = Ok (Some (mkP freq_DAILY (ord_of_ymd y 1 1))) /\
  pshift p (ByKw "boy") = pshift p (ByKw "soy") /\
  (2 <= y -> pshift p (ByKw "eopy") = Ok (Some (mkP freq_DAILY (ord_of_ymd (y - 1) 12 31))) /\
             ord_of_ymd (y - 1) 12 31 + 1 = ord_of_ymd y 1 1) /\
  pshift p (ByKw "tty") = Ok (if doy_of_ord n >? 1 then Some (padd p (-1)) else None).
Proof.
  intros n H p y. subst p y.
  pose proof (ord_ok_true n H) as O. pose proof (date_ok_jan1 n H) as J.
  unfold pshift. cbn [sassoc gen_shift_arms String.eqb Ascii.eqb Bool.eqb].
  unfold create_soy, create_eopy, create_tty. cbn [p_freq p_serial]. rewrite daily_kind.
  refine (conj _ (conj _ (conj _ (conj _ _)))).
  - f_equal.
  - assert (W1 : gen_daily_create_soy_welltyped = true) by reflexivity. rewrite W1.
    unfold gen_daily_create_soy. rewrite O, J. reflexivity.
  - reflexivity.
  - intros Y2. split.
    + assert (W1 : gen_daily_create_eopy_welltyped = true) by reflexivity. rewrite W1.
      unfold gen_daily_create_eopy. rewrite O.
      assert (date_ok (year_of_ord n - 1) 12 31 = true) as ->.
      { apply date_ok_spec. pose proof (year_in_range n H). unfold MINYEAR, MAXYEAR in *.
        split; [| lia]. unfold valid_ymd. cbn. lia. }
      reflexivity.
    + replace (year_of_ord n) with (year_of_ord n - 1 + 1) at 2 by lia. apply year_boundary.
  - assert (W1 : gen_daily_create_tty_welltyped = true) by reflexivity. rewrite W1.
    unfold gen_daily_create_tty. rewrite O, J. cbn [andb of_opt dmap].
    replace (n - ord_of_ymd (year_of_ord n) 1 1 + 1) with (doy_of_ord n)
      by (unfold doy_of_ord; rewrite ord_jan1; lia).
    destruct (doy_of_ord n >? 1); reflexivity.
Qed.
