(* C19, round 4: the exporter's frequency -> periods table (model/Csv4.v, keep test regenerated from the source)
   never drops a frequency that has series -- empty series (unknown frequency) included -- and writes the same sheet
   as model/Csv.v: export; a block without dated rows (the __unknown__ block of empty series) is read back as
   empty series with the names, variant counts and descriptions of its header. *)
From Coq Require Import String Ascii ZArith List Bool Lia.
From Verif Require Import lib.Arith lib.ArithOptZ model.Series model.SeriesOps model.Databox gen.CsvGen gen.Csv4Gen
  model.Csv model.Csv4 proofs.DataboxProofs proofs.CsvProofs.
Import ListNotations.
Open Scope Z_scope.

Section Csv4Proofs.
Variable A : Arith.
Notation databox := (databox A).
Variable fmt_period : Z -> Z -> string.
Variable parse_period : Z -> string -> option Z.
Variable fmt_val : car A -> string.
Variable parse_val : string -> car A.
Variable rnd : car A -> car A.

Lemma span_of_freq_nil (db : databox) f : series_of_freq A db f = [] -> span_of_freq A db f = [].
Proof. unfold span_of_freq. intros ->. destruct (f =? -1); reflexivity. Qed.

(* an entry dropped by the source's test has no series to write *)
Lemma dropped_entry (db : databox) f :
  fspan_keep (span_is_empty_object A db f) f = false -> series_of_freq A db f = [].
Proof.
  unfold fspan_keep, span_is_empty_object. intros H.
  destruct (series_of_freq A db f) eqn:E; [reflexivity|]. exfalso.
  destruct (f =? -1); cbn in H; discriminate.
Qed.

(* an entry whose frequency has series is kept: for the unknown frequency (empty series) as for the dated ones *)
Lemma kept_entry (db : databox) f :
  series_of_freq A db f <> [] -> fspan_keep (span_is_empty_object A db f) f = true.
Proof.
  unfold fspan_keep, span_is_empty_object. intros H.
  destruct (series_of_freq A db f); [contradiction|]. destruct (f =? -1); reflexivity.
Qed.

Theorem fspan_table_complete (db : databox) fs f x :
  In (f, x) fs -> series_of_freq A db f <> [] -> In f (map fst (resolve_fspan_src A db fs)).
Proof.
  intros Hin Hs. apply in_map_iff.
  exists (f, match x with Some l => l | None => span_of_freq A db f end). split; [reflexivity|].
  unfold resolve_fspan_src. apply in_flat_map. exists (f, x). split; [assumption|]. cbn [fst snd].
  destruct x; [now left|]. rewrite kept_entry by assumption. now left.
Qed.

Lemma fold_rows_src (db : databox) fs : forall m,
  fold_left (fun m p => Nat.max m (length (snd p))) (resolve_fspan_src A db fs) m
  = fold_left (fun m (p : Z * list Z) => Nat.max m (length (snd p))) (resolve_fspan A db fs) m.
Proof.
  induction fs as [|[f [l|]] r IH]; intros m; [reflexivity| |].
  - cbn [resolve_fspan_src resolve_fspan flat_map map fst snd app fold_left]. apply IH.
  - unfold resolve_fspan_src, resolve_fspan. cbn [flat_map map fst snd].
    destruct (fspan_keep (span_is_empty_object A db f) f) eqn:K.
    + cbn [app fold_left fst snd]. apply IH.
    + cbn [app fold_left fst snd]. rewrite (span_of_freq_nil db f (dropped_entry db f K)). cbn [length].
      rewrite Nat.max_0_r. apply IH.
Qed.

Lemma blocks_src (db db1 : databox) o fs total :
  (forall f, series_of_freq A db f = [] -> series_of_freq A db1 f = []) ->
  blocks_of_table A fmt_period fmt_val rnd db1 o (resolve_fspan_src A db fs) total
  = blocks_of_table A fmt_period fmt_val rnd db1 o (resolve_fspan A db fs) total.
Proof.
  intros Hsub. induction fs as [|[f [l|]] r IH]; [reflexivity| |].
  - unfold blocks_of_table, resolve_fspan_src, resolve_fspan in *. cbn [flat_map map fst snd app]. now rewrite IH.
  - unfold blocks_of_table, resolve_fspan_src, resolve_fspan in *. cbn [flat_map map fst snd].
    destruct (fspan_keep (span_is_empty_object A db f) f) eqn:K.
    + cbn [app flat_map fst snd]. now rewrite IH.
    + cbn [app fst snd]. rewrite (Hsub f (dropped_entry db f K)). cbn [app]. exact IH.
Qed.

(* the sheet written with the table of the source is the sheet of model/Csv.v, for every databox (any mix of
   frequencies, empty series, scalars, lists), name selection and frequency-span option *)
Theorem export_src_same (db : databox) (o : wopts) :
  export_src A fmt_period fmt_val rnd db o = export A fmt_period fmt_val rnd db o.
Proof.
  change (export A fmt_period fmt_val rnd db o)
    with (hcat_all (blocks_of_table A fmt_period fmt_val rnd (selected A db o) o
                      (resolve_fspan A (selected A db o) (w_fspan o))
                      (total_rows (resolve_fspan A (selected A db o) (w_fspan o))))).
  unfold export_src. cbv zeta. unfold total_rows. rewrite fold_rows_src.
  rewrite blocks_src by (intros f H; exact H). reflexivity.
Qed.

(* ---- import of a block without dated rows ---- *)
Definition header_groups (name_row desc_row : row) (dc ec : nat) : list (list nat * string * string) :=
  col_iter (combine (slice name_row (S dc) ec ++ [""%string]) (slice desc_row (S dc) ec ++ [""%string])) O None.

Lemma filter_undated dc (rows : grid) :
  Forall (fun r => cell_at r dc = ""%string) rows -> filter (fun r => str_nonempty (cell_at r dc)) rows = [].
Proof.
  induction 1 as [|r l Hr Hl IH]; [reflexivity|]. cbn [filter]. rewrite Hr. cbn. exact IH.
Qed.

Theorem import_block_no_periods (name_row desc_row : row) (data_rows : grid) (db : databox) f dc ec :
  Forall (fun r => cell_at r dc = ""%string) data_rows ->
  (data_rows <> [] -> parse_period f ""%string <> None) ->
  import_block A parse_period parse_val name_row desc_row data_rows (Ok db) (f, dc, ec)
  = Ok (fold_left (fun d g => let '(cs, n, ds) := g in dset A d n (ISer A ds (empty_series A (length cs))))
                  (header_groups name_row desc_row dc ec) db).
Proof.
  intros Hall Hp. unfold import_block, header_groups. destruct data_rows as [|r0 rest]; [reflexivity|].
  pose proof (filter_undated dc _ Hall) as Hf.
  inversion Hall as [|? ? H0 Hrest]; subst. rewrite H0.
  destruct (parse_period f ""%string) eqn:E; [|exfalso; apply Hp; [discriminate|reflexivity]].
  rewrite Hf. cbn [map all_some]. reflexivity.
Qed.

End Csv4Proofs.

(* ---- concrete instances ---- *)
Module Csv4Examples.
Import CsvExamples.
(* Period.from_sdmx_string("", frequency=UNKNOWN) does not raise: the date cells of the __unknown__ block are empty *)
Definition pp' (f : Z) (c : string) : option Z := if (f =? -1) && String.eqb c "" then Some 0 else pp f c.
Definition roundtrip' (d : bool) (db : databox OZArith) : res (databox OZArith) :=
  import OZArith pp' pv d (export OZArith fp fv (fun x => x) db (opts d)).

(* empty series next to a dated one: all come back, the empty ones with names, variant counts and descriptions *)
Example mixed_empty_series_roundtrip :
  roundtrip' true [("e"%string, ISer OZArith "about e" (empty_series OZArith 2));
                   ("a"%string, ISer OZArith "about a" (ser [[Some 1]; [Some 2]]))]
  = Ok [("a"%string, ISer OZArith "about a" (ser [[Some 1]; [Some 2]]));
        ("e"%string, ISer OZArith "about e" (empty_series OZArith 2))].
Proof. vm_compute. reflexivity. Qed.

Example default_table_has_unknown : In (-1, None) default_fspan.
Proof. unfold default_fspan. vm_compute. repeat (try (left; reflexivity); right). Qed.

(* the table of the source for a databox of one dated and one empty series: both frequencies are keys *)
Example table_of_mixed_databox :
  map fst (resolve_fspan_src OZArith [("e"%string, ISer OZArith "" (empty_series OZArith 1));
                                      ("a"%string, ISer OZArith "" (ser [[Some 1]]))] default_fspan) = [4; -1].
Proof. vm_compute. reflexivity. Qed.
End Csv4Examples.
