(* C01  Theorems about the first-order solution algebra of model/Ford.v, on the MathComp
   instance of the matrix interface: an arbitrary field F, arbitrary block sizes.

   The QZ decomposition, the Schur decomposition and lstsq/inverse are oracles: they occur as
   Section variables with hypotheses (contracts) that become premises of the closed theorems. *)
From Verif Require Import lib.MxC01 gen.FordGen model.Ford.
From mathcomp Require Import all_ssreflect all_algebra.
From mathcomp Require Import ring.
Set Implicit Arguments.
Unset Strict Implicit.
Unset Printing Implicit Defensive.
Import GRing.Theory.
Local Open Scope ring_scope.

(* entry-wise abelian-group reasoning once every product has been generalised to an atom *)
Ltac mx_abel := let i := fresh "i" in let j := fresh "j" in apply/matrixP=> i j; rewrite !mxE /=; ring.

(* ------------------------------------------------------------------ the MathComp instance *)
Section Instance.
Variable F : fieldType.

Definition MCOps : MxOps := {|
  mx := fun m n => 'M[F]_(m, n);
  mmul := fun m n p (a : 'M[F]_(m, n)) (b : 'M[F]_(n, p)) => a *m b;
  madd := fun m n (a b : 'M[F]_(m, n)) => a + b;
  mopp := fun m n (a : 'M[F]_(m, n)) => - a;
  mtr := fun m n (a : 'M[F]_(m, n)) => a^T;
  minv := fun n (a : 'M[F]_n) => invmx a;
  mid := fun n => 1%:M;
  mzero := fun m n => 0;
  usub := fun m1 m2 n (a : 'M[F]_(m1 + m2, n)) => usubmx a;
  dsub := fun m1 m2 n (a : 'M[F]_(m1 + m2, n)) => dsubmx a;
  lsub := fun m n1 n2 (a : 'M[F]_(m, n1 + n2)) => lsubmx a;
  rsub := fun m n1 n2 (a : 'M[F]_(m, n1 + n2)) => rsubmx a;
  colmx := fun m1 m2 n (a : 'M[F]_(m1, n)) (b : 'M[F]_(m2, n)) => col_mx a b;
  mis0 := fun m n (a : 'M[F]_(m, n)) => a == 0;
  mrowmask := fun m n f (a : 'M[F]_(m, n)) => \matrix_(i, j) (if f (nat_of_ord i) then a i j else 0);
|}.
End Instance.

(* ------------------------------------------------------------------ inverse helpers *)
Section InvHelpers.
Variable F : fieldType.

Lemma invmx_uniq n (A B : 'M[F]_n) : A *m B = 1%:M -> invmx A = B.
Proof.
move=> AB; have [uA _] := mulmx1_unit AB.
by rewrite -[B]mul1mx -(mulVmx uA) -mulmxA AB mulmx1.
Qed.

Lemma invmxN n (A : 'M[F]_n) : A \in unitmx -> invmx (- A) = - invmx A.
Proof. by move=> uA; apply: invmx_uniq; rewrite mulNmx mulmxN opprK mulmxV. Qed.

Lemma unitmxN n (A : 'M[F]_n) : A \in unitmx -> - A \in unitmx.
Proof.
move=> uA; have H : (- A) *m (- invmx A) = 1%:M by rewrite mulNmx mulmxN opprK mulmxV.
by have [] := mulmx1_unit H.
Qed.

(* A * (inv(-A) * X) = - X : what lstsq(-A, X) returns, multiplied back *)
Lemma mulmx_ldivN n p (A : 'M[F]_n) (X : 'M[F]_(n, p)) : A \in unitmx -> A *m (invmx (- A) *m X) = - X.
Proof. by move=> uA; rewrite invmxN // mulNmx mulmxN mulKVmx. Qed.

Lemma mulmx_ldiv n p (A : 'M[F]_n) (X : 'M[F]_(n, p)) : A \in unitmx -> A *m (invmx A *m X) = X.
Proof. by move=> uA; rewrite mulKVmx. Qed.

End InvHelpers.

(* ================================================================== *)
(* 0. The algebra on abstract blocks; names as in _solve_transition_equations.  The solution
      matrices are Section variables constrained by their defining equations, so that no
      tactic can unfold them.                                                                *)
Section Core.
Variable F : fieldType.
Variables nb nf ne : nat.
Variables (S11 T11 : 'M[F]_nb) (S12 T12 : 'M[F]_(nb, nf)) (S22 T22 : 'M[F]_nf).
Variables (Z21 : 'M[F]_nb) (Z22 : 'M[F]_(nb, nf)).
Variables (QC1 : 'cV[F]_nb) (QC2 : 'cV[F]_nf) (QD1 : 'M[F]_(nb, ne)) (QD2 : 'M[F]_(nf, ne)).
Variables (G Xg0 Xg1 Xg : 'M[F]_(nb, nf)) (Ku : 'cV[F]_nf) (Ru : 'M[F]_(nf, ne)) (J : 'M[F]_nf).
Variables (Tg : 'M[F]_nb) (Rg : 'M[F]_(nb, ne)) (Kg : 'cV[F]_nb).

Hypothesis uS11 : S11 \in unitmx.
Hypothesis uT22 : T22 \in unitmx.
Hypothesis uST22 : S22 + T22 \in unitmx.
Hypothesis uZ21 : Z21 \in unitmx.

Hypothesis G_def : G = invmx (- Z21) *m Z22.
Hypothesis Ru_def : Ru = invmx (- T22) *m QD2.
Hypothesis Ku_def : Ku = invmx (- (S22 + T22)) *m QC2.
Hypothesis Xg0_def : Xg0 = invmx S11 *m (T11 *m G + T12).
Hypothesis Xg1_def : Xg1 = G + invmx S11 *m S12.
Hypothesis Tg_def : Tg = invmx (- S11) *m T11.
Hypothesis Rg_def : Rg = (- Xg0) *m Ru + - (invmx S11 *m QD1).
Hypothesis Kg_def : Kg = (- (Xg0 + Xg1)) *m Ku + - (invmx S11 *m QC1).
Hypothesis J_def : J = invmx (- T22) *m S22.
Hypothesis Xg_def : Xg = Xg1 + Xg0 *m J.

(* what the left divisions return, multiplied back *)
Lemma Z21G : Z21 *m G = - Z22. Proof. by rewrite G_def mulmx_ldivN. Qed.
Lemma T22Ru : T22 *m Ru = - QD2. Proof. by rewrite Ru_def mulmx_ldivN. Qed.
Lemma T22J : T22 *m J = - S22. Proof. by rewrite J_def mulmx_ldivN. Qed.
Lemma ST22Ku : (S22 + T22) *m Ku = - QC2. Proof. by rewrite Ku_def mulmx_ldivN. Qed.
Lemma S11Xg0 : S11 *m Xg0 = T11 *m G + T12. Proof. by rewrite Xg0_def mulmx_ldiv. Qed.
Lemma S11Xg1 : S11 *m Xg1 = S11 *m G + S12. Proof. by rewrite Xg1_def mulmxDr mulmx_ldiv. Qed.
Lemma S11Tg : S11 *m Tg = - T11. Proof. by rewrite Tg_def mulmx_ldivN. Qed.
Lemma S11Rg : S11 *m Rg = - (S11 *m Xg0 *m Ru) - QD1.
Proof. by rewrite Rg_def mulmxDr mulmxN mulmx_ldiv // !mulmxA mulmxN mulNmx. Qed.
Lemma S11Kg : S11 *m Kg = - (S11 *m (Xg0 + Xg1) *m Ku) - QC1.
Proof. by rewrite Kg_def mulmxDr mulmxN mulmx_ldiv // !mulmxA mulmxN mulNmx. Qed.

(* the unstable block, solved forward: u[t] = Ku + a, u[t-1|t] = Ku + Ru e + J a
   (a = discounted effect of the shocks anticipated after t) *)
Lemma core_lower (e : 'cV[F]_ne) (a : 'cV[F]_nf) :
  S22 *m (Ku + a) + T22 *m (Ku + (Ru *m e + J *m a)) + QC2 + QD2 *m e = 0.
Proof.
rewrite addrA.
have E : S22 *m Ku + T22 *m Ku = - QC2 by rewrite -mulmxDl ST22Ku.
rewrite !mulmxDr !mulmxA T22Ru T22J !mulNmx.
have -> : T22 *m Ku = - QC2 - S22 *m Ku.
  by rewrite -E; move: (S22 *m Ku) (T22 *m Ku) => x y; mx_abel.
move: (S22 *m Ku) (S22 *m a) (QD2 *m e) => x1 x2 x4.
by mx_abel.
Qed.

(* the stable block in gamma coordinates: s = gamma + G u *)
Lemma core_upper (g0 : 'cV[F]_nb) (e : 'cV[F]_ne) (a : 'cV[F]_nf) :
  S11 *m ((Tg *m g0 + Kg + Rg *m e - Xg *m a) + G *m (Ku + a)) + S12 *m (Ku + a)
  + T11 *m (g0 + G *m (Ku + (Ru *m e + J *m a))) + T12 *m (Ku + (Ru *m e + J *m a)) + QC1 + QD1 *m e = 0.
Proof.
rewrite !(addrA Ku) Xg_def !mulmxDr !mulmxN !mulmxDl !mulmxDr !mulmxA S11Tg S11Kg S11Rg.
rewrite !mulmxDr !mulmxDl !mulNmx S11Xg0 S11Xg1 !mulmxDl.
move: (T11 *m g0) (T11 *m G *m Ku) (T12 *m Ku) (S11 *m G *m Ku) (S12 *m Ku) (T11 *m G *m Ru *m e)
      (T12 *m Ru *m e) (QD1 *m e) (S11 *m G *m a) (S12 *m a) (T11 *m G *m J *m a) (T12 *m J *m a).
by move=> y1 y2 y3 y4 y5 y6 y7 y8 y9 y10 y11 y12; mx_abel.
Qed.

(* without shocks the stable block determines the next gamma uniquely: whatever pair (g0, g1) satisfies it
   is one step of the recursion *)
Lemma core_step_unique (g0 g1 : 'cV[F]_nb) :
  S11 *m (g1 + G *m Ku) + S12 *m Ku + T11 *m (g0 + G *m Ku) + T12 *m Ku + QC1 = 0 -> Tg *m g0 + Kg = g1.
Proof.
move=> H.
have := core_upper g0 0 0; rewrite !mulmx0 !subr0 !addr0 => U.
have E : S11 *m (Tg *m g0 + Kg) = S11 *m g1.
  move: H U; rewrite !mulmxDr.
  move: (S11 *m (Tg *m g0)) (S11 *m Kg) (S11 *m g1) (S11 *m (G *m Ku)) (T11 *m g0) (T11 *m (G *m Ku))
        (S12 *m Ku) (T12 *m Ku) => z1 z2 z3 z4 z5 z6 z7 z8 H U.
  have : z1 + z2 - z3 = (z1 + z2 + z4 + z7 + (z5 + z6) + z8 + QC1) - (z3 + z4 + z7 + (z5 + z6) + z8 + QC1).
    by mx_abel.
  by rewrite U H subr0 => /eqP; rewrite subr_eq0 => /eqP.
by rewrite -[LHS](mulKmx uS11) E mulKmx.
Qed.

(* in steady state (no shocks): the gamma recursion has a fixed point wherever the stable block holds *)
Lemma core_fixed_point (g : 'cV[F]_nb) :
  (S11 + T11) *m (g + G *m Ku) + (S12 + T12) *m Ku + QC1 = 0 -> Tg *m g + Kg = g.
Proof.
move=> H.
have := core_upper g 0 0; rewrite !mulmx0 !subr0 !addr0 => U.
have E : S11 *m (Tg *m g + Kg) = S11 *m g.
  move: H U; rewrite !mulmxDl !mulmxDr.
  move: (S11 *m (Tg *m g)) (S11 *m Kg) (S11 *m g) (S11 *m (G *m Ku)) (T11 *m g) (T11 *m (G *m Ku))
        (S12 *m Ku) (T12 *m Ku) => z1 z2 z3 z4 z5 z6 z7 z8 H U.
  have : z1 + z2 - z3 = (z1 + z2 + z4 + z7 + (z5 + z6) + z8 + QC1) - (z3 + z4 + (z5 + z6) + (z7 + z8) + QC1).
    by mx_abel.
  by rewrite U H subr0 => /eqP; rewrite subr_eq0 => /eqP.
by rewrite -[LHS](mulKmx uS11) E mulKmx.
Qed.

End Core.

(* ================================================================== *)
(* 1. The triangular solution annihilates the QZ-transformed system     *)
Section Triangular.
Variable F : fieldType.
Variables nb nf ne : nat.
Variables (S T Q : 'M[F]_(nb + nf)) (Z : 'M[F]_(nf + nb, nb + nf)).
Variables (C : 'cV[F]_(nb + nf)) (D : 'M[F]_(nb + nf, ne)).

Notation O := (MCOps F).
Let p := @solve_transition O nb nf ne S T Q Z C D.

Let S11 := ulsubmx S. Let S12 := ursubmx S. Let S22 := drsubmx S.
Let T11 := ulsubmx T. Let T12 := ursubmx T. Let T22 := drsubmx T.
Let Z11 := ulsubmx Z. Let Z12 := ursubmx Z. Let Z21 := dlsubmx Z. Let Z22 := drsubmx Z.
Let QC1 := usubmx (Q *m C). Let QC2 := dsubmx (Q *m C).
Let QD1 := usubmx (Q *m D). Let QD2 := dsubmx (Q *m D).

Let G : 'M[F]_(nb, nf) := ts_G p.   Let Ku : 'cV[F]_nf := ts_Ku p.   Let Ru : 'M[F]_(nf, ne) := ts_Ru p.
Let Xg0 : 'M[F]_(nb, nf) := ts_Xg0 p. Let Xg1 : 'M[F]_(nb, nf) := ts_Xg1 p.
Let Tg : 'M[F]_nb := ts_Tg p.       Let Rg : 'M[F]_(nb, ne) := ts_Rg p. Let Kg : 'cV[F]_nb := ts_Kg p.
Let J : 'M[F]_nf := ts_J p.         Let Xg : 'M[F]_(nb, nf) := ts_Xg p. Let Ug : 'M[F]_nb := ts_Ug p.

(* contract of the ordered QZ: block upper triangular, the needed diagonal blocks non-singular *)
Hypothesis S21_0 : dlsubmx S = 0.
Hypothesis T21_0 : dlsubmx T = 0.
Hypothesis uS11 : S11 \in unitmx.
Hypothesis uT22 : T22 \in unitmx.
Hypothesis uST22 : S22 + T22 \in unitmx.
Hypothesis uZ21 : Z21 \in unitmx.

Lemma lower_block (e : 'cV[F]_ne) (a : 'cV[F]_nf) :
  S22 *m (Ku + a) + T22 *m (Ku + (Ru *m e + J *m a)) + QC2 + QD2 *m e = 0.
Proof. exact: (@core_lower F nf ne S22 T22 QC2 QD2 Ku Ru J uT22 uST22 erefl erefl erefl). Qed.

Lemma upper_block (g0 : 'cV[F]_nb) (e : 'cV[F]_ne) (a : 'cV[F]_nf) :
  S11 *m ((Tg *m g0 + Kg + Rg *m e - Xg *m a) + G *m (Ku + a)) + S12 *m (Ku + a)
  + T11 *m (g0 + G *m (Ku + (Ru *m e + J *m a))) + T12 *m (Ku + (Ru *m e + J *m a)) + QC1 + QD1 *m e = 0.
Proof.
exact: (@core_upper F nb nf ne S11 T11 S12 T12 QC1 QD1 G Xg0 Xg1 Xg Ku Ru J Tg Rg Kg uS11
          erefl erefl erefl erefl erefl erefl).
Qed.

Lemma Z21G' : Z21 *m G = - Z22.
Proof. exact: (@Z21G F nb nf Z21 Z22 G uZ21 erefl). Qed.

(* Theorem 1: both blocks of  S w[t] + T w[t-1|t] + Q C + Q D e[t] = 0 *)
Theorem triangular_solves_system (g0 : 'cV[F]_nb) (e : 'cV[F]_ne) (a : 'cV[F]_nf) :
  let g1 := Tg *m g0 + Kg + Rg *m e - Xg *m a in
  let u1 := Ku + a in let u0 := Ku + (Ru *m e + J *m a) in
  S *m col_mx (g1 + G *m u1) u1 + T *m col_mx (g0 + G *m u0) u0 + Q *m C + Q *m D *m e = 0.
Proof.
move=> g1 u1 u0.
rewrite -[S]submxK -[T]submxK S21_0 T21_0 !mul_block_col !mul0mx !add0r.
rewrite -[Q *m C]vsubmxK -[Q *m D]vsubmxK mul_col_mx !add_col_mx.
rewrite -/S11 -/S12 -/S22 -/T11 -/T12 -/T22 -/QC1 -/QC2 -/QD1 -/QD2.
have -> : S11 *m (g1 + G *m u1) + S12 *m u1 + (T11 *m (g0 + G *m u0) + T12 *m u0) + QC1 + QD1 *m e = 0.
  by rewrite addrA; exact: upper_block.
have -> : S22 *m u1 + T22 *m u0 + QC2 + QD2 *m e = 0 by exact: lower_block.
by rewrite col_mx0.
Qed.

(* the backward (solution-vector) rows of Z w are Z21 gamma, whatever u is *)
Lemma Zw_bottom (g : 'cV[F]_nb) (u : 'cV[F]_nf) : dsubmx (Z *m col_mx (g + G *m u) u) = Z21 *m g.
Proof.
rewrite -[Z]submxK mul_block_col col_mxKd -/Z21 -/Z22 mulmxDr mulmxA Z21G' mulNmx.
by rewrite -addrA addNr addr0.
Qed.

End Triangular.
