(* C07  (1) the boolean incidence arrays the simulators read from a SimulationPlan, for every history of calls:
        an entry is True exactly when the LAST elementary write covering the point had status=True (points switched
        off with status=False, and points never written, read False); tied to the source through the generated
        element formula gen/PlanLoopGen.v::gen_point_value and gen_is_active.
        (2) the loop over variants of Simultaneous.simulate is pointwise: variant k of the result is the one-variant
        simulation of variant k of the model on variant k of the input data, and so inherits "exogenized cells keep
        THEIR input values" from the one-variant simulator; tied through gen_model_of / gen_input_of / gen_work_of.
   Plain stdlib style. *)
From Coq Require Import List Bool Arith ZArith Lia.
From Verif Require Import lib.MatOps model.Kalman model.Plans lib.PlanRegs model.Variants gen.PlanLoopGen model.SimVariants.
Import ListNotations.

(* ------------------------------------------------------------------------------------------------ *)
(* 1. get_register_as_bool_array                                                                      *)
(* ------------------------------------------------------------------------------------------------ *)

Definition st_is_none (s : status) : bool := match s with SNone => true | _ => false end.
Definition st_is_true (s : status) : bool := match s with STrue => true | _ => false end.
Definition st_is_false (s : status) : bool := match s with SFalse => true | _ => false end.

(* the model's element of the array is the formula in the source *)
Lemma point_bool_generated p row d :
  point_bool p row d
  = gen_point_value status_bool st_is_none st_is_true st_is_false (negb (in_span p d))
                    (nth (Z.to_nat (d - pl_start p)) row SNone).
Proof.
  unfold point_bool, gen_point_value.
  destruct (in_span p d); destruct (nth (Z.to_nat (d - pl_start p)) row SNone); reflexivity.
Qed.

(* ... and the model's is_active is _is_active_status *)
Lemma is_active_generated s : is_active s = gen_is_active status_bool st_is_none st_is_true st_is_false s.
Proof. destruct s; reflexivity. Qed.

(* the formula in the source reads True only for an entry that is True: never for None, never for False *)
Lemma generated_point_true_iff outside s :
  gen_point_value status_bool st_is_none st_is_true st_is_false outside s = true <-> outside = false /\ s = STrue.
Proof. destruct outside, s; simpl; split; intros H; try discriminate; try (destruct H; discriminate); auto. Qed.

Lemma in_span_shape p q d : same_shape p q -> in_span p d = in_span q d.
Proof. intros (A & B & _). unfold in_span. rewrite A, B. reflexivity. Qed.

(* on a fresh SimulationPlan, after ANY history of exogenize_* / endogenize_* / swap_* calls (any status flags, any
   invalid calls in between), the entry (i, j) of get_register_as_bool_array(register, names, periods) is True iff
   the period is inside the base span and the last elementary write covering (name, period) had status True *)
Theorem bool_array_last_write_wins start nper nvar nshock cs r names periods i j :
  i < length names -> j < length periods ->
  let p0 := new_plan start nper nvar nshock in
  let p := fst (apply_calls p0 cs) in
  let d := nth j periods 0%Z in
  nth j (nth i (bool_array p r names periods) []) false = true <->
  in_span p0 d = true /\
  after_writes r (nth i names 0) (Z.to_nat (d - start)) SNone (flat_map (ewrites_of_call p0) cs) = STrue.
Proof.
  intros Hi Hj p0 p d.
  destruct (apply_calls_spec cs p0 (wf_new_plan _ _ _ _)) as (_ & S & _).
  fold p in S.
  rewrite (bool_array_spec p r names periods i j Hi Hj). cbv zeta. fold d.
  rewrite <- (in_span_shape p0 p d S).
  assert (E : pl_start p = start) by (destruct S as (A & _); rewrite <- A; reflexivity).
  rewrite E. unfold p, p0. rewrite registers_last_write_wins. fold p0.
  destruct (in_span p0 d).
  - set (s := after_writes _ _ _ _ _). destruct s; simpl; split; intros H; try discriminate; auto;
      destruct H as [_ H]; discriminate.
  - split; [discriminate | intros [H _]; discriminate].
Qed.

(* a point whose last covering write had status=False (switched off) reads False, like a point never written *)
Corollary switched_off_reads_false start nper nvar nshock cs r names periods i j :
  i < length names -> j < length periods ->
  let p0 := new_plan start nper nvar nshock in
  after_writes r (nth i names 0) (Z.to_nat (nth j periods 0%Z - start)) SNone (flat_map (ewrites_of_call p0) cs) <> STrue ->
  nth j (nth i (bool_array (fst (apply_calls p0 cs)) r names periods) []) false = false.
Proof.
  intros Hi Hj p0 H.
  destruct (nth j (nth i (bool_array (fst (apply_calls p0 cs)) r names periods) []) false) eqn:E; auto.
  apply (bool_array_last_write_wins start nper nvar nshock cs r names periods i j Hi Hj) in E.
  destruct E as [_ E]. contradiction.
Qed.

(* the array and the views built on is_active (get_<register>(), is_empty, any_*_except_start: what the frame
   splitter and the public getters report) agree on every point: one effective plan *)
Lemma bool_view_agrees_with_active s : status_bool s = is_active s.
Proof. destruct s; reflexivity. Qed.

(* non-vacuity: on / off / on and on / off histories of exogenize_unanticipated on a 1-variable, 3-period plan *)
Example on_off_on_example :
  let cs := [Write ExogUnant (These [10%Z]) (These [0]) true; Write ExogUnant (These [10%Z; 11%Z]) (These [0]) false;
             Write ExogUnant (These [11%Z]) All true; Write ExogUnant (These [12%Z]) All true;
             Write ExogUnant (These [12%Z]) All false; Write ExogUnant (These [99%Z]) All true] in
  bool_array (fst (apply_calls (new_plan 10 3 1 1) cs)) ExogUnant [0] [9%Z; 10%Z; 11%Z; 12%Z]
  = [[false; false; true; false]].
Proof. reflexivity. Qed.

(* ------------------------------------------------------------------------------------------------ *)
(* 2. the loop over variants                                                                          *)
(* ------------------------------------------------------------------------------------------------ *)

Section Loop.
Variables MV DS PL : Type.
Variables (dm : MV) (dd : DS).
Variable sim1 : MV -> PL -> DS -> DS -> DS.
Notation simulate_variants := (simulate_variants MV DS PL dm dd sim1).

Lemma simulate_variants_length nv ms pl ds : length (simulate_variants nv ms pl ds) = nv.
Proof. unfold SimVariants.simulate_variants. rewrite map_length, seq_length. reflexivity. Qed.

(* variant k of the result: the one-variant simulation of the k-th model variant, reading the exogenized values from,
   and working on, the k-th variant of the input data (the k-th column of every input series) *)
Theorem variant_pointwise nv ms pl ds k : k < nv ->
  nth k (simulate_variants nv ms pl ds) dd = sim1 (etl MV ms dm k) pl (etl DS ds dd k) (etl DS ds dd k).
Proof.
  intros H. unfold SimVariants.simulate_variants.
  rewrite (nth_indep _ dd (sim_variant MV DS PL dm dd sim1 ms pl ds 0)) by (rewrite map_length, seq_length; auto).
  rewrite (map_nth (sim_variant MV DS PL dm dd sim1 ms pl ds) (seq 0 nv) 0 k).
  rewrite seq_nth by auto. reflexivity.
Qed.

(* ... the same thing a single-variant call on variant k alone returns *)
Theorem variant_equals_singleton nv ms pl ds k : k < nv ->
  nth k (simulate_variants nv ms pl ds) dd = nth 0 (simulate_variants 1 [etl MV ms dm k] pl [etl DS ds dd k]) dd.
Proof.
  intros H. rewrite variant_pointwise by auto. rewrite variant_pointwise by auto. reflexivity.
Qed.

(* ... and it does not depend on the other variants of the model or of the data *)
Theorem other_variants_irrelevant nv ms ms' pl ds ds' k : k < nv ->
  etl MV ms dm k = etl MV ms' dm k -> etl DS ds dd k = etl DS ds' dd k ->
  nth k (simulate_variants nv ms pl ds) dd = nth k (simulate_variants nv ms' pl ds') dd.
Proof. intros H A B. rewrite !variant_pointwise by auto. rewrite A, B. reflexivity. Qed.

(* the clause of the property: if the one-variant simulator leaves in every exogenized cell the value of ITS
   input_data_array (C07_exogenized_hit for first_order, C07_stacked_exogenized_hit for stacked_time), then in a
   simulation of a model with any number of variants every variant has, in every exogenized cell, the input value of
   THAT variant *)
Variables (cell val : Type) (get : DS -> cell -> val) (exogenized : PL -> cell -> bool).
Hypothesis sim1_hits : forall m pl input work c, exogenized pl c = true -> get (sim1 m pl input work) c = get input c.

Theorem every_variant_hits_its_own_input nv ms pl ds k c : k < nv -> k < length ds -> exogenized pl c = true ->
  get (nth k (simulate_variants nv ms pl ds) dd) c = get (nth k ds dd) c.
Proof.
  intros H L E. rewrite variant_pointwise by auto. rewrite sim1_hits by auto.
  unfold etl. f_equal. apply nth_indep. exact L.
Qed.

End Loop.

(* non-vacuity: data = one number per variant, the "simulator" returns model + 10 * input + 100 * work; two variants
   with different inputs give different results, each from its own input *)
Example variant_loop_example :
  simulate_variants nat nat unit 0 0 (fun m _ input work => m + 10 * input + 100 * work) 3 [1; 2] tt [3; 4; 5]
  = [331; 442; 552].
Proof. reflexivity. Qed.

Example hits_hypothesis_satisfiable :
  forall (m : nat) (pl : unit) (input work : nat) (c : unit), (fun _ _ => true) pl c = true ->
    (fun (d : nat) (_ : unit) => d) ((fun (_ : nat) (_ : unit) (i _ : nat) => i) m pl input work) c
    = (fun (d : nat) (_ : unit) => d) input c.
Proof. reflexivity. Qed.
