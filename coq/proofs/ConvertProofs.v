(* C12: aggregation groups, missing rules, placement and round trips on the Series model. *)
From Coq Require Import ZArith List Bool Lia Reals Lra.
From Verif Require Import lib.Arith model.Series model.SeriesOps model.Convert proofs.SeriesProofs.
Import ListNotations.
Open Scope Z_scope.

Ltac Zify.zify_post_hook ::= Z.to_euclidean_division_equations.

Section ConvertProofs.
Variable A : Arith.
Notation V := (car A).
Notation series := (series A).
Hypothesis miss_law : forall x : V, is_miss A x = true -> x = miss A.
Variable X : ArithExt A.

Lemma agg_row_length m sel disc nv rows : length (agg_row A X m sel disc nv rows) = nv.
Proof. unfold agg_row. now rewrite map_length, seq_length. Qed.

(* ---- which high-frequency periods form the group of low period l ---- *)
Lemma group_membership factor h l : 0 < factor ->
  (h / factor = l <-> exists j, 0 <= j < factor /\ h = l * factor + j).
Proof.
  intros Hf. split.
  - intros <-. exists (h mod factor). split; [apply Z.mod_pos_bound; lia|]. rewrite Z.mul_comm. apply Z.div_mod. lia.
  - intros (j & Hj & ->). rewrite Z.div_add_l by lia. rewrite Z.div_small by lia. lia.
Qed.

Lemma group_rows_nth (s : series) factor l j : (j < Z.to_nat factor)%nat ->
  nth j (group_rows A s factor l) (missrow A (s_nv s)) = row_at A s (l * factor + Z.of_nat j).
Proof.
  intros Hj. unfold group_rows. rewrite nth_map_in with (d' := 0%nat) by (rewrite seq_length; lia).
  now rewrite seq_nth by lia.
Qed.

(* ---- aggregation: the value of low period l is the method applied to exactly its group ---- *)
Theorem aggregate_spec m sel disc f_tgt (s r : series) st en l :
  WF A s -> s_start s = Some st -> s_end A s = Some en ->
  f_tgt <> s_freq s -> f_tgt <= s_freq s ->
  aggregate_regular A X m sel disc f_tgt s = Ok r ->
  row_at A r l =
    if (st / s_freq s * f_tgt <=? l) && (l <=? (en / s_freq s + 1) * f_tgt - 1)
    then agg_row A X m sel disc (s_nv s) (group_rows A s (s_freq s / f_tgt) l)
    else missrow A (s_nv s).
Proof.
  intros Hwf Es Ee Hne Hle. unfold aggregate_regular. rewrite Es, Ee.
  destruct (Z.eqb_spec f_tgt (s_freq s)); [contradiction|].
  destruct (Z.ltb_spec (s_freq s) f_tgt); [lia|].
  intros Hr. injection Hr as <-. rewrite row_at_build; [reflexivity|assumption|].
  intros u. apply agg_row_length.
Qed.

(* ---- first / last return the first / last member ---- *)
Lemma first_member x w : agg_value A X AggFirst (x :: w) = x.
Proof. reflexivity. Qed.
Lemma last_member x w : agg_value A X AggLast (x :: w) = last (x :: w) x.
Proof. reflexivity. Qed.

(* ---- a missing member makes sum / prod / mean missing (carriers whose missing value is absorbing) ---- *)
Section MissingRule.
Hypothesis add_l : forall x, add A (miss A) x = miss A.
Hypothesis add_r : forall x, add A x (miss A) = miss A.
Hypothesis mul_l : forall x, mul A (miss A) x = miss A.
Hypothesis mul_r : forall x, mul A x (miss A) = miss A.
Hypothesis div_l : forall x, div A (miss A) x = miss A.

Lemma fold_absorb (f : V -> V -> V) (w : list V) acc :
  (forall x, f (miss A) x = miss A) -> (forall x, f x (miss A) = miss A) ->
  (acc = miss A \/ In (miss A) w) -> fold_left f w acc = miss A.
Proof.
  intros Hl Hr. revert acc. induction w as [|y w IH]; intros acc [H|H]; simpl.
  - exact H.
  - destruct H.
  - apply IH. left. now rewrite H, Hl.
  - destruct H as [E|H]; apply IH; [left; rewrite E; apply Hr|now right].
Qed.

Theorem missing_member_rule m (w : list V) : In (miss A) w ->
  (m = AggSum \/ m = AggProd \/ m = AggMean) -> agg_value A X m w = miss A.
Proof.
  intros Hin Hm. destruct w as [|x r]; [destruct Hin|].
  assert (Hc : x = miss A \/ In (miss A) r) by (destruct Hin; [left; now symmetry|now right]).
  destruct Hm as [->|[->| ->]]; simpl.
  - now apply fold_absorb.
  - now apply fold_absorb.
  - rewrite (fold_absorb (add A) r x) by assumption. apply div_l.
Qed.
End MissingRule.

(* ---- disaggregation: placement ---- *)
Theorem disaggregate_spec d f_tgt (s r : series) st en h :
  WF A s -> s_start s = Some st -> s_end A s = Some en ->
  f_tgt <> s_freq s -> s_freq s <= f_tgt ->
  disaggregate_regular A d f_tgt s = Ok r ->
  row_at A r h =
    if (st * (f_tgt / s_freq s) <=? h) && (h <=? (en + 1) * (f_tgt / s_freq s) - 1)
    then (if dis_keep d (f_tgt / s_freq s) (h mod (f_tgt / s_freq s)) then row_at A s (h / (f_tgt / s_freq s))
          else missrow A (s_nv s))
    else missrow A (s_nv s).
Proof.
  intros Hwf Es Ee Hne Hle. unfold disaggregate_regular. rewrite Es, Ee.
  destruct (Z.eqb_spec f_tgt (s_freq s)); [contradiction|].
  destruct (Z.ltb_spec f_tgt (s_freq s)); [lia|].
  intros Hr. injection Hr as <-. rewrite row_at_build; [reflexivity|assumption|].
  intros u. destruct (dis_keep _ _ _); [now apply row_at_length|apply missrow_length].
Qed.

Lemma build_nv fr nv lo hi (g : Z -> list V) : s_nv (build A fr nv lo hi g) = nv.
Proof.
  unfold build, trim; simpl. destruct (drop_leading A _) as [n r1].
  destruct (rev (snd (drop_leading A (rev r1)))); reflexivity.
Qed.

Lemma disaggregate_WF d f_tgt (s r : series) : WF A s -> disaggregate_regular A d f_tgt s = Ok r ->
  WF A r /\ s_nv r = s_nv s.
Proof.
  intros Hwf. unfold disaggregate_regular.
  destruct (s_start s); [|discriminate]. destruct (s_end A s); [|discriminate].
  destruct (f_tgt =? s_freq s); [intros H; injection H as <-; now split|].
  destruct (f_tgt <? s_freq s); [discriminate|].
  intros H; injection H as <-. split; [|apply build_nv].
  apply build_WF; [assumption|]. intros u. destruct (dis_keep _ _ _); [now apply row_at_length|apply missrow_length].
Qed.

(* flat disaggregation seen as a map: every high period carries the value of the low period containing it *)
Lemma flat_is_containing (f_tgt : Z) (s r : series) st en h :
  WF A s -> s_start s = Some st -> s_end A s = Some en ->
  f_tgt <> s_freq s -> s_freq s <= f_tgt -> 0 < f_tgt / s_freq s ->
  disaggregate_regular A DisFlat f_tgt s = Ok r ->
  row_at A r h = row_at A s (h / (f_tgt / s_freq s)).
Proof.
  intros Hwf Es Ee Hne Hle Hpos Hr.
  rewrite (disaggregate_spec DisFlat f_tgt s r st en h) by assumption. simpl.
  destruct (andb _ _) eqn:E; [reflexivity|].
  symmetry. eapply row_at_outside; eauto.
  apply andb_false_iff in E as [E|E]; apply Z.leb_gt in E; nia.
Qed.

(* ---- round trip: aggregating a flat disaggregation returns the original map ---- *)
Definition idempotent_on_constant (m : agg_method) : Prop :=
  forall (v : V) (n : nat), agg_value A X m (repeat v (S n)) = v.

Lemma fold_same (f : V -> V -> V) v n : f v v = v -> fold_left f (repeat v n) v = v.
Proof. intros H. induction n as [|n IH]; simpl; [reflexivity|]. now rewrite H. Qed.

Lemma first_idem : idempotent_on_constant AggFirst.
Proof. intros v n. reflexivity. Qed.
Lemma last_idem : idempotent_on_constant AggLast.
Proof.
  intros v n. change (last (repeat v (S n)) v = v). induction n as [|n IH]; [reflexivity|].
  change (repeat v (S (S n))) with (v :: repeat v (S n)). simpl in *. exact IH.
Qed.
Lemma min_idem : idempotent_on_constant AggMin.
Proof. intros v n. simpl. apply fold_same. now destruct (x_ltb A X v v). Qed.
Lemma max_idem : idempotent_on_constant AggMax.
Proof. intros v n. simpl. apply fold_same. now destruct (x_ltb A X v v). Qed.

Lemma col_of_repeat (r : list V) n c : col_of A (repeat r n) c = repeat (nth c r (miss A)) n.
Proof. unfold col_of. induction n; simpl; [reflexivity|now f_equal]. Qed.

Theorem roundtrip_flat m f_hi (s d r : series) :
  idempotent_on_constant m ->
  WF A s -> s_start s <> None -> 0 < s_freq s -> s_freq s < f_hi -> f_hi = s_freq s * (f_hi / s_freq s) ->
  disaggregate_regular A DisFlat f_hi s = Ok d ->
  s_freq d = f_hi ->
  aggregate_regular A X m None false (s_freq s) d = Ok r ->
  forall l, row_at A r l = row_at A s l.
Proof.
  intros Hm Hwf Hs Hf Hlt Hdiv Hd Hfd Hr l.
  destruct (s_start s) as [st|] eqn:Es; [|contradiction]. clear Hs.
  assert (Ee : s_end A s = Some (st + Z.of_nat (length (s_data s)) - 1)) by (unfold s_end; now rewrite Es).
  set (en := st + Z.of_nat (length (s_data s)) - 1) in *.
  set (factor := f_hi / s_freq s) in *.
  assert (Hfac : 1 < factor) by nia.
  assert (Hdrow : forall h, row_at A d h = row_at A s (h / factor)).
  { intros h. apply (flat_is_containing f_hi s d st en h); auto; lia. }
  destruct (disaggregate_WF DisFlat f_hi s d Hwf Hd) as [Hwd Hnvd].
  (* the aggregated series *)
  unfold aggregate_regular in Hr.
  destruct (s_start d) as [sd|] eqn:Esd; [|discriminate].
  assert (Eed : s_end A d = Some (sd + Z.of_nat (length (s_data d)) - 1)) by (unfold s_end; now rewrite Esd).
  rewrite Eed in Hr. set (ed := sd + Z.of_nat (length (s_data d)) - 1) in *.
  rewrite Hfd in Hr.
  destruct (Z.eqb_spec (s_freq s) f_hi); [lia|]. destruct (Z.ltb_spec f_hi (s_freq s)); [lia|].
  injection Hr as <-. fold factor.
  rewrite row_at_build; [|assumption|intros u; apply agg_row_length].
  (* every member of the group of l carries row_at s l *)
  assert (Hgroup : group_rows A d factor l = repeat (row_at A s l) (Z.to_nat factor)).
  { unfold group_rows. apply nth_ext with (d := missrow A (s_nv s)) (d' := row_at A s l).
    - now rewrite map_length, seq_length, repeat_length.
    - intros j Hj. rewrite map_length, seq_length in Hj.
      rewrite nth_map_in with (d' := 0%nat) by (rewrite seq_length; lia). rewrite seq_nth by lia.
      rewrite nth_repeat, Hdrow. f_equal. simpl.
      rewrite Z.div_add_l by lia. rewrite Z.div_small by lia. lia. }
  destruct (andb _ _) eqn:E.
  - rewrite Hgroup, Hnvd. unfold agg_row.
    apply nth_ext with (d := miss A) (d' := miss A).
    + rewrite map_length, seq_length. symmetry. now apply row_at_length.
    + intros c Hc. rewrite map_length, seq_length in Hc.
      rewrite nth_map_in with (d' := 0%nat) by (rewrite seq_length; lia). rewrite seq_nth by lia. simpl.
      rewrite col_of_repeat. unfold within.
      replace (Z.to_nat factor) with (S (Z.to_nat factor - 1)) by lia. apply Hm.
  - (* outside the aggregated range the original has no data either *)
    rewrite Hnvd. symmetry.
    destruct (Z.ltb_spec (l * factor) sd) as [Hlo|Hlo];
      [|destruct (Z.ltb_spec ed (l * factor)) as [Hhi|Hhi]].
    + rewrite <- (Z.div_mul l factor) at 1 by lia. rewrite <- Hdrow, <- Hnvd.
      eapply row_at_outside; eauto.
    + rewrite <- (Z.div_mul l factor) at 1 by lia. rewrite <- Hdrow, <- Hnvd.
      eapply row_at_outside; eauto.
    + exfalso. apply andb_false_iff in E as [E|E]; apply Z.leb_gt in E.
      * assert (sd / f_hi * f_hi <= sd) by (rewrite Z.mul_comm; apply Z.mul_div_le; lia).
        assert (sd / f_hi * s_freq s * factor <= l * factor) by nia. nia.
      * assert (ed < (ed / f_hi + 1) * f_hi).
        { pose proof (Z.mul_succ_div_gt ed f_hi ltac:(lia)). lia. }
        assert (l * factor < (ed / f_hi + 1) * s_freq s * factor) by nia. nia.
Qed.

End ConvertProofs.

(* ---- the mean of n copies of v is v: over the reals ---- *)
Section MeanReals.
Open Scope R_scope.
Lemma fold_add_repeat (v : R) n acc : fold_left Rplus (repeat v n) acc = acc + INR n * v.
Proof.
  revert acc. induction n as [|n IH]; intros acc.
  - simpl. ring.
  - change (repeat v (S n)) with (v :: repeat v n). cbn [fold_left]. rewrite IH, S_INR. ring.
Qed.

Lemma mean_idem (X : ArithExt RArith) : idempotent_on_constant RArith X AggMean.
Proof.
  intros v n. change (fold_left Rplus (repeat v n) v / IZR (Z.of_nat (length (v :: repeat v n))) = v).
  rewrite fold_add_repeat. simpl length. rewrite repeat_length, <- INR_IZR_INZ, S_INR.
  field. pose proof (pos_INR n). lra.
Qed.
End MeanReals.
