(* C01  The flat simulation (fords/simulators.py::simulate_flat with the anticipated-shock impacts of
   fords/shock_simulators.py) satisfies the model equations in every simulated period, for every
   initial condition and every path of unanticipated and anticipated shocks.
   Continues proofs/FordSquareProofs.v. *)
From Verif Require Import lib.MxC01 gen.FordGen model.Ford proofs.FordProofs proofs.FordSquareProofs.
From mathcomp Require Import all_ssreflect all_algebra.
From mathcomp Require Import ring.
Set Implicit Arguments.
Unset Strict Implicit.
Unset Printing Implicit Defensive.
Import GRing.Theory.
Local Open Scope ring_scope.

(* ------------------------------------------------------------------ stdlib lists vs ssreflect seq *)
Section ListBridge.
Variables (A B : Type).
Lemma map_listE (f : A -> B) l : List.map f l = map f l.
Proof. by elim: l => //= x l ->. Qed.
Lemma seq_listE a n : List.seq a n = iota a n.
Proof. by elim: n a => //= n IH a; rewrite IH. Qed.
Lemma nth_listE (d : A) l n : List.nth n l d = nth d l n.
Proof. by elim: l n => [|x l IH] [|n] //=. Qed.
Lemma length_listE (l : list A) : length l = size l.
Proof. by elim: l => //= x l ->. Qed.
End ListBridge.

(* ------------------------------------------------------------------ sums *)
Section Sums.
Variable F : fieldType.
Variables m n : nat.
Notation O := (MCOps F).

Lemma fold_left_addE (l : seq 'M[F]_(m, n)) z :
  List.fold_left (fun acc x => acc + x) l z = z + \sum_(x <- l) x.
Proof. by elim: l z => [|x l IH] z /=; rewrite ?big_nil ?addr0 // IH big_cons addrA. Qed.

Lemma msumE (l : seq 'M[F]_(m, n)) : @msum O m n l = \sum_(x <- l) x.
Proof. by rewrite /msum /= fold_left_addE add0r. Qed.

(* a sum whose terms vanish from index k0 on can be cut or extended at will *)
Lemma sum_tail0 (f : nat -> 'M[F]_(m, n)) (k0 n1 : nat) :
  (forall k, (k0 <= k)%N -> f k = 0) -> \sum_(0 <= k < n1) f k = \sum_(0 <= k < minn k0 n1) f k.
Proof.
move=> f0; case: (leqP k0 n1) => [le|/ltnW le]; last by [].
rewrite (big_cat_nat _ _ _ (leq0n k0) le) /=.
have -> : \sum_(k0 <= i < n1) f i = 0; last by rewrite addr0.
by rewrite big_nat_cond big1 // => k /andP[/andP[le0 _] _]; exact: f0.
Qed.

End Sums.

(* ================================================================== *)
Section Impacts.
Variable F : fieldType.
Variables nb nf ne : nat.
Notation O := (MCOps F).
Variables (P : 'M[F]_(nb, ne)) (X : 'M[F]_(nb, nf)) (J : 'M[F]_nf) (Ru : 'M[F]_(nf, ne)).

Notation Jpow := (@mpow O nf J).

(* the anticipation term at the period BEFORE the head of the list:
   a[t-1] = Ru v[t] + J a[t]    (backward recursion over the anticipated shocks still to come) *)
Definition ant (vs : seq 'cV[F]_ne) : 'cV[F]_nf := foldr (fun v acc => Ru *m v + J *m acc) 0 vs.

(* forward expansion, by induction over the horizon: a[t-1] = sum_k J^k Ru v[t+k] *)
Lemma ant_closed vs : ant vs = \sum_(0 <= k < size vs) Jpow k *m Ru *m nth 0 vs k.
Proof.
elim: vs => [|v r IH]; first by rewrite big_geq.
rewrite /= big_nat_recl //= mul1mx IH mulmx_sumr big_nat; congr (_ + _).
by rewrite [RHS]big_nat; apply: eq_bigr => k _; rewrite !mulmxA.
Qed.

Lemma ant_zeros vs : (forall s, nth 0 vs s = 0) -> ant vs = 0.
Proof. by move=> z; rewrite ant_closed big1 // => k _; rewrite z mulmx0. Qed.

(* if no anticipated shock occurs after column [fwd], the expansion can stop there *)
Lemma ant_trunc vs fwd t :
  (forall s, (fwd < s)%N -> nth 0 vs s = 0) ->
  ant (drop t.+1 vs) = \sum_(0 <= k < (fwd - t)%N) Jpow k *m Ru *m nth 0 vs (t.+1 + k)%N.
Proof.
move=> z; rewrite ant_closed.
pose f k := Jpow k *m Ru *m nth 0 vs (t.+1 + k)%N.
have -> : \sum_(0 <= k < size (drop t.+1 vs)) Jpow k *m Ru *m nth 0 (drop t.+1 vs) k
        = \sum_(0 <= k < size (drop t.+1 vs)) f k.
  by apply: eq_bigr => k _; rewrite /f nth_drop.
have f0 k : (fwd - t <= k)%N -> f k = 0.
  by move=> le; rewrite /f z ?mulmx0 // addSn ltnS -leq_subLR.
have f1 k : (size (drop t.+1 vs) <= k)%N -> f k = 0.
  move=> le; rewrite /f nth_default ?mulmx0 //.
  by move: le; rewrite size_drop leq_subLR.
set n1 := size _ in f1 *.
rewrite (@sum_tail0 _ _ _ f _ n1 f0) [RHS](@sum_tail0 _ _ _ f _ (fwd - t)%N f1).
by rewrite minnC.
Qed.

(* ---- last_true *)
Lemma last_true_spec (l : seq bool) i acc r :
  last_true l i acc = r ->
  (r = acc /\ all negb l) \/
  (exists k, [/\ (k < size l)%N, r = Some (i + k)%N, nth false l k & forall k', (k < k')%N -> ~~ nth false l k']).
Proof.
elim: l i acc => [|b l IH] i acc /=; first by move=> <-; left.
move=> /IH [[-> al]|[k [lt -> nk after]]].
- case: b => /=; last by left.
  right; exists 0%N; split=> //; first by rewrite addn0.
  by case=> // k' _; move/all_nthP: al => /(_ false k'); case: (ltnP k' (size l)) => [lt /(_ isT) //|ge _];
     rewrite nth_default.
- right; exists k.+1; split=> //; first by rewrite addSnnS.
  by case=> // k'; rewrite ltnS; exact: after.
Qed.

Definition imp_val (o : option 'cV[F]_nb) : 'cV[F]_nb := if o is Some i then i else 0.

Lemma nth_expansion fwd k : (k < fwd)%N ->
  nth 0 (@expansion O nb nf ne P X J Ru fwd) k.+1 = (- X) *m Jpow k *m Ru.
Proof.
move=> lt; rewrite /expansion /= map_listE seq_listE (nth_map 0%N) ?size_iota // nth_iota //.
Qed.

(* Theorem (anticipated shocks): the impact the code adds in column t is  P v[t] - X a[t],
   a[t] = sum_{k>=1} J^(k-1) Ru v[t+k]  *)
Theorem impacts_spec (vs : seq 'cV[F]_ne) t : (t < size vs)%N ->
  let imps := @anticipated_impacts O nb nf ne P X J Ru vs in
  size imps = size vs /\
  imp_val (nth None imps t) = P *m nth 0 vs t - X *m ant (drop t.+1 vs).
Proof.
move=> lt_t; rewrite /anticipated_impacts.
case E: (last_true _ _ _) => [fwd|] /=.
- have [[] //|[k [ltk [->] nk after]]] := last_true_spec E.
  rewrite add0n in E *.
  have z s : (k < s)%N -> nth 0 vs s = 0.
    move=> /after; rewrite map_listE.
    case: (ltnP s (size vs)) => [lts|ge _]; last by rewrite nth_default.
    by rewrite (nth_map 0) //= negbK => /eqP.
  rewrite !map_listE seq_listE length_listE size_map size_iota; split=> //.
  rewrite (nth_map 0%N) ?size_iota // nth_iota // add0n /= /impact_at msumE map_listE seq_listE big_map.
  have -> : iota 0 ((k + 1)%coq_nat - t)%coq_nat = index_iota 0 (k + 1 - t)%N by rewrite /index_iota subn0.
  rewrite (ant_trunc t z).
  under eq_bigr do rewrite !nth_listE plusE.
  case: (leqP t k) => [le|gt].
  + have -> : (k + 1 - t = (k - t).+1)%N by rewrite addn1 subSn.
    rewrite big_nat_recl // addn0 /= mulmx_sumr; congr (_ + _).
    rewrite -sumrN big_nat [RHS]big_nat; apply: eq_bigr => j /andP[_ ltj].
    have ltk' : (j < k)%N by apply: leq_trans ltj _; rewrite leq_subr.
    rewrite map_listE seq_listE (nth_map 0%N) ?size_iota // nth_iota // add0n /expansion_term /=.
    by rewrite addnS addSn !mulmxA !mulNmx.
  + have -> : (k + 1 - t = 0)%N by apply/eqP; rewrite subn_eq0 addn1.
    have -> : (k - t = 0)%N by apply/eqP; rewrite subn_eq0 ltnW.
    by rewrite !big_geq // z // !mulmx0 subr0.
- have [[_ al]|[k [_ //]]] := last_true_spec E.
  have z s : nth 0 vs s = 0.
    case: (ltnP s (size vs)) => [lts|ge]; last by rewrite nth_default.
    move/all_nthP: al => /(_ false s); rewrite map_listE size_map => /(_ lts).
    by rewrite (nth_map 0) //= negbK => /eqP.
  rewrite map_listE size_map; split=> //.
  rewrite (nth_map 0) //= z mulmx0 ant_zeros ?mulmx0 ?subr0 // => s.
  by rewrite nth_drop z.
Qed.

End Impacts.

(* ================================================================== *)
Section FlatRun.
Variable F : fieldType.
Variables nb ne : nat.
Notation O := (MCOps F).
Variables (T : 'M[F]_nb) (P : 'M[F]_(nb, ne)).

Lemma flat_stepE (K : 'cV[F]_nb) xi u o :
  @flat_step O nb ne T K P xi u o = T *m xi + K + P *m u + imp_val o.
Proof. by case: o => [i|] /=; rewrite ?addr0. Qed.

Variable K : 'cV[F]_nb.

Lemma size_flat_run xi us imps :
  size (@flat_run O nb ne T K P xi us imps) = minn (size us) (size imps).
Proof.
elim: us xi imps => [|u us IH] xi [|i imps] //=.
by rewrite IH minnSS.
Qed.

(* the fold, period by period: xi[t] is one step from xi[t-1] (xi[-1] = the initial condition) *)
Lemma nth_flat_run xi us imps t : (t < minn (size us) (size imps))%N ->
  let xis := @flat_run O nb ne T K P xi us imps in
  nth 0 xis t = @flat_step O nb ne T K P (nth 0 (xi :: xis) t) (nth 0 us t) (nth None imps t).
Proof.
elim: us xi imps t => [|u us IH] xi [|i imps] t //=.
by case: t => [|t] //=; rewrite minnSS ltnS => /IH.
Qed.

(* level = steady state + deviation, period by period, whenever the steady vector is a fixed point *)
Lemma flat_run_level xbar d us imps : T *m xbar + K = xbar ->
  @flat_run O nb ne T K P (xbar + d) us imps
  = map (fun x => xbar + x) (@flat_run O nb ne T 0 P d us imps).
Proof.
move=> fx; elim: us d imps => [|u us IH] d [|i imps] //=.
have -> : @flat_step O nb ne T K P (xbar + d) u i = xbar + @flat_step O nb ne T 0 P d u i.
  rewrite !flat_stepE mulmxDr addr0 -{2}fx.
  move: (T *m xbar) (T *m d) (P *m u) (imp_val i) => a b c e; mx_abel.
by rewrite IH.
Qed.

(* the same along a steady-state PATH xb (balanced growth: xb (t+1) = T xb t + K): the level run started at
   xb k + d is the path plus the deviation run, period by period *)
Fixpoint shift_path (xb : nat -> 'cV[F]_nb) (k : nat) (devs : seq 'cV[F]_nb) : seq 'cV[F]_nb :=
  if devs is x :: r then (xb k.+1 + x) :: shift_path xb k.+1 r else [::].

Lemma nth_shift_path xb k devs t : (t < size devs)%N ->
  nth 0 (shift_path xb k devs) t = xb (k + t).+1 + nth 0 devs t.
Proof.
elim: devs k t => [|x r IH] k [|t] //=; first by rewrite addn0.
by rewrite ltnS => /IH ->; rewrite addSnnS.
Qed.

Lemma size_shift_path xb k devs : size (shift_path xb k devs) = size devs.
Proof. by elim: devs k => //= x r IH k; rewrite IH. Qed.

Lemma flat_run_level_path (xb : nat -> 'cV[F]_nb) k d us imps : (forall t, T *m xb t + K = xb t.+1) ->
  @flat_run O nb ne T K P (xb k + d) us imps = shift_path xb k (@flat_run O nb ne T 0 P d us imps).
Proof.
move=> fx; elim: us k d imps => [|u us IH] k d [|i imps] //=.
have -> : @flat_step O nb ne T K P (xb k + d) u i = xb k.+1 + @flat_step O nb ne T 0 P d u i.
  rewrite !flat_stepE mulmxDr addr0 -fx.
  move: (T *m xb k) (T *m d) (P *m u) (imp_val i) => a b c e; mx_abel.
by rewrite IH.
Qed.

End FlatRun.

(* ================================================================== *)
(* Frame-by-frame simulation (force_split_frames=True) returns the path of the flat simulation *)
Section SplitFrames.
Variable F : fieldType.
Variables nb nf ne : nat.
Notation O := (MCOps F).
Variables (T : 'M[F]_nb) (P : 'M[F]_(nb, ne)) (X : 'M[F]_(nb, nf)) (J : 'M[F]_nf) (Ru : 'M[F]_(nf, ne)).

(* a list of impacts is as good as the one the code computes for the columns vs *)
Definition imps_ok (vs : seq 'cV[F]_ne) (imps : seq (option 'cV[F]_nb)) : Prop :=
  size imps = size vs /\
  forall t, (t < size vs)%N -> imp_val (nth None imps t) = P *m nth 0 vs t - X *m ant J Ru (drop t.+1 vs).

Lemma imps_ok_impacts vs : imps_ok vs (@anticipated_impacts O nb nf ne P X J Ru vs).
Proof.
split; first by case: vs => [|v vs] //; have [] := @impacts_spec F nb nf ne P X J Ru (v :: vs) 0%N isT.
by move=> t lt; have [] := @impacts_spec F nb nf ne P X J Ru vs t lt.
Qed.

Lemma imps_ok_tail v vs i imps : imps_ok (v :: vs) (i :: imps) -> imps_ok vs imps.
Proof. by move=> [[sz] ok]; split=> // t lt; have := ok t.+1 lt. Qed.

Lemma imps_ok_head v vs i imps : imps_ok (v :: vs) (i :: imps) -> imp_val i = P *m v - X *m ant J Ru vs.
Proof. by move=> [_ /(_ 0%N isT)] /=; rewrite drop0. Qed.

Lemma imps_ok_cons v vs imps : imps_ok (v :: vs) imps -> exists i r, imps = i :: r.
Proof. by case: imps => [[]|i r _] //; exists i, r. Qed.

Lemma split_go_flat (K : 'cV[F]_nb) (us : seq 'cV[F]_ne) : forall first xi plan vs imps,
  size us = size vs -> imps_ok vs imps ->
  (~~ first -> exists2 imps', imps_ok vs imps' & plan = @flat_run O nb ne T K P xi (nseq (size us) 0) imps') ->
  @split_go O nb nf ne T K P X J Ru first xi plan us vs = @flat_run O nb ne T K P xi us imps.
Proof.
elim: us => [|u us IH] first xi plan [|v vs] imps //= [sz] ok pl.
have [i [imps_t Ei]] := imps_ok_cons ok; subst imps.
have hd_i := imps_ok_head ok; have ok_t := imps_ok_tail ok.
case start: (first || ~~ (u == 0)).
- (* a frame starts here *)
  have ok0 := imps_ok_impacts (v :: vs).
  have [i0 [r0 E0]] := imps_ok_cons ok0; rewrite E0 in ok0 *.
  rewrite /= -/(flat_step O T K P xi u i0).
  have -> : @flat_step O nb ne T K P xi u i0 = @flat_step O nb ne T K P xi u i.
    by rewrite !flat_stepE hd_i (imps_ok_head ok0).
  congr (_ :: _); apply: IH => //.
  move=> _; exists r0; first exact: (imps_ok_tail ok0).
  by rewrite map_listE; congr (flat_run _ _ _ _ _ _); elim: (us) => //= a l ->.
- (* inside a frame: the unanticipated shock is zero and the plan of the frame is followed *)
  move: start => /norP [nf_ /negPn /eqP u0].
  have [imps' ok' ->] := pl nf_.
  have [i' [r' E']] := imps_ok_cons ok'; rewrite E' in ok' *.
  rewrite /= -/(flat_step O T K P xi 0 i').
  have -> : @flat_step O nb ne T K P xi 0 i' = @flat_step O nb ne T K P xi u i.
    by rewrite !flat_stepE hd_i (imps_ok_head ok') u0.
  congr (_ :: _); apply: IH => //.
  by move=> _; exists r'; first exact: (imps_ok_tail ok').
Qed.

Theorem split_frames_equal_flat (K : 'cV[F]_nb) deviation (true_init : nat -> bool) (init : 'cV[F]_nb) (us vs : seq 'cV[F]_ne) :
  size us = size vs ->
  @simulate_split O nb nf ne deviation true_init T P K X J Ru init us vs
  = @simulate_flat O nb nf ne deviation true_init T P K X J Ru init us vs.
Proof.
move=> sz; rewrite /simulate_split /simulate_flat.
by case: deviation; apply: split_go_flat => //; exact: imps_ok_impacts.
Qed.

End SplitFrames.
