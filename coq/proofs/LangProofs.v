(* Proofs about the model of the model-source compiler (model/Lang.v). *)
From Coq Require Import ZArith List String Bool Lia Ring.
From Verif Require Import lib.PyRange lib.LangSyntax gen.PseudoGen model.Lang.
Import ListNotations.
Open Scope Z_scope.

#[local] Arguments lookup_pseudo : simpl never.
#[local] Arguments shift_name_new : simpl never.
#[local] Arguments pseudo_sem : simpl never.
#[local] Opaque big_fuel.

(* ------------------------------------------------------------------ *)
(* induction over expressions (the argument list of a call is nested) *)
(* ------------------------------------------------------------------ *)
Section CexprInd.
Context {N : Type}.
Variable P : cexpr N -> Prop.
Hypothesis Hname : forall n k, P (CName n k).
Hypothesis Hnum : forall m d, P (CNum m d).
Hypothesis Hbin : forall o a b, P a -> P b -> P (CBin o a b).
Hypothesis Hneg : forall a, P a -> P (CNeg a).
Hypothesis Hcall : forall f args, Forall P args -> P (CCall f args).
Hypothesis Hparen : forall a, P a -> P (CParen a).
Hypothesis Hpseudo : forall f a k, P a -> P (CPseudo f a k).

Fixpoint cexpr_ind' (e : cexpr N) : P e :=
  match e with
  | CName n k => Hname n k
  | CNum m d => Hnum m d
  | CBin o a b => Hbin o a b (cexpr_ind' a) (cexpr_ind' b)
  | CNeg a => Hneg a (cexpr_ind' a)
  | CCall f args =>
      Hcall f args ((fix go (l : list (cexpr N)) : Forall P l :=
                       match l with
                       | [] => Forall_nil P
                       | x :: r => Forall_cons x (cexpr_ind' x) (go r)
                       end) args)
  | CParen a => Hparen a (cexpr_ind' a)
  | CPseudo f a k => Hpseudo f a k (cexpr_ind' a)
  end.
End CexprInd.

Lemma map_ext_Forall {A B} (f g : A -> B) (l : list A) :
  Forall (fun x => f x = g x) l -> map f l = map g l.
Proof. induction 1; simpl; congruence. Qed.

(* ------------------------------------------------------------------ *)
(* 1. shifting                                                         *)
(* ------------------------------------------------------------------ *)
Lemma shift_name_new_spec : forall k b, shift_name_new k b = k + b.
Proof.
  intros k b. unfold shift_name_new.
  destruct (Z.eqb_spec b 0); simpl; lia.
Qed.

Section SemLemmas.
Variable C : carrier.
Notation V := (val C).
Context {N : Type}.

Lemma window_ext (op : V -> V -> V) (f g : Z -> V) st n :
  (forall j, f j = g j) -> window C op f st n = window C op g st n.
Proof. intros H. induction n; simpl; [apply H | rewrite IHn, H; reflexivity]. Qed.

Lemma pseudo_sem_ext p s (f g : Z -> V) :
  (forall j, f j = g j) -> pseudo_sem C p s f = pseudo_sem C p s g.
Proof.
  intros H. unfold pseudo_sem.
  destruct p; rewrite ?H; try reflexivity;
    destruct (Z.to_nat (Z.abs s)); try reflexivity; rewrite (window_ext _ f g); auto.
Qed.

(* Theorem 1: shifting all names moves the date *)
Theorem shiftE_sem (rho : N -> Z -> V) (e : cexpr N) :
  forall by_ t, sem C rho (shiftE by_ e) t = sem C rho e (t + by_).
Proof.
  induction e using cexpr_ind'; intros by_ t; simpl.
  - rewrite shift_name_new_spec. f_equal. lia.
  - reflexivity.
  - rewrite IHe1, IHe2. reflexivity.
  - rewrite IHe. reflexivity.
  - f_equal. rewrite map_map. apply map_ext_Forall.
    eapply Forall_impl; [| exact H]. simpl. intros a Ha. apply Ha.
  - apply IHe.
  - destruct (lookup_pseudo pseudo_resolution f) as [[p dfl]|].
    + apply pseudo_sem_ext. intros j. rewrite IHe. f_equal. lia.
    + rewrite IHe. reflexivity.
Qed.

Lemma sem_ext (rho rho' : N -> Z -> V) (e : cexpr N) :
  (forall n t, rho n t = rho' n t) -> forall t, sem C rho e t = sem C rho' e t.
Proof.
  intros H. induction e using cexpr_ind'; intros t; simpl.
  - apply H.
  - reflexivity.
  - rewrite IHe1, IHe2. reflexivity.
  - rewrite IHe. reflexivity.
  - f_equal. apply map_ext_Forall. eapply Forall_impl; [| exact H0]. simpl. intros a Ha. apply Ha.
  - apply IHe.
  - destruct (lookup_pseudo pseudo_resolution f) as [[p dfl]|].
    + apply pseudo_sem_ext. intros j. apply IHe.
    + rewrite IHe. reflexivity.
Qed.

(* parentheses have no meaning of their own *)
Lemma strip_sem (rho : N -> Z -> V) (e : cexpr N) : forall t, sem C rho (strip e) t = sem C rho e t.
Proof.
  induction e using cexpr_ind'; intros t; simpl; try reflexivity.
  - rewrite IHe1, IHe2. reflexivity.
  - rewrite IHe. reflexivity.
  - f_equal. rewrite map_map. apply map_ext_Forall. eapply Forall_impl; [| exact H]. simpl. intros a Ha. apply Ha.
  - apply IHe.
  - destruct (lookup_pseudo pseudo_resolution f) as [[p dfl]|].
    + apply pseudo_sem_ext. intros j. apply IHe.
    + rewrite IHe. reflexivity.
Qed.

End SemLemmas.

(* ------------------------------------------------------------------ *)
(* 2. pseudofunction expansion                                         *)
(* ------------------------------------------------------------------ *)

(* the generated case analysis of _pseudo_mov, in closed form *)
Lemma mov_sequence_spec : forall s,
  mov_sequence s =
    if s =? 0 then ([(TNum 0, 0)], 0)
    else if (s =? 1) || (s =? -1) then ([(TCode, 0)], 1)
    else (map (fun sh => (TParen TShifted, sh)) (py_range 0 s (sgn s)), Z.abs s).
Proof.
  intros s. unfold mov_sequence, sgn.
  destruct (s =? 0) eqn:E0; [reflexivity|].
  destruct ((s =? 1) || (s =? -1)) eqn:E1; [reflexivity|].
  destruct (Z.gtb_spec s 0).
  - rewrite Z.abs_eq by lia. reflexivity.
  - rewrite Z.abs_neq by lia. reflexivity.
Qed.

Lemma py_range_window : forall s, s <> 0 ->
  py_range 0 s (sgn s) = map (fun i => Z.of_nat i * sgn s) (seq 0 (Z.to_nat (Z.abs s))).
Proof.
  intros s Hs. unfold py_range, py_range_len, sgn.
  destruct (Z.gtb_spec s 0).
  - change (1 >? 0) with true. cbv iota.
    replace (s - 0 + 1 - 1) with s by lia. rewrite Z.div_1_r, Z.max_r by lia.
    rewrite Z.abs_eq by lia. apply map_ext. intros; lia.
  - destruct (Z.eqb_spec s 0); [contradiction|].
    change (-1 >? 0) with false. change (-1 <? 0) with true. cbv iota.
    replace (0 - s - -1 - 1) with (- s) by lia. change (- -1) with 1. rewrite Z.div_1_r, Z.max_r by lia.
    rewrite Z.abs_neq by lia. apply map_ext. intros; lia.
Qed.

Section Expand.
Variable C : carrier.
Notation V := (val C).
Context {N : Type}.
Variable rho : N -> Z -> V.

Lemma join_sem o (e : cexpr N) r t :
  sem C rho (join o (e :: r)) t = fold_left (vbin C o) (map (fun x => sem C rho x t) r) (sem C rho e t).
Proof.
  unfold join. revert e. induction r as [|x r IH]; intros e; simpl; [reflexivity|].
  rewrite IH. reflexivity.
Qed.

Lemma fold_window (op : V -> V -> V) (f : Z -> V) st m :
  fold_left op (map (fun i => f (Z.of_nat i * st)) (seq 1 m)) (f 0) = window C op f st m.
Proof.
  induction m as [|m IH]; [reflexivity|].
  rewrite seq_S, map_app, fold_left_app, IH. reflexivity.
Qed.

(* the chain produced by "op".join over the window of |s| >= 2 terms *)
Lemma mov_join_sem o (a : cexpr N) s t : s <> 0 ->
  let elems := map (fun ts : tpl * Z => inst (fst ts) a (snd ts) no_join 0)
                   (map (fun sh => (TParen TShifted, sh)) (py_range 0 s (sgn s))) in
  sem C rho (join o elems) t =
    match Z.to_nat (Z.abs s) with
    | O => vnum C 0 0
    | S m => window C (vbin C o) (fun j => sem C rho a (t + j)) (sgn s) m
    end.
Proof.
  intros Hs elems. subst elems. rewrite py_range_window by assumption.
  destruct (Z.to_nat (Z.abs s)) as [|m] eqn:En; [lia|].
  rewrite <- cons_seq. rewrite !map_map. cbn [map]. rewrite join_sem.
  rewrite <- seq_shift, !map_map.
  cbn [fst snd inst sem]. rewrite shiftE_sem.
  rewrite <- (fold_window (vbin C o) (fun j => sem C rho a (t + j)) (sgn s) m).
  rewrite <- seq_shift, map_map. f_equal.
  apply map_ext. intros i. cbn [fst snd inst sem]. rewrite shiftE_sem. reflexivity.
Qed.

Variable vinv : V -> V.
Hypothesis Rth : ring_theory (vnum C 0 0) (vnum C 1 0) (vadd C) (vmul C) (vsub C) (vneg C) eq.
Hypothesis div_def : forall x y, vdiv C x y = vmul C x (vinv y).
Add Ring Vring : Rth.

(* every builder's string, instantiated, denotes the documented formula *)
Lemma expand_call_sem p s (a : cexpr N) t :
  sem C rho (expand_call p s a) t = pseudo_sem C p s (fun j => sem C rho a (t + j)).
Proof.
  unfold expand_call. rewrite mov_sequence_spec.
  destruct (Z.eqb_spec s 0) as [E0|E0].
  { subst s. destruct p; unfold pseudo_sem; cbn; rewrite ?shiftE_sem, ?Z.add_0_r; try reflexivity.
    rewrite !div_def. ring. }
  destruct ((s =? 1) || (s =? -1)) eqn:E1.
  { assert (Ha : Z.to_nat (Z.abs s) = 1%nat) by (destruct (Z.eqb_spec s 1); destruct (Z.eqb_spec s (-1)); try discriminate; subst; reflexivity).
    assert (Hab : Z.abs s = 1) by lia.
    destruct p; unfold pseudo_sem; rewrite ?Ha, ?Hab; cbn; rewrite ?shiftE_sem, ?Z.add_0_r; try reflexivity.
    rewrite !div_def. ring. }
  destruct p; try (unfold pseudo_sem; cbn; rewrite ?shiftE_sem, ?Z.add_0_r; try reflexivity; rewrite !div_def; ring).
  - unfold pseudo_sem. cbn [pseudo_template tpl_Pmovsum inst sem]. rewrite (mov_join_sem Add a s t E0). reflexivity.
  - unfold pseudo_sem. cbn [pseudo_template tpl_Pmovavg inst sem vbin]. rewrite (mov_join_sem Add a s t E0). reflexivity.
  - unfold pseudo_sem. cbn [pseudo_template tpl_Pmovprod inst sem]. rewrite (mov_join_sem Mul a s t E0). reflexivity.
Qed.

(* Theorem 2: resolving the pseudofunctions does not change the meaning *)
Theorem expand_sem (e : cexpr N) : forall t, sem C rho (expand e) t = sem C rho e t.
Proof.
  induction e using cexpr_ind'; intros t; simpl; try reflexivity.
  - rewrite IHe1, IHe2. reflexivity.
  - rewrite IHe. reflexivity.
  - f_equal. rewrite map_map. apply map_ext_Forall. eapply Forall_impl; [| exact H]. simpl. intros a Ha. apply Ha.
  - apply IHe.
  - destruct (lookup_pseudo pseudo_resolution f) as [[p dfl]|] eqn:El.
    + rewrite expand_call_sem. apply pseudo_sem_ext. intros j. apply IHe.
    + simpl. rewrite El, IHe. reflexivity.
Qed.

End Expand.

(* ------------------------------------------------------------------ *)
(* 3. compiled equations (xtring)                                      *)
(* ------------------------------------------------------------------ *)
Section Xtring.
Variable C : carrier.
Notation V := (val C).
Hypothesis Rth : ring_theory (vnum C 0 0) (vnum C 1 0) (vadd C) (vmul C) (vsub C) (vneg C) eq.
Add Ring Vring2 : Rth.

Section Generic.
Context {N : Type}.
Variable rho : N -> Z -> V.

(* -(lhs) glued in front of the bare rhs text *)
Lemma graft_sem (n r : cexpr N) t : sem C rho (graft n r) t = vadd C (sem C rho n t) (sem C rho r t).
Proof.
  induction r using cexpr_ind'; try reflexivity.
  destruct o; try reflexivity; simpl; rewrite IHr1; simpl; ring.
Qed.

Lemma residual_sem (l r : cexpr N) t :
  sem C rho (residual l r) t = vsub C (sem C rho r t) (sem C rho l t).
Proof. unfold residual. rewrite graft_sem. simpl. ring. Qed.

Definition tails_value (t : Z) (base : V) (tails : list (bool * cexpr N)) : V :=
  fold_left (fun acc (st : bool * cexpr N) => if fst st then vadd C acc (sem C rho (snd st) t) else vsub C acc (sem C rho (snd st) t))
            tails base.

Lemma add_tails_sem (base : cexpr N) tails t :
  sem C rho (add_tails base tails) t = tails_value t (sem C rho base t) tails.
Proof.
  unfold add_tails, tails_value. revert base.
  induction tails as [|[b e] r IH]; intros base; simpl; [reflexivity|].
  rewrite IH. destruct b; reflexivity.
Qed.
End Generic.

(* every transition shock e stands for e + ant_e in a dynamic transition equation *)
Definition rho_ant (shocks : list string) (rho : string -> Z -> V) : string -> Z -> V :=
  fun n k => if mem_s n shocks then vadd C (rho n k) (rho (append ant_prefix n) k) else rho n k.

Lemma ant_subst_sem shocks (rho : string -> Z -> V) (e : sexpr) :
  forall t, sem C rho (ant_subst shocks e) t = sem C (rho_ant shocks rho) e t.
Proof.
  induction e using cexpr_ind'; intros t; simpl.
  - unfold rho_ant. destruct (mem_s n shocks); reflexivity.
  - reflexivity.
  - rewrite IHe1, IHe2. reflexivity.
  - rewrite IHe. reflexivity.
  - f_equal. rewrite map_map. apply map_ext_Forall. eapply Forall_impl; [| exact H]. simpl. intros a Ha. apply Ha.
  - apply IHe.
  - destruct (lookup_pseudo pseudo_resolution f) as [[p dfl]|].
    + apply pseudo_sem_ext. intros j. apply IHe.
    + rewrite IHe. reflexivity.
Qed.

Lemma ant_rho_no_shocks (rho : string -> Z -> V) : forall n k, rho_ant [] rho n k = rho n k.
Proof. reflexivity. Qed.

(* names -> quantity ids *)
Section Names.
Context {N M : Type}.
Variable f : N -> option M.
Variable X : M -> Z -> V.
Definition rho_names : N -> Z -> V := fun n k => match f n with Some m => X m k | None => vnum C 0 0 end.

Lemma map_names_sem (e : cexpr N) : forall x, map_names f e = Some x ->
  forall t, sem C X x t = sem C rho_names e t.
Proof.
  induction e using cexpr_ind'; intros x Hx t; simpl in Hx.
  - unfold rho_names. simpl. destruct (f n); inversion Hx; reflexivity.
  - inversion Hx; reflexivity.
  - destruct (map_names f e1) eqn:E1; [|discriminate]. destruct (map_names f e2) eqn:E2; [|discriminate].
    inversion Hx; subst. simpl. rewrite (IHe1 _ eq_refl), (IHe2 _ eq_refl). reflexivity.
  - destruct (map_names f e) eqn:E1; [|discriminate]. inversion Hx; subst. simpl. rewrite (IHe _ eq_refl). reflexivity.
  - match type of Hx with match ?G args with _ => _ end = _ => set (go := G) in * end.
    destruct (go args) as [args'|] eqn:Eg; [|discriminate]. inversion Hx; subst. simpl. f_equal.
    clear Hx. revert args' Eg. induction H as [|a l Ha Hl IH]; intros args' Eg.
    + simpl in Eg. inversion Eg. reflexivity.
    + simpl in Eg. destruct (map_names f a) eqn:Ea; [|discriminate].
      destruct (go l) eqn:El; [|discriminate]. inversion Eg; subst. simpl.
      rewrite (Ha _ eq_refl). f_equal. apply IH. reflexivity.
  - destruct (map_names f e) eqn:E1; [|discriminate]. inversion Hx; subst. simpl. apply (IHe _ eq_refl).
  - destruct (map_names f e) eqn:E1; [|discriminate]. inversion Hx; subst. simpl.
    destruct (lookup_pseudo pseudo_resolution f0) as [[p dfl]|].
    + apply pseudo_sem_ext. intros j. apply (IHe _ eq_refl).
    + rewrite (IHe _ eq_refl). reflexivity.
Qed.
End Names.

(* the data a compiled equation reads: X qid date;  names are looked up in id order *)
Definition rho_model (names shocks : list string) (X : Z -> Z -> V) : string -> Z -> V :=
  rho_ant shocks (rho_names (fun n => index_of n names 0) X).

(* Theorem 3: the compiled equation denotes rhs - lhs of the equation as written after macro
   expansion (l, r), with every transition shock of a dynamic transition equation read as
   shock + anticipated shock *)
Theorem xtring_sem cx subs be names shocks s l r x :
  side_written cx subs be s = Some (l, r) ->
  compile_side cx subs be names shocks s = Some x ->
  forall (X : Z -> Z -> V) t,
    sem C X x t = vsub C (sem C (rho_model names shocks X) r t) (sem C (rho_model names shocks X) l t).
Proof.
  intros Hw Hc X t. unfold compile_side in Hc. rewrite Hw in Hc.
  rewrite (map_names_sem _ X _ _ Hc t), strip_sem, residual_sem, !ant_subst_sem. reflexivity.
Qed.

End Xtring.
