(* Proofs about the model of the model-source compiler (model/Lang.v). *)
From Coq Require Import ZArith List String Bool Lia Ring.
From Verif Require Import lib.PyRange lib.LangSyntax gen.PseudoGen model.Lang.
Import ListNotations.
Open Scope Z_scope.

#[local] Arguments lookup_pseudo : simpl never.
#[local] Arguments shift_name_new : simpl never.
#[local] Arguments pseudo_sem : simpl never.

(* ------------------------------------------------------------------ *)
(* induction over expressions (the argument list of a call is nested) *)
(* ------------------------------------------------------------------ *)
Section CexprInd.
Context {N : Type}.
Variable P : cexpr N -> Prop.
Hypothesis Hname : forall n k, P (CName n k).
Hypothesis Hnum : forall m d, P (CNum m d).
Hypothesis Hbin : forall o a b, P a -> P b -> P (CBin o a b).
Hypothesis Hneg : forall a, P a -> P (CNeg a).
Hypothesis Hcall : forall f args, Forall P args -> P (CCall f args).
Hypothesis Hparen : forall a, P a -> P (CParen a).
Hypothesis Hpseudo : forall f a k, P a -> P (CPseudo f a k).

Fixpoint cexpr_ind' (e : cexpr N) : P e :=
  match e with
  | CName n k => Hname n k
  | CNum m d => Hnum m d
  | CBin o a b => Hbin o a b (cexpr_ind' a) (cexpr_ind' b)
  | CNeg a => Hneg a (cexpr_ind' a)
  | CCall f args =>
      Hcall f args ((fix go (l : list (cexpr N)) : Forall P l :=
                       match l with
                       | [] => Forall_nil P
                       | x :: r => Forall_cons x (cexpr_ind' x) (go r)
                       end) args)
  | CParen a => Hparen a (cexpr_ind' a)
  | CPseudo f a k => Hpseudo f a k (cexpr_ind' a)
  end.
End CexprInd.

Lemma map_ext_Forall {A B} (f g : A -> B) (l : list A) :
  Forall (fun x => f x = g x) l -> map f l = map g l.
Proof. induction 1; simpl; congruence. Qed.

(* ------------------------------------------------------------------ *)
(* 1. shifting                                                         *)
(* ------------------------------------------------------------------ *)
Lemma shift_name_new_spec : forall k b, shift_name_new k b = k + b.
Proof.
  intros k b. unfold shift_name_new.
  destruct (Z.eqb_spec b 0); simpl; lia.
Qed.

Section SemLemmas.
Variable C : carrier.
Notation V := (val C).
Context {N : Type}.

Lemma window_ext (op : V -> V -> V) (f g : Z -> V) st n :
  (forall j, f j = g j) -> window C op f st n = window C op g st n.
Proof. intros H. induction n; simpl; [apply H | rewrite IHn, H; reflexivity]. Qed.

Lemma pseudo_sem_ext p s (f g : Z -> V) :
  (forall j, f j = g j) -> pseudo_sem C p s f = pseudo_sem C p s g.
Proof.
  intros H. unfold pseudo_sem.
  destruct p; rewrite ?H; try reflexivity;
    destruct (Z.to_nat (Z.abs s)); try reflexivity; rewrite (window_ext _ f g); auto.
Qed.

(* Theorem 1: shifting all names moves the date *)
Theorem shiftE_sem (rho : N -> Z -> V) (e : cexpr N) :
  forall by_ t, sem C rho (shiftE by_ e) t = sem C rho e (t + by_).
Proof.
  induction e using cexpr_ind'; intros by_ t; simpl.
  - rewrite shift_name_new_spec. f_equal. lia.
  - reflexivity.
  - rewrite IHe1, IHe2. reflexivity.
  - rewrite IHe. reflexivity.
  - f_equal. rewrite map_map. apply map_ext_Forall.
    eapply Forall_impl; [| exact H]. simpl. intros a Ha. apply Ha.
  - apply IHe.
  - destruct (lookup_pseudo pseudo_resolution f) as [[p dfl]|].
    + apply pseudo_sem_ext. intros j. rewrite IHe. f_equal. lia.
    + rewrite IHe. reflexivity.
Qed.

Lemma sem_ext (rho rho' : N -> Z -> V) (e : cexpr N) :
  (forall n t, rho n t = rho' n t) -> forall t, sem C rho e t = sem C rho' e t.
Proof.
  intros H. induction e using cexpr_ind'; intros t; simpl.
  - apply H.
  - reflexivity.
  - rewrite IHe1, IHe2. reflexivity.
  - rewrite IHe. reflexivity.
  - f_equal. apply map_ext_Forall. eapply Forall_impl; [| exact H0]. simpl. intros a Ha. apply Ha.
  - apply IHe.
  - destruct (lookup_pseudo pseudo_resolution f) as [[p dfl]|].
    + apply pseudo_sem_ext. intros j. apply IHe.
    + rewrite IHe. reflexivity.
Qed.

(* parentheses have no meaning of their own *)
Lemma strip_sem (rho : N -> Z -> V) (e : cexpr N) : forall t, sem C rho (strip e) t = sem C rho e t.
Proof.
  induction e using cexpr_ind'; intros t; simpl; try reflexivity.
  - rewrite IHe1, IHe2. reflexivity.
  - rewrite IHe. reflexivity.
  - f_equal. rewrite map_map. apply map_ext_Forall. eapply Forall_impl; [| exact H]. simpl. intros a Ha. apply Ha.
  - apply IHe.
  - destruct (lookup_pseudo pseudo_resolution f) as [[p dfl]|].
    + apply pseudo_sem_ext. intros j. apply IHe.
    + rewrite IHe. reflexivity.
Qed.

End SemLemmas.

(* ------------------------------------------------------------------ *)
(* 2. pseudofunction expansion                                         *)
(* ------------------------------------------------------------------ *)

(* the generated case analysis of _pseudo_mov, in closed form *)
Lemma mov_sequence_spec : forall s,
  mov_sequence s =
    if s =? 0 then ([(TNum 0, 0)], 0)
    else if (s =? 1) || (s =? -1) then ([(TCode, 0)], 1)
    else (map (fun sh => (TParen TShifted, sh)) (py_range 0 s (sgn s)), Z.abs s).
Proof.
  intros s. unfold mov_sequence, sgn.
  destruct (s =? 0) eqn:E0; [reflexivity|].
  destruct ((s =? 1) || (s =? -1)) eqn:E1; [reflexivity|].
  destruct (Z.gtb_spec s 0).
  - rewrite Z.abs_eq by lia. reflexivity.
  - rewrite Z.abs_neq by lia. reflexivity.
Qed.

Lemma py_range_window : forall s, s <> 0 ->
  py_range 0 s (sgn s) = map (fun i => Z.of_nat i * sgn s) (seq 0 (Z.to_nat (Z.abs s))).
Proof.
  intros s Hs. unfold py_range, py_range_len, sgn.
  destruct (Z.gtb_spec s 0).
  - change (1 >? 0) with true. cbv iota.
    replace (s - 0 + 1 - 1) with s by lia. rewrite Z.div_1_r, Z.max_r by lia.
    rewrite Z.abs_eq by lia. apply map_ext. intros; lia.
  - destruct (Z.eqb_spec s 0); [contradiction|].
    change (-1 >? 0) with false. change (-1 <? 0) with true. cbv iota.
    replace (0 - s - -1 - 1) with (- s) by lia. change (- -1) with 1. rewrite Z.div_1_r, Z.max_r by lia.
    rewrite Z.abs_neq by lia. apply map_ext. intros; lia.
Qed.

Section Expand.
Variable C : carrier.
Notation V := (val C).
Context {N : Type}.
Variable rho : N -> Z -> V.

Lemma join_sem o (e : cexpr N) r t :
  sem C rho (join o (e :: r)) t = fold_left (vbin C o) (map (fun x => sem C rho x t) r) (sem C rho e t).
Proof.
  unfold join. revert e. induction r as [|x r IH]; intros e; simpl; [reflexivity|].
  rewrite IH. reflexivity.
Qed.

Lemma fold_window (op : V -> V -> V) (f : Z -> V) st m :
  fold_left op (map (fun i => f (Z.of_nat i * st)) (seq 1 m)) (f 0) = window C op f st m.
Proof.
  induction m as [|m IH]; [reflexivity|].
  rewrite seq_S, map_app, fold_left_app, IH. reflexivity.
Qed.

(* the chain produced by "op".join over the window of |s| >= 2 terms *)
Lemma mov_join_sem o (a : cexpr N) s t : s <> 0 ->
  let elems := map (fun ts : tpl * Z => inst (fst ts) a (snd ts) no_join 0)
                   (map (fun sh => (TParen TShifted, sh)) (py_range 0 s (sgn s))) in
  sem C rho (join o elems) t =
    match Z.to_nat (Z.abs s) with
    | O => vnum C 0 0
    | S m => window C (vbin C o) (fun j => sem C rho a (t + j)) (sgn s) m
    end.
Proof.
  intros Hs elems. subst elems. rewrite py_range_window by assumption.
  destruct (Z.to_nat (Z.abs s)) as [|m] eqn:En; [lia|].
  rewrite <- cons_seq. rewrite !map_map. cbn [map]. rewrite join_sem.
  rewrite <- seq_shift, !map_map.
  cbn [fst snd inst sem]. rewrite shiftE_sem.
  rewrite <- (fold_window (vbin C o) (fun j => sem C rho a (t + j)) (sgn s) m).
  rewrite <- seq_shift, map_map. f_equal.
  apply map_ext. intros i. cbn [fst snd inst sem]. rewrite shiftE_sem. reflexivity.
Qed.

Variable vinv : V -> V.
Hypothesis Rth : ring_theory (vnum C 0 0) (vnum C 1 0) (vadd C) (vmul C) (vsub C) (vneg C) eq.
Hypothesis div_def : forall x y, vdiv C x y = vmul C x (vinv y).
Add Ring Vring : Rth.

(* every builder's string, instantiated, denotes the documented formula *)
Lemma expand_call_sem p s (a : cexpr N) t :
  sem C rho (expand_call p s a) t = pseudo_sem C p s (fun j => sem C rho a (t + j)).
Proof.
  unfold expand_call. rewrite mov_sequence_spec.
  destruct (Z.eqb_spec s 0) as [E0|E0].
  { subst s. destruct p; unfold pseudo_sem; cbn; rewrite ?shiftE_sem, ?Z.add_0_r; try reflexivity.
    rewrite !div_def. ring. }
  destruct ((s =? 1) || (s =? -1)) eqn:E1.
  { assert (Ha : Z.to_nat (Z.abs s) = 1%nat) by (destruct (Z.eqb_spec s 1); destruct (Z.eqb_spec s (-1)); try discriminate; subst; reflexivity).
    assert (Hab : Z.abs s = 1) by lia.
    destruct p; unfold pseudo_sem; rewrite ?Ha, ?Hab; cbn; rewrite ?shiftE_sem, ?Z.add_0_r; try reflexivity.
    rewrite !div_def. ring. }
  destruct p; try (unfold pseudo_sem; cbn; rewrite ?shiftE_sem, ?Z.add_0_r; try reflexivity; rewrite !div_def; ring).
  - unfold pseudo_sem. cbn [pseudo_template tpl_Pmovsum inst sem]. rewrite (mov_join_sem Add a s t E0). reflexivity.
  - unfold pseudo_sem. cbn [pseudo_template tpl_Pmovavg inst sem vbin]. rewrite (mov_join_sem Add a s t E0). reflexivity.
  - unfold pseudo_sem. cbn [pseudo_template tpl_Pmovprod inst sem]. rewrite (mov_join_sem Mul a s t E0). reflexivity.
Qed.

(* Theorem 2: resolving the pseudofunctions does not change the meaning *)
Theorem expand_sem (e : cexpr N) : forall t, sem C rho (expand e) t = sem C rho e t.
Proof.
  induction e using cexpr_ind'; intros t; simpl; try reflexivity.
  - rewrite IHe1, IHe2. reflexivity.
  - rewrite IHe. reflexivity.
  - f_equal. rewrite map_map. apply map_ext_Forall. eapply Forall_impl; [| exact H]. simpl. intros a Ha. apply Ha.
  - apply IHe.
  - destruct (lookup_pseudo pseudo_resolution f) as [[p dfl]|] eqn:El.
    + rewrite expand_call_sem. apply pseudo_sem_ext. intros j. apply IHe.
    + simpl. rewrite El, IHe. reflexivity.
Qed.

End Expand.
