(* Proofs about the model of the model-source compiler (model/Lang.v). *)
From Coq Require Import ZArith List String Bool Lia Ring.
From Verif Require Import lib.PyRange lib.LangSyntax gen.PseudoGen model.Lang.
Import ListNotations.
Open Scope Z_scope.

#[local] Arguments lookup_pseudo : simpl never.
#[local] Arguments shift_name_new : simpl never.
#[local] Arguments pseudo_sem : simpl never.
#[local] Opaque big_fuel.

(* ------------------------------------------------------------------ *)
(* induction over expressions (the argument list of a call is nested) *)
(* ------------------------------------------------------------------ *)
Section CexprInd.
Context {N : Type}.
Variable P : cexpr N -> Prop.
Hypothesis Hname : forall n k, P (CName n k).
Hypothesis Hnum : forall m d, P (CNum m d).
Hypothesis Hbin : forall o a b, P a -> P b -> P (CBin o a b).
Hypothesis Hneg : forall a, P a -> P (CNeg a).
Hypothesis Hcall : forall f args, Forall P args -> P (CCall f args).
Hypothesis Hparen : forall a, P a -> P (CParen a).
Hypothesis Hpseudo : forall f a k, P a -> P (CPseudo f a k).

Fixpoint cexpr_ind' (e : cexpr N) : P e :=
  match e with
  | CName n k => Hname n k
  | CNum m d => Hnum m d
  | CBin o a b => Hbin o a b (cexpr_ind' a) (cexpr_ind' b)
  | CNeg a => Hneg a (cexpr_ind' a)
  | CCall f args =>
      Hcall f args ((fix go (l : list (cexpr N)) : Forall P l :=
                       match l with
                       | [] => Forall_nil P
                       | x :: r => Forall_cons x (cexpr_ind' x) (go r)
                       end) args)
  | CParen a => Hparen a (cexpr_ind' a)
  | CPseudo f a k => Hpseudo f a k (cexpr_ind' a)
  end.
End CexprInd.

Lemma map_ext_Forall {A B} (f g : A -> B) (l : list A) :
  Forall (fun x => f x = g x) l -> map f l = map g l.
Proof. induction 1; simpl; congruence. Qed.

(* ------------------------------------------------------------------ *)
(* 1. shifting                                                         *)
(* ------------------------------------------------------------------ *)
Lemma shift_name_new_spec : forall k b, shift_name_new k b = k + b.
Proof.
  intros k b. unfold shift_name_new.
  destruct (Z.eqb_spec b 0); simpl; lia.
Qed.

Section SemLemmas.
Variable C : carrier.
Notation V := (val C).
Context {N : Type}.

Lemma window_ext (op : V -> V -> V) (f g : Z -> V) st n :
  (forall j, f j = g j) -> window C op f st n = window C op g st n.
Proof. intros H. induction n; simpl; [apply H | rewrite IHn, H; reflexivity]. Qed.

Lemma pseudo_sem_ext p s (f g : Z -> V) :
  (forall j, f j = g j) -> pseudo_sem C p s f = pseudo_sem C p s g.
Proof.
  intros H. unfold pseudo_sem.
  destruct p; rewrite ?H; try reflexivity;
    destruct (Z.to_nat (Z.abs s)); try reflexivity; rewrite (window_ext _ f g); auto.
Qed.

(* Theorem 1: shifting all names moves the date *)
Theorem shiftE_sem (rho : N -> Z -> V) (e : cexpr N) :
  forall by_ t, sem C rho (shiftE by_ e) t = sem C rho e (t + by_).
Proof.
  induction e using cexpr_ind'; intros by_ t; simpl.
  - rewrite shift_name_new_spec. f_equal. lia.
  - reflexivity.
  - rewrite IHe1, IHe2. reflexivity.
  - rewrite IHe. reflexivity.
  - f_equal. rewrite map_map. apply map_ext_Forall.
    eapply Forall_impl; [| exact H]. simpl. intros a Ha. apply Ha.
  - apply IHe.
  - destruct (lookup_pseudo pseudo_resolution f) as [[p dfl]|].
    + apply pseudo_sem_ext. intros j. rewrite IHe. f_equal. lia.
    + rewrite IHe. reflexivity.
Qed.

Lemma sem_ext (rho rho' : N -> Z -> V) (e : cexpr N) :
  (forall n t, rho n t = rho' n t) -> forall t, sem C rho e t = sem C rho' e t.
Proof.
  intros H. induction e using cexpr_ind'; intros t; simpl.
  - apply H.
  - reflexivity.
  - rewrite IHe1, IHe2. reflexivity.
  - rewrite IHe. reflexivity.
  - f_equal. apply map_ext_Forall. eapply Forall_impl; [| exact H0]. simpl. intros a Ha. apply Ha.
  - apply IHe.
  - destruct (lookup_pseudo pseudo_resolution f) as [[p dfl]|].
    + apply pseudo_sem_ext. intros j. apply IHe.
    + rewrite IHe. reflexivity.
Qed.

(* parentheses have no meaning of their own *)
Lemma strip_sem (rho : N -> Z -> V) (e : cexpr N) : forall t, sem C rho (strip e) t = sem C rho e t.
Proof.
  induction e using cexpr_ind'; intros t; simpl; try reflexivity.
  - rewrite IHe1, IHe2. reflexivity.
  - rewrite IHe. reflexivity.
  - f_equal. rewrite map_map. apply map_ext_Forall. eapply Forall_impl; [| exact H]. simpl. intros a Ha. apply Ha.
  - apply IHe.
  - destruct (lookup_pseudo pseudo_resolution f) as [[p dfl]|].
    + apply pseudo_sem_ext. intros j. apply IHe.
    + rewrite IHe. reflexivity.
Qed.

End SemLemmas.

(* ------------------------------------------------------------------ *)
(* 2. pseudofunction expansion                                         *)
(* ------------------------------------------------------------------ *)

(* the generated case analysis of _pseudo_mov, in closed form *)
Lemma mov_sequence_spec : forall s,
  mov_sequence s =
    if s =? 0 then ([(TNum 0, 0)], 0)
    else if (s =? 1) || (s =? -1) then ([(TCode, 0)], 1)
    else (map (fun sh => (TParen TShifted, sh)) (py_range 0 s (sgn s)), Z.abs s).
Proof.
  intros s. unfold mov_sequence, sgn.
  destruct (s =? 0) eqn:E0; [reflexivity|].
  destruct ((s =? 1) || (s =? -1)) eqn:E1; [reflexivity|].
  destruct (Z.gtb_spec s 0).
  - rewrite Z.abs_eq by lia. reflexivity.
  - rewrite Z.abs_neq by lia. reflexivity.
Qed.

Lemma py_range_window : forall s, s <> 0 ->
  py_range 0 s (sgn s) = map (fun i => Z.of_nat i * sgn s) (seq 0 (Z.to_nat (Z.abs s))).
Proof.
  intros s Hs. unfold py_range, py_range_len, sgn.
  destruct (Z.gtb_spec s 0).
  - change (1 >? 0) with true. cbv iota.
    replace (s - 0 + 1 - 1) with s by lia. rewrite Z.div_1_r, Z.max_r by lia.
    rewrite Z.abs_eq by lia. apply map_ext. intros; lia.
  - destruct (Z.eqb_spec s 0); [contradiction|].
    change (-1 >? 0) with false. change (-1 <? 0) with true. cbv iota.
    replace (0 - s - -1 - 1) with (- s) by lia. change (- -1) with 1. rewrite Z.div_1_r, Z.max_r by lia.
    rewrite Z.abs_neq by lia. apply map_ext. intros; lia.
Qed.

Section Expand.
Variable C : carrier.
Notation V := (val C).
Context {N : Type}.
Variable rho : N -> Z -> V.

Lemma join_sem o (e : cexpr N) r t :
  sem C rho (join o (e :: r)) t = fold_left (vbin C o) (map (fun x => sem C rho x t) r) (sem C rho e t).
Proof.
  unfold join. revert e. induction r as [|x r IH]; intros e; simpl; [reflexivity|].
  rewrite IH. reflexivity.
Qed.

Lemma fold_window (op : V -> V -> V) (f : Z -> V) st m :
  fold_left op (map (fun i => f (Z.of_nat i * st)) (seq 1 m)) (f 0) = window C op f st m.
Proof.
  induction m as [|m IH]; [reflexivity|].
  rewrite seq_S, map_app, fold_left_app, IH. reflexivity.
Qed.

(* the chain produced by "op".join over the window of |s| >= 2 terms *)
Lemma mov_join_sem o (a : cexpr N) s t : s <> 0 ->
  let elems := map (fun ts : tpl * Z => inst (fst ts) a (snd ts) no_join 0)
                   (map (fun sh => (TParen TShifted, sh)) (py_range 0 s (sgn s))) in
  sem C rho (join o elems) t =
    match Z.to_nat (Z.abs s) with
    | O => vnum C 0 0
    | S m => window C (vbin C o) (fun j => sem C rho a (t + j)) (sgn s) m
    end.
Proof.
  intros Hs elems. subst elems. rewrite py_range_window by assumption.
  destruct (Z.to_nat (Z.abs s)) as [|m] eqn:En; [lia|].
  rewrite <- cons_seq. rewrite !map_map. cbn [map]. rewrite join_sem.
  rewrite <- seq_shift, !map_map.
  cbn [fst snd inst sem]. rewrite shiftE_sem.
  rewrite <- (fold_window (vbin C o) (fun j => sem C rho a (t + j)) (sgn s) m).
  rewrite <- seq_shift, map_map. f_equal.
  apply map_ext. intros i. cbn [fst snd inst sem]. rewrite shiftE_sem. reflexivity.
Qed.

Variable vinv : V -> V.
Hypothesis Rth : ring_theory (vnum C 0 0) (vnum C 1 0) (vadd C) (vmul C) (vsub C) (vneg C) eq.
Hypothesis div_def : forall x y, vdiv C x y = vmul C x (vinv y).
Add Ring Vring : Rth.

(* every builder's string, instantiated, denotes the documented formula *)
Lemma expand_call_sem p s (a : cexpr N) t :
  sem C rho (expand_call p s a) t = pseudo_sem C p s (fun j => sem C rho a (t + j)).
Proof.
  unfold expand_call. rewrite mov_sequence_spec.
  destruct (Z.eqb_spec s 0) as [E0|E0].
  { subst s. destruct p; unfold pseudo_sem; cbn; rewrite ?shiftE_sem, ?Z.add_0_r; try reflexivity.
    rewrite !div_def. ring. }
  destruct ((s =? 1) || (s =? -1)) eqn:E1.
  { assert (Ha : Z.to_nat (Z.abs s) = 1%nat) by (destruct (Z.eqb_spec s 1); destruct (Z.eqb_spec s (-1)); try discriminate; subst; reflexivity).
    assert (Hab : Z.abs s = 1) by lia.
    destruct p; unfold pseudo_sem; rewrite ?Ha, ?Hab; cbn; rewrite ?shiftE_sem, ?Z.add_0_r; try reflexivity.
    rewrite !div_def. ring. }
  destruct p; try (unfold pseudo_sem; cbn; rewrite ?shiftE_sem, ?Z.add_0_r; try reflexivity; rewrite !div_def; ring).
  - unfold pseudo_sem. cbn [pseudo_template tpl_Pmovsum inst sem]. rewrite (mov_join_sem Add a s t E0). reflexivity.
  - unfold pseudo_sem. cbn [pseudo_template tpl_Pmovavg inst sem vbin]. rewrite (mov_join_sem Add a s t E0). reflexivity.
  - unfold pseudo_sem. cbn [pseudo_template tpl_Pmovprod inst sem]. rewrite (mov_join_sem Mul a s t E0). reflexivity.
Qed.

(* Theorem 2: resolving the pseudofunctions does not change the meaning *)
Theorem expand_sem (e : cexpr N) : forall t, sem C rho (expand e) t = sem C rho e t.
Proof.
  induction e using cexpr_ind'; intros t; simpl; try reflexivity.
  - rewrite IHe1, IHe2. reflexivity.
  - rewrite IHe. reflexivity.
  - f_equal. rewrite map_map. apply map_ext_Forall. eapply Forall_impl; [| exact H]. simpl. intros a Ha. apply Ha.
  - apply IHe.
  - destruct (lookup_pseudo pseudo_resolution f) as [[p dfl]|] eqn:El.
    + rewrite expand_call_sem. apply pseudo_sem_ext. intros j. apply IHe.
    + simpl. rewrite El, IHe. reflexivity.
Qed.

End Expand.

(* ------------------------------------------------------------------ *)
(* 3. compiled equations (xtring)                                      *)
(* ------------------------------------------------------------------ *)
Section Xtring.
Variable C : carrier.
Notation V := (val C).
Hypothesis Rth : ring_theory (vnum C 0 0) (vnum C 1 0) (vadd C) (vmul C) (vsub C) (vneg C) eq.
Add Ring Vring2 : Rth.

Section Generic.
Context {N : Type}.
Variable rho : N -> Z -> V.

(* -(lhs) glued in front of the bare rhs text *)
Lemma graft_sem (n r : cexpr N) t : sem C rho (graft n r) t = vadd C (sem C rho n t) (sem C rho r t).
Proof.
  induction r using cexpr_ind'; try reflexivity.
  destruct o; try reflexivity; simpl; rewrite IHr1; simpl; ring.
Qed.

Lemma residual_sem (l r : cexpr N) t :
  sem C rho (residual l r) t = vsub C (sem C rho r t) (sem C rho l t).
Proof. unfold residual. rewrite graft_sem. simpl. ring. Qed.

Definition tails_value (t : Z) (base : V) (tails : list (bool * cexpr N)) : V :=
  fold_left (fun acc (st : bool * cexpr N) => if fst st then vadd C acc (sem C rho (snd st) t) else vsub C acc (sem C rho (snd st) t))
            tails base.

Lemma add_tails_sem (base : cexpr N) tails t :
  sem C rho (add_tails base tails) t = tails_value t (sem C rho base t) tails.
Proof.
  unfold add_tails, tails_value. revert base.
  induction tails as [|[b e] r IH]; intros base; simpl; [reflexivity|].
  rewrite IH. destruct b; reflexivity.
Qed.
End Generic.

(* every transition shock e stands for e + ant_e in a dynamic transition equation *)
Definition rho_ant (shocks : list string) (rho : string -> Z -> V) : string -> Z -> V :=
  fun n k => if mem_s n shocks then vadd C (rho n k) (rho (append ant_prefix n) k) else rho n k.

Lemma ant_subst_sem shocks (rho : string -> Z -> V) (e : sexpr) :
  forall t, sem C rho (ant_subst shocks e) t = sem C (rho_ant shocks rho) e t.
Proof.
  induction e using cexpr_ind'; intros t; simpl.
  - unfold rho_ant. destruct (mem_s n shocks); reflexivity.
  - reflexivity.
  - rewrite IHe1, IHe2. reflexivity.
  - rewrite IHe. reflexivity.
  - f_equal. rewrite map_map. apply map_ext_Forall. eapply Forall_impl; [| exact H]. simpl. intros a Ha. apply Ha.
  - apply IHe.
  - destruct (lookup_pseudo pseudo_resolution f) as [[p dfl]|].
    + apply pseudo_sem_ext. intros j. apply IHe.
    + rewrite IHe. reflexivity.
Qed.

Lemma ant_rho_no_shocks (rho : string -> Z -> V) : forall n k, rho_ant [] rho n k = rho n k.
Proof. reflexivity. Qed.

(* names -> quantity ids *)
Section Names.
Context {N M : Type}.
Variable f : N -> option M.
Variable X : M -> Z -> V.
Definition rho_names : N -> Z -> V := fun n k => match f n with Some m => X m k | None => vnum C 0 0 end.

Lemma map_names_sem (e : cexpr N) : forall x, map_names f e = Some x ->
  forall t, sem C X x t = sem C rho_names e t.
Proof.
  induction e using cexpr_ind'; intros x Hx t; simpl in Hx.
  - unfold rho_names. simpl. destruct (f n); inversion Hx; reflexivity.
  - inversion Hx; reflexivity.
  - destruct (map_names f e1) eqn:E1; [|discriminate]. destruct (map_names f e2) eqn:E2; [|discriminate].
    inversion Hx; subst. simpl. rewrite (IHe1 _ eq_refl), (IHe2 _ eq_refl). reflexivity.
  - destruct (map_names f e) eqn:E1; [|discriminate]. inversion Hx; subst. simpl. rewrite (IHe _ eq_refl). reflexivity.
  - match type of Hx with match ?G args with _ => _ end = _ => set (go := G) in * end.
    destruct (go args) as [args'|] eqn:Eg; [|discriminate]. inversion Hx; subst. simpl. f_equal.
    clear Hx. revert args' Eg. induction H as [|a l Ha Hl IH]; intros args' Eg.
    + simpl in Eg. inversion Eg. reflexivity.
    + simpl in Eg. destruct (map_names f a) eqn:Ea; [|discriminate].
      destruct (go l) eqn:El; [|discriminate]. inversion Eg; subst. simpl.
      rewrite (Ha _ eq_refl). f_equal. apply IH. reflexivity.
  - destruct (map_names f e) eqn:E1; [|discriminate]. inversion Hx; subst. simpl. apply (IHe _ eq_refl).
  - destruct (map_names f e) eqn:E1; [|discriminate]. inversion Hx; subst. simpl.
    destruct (lookup_pseudo pseudo_resolution f0) as [[p dfl]|].
    + apply pseudo_sem_ext. intros j. apply (IHe _ eq_refl).
    + rewrite (IHe _ eq_refl). reflexivity.
Qed.
End Names.

(* the data a compiled equation reads: X qid date;  names are looked up in id order *)
Definition rho_model (names shocks : list string) (X : Z -> Z -> V) : string -> Z -> V :=
  rho_ant shocks (rho_names (fun n => index_of n names 0) X).

(* Theorem 3: the compiled equation denotes rhs - lhs of the equation as written after macro
   expansion (l, r), with every transition shock of a dynamic transition equation read as
   shock + anticipated shock *)
Theorem xtring_sem cx subs be names shocks s l r x :
  side_written cx subs be s = Some (l, r) ->
  compile_side cx subs be names shocks s = Some x ->
  forall (X : Z -> Z -> V) t,
    sem C X x t = vsub C (sem C (rho_model names shocks X) r t) (sem C (rho_model names shocks X) l t).
Proof.
  intros Hw Hc X t. unfold compile_side in Hc. rewrite Hw in Hc.
  rewrite (map_names_sem _ X _ _ Hc t), strip_sem, residual_sem, !ant_subst_sem. reflexivity.
Qed.

End Xtring.

(* ------------------------------------------------------------------ *)
(* 4. !for / !if : well-nested sequences                               *)
(* ------------------------------------------------------------------ *)
Section Trees.
Context {T : Type}.
Variable sub : string -> string -> T -> T.
Variable cx : context.

(* a well-nested sequence is the flattening of a forest *)
Inductive node :=
| NText (x : T)
| NFor (c : string) (toks : list tokitem) (body : list node)
| NIf (cd : cond) (th : list node) (el : option (list node)).

Fixpoint flatten1 (n : node) : list (directive T) :=
  match n with
  | NText x => [DText x]
  | NFor c toks body => DFor c toks :: flat_map flatten1 body ++ [DEnd]
  | NIf cd th el =>
      DIf cd :: flat_map flatten1 th
        ++ (match el with Some l => DElse :: flat_map flatten1 l | None => [] end) ++ [DEnd]
  end.
Definition flatten (l : list node) : list (directive T) := flat_map flatten1 l.

Fixpoint subst_node (c tok : string) (n : node) : node :=
  match n with
  | NText x => NText (sub c tok x)
  | NFor c' toks body => NFor c' (map (subst_tokitem c tok) toks) (map (subst_node c tok) body)
  | NIf cd th el =>
      NIf (subst_cond c tok cd) (map (subst_node c tok) th)
          (match el with Some l => Some (map (subst_node c tok) l) | None => None end)
  end.

(* the meaning of the directives: a loop is the concatenation of its body instantiated for
   every token, a conditional is its selected branch *)
Inductive expands : list node -> list T -> Prop :=
| X_nil : expands [] []
| X_text x r out : expands r out -> expands (NText x :: r) (x :: out)
| X_for c toks body r tl o1 o2 :
    tokens_of cx toks = Some tl ->
    expands (flat_map (fun tok => map (subst_node c tok) body) tl) o1 ->
    expands r o2 ->
    expands (NFor c toks body :: r) (o1 ++ o2)
| X_if cd th el r b o1 o2 :
    cond_eval cx cd = Some b ->
    expands (if b then th else match el with Some l => l | None => [] end) o1 ->
    expands r o2 ->
    expands (NIf cd th el :: r) (o1 ++ o2).

(* induction over nodes *)
Section NodeInd.
Variable P : node -> Prop.
Hypothesis Htext : forall x, P (NText x).
Hypothesis Hfor : forall c toks body, Forall P body -> P (NFor c toks body).
Hypothesis Hif : forall cd th el, Forall P th -> (match el with Some l => Forall P l | None => True end) -> P (NIf cd th el).
Fixpoint node_ind' (n : node) : P n :=
  let fix go (l : list node) : Forall P l :=
    match l with [] => Forall_nil P | x :: r => Forall_cons x (node_ind' x) (go r) end in
  match n with
  | NText x => Htext x
  | NFor c toks body => Hfor c toks body (go body)
  | NIf cd th el => Hif cd th el (go th) (match el with Some l => go l | None => I end)
  end.
End NodeInd.

Lemma flatten_app a b : flatten (a ++ b) = flatten a ++ flatten b.
Proof. unfold flatten. apply flat_map_app. Qed.

Lemma flatten_cons n r : flatten (n :: r) = flatten1 n ++ flatten r.
Proof. reflexivity. Qed.

Ltac normb H := repeat (cbn [List.length flatten1 Nat.add app] in H; rewrite ?app_length in H).
Ltac idx := f_equal; repeat (cbn [List.length flatten1 Nat.add]; rewrite ?app_length); cbn [List.length Nat.add]; lia.

(* a flattened forest never closes a level that was open before it *)
Lemma find_end_skip1 n : forall acc i rest, 0 < acc ->
  find_end_from acc i (flatten1 n ++ rest) = find_end_from acc (i + List.length (flatten1 n)) rest.
Proof.
  induction n using node_ind'; intros acc i rest Hacc.
  - simpl. replace (acc + 0) with acc by lia. destruct (Z.eqb_spec acc 0); [lia|]. f_equal. lia.
  - assert (Hf : forall acc i rest, 0 < acc ->
              find_end_from acc i (flat_map flatten1 body ++ rest) = find_end_from acc (i + List.length (flat_map flatten1 body)) rest).
    { clear Hacc acc i rest. induction H as [|x l Hx Hl IH]; intros acc i rest Hacc; simpl.
      - f_equal. lia.
      - rewrite <- app_assoc, Hx, IH by assumption. f_equal. rewrite app_length. lia. }
    cbn [flatten1 app find_end_from level]. destruct (Z.eqb_spec (acc + 1) 0); [lia|].
    rewrite <- app_assoc, Hf by lia. cbn [app find_end_from level].
    replace (acc + 1 + -1) with acc by lia. destruct (Z.eqb_spec acc 0); [lia|].
    idx.
  - assert (Hf : forall l, Forall (fun n => forall acc i rest, 0 < acc ->
                 find_end_from acc i (flatten1 n ++ rest) = find_end_from acc (i + List.length (flatten1 n)) rest) l ->
              forall acc i rest, 0 < acc ->
              find_end_from acc i (flat_map flatten1 l ++ rest) = find_end_from acc (i + List.length (flat_map flatten1 l)) rest).
    { clear. intros l Hl. induction Hl as [|x l Hx Hl IH]; intros acc i rest Hacc; simpl.
      - f_equal. lia.
      - rewrite <- app_assoc, Hx, IH by assumption. f_equal. rewrite app_length. lia. }
    cbn [flatten1 app find_end_from level]. destruct (Z.eqb_spec (acc + 1) 0); [lia|].
    rewrite <- !app_assoc, (Hf th H) by lia.
    destruct el as [l|].
    + cbn [app find_end_from level]. replace (acc + 1 + 0) with (acc + 1) by lia.
      destruct (Z.eqb_spec (acc + 1) 0); [lia|].
      rewrite (Hf l H0) by lia. cbn [app find_end_from level].
      replace (acc + 1 + -1) with acc by lia. destruct (Z.eqb_spec acc 0); [lia|].
      idx.
    + cbn [app find_end_from level].
      replace (acc + 1 + -1) with acc by lia. destruct (Z.eqb_spec acc 0); [lia|].
      idx.
Qed.

Lemma find_end_skip f : forall acc i rest, 0 < acc ->
  find_end_from acc i (flatten f ++ rest) = find_end_from acc (i + List.length (flatten f)) rest.
Proof.
  induction f as [|n f IH]; intros acc i rest Hacc; simpl.
  - f_equal. lia.
  - rewrite <- app_assoc, find_end_skip1, IH by assumption. f_equal. rewrite app_length. lia.
Qed.

(* ... and contains no !else at the level of the enclosing !if *)
Lemma find_else_skip1 n : forall acc i e rest, 1 <= acc -> (i + List.length (flatten1 n) <= e)%nat ->
  find_else_from acc i (Some e) (flatten1 n ++ rest) = find_else_from acc (i + List.length (flatten1 n)) (Some e) rest.
Proof.
  assert (Hf : forall l, Forall (fun n => forall acc i e rest, 1 <= acc -> (i + List.length (flatten1 n) <= e)%nat ->
                 find_else_from acc i (Some e) (flatten1 n ++ rest) = find_else_from acc (i + List.length (flatten1 n)) (Some e) rest) l ->
              forall acc i e rest, 1 <= acc -> (i + List.length (flat_map flatten1 l) <= e)%nat ->
              find_else_from acc i (Some e) (flat_map flatten1 l ++ rest)
              = find_else_from acc (i + List.length (flat_map flatten1 l)) (Some e) rest).
  { intros l Hl. induction Hl as [|x l Hx Hl IH]; intros acc i e rest Hacc Hb; simpl.
    - f_equal. lia.
    - simpl in Hb. rewrite app_length in Hb.
      rewrite <- app_assoc, Hx, IH by (try assumption; lia). f_equal. rewrite app_length. lia. }
  induction n using node_ind'; intros acc i e rest Hacc Hb.
  - simpl in *. destruct (Nat.leb_spec e i); [lia|].
    replace (acc + 0) with acc by lia. simpl. rewrite andb_false_r. f_equal. lia.
  - cbn [flatten1 app find_else_from level is_else]. normb Hb.
    destruct (Nat.leb_spec e i); [lia|]. rewrite andb_false_r.
    rewrite <- app_assoc, (Hf body H) by lia. cbn [app find_else_from level is_else].
    destruct (Nat.leb_spec e (S i + List.length (flat_map flatten1 body))); [lia|]. rewrite andb_false_r.
    idx.
  - cbn [flatten1 app find_else_from level is_else]. normb Hb.
    destruct (Nat.leb_spec e i); [lia|]. rewrite andb_false_r.
    rewrite <- !app_assoc, (Hf th H) by lia.
    destruct el as [l|].
    + cbn [app find_else_from level is_else]. normb Hb.
      destruct (Nat.leb_spec e (S i + List.length (flat_map flatten1 th))); [lia|].
      replace (acc + 1 + 0 =? 1) with false by (symmetry; apply Z.eqb_neq; lia). cbn [andb].
      rewrite (Hf l H0) by lia. cbn [app find_else_from level is_else].
      destruct (Nat.leb_spec e (S (S i + List.length (flat_map flatten1 th)) + List.length (flat_map flatten1 l))); [lia|].
      rewrite andb_false_r. idx.
    + cbn [app find_else_from level is_else]. normb Hb.
      destruct (Nat.leb_spec e (S i + List.length (flat_map flatten1 th))); [lia|]. rewrite andb_false_r.
      idx.
Qed.

Lemma find_else_skip f : forall acc i e rest, 1 <= acc -> (i + List.length (flatten f) <= e)%nat ->
  find_else_from acc i (Some e) (flatten f ++ rest) = find_else_from acc (i + List.length (flatten f)) (Some e) rest.
Proof.
  induction f as [|n f IH]; intros acc i e rest Hacc Hb; simpl.
  - f_equal. lia.
  - simpl in Hb. rewrite app_length in Hb. fold (flatten f) in *.
    rewrite <- app_assoc, find_else_skip1, IH by (try assumption; lia). f_equal. rewrite app_length. lia.
Qed.

(* substitution commutes with flattening *)
Lemma flatten_subst c tok f :
  map (subst_directive sub c tok) (flatten f) = flatten (map (subst_node c tok) f).
Proof.
  assert (H1 : forall n, map (subst_directive sub c tok) (flatten1 n) = flatten1 (subst_node c tok n)).
  { induction n using node_ind'.
    - reflexivity.
    - cbn [flatten1 subst_node map]. rewrite map_app. cbn [map subst_directive]. f_equal. f_equal.
      induction H as [|x l Hx Hl IH]; simpl; [reflexivity|]. rewrite map_app, Hx, IH. reflexivity.
    - assert (Hf : forall l, Forall (fun n => map (subst_directive sub c tok) (flatten1 n) = flatten1 (subst_node c tok n)) l ->
                map (subst_directive sub c tok) (flat_map flatten1 l) = flat_map flatten1 (map (subst_node c tok) l)).
      { intros l Hl. induction Hl as [|x l Hx Hl IH]; simpl; [reflexivity|]. rewrite map_app, Hx, IH. reflexivity. }
      cbn [flatten1 subst_node map]. rewrite !map_app. cbn [map subst_directive]. rewrite (Hf th H).
      destruct el as [l|]; cbn [map subst_directive]; [rewrite (Hf l H0)|]; reflexivity. }
  induction f as [|n f IH]; simpl; [reflexivity|]. rewrite map_app, H1. fold (flatten f). rewrite IH. reflexivity.
Qed.

Lemma flatten_flat_map (g : string -> list node) tl :
  flatten (flat_map g tl) = flat_map (fun tok => flatten (g tok)) tl.
Proof. induction tl; simpl; [reflexivity|]. rewrite flatten_app, IHtl. reflexivity. Qed.

Lemma firstn_app_exact {A} (a b : list A) : firstn (List.length a) (a ++ b) = a.
Proof. induction a; simpl; congruence. Qed.
Lemma skipn_app_exact {A} (a b : list A) : skipn (List.length a) (a ++ b) = b.
Proof. induction a; simpl; congruence. Qed.

Lemma skipn_mid {A} (P : list A) (x : A) (R : list A) : skipn (S (List.length P)) (P ++ x :: R) = R.
Proof. induction P; simpl; auto. Qed.

Lemma rapp_ok (a b : list T) : rapp (ROk a) (ROk b) = ROk (a ++ b).
Proof. reflexivity. Qed.

(* Theorem 4: _resolve_sequence on a well-nested sequence is the expansion; the fuel needed is
   bounded and any larger fuel gives the same answer *)
Theorem resolve_flatten f out : expands f out ->
  exists n, forall fuel, (n <= fuel)%nat -> resolve sub cx true fuel (flatten f) = ROk out.
Proof.
  induction 1 as [| x r out _ [n IH] | c toks body r tl o1 o2 Htl _ [n1 IH1] _ [n2 IH2]
                  | cd th el r b o1 o2 Hcd _ [n1 IH1] _ [n2 IH2]].
  - exists 1%nat. intros [|fu] Hf; [lia|]. reflexivity.
  - exists (S n). intros [|fu] Hf; [lia|]. cbn [flatten flat_map flatten1 app resolve].
    fold (flatten r). rewrite IH by lia. reflexivity.
  - exists (S (Nat.max n1 n2)). intros [|fu] Hf; [lia|].
    rewrite flatten_cons. cbn [flatten1]. fold (flatten body).
    set (B := flatten body). set (R := flatten r).
    assert (Hs : (DFor c toks :: B ++ [DEnd]) ++ R = DFor c toks :: B ++ DEnd :: R)
      by (simpl; rewrite <- app_assoc; reflexivity).
    rewrite Hs. cbn [resolve].
    assert (He : find_end (DFor c toks :: B ++ DEnd :: R) = Some (S (List.length B))).
    { unfold find_end. cbn [find_end_from level]. change (0 + 1 =? 0) with false. cbv iota.
      unfold B. rewrite find_end_skip by lia. cbn [find_end_from level]. reflexivity. }
    rewrite He, Htl.
    assert (Hbody : slice 1 (S (List.length B)) (DFor c toks :: B ++ DEnd :: R) = B).
    { unfold slice. simpl. rewrite Nat.sub_0_r. apply firstn_app_exact. }
    assert (Hrest : skipn (S (S (List.length B))) (DFor c toks :: B ++ DEnd :: R) = R).
    { apply (skipn_mid (DFor c toks :: B) DEnd R). }
    rewrite Hbody, Hrest.
    assert (Hnew : flat_map (fun tok => map (subst_directive sub c tok) B) tl
                   = flatten (flat_map (fun tok => map (subst_node c tok) body) tl)).
    { rewrite flatten_flat_map. apply flat_map_ext. intros tok. apply flatten_subst. }
    rewrite Hnew, IH1, IH2 by lia. reflexivity.
  - exists (S (Nat.max n1 n2)). intros [|fu] Hf; [lia|].
    rewrite flatten_cons. cbn [flatten1]. fold (flatten th).
    set (TH := flatten th). set (R := flatten r).
    destruct el as [l|].
    + fold (flatten l). set (EL := flatten l).
      assert (Hs : (DIf cd :: TH ++ (DElse :: EL) ++ [DEnd]) ++ R = DIf cd :: TH ++ DElse :: EL ++ DEnd :: R)
        by (simpl; rewrite <- !app_assoc; simpl; rewrite <- app_assoc; reflexivity).
      rewrite Hs. cbn [resolve].
      set (s := DIf cd :: TH ++ DElse :: EL ++ DEnd :: R).
      assert (He : find_end s = Some (S (List.length TH) + S (List.length EL))%nat).
      { unfold find_end, s. cbn [find_end_from level]. change (0 + 1 =? 0) with false. cbv iota.
        unfold TH. rewrite find_end_skip by lia. cbn [find_end_from level]. change (0 + 1 + 0 =? 0) with false. cbv iota.
        unfold EL. rewrite find_end_skip by lia. cbn [find_end_from level]. change (0 + 1 + 0 + -1 =? 0) with true. cbv iota.
        f_equal. lia. }
      rewrite He, Hcd.
      assert (Hel : find_else true (S (List.length TH) + S (List.length EL)) s = Some (S (List.length TH))).
      { unfold find_else, s. cbn [find_else_from level is_else]. rewrite andb_false_r.
        destruct (Nat.leb_spec (S (List.length TH) + S (List.length EL)) 0); [lia|].
        unfold TH. rewrite find_else_skip by (fold TH; lia). cbn [find_else_from level is_else].
        fold TH. destruct (Nat.leb_spec (S (List.length TH) + S (List.length EL)) (1 + List.length TH)); [lia|].
        reflexivity. }
      rewrite Hel.
      assert (Hth : slice 1 (S (List.length TH)) s = TH).
      { unfold slice, s. simpl. rewrite Nat.sub_0_r. apply firstn_app_exact. }
      assert (Hels : slice (S (S (List.length TH))) (S (List.length TH) + S (List.length EL)) s = EL).
      { unfold slice, s. pose proof (skipn_mid (DIf cd :: TH) DElse (EL ++ DEnd :: R)) as Hk.
        cbn [List.length app] in Hk. rewrite Hk.
        replace (S (List.length TH) + S (List.length EL) - S (S (List.length TH)))%nat with (List.length EL) by lia.
        apply firstn_app_exact. }
      assert (Hrest : skipn (S (S (List.length TH) + S (List.length EL))) s = R).
      { unfold s.
        replace (S (List.length TH) + S (List.length EL))%nat with (List.length (DIf cd :: TH ++ DElse :: EL))
          by (cbn [List.length]; rewrite app_length; cbn [List.length]; lia).
        replace (DIf cd :: TH ++ DElse :: EL ++ DEnd :: R) with ((DIf cd :: TH ++ DElse :: EL) ++ DEnd :: R)
          by (cbn [app]; rewrite <- app_assoc; reflexivity).
        apply skipn_mid. }
      rewrite Hrest. destruct b; [rewrite Hth | rewrite Hels]; rewrite IH1, IH2 by lia; reflexivity.
    + assert (Hs : (DIf cd :: TH ++ [] ++ [DEnd]) ++ R = DIf cd :: TH ++ DEnd :: R)
        by (simpl; rewrite <- app_assoc; reflexivity).
      rewrite Hs. cbn [resolve].
      set (s := DIf cd :: TH ++ DEnd :: R).
      assert (He : find_end s = Some (S (List.length TH))).
      { unfold find_end, s. cbn [find_end_from level]. change (0 + 1 =? 0) with false. cbv iota.
        unfold TH. rewrite find_end_skip by lia. cbn [find_end_from level]. reflexivity. }
      rewrite He, Hcd.
      assert (Hel : find_else true (S (List.length TH)) s = None).
      { unfold find_else, s. cbn [find_else_from level is_else]. rewrite andb_false_r.
        destruct (Nat.leb_spec (S (List.length TH)) 0); [lia|].
        unfold TH. rewrite find_else_skip by (fold TH; lia). cbn [find_else_from]. fold TH.
        destruct (Nat.leb_spec (S (List.length TH)) (1 + List.length TH)); [reflexivity|lia]. }
      rewrite Hel.
      assert (Hth : slice 1 (S (List.length TH)) s = TH).
      { unfold slice, s. simpl. rewrite Nat.sub_0_r. apply firstn_app_exact. }
      assert (Hels : slice (S (S (List.length TH))) (S (List.length TH)) s = []).
      { unfold slice. replace (S (List.length TH) - S (S (List.length TH)))%nat with 0%nat by lia. reflexivity. }
      assert (Hrest : skipn (S (S (List.length TH))) s = R).
      { apply (skipn_mid (DIf cd :: TH) DEnd R). }
      rewrite Hrest. destruct b; [rewrite Hth | rewrite Hels]; [rewrite IH1, IH2 by lia; reflexivity|].
      simpl in IH1. change (@nil (directive T)) with (flatten []). rewrite IH1, IH2 by lia. reflexivity.
Qed.

End Trees.

(* ------------------------------------------------------------------ *)
(* 5. corollaries: loops, conditionals, unrolled sources               *)
(* ------------------------------------------------------------------ *)
Section TreeCorollaries.
Context {T : Type}.
Variable sub : string -> string -> T -> T.
Variable cx : context.
Notation node := (@node T).
Notation expands := (expands sub cx).

Lemma expands_app f1 o1 f2 o2 : expands f1 o1 -> expands f2 o2 -> expands (f1 ++ f2) (o1 ++ o2).
Proof.
  induction 1; intros H2; simpl.
  - exact H2.
  - constructor. auto.
  - rewrite <- app_assoc. econstructor; eauto.
  - rewrite <- app_assoc. econstructor; eauto.
Qed.

Lemma expands_concat (g : string -> list node) tl outs :
  Forall2 (fun tok o => expands (g tok) o) tl outs -> expands (flat_map g tl) (List.concat outs).
Proof. induction 1; simpl; [constructor | apply expands_app; assumption]. Qed.

(* a loop is the concatenation, over its tokens in order, of its body with the control name replaced *)
Theorem for_expansion c toks body tl outs :
  tokens_of cx toks = Some tl ->
  Forall2 (fun tok o => expands (map (subst_node sub c tok) body) o) tl outs ->
  expands [NFor c toks body] (List.concat outs)
  /\ exists n, forall fuel, (n <= fuel)%nat ->
       resolve sub cx true fuel (DFor c toks :: flatten body ++ [DEnd]) = ROk (List.concat outs).
Proof.
  intros Ht Hall.
  assert (He : expands [NFor c toks body] (List.concat outs)).
  { rewrite <- (app_nil_r (List.concat outs)). econstructor; [exact Ht | | constructor].
    apply expands_concat. exact Hall. }
  split; [exact He|].
  destruct (resolve_flatten sub cx _ _ He) as [n Hn]. exists n. intros fuel Hf.
  specialize (Hn fuel Hf). unfold flatten in Hn. simpl in Hn. rewrite app_nil_r in Hn. exact Hn.
Qed.

(* a conditional is its selected branch *)
Theorem if_selection cd th el b out :
  cond_eval cx cd = Some b ->
  expands (if b then th else match el with Some l => l | None => [] end) out ->
  expands [NIf cd th el] out
  /\ exists n, forall fuel, (n <= fuel)%nat -> resolve sub cx true fuel (flatten [NIf cd th el]) = ROk out.
Proof.
  intros Hc Hb.
  assert (He : expands [NIf cd th el] out).
  { rewrite <- (app_nil_r out). econstructor; [exact Hc | exact Hb | constructor]. }
  split; [exact He|]. apply resolve_flatten. exact He.
Qed.

(* the expansion is unique *)
Theorem expands_deterministic f o1 o2 : expands f o1 -> expands f o2 -> o1 = o2.
Proof.
  intros H1 H2.
  destruct (resolve_flatten sub cx _ _ H1) as [n1 E1]. destruct (resolve_flatten sub cx _ _ H2) as [n2 E2].
  specialize (E1 (Nat.max n1 n2) (Nat.le_max_l _ _)). specialize (E2 (Nat.max n1 n2) (Nat.le_max_r _ _)).
  rewrite E1 in E2. inversion E2. reflexivity.
Qed.

Lemma resolve_text (items : list T) be : forall fuel, (List.length items < fuel)%nat ->
  resolve sub cx be fuel (map DText items) = ROk items.
Proof.
  induction items as [|x r IH]; intros [|fu] Hf; simpl in *; try lia; [reflexivity|].
  rewrite IH by lia. reflexivity.
Qed.

End TreeCorollaries.

(* a source and the same source with every !for / !if expanded by hand compile to the same model *)
Theorem unrolled_source_same_model cx (f : list (@node item)) items :
  expands subst_item cx f items ->
  exists n, forall fuel, (n <= fuel)%nat ->
    compile cx true fuel (flatten f) = compile cx true fuel (map DText items).
Proof.
  intros He. destruct (resolve_flatten subst_item cx _ _ He) as [n Hn].
  exists (Nat.max n (S (List.length items))). intros fuel Hf. unfold compile.
  rewrite Hn by lia. rewrite resolve_text by lia. reflexivity.
Qed.

(* the code before the repair of _find_matching_else (search not bounded by the matching !end)
   does not satisfy Theorem 4: an !if without !else followed by an !if with !else is rejected *)
Definition cd_true : cond := CdCmp CmpEq (IConst 0) (IConst 0).
Definition sub_nat : string -> string -> nat -> nat := fun _ _ x => x.
Definition refuting_forest : list (@node nat) :=
  [NIf cd_true [NText 1%nat] None; NIf cd_true [NText 2%nat] (Some [NText 3%nat])].

Theorem unbounded_else_refuted :
  expands sub_nat [] refuting_forest [1%nat; 2%nat]
  /\ resolve sub_nat [] false 100 (flatten refuting_forest) = RErr
  /\ resolve sub_nat [] true 100 (flatten refuting_forest) = ROk [1%nat; 2%nat].
Proof.
  split; [| split; vm_compute; reflexivity].
  unfold refuting_forest.
  change [1%nat; 2%nat] with ([1%nat] ++ [2%nat]).
  eapply (X_if sub_nat [] cd_true [NText 1%nat] None _ true); [reflexivity | repeat constructor |].
  change [2%nat] with ([2%nat] ++ []).
  eapply (X_if sub_nat [] cd_true [NText 2%nat] (Some [NText 3%nat]) _ true); [reflexivity | repeat constructor | constructor].
Qed.

(* non-vacuity of Theorem 4: a loop nested in a loop nested in a conditional, over strings *)
Definition sub_str : string -> string -> string -> string :=
  fun c tok x => if String.eqb x c then tok else x.
Example nested_example :
  let f := [NIf cd_true
              [NFor "?a" [TokName [Lit "x"]; TokName [Lit "y"]]
                 [NText "?a"%string; NFor "?b" [TokName [Ctl "?a" VPlain; Lit "1"]; TokName [Lit "z"]] [NText "?b"%string]]]
              (Some [NText "no"%string])] in
  expands sub_str [] f ["x"; "x1"; "z"; "y"; "y1"; "z"]%string
  /\ resolve sub_str [] true 50 (flatten f) = ROk ["x"; "x1"; "z"; "y"; "y1"; "z"]%string.
Proof.
  split; [| vm_compute; reflexivity].
  rewrite <- (app_nil_r ["x"; "x1"; "z"; "y"; "y1"; "z"]%string).
  eapply X_if with (b := true); [reflexivity | | constructor].
  rewrite <- (app_nil_r ["x"; "x1"; "z"; "y"; "y1"; "z"]%string).
  eapply X_for; [reflexivity | | constructor]. cbn.
  apply X_text. change ["x1"; "z"; "y"; "y1"; "z"]%string with (["x1"%string; "z"%string] ++ ["y"%string; "y1"%string; "z"%string])%list.
  eapply X_for; [reflexivity | cbn; repeat constructor |].
  apply X_text. rewrite <- (app_nil_r ["y1"; "z"]%string).
  eapply X_for; [reflexivity | cbn; repeat constructor | constructor].
Qed.

(* ------------------------------------------------------------------ *)
(* 6. the generated templates: shape facts                             *)
(* ------------------------------------------------------------------ *)
(* A builder's string is spliced into the equation text; the splice equals substitution in
   the syntax tree when the string is delimited by its own parentheses and every hole sits
   directly inside parentheses (or is the argument of a call). *)
Definition tpl_closed (t : tpl) : bool :=
  match t with TParen _ | TNum _ | TCall1 _ _ | TTotal => true | _ => false end.

Fixpoint holes_safe (inside : bool) (t : tpl) : bool :=
  match t with
  | TCode | TShifted | TJoin _ => inside
  | TTotal | TNum _ => true
  | TBin _ a b => holes_safe false a && holes_safe false b
  | TNeg a => holes_safe false a
  | TCall1 _ a => holes_safe true a
  | TParen a => holes_safe true a
  end.

Definition mov_elems_ok (s : Z) : bool :=
  let seq := fst (mov_sequence s) in
  (Nat.eqb (List.length seq) 1 && forallb (fun ts : tpl * Z => holes_safe true (fst ts)) seq)
  || forallb (fun ts : tpl * Z => tpl_closed (fst ts) && holes_safe false (fst ts)) seq.

Lemma templates_self_delimiting :
  (forall p, tpl_closed (pseudo_template p) = true /\ holes_safe false (pseudo_template p) = true)
  /\ (forall s, mov_elems_ok s = true).
Proof.
  split.
  - intros p. destruct p; split; reflexivity.
  - intros s. unfold mov_elems_ok. rewrite mov_sequence_spec.
    destruct (s =? 0); [reflexivity|]. destruct ((s =? 1) || (s =? -1)); [reflexivity|].
    cbn [fst]. apply orb_true_iff. right. rewrite forallb_forall. intros x Hx.
    apply in_map_iff in Hx. destruct Hx as [sh [<- _]]. reflexivity.
Qed.

Lemma residual_template_shape : residual_template = TBin Add (TNeg (TParen TCode)) TShifted.
Proof. reflexivity. Qed.

Lemma resolution_table :
  lookup_pseudo pseudo_resolution "shift" = Some (Pshift, -1) /\
  lookup_pseudo pseudo_resolution "diff" = Some (Pdiff, -1) /\
  lookup_pseudo pseudo_resolution "diff_log" = Some (Pdifflog, -1) /\
  lookup_pseudo pseudo_resolution "difflog" = Some (Pdifflog, -1) /\
  lookup_pseudo pseudo_resolution "pct" = Some (Ppct, -1) /\
  lookup_pseudo pseudo_resolution "roc" = Some (Proc, -1) /\
  lookup_pseudo pseudo_resolution "mov_sum" = Some (Pmovsum, -4) /\
  lookup_pseudo pseudo_resolution "movsum" = Some (Pmovsum, -4) /\
  lookup_pseudo pseudo_resolution "mov_avg" = Some (Pmovavg, -4) /\
  lookup_pseudo pseudo_resolution "movavg" = Some (Pmovavg, -4) /\
  lookup_pseudo pseudo_resolution "mov_prod" = Some (Pmovprod, -4) /\
  lookup_pseudo pseudo_resolution "movprod" = Some (Pmovprod, -4).
Proof. repeat split; reflexivity. Qed.

Lemma kind_tables :
  entry_order = [QTransitionVariable; QTransitionShock; QMeasurementVariable; QParameter; QExogenousVariable; QMeasurementShock]
  /\ loggable_kinds = [QTransitionVariable; QMeasurementVariable; QExogenousVariable]
  /\ NoDup kind_order /\ (forall k, In k kind_order).
Proof.
  repeat split; try reflexivity.
  - unfold kind_order. repeat (constructor; [simpl; intuition discriminate|]). constructor.
  - intros k. destruct k; simpl; tauto.
Qed.

(* ------------------------------------------------------------------ *)
(* 7. documented formulas, spelled out                                 *)
(* ------------------------------------------------------------------ *)
Section Formulas.
Variable C : carrier.
Notation V := (val C).
Variable vinv : V -> V.
Hypothesis Rth : ring_theory (vnum C 0 0) (vnum C 1 0) (vadd C) (vmul C) (vsub C) (vneg C) eq.
Hypothesis div_def : forall x y, vdiv C x y = vmul C x (vinv y).
Add Ring Vring3 : Rth.
Context {N : Type}.
Variable rho : N -> Z -> V.
Notation ev := (sem C rho).

(* sum of f 0, f 1, ..., f (n-1) *)
Fixpoint bigsum (f : nat -> V) (n : nat) : V :=
  match n with O => vnum C 0 0 | S m => vadd C (bigsum f m) (f m) end.
Fixpoint bigprod (f : nat -> V) (n : nat) : V :=
  match n with O => vnum C 1 0 | S m => vmul C (bigprod f m) (f m) end.

Lemma bigsum_ext f g n : (forall i, f i = g i) -> bigsum f n = bigsum g n.
Proof. intros H. induction n; simpl; [reflexivity|]. rewrite IHn, H. reflexivity. Qed.
Lemma bigprod_ext f g n : (forall i, f i = g i) -> bigprod f n = bigprod g n.
Proof. intros H. induction n; simpl; [reflexivity|]. rewrite IHn, H. reflexivity. Qed.

Lemma window_bigsum (f : Z -> V) st m :
  window C (vadd C) f st m = bigsum (fun i => f (Z.of_nat i * st)) (S m).
Proof.
  induction m as [|m IH].
  - simpl. ring.
  - change (window C (vadd C) f st (S m)) with (vadd C (window C (vadd C) f st m) (f (Z.of_nat (S m) * st))).
    rewrite IH. reflexivity.
Qed.

Lemma window_bigprod (f : Z -> V) st m :
  window C (vmul C) f st m = bigprod (fun i => f (Z.of_nat i * st)) (S m).
Proof.
  induction m as [|m IH].
  - simpl. ring.
  - change (window C (vmul C) f st (S m)) with (vmul C (window C (vmul C) f st m) (f (Z.of_nat (S m) * st))).
    rewrite IH. reflexivity.
Qed.

Ltac known f v :=
  rewrite (expand_sem C rho vinv Rth div_def); cbn [sem];
  replace (lookup_pseudo pseudo_resolution f) with (Some v) by reflexivity;
  unfold pseudo_sem, resolve_shift.

Theorem pseudo_formulas (e : cexpr N) (t : Z) :
  (forall k, (ev (expand (CPseudo "shift" e (Some k))) t) = (ev (e) (t + k))) /\
  (forall k, (ev (expand (CPseudo "diff" e (Some k))) t) = vsub C ((ev (e) t)) ((ev (e) (t + k)))) /\
  (forall k, (ev (expand (CPseudo "diff_log" e (Some k))) t) = vsub C (vfun C "log" [(ev (e) t)]) (vfun C "log" [(ev (e) (t + k))])) /\
  (forall k, (ev (expand (CPseudo "difflog" e (Some k))) t) = vsub C (vfun C "log" [(ev (e) t)]) (vfun C "log" [(ev (e) (t + k))])) /\
  (forall k, (ev (expand (CPseudo "pct" e (Some k))) t)
             = vmul C (vnum C 100 0) (vsub C (vdiv C ((ev (e) t)) ((ev (e) (t + k)))) (vnum C 1 0))) /\
  (forall k, (ev (expand (CPseudo "roc" e (Some k))) t) = vdiv C ((ev (e) t)) ((ev (e) (t + k)))) /\
  (* windows of n+1 terms: k = -(n+1) looks backward, k = n+1 forward *)
  (forall n f, In f ["mov_sum"; "movsum"]%string ->
     (ev (expand (CPseudo f e (Some (- Z.of_nat (S n))))) t) = bigsum (fun i => (ev (e) (t - Z.of_nat i))) (S n) /\
     (ev (expand (CPseudo f e (Some (Z.of_nat (S n))))) t) = bigsum (fun i => (ev (e) (t + Z.of_nat i))) (S n)) /\
  (forall n f, In f ["mov_avg"; "movavg"]%string ->
     (ev (expand (CPseudo f e (Some (- Z.of_nat (S n))))) t)
       = vdiv C (bigsum (fun i => (ev (e) (t - Z.of_nat i))) (S n)) (vnum C (Z.of_nat (S n)) 0)) /\
  (forall n f, In f ["mov_prod"; "movprod"]%string ->
     (ev (expand (CPseudo f e (Some (- Z.of_nat (S n))))) t) = bigprod (fun i => (ev (e) (t - Z.of_nat i))) (S n)) /\
  (* defaults *)
  (forall f, In f ["shift"; "diff"; "diff_log"; "difflog"; "pct"; "roc"]%string ->
     (ev (expand (CPseudo f e None)) t) = (ev (expand (CPseudo f e (Some (-1)))) t)) /\
  (forall f, In f ["mov_sum"; "movsum"; "mov_avg"; "movavg"; "mov_prod"; "movprod"]%string ->
     (ev (expand (CPseudo f e None)) t) = (ev (expand (CPseudo f e (Some (-4)))) t)).
Proof.
  assert (Hneg : forall n, Z.to_nat (Z.abs (- Z.of_nat (S n))) = S n) by (intros; lia).
  assert (Hpos : forall n, Z.to_nat (Z.abs (Z.of_nat (S n))) = S n) by (intros; lia).
  assert (Sneg : forall n, sgn (- Z.of_nat (S n)) = -1)
    by (intros n; unfold sgn; destruct (Z.gtb_spec (- Z.of_nat (S n)) 0); [lia|]; destruct (Z.eqb_spec (- Z.of_nat (S n)) 0); [lia|reflexivity]).
  assert (Spos : forall n, sgn (Z.of_nat (S n)) = 1)
    by (intros n; unfold sgn; destruct (Z.gtb_spec (Z.of_nat (S n)) 0); [reflexivity|lia]).
  split; [|split; [|split; [|split; [|split; [|split; [|split; [|split; [|split; [|split]]]]]]]]].
  - intros k. known "shift"%string (Pshift, -1). reflexivity.
  - intros k. known "diff"%string (Pdiff, -1). rewrite Z.add_0_r. reflexivity.
  - intros k. known "diff_log"%string (Pdifflog, -1). rewrite Z.add_0_r. reflexivity.
  - intros k. known "difflog"%string (Pdifflog, -1). rewrite Z.add_0_r. reflexivity.
  - intros k. known "pct"%string (Ppct, -1). rewrite Z.add_0_r. reflexivity.
  - intros k. known "roc"%string (Proc, -1). rewrite Z.add_0_r. reflexivity.
  - intros n f H. split.
    + destruct H as [<-|[<-|[]]]; [known "mov_sum"%string (Pmovsum, -4) | known "movsum"%string (Pmovsum, -4)];
        rewrite Hneg, Sneg, window_bigsum; apply bigsum_ext; intros i; f_equal; lia.
    + destruct H as [<-|[<-|[]]]; [known "mov_sum"%string (Pmovsum, -4) | known "movsum"%string (Pmovsum, -4)];
        rewrite Hpos, Spos, window_bigsum; apply bigsum_ext; intros i; f_equal; lia.
  - intros n f H. destruct H as [<-|[<-|[]]]; [known "mov_avg"%string (Pmovavg, -4) | known "movavg"%string (Pmovavg, -4)];
      rewrite Hneg, Sneg, window_bigsum; (replace (Z.abs (- Z.of_nat (S n))) with (Z.of_nat (S n)) by lia); f_equal;
      apply bigsum_ext; intros i; f_equal; lia.
  - intros n f H. destruct H as [<-|[<-|[]]]; [known "mov_prod"%string (Pmovprod, -4) | known "movprod"%string (Pmovprod, -4)];
      rewrite Hneg, Sneg, window_bigprod; apply bigprod_ext; intros i; f_equal; lia.
  - intros f H.
    rewrite !(expand_sem C rho vinv Rth div_def). cbn [sem].
    repeat (destruct H as [<-|H]; [reflexivity|]). destruct H.
  - intros f H.
    rewrite !(expand_sem C rho vinv Rth div_def). cbn [sem].
    repeat (destruct H as [<-|H]; [reflexivity|]). destruct H.
Qed.

End Formulas.

(* ------------------------------------------------------------------ *)
(* 8. statements in the form used by props/C04.v                       *)
(* ------------------------------------------------------------------ *)
(* the carrier is a commutative ring whose division is multiplication by an inverse *)
Definition lawful (C : carrier) (vinv : val C -> val C) : Prop :=
  ring_theory (vnum C 0 0) (vnum C 1 0) (vadd C) (vmul C) (vsub C) (vneg C) eq
  /\ (forall x y : val C, vdiv C x y = vmul C x (vinv y)).

Lemma expand_sem_lawful C vinv : lawful C vinv ->
  forall (N : Type) (rho : N -> Z -> val C) (e : cexpr N) (t : Z), sem C rho (expand e) t = sem C rho e t.
Proof. intros [H1 H2] N rho e t. exact (expand_sem C rho vinv H1 H2 e t). Qed.

Definition pseudo_formulas_statement (C : carrier) : Prop :=
  forall (N : Type) (rho : N -> Z -> val C) (e : cexpr N) (t : Z),
  let ev := sem C rho in
  (forall k, ev (expand (CPseudo "shift" e (Some k))) t = ev e (t + k)) /\
  (forall k, ev (expand (CPseudo "diff" e (Some k))) t = vsub C (ev e t) (ev e (t + k))) /\
  (forall k, ev (expand (CPseudo "diff_log" e (Some k))) t = vsub C (vfun C "log" [ev e t]) (vfun C "log" [ev e (t + k)])) /\
  (forall k, ev (expand (CPseudo "difflog" e (Some k))) t = vsub C (vfun C "log" [ev e t]) (vfun C "log" [ev e (t + k)])) /\
  (forall k, ev (expand (CPseudo "pct" e (Some k))) t
             = vmul C (vnum C 100 0) (vsub C (vdiv C (ev e t) (ev e (t + k))) (vnum C 1 0))) /\
  (forall k, ev (expand (CPseudo "roc" e (Some k))) t = vdiv C (ev e t) (ev e (t + k))) /\
  (forall n f, In f ["mov_sum"; "movsum"]%string ->
     ev (expand (CPseudo f e (Some (- Z.of_nat (S n))))) t = bigsum C (fun i => ev e (t - Z.of_nat i)) (S n) /\
     ev (expand (CPseudo f e (Some (Z.of_nat (S n))))) t = bigsum C (fun i => ev e (t + Z.of_nat i)) (S n)) /\
  (forall n f, In f ["mov_avg"; "movavg"]%string ->
     ev (expand (CPseudo f e (Some (- Z.of_nat (S n))))) t
       = vdiv C (bigsum C (fun i => ev e (t - Z.of_nat i)) (S n)) (vnum C (Z.of_nat (S n)) 0)) /\
  (forall n f, In f ["mov_prod"; "movprod"]%string ->
     ev (expand (CPseudo f e (Some (- Z.of_nat (S n))))) t = bigprod C (fun i => ev e (t - Z.of_nat i)) (S n)) /\
  (forall f, In f ["shift"; "diff"; "diff_log"; "difflog"; "pct"; "roc"]%string ->
     ev (expand (CPseudo f e None)) t = ev (expand (CPseudo f e (Some (-1)))) t) /\
  (forall f, In f ["mov_sum"; "movsum"; "mov_avg"; "movavg"; "mov_prod"; "movprod"]%string ->
     ev (expand (CPseudo f e None)) t = ev (expand (CPseudo f e (Some (-4)))) t).

Lemma pseudo_formulas_lawful C vinv : lawful C vinv -> pseudo_formulas_statement C.
Proof. intros [H1 H2] N rho e t. exact (pseudo_formulas C vinv H1 H2 rho e t). Qed.

Lemma xtring_sem_lawful C vinv : lawful C vinv ->
  forall cx subs be names shocks s l r x,
  side_written cx subs be s = Some (l, r) ->
  compile_side cx subs be names shocks s = Some x ->
  forall (X : Z -> Z -> val C) t,
    sem C X x t = vsub C (sem C (rho_model C names shocks X) r t) (sem C (rho_model C names shocks X) l t).
Proof. intros [H1 _]. exact (xtring_sem C H1). Qed.

(* when the anticipated shocks are zero the compiled dynamic equation is rhs - lhs as written *)
Lemma xtring_sem_no_anticipation C vinv : lawful C vinv ->
  forall cx subs be names shocks s l r x,
  side_written cx subs be s = Some (l, r) ->
  compile_side cx subs be names shocks s = Some x ->
  forall (X : Z -> Z -> val C),
    (forall n k, mem_s n shocks = true ->
       rho_names C (fun n => index_of n names 0) X (append ant_prefix n) k = vnum C 0 0) ->
    forall t, sem C X x t = vsub C (sem C (rho_names C (fun n => index_of n names 0) X) r t)
                                   (sem C (rho_names C (fun n => index_of n names 0) X) l t).
Proof.
  intros [H1 H2] cx subs be names shocks s l r x Hw Hc X Hz t.
  rewrite (xtring_sem C H1 _ _ _ _ _ _ _ _ _ Hw Hc X t).
  assert (E : forall n k, rho_model C names shocks X n k = rho_names C (fun n => index_of n names 0) X n k).
  { intros n k. unfold rho_model, rho_ant. destruct (mem_s n shocks) eqn:Em; [|reflexivity].
    rewrite (Hz n k Em). destruct H1. rewrite Radd_comm. apply Radd_0_l. }
  rewrite !(sem_ext C _ _ _ E). reflexivity.
Qed.

(* ------------------------------------------------------------------ *)
(* 9. non-vacuity: a lawful carrier (canonical rationals) and a model  *)
(* ------------------------------------------------------------------ *)
Open Scope string_scope.
Definition example_source : source :=
  [DText (IKeyword (BQty QTransitionVariable 2));
   DFor "?c" [TokName [Lit "a"]; TokName [Lit "b"]] ; DText (IQty [Lit "Var "; Ctl "?c" VPlain] [Lit "y_"; Ctl "?c" VPlain] (Some "g")); DEnd;
   DText (IKeyword (BQty QTransitionShock 0)); DText (IQty [] [Lit "e"] None);
   DText (IKeyword (BQty QParameter 0)); DText (IQty [] [Lit "rho"] None);
   DText (IKeyword (BLog false 0)); DText (ILogList "g");
   DText (IKeyword (BEqn KTransition 0));
   DFor "?c" [TokName [Lit "a"]; TokName [Lit "b"]];
     DText (IEqn [] (mkSide (EName [Lit "y_"; Ctl "?c" VPlain] (ShZ 0 Curly)) false
                            (EBin Add Caret (EBin Mul Caret (EName [Lit "rho"] (ShZ 0 Curly)) (EPseudo "diff" (EName [Lit "y_"; Ctl "?c" VPlain] (ShZ (-1) Curly)) None))
                                            (EName [Lit "e"] (ShZ 0 Square)))
                            [DIf (CdStrEq [Ctl "?c" VPlain] "b" false); DText (true, EName [Lit "y_a"] (ShZ 1 Curly)); DEnd])
                 None);
   DEnd].

Example example_compiles :
  compile [] true 100 example_source =
  COk (mkModel
    [mkQ "y_a" QTransitionVariable "Var a" (Some true); mkQ "y_b" QTransitionVariable "Var b" (Some true);
     mkQ "e" QTransitionShock "" None; mkQ "ant_e" QAnticipatedShockValue "(Anticipated value) e" None;
     mkQ "rho" QParameter "" None; mkQ "std_e" QTransitionStd "(Std) e" None]
    [CBin Add (CBin Add (CNeg (CName 0 0)) (CBin Mul (CName 4 0) (CBin Sub (CName 0 (-1)) (CName 0 (-2)))))
              (CBin Add (CName 2 0) (CName 3 0));
     CBin Add (CBin Add (CBin Add (CNeg (CName 1 0)) (CBin Mul (CName 4 0) (CBin Sub (CName 1 (-1)) (CName 1 (-2)))))
                        (CBin Add (CName 2 0) (CName 3 0)))
              (CName 0 1)]
    [CBin Add (CBin Add (CNeg (CName 0 0)) (CBin Mul (CName 4 0) (CBin Sub (CName 0 (-1)) (CName 0 (-2))))) (CName 2 0);
     CBin Add (CBin Add (CBin Add (CNeg (CName 1 0)) (CBin Mul (CName 4 0) (CBin Sub (CName 1 (-1)) (CName 1 (-2))))) (CName 2 0))
              (CName 0 1)]
    [""; ""]).
Proof. vm_compute. reflexivity. Qed.

From Coq Require Import QArith Qcanon.

Definition QcC : carrier := {|
  val := Qc;
  vadd := Qcplus; vsub := Qcminus; vmul := Qcmult; vdiv := Qcdiv; vpow := fun x _ => x; vneg := Qcopp;
  vnum := fun m d => Q2Qc (m # Pos.of_nat (Nat.pow 10 d));
  vfun := fun _ args => match args with x :: _ => x | [] => Q2Qc 0 end |}.

Lemma QcC_lawful : lawful QcC Qcinv.
Proof.
  split.
  - assert (E0 : vnum QcC 0 0 = 0%Qc) by (apply Qc_is_canon; reflexivity).
    assert (E1 : vnum QcC 1 0 = 1%Qc) by (apply Qc_is_canon; reflexivity).
    rewrite E0, E1. exact Qcrt.
  - intros x y. reflexivity.
Qed.


Lemma example_compiles_summary :
  exists m, compile [] true 100 example_source = COk m /\ List.length (m_dynamic m) = 2%nat
            /\ map q_name (m_quantities m) = ["y_a"; "y_b"; "e"; "ant_e"; "rho"; "std_e"]%string.
Proof. eexists. split; [exact example_compiles|]. split; reflexivity. Qed.
