(* Proofs about the codecs (model/Codecs.v): round trips and frequency conversion. *)
From Coq Require Import ZArith Bool Ascii String List Lia.
From Verif Require Import lib.Calendar lib.RegexSub lib.PyStr lib.DatesBase gen.DatesGen model.Dates model.Codecs
     proofs.DatesProofs.
Import ListNotations.
Open Scope Z_scope.

Local Ltac Zify.zify_post_hook ::= Z.div_mod_to_equations.

(* Python dates: to_python_date then from_python_date *)
Theorem pydate_roundtrip_regular : forall f s pos, is_regular_freq f = true -> 1 <= s / f <= MAXYEAR ->
  exists t, to_pydate pos (mkP f s) = Ok t /\ from_pydate f t = Ok (mkP f s).
Proof.
  intros f s pos R Y. destruct (ymd_roundtrip_regular f s pos R) as (y & m & d & A & B & Ey & Em & Ed).
  exists (y, m, d). unfold to_pydate. rewrite A. cbn [bind unpack_ymd].
  pose proof (regular_pos f R) as F. pose proof (Z.mod_pos_bound s f F) as MB.
  destruct (seg_months_range f (s mod f + 1) R ltac:(lia)) as (M1 & M2 & _).
  assert (date_ok y m d = true) as ->.
  { apply date_ok_spec. unfold valid_ymd. subst y. lia. }
  split; [reflexivity | exact B].
Qed.

Theorem pydate_roundtrip_daily : forall n pos, in_calendar n ->
  exists t, to_pydate pos (mkP freq_DAILY n) = Ok t /\ from_pydate freq_DAILY t = Ok (mkP freq_DAILY n).
Proof.
  intros n pos H. destruct (ymd_roundtrip_daily n pos H) as (y & m & d & A & B & E).
  exists (y, m, d). unfold to_pydate. rewrite A. cbn [bind unpack_ymd].
  assert (date_ok y m d = true) as ->.
  { apply date_ok_spec. pose proof (ymd_of_ord_valid n ltac:(destruct H; lia)) as V. rewrite <- E in V.
    split; [exact V |]. pose proof (ord_of_ymd_of_ord n) as W. rewrite <- E in W. destruct W as (_ & _ & _ & ->).
    apply (year_in_range n H). }
  split; [reflexivity | exact B].
Qed.

(* ------------------------------------------------------------------ frequency conversion *)

(* converting a period to another frequency returns the target period containing the chosen day of the source *)
Theorem refrequent_contains : forall p pos g, in_domain p -> cal_freq g ->
  exists r y m d a c,
    refrequent g pos p = Ok r /\ p_freq r = g /\ to_ymd pos p = Ok (y, m, d) /\
    to_ymd PStart r = Ok a /\ to_ymd PEnd r = Ok c /\
    ord3 a <= ord_of_ymd y m d <= ord3 c.
Proof.
  intros p pos g D G. destruct (domain_date p pos D) as (y & m & d & A & V & Y & _).
  destruct (from_ymd_contains g y m d G V Y) as (r & a & c & F & Fr & _ & Sa & Sc & _ & _ & O).
  exists r, y, m, d, a, c. unfold refrequent. rewrite A. cbn [bind unpack_ymd]. auto 10.
Qed.

(* dates are monotone in the serial *)
Lemma date_mono_regular : forall f s s' pos y m d y' m' d', is_regular_freq f = true -> s <= s' ->
  to_ymd pos (mkP f s) = Ok (y, m, d) -> to_ymd pos (mkP f s') = Ok (y', m', d') -> ymd_le (y, m, d) (y', m', d').
Proof.
  intros f s s' pos y m d y' m' d' R L A B.
  destruct (Z.eq_dec s s') as [-> |]; [left; congruence |]. right.
  destruct (ymd_roundtrip_regular f s pos R) as (y0 & m0 & d0 & A0 & _ & Ey & Em & Ed).
  destruct (ymd_roundtrip_regular f s' pos R) as (y1 & m1 & d1 & A1 & _ & Ey' & Em' & Ed').
  rewrite A in A0. rewrite B in A1. injection A0 as <- <- <-. injection A1 as <- <- <-.
  cbn [ymd_lt]. unfold seg_start_month, seg_end_month in *.
  destruct (regular_cases f R) as [-> | [-> | [-> | ->]]];
    [change (12 / 1) with 12 in * | change (12 / 2) with 6 in * | change (12 / 4) with 3 in * | change (12 / 12) with 1 in *];
    lia.
Qed.

Lemma date_mono_daily : forall n n' pos a b, in_calendar n -> in_calendar n' -> n <= n' ->
  to_ymd pos (mkP freq_DAILY n) = Ok a -> to_ymd pos (mkP freq_DAILY n') = Ok b -> ymd_le a b.
Proof.
  intros n n' pos a b C C' L A B.
  destruct (accessors_vs_calendar_daily n C) as (TA & _). destruct (accessors_vs_calendar_daily n' C') as (TB & _).
  rewrite TA in A. rewrite TB in B. injection A as <-. injection B as <-.
  pose proof (ymd_of_ord_valid n ltac:(destruct C; lia)) as V. pose proof (ymd_of_ord_valid n' ltac:(destruct C'; lia)) as V'.
  pose proof (ord_of_ymd_of_ord n) as W. pose proof (ord_of_ymd_of_ord n') as W'.
  destruct (ymd_of_ord n) as [[y m] d]. destruct (ymd_of_ord n') as [[y' m'] d'].
  destruct W as (W & _). destruct W' as (W' & _).
  apply ord_of_ymd_le_inv; try assumption. lia.
Qed.

(* from_ymd is monotone in the date *)
Lemma from_ymd_mono : forall g y m d y' m' d' r r', cal_freq g ->
  valid_ymd y m d -> valid_ymd y' m' d' -> y <= MAXYEAR -> y' <= MAXYEAR -> ymd_le (y, m, d) (y', m', d') ->
  from_ymd g y m d = Ok r -> from_ymd g y' m' d' = Ok r' -> p_serial r <= p_serial r'.
Proof.
  intros g y m d y' m' d' r r' [R | ->] V V' Y Y' L A B.
  - rewrite from_ymd_regular in A, B by assumption. injection A as <-. injection B as <-. cbn [p_serial].
    destruct V as (_ & M & _). destruct V' as (_ & M' & _).
    destruct (mts_spec g m R M) as (S & _). destruct (mts_spec g m' R M') as (S' & _). cbv zeta in S, S'.
    destruct L as [E | L]; [injection E as <- <- <-; lia |]. cbn [ymd_lt] in L.
    destruct L as [L | (<- & L)].
    + pose proof (regular_pos g R). nia.
    + pose proof (mts_mono g m m' R ltac:(lia)). lia.
  - unfold from_ymd in A, B. rewrite daily_kind in A, B. unfold gen_daily_from_ymd in A, B.
    rewrite (proj2 (date_ok_spec y m d) (conj V Y)) in A. rewrite (proj2 (date_ok_spec y' m' d') (conj V' Y')) in B.
    injection A as <-. injection B as <-. cbn [p_serial].
    destruct L as [E | L]; [injection E as <- <- <-; lia |].
    apply Z.lt_le_incl. apply ord_of_ymd_lt; assumption.
Qed.

(* frequency conversion is monotone *)
Theorem refrequent_monotone : forall p q pos g r r', in_domain p -> in_domain q -> cal_freq g ->
  p_freq p = p_freq q -> p_serial p <= p_serial q ->
  refrequent g pos p = Ok r -> refrequent g pos q = Ok r' -> p_freq r = p_freq r' /\ p_serial r <= p_serial r'.
Proof.
  intros p q pos g r r' Dp Dq G F L A B.
  destruct (domain_date p pos Dp) as (y & m & d & Ap & V & Y & _).
  destruct (domain_date q pos Dq) as (y' & m' & d' & Aq & V' & Y' & _).
  unfold refrequent in A, B. rewrite Ap in A. rewrite Aq in B. cbn [bind unpack_ymd] in A, B.
  split.
  - destruct (from_ymd_contains g y m d G V Y) as (r0 & _ & _ & F0 & Fr0 & _).
    destruct (from_ymd_contains g y' m' d' G V' Y') as (r1 & _ & _ & F1 & Fr1 & _). congruence.
  - apply (from_ymd_mono g y m d y' m' d' r r' G V V' Y Y'); try assumption.
    destruct p as [f s], q as [f' s']. cbn [p_freq p_serial] in *. subst f'.
    destruct Dp as [[R _] | [E C]]; cbn [p_freq p_serial] in *.
    + apply (date_mono_regular f s s' pos); assumption.
    + subst f. destruct Dq as [[R' _] | [_ C']]; cbn [p_freq p_serial] in *; [discriminate |].
      apply (date_mono_daily s s' pos); assumption.
Qed.

(* coarse -> fine -> coarse never leaves the original coarse period *)
Definition finer (f g : Z) : Prop :=
  is_regular_freq f = true /\ ((is_regular_freq g = true /\ g mod f = 0) \/ g = freq_DAILY).

Lemma nesting : forall f g m m', is_regular_freq f = true -> is_regular_freq g = true -> g mod f = 0 ->
  month_to_segment g m' = month_to_segment g m -> month_to_segment f m' = month_to_segment f m.
Proof.
  intros f g m m' Rf Rg D E.
  destruct (mts_cases m) as (A1 & A2 & A3 & A4). destruct (mts_cases m') as (B1 & B2 & B3 & B4).
  destruct (regular_cases f Rf) as [-> | [-> | [-> | ->]]]; destruct (regular_cases g Rg) as [-> | [-> | [-> | ->]]];
    try (cbv in D; discriminate); lia.
Qed.

Theorem coarse_fine_coarse : forall f g s pos1 pos2, finer f g -> 1 <= s / f <= MAXYEAR ->
  exists r, refrequent g pos1 (mkP f s) = Ok r /\ p_freq r = g /\ refrequent f pos2 r = Ok (mkP f s).
Proof.
  intros f g s pos1 pos2 (Rf & G) Y.
  destruct (ymd_roundtrip_regular f s pos1 Rf) as (y & m & d & A & B & Ey & Em & Ed).
  pose proof (regular_pos f Rf) as F. pose proof (Z.mod_pos_bound s f F) as MB.
  destruct (seg_months_range f (s mod f + 1) Rf ltac:(lia)) as (M1 & M2 & _).
  assert (V : valid_ymd y m d) by (unfold valid_ymd; subst y; lia).
  assert (YM : y <= MAXYEAR) by (subst y; lia).
  unfold refrequent at 1. rewrite A. cbn [bind unpack_ymd].
  destruct G as [(Rg & D) | ->].
  - (* regular finer target *)
    pose proof (regular_pos g Rg) as Fg.
    destruct (mts_spec g m Rg ltac:(lia)) as (S & Sm). cbv zeta in S, Sm.
    set (seg' := month_to_segment g m) in *.
    destruct (year_seg_of_serial g y seg' Fg S) as (Ey' & Es').
    exists (mkP g (y * g + seg' - 1)). split; [apply from_ymd_regular; assumption |]. split; [reflexivity |].
    destruct (ymd_roundtrip_regular g (y * g + seg' - 1) pos2 Rg) as (y2 & m2 & d2 & A2 & _ & Ey2 & Em2 & _).
    rewrite Ey' in Ey2. rewrite Es' in Em2. subst y2.
    unfold refrequent. rewrite A2. cbn [bind unpack_ymd]. rewrite from_ymd_regular by assumption. f_equal. f_equal.
    assert (month_to_segment g m2 = seg') by (apply mts_of_segment; assumption).
    rewrite (nesting f g m m2 Rf Rg D H).
    rewrite (mts_of_segment f (s mod f + 1) m Rf) by lia.
    subst y. pose proof (Z.div_mod s f). lia.
  - (* daily target: the chosen day itself *)
    pose proof (ord_in_calendar y m d V YM) as C.
    exists (mkP freq_DAILY (ord_of_ymd y m d)).
    split. { unfold from_ymd. rewrite daily_kind. unfold gen_daily_from_ymd.
             rewrite (proj2 (date_ok_spec y m d) (conj V YM)). reflexivity. }
    split; [reflexivity |].
    destruct (accessors_vs_calendar_daily _ C) as (TA & _).
    unfold refrequent. rewrite TA, ymd_of_ord_of_ymd by assumption. cbn [bind unpack_ymd]. exact B.
Qed.

(* ------------------------------------------------------------------ strings: helper lemmas *)

Definition zp (w : nat) (n : Z) : str := pad w "0" (dec_nat n).

Lemma fmt_g_zero : forall n w, 0 <= n < 1000000 -> fmt_g n w true = Some (zp w n).
Proof.
  intros n w H. unfold fmt_g. destruct (Z.leb_spec 0 n); [| lia]. destruct (Z.ltb_spec n 1000000); [| lia]. reflexivity.
Qed.

Lemma fmt_g_one : forall n, 0 <= n < 10 -> fmt_g n 1 false = Some [digit_char n].
Proof.
  intros n H. unfold fmt_g. destruct (Z.leb_spec 0 n); [| lia]. destruct (Z.ltb_spec n 1000000); [| lia].
  rewrite dec_nat_small by lia. reflexivity.
Qed.

Lemma zp_digits : forall w n, 0 <= n -> all_digits (zp w n) = true /\ zp w n <> [] /\ parse_int (zp w n) = Some n.
Proof.
  intros w n H. destruct (dec_nat_digits n H) as [D N]. unfold zp.
  split; [apply pad0_digits; assumption |]. split; [apply pad_nonempty; assumption | apply parse_int_pad0; assumption].
Qed.

Lemma zp_length : forall w n, 0 <= n < 10 ^ Z.of_nat w -> (1 <= w)%nat -> length (zp w n) = w.
Proof.
  intros w n H W. unfold zp. rewrite pad_length. destruct w as [| k]; [lia |].
  pose proof (dec_nat_length n k H). lia.
Qed.

Lemma digit1 : forall n, 0 <= n <= 9 -> all_digits [digit_char n] = true /\ parse_int [digit_char n] = Some n.
Proof.
  intros n H. destruct (digit_char_spec n H) as [D V]. split; [cbn; rewrite D; reflexivity |].
  rewrite parse_int_digits; [| discriminate | cbn; rewrite D; reflexivity].
  unfold digits_value; cbn; rewrite V; try reflexivity; f_equal; lia.
Qed.

Lemma all_digits_hd : forall s c, all_digits s = true -> hd_error s = Some c -> is_digit c = true.
Proof. intros [| x t] c D H; [discriminate |]. cbn in *. injection H as <-. apply andb_true_iff in D. apply D. Qed.

Lemma all_digits_last : forall s c, all_digits s = true -> hd_error (rev s) = Some c -> is_digit c = true.
Proof.
  intros s c D H. assert (In c s).
  { apply in_rev. destruct (rev s); [discriminate |]. cbn in H. injection H as <-. left. reflexivity. }
  unfold all_digits in D. rewrite forallb_forall in D. auto.
Qed.

Lemma hd_error_app : forall (a b : str), a <> [] -> hd_error (a ++ b) = hd_error a.
Proof. intros [| x t] b H; [congruence | reflexivity]. Qed.

(* a string that starts and ends with non-blank characters is not changed by strip() *)
Lemma strip_ends : forall a mid b, a <> [] -> b <> [] ->
  (forall c, hd_error a = Some c -> is_space c = false) -> (forall c, hd_error (rev b) = Some c -> is_space c = false) ->
  strip (a ++ mid ++ b) = a ++ mid ++ b.
Proof.
  intros a mid b Na Nb Ha Hb.
  destruct a as [| x a']; [congruence |]. destruct (rev b) as [| z b'] eqn:E.
  { apply (f_equal (@rev ascii)) in E. rewrite rev_involutive in E. cbn in E. congruence. }
  apply (strip_id _ x z).
  - discriminate.
  - reflexivity.
  - rewrite app_assoc, rev_app_distr, E. reflexivity.
  - apply Ha. reflexivity.
  - apply Hb. reflexivity.
Qed.

Lemma strip_digit_ends : forall a mid b, a <> [] -> b <> [] -> all_digits a = true -> all_digits b = true ->
  strip (a ++ mid ++ b) = a ++ mid ++ b.
Proof.
  intros a mid b Na Nb Da Db. apply strip_ends; try assumption.
  - intros c H. apply digit_not_space. apply (all_digits_hd a); assumption.
  - intros c H. apply digit_not_space. apply (all_digits_last b); assumption.
Qed.

Lemma strip_digits : forall a, a <> [] -> all_digits a = true -> strip a = a.
Proof.
  intros a N D. destruct a as [| x t]; [congruence |].
  destruct (rev (x :: t)) as [| z b'] eqn:E.
  { apply (f_equal (@rev ascii)) in E. rewrite rev_involutive in E. discriminate. }
  apply (strip_id _ x z).
  - discriminate.
  - reflexivity.
  - rewrite E. reflexivity.
  - apply digit_not_space. apply (all_digits_hd (x :: t)); [assumption | reflexivity].
  - apply digit_not_space. apply (all_digits_last (x :: t)); [assumption | rewrite E; reflexivity].
Qed.

Lemma removesuffix_last : forall c x, removesuffix [c] (x ++ [c]) = x.
Proof.
  intros c x. unfold removesuffix. rewrite rev_app_distr. cbn [rev app is_prefix]. rewrite Ascii.eqb_refl. cbn [andb].
  rewrite app_length. cbn [length]. replace (length x + 1 - 1)%nat with (length x) by lia.
  rewrite firstn_app, Nat.sub_diag, firstn_all. cbn. apply app_nil_r.
Qed.

Lemma dash_not_digit : is_digit "-" = false.
Proof. reflexivity. Qed.

(* "dddd-dd-dd" and friends split into their digit groups *)
Lemma split3 : forall a b c, all_digits a = true -> all_digits b = true -> all_digits c = true ->
  split_on (s2l "-") (a ++ s2l "-" ++ b ++ s2l "-" ++ c) = [a; b; c].
Proof.
  intros a b c Da Db Dc. change (s2l "-") with ("-"%char :: []).
  rewrite split_on_digits_sep by (assumption || reflexivity).
  rewrite split_on_digits_sep by (assumption || reflexivity).
  rewrite split_on_digits_end by (assumption || reflexivity). reflexivity.
Qed.

Lemma split2 : forall sep a b, all_digits a = true -> all_digits b = true ->
  split_on ("-"%char :: sep) (a ++ ("-"%char :: sep) ++ b) = [a; b].
Proof.
  intros sep a b Da Db. rewrite split_on_digits_sep by (assumption || reflexivity).
  rewrite split_on_digits_end by (assumption || reflexivity). reflexivity.
Qed.

(* ------------------------------------------------------------------ ISO strings *)

Lemma to_iso_string_form : forall y m d, 0 <= y < 1000000 -> 0 <= m < 1000000 -> 0 <= d < 1000000 ->
  render (gen_to_iso y m d) = Some (zp 4 y ++ s2l "-" ++ zp 2 m ++ s2l "-" ++ zp 2 d).
Proof.
  intros y m d Y M D. unfold gen_to_iso. cbn [render render_piece].
  rewrite !fmt_g_zero by assumption. cbn [s2l list_ascii_of_string app]. rewrite app_nil_r. reflexivity.
Qed.

Lemma from_iso_of_form : forall f y m d, 0 <= y -> 0 <= m -> 0 <= d ->
  from_iso f (zp 4 y ++ s2l "-" ++ zp 2 m ++ s2l "-" ++ zp 2 d) = from_ymd f y m d.
Proof.
  intros f y m d Y M D. unfold from_iso.
  destruct (zp_digits 4 y Y) as (D1 & _ & P1). destruct (zp_digits 2 m M) as (D2 & _ & P2).
  destruct (zp_digits 2 d D) as (D3 & _ & P3).
  change (s2l gen_iso_sep) with (s2l "-"). rewrite split3 by assumption. rewrite P1, P2, P3. reflexivity.
Qed.

(* to_iso_string at any position, then from_iso_string with the same frequency *)
Theorem iso_roundtrip : forall p pos, in_domain p ->
  exists x, to_iso pos p = Ok x /\ from_iso (p_freq p) x = Ok p.
Proof.
  intros p pos D. destruct (domain_date p pos D) as (y & m & d & A & V & Y & B).
  destruct V as (V1 & V2 & V3). pose proof (dim_range y m). unfold MAXYEAR in Y.
  eexists. unfold to_iso. rewrite A. cbn [bind unpack_ymd]. rewrite to_iso_string_form by lia. cbn [of_opt].
  split; [reflexivity |]. rewrite from_iso_of_form by lia. exact B.
Qed.

(* ------------------------------------------------------------------ SDMX strings: encode, decode *)

Ltac freq_tests :=
  repeat match goal with
         | |- context [Z.eqb ?a ?b] =>
             let v := eval vm_compute in (Z.eqb a b) in
             match v with true => idtac | false => idtac end; change (Z.eqb a b) with v
         end; cbv iota.

Lemma all_some_map_some : forall (T : Type) (l : list T), all_some (map Some l) = Some l.
Proof. induction l; cbn; [reflexivity | rewrite IHl; reflexivity]. Qed.

Lemma removeprefix_nil : forall s, removeprefix [] s = s.
Proof. reflexivity. Qed.

Lemma removesuffix_nil : forall s, removesuffix [] s = s.
Proof. reflexivity. Qed.

Lemma parse_with_simple : forall ps s pieces ints,
  (if sp_strip ps then strip s else s) = s ->
  sp_prefix ps = ""%string -> sp_suffix ps = ""%string ->
  match sp_sep ps with None => [s] | Some sep => split_on (s2l sep) s end = pieces ->
  length pieces = sp_npieces ps ->
  map parse_int pieces = map Some ints ->
  parse_with ps s = sp_build ps ints.
Proof.
  intros ps s pieces ints St Pf Sf Sp Ln Pi. unfold parse_with. rewrite St, Pf, Sf.
  change (s2l "") with (@nil ascii). rewrite removeprefix_nil, removesuffix_nil, Sp, Ln, Nat.eqb_refl. cbn [orb].
  rewrite <- Ln, firstn_all, Pi, all_some_map_some. reflexivity.
Qed.

(* text of to_sdmx_string for each class *)
Lemma sdmx_text_Y : forall s, 0 <= s < 1000000 -> to_sdmx (mkP freq_YEARLY s) = Ok (zp 4 s).
Proof.
  intros s H. unfold to_sdmx, sdmx_pieces. cbn [p_freq p_serial]. freq_tests. unfold gen_to_sdmx_YEARLY.
  cbn [of_opt bind render render_piece]. change freq_YEARLY with 1. rewrite Z.div_1_r, fmt_g_zero by assumption.
  cbn [of_opt]. rewrite app_nil_r. reflexivity.
Qed.

Lemma sdmx_text_HQ : forall f (L : string) s, (f = freq_HALFYEARLY /\ L = "H"%string) \/ (f = freq_QUARTERLY /\ L = "Q"%string) ->
  0 <= s / f < 1000000 ->
  to_sdmx (mkP f s) = Ok (zp 4 (s / f) ++ ("-"%char :: s2l L) ++ [digit_char (s mod f + 1)]).
Proof.
  intros f L s [[-> ->] | [-> ->]] H.
  - assert (M : 0 <= s mod freq_HALFYEARLY + 1 < 10)
      by (pose proof (Z.mod_pos_bound s freq_HALFYEARLY eq_refl); unfold freq_HALFYEARLY in *; lia).
    unfold to_sdmx, sdmx_pieces; cbn [p_freq p_serial]; freq_tests.
    unfold gen_to_sdmx_HALFYEARLY; cbn [of_opt bind render render_piece].
    rewrite fmt_g_zero, fmt_g_one by assumption; cbn [of_opt s2l list_ascii_of_string app]; reflexivity.
  - assert (M : 0 <= s mod freq_QUARTERLY + 1 < 10)
      by (pose proof (Z.mod_pos_bound s freq_QUARTERLY eq_refl); unfold freq_QUARTERLY in *; lia).
    unfold to_sdmx, sdmx_pieces; cbn [p_freq p_serial]; freq_tests.
    unfold gen_to_sdmx_QUARTERLY; cbn [of_opt bind render render_piece].
    rewrite fmt_g_zero, fmt_g_one by assumption; cbn [of_opt s2l list_ascii_of_string app]; reflexivity.
Qed.

Lemma sdmx_text_M : forall s, 0 <= s / freq_MONTHLY < 1000000 ->
  to_sdmx (mkP freq_MONTHLY s) = Ok (zp 4 (s / freq_MONTHLY) ++ s2l "-" ++ zp 2 (s mod freq_MONTHLY + 1)).
Proof.
  intros s H.
  assert (M : 0 <= s mod freq_MONTHLY + 1 < 1000000)
    by (pose proof (Z.mod_pos_bound s freq_MONTHLY eq_refl); unfold freq_MONTHLY in *; lia).
  unfold to_sdmx, sdmx_pieces. cbn [p_freq p_serial]. freq_tests. unfold gen_to_sdmx_MONTHLY.
  cbn [of_opt bind render render_piece]. rewrite !fmt_g_zero by assumption.
  cbn [of_opt s2l list_ascii_of_string app]. rewrite app_nil_r. reflexivity.
Qed.

Lemma sdmx_text_D : forall n, in_calendar n ->
  to_sdmx (mkP freq_DAILY n) = Ok (zp 4 (year_of_ord n) ++ s2l "-" ++ zp 2 (month_of_ord n) ++ s2l "-" ++ zp 2 (day_of_ord n)).
Proof.
  intros n C. pose proof (ord_ok_true n C) as O.
  pose proof (year_in_range n C) as Y. unfold MINYEAR, MAXYEAR in Y.
  pose proof (ord_of_ymd_of_ord n) as W. rewrite <- ymd_of_ord_eta in W. destruct W as (_ & Wm & Wd & _).
  pose proof (dim_range (year_of_ord n) (month_of_ord n)).
  unfold to_sdmx, sdmx_pieces. cbn [p_freq p_serial]. freq_tests. unfold gen_to_sdmx_DAILY. rewrite O.
  cbn [of_opt bind render render_piece]. rewrite !fmt_g_zero by lia.
  cbn [of_opt s2l list_ascii_of_string app]. rewrite app_nil_r. reflexivity.
Qed.

Lemma sdmx_text_I : forall n, to_sdmx (mkP freq_INTEGER n) = Ok ("("%char :: dec_int n ++ [")"%char]).
Proof.
  intros n. unfold to_sdmx, sdmx_pieces. cbn [p_freq p_serial]. freq_tests. unfold gen_to_sdmx_INTEGER.
  cbn [of_opt bind render render_piece s2l list_ascii_of_string app]. rewrite ?app_nil_r. reflexivity.
Qed.

(* decoding with the frequency given *)
Lemma from_sdmx_Y : forall s, 0 <= s -> from_sdmx_as freq_YEARLY (zp 4 s) = Ok (mkP freq_YEARLY s).
Proof.
  intros s H. destruct (zp_digits 4 s H) as (D & N & P).
  unfold from_sdmx_as, parser_of. freq_tests.
  rewrite (parse_with_simple gen_from_sdmx_YEARLY (zp 4 s) [zp 4 s] [s]); try reflexivity.
  - cbn [sp_strip gen_from_sdmx_YEARLY]. apply strip_digits; assumption.
  - cbn [map]. rewrite P. reflexivity.
Qed.

Lemma from_sdmx_HQ : forall f (L : string) y seg, (f = freq_HALFYEARLY /\ L = "H"%string) \/ (f = freq_QUARTERLY /\ L = "Q"%string) ->
  0 <= y -> 0 <= seg <= 9 ->
  from_sdmx_as f (zp 4 y ++ ("-"%char :: s2l L) ++ [digit_char seg]) = Ok (mkP f (y * f + seg - 1)).
Proof.
  intros f L y seg FL Y S. destruct (zp_digits 4 y Y) as (D & N & P). destruct (digit1 seg S) as (D1 & P1).
  unfold from_sdmx_as, parser_of.
  destruct FL as [[-> ->] | [-> ->]]; freq_tests;
    [rewrite (parse_with_simple gen_from_sdmx_HALFYEARLY _ [zp 4 y; [digit_char seg]] [y; seg])
    |rewrite (parse_with_simple gen_from_sdmx_QUARTERLY _ [zp 4 y; [digit_char seg]] [y; seg])]; try reflexivity;
    try (cbn [sp_strip gen_from_sdmx_HALFYEARLY gen_from_sdmx_QUARTERLY]; apply strip_digit_ends; (assumption || discriminate));
    try (cbn [sp_sep gen_from_sdmx_HALFYEARLY gen_from_sdmx_QUARTERLY s2l list_ascii_of_string]; apply split2; assumption);
    try (cbn [map]; rewrite P, P1; reflexivity).
Qed.

Lemma from_sdmx_M : forall y seg, 0 <= y -> 0 <= seg ->
  from_sdmx_as freq_MONTHLY (zp 4 y ++ s2l "-" ++ zp 2 seg) = Ok (mkP freq_MONTHLY (y * freq_MONTHLY + seg - 1)).
Proof.
  intros y seg Y S. destruct (zp_digits 4 y Y) as (D & N & P). destruct (zp_digits 2 seg S) as (D1 & N1 & P1).
  unfold from_sdmx_as, parser_of. freq_tests.
  rewrite (parse_with_simple gen_from_sdmx_MONTHLY _ [zp 4 y; zp 2 seg] [y; seg]); try reflexivity.
  - cbn [sp_strip gen_from_sdmx_MONTHLY]. apply strip_digit_ends; assumption.
  - cbn [sp_sep gen_from_sdmx_MONTHLY s2l list_ascii_of_string]. apply (split2 []); assumption.
  - cbn [map]. rewrite P, P1. reflexivity.
Qed.

Lemma from_sdmx_D : forall y m d, valid_ymd y m d -> y <= MAXYEAR ->
  from_sdmx_as freq_DAILY (zp 4 y ++ s2l "-" ++ zp 2 m ++ s2l "-" ++ zp 2 d) = Ok (mkP freq_DAILY (ord_of_ymd y m d)).
Proof.
  intros y m d V Y. pose proof V as (V1 & V2 & V3).
  destruct (zp_digits 4 y ltac:(lia)) as (D1 & _ & P1). destruct (zp_digits 2 m ltac:(lia)) as (D2 & _ & P2).
  destruct (zp_digits 2 d ltac:(lia)) as (D3 & _ & P3).
  unfold from_sdmx_as, parser_of. freq_tests.
  rewrite (parse_with_simple gen_from_sdmx_DAILY _ [zp 4 y; zp 2 m; zp 2 d] [y; m; d]); try reflexivity.
  - cbn [sp_build gen_from_sdmx_DAILY nth]. rewrite (proj2 (date_ok_spec y m d) (conj V Y)). reflexivity.
  - cbn [sp_sep gen_from_sdmx_DAILY]. apply split3; assumption.
  - cbn [map]. rewrite P1, P2, P3. reflexivity.
Qed.

Lemma from_sdmx_I : forall n, from_sdmx_as freq_INTEGER ("("%char :: dec_int n ++ [")"%char]) = Ok (mkP freq_INTEGER n).
Proof.
  intros n. unfold from_sdmx_as, parser_of. freq_tests. unfold parse_with.
  cbn [sp_strip sp_prefix sp_suffix sp_sep sp_npieces sp_star sp_build gen_from_sdmx_INTEGER s2l list_ascii_of_string].
  assert (ST : strip ("("%char :: dec_int n ++ [")"%char]) = "("%char :: dec_int n ++ [")"%char]).
  { apply (strip_ends ["("%char] (dec_int n) [")"%char]); try discriminate;
      intros c H; cbn in H; injection H as <-; reflexivity. }
  rewrite ST. unfold removeprefix. cbn [is_prefix Ascii.eqb Bool.eqb andb length skipn].
  rewrite removesuffix_last. cbn [length Nat.eqb orb firstn map]. rewrite parse_int_dec_int. reflexivity.
Qed.

(* ------------------------------------------------------------------ SDMX: round trip and auto-detection *)

Lemma zp4_explicit : forall n, 0 <= n <= 9999 -> exists c1 c2 c3 c4,
  zp 4 n = [c1; c2; c3; c4] /\ is_digit c1 = true /\ is_digit c2 = true /\ is_digit c3 = true /\ is_digit c4 = true.
Proof.
  intros n H. destruct (zp_digits 4 n ltac:(lia)) as (D & _ & _).
  pose proof (zp_length 4 n ltac:(change (10 ^ Z.of_nat 4) with 10000; lia) ltac:(lia)) as L.
  destruct (zp 4 n) as [| c1 [| c2 [| c3 [| c4 [| c5 t]]]]]; try discriminate.
  exists c1, c2, c3, c4. cbn in D. rewrite !andb_true_iff in D. intuition.
Qed.

Lemma zp2_explicit : forall n, 0 <= n <= 99 -> exists c1 c2,
  zp 2 n = [c1; c2] /\ is_digit c1 = true /\ is_digit c2 = true.
Proof.
  intros n H. destruct (zp_digits 2 n ltac:(lia)) as (D & _ & _).
  pose proof (zp_length 2 n ltac:(change (10 ^ Z.of_nat 2) with 100; lia) ltac:(lia)) as L.
  destruct (zp 2 n) as [| c1 [| c2 [| c3 t]]]; try discriminate.
  exists c1, c2. cbn in D. rewrite !andb_true_iff in D. intuition.
Qed.

Lemma digit_neq : forall c x, is_digit c = true -> is_digit x = false -> Ascii.eqb c x = false /\ Ascii.eqb x c = false.
Proof.
  intros c x Dc Dx. split; [destruct (Ascii.eqb_spec c x) | destruct (Ascii.eqb_spec x c)]; try reflexivity; subst; congruence.
Qed.

Ltac use_atoms := repeat (erewrite atoms_of_sound by reflexivity).

Ltac detect_compute :=
  unfold detect_in, gen_sdmx_formats; use_atoms;
  cbn [app length Nat.eqb atoms_match atom_match andb orb];
  repeat match goal with H : is_digit _ = true |- _ => rewrite H end;
  repeat match goal with
         | H : is_digit ?c = true |- context [Ascii.eqb ?c ?x] => rewrite (proj1 (digit_neq c x H eq_refl))
         | H : is_digit ?c = true |- context [Ascii.eqb ?x ?c] => rewrite (proj2 (digit_neq c x H eq_refl))
         end;
  cbn [app length Nat.eqb atoms_match atom_match andb orb Ascii.eqb Bool.eqb existsb].

Lemma detect_Y : forall s, 1 <= s <= 9999 -> detect (zp 4 s) = Some freq_YEARLY.
Proof.
  intros s H. destruct (zp_digits 4 s ltac:(lia)) as (D & N & _).
  unfold detect. rewrite strip_digits by assumption.
  destruct (zp4_explicit s ltac:(lia)) as (c1 & c2 & c3 & c4 & -> & D1 & D2 & D3 & D4).
  detect_compute. reflexivity.
Qed.

Lemma detect_HQ : forall f (L : ascii) y seg, (f = freq_HALFYEARLY /\ L = "H"%char) \/ (f = freq_QUARTERLY /\ L = "Q"%char) ->
  0 <= y <= 9999 -> 0 <= seg <= 9 ->
  detect (zp 4 y ++ ["-"%char; L] ++ [digit_char seg]) = Some f.
Proof.
  intros f L y seg FL Y S. destruct (zp_digits 4 y ltac:(lia)) as (D & N & _). destruct (digit1 seg S) as (Dg & _).
  unfold detect. rewrite strip_digit_ends by (assumption || discriminate).
  destruct (zp4_explicit y Y) as (c1 & c2 & c3 & c4 & -> & D1 & D2 & D3 & D4).
  assert (D5 : is_digit (digit_char seg) = true) by (apply (digit_char_spec seg S)).
  destruct FL as [[-> ->] | [-> ->]]; cbn [app]; detect_compute; reflexivity.
Qed.

Lemma detect_M : forall y seg, 0 <= y <= 9999 -> 0 <= seg <= 99 ->
  detect (zp 4 y ++ s2l "-" ++ zp 2 seg) = Some freq_MONTHLY.
Proof.
  intros y seg Y S. destruct (zp_digits 4 y ltac:(lia)) as (D & N & _). destruct (zp_digits 2 seg ltac:(lia)) as (D' & N' & _).
  unfold detect. rewrite strip_digit_ends by assumption.
  destruct (zp4_explicit y Y) as (c1 & c2 & c3 & c4 & -> & D1 & D2 & D3 & D4).
  destruct (zp2_explicit seg S) as (c5 & c6 & -> & D5 & D6).
  cbn [app s2l list_ascii_of_string]. detect_compute. reflexivity.
Qed.

Lemma detect_D : forall y m d, 0 <= y <= 9999 -> 0 <= m <= 99 -> 0 <= d <= 99 ->
  detect (zp 4 y ++ s2l "-" ++ zp 2 m ++ s2l "-" ++ zp 2 d) = Some freq_DAILY.
Proof.
  intros y m d Y M Dd. destruct (zp_digits 4 y ltac:(lia)) as (D & N & _). destruct (zp_digits 2 d ltac:(lia)) as (D' & N' & _).
  unfold detect.
  replace (zp 4 y ++ s2l "-" ++ zp 2 m ++ s2l "-" ++ zp 2 d) with (zp 4 y ++ (s2l "-" ++ zp 2 m ++ s2l "-") ++ zp 2 d)
    by (rewrite <- !app_assoc; reflexivity).
  rewrite strip_digit_ends by assumption.
  destruct (zp4_explicit y Y) as (c1 & c2 & c3 & c4 & -> & D1 & D2 & D3 & D4).
  destruct (zp2_explicit m M) as (c5 & c6 & -> & D5 & D6). destruct (zp2_explicit d Dd) as (c7 & c8 & -> & D7 & D8).
  cbn [app s2l list_ascii_of_string]. detect_compute. reflexivity.
Qed.

(* the integer pattern: "(" then an optional sign then digits then ")" *)
Lemma matches_int_text : forall n,
  Matches (seq_of [Chr "("; Opt (Cls ["-"; "+"]%char); Plus Digit; Chr ")"]%char) ("("%char :: dec_int n ++ [")"%char]).
Proof.
  intros n. cbn [seq_of]. apply (MSeq _ _ ["("%char]); [constructor |].
  unfold dec_int. destruct (Z.ltb_spec n 0).
  - destruct (dec_nat_digits (- n) ltac:(lia)) as (D & N).
    apply (MSeq _ _ ["-"%char] (dec_nat (- n) ++ [")"%char])).
    + apply MOptSome. constructor. left. reflexivity.
    + apply MSeq; [apply matches_plus_digits; assumption |].
      rewrite <- (app_nil_r [")"%char]). apply MSeq; constructor.
  - destruct (dec_nat_digits n ltac:(lia)) as (D & N).
    apply (MSeq _ _ [] (dec_nat n ++ [")"%char])); [apply MOptNone |].
    apply MSeq; [apply matches_plus_digits; assumption |].
    rewrite <- (app_nil_r [")"%char]). apply MSeq; constructor.
Qed.

Lemma detect_I : forall n, detect ("("%char :: dec_int n ++ [")"%char]) = Some freq_INTEGER.
Proof.
  intros n. unfold detect.
  assert (ST : strip ("("%char :: dec_int n ++ [")"%char]) = "("%char :: dec_int n ++ [")"%char]).
  { apply (strip_ends ["("%char] (dec_int n) [")"%char]); try discriminate;
      intros c H; cbn in H; injection H as <-; reflexivity. }
  rewrite ST. unfold detect_in, gen_sdmx_formats. use_atoms.
  cbn [app atoms_match atom_match andb]. change (is_digit "(") with false. cbn [andb]. rewrite !andb_false_r.
  rewrite (proj2 (fullmatch_spec _ _) (matches_int_text n)). reflexivity.
Qed.

(* for every period of every class: the text produced by to_sdmx_string is decoded to the same period, both with the
   frequency given and with the frequency auto-detected from the text *)
Definition sdmx_domain (p : period) : Prop :=
  in_domain p \/ p_freq p = freq_INTEGER.

Theorem sdmx_roundtrip_autodetect : forall p, sdmx_domain p ->
  exists x, to_sdmx p = Ok x /\ from_sdmx_as (p_freq p) x = Ok p /\ detect x = Some (p_freq p) /\ from_sdmx x = Ok p.
Proof.
  intros [f s] D.
  assert (G : forall x, to_sdmx (mkP f s) = Ok x -> from_sdmx_as f x = Ok (mkP f s) -> detect x = Some f ->
              exists x0, to_sdmx (mkP f s) = Ok x0 /\ from_sdmx_as f x0 = Ok (mkP f s) /\ detect x0 = Some f /\
                         from_sdmx x0 = Ok (mkP f s)).
  { intros x A B C. exists x. unfold from_sdmx. rewrite C. auto. }
  destruct D as [[[R Y] | [E C]] | E]; cbn [p_freq p_serial] in *.
  - pose proof (regular_pos f R) as F. pose proof (Z.mod_pos_bound s f F) as MB. unfold MAXYEAR in Y.
    pose proof (Z.div_mod s f ltac:(lia)) as DM.
    destruct (regular_cases f R) as [-> | [-> | [-> | ->]]].
    + rewrite Z.div_1_r in Y. apply (G (zp 4 s)); [apply sdmx_text_Y; lia | apply from_sdmx_Y; lia | apply detect_Y; lia].
    + apply (G (zp 4 (s / 2) ++ ("-"%char :: s2l "H") ++ [digit_char (s mod 2 + 1)])).
      * apply (sdmx_text_HQ 2 "H"); [left; auto | lia].
      * rewrite (from_sdmx_HQ 2 "H") by (try (left; split; reflexivity); lia). f_equal. f_equal. lia.
      * apply (detect_HQ 2 "H"); [left; auto | lia | lia].
    + apply (G (zp 4 (s / 4) ++ ("-"%char :: s2l "Q") ++ [digit_char (s mod 4 + 1)])).
      * apply (sdmx_text_HQ 4 "Q"); [right; auto | lia].
      * rewrite (from_sdmx_HQ 4 "Q") by (try (right; split; reflexivity); lia). f_equal. f_equal. lia.
      * apply (detect_HQ 4 "Q"); [right; auto | lia | lia].
    + apply (G (zp 4 (s / 12) ++ s2l "-" ++ zp 2 (s mod 12 + 1))).
      * apply sdmx_text_M. change freq_MONTHLY with 12. lia.
      * change 12 with freq_MONTHLY at 4. rewrite from_sdmx_M by lia. f_equal. f_equal. change freq_MONTHLY with 12. lia.
      * apply detect_M; lia.
  - subst f.
    pose proof (year_in_range s C) as Y. unfold MINYEAR, MAXYEAR in Y.
    pose proof (ord_of_ymd_of_ord s) as W. rewrite <- ymd_of_ord_eta in W. destruct W as (W1 & Wm & Wd & _).
    pose proof (dim_range (year_of_ord s) (month_of_ord s)).
    apply (G _ (sdmx_text_D s C)).
    + rewrite from_sdmx_D; [rewrite W1; reflexivity | unfold valid_ymd; lia | unfold MAXYEAR; lia].
    + apply detect_D; lia.
  - subst f. apply (G _ (sdmx_text_I s)); [apply from_sdmx_I | apply detect_I].
Qed.

(* ------------------------------------------------------------------ repr *)

(* eval(repr(p)) on the structured term: the constructor named in the text applied to the integers in the text *)
Theorem repr_roundtrip : forall p, sdmx_domain p ->
  exists t, repr_term p = Ok t /\ eval_term t = Ok p.
Proof.
  intros [f s] D. destruct D as [[[R Y] | [E C]] | E]; cbn [p_freq p_serial] in *.
  - destruct (accessors_vs_calendar_regular f s R) as (_ & _ & _ & _ & FY & _). cbv zeta in FY.
    destruct (regular_cases f R) as [-> | [-> | [-> | ->]]]; eexists;
      (split; [unfold repr_term, repr_pieces; cbn [p_freq p_serial]; freq_tests; reflexivity |]);
      cbn [take_letters s2l list_ascii_of_string is_letter nat_of_ascii map piece_args concat app]; unfold eval_term;
      try exact FY.
    (* yearly: yy(year) *)
    vm_compute (if list_eq_dec ascii_dec _ _ then true else false).
    unfold from_year_segment. change (kind_of freq_YEARLY) with KReg. unfold gen_reg_from_year_segment, freq_YEARLY.
    f_equal. f_equal. rewrite Z.div_1_r. lia.
  - subst f. destruct (accessors_vs_calendar_daily s C) as (_ & _ & _ & _ & _ & _ & _ & FY).
    pose proof (ord_ok_true s C) as O. rewrite <- ymd_of_ord_eta in FY.
    eexists. split.
    + unfold repr_term, repr_pieces. cbn [p_freq p_serial]. freq_tests. unfold gen_repr_DAILY. rewrite O. reflexivity.
    + cbn [take_letters s2l list_ascii_of_string is_letter nat_of_ascii map piece_args concat app]. exact FY.
  - subst f. eexists. split.
    + unfold repr_term, repr_pieces. cbn [p_freq p_serial]. freq_tests. reflexivity.
    + reflexivity.
Qed.

(* (year, segment) round trip for the calendar classes *)
Theorem year_segment_roundtrip : forall p, in_domain p ->
  exists y seg, to_year_segment p = Ok (y, seg) /\ from_year_segment (p_freq p) y seg = Ok p.
Proof.
  intros [f s] [[R Y] | [E C]]; cbn [p_freq p_serial] in *.
  - destruct (accessors_vs_calendar_regular f s R) as (A & _ & _ & _ & B & _). eauto.
  - subst f. destruct (accessors_vs_calendar_daily s C) as (_ & _ & A & _ & _ & _ & B & _). eauto.
Qed.

Theorem ymd_roundtrip : forall p pos, in_domain p ->
  exists y m d, to_ymd pos p = Ok (y, m, d) /\ from_ymd (p_freq p) y m d = Ok p.
Proof. intros p pos D. destruct (domain_date p pos D) as (y & m & d & A & _ & _ & B). eauto. Qed.

Theorem pydate_roundtrip : forall p pos, in_domain p ->
  exists t, to_pydate pos p = Ok t /\ from_pydate (p_freq p) t = Ok p.
Proof.
  intros [f s] pos [[R Y] | [E C]]; cbn [p_freq p_serial] in *.
  - apply pydate_roundtrip_regular; assumption.
  - subst f. apply pydate_roundtrip_daily; assumption.
Qed.

(* ------------------------------------------------------------------ non-vacuity *)

Example codecs_examples :
  in_domain (mkP 4 8082) /\ in_domain (mkP freq_DAILY 738000) /\ sdmx_domain (mkP freq_INTEGER (-5)) /\
  finer 4 12 /\ finer 2 freq_DAILY /\ cal_freq 12 /\
  to_sdmx (mkP 4 8082) = Ok (s2l "2020-Q3") /\ from_sdmx (s2l "2020-Q3") = Ok (mkP 4 8082) /\
  to_sdmx (mkP freq_INTEGER (-5)) = Ok (s2l "(-5)") /\ from_sdmx (s2l "(-5)") = Ok (mkP freq_INTEGER (-5)) /\
  to_iso PEnd (mkP 12 24241) = Ok (s2l "2020-02-29") /\ repr_str (mkP freq_DAILY 738000) = Ok (s2l "dd(2021,7,29)") /\
  refrequent 12 PEnd (mkP 4 8082) = Ok (mkP 12 24248) /\ refrequent 4 PMiddle (mkP 12 24248) = Ok (mkP 4 8082).
Proof.
  assert (D1 : in_domain (mkP 4 8082)) by (left; split; [reflexivity | vm_compute; split; discriminate]).
  assert (D2 : in_domain (mkP freq_DAILY 738000))
    by (right; split; [reflexivity | unfold in_calendar, max_ordinal; cbn; lia]).
  assert (D3 : sdmx_domain (mkP freq_INTEGER (-5))) by (right; reflexivity).
  assert (F1 : finer 4 12) by (split; [reflexivity | left; split; reflexivity]).
  assert (F2 : finer 2 freq_DAILY) by (split; [reflexivity | right; reflexivity]).
  assert (C1 : cal_freq 12) by (left; reflexivity).
  refine (conj D1 (conj D2 (conj D3 (conj F1 (conj F2 (conj C1 _)))))).
  refine (conj _ (conj _ (conj _ (conj _ (conj _ (conj _ (conj _ _))))))); vm_compute; reflexivity.
Qed.
