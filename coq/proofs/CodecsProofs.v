(* Proofs about the codecs (model/Codecs.v): round trips and frequency conversion. *)
From Coq Require Import ZArith Bool Ascii String List Lia.
From Verif Require Import lib.Calendar lib.RegexSub lib.PyStr lib.DatesBase gen.DatesGen model.Dates model.Codecs
     proofs.DatesProofs.
Import ListNotations.
Open Scope Z_scope.

Local Ltac Zify.zify_post_hook ::= Z.div_mod_to_equations.

(* ------------------------------------------------------------------ months and segments *)

Ltac month12 m :=
  let H := fresh in
  assert (H : m = 1 \/ m = 2 \/ m = 3 \/ m = 4 \/ m = 5 \/ m = 6 \/ m = 7 \/ m = 8 \/ m = 9 \/ m = 10 \/ m = 11 \/ m = 12)
    by lia;
  repeat (destruct H as [H | H]); subst m.

Lemma mts_spec : forall f m, is_regular_freq f = true -> 1 <= m <= 12 ->
  let seg := month_to_segment f m in
  1 <= seg <= f /\ seg_start_month f seg <= m <= seg_end_month f seg.
Proof.
  intros f m R M. destruct (regular_cases f R) as [-> | [-> | [-> | ->]]]; month12 m; vm_compute; repeat split; discriminate.
Qed.

Lemma mts_cases : forall m,
  month_to_segment 1 m = 1 /\ month_to_segment 2 m = 1 + (m - 1) / 6 /\ month_to_segment 4 m = 1 + (m - 1) / 3 /\
  month_to_segment 12 m = m.
Proof. intros. repeat split; reflexivity. Qed.

Lemma mts_mono : forall f a b, is_regular_freq f = true -> a <= b -> month_to_segment f a <= month_to_segment f b.
Proof.
  intros f a b R H. destruct (mts_cases a) as (A1 & A2 & A3 & A4). destruct (mts_cases b) as (B1 & B2 & B3 & B4).
  destruct (regular_cases f R) as [-> | [-> | [-> | ->]]]; lia.
Qed.

(* every month of the seg-th period maps back to seg *)
Lemma mts_of_segment : forall f seg m, is_regular_freq f = true -> 1 <= seg <= f ->
  seg_start_month f seg <= m <= seg_end_month f seg -> month_to_segment f m = seg.
Proof.
  intros f seg m R S M. unfold seg_start_month, seg_end_month in M. destruct (mts_cases m) as (A1 & A2 & A3 & A4).
  destruct (regular_cases f R) as [-> | [-> | [-> | ->]]];
    [change (12 / 1) with 12 in M | change (12 / 2) with 6 in M | change (12 / 4) with 3 in M | change (12 / 12) with 1 in M];
    lia.
Qed.

Lemma regular_pos : forall f, is_regular_freq f = true -> 0 < f.
Proof. intros f R. destruct (regular_cases f R) as [-> | [-> | [-> | ->]]]; lia. Qed.

Lemma from_ymd_regular : forall f y m d, is_regular_freq f = true ->
  from_ymd f y m d = Ok (mkP f (y * f + month_to_segment f m - 1)).
Proof.
  intros f y m d R. unfold from_ymd. rewrite (regular_kind f R). unfold gen_reg_from_ymd. reflexivity.
Qed.

Lemma year_seg_of_serial : forall f y seg, 0 < f -> 1 <= seg <= f ->
  (y * f + seg - 1) / f = y /\ (y * f + seg - 1) mod f + 1 = seg.
Proof.
  intros f y seg F S. replace (y * f + seg - 1) with ((seg - 1) + y * f) by lia.
  rewrite Z.div_add, Z.mod_add by lia. rewrite Z.div_small, Z.mod_small by lia. lia.
Qed.

(* ------------------------------------------------------------------ (year, month, day) round trips *)

(* regular: the date at ANY position converts back to the period *)
Theorem ymd_roundtrip_regular : forall f s pos, is_regular_freq f = true ->
  exists y m d, to_ymd pos (mkP f s) = Ok (y, m, d) /\ from_ymd f y m d = Ok (mkP f s) /\
                y = s / f /\ seg_start_month f (s mod f + 1) <= m <= seg_end_month f (s mod f + 1) /\
                1 <= d <= days_in_month y m.
Proof.
  intros f s pos R. pose proof (regular_pos f R) as F.
  destruct (reg_to_ymd_spec f s R) as (A & C & mm & md & B & Bm & Bd).
  pose proof (Z.mod_pos_bound s f F) as MB.
  destruct (seg_months_range f (s mod f + 1) R ltac:(lia)) as (M1 & M2 & _).
  assert (BACK : forall m, seg_start_month f (s mod f + 1) <= m <= seg_end_month f (s mod f + 1) ->
                 forall d, from_ymd f (s / f) m d = Ok (mkP f s)).
  { intros m Hm d. rewrite from_ymd_regular by assumption. rewrite (mts_of_segment f (s mod f + 1) m R) by lia.
    f_equal. f_equal. pose proof (Z.div_mod s f). lia. }
  destruct pos.
  - exists (s / f), (seg_start_month f (s mod f + 1)), 1. split; [exact A |]. split; [apply BACK; lia |].
    pose proof (dim_range (s / f) (seg_start_month f (s mod f + 1))). repeat split; lia.
  - exists (s / f), mm, md. split; [exact B |]. split; [apply BACK; lia |]. repeat split; lia.
  - exists (s / f), (seg_end_month f (s mod f + 1)), (days_in_month (s / f) (seg_end_month f (s mod f + 1))).
    split; [exact C |]. split; [apply BACK; lia |].
    pose proof (dim_range (s / f) (seg_end_month f (s mod f + 1))). repeat split; lia.
Qed.

Theorem ymd_roundtrip_daily : forall n pos, in_calendar n ->
  exists y m d, to_ymd pos (mkP freq_DAILY n) = Ok (y, m, d) /\ from_ymd freq_DAILY y m d = Ok (mkP freq_DAILY n) /\
                (y, m, d) = ymd_of_ord n.
Proof.
  intros n pos H. destruct (accessors_vs_calendar_daily n H) as (A & _ & _ & _ & _ & _ & _ & B).
  destruct (ymd_of_ord n) as [[y m] d] eqn:E. exists y, m, d. rewrite A. auto.
Qed.

(* Python dates: to_python_date then from_python_date *)
Theorem pydate_roundtrip_regular : forall f s pos, is_regular_freq f = true -> 1 <= s / f <= MAXYEAR ->
  exists t, to_pydate pos (mkP f s) = Ok t /\ from_pydate f t = Ok (mkP f s).
Proof.
  intros f s pos R Y. destruct (ymd_roundtrip_regular f s pos R) as (y & m & d & A & B & Ey & Em & Ed).
  exists (y, m, d). unfold to_pydate. rewrite A. cbn [bind].
  pose proof (regular_pos f R) as F. pose proof (Z.mod_pos_bound s f F) as MB.
  destruct (seg_months_range f (s mod f + 1) R ltac:(lia)) as (M1 & M2 & _).
  assert (date_ok y m d = true) as ->.
  { apply date_ok_spec. unfold valid_ymd. subst y. lia. }
  split; [reflexivity | exact B].
Qed.

Theorem pydate_roundtrip_daily : forall n pos, in_calendar n ->
  exists t, to_pydate pos (mkP freq_DAILY n) = Ok t /\ from_pydate freq_DAILY t = Ok (mkP freq_DAILY n).
Proof.
  intros n pos H. destruct (ymd_roundtrip_daily n pos H) as (y & m & d & A & B & E).
  exists (y, m, d). unfold to_pydate. rewrite A. cbn [bind].
  assert (date_ok y m d = true) as ->.
  { apply date_ok_spec. pose proof (ymd_of_ord_valid n ltac:(destruct H; lia)) as V. rewrite <- E in V.
    split; [exact V |]. pose proof (ord_of_ymd_of_ord n) as W. rewrite <- E in W. destruct W as (_ & _ & _ & ->).
    apply (year_in_range n H). }
  split; [reflexivity | exact B].
Qed.

(* ------------------------------------------------------------------ frequency conversion *)

(* the calendar periods of the supported range *)
Definition in_domain (p : period) : Prop :=
  (is_regular_freq (p_freq p) = true /\ 1 <= p_serial p / p_freq p <= MAXYEAR) \/
  (p_freq p = freq_DAILY /\ in_calendar (p_serial p)).

Definition cal_freq (g : Z) : Prop := is_regular_freq g = true \/ g = freq_DAILY.

Definition ymd_le (a b : Z * Z * Z) : Prop := a = b \/ ymd_lt a b.

Lemma ord_in_calendar : forall y m d, valid_ymd y m d -> y <= MAXYEAR -> in_calendar (ord_of_ymd y m d).
Proof.
  intros y m d V Y. pose proof (ord_of_ymd_range y m d V) as R. destruct V as (Y1 & _).
  assert (days_before_year 1 <= days_before_year y) by (apply dby_mono; lia).
  assert (days_before_year (y + 1) <= days_before_year 10000) by (apply dby_mono; unfold MAXYEAR in Y; lia).
  change (days_before_year 10000) with 3652059 in H0. rewrite dby_1 in H. unfold in_calendar, max_ordinal. lia.
Qed.

(* the date of a period of the domain at any position is a valid date of the supported range *)
Lemma domain_date : forall p pos, in_domain p ->
  exists y m d, to_ymd pos p = Ok (y, m, d) /\ valid_ymd y m d /\ y <= MAXYEAR /\ from_ymd (p_freq p) y m d = Ok p.
Proof.
  intros [f s] pos [[R Y] | [E C]]; cbn [p_freq p_serial] in *.
  - destruct (ymd_roundtrip_regular f s pos R) as (y & m & d & A & B & Ey & Em & Ed).
    exists y, m, d. pose proof (regular_pos f R) as F. pose proof (Z.mod_pos_bound s f F) as MB.
    destruct (seg_months_range f (s mod f + 1) R ltac:(lia)) as (M1 & M2 & _).
    repeat split; try assumption; subst y; lia.
  - subst f. destruct (ymd_roundtrip_daily s pos C) as (y & m & d & A & B & E).
    exists y, m, d. pose proof (ymd_of_ord_valid s ltac:(destruct C; lia)) as V. rewrite <- E in V.
    pose proof (ord_of_ymd_of_ord s) as W. rewrite <- E in W. destruct W as (_ & _ & _ & Ey).
    repeat split; try assumption; try apply V. subst y. apply (year_in_range s C).
Qed.

(* from_ymd returns the target-frequency period that contains the date *)
Lemma from_ymd_contains : forall g y m d, cal_freq g -> valid_ymd y m d -> y <= MAXYEAR ->
  exists r a c, from_ymd g y m d = Ok r /\ p_freq r = g /\ in_domain r /\
                to_ymd PStart r = Ok a /\ to_ymd PEnd r = Ok c /\ valid3 a /\ valid3 c /\
                ord3 a <= ord_of_ymd y m d <= ord3 c.
Proof.
  intros g y m d [R | ->] V Y.
  - pose proof (regular_pos g R) as F. destruct V as (Y1 & M & D).
    destruct (mts_spec g m R M) as (S & Sm). cbv zeta in S, Sm.
    set (seg := month_to_segment g m) in *.
    destruct (year_seg_of_serial g y seg F S) as (Ey & Es).
    destruct (reg_to_ymd_spec g (y * g + seg - 1) R) as (A & C & _). rewrite Ey, Es in A, C.
    destruct (seg_months_range g seg R S) as (M1 & M2 & _).
    eexists. eexists. eexists. split; [apply from_ymd_regular; assumption |]. fold seg.
    split; [reflexivity |]. split; [left; cbn [p_freq p_serial]; rewrite Ey; split; [assumption | lia] |].
    split; [exact A |]. split; [exact C |].
    assert (Va : valid_ymd y (seg_start_month g seg) 1).
    { unfold valid_ymd. pose proof (dim_range y (seg_start_month g seg)). lia. }
    assert (Vc : valid_ymd y (seg_end_month g seg) (days_in_month y (seg_end_month g seg))).
    { unfold valid_ymd. pose proof (dim_range y (seg_end_month g seg)). lia. }
    split; [exact Va |]. split; [exact Vc |]. cbn [ord3]. split.
    + apply ord_le_lex; [assumption | unfold valid_ymd; lia |]. lia.
    + apply ord_le_lex; [unfold valid_ymd; lia | assumption |].
      destruct (Z.eq_dec m (seg_end_month g seg)) as [E | E]; [right; split; [assumption | rewrite <- E; lia] | left; lia].
  - pose proof (ord_in_calendar y m d V Y) as C.
    destruct (accessors_vs_calendar_daily _ C) as (A & _).
    exists (mkP freq_DAILY (ord_of_ymd y m d)), (y, m, d), (y, m, d).
    split. { unfold from_ymd. rewrite daily_kind. unfold gen_daily_from_ymd.
             rewrite (proj2 (date_ok_spec y m d) (conj V Y)). reflexivity. }
    split; [reflexivity |]. split; [right; split; [reflexivity | exact C] |].
    rewrite !A, ymd_of_ord_of_ymd by assumption. cbn [valid3 ord3].
    refine (conj eq_refl (conj eq_refl (conj V (conj V _)))). lia.
Qed.

(* converting a period to another frequency returns the target period containing the chosen day of the source *)
Theorem refrequent_contains : forall p pos g, in_domain p -> cal_freq g ->
  exists r y m d a c,
    refrequent g pos p = Ok r /\ p_freq r = g /\ to_ymd pos p = Ok (y, m, d) /\
    to_ymd PStart r = Ok a /\ to_ymd PEnd r = Ok c /\
    ord3 a <= ord_of_ymd y m d <= ord3 c.
Proof.
  intros p pos g D G. destruct (domain_date p pos D) as (y & m & d & A & V & Y & _).
  destruct (from_ymd_contains g y m d G V Y) as (r & a & c & F & Fr & _ & Sa & Sc & _ & _ & O).
  exists r, y, m, d, a, c. unfold refrequent. rewrite A. cbn [bind]. auto 10.
Qed.

(* dates are monotone in the serial *)
Lemma date_mono_regular : forall f s s' pos y m d y' m' d', is_regular_freq f = true -> s <= s' ->
  to_ymd pos (mkP f s) = Ok (y, m, d) -> to_ymd pos (mkP f s') = Ok (y', m', d') -> ymd_le (y, m, d) (y', m', d').
Proof.
  intros f s s' pos y m d y' m' d' R L A B.
  destruct (Z.eq_dec s s') as [-> |]; [left; congruence |]. right.
  destruct (ymd_roundtrip_regular f s pos R) as (y0 & m0 & d0 & A0 & _ & Ey & Em & Ed).
  destruct (ymd_roundtrip_regular f s' pos R) as (y1 & m1 & d1 & A1 & _ & Ey' & Em' & Ed').
  rewrite A in A0. rewrite B in A1. injection A0 as <- <- <-. injection A1 as <- <- <-.
  cbn [ymd_lt]. unfold seg_start_month, seg_end_month in *.
  destruct (regular_cases f R) as [-> | [-> | [-> | ->]]];
    [change (12 / 1) with 12 in * | change (12 / 2) with 6 in * | change (12 / 4) with 3 in * | change (12 / 12) with 1 in *];
    lia.
Qed.

Lemma date_mono_daily : forall n n' pos a b, in_calendar n -> in_calendar n' -> n <= n' ->
  to_ymd pos (mkP freq_DAILY n) = Ok a -> to_ymd pos (mkP freq_DAILY n') = Ok b -> ymd_le a b.
Proof.
  intros n n' pos a b C C' L A B.
  destruct (accessors_vs_calendar_daily n C) as (TA & _). destruct (accessors_vs_calendar_daily n' C') as (TB & _).
  rewrite TA in A. rewrite TB in B. injection A as <-. injection B as <-.
  pose proof (ymd_of_ord_valid n ltac:(destruct C; lia)) as V. pose proof (ymd_of_ord_valid n' ltac:(destruct C'; lia)) as V'.
  pose proof (ord_of_ymd_of_ord n) as W. pose proof (ord_of_ymd_of_ord n') as W'.
  destruct (ymd_of_ord n) as [[y m] d]. destruct (ymd_of_ord n') as [[y' m'] d'].
  destruct W as (W & _). destruct W' as (W' & _).
  apply ord_of_ymd_le_inv; try assumption. lia.
Qed.

(* from_ymd is monotone in the date *)
Lemma from_ymd_mono : forall g y m d y' m' d' r r', cal_freq g ->
  valid_ymd y m d -> valid_ymd y' m' d' -> y <= MAXYEAR -> y' <= MAXYEAR -> ymd_le (y, m, d) (y', m', d') ->
  from_ymd g y m d = Ok r -> from_ymd g y' m' d' = Ok r' -> p_serial r <= p_serial r'.
Proof.
  intros g y m d y' m' d' r r' [R | ->] V V' Y Y' L A B.
  - rewrite from_ymd_regular in A, B by assumption. injection A as <-. injection B as <-. cbn [p_serial].
    destruct V as (_ & M & _). destruct V' as (_ & M' & _).
    destruct (mts_spec g m R M) as (S & _). destruct (mts_spec g m' R M') as (S' & _). cbv zeta in S, S'.
    destruct L as [E | L]; [injection E as <- <- <-; lia |]. cbn [ymd_lt] in L.
    destruct L as [L | (<- & L)].
    + pose proof (regular_pos g R). nia.
    + pose proof (mts_mono g m m' R ltac:(lia)). lia.
  - unfold from_ymd in A, B. rewrite daily_kind in A, B. unfold gen_daily_from_ymd in A, B.
    rewrite (proj2 (date_ok_spec y m d) (conj V Y)) in A. rewrite (proj2 (date_ok_spec y' m' d') (conj V' Y')) in B.
    injection A as <-. injection B as <-. cbn [p_serial].
    destruct L as [E | L]; [injection E as <- <- <-; lia |].
    apply Z.lt_le_incl. apply ord_of_ymd_lt; assumption.
Qed.

(* frequency conversion is monotone *)
Theorem refrequent_monotone : forall p q pos g r r', in_domain p -> in_domain q -> cal_freq g ->
  p_freq p = p_freq q -> p_serial p <= p_serial q ->
  refrequent g pos p = Ok r -> refrequent g pos q = Ok r' -> p_freq r = p_freq r' /\ p_serial r <= p_serial r'.
Proof.
  intros p q pos g r r' Dp Dq G F L A B.
  destruct (domain_date p pos Dp) as (y & m & d & Ap & V & Y & _).
  destruct (domain_date q pos Dq) as (y' & m' & d' & Aq & V' & Y' & _).
  unfold refrequent in A, B. rewrite Ap in A. rewrite Aq in B. cbn [bind] in A, B.
  split.
  - destruct (from_ymd_contains g y m d G V Y) as (r0 & _ & _ & F0 & Fr0 & _).
    destruct (from_ymd_contains g y' m' d' G V' Y') as (r1 & _ & _ & F1 & Fr1 & _). congruence.
  - apply (from_ymd_mono g y m d y' m' d' r r' G V V' Y Y'); try assumption.
    destruct p as [f s], q as [f' s']. cbn [p_freq p_serial] in *. subst f'.
    destruct Dp as [[R _] | [E C]]; cbn [p_freq p_serial] in *.
    + apply (date_mono_regular f s s' pos); assumption.
    + subst f. destruct Dq as [[R' _] | [_ C']]; cbn [p_freq p_serial] in *; [discriminate |].
      apply (date_mono_daily s s' pos); assumption.
Qed.

(* coarse -> fine -> coarse never leaves the original coarse period *)
Definition finer (f g : Z) : Prop :=
  is_regular_freq f = true /\ ((is_regular_freq g = true /\ g mod f = 0) \/ g = freq_DAILY).

Lemma nesting : forall f g m m', is_regular_freq f = true -> is_regular_freq g = true -> g mod f = 0 ->
  month_to_segment g m' = month_to_segment g m -> month_to_segment f m' = month_to_segment f m.
Proof.
  intros f g m m' Rf Rg D E.
  destruct (mts_cases m) as (A1 & A2 & A3 & A4). destruct (mts_cases m') as (B1 & B2 & B3 & B4).
  destruct (regular_cases f Rf) as [-> | [-> | [-> | ->]]]; destruct (regular_cases g Rg) as [-> | [-> | [-> | ->]]];
    try (cbv in D; discriminate); lia.
Qed.

Theorem coarse_fine_coarse : forall f g s pos1 pos2, finer f g -> 1 <= s / f <= MAXYEAR ->
  exists r, refrequent g pos1 (mkP f s) = Ok r /\ p_freq r = g /\ refrequent f pos2 r = Ok (mkP f s).
Proof.
  intros f g s pos1 pos2 (Rf & G) Y.
  destruct (ymd_roundtrip_regular f s pos1 Rf) as (y & m & d & A & B & Ey & Em & Ed).
  pose proof (regular_pos f Rf) as F. pose proof (Z.mod_pos_bound s f F) as MB.
  destruct (seg_months_range f (s mod f + 1) Rf ltac:(lia)) as (M1 & M2 & _).
  assert (V : valid_ymd y m d) by (unfold valid_ymd; subst y; lia).
  assert (YM : y <= MAXYEAR) by (subst y; lia).
  unfold refrequent at 1. rewrite A. cbn [bind].
  destruct G as [(Rg & D) | ->].
  - (* regular finer target *)
    pose proof (regular_pos g Rg) as Fg.
    destruct (mts_spec g m Rg ltac:(lia)) as (S & Sm). cbv zeta in S, Sm.
    set (seg' := month_to_segment g m) in *.
    destruct (year_seg_of_serial g y seg' Fg S) as (Ey' & Es').
    exists (mkP g (y * g + seg' - 1)). split; [apply from_ymd_regular; assumption |]. split; [reflexivity |].
    destruct (ymd_roundtrip_regular g (y * g + seg' - 1) pos2 Rg) as (y2 & m2 & d2 & A2 & _ & Ey2 & Em2 & _).
    rewrite Ey' in Ey2. rewrite Es' in Em2. subst y2.
    unfold refrequent. rewrite A2. cbn [bind]. rewrite from_ymd_regular by assumption. f_equal. f_equal.
    assert (month_to_segment g m2 = seg') by (apply mts_of_segment; assumption).
    rewrite (nesting f g m m2 Rf Rg D H).
    rewrite (mts_of_segment f (s mod f + 1) m Rf) by lia.
    subst y. pose proof (Z.div_mod s f). lia.
  - (* daily target: the chosen day itself *)
    pose proof (ord_in_calendar y m d V YM) as C.
    exists (mkP freq_DAILY (ord_of_ymd y m d)).
    split. { unfold from_ymd. rewrite daily_kind. unfold gen_daily_from_ymd.
             rewrite (proj2 (date_ok_spec y m d) (conj V YM)). reflexivity. }
    split; [reflexivity |].
    destruct (accessors_vs_calendar_daily _ C) as (TA & _).
    unfold refrequent. rewrite TA, ymd_of_ord_of_ymd by assumption. cbn [bind]. exact B.
Qed.
