(* Refinement lemmas: the Series model behaves as a total map period -> row.
   Shared by C10, C12, C13. *)
From Coq Require Import ZArith List Bool Lia.
From Verif Require Import lib.Arith model.Series.
Import ListNotations.
Open Scope Z_scope.

Section SeriesProofs.
Variable A : Arith.
Notation V := (car A).
Notation series := (series A).
Hypothesis miss_law : forall x : V, is_miss A x = true -> x = miss A.

Definition rows_ok (nv : nat) (rows : list (list V)) : Prop := Forall (fun r => length r = nv) rows.
Definition WF (s : series) : Prop :=
  rows_ok (s_nv s) (s_data s) /\ (s_start s = None -> s_data s = []).

Lemma all_miss_missrow (r : list V) : all_miss A r = true -> r = missrow A (length r).
Proof.
  induction r as [|x r IH]; simpl; intros H; [reflexivity|].
  apply andb_prop in H as [Hx Hr]. rewrite (miss_law x Hx). unfold missrow. simpl. f_equal. now apply IH.
Qed.

Lemma missrow_length n : length (missrow A n) = n.
Proof. apply repeat_length. Qed.

Lemma nth_missrows (n : nat) (nv : nat) i :
  nth i (repeat (missrow A nv) n) (missrow A nv) = missrow A nv.
Proof. apply nth_repeat. Qed.

Lemma drop_leading_spec nv (rows : list (list V)) :
  rows_ok nv rows ->
  let '(n, rest) := drop_leading A rows in
  rows = repeat (missrow A nv) n ++ rest /\ rows_ok nv rest
  /\ match rest with [] => True | r :: _ => all_miss A r = false end.
Proof.
  induction rows as [|r rows IH]; intros Hok; simpl.
  - repeat split; constructor.
  - pose proof (Forall_inv Hok) as Hr; pose proof (Forall_inv_tail Hok) as Hrows; simpl in Hr.
    destruct (all_miss A r) eqn:E.
    + specialize (IH Hrows). destruct (drop_leading A rows) as [n rest].
      destruct IH as (H1 & H2 & H3). repeat split; auto.
      simpl. rewrite <- H1. f_equal. rewrite (all_miss_missrow r E), Hr. reflexivity.
    + repeat split; auto.
Qed.

Lemma nth_prefix_missrows nv n (rest : list (list V)) i :
  nth i (repeat (missrow A nv) n ++ rest) (missrow A nv)
  = if (i <? n)%nat then missrow A nv else nth (i - n) rest (missrow A nv).
Proof.
  destruct (Nat.ltb_spec i n).
  - rewrite app_nth1 by (rewrite repeat_length; lia). apply nth_repeat.
  - rewrite app_nth2 by (rewrite repeat_length; lia). now rewrite repeat_length.
Qed.

Lemma nth_suffix_missrows nv m (body : list (list V)) i :
  nth i (body ++ repeat (missrow A nv) m) (missrow A nv) = nth i body (missrow A nv).
Proof.
  destruct (Nat.ltb_spec i (length body)).
  - now rewrite app_nth1.
  - rewrite app_nth2 by lia. rewrite nth_repeat. now rewrite nth_overflow.
Qed.

Lemma rows_ok_rev nv rows : rows_ok nv rows -> rows_ok nv (rev rows).
Proof. unfold rows_ok. intros H. apply Forall_rev. exact H. Qed.

Lemma rows_ok_app nv a b : rows_ok nv (a ++ b) -> rows_ok nv a /\ rows_ok nv b.
Proof. unfold rows_ok. intros H. split; [eapply Forall_app in H; tauto | eapply Forall_app in H; tauto]. Qed.

Lemma rev_repeat {T} (x : T) n : rev (repeat x n) = repeat x n.
Proof.
  induction n as [|n IH]; [reflexivity|]. simpl. rewrite IH.
  clear IH. induction n as [|n IH]; [reflexivity|]. simpl. now rewrite IH.
Qed.

(* trimming does not change the map *)
Lemma row_at_trim (s : series) t : WF s -> row_at A (trim A s) t = row_at A s t.
Proof.
  intros [Hok Hnone]. unfold trim. destruct s as [fr st nv rows]; simpl in *.
  destruct st as [st|].
  2:{ rewrite Hnone by reflexivity. reflexivity. }
  pose proof (drop_leading_spec nv rows Hok) as H1.
  destruct (drop_leading A rows) as [n rows1]. destruct H1 as (E1 & Hok1 & _).
  pose proof (drop_leading_spec nv (rev rows1) (rows_ok_rev _ _ Hok1)) as H2.
  destruct (drop_leading A (rev rows1)) as [m rest2]. destruct H2 as (E2 & Hok2 & _).
  simpl.
  assert (E3 : rows1 = rev rest2 ++ repeat (missrow A nv) m).
  { rewrite <- (rev_involutive rows1), E2, rev_app_distr, rev_repeat. reflexivity. }
  set (rows2 := rev rest2) in *.
  assert (Hrow : forall i, nth i rows (missrow A nv)
                 = if (i <? n)%nat then missrow A nv else nth (i - n) rows2 (missrow A nv)).
  { intros i. rewrite E1, nth_prefix_missrows. destruct (i <? n)%nat; [reflexivity|].
    rewrite E3. apply nth_suffix_missrows. }
  unfold row_at at 2. simpl.
  destruct rows2 as [|r0 rows2'] eqn:ER.
  - unfold row_at; simpl. destruct (t <? st); [reflexivity|].
    rewrite Hrow. destruct (_ <? n)%nat; [reflexivity|]. now destruct (_ - n)%nat.
  - unfold row_at; simpl.
    destruct (Z.ltb_spec t st).
    + destruct (Z.ltb_spec t (st + Z.of_nat n)); [reflexivity|lia].
    + rewrite Hrow.
      destruct (Z.ltb_spec t (st + Z.of_nat n)).
      * destruct (Nat.ltb_spec (Z.to_nat (t - st)) n); [reflexivity|lia].
      * destruct (Nat.ltb_spec (Z.to_nat (t - st)) n); [lia|].
        replace (Z.to_nat (t - (st + Z.of_nat n))) with (Z.to_nat (t - st) - n)%nat by lia.
        reflexivity.
Qed.

Lemma zrange_length a b : length (zrange a b) = Z.to_nat (b - a).
Proof. unfold zrange. now rewrite map_length, seq_length. Qed.

Lemma nth_map_in {X Y} (f : X -> Y) l i d d' : (i < length l)%nat -> nth i (map f l) d = f (nth i l d').
Proof. revert i; induction l as [|x l IH]; simpl; intros i H; [lia|]. destruct i; [reflexivity|]. apply IH; lia. Qed.

Lemma zrange_nth a b i d : (i < Z.to_nat (b - a))%nat -> nth i (zrange a b) d = a + Z.of_nat i.
Proof.
  intros H. unfold zrange.
  rewrite nth_map_in with (d' := 0%nat) by (rewrite seq_length; lia).
  now rewrite seq_nth.
Qed.

Lemma trim_WF (s : series) : WF s -> WF (trim A s).
Proof.
  intros [Hok Hnone]. unfold trim. destruct s as [fr st nv rows]; simpl in *.
  destruct st as [st|]; [|split; simpl; [constructor|reflexivity]].
  pose proof (drop_leading_spec nv rows Hok) as H1.
  destruct (drop_leading A rows) as [n rows1]. destruct H1 as (E1 & Hok1 & _).
  pose proof (drop_leading_spec nv (rev rows1) (rows_ok_rev _ _ Hok1)) as H2.
  destruct (drop_leading A (rev rows1)) as [m rest2]. destruct H2 as (E2 & Hok2 & _).
  simpl. destruct (rev rest2) eqn:ER.
  - split; simpl; [constructor|reflexivity].
  - split; simpl; [|discriminate]. rewrite <- ER. now apply rows_ok_rev.
Qed.

(* a series built from a function on [lo, hi] *)
Lemma row_at_build fr nv lo hi (f : Z -> list V) t :
  (forall u, length (f u) = nv) ->
  row_at A (build A fr nv lo hi f) t = if (lo <=? t) && (t <=? hi) then f t else missrow A nv.
Proof.
  intros Hf. unfold build. rewrite row_at_trim.
  2:{ split; simpl; [|discriminate]. unfold rows_ok. apply Forall_forall. intros r Hr.
      apply in_map_iff in Hr as (u & <- & _). apply Hf. }
  unfold row_at; simpl.
  destruct (Z.ltb_spec t lo); [destruct (Z.leb_spec lo t); [lia|reflexivity]|].
  destruct (Z.leb_spec lo t); [|lia]. simpl.
  destruct (Z.leb_spec t hi).
  - rewrite nth_map_in with (d' := 0) by (rewrite zrange_length; lia).
    rewrite zrange_nth by lia. f_equal. lia.
  - apply nth_overflow. rewrite map_length, zrange_length. lia.
Qed.

Lemma build_WF fr nv lo hi f : (forall u, length (f u) = nv) -> WF (build A fr nv lo hi f).
Proof.
  intros Hf. apply trim_WF. split; simpl; [|discriminate].
  apply Forall_forall. intros r Hr. apply in_map_iff in Hr as (u & <- & _). apply Hf.
Qed.

Lemma row_at_length (s : series) t : WF s -> length (row_at A s t) = s_nv s.
Proof.
  intros [Hok _]. unfold row_at. destruct (s_start s); [|apply missrow_length].
  destruct (_ <? _); [apply missrow_length|].
  destruct (Nat.ltb_spec (Z.to_nat (t - z)) (length (s_data s))).
  - eapply Forall_forall in Hok; [exact Hok|]. now apply nth_In.
  - rewrite nth_overflow by lia. apply missrow_length.
Qed.

Lemma row_at_outside (s : series) t st en :
  s_start s = Some st -> s_end A s = Some en -> (t < st \/ en < t) -> row_at A s t = missrow A (s_nv s).
Proof.
  intros Hs He Ht. unfold row_at. rewrite Hs. unfold s_end in He. rewrite Hs in He. inversion He; subst.
  destruct (Z.ltb_spec t st); [reflexivity|]. apply nth_overflow. lia.
Qed.

Lemma row_at_empty (s : series) t : s_start s = None -> row_at A s t = missrow A (s_nv s).
Proof. intros H. unfold row_at. now rewrite H. Qed.

(* time shift law: Series.shift(k) moves the start by -k, so the value at t is the old value at t+k *)
Lemma row_at_shift (s : series) k t : row_at A (shift_by A s k) t = row_at A s (t + k).
Proof.
  unfold shift_by, row_at. destruct (s_start s) as [st|] eqn:E; simpl; [|now rewrite E].
  destruct (Z.ltb_spec t (st - k)), (Z.ltb_spec (t + k) st); try lia; try reflexivity.
  f_equal. lia.
Qed.


Lemma bcast_row_length nv (r : list V) : length (bcast_row A nv r) = nv.
Proof. unfold bcast_row. now rewrite map_length, seq_length. Qed.

Lemma bcast_row_id nv (r : list V) : length r = nv -> bcast_row A nv r = r.
Proof.
  intros H. apply nth_ext with (d := miss A) (d' := miss A).
  - now rewrite bcast_row_length.
  - intros i Hi. rewrite bcast_row_length in Hi. unfold bcast_row.
    rewrite nth_map_in with (d' := 0%nat) by (rewrite seq_length; lia).
    rewrite seq_nth by lia. simpl. f_equal. lia.
Qed.

Lemma upd_cols_length (old : list V) vids new k : length (upd_cols A old vids new k) = length old.
Proof.
  revert old k. induction vids as [|c cs IH]; intros old k; simpl; [reflexivity|].
  rewrite IH. now rewrite map_length, combine_length, seq_length, Nat.min_id.
Qed.

Lemma minl_le d0 l : minl d0 l <= d0 /\ forall d, In d l -> minl d0 l <= d.
Proof.
  unfold minl. revert d0. induction l as [|x l IH]; intros d0; simpl; [split; [lia|tauto]|].
  destruct (IH (Z.min d0 x)) as [H1 H2]. split; [lia|].
  intros d [<-|Hd]; [lia|now apply H2].
Qed.

Lemma maxl_ge d0 l : d0 <= maxl d0 l /\ forall d, In d l -> d <= maxl d0 l.
Proof.
  unfold maxl. revert d0. induction l as [|x l IH]; intros d0; simpl; [split; [lia|tauto]|].
  destruct (IH (Z.max d0 x)) as [H1 H2]. split; [lia|].
  intros d [<-|Hd]; [lia|now apply H2].
Qed.

Lemma last_assoc_notin t dates (rows : list (list V)) acc : ~ In t dates -> last_assoc A t dates rows acc = acc.
Proof.
  revert rows acc. induction dates as [|d ds IH]; intros rows acc Hn; simpl; [reflexivity|].
  destruct rows as [|r rs]; [reflexivity|].
  rewrite IH by (intros H; apply Hn; now right).
  destruct (Z.eqb_spec d t); [exfalso; apply Hn; now left|reflexivity].
Qed.

(* a write changes exactly the addressed periods (all variants) *)
Lemma row_at_set_data fr (s : series) dates rows t :
  WF s ->
  row_at A (set_data A fr s dates rows None) t
  = match last_assoc A t dates rows None with
    | Some r => bcast_row A (s_nv s) r
    | None => row_at A s t
    end.
Proof.
  intros Hwf. unfold set_data. destruct dates as [|d0 ds]; [reflexivity|].
  set (dates := d0 :: ds).
  rewrite row_at_build.
  2:{ intros u. destruct (last_assoc A u dates rows None); [apply bcast_row_length|now apply row_at_length]. }
  destruct (andb _ _) eqn:E; [reflexivity|].
  assert (Hout : ~ In t dates).
  { intros Hin. destruct (minl_le d0 dates) as [_ Hmin]. destruct (maxl_ge d0 dates) as [_ Hmax].
    specialize (Hmin _ Hin). specialize (Hmax _ Hin).
    apply andb_false_iff in E as [E|E]; [apply Z.leb_gt in E|apply Z.leb_gt in E]; lia. }
  rewrite last_assoc_notin by assumption.
  destruct (s_start s) as [st|] eqn:Es; [|now rewrite row_at_empty].
  assert (Hen : s_end A s = Some (st + Z.of_nat (length (s_data s)) - 1)) by (unfold s_end; now rewrite Es).
  rewrite Hen in E. symmetry. eapply row_at_outside; eauto.
  destruct (minl_le d0 dates) as [Hmin _]. destruct (maxl_ge d0 dates) as [Hmax _].
  apply andb_false_iff in E as [E|E]; [apply Z.leb_gt in E|apply Z.leb_gt in E]; lia.
Qed.

Lemma set_data_WF fr (s : series) dates rows : WF s -> WF (set_data A fr s dates rows None).
Proof.
  intros Hwf. unfold set_data. destruct dates as [|d0 ds]; [assumption|].
  apply build_WF.
  intros u. destruct (last_assoc A u (d0 :: ds) rows None); [apply bcast_row_length|now apply row_at_length].
Qed.

Lemma set_data_nv fr (s : series) dates rows : s_nv (set_data A fr s dates rows None) = s_nv s.
Proof.
  unfold set_data. destruct dates as [|d0 ds]; [reflexivity|].
  unfold build, trim; simpl. destruct (drop_leading A _) as [n r1]. destruct (rev (snd (drop_leading A (rev r1)))); reflexivity.
Qed.

Lemma zip_bcast_length (f : V -> V -> V) r1 r2 : length (zip_bcast A f r1 r2) = Nat.max (length r1) (length r2).
Proof. unfold zip_bcast. now rewrite map_length, seq_length. Qed.

Lemma zip_bcast_nth (f : V -> V -> V) r1 r2 c :
  length r1 = length r2 -> (c < length r1)%nat ->
  nth c (zip_bcast A f r1 r2) (miss A) = f (nth c r1 (miss A)) (nth c r2 (miss A)).
Proof.
  intros Hl Hc. unfold zip_bcast.
  rewrite nth_map_in with (d' := 0%nat) by (rewrite seq_length; lia).
  rewrite seq_nth by lia. simpl. rewrite <- Hl.
  destruct (Nat.eqb_spec (length r1) 1); [|reflexivity].
  replace c with 0%nat by lia. reflexivity.
Qed.

(* binary operators act period by period on the encompassing span *)
Lemma row_at_binop (f : V -> V -> V) (s1 s2 s : series) :
  WF s1 -> WF s2 -> s_nv s1 = s_nv s2 -> (s_start s1 = None -> s_start s2 = None -> False) ->
  binop A f s1 s2 = Ok s ->
  exists lo hi, omin (s_start s1) (s_start s2) = Some lo /\ omax (s_end A s1) (s_end A s2) = Some hi /\
  WF s /\ s_nv s = s_nv s1 /\
  forall t, row_at A s t = if (lo <=? t) && (t <=? hi) then zip_bcast A f (row_at A s1 t) (row_at A s2 t)
                          else missrow A (s_nv s1).
Proof.
  intros W1 W2 Hnv Hne. unfold binop.
  assert (Hlen : forall u, length (zip_bcast A f (row_at A s1 u) (row_at A s2 u)) = s_nv s1)
    by (intros u; rewrite zip_bcast_length, !row_at_length by assumption; rewrite <- Hnv; apply Nat.max_id).
  assert (Hb : forall fr lo hi g, s_nv (build A fr (s_nv s1) lo hi g) = s_nv s1).
  { intros. unfold build, trim; simpl. destruct (drop_leading A _) as [n r1].
    destruct (rev (snd (drop_leading A (rev r1)))); reflexivity. }
  rewrite <- Hnv, Nat.max_id, Nat.eqb_refl. simpl.
  destruct (s_start s1) as [a1|] eqn:E1, (s_start s2) as [a2|] eqn:E2; try discriminate;
  [| | |exfalso; now apply Hne];
  unfold s_end; rewrite ?E1, ?E2; simpl.
  - destruct (s_freq s1 =? s_freq s2); simpl; [|discriminate].
    intros H; inversion H; subst; clear H.
    eexists; eexists; repeat split; try reflexivity; [now apply build_WF|now apply build_WF|apply Hb|].
    intros t; now rewrite row_at_build.
  - intros H; inversion H; subst; clear H.
    eexists; eexists; repeat split; try reflexivity; [now apply build_WF|now apply build_WF|apply Hb|].
    intros t; now rewrite row_at_build.
  - intros H; inversion H; subst; clear H.
    eexists; eexists; repeat split; try reflexivity; [now apply build_WF|now apply build_WF|apply Hb|].
    intros t; now rewrite row_at_build.
Qed.

End SeriesProofs.
