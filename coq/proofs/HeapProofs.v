(* C20  Non-interference of two parties on a heap without shared mutable objects,
   and soundness of the executable checker. *)
From Coq Require Import ZArith List Bool PArith FMapPositive Lia.
From Verif Require Import model.Heap.
Import ListNotations.

(* ------------------------------------------------------------------ basic facts *)

Lemma upd_same : forall g l nd, upd g l nd l = Some nd.
Proof. intros. unfold upd. rewrite Pos.eqb_refl. reflexivity. Qed.

Lemma upd_other : forall g l nd x, x <> l -> upd g l nd x = g x.
Proof. intros g l nd x H. unfold upd. destruct (Pos.eqb_spec x l); [contradiction | reflexivity]. Qed.

Lemma upd_pres : forall g l nd x, g x <> None -> upd g l nd x <> None.
Proof.
  intros g l nd x H. destruct (Pos.eq_dec x l) as [-> | N].
  - rewrite upd_same. discriminate.
  - rewrite upd_other by assumption. assumption.
Qed.

Lemma reach_trans : forall g a b c, reach g a b -> reach g b c -> reach g a c.
Proof.
  intros g a b c H1 H2. revert H1. induction H2 as [r | r l nd c H IH Hl Hc]; intros H1.
  - assumption.
  - eapply reach_step; [apply IH; assumption | exact Hl | exact Hc].
Qed.

Lemma reach_child : forall g r nd c l,
  g r = Some nd -> In c (n_children nd) -> reach g c l -> reach g r l.
Proof.
  intros g r nd c l Hr Hc H. eapply reach_trans; [ | exact H].
  eapply reach_step; [apply reach_refl | exact Hr | exact Hc].
Qed.

Lemma acc_root : forall g R r, In r R -> acc g R r.
Proof. intros g R r H. exists r. split; [assumption | apply reach_refl]. Qed.

Lemma acc_exists : forall g R,
  wf g -> (forall r, In r R -> g r <> None) -> forall l, acc g R l -> g l <> None.
Proof.
  intros g R Hwf Hr l [r [Hin H]]. induction H.
  - apply Hr. assumption.
  - eapply Hwf; eauto.
Qed.

(* ------------------------------------------------------------------ effect of one update *)

(* the acting party: what it can reach afterwards, it could reach before (or it is the updated node) *)
Lemma upd_reach_sub : forall g R l nd',
  (forall c, In c (n_children nd') -> acc g R c \/ c = l) ->
  forall r x, reach (upd g l nd') r x -> (In r R \/ r = l) -> x = l \/ acc g R x.
Proof.
  intros g R l nd' Hch r x H. induction H as [r | r x' nd0 c H IH Hx' Hc]; intros Hr.
  - destruct Hr as [Hr | ->]; [right; apply acc_root; assumption | left; reflexivity].
  - destruct (Pos.eq_dec x' l) as [-> | N].
    + rewrite upd_same in Hx'. injection Hx' as <-.
      destruct (Hch c Hc) as [A | ->]; [right; assumption | left; reflexivity].
    + rewrite upd_other in Hx' by assumption.
      destruct (IH Hr) as [-> | [r0 [Hin0 H0]]]; [contradiction | ].
      right. exists r0. split; [assumption | eapply reach_step; eauto].
Qed.

(* the other party: as long as it cannot reach the updated location, nothing changes for it *)
Lemma upd_reach_frame : forall g Ro l nd',
  ~ acc g Ro l ->
  forall r x, In r Ro -> reach (upd g l nd') r x -> reach g r x.
Proof.
  intros g Ro l nd' Hn r x Hin H. induction H as [r | r x' nd0 c H IH Hx' Hc].
  - apply reach_refl.
  - specialize (IH Hin).
    assert (N : x' <> l) by (intros ->; apply Hn; exists r; split; assumption).
    rewrite upd_other in Hx' by assumption.
    eapply reach_step; eauto.
Qed.

Lemma upd_reach_frame_conv : forall g Ro l nd',
  ~ acc g Ro l ->
  forall r x, In r Ro -> reach g r x -> reach (upd g l nd') r x.
Proof.
  intros g Ro l nd' Hn r x Hin H. induction H as [r | r x' nd0 c H IH Hx' Hc].
  - apply reach_refl.
  - specialize (IH Hin).
    assert (N : x' <> l) by (intros ->; apply Hn; exists r; split; assumption).
    eapply reach_step; [exact IH | rewrite upd_other by assumption; exact Hx' | exact Hc].
Qed.

Lemma upd_acc_frame : forall g Ro l nd',
  ~ acc g Ro l -> forall x, acc (upd g l nd') Ro x <-> acc g Ro x.
Proof.
  intros g Ro l nd' Hn x. split; intros [r [Hin H]]; exists r; split; try assumption.
  - eapply upd_reach_frame; eauto.
  - eapply upd_reach_frame_conv; eauto.
Qed.

Lemma upd_val_frame : forall g Ro l nd',
  ~ acc g Ro l -> forall x, acc g Ro x -> upd g l nd' x = g x.
Proof.
  intros g Ro l nd' Hn x Hx. apply upd_other. intros ->. apply Hn. assumption.
Qed.

(* ------------------------------------------------------------------ the invariant *)

Definition inv (g : heap) (R1 R2 : list loc) : Prop :=
  wf g /\
  (forall r, In r R1 \/ In r R2 -> g r <> None) /\
  (forall l, acc g R1 l -> acc g R2 l -> exists nd, g l = Some nd /\ n_mut nd = false).

Lemma inv_sym : forall g R1 R2, inv g R1 R2 -> inv g R2 R1.
Proof.
  intros g R1 R2 (Hwf & Hr & Hs). repeat split.
  - assumption.
  - intros r [H | H]; apply Hr; [right | left]; assumption.
  - intros l H2 H1. apply Hs; assumption.
Qed.

Lemma upd_inv : forall g R Ro l nd' R',
  inv g R Ro ->
  ~ acc g Ro l ->
  (forall c, In c (n_children nd') -> acc g R c \/ c = l) ->
  (forall r, In r R' -> In r R \/ r = l) ->
  inv (upd g l nd') R' Ro.
Proof.
  intros g R Ro l nd' R' (Hwf & Hr & Hs) Hn Hch HR'.
  assert (HexR : forall x, acc g R x -> g x <> None).
  { apply acc_exists; [assumption | intros r H; apply Hr; left; assumption]. }
  repeat split.
  - intros x ndx c Hx Hc. destruct (Pos.eq_dec x l) as [-> | N].
    + rewrite upd_same in Hx. injection Hx as <-.
      destruct (Hch c Hc) as [A | ->]; [apply upd_pres, HexR, A | rewrite upd_same; discriminate].
    + rewrite upd_other in Hx by assumption. apply upd_pres. eapply Hwf; eauto.
  - intros r [H | H].
    + destruct (HR' r H) as [H' | ->]; [apply upd_pres, Hr; left; assumption | rewrite upd_same; discriminate].
    + apply upd_pres, Hr. right. assumption.
  - intros x [r [Hin H]] Ho.
    apply (upd_acc_frame g Ro l nd' Hn) in Ho.
    destruct (upd_reach_sub g R l nd' Hch r x H (HR' r Hin)) as [-> | A]; [contradiction | ].
    destruct (Hs x A Ho) as [nd0 [E M]]. exists nd0. split; [ | assumption].
    rewrite (upd_val_frame g Ro l nd' Hn x Ho). assumption.
Qed.

(* one action of the party holding R: the invariant survives and the other party's part of the heap is untouched *)
Lemma step_inv : forall g R Ro g' R',
  inv g R Ro -> step (g, R) (g', R') ->
  inv g' R' Ro /\ (forall x, acc g Ro x -> g' x = g x) /\ (forall x, acc g' Ro x <-> acc g Ro x).
Proof.
  intros g R Ro g' R' Hinv Hst.
  assert (Hinv' := Hinv). destruct Hinv' as (Hwf & Hr & Hs).
  inversion Hst as [g0 R0 l nd nd' Hacc Hl Hmut Hmut' Hk Hch | g0 R0 l nd' Hfresh Hch]; subst.
  - (* write *)
    assert (Hn : ~ acc g Ro l).
    { intros A. destruct (Hs l Hacc A) as [nd0 [E M]]. rewrite E in Hl. injection Hl as <-. congruence. }
    split; [ | split].
    + apply (upd_inv g R' Ro l nd' R' Hinv Hn);
        [intros c Hc; left; apply Hch; assumption | intros r Hin; left; assumption].
    + intros x Hx. eapply upd_val_frame; eauto.
    + apply upd_acc_frame. assumption.
  - (* alloc *)
    assert (Hn : ~ acc g Ro l).
    { intros A. apply (acc_exists g Ro Hwf) in A; [contradiction | ]. intros r Hin. apply Hr. right. assumption. }
    split; [ | split].
    + apply (upd_inv g R Ro l nd' (l :: R) Hinv Hn);
        [exact Hch | intros r [<- | Hin]; [right; reflexivity | left; assumption]].
    + intros x Hx. eapply upd_val_frame; eauto.
    + apply upd_acc_frame. assumption.
Qed.

Lemma steps_inv : forall s s', steps s s' ->
  forall Ro, inv (fst s) (snd s) Ro ->
  inv (fst s') (snd s') Ro /\ (forall x, acc (fst s) Ro x -> fst s' x = fst s x)
  /\ (forall x, acc (fst s') Ro x <-> acc (fst s) Ro x).
Proof.
  intros s s' H. induction H as [s | [g R] [g' R'] s'' Hst Hsts IH]; intros Ro Hinv.
  - split; [assumption | split; [reflexivity | reflexivity]].
  - cbn [fst snd] in *. destruct (step_inv g R Ro g' R' Hinv Hst) as (Hinv' & Hv & Ha).
    destruct (IH Ro Hinv') as (Hinv'' & Hv' & Ha'). cbn [fst snd] in *.
    split; [assumption | split].
    + intros x Hx. rewrite Hv' by (apply Ha; assumption). apply Hv. assumption.
    + intros x. rewrite Ha'. apply Ha.
Qed.

(* ------------------------------------------------------------------ observations *)

Lemma unfold_frame : forall n g g' r,
  (forall l, reach g r l -> g' l = g l) -> unfold n g' r = unfold n g r.
Proof.
  induction n as [ | n IH]; intros g g' r H; cbn [unfold]; [reflexivity | ].
  rewrite (H r (reach_refl g r)).
  destruct (g r) as [nd | ] eqn:E; [ | reflexivity].
  f_equal. apply map_ext_in. intros c Hc. apply IH.
  intros l Hl. apply H. eapply reach_child; eauto.
Qed.

Lemma unfold_local : forall n, local_obs (unfold n).
Proof. intros n g g' r H. apply unfold_frame. assumption. Qed.

(* ------------------------------------------------------------------ two parties, any interleaving *)

Definition inv_state (s : state) : Prop :=
  match s with (g, R1, R2) => inv g R1 R2 end.

Lemma astep_inv : forall s s', inv_state s -> astep s s' -> inv_state s'.
Proof.
  intros s s' Hinv H. inversion H; subst; cbn [inv_state] in *.
  - apply (step_inv g R1 R2 g' R1' Hinv H0).
  - apply inv_sym. apply inv_sym in Hinv. apply (step_inv g R2 R1 g' R2' Hinv H0).
Qed.

Lemma asteps_inv : forall s s', asteps s s' -> inv_state s -> inv_state s'.
Proof.
  intros s s' H. induction H; intros Hinv; [assumption | ].
  apply IHasteps. eapply astep_inv; eauto.
Qed.

(* ------------------------------------------------------------------ the checker *)

Lemma lmem_find : forall l (s : lset), lmem l s = true -> PositiveMap.find l s = Some tt.
Proof.
  intros l s H. unfold lmem in H. rewrite PositiveMap.mem_find in H.
  destruct (PositiveMap.find l s) as [[] | ]; [reflexivity | discriminate].
Qed.

Lemma mem_some : forall (m : hmap) l, PositiveMap.mem l m = true -> sem m l <> None.
Proof.
  intros m l H. unfold sem. rewrite PositiveMap.mem_find in H.
  destruct (PositiveMap.find l m); [discriminate | discriminate].
Qed.

Lemma closedb_sound : forall m s r,
  closedb m s = true -> lmem r s = true ->
  forall l, reach (sem m) r l -> lmem l s = true.
Proof.
  intros m s r Hc Hr l H. induction H as [r | r x nd c H IH Hx Hin].
  - assumption.
  - specialize (IH Hr).
    unfold closedb in Hc. rewrite forallb_forall in Hc.
    specialize (Hc (x, tt) (PositiveMap.elements_correct s x (lmem_find x s IH))).
    cbn [fst] in Hc. unfold sem in Hx. rewrite Hx in Hc.
    rewrite forallb_forall in Hc. apply Hc. assumption.
Qed.

Lemma wfb_sound : forall m, wfb m = true -> wf (sem m).
Proof.
  intros m H l nd c Hl Hc. unfold wfb in H. rewrite forallb_forall in H.
  specialize (H (l, nd) (PositiveMap.elements_correct m l Hl)). cbn [snd] in H.
  rewrite forallb_forall in H. apply mem_some. apply H. assumption.
Qed.

Lemma shared_immutable_sound : forall m s1 s2 l,
  shared_immutable m s1 s2 = true -> lmem l s1 = true -> lmem l s2 = true ->
  exists nd, sem m l = Some nd /\ n_mut nd = false.
Proof.
  intros m s1 s2 l H H1 H2. unfold shared_immutable in H. rewrite forallb_forall in H.
  specialize (H (l, tt) (PositiveMap.elements_correct s1 l (lmem_find l s1 H1))). cbn [fst] in H.
  rewrite H2 in H. unfold sem. destruct (PositiveMap.find l m) as [nd | ]; [ | discriminate].
  exists nd. split; [reflexivity | ]. destruct (n_mut nd); [discriminate | reflexivity].
Qed.

Lemma acc_single : forall g r l, acc g [r] l <-> reach g r l.
Proof.
  intros g r l. split.
  - intros [r0 [[<- | []] H]]. assumption.
  - intros H. exists r. split; [left; reflexivity | assumption].
Qed.

Lemma checker_inv : forall m r1 r2,
  no_shared_mutable m r1 r2 = true -> inv (sem m) [r1] [r2].
Proof.
  intros m r1 r2 H. unfold no_shared_mutable in H.
  repeat (apply andb_prop in H; destruct H as [H ?]).
  repeat split.
  - apply wfb_sound. assumption.
  - intros r [[<- | []] | [<- | []]]; apply mem_some; assumption.
  - intros l A1 A2. apply acc_single in A1. apply acc_single in A2.
    eapply shared_immutable_sound; eauto; eapply closedb_sound; eauto.
Qed.

(* ------------------------------------------------------------------ main theorems *)

(* Every sequence of writes/allocations by the holder of r1 leaves the part of the heap reachable from r2,
   every unfolding from r2, and every local observation from r2 unchanged. *)
Theorem checker_sound : forall m r1 r2,
  no_shared_mutable m r1 r2 = true ->
  forall g' R', steps (sem m, [r1]) (g', R') ->
    (forall l, reach (sem m) r2 l -> g' l = sem m l) /\
    (forall n, unfold n g' r2 = unfold n (sem m) r2) /\
    (forall T (obs : heap -> loc -> T), local_obs obs -> obs g' r2 = obs (sem m) r2).
Proof.
  intros m r1 r2 H g' R' Hs.
  destruct (steps_inv _ _ Hs [r2] (checker_inv m r1 r2 H)) as (_ & Hv & _). cbn [fst snd] in Hv.
  assert (F : forall l, reach (sem m) r2 l -> g' l = sem m l).
  { intros l Hl. apply Hv. apply acc_single. assumption. }
  split; [exact F | split].
  - intros n. apply unfold_frame. exact F.
  - intros T obs Hloc. apply Hloc. exact F.
Qed.

Theorem checker_sound_sym : forall m r1 r2,
  no_shared_mutable m r1 r2 = true ->
  forall g' R', steps (sem m, [r2]) (g', R') ->
    (forall l, reach (sem m) r1 l -> g' l = sem m l) /\
    (forall n, unfold n g' r1 = unfold n (sem m) r1) /\
    (forall T (obs : heap -> loc -> T), local_obs obs -> obs g' r1 = obs (sem m) r1).
Proof.
  intros m r1 r2 H g' R' Hs.
  destruct (steps_inv _ _ Hs [r1] (inv_sym _ _ _ (checker_inv m r1 r2 H))) as (_ & Hv & _). cbn [fst snd] in Hv.
  assert (F : forall l, reach (sem m) r1 l -> g' l = sem m l).
  { intros l Hl. apply Hv. apply acc_single. assumption. }
  split; [exact F | split].
  - intros n. apply unfold_frame. exact F.
  - intros T obs Hloc. apply Hloc. exact F.
Qed.

(* Any interleaving of actions of both parties: after it, an action of either party leaves every local
   observation from every root (model root or local reference) of the other party unchanged. *)
Theorem checker_sound_interleaved : forall m r1 r2,
  no_shared_mutable m r1 r2 = true ->
  forall g R1 R2, asteps (sem m, [r1], [r2]) (g, R1, R2) ->
    (forall g' R1', step (g, R1) (g', R1') ->
       forall r, In r R2 -> forall T (obs : heap -> loc -> T), local_obs obs -> obs g' r = obs g r) /\
    (forall g' R2', step (g, R2) (g', R2') ->
       forall r, In r R1 -> forall T (obs : heap -> loc -> T), local_obs obs -> obs g' r = obs g r).
Proof.
  intros m r1 r2 H g R1 R2 Hs.
  assert (Hinv : inv g R1 R2).
  { apply (asteps_inv _ _ Hs). cbn [inv_state]. apply checker_inv. assumption. }
  split.
  - intros g' R1' Hst r Hr T obs Hloc.
    destruct (step_inv g R1 R2 g' R1' Hinv Hst) as (_ & Hv & _).
    apply Hloc. intros l Hl. apply Hv. exists r. split; assumption.
  - intros g' R2' Hst r Hr T obs Hloc.
    destruct (step_inv g R2 R1 g' R2' (inv_sym _ _ _ Hinv) Hst) as (_ & Hv & _).
    apply Hloc. intros l Hl. apply Hv. exists r. split; assumption.
Qed.

(* ------------------------------------------------------------------ projection: the other party might as well not exist *)

(* h is what party 2 would have built alone: it agrees with g on everything party 2 can reach, and has no extra objects *)
Definition sim (g h : heap) (R : list loc) : Prop :=
  (forall x, acc g R x -> h x = g x) /\ (forall x, g x = None -> h x = None).

Lemma sim_reach : forall g h R, sim g h R -> forall r x, In r R -> reach g r x -> reach h r x.
Proof.
  intros g h R [Hv _] r x Hin H. induction H as [r | r x' nd c H IH Hx' Hc].
  - apply reach_refl.
  - specialize (IH Hin). eapply reach_step; [exact IH | | exact Hc].
    rewrite Hv; [exact Hx' | exists r; split; assumption].
Qed.

Lemma sim_acc : forall g h R, sim g h R -> forall x, acc g R x -> acc h R x.
Proof. intros g h R S x [r [Hin H]]. exists r. split; [assumption | eapply sim_reach; eauto]. Qed.

(* a step of party 2 in the shared heap is a step of party 2 in its solo heap, and the two stay in agreement *)
Lemma sim_own_step : forall g h R g' R',
  sim g h R -> step (g, R) (g', R') -> exists h', step (h, R) (h', R') /\ sim g' h' R'.
Proof.
  intros g h R g' R' S Hst. assert (S' := S). destruct S' as [Hv Hd].
  inversion Hst as [g0 R0 l nd nd' Hacc Hl Hmut Hmut' Hk Hch | g0 R0 l nd' Hfresh Hch]; subst.
  - exists (upd h l nd'). split.
    + eapply step_write; eauto.
      * eapply sim_acc; eauto.
      * rewrite Hv by assumption. exact Hl.
      * intros c Hc. eapply sim_acc; eauto.
    + split.
      * intros x [r [Hin H]].
        destruct (upd_reach_sub g R' l nd' (fun c Hc => or_introl (Hch c Hc)) r x H (or_introl Hin)) as [-> | A].
        -- rewrite !upd_same. reflexivity.
        -- destruct (Pos.eq_dec x l) as [-> | N]; [rewrite !upd_same; reflexivity | ].
           rewrite !upd_other by assumption. apply Hv. assumption.
      * intros x Hx. destruct (Pos.eq_dec x l) as [-> | N]; [rewrite upd_same in Hx; discriminate | ].
        rewrite upd_other in Hx by assumption. rewrite upd_other by assumption. apply Hd. assumption.
  - exists (upd h l nd'). split.
    + eapply step_alloc; eauto.
      intros c Hc. destruct (Hch c Hc) as [A | ->]; [left; eapply sim_acc; eauto | right; reflexivity].
    + split.
      * intros x [r [Hin H]].
        assert (Hr : In r R \/ r = l) by (destruct Hin as [<- | Hin]; [right; reflexivity | left; assumption]).
        destruct (upd_reach_sub g R l nd' Hch r x H Hr) as [-> | A].
        -- rewrite !upd_same. reflexivity.
        -- destruct (Pos.eq_dec x l) as [-> | N]; [rewrite !upd_same; reflexivity | ].
           rewrite !upd_other by assumption. apply Hv. assumption.
      * intros x Hx. destruct (Pos.eq_dec x l) as [-> | N]; [rewrite upd_same in Hx; discriminate | ].
        rewrite upd_other in Hx by assumption. rewrite upd_other by assumption. apply Hd. assumption.
Qed.

(* a step of the other party does not disturb the agreement *)
Lemma sim_other_step : forall g h R Ro g' Ro',
  inv g Ro R -> sim g h R -> step (g, Ro) (g', Ro') -> sim g' h R.
Proof.
  intros g h R Ro g' Ro' Hinv [Hv Hd] Hst.
  destruct (step_inv g Ro R g' Ro' Hinv Hst) as (_ & Hval & Hacc).
  split.
  - intros x Hx. apply Hacc in Hx. rewrite Hval by assumption. apply Hv. assumption.
  - intros x Hx. apply Hd.
    inversion Hst as [g0 R0 l nd nd' A Hl Hmut Hmut' Hk Hch | g0 R0 l nd' Hfresh Hch]; subst;
      (destruct (Pos.eq_dec x l) as [-> | N]; [rewrite upd_same in Hx; discriminate | rewrite upd_other in Hx by assumption; exact Hx]).
Qed.

Lemma steps_snoc : forall s s' s'', steps s s' -> step s' s'' -> steps s s''.
Proof.
  intros s s' s'' H. induction H; intros Hst.
  - eapply steps_cons; [exact Hst | apply steps_nil].
  - eapply steps_cons; [eassumption | apply IHsteps; assumption].
Qed.

Lemma steps_trans : forall s s' s'', steps s s' -> steps s' s'' -> steps s s''.
Proof.
  intros s s' s'' H. induction H; intros H2; [assumption | ].
  eapply steps_cons; [eassumption | apply IHsteps; assumption].
Qed.

Lemma asteps_project : forall s s', asteps s s' ->
  forall h, inv_state s -> sim (fst (fst s)) h (snd s) ->
  exists h', steps (h, snd s) (h', snd s') /\ sim (fst (fst s')) h' (snd s').
Proof.
  intros s s' H. induction H as [s | s s1 s2 Hst Hsts IH]; intros h Hinv S.
  - exists h. split; [apply steps_nil | assumption].
  - assert (Hinv1 := astep_inv _ _ Hinv Hst).
    inversion Hst as [g R1 R2 g' R1' H1 | g R1 R2 g' R2' H2]; subst; cbn [fst snd inv_state] in *.
    + destruct (IH h Hinv1 (sim_other_step g h R2 R1 g' R1' Hinv S H1)) as [h' [Hs' S']].
      exists h'. split; assumption.
    + destruct (sim_own_step g h R2 g' R2' S H2) as [h1 [Hs1 S1]].
      destruct (IH h1 Hinv1 S1) as [h' [Hs' S']].
      exists h'. split; [eapply steps_cons; eassumption | assumption].
Qed.

Lemma projection_inv : forall g0 R1 R2 g R1' R2',
  inv g0 R1 R2 -> asteps (g0, R1, R2) (g, R1', R2') ->
  exists h, steps (g0, R2) (h, R2') /\
            (forall x, acc g R2' x -> h x = g x) /\
            (forall r, In r R2' -> forall T (obs : heap -> loc -> T), local_obs obs -> obs h r = obs g r).
Proof.
  intros g0 R1 R2 g R1' R2' Hinv Hs.
  assert (S0 : sim g0 g0 R2) by (split; intros; [reflexivity | assumption]).
  destruct (asteps_project _ _ Hs g0 Hinv S0) as [h [Hsteps [Hv Hd]]].
  cbn [fst snd] in *. exists h. split; [assumption | split; [assumption | ]].
  intros r Hr T obs Hloc. apply Hloc. intros l Hl. apply Hv. exists r. split; assumption.
Qed.

Definition swap (s : state) : state := match s with (g, R1, R2) => (g, R2, R1) end.

Lemma asteps_swap : forall s s', asteps s s' -> asteps (swap s) (swap s').
Proof.
  intros s s' H. induction H as [s | s s1 s2 Hst Hsts IH]; [apply asteps_nil | ].
  eapply asteps_cons; [ | exact IH].
  inversion Hst; subst; cbn [swap]; [apply astep_2 | apply astep_1]; assumption.
Qed.

(* Whatever the holder of the other root does in between, each party ends up with exactly the heap (as far as it can
   see it) that it would have built running ALONE from the initial heap. *)
Theorem checker_sound_projection : forall m r1 r2,
  no_shared_mutable m r1 r2 = true ->
  forall g R1 R2, asteps (sem m, [r1], [r2]) (g, R1, R2) ->
  (exists h, steps (sem m, [r2]) (h, R2) /\
             (forall x, acc g R2 x -> h x = g x) /\
             (forall r, In r R2 -> forall T (obs : heap -> loc -> T), local_obs obs -> obs h r = obs g r)) /\
  (exists h, steps (sem m, [r1]) (h, R1) /\
             (forall x, acc g R1 x -> h x = g x) /\
             (forall r, In r R1 -> forall T (obs : heap -> loc -> T), local_obs obs -> obs h r = obs g r)).
Proof.
  intros m r1 r2 H g R1 R2 Hs. split.
  - exact (projection_inv _ _ _ _ _ _ (checker_inv m r1 r2 H) Hs).
  - exact (projection_inv _ _ _ _ _ _ (inv_sym _ _ _ (checker_inv m r1 r2 H)) (asteps_swap _ _ Hs)).
Qed.

(* the guard is necessary: a shared mutable object is written through *)
Definition ex_shared : hmap :=
  of_list [(1%positive, mkNode 1 true [] [3%positive]);
           (2%positive, mkNode 1 true [] [3%positive]);
           (3%positive, mkNode 2 true [7%Z] [])].

Lemma shared_mutable_interferes :
  no_shared_mutable ex_shared 1%positive 2%positive = false /\
  exists g' R', steps (sem ex_shared, [1%positive]) (g', R') /\ unfold 2 g' 2%positive <> unfold 2 (sem ex_shared) 2%positive.
Proof.
  split; [vm_compute; reflexivity | ].
  exists (upd (sem ex_shared) 3%positive (mkNode 2 true [8%Z] [])), [1%positive]. split.
  - eapply steps_cons; [ | apply steps_nil].
    eapply (step_write (sem ex_shared) [1%positive] 3%positive (mkNode 2 true [7%Z] []) (mkNode 2 true [8%Z] [])).
    + exists 1%positive. split; [left; reflexivity | ].
      eapply reach_step; [apply reach_refl | vm_compute; reflexivity | left; reflexivity].
    + vm_compute. reflexivity.
    + reflexivity.
    + reflexivity.
    + reflexivity.
    + intros c [].
  - vm_compute. discriminate.
Qed.

(* non-vacuity: a copy that shares only an immutable object passes, and a write exists *)
Definition ex_copy : hmap :=
  of_list [(1%positive, mkNode 1 true [] [3%positive; 5%positive]);
           (2%positive, mkNode 1 true [] [4%positive; 5%positive]);
           (3%positive, mkNode 2 true [7%Z] []);
           (4%positive, mkNode 2 true [7%Z] []);
           (5%positive, mkNode 3 false [1%Z] [])].

Example ex_copy_passes : no_shared_mutable ex_copy 1%positive 2%positive = true.
Proof. vm_compute. reflexivity. Qed.

Example ex_copy_has_write :
  exists g' R', step (sem ex_copy, [1%positive]) (g', R') /\ g' 3%positive <> sem ex_copy 3%positive.
Proof.
  exists (upd (sem ex_copy) 3%positive (mkNode 2 true [8%Z] [5%positive])), [1%positive]. split.
  - eapply (step_write (sem ex_copy) [1%positive] 3%positive (mkNode 2 true [7%Z] [])).
    + exists 1%positive. split; [left; reflexivity | ].
      eapply reach_step; [apply reach_refl | vm_compute; reflexivity | left; reflexivity].
    + vm_compute. reflexivity.
    + reflexivity.
    + reflexivity.
    + reflexivity.
    + intros c [<- | []]. exists 1%positive. split; [left; reflexivity | ].
      eapply reach_step; [apply reach_refl | vm_compute; reflexivity | right; left; reflexivity].
  - vm_compute. discriminate.
Qed.
