(* C10: invariants of the Series model over arbitrary operation histories and
   map-level specifications of the operations. *)
From Coq Require Import ZArith List Bool Lia.
From Verif Require Import lib.Arith model.Series model.SeriesOps proofs.SeriesProofs.
Import ListNotations.
Open Scope Z_scope.

Section OpsProofs.
Variable A : Arith.
Notation V := (car A).
Notation series := (series A).
Hypothesis miss_law : forall x : V, is_miss A x = true -> x = miss A.
Variable X : ArithExt A.

(* ---------------------------------------------------------------- trimmed states *)
Definition Trimmed (s : series) : Prop :=
  match s_start s with
  | None => s_data s = []
  | Some _ => s_data s <> [] /\ all_miss A (hd [] (s_data s)) = false /\ all_miss A (last (s_data s) []) = false
  end.

Lemma hd_app_nonempty {T} (a b : list T) d : a <> [] -> hd d (a ++ b) = hd d a.
Proof. destruct a; [contradiction|reflexivity]. Qed.

Lemma last_rev_hd {T} (l : list T) d : last (rev l) d = hd d l.
Proof. destruct l as [|x l]; [reflexivity|]. simpl. now rewrite last_last. Qed.

Lemma trim_Trimmed (s : series) : WF A s -> Trimmed (trim A s).
Proof.
  intros [Hok Hnone]. unfold trim, Trimmed. destruct s as [fr st nv rows]; simpl in *.
  destruct st as [st|]; [|reflexivity].
  pose proof (drop_leading_spec A miss_law nv rows Hok) as H1.
  destruct (drop_leading A rows) as [n rows1]. destruct H1 as (E1 & Hok1 & Hhd1).
  pose proof (drop_leading_spec A miss_law nv (rev rows1) (rows_ok_rev A _ _ Hok1)) as H2.
  destruct (drop_leading A (rev rows1)) as [m rest2]. destruct H2 as (E2 & Hok2 & Hhd2).
  simpl. destruct (rev rest2) as [|r0 rr] eqn:ER; [reflexivity|]. cbn [s_start s_data].
  split; [discriminate|].
  assert (Hne : rest2 <> []) by (intros ->; discriminate).
  assert (E3 : rows1 = rev rest2 ++ repeat (missrow A nv) m).
  { rewrite <- (rev_involutive rows1), E2, rev_app_distr, rev_repeat. reflexivity. }
  split.
  - (* first row: head of rows1 *)
    destruct rows1 as [|h1 t1]; [destruct (rev rest2); discriminate|].
    rewrite ER in E3. simpl in E3. inversion E3; subst. exact Hhd1.
  - (* last row: head of rest2 *)
    rewrite <- ER, last_rev_hd. destruct rest2 as [|h2 t2]; [contradiction|exact Hhd2].
Qed.

Lemma build_Trimmed fr nv lo hi f : (forall u, length (f u) = nv) -> Trimmed (build A fr nv lo hi f).
Proof.
  intros Hf. apply trim_Trimmed. split; simpl; [|discriminate].
  apply Forall_forall. intros r Hr. apply in_map_iff in Hr as (u & <- & _). apply Hf.
Qed.

Lemma upd_cols_len (old : list V) vids new k : length (upd_cols A old vids new k) = length old.
Proof. apply upd_cols_length. Qed.

Lemma set_data_fun_len (s : series) dates rows vids u : WF A s ->
  length (match last_assoc A u dates rows None with
          | Some r => match vids with None => bcast_row A (s_nv s) r | Some cols => upd_cols A (row_at A s u) cols r 0 end
          | None => row_at A s u end) = s_nv s.
Proof.
  intros Hwf. destruct (last_assoc A u dates rows None).
  - destruct vids; [rewrite upd_cols_length; now apply row_at_length|apply bcast_row_length].
  - now apply row_at_length.
Qed.

Lemma set_data_WF_any fr (s : series) dates rows vids : WF A s -> WF A (set_data A fr s dates rows vids).
Proof.
  intros Hwf. unfold set_data. destruct dates as [|d0 ds]; [assumption|].
  apply build_WF; [assumption|]. intros u. now apply set_data_fun_len.
Qed.

Lemma set_data_Trimmed fr (s : series) dates rows vids :
  WF A s -> (dates <> [] \/ Trimmed s) -> Trimmed (set_data A fr s dates rows vids).
Proof.
  intros Hwf Hc. unfold set_data. destruct dates as [|d0 ds].
  - destruct Hc as [Hc|Hc]; [contradiction|assumption].
  - apply build_Trimmed. intros u. now apply set_data_fun_len.
Qed.

(* ---------------------------------------------------------------- WF of every operation *)
Lemma empty_WF nv : WF A (empty_series A nv).
Proof. split; simpl; [constructor|reflexivity]. Qed.

Lemma mk_WF fr st nv rows : rows_ok A nv rows -> WF A (mkSeries fr (Some st) nv rows).
Proof. intros H. split; simpl; [assumption|discriminate]. Qed.

Lemma rows_ok_map nv (g : Z -> list V) l : (forall u, length (g u) = nv) -> rows_ok A nv (map g l).
Proof. intros H. apply Forall_forall. intros r Hr. apply in_map_iff in Hr as (u & <- & _). apply H. Qed.

Lemma recreate_WF fr s dates vids : WF A s -> WF A (recreate A fr s dates vids).
Proof. intros _. unfold recreate. apply set_data_WF_any. apply empty_WF. Qed.

Lemma shift_WF (s : series) k : WF A s -> WF A (shift_by A s k).
Proof.
  intros [H1 H2]. unfold shift_by. destruct (s_start s) eqn:E; [|split; [assumption|intros _; now apply H2]].
  split; simpl; [assumption|discriminate].
Qed.

Lemma clip_WF s a b r : WF A s -> clip A s a b = Ok r -> WF A r.
Proof.
  intros Hwf. unfold clip. destruct (s_start s) as [st|] eqn:Es; [|intros H; inversion H; now subst].
  unfold s_end. rewrite Es. destruct (_ && _); intros H; inversion H; subst; [assumption|].
  apply mk_WF. unfold get_data_from_until. apply rows_ok_map. intros u. now apply row_at_length.
Qed.

Lemma bcast_series_WF s n r : WF A s -> bcast_series A s n = Ok r -> WF A r /\ s_nv r = n.
Proof.
  intros [H1 H2]. unfold bcast_series. destruct (Nat.eqb_spec (s_nv s) n).
  - intros H; inversion H; subst. split; [split; assumption|reflexivity].
  - destruct (Nat.eqb (s_nv s) 1); [|discriminate]. intros H; inversion H; subst; clear H. split; [|reflexivity].
    split; simpl.
    + apply Forall_forall. intros r Hr. apply in_map_iff in Hr as (r0 & <- & _). apply repeat_length.
    + intros E. rewrite (H2 E). reflexivity.
Qed.

Lemma overlay_core_WF s o : WF A s -> WF A (overlay_core A s o).
Proof. intros H. unfold overlay_core. apply trim_WF; [assumption|]. now apply set_data_WF_any. Qed.

Lemma overlay_core_Trimmed s o : WF A s -> Trimmed (overlay_core A s o).
Proof. intros H. unfold overlay_core. apply trim_Trimmed. now apply set_data_WF_any. Qed.

Lemma overlay_WF s o r : WF A s -> WF A o -> overlay A s o = Ok r -> WF A r /\ Trimmed r.
Proof.
  intros Hs Ho. unfold overlay. destruct (freq_clash A s o); [discriminate|].
  destruct (Nat.eqb (s_nv s) (s_nv o)).
  { intros H; inversion H; subst. split; [now apply overlay_core_WF|now apply overlay_core_Trimmed]. }
  destruct (Nat.eqb (s_nv s) 1).
  { destruct (bcast_series A s (s_nv o)) as [s'|] eqn:E; [|discriminate].
    destruct (bcast_series_WF _ _ _ Hs E) as [Hs' _].
    intros H; inversion H; subst. split; [now apply overlay_core_WF|now apply overlay_core_Trimmed]. }
  destruct (Nat.eqb (s_nv o) 1); [|discriminate].
  destruct (bcast_series A o (s_nv s)) as [o'|] eqn:E; [|discriminate].
  intros H; inversion H; subst. split; [now apply overlay_core_WF|now apply overlay_core_Trimmed].
Qed.

Lemma underlay_WF s o r : WF A s -> WF A o -> underlay A s o = Ok r -> WF A r /\ Trimmed r.
Proof.
  intros Hs Ho. unfold underlay. destruct (freq_clash A s o); [discriminate|].
  destruct (Nat.eqb (s_nv s) (s_nv o)).
  { intros H; inversion H; subst. split; [now apply overlay_core_WF|now apply overlay_core_Trimmed]. }
  destruct (Nat.eqb (s_nv s) 1).
  { destruct (bcast_series A s (s_nv o)) as [s'|] eqn:E; [|discriminate].
    intros H; inversion H; subst. split; [now apply overlay_core_WF|now apply overlay_core_Trimmed]. }
  destruct (Nat.eqb (s_nv o) 1); [|discriminate].
  destruct (bcast_series A o (s_nv s)) as [o'|] eqn:E; [|discriminate].
  destruct (bcast_series_WF _ _ _ Ho E) as [Ho' _].
  intros H; inversion H; subst. split; [now apply overlay_core_WF|now apply overlay_core_Trimmed].
Qed.

Lemma hstack_WF s1 s2 r : WF A s1 -> WF A s2 -> hstack A s1 s2 = Ok r -> WF A r /\ Trimmed r.
Proof.
  intros H1 H2. unfold hstack.
  assert (Hlen : forall u, length (row_at A s1 u ++ row_at A s2 u) = (s_nv s1 + s_nv s2)%nat)
    by (intros u; rewrite app_length, !row_at_length by assumption; reflexivity).
  destruct (s_start s1) eqn:E1, (s_start s2) eqn:E2;
    try (destruct (freq_clash A s1 s2); [discriminate|]);
    try (destruct (omin _ _); [|discriminate]); try (destruct (omax _ _); [|discriminate]);
    intros H; inversion H; subst;
    try (split; [now apply build_WF|now apply build_Trimmed]).
  split; [apply empty_WF|reflexivity].
Qed.

Lemma binop_WF f s1 s2 r : WF A s1 -> WF A s2 -> binop A f s1 s2 = Ok r -> WF A r /\ Trimmed r.
Proof.
  intros H1 H2. unfold binop.
  assert (Hlen : forall u, length (zip_bcast A f (row_at A s1 u) (row_at A s2 u)) = Nat.max (s_nv s1) (s_nv s2))
    by (intros u; rewrite zip_bcast_length, !row_at_length by assumption; reflexivity).
  destruct (s_start s1) eqn:E1, (s_start s2) eqn:E2;
    try (destruct (negb (s_freq s1 =? s_freq s2)); [discriminate|]);
    try (destruct (negb _); [discriminate|]);
    try (destruct (omin _ _); [|discriminate]); try (destruct (omax _ _); [|discriminate]);
    intros H; inversion H; subst;
    try (split; [now apply build_WF|now apply build_Trimmed]).
  split; [apply empty_WF|reflexivity].
Qed.

Lemma map_data_WF f (s : series) : WF A s -> WF A (map_data A f s) /\ Trimmed (map_data A f s).
Proof.
  intros [H1 H2]. unfold map_data.
  assert (Hw : WF A (mkSeries (s_freq s) (s_start s) (s_nv s) (map (map f) (s_data s)))).
  { split; simpl.
    - apply Forall_forall. intros r Hr. apply in_map_iff in Hr as (r0 & <- & Hr0). rewrite map_length.
      eapply Forall_forall in H1; eauto.
    - intros E. now rewrite (H2 E). }
  split; [now apply trim_WF|now apply trim_Trimmed].
Qed.

Lemma map_notrim_WF f (s : series) : WF A s -> WF A (map_notrim A f s).
Proof.
  intros [H1 H2]. split; simpl.
  - apply Forall_forall. intros r Hr. apply in_map_iff in Hr as (r0 & <- & Hr0). rewrite map_length.
    eapply Forall_forall in H1; eauto.
  - intros E. now rewrite (H2 E).
Qed.

Lemma moving_WF m k s r : WF A s -> moving A m k s = Ok r -> WF A r /\ Trimmed r.
Proof.
  intros [H1 H2]. unfold moving. destruct (s_data s) eqn:Ed; [discriminate|]. rewrite <- Ed.
  destruct (Nat.eqb k 0); [discriminate|].
  intros H; injection H as <-.
  match goal with |- WF A (trim A ?x) /\ _ => assert (Hw : WF A x) end.
  { split; simpl.
    - apply Forall_forall. intros r Hr. apply in_map_iff in Hr as (i & <- & _). now rewrite map_length, seq_length.
    - intros E. specialize (H2 E). rewrite H2 in Ed. discriminate. }
  split; [now apply trim_WF|now apply trim_Trimmed].
Qed.

Lemma statistic_WF k (s : series) : WF A s -> WF A (statistic A X k s) /\ Trimmed (statistic A X k s).
Proof.
  intros [H1 H2]. unfold statistic.
  match goal with |- WF A (trim A ?x) /\ _ => assert (Hw : WF A x) end.
  { split; simpl.
    - apply Forall_forall. intros r Hr. apply in_map_iff in Hr as (i & <- & _). reflexivity.
    - intros E. now rewrite (H2 E). }
  split; [now apply trim_WF|now apply trim_Trimmed].
Qed.

Lemma fill_missing_WF fr k span (s : series) : WF A s -> WF A (fill_missing A fr k span s) /\ Trimmed (fill_missing A fr k span s).
Proof.
  intros Hwf. unfold fill_missing.
  split; [apply trim_WF; [assumption|]; now apply set_data_WF_any|apply trim_Trimmed; now apply set_data_WF_any].
Qed.

Lemma alter_nv_WF (s : series) n : WF A s -> WF A (alter_num_variants A s n).
Proof.
  intros [H1 H2]. split; simpl.
  - apply Forall_forall. intros r Hr. apply in_map_iff in Hr as (r0 & <- & _).
    rewrite app_length, firstn_length, repeat_length. lia.
  - intros E. now rewrite (H2 E).
Qed.

(* ---------------------------------------------------------------- histories *)
Definition AllWF (rs : regs A) : Prop := Forall (WF A) rs.

Lemma getr_WF rs i : AllWF rs -> WF A (getr A rs i).
Proof.
  intros H. unfold getr. destruct (Nat.ltb_spec i (length rs)).
  - eapply Forall_forall; [exact H|]. now apply nth_In.
  - rewrite nth_overflow by lia. apply empty_WF.
Qed.

Lemma setr_WF rs i s : AllWF rs -> WF A s -> AllWF (setr A rs i s).
Proof.
  intros H Hs. revert i. induction H as [|x l Hx Hl IH]; intros i; simpl; [destruct i; constructor|].
  destruct i; constructor; auto. apply IH.
Qed.

(* the result of every successful operation is well formed *)
Lemma exec_WF rs o d s : AllWF rs -> exec A X rs o = (d, Ok s) -> WF A s.
Proof.
  intros Hrs. pose proof (fun i => getr_WF rs i Hrs) as G.
  destruct o; simpl; intros H; injection H as _ H.
  - subst s. apply set_data_WF_any, G.
  - subst s. apply recreate_WF, G.
  - subst s. apply G.
  - subst s. apply shift_WF, G.
  - eapply clip_WF; [apply G|exact H].
  - destruct under; [eapply underlay_WF|eapply overlay_WF]; try exact H; apply G.
  - destruct under; [eapply underlay_WF|eapply overlay_WF]; try exact H; apply G.
  - eapply hstack_WF; try exact H; apply G.
  - eapply binop_WF; try exact H; apply G.
  - subst s. apply map_data_WF, G.
  - subst s. apply map_notrim_WF, G.
  - subst s. apply map_notrim_WF, G.
  - subst s. apply map_notrim_WF, G.
  - eapply moving_WF; try exact H; apply G.
  - subst s. apply statistic_WF, G.
  - subst s. apply fill_missing_WF, G.
  - subst s. apply fill_missing_WF, G.
  - subst s. apply alter_nv_WF, G.
Qed.

Lemma step_WF rs o : AllWF rs -> AllWF (fst (step A X rs o)).
Proof.
  intros Hrs. unfold step. destruct (exec A X rs o) as [d r] eqn:E. destruct r as [s|e]; simpl; [|assumption].
  apply setr_WF; [assumption|]. eapply exec_WF; eauto.
Qed.

(* every state reachable by any history of public operations is well formed *)
Theorem run_WF rs ops : AllWF rs -> AllWF (fst (run A X rs ops)).
Proof.
  revert rs. induction ops as [|o ops IH]; intros rs Hrs; simpl; [assumption|].
  pose proof (step_WF rs o Hrs) as H1. destruct (step A X rs o) as [rs1 out]. simpl in H1.
  specialize (IH rs1 H1). destruct (run A X rs1 ops) as [rs2 outs]. exact IH.
Qed.

(* operations after which the result is trimmed: writes, operators, lays, stacking, windows, statistics, fills *)
Definition trimming_op (o : sop A) : bool :=
  match o with
  | OpSet _ _ _ dates _ _ => match dates with [] => false | _ => true end
  | OpBin _ _ _ _ _ | OpScalar _ _ _ _ _ _ | OpOverlay _ _ _ _ | OpOverlayF _ _ _ _ _ | OpHstack _ _ _ _
  | OpMov _ _ _ _ _ | OpStat _ _ _ _ | OpFill _ _ _ _ _ _ | OpFillFrom _ _ _ _ _ _ => true
  | _ => false
  end.

Theorem exec_Trimmed rs o d s : AllWF rs -> trimming_op o = true -> exec A X rs o = (d, Ok s) -> Trimmed s.
Proof.
  intros Hrs Ht. pose proof (fun i => getr_WF rs i Hrs) as G.
  destruct o; simpl in Ht; try discriminate; simpl; intros H; injection H as _ H.
  - subst s. apply set_data_Trimmed; [apply G|]. left. destruct dates; [discriminate|discriminate].
  - destruct under; [eapply underlay_WF|eapply overlay_WF]; try exact H; apply G.
  - destruct under; [eapply underlay_WF|eapply overlay_WF]; try exact H; apply G.
  - eapply hstack_WF; try exact H; apply G.
  - eapply binop_WF; try exact H; apply G.
  - subst s. apply map_data_WF, G.
  - eapply moving_WF; try exact H; apply G.
  - subst s. apply statistic_WF, G.
  - subst s. apply fill_missing_WF, G.
  - subst s. apply fill_missing_WF, G.
Qed.

(* ---------------------------------------------------------------- the span covers every non-missing value *)
Hypothesis miss_is_miss : is_miss A (miss A) = true.

Lemma nth_missrow n c : nth c (missrow A n) (miss A) = miss A.
Proof. unfold missrow. destruct (Nat.ltb_spec c n); [now apply nth_repeat|]. apply nth_overflow. rewrite repeat_length. lia. Qed.

Theorem span_covers (s : series) t c :
  is_miss A (cell A s t c) = false ->
  exists st en, s_start s = Some st /\ s_end A s = Some en /\ st <= t <= en.
Proof.
  intros H. unfold cell in H. destruct (s_start s) as [st|] eqn:Es.
  - exists st, (st + Z.of_nat (length (s_data s)) - 1). split; [reflexivity|]. split; [unfold s_end; now rewrite Es|].
    destruct (Z.ltb_spec t st) as [Hlt|Hge].
    + rewrite (row_at_outside A s t st (st + Z.of_nat (length (s_data s)) - 1)) in H;
        [rewrite nth_missrow, miss_is_miss in H; discriminate|assumption|unfold s_end; now rewrite Es|lia].
    + destruct (Z.leb_spec t (st + Z.of_nat (length (s_data s)) - 1)); [lia|].
      rewrite (row_at_outside A s t st (st + Z.of_nat (length (s_data s)) - 1)) in H;
        [rewrite nth_missrow, miss_is_miss in H; discriminate|assumption|unfold s_end; now rewrite Es|lia].
  - rewrite row_at_empty, nth_missrow, miss_is_miss in H by assumption. discriminate.
Qed.

(* ---------------------------------------------------------------- map-level specifications *)
Lemma In_zrange u a b : In u (zrange a b) <-> a <= u < b.
Proof.
  unfold zrange. rewrite in_map_iff. split.
  - intros (i & <- & Hi). apply in_seq in Hi. lia.
  - intros H. exists (Z.to_nat (u - a)). split; [lia|]. apply in_seq. lia.
Qed.

Lemma last_assoc_map t dates (g : Z -> list V) acc :
  In t dates -> last_assoc A t dates (map g dates) acc = Some (g t).
Proof.
  revert acc. induction dates as [|d ds IH]; intros acc Hin; [destruct Hin|]. simpl.
  destruct (in_dec Z.eq_dec t ds) as [Hds|Hds].
  - now apply IH.
  - rewrite last_assoc_notin by assumption. destruct Hin as [->|Hin]; [|contradiction].
    now rewrite Z.eqb_refl.
Qed.

(* reading: x(dates) holds exactly the addressed rows *)
Theorem recreate_spec fr (s : series) dates t : WF A s ->
  row_at A (recreate A fr s dates None) t = if in_dec Z.eq_dec t dates then row_at A s t else missrow A (s_nv s).
Proof.
  intros Hwf. unfold recreate. rewrite row_at_set_data by (try assumption; apply empty_WF). simpl.
  destruct (in_dec Z.eq_dec t dates) as [Hin|Hout].
  - rewrite (last_assoc_map t dates (fun u => row_at A s u)) by assumption.
    apply bcast_row_id. now apply row_at_length.
  - rewrite last_assoc_notin by assumption. reflexivity.
Qed.

(* the stored rows are the map restricted to the span *)
Lemma data_as_map (s : series) st : WF A s -> s_start s = Some st ->
  s_data s = map (row_at A s) (zrange st (st + Z.of_nat (length (s_data s)))).
Proof.
  intros _ Es. apply nth_ext with (d := missrow A (s_nv s)) (d' := missrow A (s_nv s)).
  - rewrite map_length, zrange_length. lia.
  - intros i Hi. rewrite nth_map_in with (d' := 0) by (rewrite zrange_length; lia).
    rewrite zrange_nth by lia. unfold row_at. rewrite Es.
    destruct (Z.ltb_spec (st + Z.of_nat i) st); [lia|]. f_equal. lia.
Qed.

(* overlay by span: inside the other series' span its rows (missing values included), elsewhere the receiver's *)
Theorem overlay_core_spec (s o : series) t : WF A s -> WF A o -> s_nv s = s_nv o ->
  row_at A (overlay_core A s o) t =
    match s_start o, s_end A o with
    | Some a, Some b => if (a <=? t) && (t <=? b) then row_at A o t else row_at A s t
    | _, _ => row_at A s t
    end.
Proof.
  intros Hs Ho Hnv. unfold overlay_core.
  rewrite row_at_trim by (try assumption; now apply set_data_WF).
  rewrite row_at_set_data by assumption. unfold span_list, s_end.
  destruct (s_start o) as [a|] eqn:Eo; [|reflexivity].
  set (b := a + Z.of_nat (length (s_data o)) - 1).
  rewrite (data_as_map o a Ho Eo) at 1.
  replace (a + Z.of_nat (length (s_data o))) with (b + 1) by (subst b; lia).
  destruct (andb _ _) eqn:E.
  - apply andb_true_iff in E as [E1 E2]. apply Z.leb_le in E1, E2.
    rewrite last_assoc_map by (apply In_zrange; lia).
    rewrite Hnv. apply bcast_row_id. now apply row_at_length.
  - rewrite last_assoc_notin; [reflexivity|]. intros Hin. apply In_zrange in Hin.
    apply andb_false_iff in E as [E|E]; apply Z.leb_gt in E; lia.
Qed.

(* hstack: variants side by side, period by period *)
Theorem hstack_spec (s1 s2 r : series) t lo hi : WF A s1 -> WF A s2 ->
  hstack A s1 s2 = Ok r -> omin (s_start s1) (s_start s2) = Some lo -> omax (s_end A s1) (s_end A s2) = Some hi ->
  row_at A r t = if (lo <=? t) && (t <=? hi) then row_at A s1 t ++ row_at A s2 t else missrow A (s_nv s1 + s_nv s2).
Proof.
  intros H1 H2. unfold hstack.
  assert (Hlen : forall u, length (row_at A s1 u ++ row_at A s2 u) = (s_nv s1 + s_nv s2)%nat)
    by (intros u; rewrite app_length, !row_at_length by assumption; reflexivity).
  destruct (s_start s1) eqn:E1, (s_start s2) eqn:E2;
    try (destruct (freq_clash A s1 s2); [discriminate|]); simpl; try discriminate;
    unfold s_end; rewrite ?E1, ?E2; simpl;
    intros H Hlo Hhi; injection H as <-; injection Hlo as <-; injection Hhi as <-; now rewrite row_at_build.
Qed.

(* clip only restricts the span *)
Definition clip_lo (a : option Z) (st : Z) : Z := match a with None => st | Some x => Z.max x st end.
Definition clip_hi (b : option Z) (en : Z) : Z := match b with None => en | Some x => Z.min x en end.

Theorem clip_spec (s r : series) a b st en t : WF A s -> s_start s = Some st -> s_end A s = Some en ->
  clip A s a b = Ok r ->
  row_at A r t = if (clip_lo a st <=? t) && (t <=? clip_hi b en) then row_at A s t else missrow A (s_nv s).
Proof.
  intros Hwf Es Ee. unfold clip. rewrite Es, Ee. fold (clip_lo a st) (clip_hi b en).
  set (ns := clip_lo a st). set (ne := clip_hi b en). intros H.
  destruct (andb (ns =? st) (ne =? en)) eqn:E.
  - injection H as <-. apply andb_true_iff in E as [E1 E2]. apply Z.eqb_eq in E1, E2. rewrite E1, E2.
    destruct (andb _ _) eqn:E3; [reflexivity|]. eapply row_at_outside; eauto.
    apply andb_false_iff in E3 as [E3|E3]; apply Z.leb_gt in E3; lia.
  - injection H as <-. unfold row_at at 1. simpl. unfold get_data_from_until.
    destruct (Z.ltb_spec t ns).
    + destruct (Z.leb_spec ns t); [lia|reflexivity].
    + destruct (Z.leb_spec ns t); [|lia]. simpl. destruct (Z.leb_spec t ne).
      * rewrite nth_map_in with (d' := 0) by (rewrite zrange_length; lia).
        rewrite zrange_nth by lia. f_equal. lia.
      * apply nth_overflow. rewrite map_length, zrange_length. lia.
Qed.

(* scalar operators and element-wise functions act cell by cell *)
Theorem map_data_spec f (s : series) t : WF A s -> f (miss A) = miss A ->
  row_at A (map_data A f s) t = map f (row_at A s t).
Proof.
  intros Hwf Hf. unfold map_data. rewrite row_at_trim.
  2:{ assumption. }
  2:{ destruct Hwf as [H1 H2]. split; simpl.
      - apply Forall_forall. intros r Hr. apply in_map_iff in Hr as (r0 & <- & Hr0). rewrite map_length.
        eapply Forall_forall in H1; eauto.
      - intros E. now rewrite (H2 E). }
  unfold row_at. simpl.
  assert (Hm : map f (missrow A (s_nv s)) = missrow A (s_nv s)).
  { unfold missrow. induction (s_nv s); simpl; [reflexivity|]. now rewrite Hf, IHn. }
  destruct (s_start s); [|now rewrite Hm]. destruct (_ <? _); [now rewrite Hm|].
  rewrite <- Hm at 1. apply map_nth.
Qed.

End OpsProofs.
