(* C01  Non-vacuity: the contracts assumed of the QZ / Schur oracles are satisfiable by a concrete
   determinate model (one backward, one forward variable; roots 1/2 and 2) over the rationals. *)
From Verif Require Import lib.MxC01 gen.FordGen model.Ford proofs.FordProofs proofs.FordSquareProofs.
From mathcomp Require Import all_ssreflect all_algebra.
Set Implicit Arguments.
Unset Strict Implicit.
Unset Printing Implicit Defensive.
Import GRing.Theory.
Local Open Scope ring_scope.

Section Example.
Notation F := rat_fieldType.
Notation O := (MCOps F).

Definition exS : 'M[F]_(1 + 1) := 1%:M.
Definition exT : 'M[F]_(1 + 1) := block_mx (- (1 / 2%:R))%:M 0 0 (- 2%:R)%:M.
Definition exQ : 'M[F]_(1 + 1) := 1%:M.
Definition exZ : 'M[F]_(1 + 1, 1 + 1) := block_mx 0 1%:M 1%:M 0.
Definition exA : 'M[F]_(1 + 1, 1 + 1) := exS *m exZ.
Definition exB : 'M[F]_(1 + 1, 1 + 1) := exT *m exZ.
Definition exC : 'cV[F]_(1 + 1) := col_mx 1%:M 1%:M.
Definition exD : 'M[F]_(1 + 1, 1) := col_mx 1%:M 0.
Definition exu : 'M[F]_1 := 1%:M.
Definition exTa : 'M[F]_1 := ts_Tg (@solve_transition O 1 1 1 exS exT exQ exZ exC exD).

Lemma exZZ : exZ *m exZ = 1%:M.
Proof.
rewrite /exZ mulmx_block !mul0mx !mulmx0 !mul1mx !addr0 !add0r.
by rewrite (scalar_mx_block 1 1 1).
Qed.

Lemma unit_scalar1 (a : F) : a != 0 -> (a%:M : 'M[F]_1) \in unitmx.
Proof. by move=> nz; rewrite unitmxE det_scalar1 unitfE. Qed.

Theorem contracts_satisfiable :
  [/\ exQ *m exA *m exZ = exS, exQ *m exB *m exZ = exT, exQ \in unitmx & exZ *m exZ = 1%:M] /\
  [/\ dlsubmx exS = 0, dlsubmx exT = 0 & ulsubmx exS \in unitmx] /\
  [/\ drsubmx exT \in unitmx, drsubmx exS + drsubmx exT \in unitmx & dlsubmx exZ \in unitmx] /\
  [/\ exu *m exu^T = 1%:M &
      ts_Tg (@solve_transition O 1 1 1 exS exT exQ exZ exC exD) = exu *m exTa *m exu^T].
Proof.
split; [split | split; [split | split; [split | split]]].
- by rewrite /exQ /exA mul1mx -mulmxA exZZ mulmx1.
- by rewrite /exQ /exB mul1mx -mulmxA exZZ mulmx1.
- exact: unitmx1.
- exact: exZZ.
- by rewrite /exS (scalar_mx_block 1 1 1) block_mxKdl.
- by rewrite /exT block_mxKdl.
- by rewrite /exS (scalar_mx_block 1 1 1) block_mxKul unitmx1.
- by rewrite /exT block_mxKdr unit_scalar1 // oppr_eq0 pnatr_eq0.
- by rewrite /exS (scalar_mx_block 1 1 1) /exT !block_mxKdr -raddfD /= unit_scalar1.
- by rewrite /exZ block_mxKdl unitmx1.
- by rewrite /exu trmx1 mulmx1.
- by rewrite /exu /exTa trmx1 mulmx1 mul1mx.
Qed.

(* The guard "no leads in measurement equations" of Theorem measurement_block is needed: the code keeps only
   system.G[:, num_forwards:], so a measurement equation  o = x{+1} + 1  (F = -1, G = [1 0], H~ = 1) is NOT
   satisfied by the computed (Z, H, D) = (0, ., 1) as soon as the lead is non-zero. *)
Theorem measurement_leads_refuted :
  exists (Fm : 'M[F]_1) (Gm : 'M[F]_(1, 1 + 1)) (Hc : 'cV[F]_1) (Jm : 'M[F]_(1, 0)) (Ua : 'M[F]_1)
         (f : 'cV[F]_1) (xi : 'cV[F]_1) (w : 'cV[F]_0),
  let ms := @solve_measurement O 1 1 1 0 Fm Gm Hc Jm Ua in
  Fm \in unitmx /\
  Fm *m (ms_Z ms *m xi + ms_H ms *m w + ms_D ms) + Gm *m col_mx f xi + Hc + Jm *m w != 0.
Proof.
exists (- 1%:M), (row_mx 1%:M 0), 1%:M, 0, 1%:M, 1%:M, 0, 0 => /=; split.
  by rewrite unitmxN ?unitmx1.
rewrite /left_div /= opprK invmx1 !mul1mx row_mxKr.
have z1 (A : 'M[F]_(1, 1)) : A *m (0 : 'cV[F]_1) = 0 by exact: mulmx0.
have z2 (A : 'M[F]_(1, 0)) : A *m (0 : 'cV[F]_0) = 0 by exact: mulmx0.
rewrite !z1 !z2 !add0r mul_row_col mul0mx !addr0 mulNmx !mul1mx addNr add0r.
by apply/eqP => /matrixP /(_ 0 0); rewrite !mxE /= => /eqP; rewrite oner_eq0.
Qed.

End Example.
