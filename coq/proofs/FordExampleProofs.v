(* C01  Non-vacuity: the contracts assumed of the QZ / Schur oracles are satisfiable by a concrete
   determinate model (one backward, one forward variable; roots 1/2 and 2) over the rationals. *)
From Verif Require Import lib.MxC01 gen.FordGen model.Ford proofs.FordProofs proofs.FordSquareProofs.
From mathcomp Require Import all_ssreflect all_algebra.
Set Implicit Arguments.
Unset Strict Implicit.
Unset Printing Implicit Defensive.
Import GRing.Theory.
Local Open Scope ring_scope.

Section Example.
Notation F := rat_fieldType.
Notation O := (MCOps F).

Definition exS : 'M[F]_(1 + 1) := 1%:M.
Definition exT : 'M[F]_(1 + 1) := block_mx (- (1 / 2%:R))%:M 0 0 (- 2%:R)%:M.
Definition exQ : 'M[F]_(1 + 1) := 1%:M.
Definition exZ : 'M[F]_(1 + 1, 1 + 1) := block_mx 0 1%:M 1%:M 0.
Definition exA : 'M[F]_(1 + 1, 1 + 1) := exS *m exZ.
Definition exB : 'M[F]_(1 + 1, 1 + 1) := exT *m exZ.
Definition exC : 'cV[F]_(1 + 1) := col_mx 1%:M 1%:M.
Definition exD : 'M[F]_(1 + 1, 1) := col_mx 1%:M 0.
Definition exu : 'M[F]_1 := 1%:M.
Definition exTa : 'M[F]_1 := ts_Tg (@solve_transition O 1 1 1 exS exT exQ exZ exC exD).

Lemma exZZ : exZ *m exZ = 1%:M.
Proof.
rewrite /exZ mulmx_block !mul0mx !mulmx0 !mul1mx !addr0 !add0r.
by rewrite (scalar_mx_block 1 1 1).
Qed.

Lemma unit_scalar1 (a : F) : a != 0 -> (a%:M : 'M[F]_1) \in unitmx.
Proof. by move=> nz; rewrite unitmxE det_scalar1 unitfE. Qed.

Theorem contracts_satisfiable :
  [/\ exQ *m exA *m exZ = exS, exQ *m exB *m exZ = exT, exQ \in unitmx & exZ *m exZ = 1%:M] /\
  [/\ dlsubmx exS = 0, dlsubmx exT = 0 & ulsubmx exS \in unitmx] /\
  [/\ drsubmx exT \in unitmx, drsubmx exS + drsubmx exT \in unitmx & dlsubmx exZ \in unitmx] /\
  [/\ exu *m exu^T = 1%:M &
      ts_Tg (@solve_transition O 1 1 1 exS exT exQ exZ exC exD) = exu *m exTa *m exu^T].
Proof.
split; [split | split; [split | split; [split | split]]].
- by rewrite /exQ /exA mul1mx -mulmxA exZZ mulmx1.
- by rewrite /exQ /exB mul1mx -mulmxA exZZ mulmx1.
- exact: unitmx1.
- exact: exZZ.
- by rewrite /exS (scalar_mx_block 1 1 1) block_mxKdl.
- by rewrite /exT block_mxKdl.
- by rewrite /exS (scalar_mx_block 1 1 1) block_mxKul unitmx1.
- by rewrite /exT block_mxKdr unit_scalar1 // oppr_eq0 pnatr_eq0.
- by rewrite /exS (scalar_mx_block 1 1 1) /exT !block_mxKdr -raddfD /= unit_scalar1.
- by rewrite /exZ block_mxKdl unitmx1.
- by rewrite /exu trmx1 mulmx1.
- by rewrite /exu /exTa trmx1 mulmx1 mul1mx.
Qed.

End Example.
