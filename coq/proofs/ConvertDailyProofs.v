(* C12, DAILY source / target: calendar membership, aggregation groups, placement and round trips. *)
From Coq Require Import ZArith List Bool Lia.
From Verif Require Import lib.Arith lib.Calendar model.Series model.SeriesOps model.Convert model.ConvertDaily
     proofs.SeriesProofs proofs.ConvertProofs.
Import ListNotations.
Open Scope Z_scope.

Ltac Zify.zify_post_hook ::= Z.to_euclidean_division_equations.

Ltac norm12 :=
  change (12 / 1) with 12 in *; change (12 / 2) with 6 in *; change (12 / 4) with 3 in *; change (12 / 12) with 1 in *.

Lemma reg_freq_cases f : reg_freq f = true -> f = 1 \/ f = 2 \/ f = 4 \/ f = 12.
Proof.
  unfold reg_freq. rewrite !orb_true_iff, !Z.eqb_eq. tauto.
Qed.

Lemma reg_freq_pos f : reg_freq f = true -> 0 < f.
Proof. intros H. destruct (reg_freq_cases f H) as [->|[->|[->| ->]]]; lia. Qed.

(* ---- months of a regular period ---- *)
Lemma lp_months f t : reg_freq f = true ->
  1 <= lp_first_month f t /\ lp_first_month f t <= lp_last_month f t /\ lp_last_month f t <= 12 /\
  (t mod f < f - 1 -> lp_last_month f t + 1 = lp_first_month f (t + 1) /\ (t + 1) / f = t / f) /\
  (t mod f = f - 1 -> lp_last_month f t = 12 /\ lp_first_month f (t + 1) = 1 /\ (t + 1) / f = t / f + 1).
Proof.
  intros R. unfold lp_first_month, lp_last_month.
  destruct (reg_freq_cases f R) as [->|[->|[->| ->]]]; norm12; lia.
Qed.

(* the calendar range of a date, with no condition on the year *)
Lemma ord_range y m d : 1 <= m <= 12 -> 1 <= d <= days_in_month y m ->
  days_before_year y < ord_of_ymd y m d <= days_before_year (y + 1).
Proof.
  intros Hm Hd. unfold ord_of_ymd. rewrite dby_succ.
  pose proof (dbm_mono y 1 m). rewrite dbm_1 in H.
  pose proof (dbm_dec y).
  destruct (Z.eq_dec m 12); [subst; lia |].
  pose proof (dbm_strict y m 12). pose proof (dim_range y 12). lia.
Qed.

(* a date lies between the first day of month m0 and the last day of month m1 of year y
   exactly when its year is y and its month is in m0..m1 *)
Lemma month_span y m0 m1 Y M D : 1 <= m0 -> m0 <= m1 -> m1 <= 12 ->
  1 <= M <= 12 -> 1 <= D <= days_in_month Y M ->
  (ord_of_ymd y m0 1 <= ord_of_ymd Y M D <= ord_of_ymd y m1 (days_in_month y m1)
   <-> Y = y /\ m0 <= M <= m1).
Proof.
  intros H0 H01 H1 HM HD.
  pose proof (dim_range y m0) as D0. pose proof (dim_range y m1) as D1.
  split.
  - intros [Hlo Hhi].
    pose proof (ord_range y m0 1 ltac:(lia) ltac:(lia)) as R0.
    pose proof (ord_range y m1 (days_in_month y m1) ltac:(lia) ltac:(lia)) as R1.
    pose proof (ord_range Y M D HM HD) as R.
    assert (EY : Y = y).
    { rewrite <- (year_of_ord_unique (ord_of_ymd Y M D) Y R). apply year_of_ord_unique. lia. }
    subst Y. split; [reflexivity|]. unfold ord_of_ymd in Hlo, Hhi.
    split.
    + destruct (Z_lt_le_dec M m0) as [L|L]; [exfalso|assumption].
      pose proof (dbm_strict y M m0). lia.
    + destruct (Z_lt_le_dec m1 M) as [L|L]; [exfalso|assumption].
      pose proof (dbm_strict y m1 M). lia.
  - intros [-> [Hlo Hhi]]. unfold ord_of_ymd. split.
    + destruct (Z.eq_dec M m0) as [->|]; [lia|]. pose proof (dbm_strict y m0 M). lia.
    + destruct (Z.eq_dec M m1) as [->|]; [lia|]. pose proof (dbm_strict y M m1). lia.
Qed.

Lemma ymd_facts n :
  ord_of_ymd (year_of_ord n) (month_of_ord n) (day_of_ord n) = n /\
  1 <= month_of_ord n <= 12 /\ 1 <= day_of_ord n <= days_in_month (year_of_ord n) (month_of_ord n).
Proof.
  pose proof (ord_of_ymd_of_ord n) as H. unfold month_of_ord, day_of_ord.
  destruct (ymd_of_ord n) as [[y m] d]. cbn [fst snd]. destruct H as (H1 & H2 & H3 & ->). auto.
Qed.

(* ---- membership: day n belongs to period t of frequency f  <->  n lies between its first and last day ---- *)
Theorem daily_membership f n t : reg_freq f = true ->
  (low_of_day f n = t <-> day_start f t <= n <= day_end f t).
Proof.
  intros R. destruct (ymd_facts n) as (En & HM & HD).
  destruct (lp_months f t R) as (L0 & L01 & L1 & _).
  unfold day_start, day_end. rewrite <- En at 2 3.
  rewrite (month_span (t / f) (lp_first_month f t) (lp_last_month f t)) by assumption.
  unfold low_of_day, lp_first_month, lp_last_month.
  destruct (reg_freq_cases f R) as [->|[->|[->| ->]]]; norm12; lia.
Qed.

(* every period has at least 28 days; its days lie in its calendar year *)
Lemma day_start_le_end f t : reg_freq f = true -> day_start f t + 27 <= day_end f t.
Proof.
  intros R. destruct (lp_months f t R) as (L0 & L01 & L1 & _).
  unfold day_start, day_end, ord_of_ymd.
  pose proof (dim_range (t / f) (lp_last_month f t)).
  pose proof (dbm_mono (t / f) (lp_first_month f t) (lp_last_month f t)). lia.
Qed.

Lemma day_range f t : reg_freq f = true ->
  days_before_year (t / f) < day_start f t /\ day_end f t <= days_before_year (t / f + 1).
Proof.
  intros R. destruct (lp_months f t R) as (L0 & L01 & L1 & _).
  pose proof (dim_range (t / f) (lp_first_month f t)). pose proof (dim_range (t / f) (lp_last_month f t)).
  split; [apply ord_range|apply ord_range]; lia.
Qed.

(* ---- tiling: the day after the last day of t is the first day of t + 1 (month lengths, leap years, year ends) ---- *)
Theorem daily_tiling f t : reg_freq f = true -> day_end f t + 1 = day_start f (t + 1).
Proof.
  intros R. destruct (lp_months f t R) as (L0 & L01 & L1 & La & Lb).
  pose proof (Z.mod_pos_bound t f (reg_freq_pos f R)) as Hk.
  unfold day_start, day_end.
  destruct (Z_lt_le_dec (t mod f) (f - 1)) as [C|C].
  - destruct (La C) as [E1 E2]. rewrite E2, <- E1. apply month_boundary.
    destruct (lp_months f (t + 1) R) as (_ & ? & ? & _). lia.
  - destruct (Lb ltac:(lia)) as (E1 & E2 & E3). rewrite E3, E2, E1.
    change (days_in_month (t / f) 12) with 31. apply year_boundary.
Qed.

Lemma day_sep f a b : reg_freq f = true -> a < b -> day_end f a < day_start f b.
Proof.
  intros R Hab. pose proof (reg_freq_pos f R) as Hf.
  destruct (Z_lt_le_dec (a / f) (b / f)) as [C|C].
  - destruct (day_range f a R) as [_ H1]. destruct (day_range f b R) as [H2 _].
    pose proof (dby_mono (a / f + 1) (b / f) ltac:(lia)). lia.
  - assert (E : a / f = b / f) by (pose proof (Z.div_le_mono a b f Hf ltac:(lia)); lia).
    assert (K : a mod f < b mod f) by (pose proof (Z.div_mod a f); pose proof (Z.div_mod b f); nia).
    destruct (lp_months f a R) as (A0 & A01 & A1 & _). destruct (lp_months f b R) as (B0 & B01 & B1 & _).
    assert (M : lp_last_month f a < lp_first_month f b).
    { unfold lp_first_month, lp_last_month in *.
      destruct (reg_freq_cases f R) as [->|[->|[->| ->]]]; norm12; lia. }
    unfold day_start, day_end, ord_of_ymd. rewrite E.
    pose proof (dbm_strict (b / f) (lp_last_month f a) (lp_first_month f b)). lia.
Qed.

Lemma day_start_mono f a b : reg_freq f = true -> a <= b -> day_start f a <= day_start f b.
Proof.
  intros R H. destruct (Z.eq_dec a b) as [->|]; [lia|].
  pose proof (day_sep f a b R ltac:(lia)). pose proof (day_start_le_end f a R). lia.
Qed.
Lemma day_end_mono f a b : reg_freq f = true -> a <= b -> day_end f a <= day_end f b.
Proof.
  intros R H. destruct (Z.eq_dec a b) as [->|]; [lia|].
  pose proof (day_sep f a b R ltac:(lia)). pose proof (day_start_le_end f b R). lia.
Qed.

(* documented positions inside a period: first / last day, middle = offset ndays // 2 *)
Lemma dis_keep_daily d f l h :
  dis_keep d (ndays f l) (h - day_start f l) =
  match d with
  | DisFlat => true
  | DisFirst => h =? day_start f l
  | DisMiddle => h =? day_start f l + ndays f l / 2
  | DisLast => h =? day_end f l
  end.
Proof.
  unfold dis_keep, ndays. destruct d; try reflexivity.
  - destruct (Z.eqb_spec (h - day_start f l) 0), (Z.eqb_spec h (day_start f l)); try reflexivity; lia.
  - destruct (Z.eqb_spec (h - day_start f l) ((day_end f l - day_start f l + 1) / 2)),
             (Z.eqb_spec h (day_start f l + (day_end f l - day_start f l + 1) / 2)); try reflexivity; lia.
  - destruct (Z.eqb_spec (h - day_start f l) (day_end f l - day_start f l + 1 - 1)), (Z.eqb_spec h (day_end f l));
      try reflexivity; lia.
Qed.

Section ConvertDailyProofs.
Variable A : Arith.
Notation V := (car A).
Notation series := (series A).
Hypothesis miss_law : forall x : V, is_miss A x = true -> x = miss A.
Variable X : ArithExt A.

Lemma day_rows_length (s : series) f l : length (day_rows A s f l) = Z.to_nat (ndays f l).
Proof. unfold day_rows. now rewrite map_length, seq_length. Qed.

Lemma day_rows_nth (s : series) f l j : (j < Z.to_nat (ndays f l))%nat ->
  nth j (day_rows A s f l) (missrow A (s_nv s)) = row_at A s (day_start f l + Z.of_nat j).
Proof.
  intros Hj. unfold day_rows. rewrite nth_map_in with (d' := 0%nat) by (rewrite seq_length; lia).
  now rewrite seq_nth by lia.
Qed.

(* the rows of the group of l are the rows of exactly the days that belong to l, in calendar order *)
Theorem day_rows_members (s : series) f l : reg_freq f = true ->
  forall n, low_of_day f n = l <->
            exists j, (j < length (day_rows A s f l))%nat /\ n = day_start f l + Z.of_nat j /\
                      nth j (day_rows A s f l) (missrow A (s_nv s)) = row_at A s n.
Proof.
  intros R n. rewrite (daily_membership f n l R), day_rows_length. unfold ndays. split.
  - intros H. exists (Z.to_nat (n - day_start f l)). split; [lia|]. split; [lia|].
    rewrite day_rows_nth by (unfold ndays; lia). f_equal. lia.
  - intros (j & Hj & -> & _). lia.
Qed.

(* ---- aggregation daily -> regular: the value of l is the method applied to exactly its days ---- *)
Theorem aggregate_daily_spec m sel disc f_tgt (s r : series) st en l :
  WF A s -> s_start s = Some st -> s_end A s = Some en ->
  aggregate_daily A X m sel disc f_tgt s = Ok r ->
  row_at A r l =
    if (year_of_ord st * f_tgt <=? l) && (l <=? (year_of_ord en + 1) * f_tgt - 1)
    then agg_row A X m sel disc (s_nv s) (day_rows A s f_tgt l)
    else missrow A (s_nv s).
Proof.
  intros Hwf Es Ee. unfold aggregate_daily. rewrite Es, Ee.
  destruct (reg_freq f_tgt); [|discriminate].
  intros Hr. injection Hr as <-. rewrite row_at_build; [reflexivity|assumption|].
  intros u. apply agg_row_length.
Qed.

(* ---- disaggregation regular -> daily: placement ---- *)
Theorem disaggregate_daily_spec d (s r : series) st en h :
  WF A s -> s_start s = Some st -> s_end A s = Some en ->
  disaggregate_daily A d s = Ok r ->
  row_at A r h =
    if (day_start (s_freq s) st <=? h) && (h <=? day_end (s_freq s) en)
    then (let l := low_of_day (s_freq s) h in
          if match d with
             | DisFlat => true
             | DisFirst => h =? day_start (s_freq s) l
             | DisMiddle => h =? day_start (s_freq s) l + ndays (s_freq s) l / 2
             | DisLast => h =? day_end (s_freq s) l
             end
          then row_at A s l else missrow A (s_nv s))
    else missrow A (s_nv s).
Proof.
  intros Hwf Es Ee. unfold disaggregate_daily. rewrite Es, Ee.
  destruct (reg_freq (s_freq s)); [|discriminate].
  intros Hr. injection Hr as <-. rewrite row_at_build; [|assumption|].
  - cbv zeta. now rewrite dis_keep_daily.
  - intros u. cbv zeta. destruct (dis_keep _ _ _); [now apply row_at_length|apply missrow_length].
Qed.

(* flat disaggregation to daily: every day of period l carries the value of l *)
Lemma flat_daily_row (s d : series) l h : WF A s -> reg_freq (s_freq s) = true ->
  disaggregate_daily A DisFlat s = Ok d ->
  day_start (s_freq s) l <= h <= day_end (s_freq s) l -> row_at A d h = row_at A s l.
Proof.
  intros Hwf R Hd Hh.
  destruct (s_start s) as [st|] eqn:Es.
  2:{ unfold disaggregate_daily in Hd. rewrite Es in Hd. discriminate. }
  assert (Ee : s_end A s = Some (st + Z.of_nat (length (s_data s)) - 1)) by (unfold s_end; now rewrite Es).
  set (en := st + Z.of_nat (length (s_data s)) - 1) in *.
  rewrite (disaggregate_daily_spec DisFlat s d st en h Hwf Es Ee Hd). cbv zeta.
  apply (daily_membership _ h l R) in Hh as Hl. rewrite Hl.
  destruct (andb _ _) eqn:E; [reflexivity|].
  symmetry. eapply row_at_outside; eauto.
  destruct (Z_lt_le_dec l st) as [C|C]; [left; assumption|].
  destruct (Z_lt_le_dec en l) as [C'|C']; [right; assumption|]. exfalso.
  pose proof (day_start_mono _ st l R C). pose proof (day_end_mono _ l en R C').
  apply andb_false_iff in E as [E|E]; apply Z.leb_gt in E; lia.
Qed.

(* ---- round trip: aggregating a flat daily disaggregation returns the original map ---- *)
Theorem roundtrip_flat_daily m (s d r : series) :
  idempotent_on_constant A X m ->
  WF A s -> reg_freq (s_freq s) = true ->
  disaggregate_daily A DisFlat s = Ok d ->
  aggregate_daily A X m None false (s_freq s) d = Ok r ->
  forall l, row_at A r l = row_at A s l.
Proof.
  intros Hm Hwf R Hd Hr l. set (f := s_freq s) in *.
  pose proof (reg_freq_pos f R) as Hf.
  assert (Hflat : forall l h, day_start f l <= h <= day_end f l -> row_at A d h = row_at A s l).
  { intros l0 h. now apply flat_daily_row. }
  assert (Hwd : WF A d /\ s_nv d = s_nv s).
  { unfold disaggregate_daily in Hd. destruct (s_start s); [|discriminate]. destruct (s_end A s); [|discriminate].
    fold f in Hd. rewrite R in Hd. injection Hd as <-. split; [|apply build_nv].
    apply build_WF; [assumption|]. intros u. now apply row_at_length. }
  destruct Hwd as [Hwd Hnvd].
  destruct (s_start d) as [sd|] eqn:Esd.
  2:{ unfold aggregate_daily in Hr. rewrite Esd in Hr. discriminate. }
  assert (Eed : s_end A d = Some (sd + Z.of_nat (length (s_data d)) - 1)) by (unfold s_end; now rewrite Esd).
  set (ed := sd + Z.of_nat (length (s_data d)) - 1) in *.
  rewrite (aggregate_daily_spec m None false f d r sd ed l Hwd Esd Eed Hr).
  pose proof (day_start_le_end f l R) as Hle.
  assert (Hgroup : day_rows A d f l = repeat (row_at A s l) (Z.to_nat (ndays f l))).
  { apply nth_ext with (d := missrow A (s_nv d)) (d' := row_at A s l).
    - now rewrite day_rows_length, repeat_length.
    - intros j Hj. rewrite day_rows_length in Hj. rewrite day_rows_nth by assumption.
      rewrite nth_repeat. apply Hflat. unfold ndays in Hj. lia. }
  destruct (andb _ _) eqn:E.
  - rewrite Hgroup, Hnvd. unfold agg_row.
    apply nth_ext with (d := miss A) (d' := miss A).
    + rewrite map_length, seq_length. symmetry. now apply row_at_length.
    + intros c Hc. rewrite map_length, seq_length in Hc.
      rewrite nth_map_in with (d' := 0%nat) by (rewrite seq_length; lia). rewrite seq_nth by lia. simpl.
      rewrite col_of_repeat. unfold within.
      replace (Z.to_nat (ndays f l)) with (S (Z.to_nat (ndays f l) - 1)) by (unfold ndays; lia). apply Hm.
  - rewrite <- (Hflat l (day_start f l)) by lia. symmetry.
    eapply row_at_outside; eauto.
    destruct (day_range f l R) as [Hlo Hhi].
    pose proof (year_of_ord_spec sd) as Ssd. pose proof (year_of_ord_spec ed) as Sed.
    apply andb_false_iff in E as [E|E]; apply Z.leb_gt in E.
    + left. assert (l / f < year_of_ord sd) by (apply Z.div_lt_upper_bound; lia).
      pose proof (dby_mono (l / f + 1) (year_of_ord sd) ltac:(lia)). lia.
    + right. assert (year_of_ord ed + 1 <= l / f) by (apply Z.div_le_lower_bound; lia).
      pose proof (dby_mono (year_of_ord ed + 1) (l / f) ltac:(lia)). lia.
Qed.

End ConvertDailyProofs.
