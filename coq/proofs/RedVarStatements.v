(* C18: the statements of props/C18.v that combine several lemmas of RedVarProofs.v / RedVarDataProofs.v
   (conjunctions, an instantiated hypothesis); props/C18.v restates them and proves each by `exact`.

   The model text (model/RedVar.v) is written once over the matrix interface lib/MxC18.v::MatOps.  The theorems
   below are about its instance [MC solve] on MathComp matrices over an ARBITRARY field F, for arbitrary numbers of
   endogenous (n) and exogenous (m) variables, order q+1, intercept k in {0,1} (any k in fact), sample size N,
   selection w of fitted columns and dummy observations (Ld, Rd).  numpy.linalg.solve is the parameter [solve] and
   enters only through [solve_contract]; the Lyapunov solver and eigvals enter as hypotheses of the _partial
   statements.  The same text is executed on exact rationals against irispie.RedVAR by harness/C18.py. *)
From Coq Require Import String.
From Verif Require Import lib.MxC18 lib.MxC18MC gen.RedVarGen model.RedVar proofs.RedVarProofs proofs.RedVarDataProofs.
From mathcomp Require Import all_ssreflect all_algebra.
Set Implicit Arguments.
Unset Strict Implicit.
Import GRing.Theory.
Local Open Scope ring_scope.

Notation solver F := (forall n p : nat, 'M[F]_n -> 'M[F]_(n, p) -> 'M[F]_(n, p)).

Lemma C18_normal_equations_stmt (F : fieldType) (solve : solver F) (n q m k N Nw Nd : nat)
    (w : 'I_Nw -> 'I_N) (dof : bool)
    (Y0 : 'M[F]_(n, N)) (Y1 : 'M[F]_(n + q * n, N)) (X : 'M[F]_(m, N)) (Kc : 'M[F]_(k, N))
    (Ld : 'M[F]_(n, Nd)) (Rd : 'M[F]_(n + q * n + (m + k), Nd)) :
  solve_contract solve ->
  let est := estimate_core (M := MC solve) (n := n) (q := q) (m := m) (k := k) w dof Y0 Y1 X Kc Ld Rd in
  let L : 'M[F]_(n, Nw + Nd) := est.1.1 in
  let R : 'M[F]_(n + q * n + (m + k), Nw + Nd) := est.1.2 in
  let beta : 'M[F]_(n, n + q * n + (m + k)) := est.2.1.1 in
  (L = row_mx (colsel w Y0) Ld /\ R = row_mx (colsel w (col_mx Y1 (col_mx X Kc))) Rd) /\
  (R *m R^T \in unitmx -> beta *m (R *m R^T) = L *m R^T).
Proof. by move=> sc; split; [exact: est_inputs | exact: est_normal_equations]. Qed.

Lemma C18_residuals_orthogonal_stmt (F : fieldType) (solve : solver F) (n q m k N Nw Nd : nat)
    (w : 'I_Nw -> 'I_N) (dof : bool)
    (Y0 : 'M[F]_(n, N)) (Y1 : 'M[F]_(n + q * n, N)) (X : 'M[F]_(m, N)) (Kc : 'M[F]_(k, N))
    (Ld : 'M[F]_(n, Nd)) (Rd : 'M[F]_(n + q * n + (m + k), Nd)) :
  solve_contract solve ->
  let est := estimate_core (M := MC solve) (n := n) (q := q) (m := m) (k := k) w dof Y0 Y1 X Kc Ld Rd in
  let R : 'M[F]_(n + q * n + (m + k), Nw + Nd) := est.1.2 in
  let beta : 'M[F]_(n, n + q * n + (m + k)) := est.2.1.1 in
  let U : 'M[F]_(n, N) := est.2.1.2 in
  R *m R^T \in unitmx ->
  colsel w U *m (colsel w (col_mx Y1 (col_mx X Kc)))^T + (Ld - beta *m Rd) *m Rd^T = 0.
Proof. by move=> sc; exact: est_residual_orthogonal. Qed.

Lemma C18_fit_plus_residual_stmt (F : fieldType) (solve : solver F) (n q m k N Nw Nd : nat)
    (w : 'I_Nw -> 'I_N) (dof : bool)
    (Y0 : 'M[F]_(n, N)) (Y1 : 'M[F]_(n + q * n, N)) (X : 'M[F]_(m, N)) (Kc : 'M[F]_(k, N))
    (Ld : 'M[F]_(n, Nd)) (Rd : 'M[F]_(n + q * n + (m + k), Nd)) :
  let est := estimate_core (M := MC solve) (n := n) (q := q) (m := m) (k := k) w dof Y0 Y1 X Kc Ld Rd in
  let beta : 'M[F]_(n, n + q * n + (m + k)) := est.2.1.1 in
  let U : 'M[F]_(n, N) := est.2.1.2 in
  let A : 'M[F]_(n, n + q * n) := lsubmx beta in
  let B : 'M[F]_(n, m) := lsubmx (rsubmx beta) in
  let c : 'M[F]_(n, k) := rsubmx (rsubmx beta) in
  A *m Y1 + B *m X + c *m Kc + U = Y0 /\
  forall j : 'I_Nw, A *m col (w j) Y1 + B *m col (w j) X + c *m col (w j) Kc + col (w j) U = col (w j) Y0.
Proof. by split; [exact: est_fit_plus_residual | exact: est_fit_plus_residual_col]. Qed.

Lemma C18_noise_free_recovery_stmt (F : fieldType) (solve : solver F) (n q m k N Nw Nd : nat)
    (w : 'I_Nw -> 'I_N) (dof : bool)
    (Y0 : 'M[F]_(n, N)) (Y1 : 'M[F]_(n + q * n, N)) (X : 'M[F]_(m, N)) (Kc : 'M[F]_(k, N))
    (Ld : 'M[F]_(n, Nd)) (Rd : 'M[F]_(n + q * n + (m + k), Nd)) (b : 'M[F]_(n, n + q * n + (m + k))) :
  solve_contract solve ->
  let est := estimate_core (M := MC solve) (n := n) (q := q) (m := m) (k := k) w dof Y0 Y1 X Kc Ld Rd in
  let R : 'M[F]_(n + q * n + (m + k), Nw + Nd) := est.1.2 in
  let beta : 'M[F]_(n, n + q * n + (m + k)) := est.2.1.1 in
  let U : 'M[F]_(n, N) := est.2.1.2 in
  let cov : 'M[F]_n := est.2.2 in
  R *m R^T \in unitmx ->
  colsel w Y0 = b *m colsel w (col_mx Y1 (col_mx X Kc)) -> Ld = b *m Rd ->
  beta = b /\ colsel w U = 0 /\ cov = 0.
Proof. by move=> sc /= u; exact: est_noise_free. Qed.

Lemma C18_cov_is_second_moment_stmt (F : fieldType) (solve : solver F) (n q m k N Nw Nd : nat)
    (w : 'I_Nw -> 'I_N) (dof : bool)
    (Y0 : 'M[F]_(n, N)) (Y1 : 'M[F]_(n + q * n, N)) (X : 'M[F]_(m, N)) (Kc : 'M[F]_(k, N))
    (Ld : 'M[F]_(n, Nd)) (Rd : 'M[F]_(n + q * n + (m + k), Nd)) :
  (2%:R : F) != 0 -> (k <= 1)%N ->
  let est := estimate_core (M := MC solve) (n := n) (q := q) (m := m) (k := k) w dof Y0 Y1 X Kc Ld Rd in
  let U : 'M[F]_(n, N) := est.2.1.2 in
  let cov : 'M[F]_n := est.2.2 in
  cov = (Nw%:R - (if dof then m + k else 0)%N%:R)^-1 *: (colsel w U *m (colsel w U)^T) /\ cov^T = cov.
Proof. by move=> two k1; rewrite -(dof_count_intercept n q m dof k1); exact: est_cov. Qed.

Lemma C18_companion_is_stacked_recursion_stmt (F : fieldType) (solve : solver F) (n q m k : nat)
    (A : 'M[F]_(n, n + q * n)) (B : 'M[F]_(n, m)) (c : 'M[F]_(n, k))
    (h : nat -> 'cV[F]_n) (u : 'cV[F]_n) (x : 'cV[F]_m) :
  sim_step (M := MC solve) (n := n) (q := q) (m := m) (k := k) A B c (stackf q.+1 h) u x
  = stackf q.+1 (hcons (A *m stackf q.+1 h + c *m const_mx 1 + u + B *m x) h)
  /\ sim_obs (M := MC solve) (n := n) (q := q) (stackf q.+1 (hcons (A *m stackf q.+1 h + c *m const_mx 1 + u + B *m x) h))
     = A *m stackf q.+1 h + c *m const_mx 1 + u + B *m x.
Proof. by split; [exact: sim_step_stack | exact: sim_obs_stack]. Qed.

Lemma C18_companion_mean_stmt (F : fieldType) (solve : solver F) (n q m k : nat)
    (A : 'M[F]_(n, n + q * n)) (B : 'M[F]_(n, m)) (c : 'M[F]_(n, k)) :
  solve_contract solve ->
  let sA : 'M[F]_n := sumA (M := MC solve) A in
  (forall mu : 'cV[F]_n, A *m stackf q.+1 (fun _ => mu) = sA *m mu) /\
  (1%:M - sA \in unitmx ->
     (1%:M - sA) *m var_mean (M := MC solve) (n := n) (q := q) (k := k) A c = c *m const_mx 1) /\
  (forall mu : 'cV[F]_n, (1%:M - sA) *m mu = c *m const_mx 1 ->
     sim_step (M := MC solve) (n := n) (q := q) (m := m) (k := k) A B c (stackf q.+1 (fun _ => mu)) 0 0
     = stackf q.+1 (fun _ => mu)).
Proof.
move=> sc; split; [exact: sumA_const | split; [exact: companion_mean | exact: mean_rest_point]].
Qed.

Lemma C18_companion_eigen_partial_stmt (F : fieldType) (solve : solver F) (n q : nat)
    (A : 'M[F]_(n, n + q * n)) (lam : F) (f : nat -> 'cV[F]_n) :
  (companion_T (M := MC solve) (n := n) (q := q) A *m stackf q.+1 f = lam *: stackf q.+1 f
   <-> (A *m stackf q.+1 f = lam *: f 0%N /\ forall i, (i < q)%N -> f i = lam *: f i.+1))
  /\ (forall v : 'cV[F]_(q.+1 * n), exists g, v = stackf q.+1 g).
Proof. by split; [exact: companion_eigen | exact: stackf_surj]. Qed.

Lemma C18_acov_companion_partial_stmt (F : fieldType) (solve : solver F) (n q : nat)
    (A : 'M[F]_(n, n + q * n)) (S : 'M[F]_n) (Om : 'M[F]_(n + q * n, n + q * n)) :
  let T : 'M[F]_(n + q * n, n + q * n) := companion_T (M := MC solve) (n := n) (q := q) A in
  (forall upto j : nat, (j <= upto)%N ->
     nth 0 (acov_from (M := MC solve) (n := n) (q := q) T Om upto) j
     = topleft (M := MC solve) (n := n) (q := q) (iter j (mulmx T) Om)) /\
  (forall Z : 'M[F]_(n + q * n, n + q * n), topleft (M := MC solve) (n := n) (q := q) (T *m Z) = A *m lsubmx Z) /\
  (Om = T *m Om *m T^T + companion_sigma (M := MC solve) (n := n) (q := q) S ->
     topleft (M := MC solve) (n := n) (q := q) Om = A *m Om *m A^T + S).
Proof.
move=> T; split; [exact: acov_from_nth | split; [exact: topleft_T|]].
by move=> e; apply: acov0_yule_walker; rewrite /lyap_residual /= -e subrr.
Qed.

Lemma C18_lag_stacking_stmt (T : Type) (dflt : T) (p N : nat) (ys : list (list T)) (i v j : nat) :
  (forall r, List.In r ys -> List.length r = (p + N)%coq_nat) ->
  (i < p)%coq_nat -> (v < List.length ys)%coq_nat -> (j < N)%coq_nat ->
  List.nth j (List.nth (i * List.length ys + v)%coq_nat (stack_y1 T p ys) nil) dflt
  = List.nth (p + j - S i)%coq_nat (List.nth v ys nil) dflt
  /\ List.nth j (List.nth v (stack_y0 T p ys) nil) dflt = List.nth (p + j)%coq_nat (List.nth v ys nil) dflt.
Proof. by move=> H1 H2 H3 H4; split; [exact: (@stack_y1_nth T dflt p N ys i v j H1 H2 H3 H4) | exact: stack_y0_nth]. Qed.
