(* C10: fill_missing("linear") between two bracketing observations, on the total map. *)
From Coq Require Import ZArith List Bool Lia.
From Verif Require Import lib.Arith model.Series model.SeriesOps proofs.SeriesProofs proofs.SeriesOpsProofs
  proofs.SeriesFillProofs.
Import ListNotations.
Open Scope Z_scope.

Section FillLin.
Variable A : Arith.
Notation V := (car A).
Notation series := (series A).
Hypothesis miss_law : forall x : V, is_miss A x = true -> x = miss A.
Notation at_ col j := (nth j col (miss A)).

Lemma prev_obs_unique (col : list V) i j0 : (i < length col)%nat -> (j0 <= i)%nat ->
  is_miss A (at_ col j0) = false -> (forall l, (j0 < l <= i)%nat -> is_miss A (at_ col l) = true) ->
  prev_obs i (obs_indexes A col) = Some j0.
Proof.
  intros Hi Hj Ho Hg. pose proof (prev_obs_spec A col i Hi) as Hp.
  destruct (prev_obs i (obs_indexes A col)) as [j|].
  - destruct Hp as (H1 & H2 & H3). f_equal.
    destruct (Nat.lt_trichotomy j j0) as [Hlt|[Heq|Hgt]]; [|assumption|].
    + specialize (H3 j0 ltac:(lia)). congruence.
    + specialize (Hg j ltac:(lia)). congruence.
  - specialize (Hp j0 Hj). congruence.
Qed.

Lemma next_obs_unique (col : list V) i j0 : (i < length col)%nat -> (i <= j0 < length col)%nat ->
  is_miss A (at_ col j0) = false -> (forall l, (i <= l < j0)%nat -> is_miss A (at_ col l) = true) ->
  next_obs i (obs_indexes A col) = Some j0.
Proof.
  intros Hi Hj Ho Hg. pose proof (next_obs_spec A col i Hi) as Hp.
  destruct (next_obs i (obs_indexes A col)) as [j|].
  - destruct Hp as (H1 & H2 & H3). f_equal.
    destruct (Nat.lt_trichotomy j j0) as [Hlt|[Heq|Hgt]]; [|assumption|].
    + specialize (Hg j ltac:(lia)). congruence.
    + specialize (H3 j0 ltac:(lia)). congruence.
  - specialize (Hp j0 Hj). congruence.
Qed.

Lemma fill_col_linear dates c (col : list V) i p n : (i < length col)%nat ->
  is_miss A (at_ col i) = true ->
  prev_obs i (obs_indexes A col) = Some p -> next_obs i (obs_indexes A col) = Some n ->
  nth i (fill_col A (FillLinear A) dates c col) (miss A)
  = add A (at_ col p) (mul A (sub A (at_ col n) (at_ col p))
                          (div A (ofZ A (Z.of_nat i - Z.of_nat p)) (ofZ A (Z.of_nat n - Z.of_nat p)))).
Proof.
  intros Hi Hm Hp Hn. unfold fill_col. destruct (obs_indexes A col) eqn:Eo.
  - unfold prev_obs in Hp. simpl in Hp. discriminate.
  - rewrite nth_map_in with (d' := (O, miss A)) by (now rewrite combine_length, seq_length, Nat.min_id).
    rewrite (nth_combine_seq A) by assumption. unfold is_obs. rewrite Hm. cbn [negb]. cbv iota.
    now rewrite Hp, Hn.
Qed.

(* linear: a missing cell strictly between two observations u1 < t < u2 of the range, with nothing observed
   in between, takes x(u1) + (x(u2) - x(u1)) * ((t - u1) / (u2 - u1)), in this order of operations *)
Theorem fill_linear_spec fr span (s : series) a b t c u1 u2 : WF A s ->
  fill_dates A span s = zrange a (b + 1) -> (c < s_nv s)%nat ->
  a <= u1 -> u1 < t -> t < u2 -> u2 <= b ->
  is_miss A (cell A s u1 c) = false -> is_miss A (cell A s u2 c) = false ->
  (forall w, u1 < w < u2 -> is_miss A (cell A s w c) = true) ->
  cell A (fill_missing A fr (FillLinear A) span s) t c
  = add A (cell A s u1 c) (mul A (sub A (cell A s u2 c) (cell A s u1 c))
                              (div A (ofZ A (t - u1)) (ofZ A (u2 - u1)))).
Proof.
  intros Hwf Hd Hc H1 H2 H3 H4 Ho1 Ho2 Hg.
  rewrite (fill_missing_cell A miss_law fr _ span s a b t c Hwf Hd) by (try assumption; lia).
  set (i := Z.to_nat (t - a)). set (col := col_span A s a b c).
  assert (Hlen : length col = Z.to_nat (b + 1 - a)) by (subst col; apply col_span_length).
  assert (Hi : (i < length col)%nat) by (subst i; lia).
  assert (Hn : forall j, (j < length col)%nat -> at_ col j = cell A s (a + Z.of_nat j) c)
    by (intros j Hj; subst col; apply col_span_nth; lia).
  set (p := Z.to_nat (u1 - a)). set (n := Z.to_nat (u2 - a)).
  assert (Ep : a + Z.of_nat p = u1) by (subst p; lia).
  assert (En : a + Z.of_nat n = u2) by (subst n; lia).
  assert (Ei : a + Z.of_nat i = t) by (subst i; lia).
  assert (Hgap : forall l, (p < l < n)%nat -> is_miss A (at_ col l) = true).
  { intros l Hl. rewrite Hn by lia. apply Hg. lia. }
  rewrite (fill_col_linear _ c col i p n Hi).
  - rewrite !Hn by lia. rewrite Ep, En. do 4 f_equal; lia.
  - apply Hgap. lia.
  - apply prev_obs_unique; try assumption; try lia.
    + rewrite Hn by lia. now rewrite Ep.
    + intros l Hl. apply Hgap. lia.
  - apply next_obs_unique; try assumption; try lia.
    + rewrite Hn by lia. now rewrite En.
    + intros l Hl. apply Hgap. lia.
Qed.

End FillLin.
