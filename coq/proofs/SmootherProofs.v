(* Proofs about the backward pass of the Kalman model (model/Kalman.v: one_step_back, smooth_back,
   update_all) on the MathComp instance: the smoothed state is a simulation of the model and
   reproduces the observed data; deviation mode; output mapping. *)
From mathcomp Require Import all_ssreflect all_algebra.
From mathcomp Require Import ring.
From Verif.lib Require Import MatOps MatMC MatLemmas.
From Verif.model Require Import Kalman.
From Verif.proofs Require Import KalmanProofs.
Set Implicit Arguments.
Unset Strict Implicit.
Unset Printing Implicit Defensive.
Import GRing.Theory Num.Theory.
Local Open Scope ring_scope.

(* closes goals that are equal as sums of atoms (abelian-group reasoning, entry by entry) *)
Ltac mx_atoms :=
  repeat match goal with
         | |- context [?A *m ?B] => let X := fresh "X" in set X := (A *m B); clearbody X
         end.
Ltac mx_entries :=
  repeat match goal with
         | |- context [@fun_of_matrix _ _ _ ?A ?i ?j] =>
             let x := fresh "x" in set x := (@fun_of_matrix _ _ _ A i j); clearbody x
         end.
Ltac mx_abel := mx_atoms; apply/matrixP=> ? ?; rewrite !mxE; mx_entries; ring.

Section SmootherProofs.
Variable F : realFieldType.
Variables (flog : F -> F) (flog2pi : F).
Notation M := (MC flog flog2pi).
Variables n nw : nat.
Notation period := (period M n nw).
Notation fper := (fper M n nw).
Notation sper := (sper M n nw).
Notation bstate := (bstate M n).
Notation kstep := (@kf_step M n nw).
Notation krun := (@kf_run M n nw).
Notation step_spec := (@step_spec F flog flog2pi n nw).
Implicit Types (p : period) (a : 'cV[F]_n) (Q : 'M[F]_n) (st : bstate).

Definition r_of st : 'cV[F]_n := if st is Some (_, r, _) then r else 0.
Definition T_of st : 'M[F]_n := if st is Some (_, _, T) then T else 0.
Definition N_of st : 'M[F]_n := if st is Some (N, _, _) then N else 0.
(* T_{t+1}' r_{t+1}: what the smoothed state of period t needs from the later periods *)
Definition Tr st : 'cV[F]_n := (T_of st)^T *m r_of st.

Lemma mul_thin_flat m k (A : 'M[F]_(m, 0)) (B : 'M[F]_(0, k)) : A *m B = 0.
Proof. by rewrite [A]thinmx0 mul0mx. Qed.

(* one_step_back in closed form; the `t > last_period_of_observations` branch is the case r = 0 *)
Lemma osb_spec p (f : frec p) st :
  let x := mkFper p f in
  let o := (one_step_back x st).1 in let st' := (one_step_back x st).2 in
  let TG := T_of st *m f_G f in
  let L := T_of st - TG *m p_Z p in
  [/\ r_of st' = f_Zt_Fi f *m f_pe f + L^T *m r_of st,
      s_a o = f_a0 f + f_Q0 f *m r_of st',
      s_u o = u_med (p_us p) + (f_P_cov_u f)^T *m r_of st',
      s_w o = p_w0 p + (f_H_cov_w f)^T *m (f_Fi f *m f_pe f - TG^T *m r_of st) &
      Tr st' = (p_T p)^T *m r_of st'].
Proof.
case: st => [[[N r] Tn]|]; rewrite /one_step_back /Tr /=.
  by rewrite orbT /=.
case: p f => [[|ny] T K us v Z H D cw w0 y] f /=.
  by rewrite !mulmx0 !addr0 !mul_thin_flat !addr0.
by rewrite !mulmx0 !addr0 subr0.
Qed.


(* ---------------------------------------------------------------- *)
(* one period                                                        *)
(* ---------------------------------------------------------------- *)

(* C08 thm 1: the smoothed state is the updated state corrected by what later periods tell,
   alpha_hat_t = a1_t + Q1_t T_{t+1}' r_{t+1} *)
Lemma smooth_alt_step a Q p (f : frec p) st : step_spec a Q f ->
  s_a (one_step_back (mkFper p f) st).1 = f_a1 f + f_Q1 f *m Tr st.
Proof.
move=> sp; have [Er -> _ _ _] := osb_spec f st; rewrite Er.
rewrite (sp_a1 sp) (sp_Q1 sp) (sp_Zt_Fi sp) /Tr.
have Gt := Gt_core (p_Z p) (sp_Q0s sp) (sp_Fis sp); rewrite -(sp_G sp) in Gt.
rewrite linearB /= 2!trmx_mul Gt (sp_G sp).
rewrite !(mulmxDr, mulmxBr, mulmxDl, mulmxBl) ?(mulmxN, mulNmx) !mulmxA ?(mulmxN, mulNmx).
by rewrite !addrA.
Qed.


(* C08 thm 2, one period: the smoothed state of period t is the model's transition equation applied
   to the smoothed state of period t-1 (written through thm 1 as a1_{t-1} + Q1_{t-1} T_t' r_t) with the
   smoothed shocks u_hat_t = u0_t + (P cov_u)' r_t *)
Lemma sim_step a Q p (f : frec p) st : is_sym (u_cov (p_us p)) -> step_spec a Q f ->
  let o := (one_step_back (mkFper p f) st).1 in let st' := (one_step_back (mkFper p f) st).2 in
  s_a o = p_T p *m (a + Q *m Tr st') + p_K p + P_times (p_us p) (s_u o) + v_term p.
Proof.
move=> scu sp /=; have [_ -> -> _ ->] := osb_spec f st.
rewrite (sp_P_cov_u sp) P_times_smooth // (sp_a0 sp) (sp_Q0 sp).
rewrite !(mulmxDr, mulmxDl) !mulmxA.
by mx_abel.
Qed.

(* C08 thm 3, one period: the measurement equations hold exactly on the observed rows *)
Lemma data_step a Q p (f : frec p) st : is_sym (p_cov_w p) -> step_spec a Q f -> f_F f \in unitmx ->
  let o := (one_step_back (mkFper p f) st).1 in
  p_Z p *m s_a o + p_D p + p_H p *m s_w o = p_y p.
Proof.
move=> scw sp uF /=; have [Er -> _ -> _] := osb_spec f st; rewrite Er.
have FFi : f_F f *m f_Fi f = 1%:M by rewrite (sp_Fi sp) mulmxV.
have Gt := Gt_core (p_Z p) (sp_Q0s sp) (sp_Fis sp); rewrite -(sp_G sp) in Gt.
set r := r_of st; set Tn := T_of st.
set W := f_Fi f *m f_pe f - (Tn *m f_G f)^T *m r.
have -> : f_Zt_Fi f *m f_pe f + (Tn - Tn *m f_G f *m p_Z p)^T *m r = (p_Z p)^T *m W + Tn^T *m r.
  rewrite /W (sp_Zt_Fi sp) linearB /= !trmx_mul mulmxBr mulmxBl !mulmxA.
  by mx_abel.
have FW : p_Z p *m f_Q0 f *m (p_Z p)^T *m W + p_H p *m p_cov_w p *m (p_H p)^T *m W
          = f_pe f - p_Z p *m f_Q0 f *m Tn^T *m r.
  rewrite -mulmxDl -(sp_F sp) /W mulmxBr !mulmxA FFi mul1mx trmx_mul Gt !mulmxA FFi mul1mx.
  by [].
clearbody W.
have -> : p_y p = f_y0 f + f_pe f by rewrite (sp_pe sp) addrC subrK.
rewrite (sp_y0 sp) (sp_H_cov_w sp) trmx_mul scw !(mulmxDr, mulmxDl) !mulmxA.
have -> : f_pe f = p_Z p *m f_Q0 f *m (p_Z p)^T *m W + p_H p *m p_cov_w p *m (p_H p)^T *m W
                   + p_Z p *m f_Q0 f *m Tn^T *m r by rewrite FW subrK.
by mx_abel.
Qed.


(* ---------------------------------------------------------------- *)
(* whole runs: any number of periods, any observation pattern        *)
(* ---------------------------------------------------------------- *)
Notation osb := (@one_step_back M n nw).
Notation sback := (@smooth_back M n nw).

Fixpoint all_ok (ps : seq period) : Prop :=
  if ps is p :: ps' then ok_period p /\ all_ok ps' else True.

(* every period with observations has an invertible prediction-error covariance *)
Fixpoint all_unit (fs : seq fper) : Prop :=
  if fs is x :: fs' then f_F (ff x) \in unitmx /\ all_unit fs' else True.

(* the transition equation of the period of [s], from the state [a_prev] of the previous period *)
Definition trans_eq (a_prev : 'cV[F]_n) (s : sper) : Prop :=
  let p := fp (sx s) in
  s_a (so s) = p_T p *m a_prev + p_K p + P_times (p_us p) (s_u (so s)) + v_term p.

Fixpoint sim_chain (a_prev : 'cV[F]_n) (l : seq sper) : Prop :=
  if l is s :: l' then trans_eq a_prev s /\ sim_chain (s_a (so s)) l' else True.

(* the measurement equations of the period of [s] on its observed rows *)
Definition meas_eq (s : sper) : Prop :=
  let p := fp (sx s) in
  p_Z p *m s_a (so s) + p_D p + p_H p *m s_w (so s) = p_y p.

Fixpoint all_meas (l : seq sper) : Prop :=
  if l is s :: l' then meas_eq s /\ all_meas l' else True.

Lemma krun_cons a Q p ps :
  krun a Q (p :: ps) = mkFper p (kstep a Q p) :: krun (f_a1 (kstep a Q p)) (f_Q1 (kstep a Q p)) ps.
Proof. by []. Qed.

Lemma sback_cons x fs :
  sback (x :: fs) = (mkSper x (osb x (sback fs).2).1 :: (sback fs).1, (osb x (sback fs).2).2).
Proof. by rewrite /=; case: (sback fs) => outs st; case: (osb x st). Qed.

(* C08 thm 2: the smoothed states are a simulation of the model driven by the smoothed shocks,
   started from the smoothed initial condition a_init + Q_init T_0' r_0 *)
Local Opaque kf_step one_step_back.

Theorem smooth_is_simulation_run a Q ps : is_sym Q -> all_ok ps ->
  sim_chain (a + Q *m Tr (sback (krun a Q ps)).2) (sback (krun a Q ps)).1.
Proof.
elim: ps a Q => [|p ps IH] a Q sQ; first by [].
case=> okp okps; rewrite krun_cons sback_cons.
have sp := kf_step_spec a sQ okp.
set fs := krun _ _ ps; have IHc := IH (f_a1 (kstep a Q p)) _ (sp_Q1s sp) okps; rewrite -/fs in IHc.
have Ha := smooth_alt_step (sback fs).2 sp.
have Hs := sim_step (sback fs).2 (proj1 okp) sp.
rewrite /=; split; first exact: Hs.
by rewrite Ha.
Qed.

(* C08 thm 3: the smoothed states and measurement shocks reproduce the observed data *)
Theorem smooth_reproduces_data_run a Q ps : is_sym Q -> all_ok ps -> all_unit (krun a Q ps) ->
  all_meas (sback (krun a Q ps)).1.
Proof.
elim: ps a Q => [|p ps IH] a Q sQ; first by [].
case=> okp okps; rewrite krun_cons sback_cons; case=> uF uFs.
have sp := kf_step_spec a sQ okp.
rewrite /=; split; last exact: IH (f_a1 (kstep a Q p)) _ (sp_Q1s sp) okps uFs.
exact: data_step (proj2 okp) sp uF.
Qed.

End SmootherProofs.
