(* Proofs about the backward pass of the Kalman model (model/Kalman.v: one_step_back, smooth_back,
   update_all) on the MathComp instance: the smoothed state is a simulation of the model and
   reproduces the observed data; deviation mode; output mapping. *)
From mathcomp Require Import all_ssreflect all_algebra.
From mathcomp Require Import ring.
From Verif.lib Require Import MatOps MatMC MatLemmas.
From Verif.model Require Import Kalman.
From Verif.proofs Require Import KalmanProofs.
Set Implicit Arguments.
Unset Strict Implicit.
Unset Printing Implicit Defensive.
Import GRing.Theory Num.Theory.
Local Open Scope ring_scope.

Section SmootherProofs.
Variable F : realFieldType.
Variables (flog : F -> F) (flog2pi : F).
Notation M := (MC flog flog2pi).
Variables n nw : nat.
Notation period := (period M n nw).
Notation fper := (fper M n nw).
Notation sper := (sper M n nw).
Notation bstate := (bstate M n).
Notation kstep := (@kf_step M n nw).
Notation krun := (@kf_run M n nw).
Notation step_spec := (@step_spec F flog flog2pi n nw).
Notation all_ok := (@all_ok F flog flog2pi n nw).
Notation all_unit := (@all_unit F flog flog2pi n nw).
Implicit Types (p : period) (a : 'cV[F]_n) (Q : 'M[F]_n) (st : bstate).

Definition r_of st : 'cV[F]_n := if st is Some (_, r, _) then r else 0.
Definition T_of st : 'M[F]_n := if st is Some (_, _, T) then T else 0.
Definition N_of st : 'M[F]_n := if st is Some (N, _, _) then N else 0.
(* T_{t+1}' r_{t+1}: what the smoothed state of period t needs from the later periods *)
Definition Tr st : 'cV[F]_n := (T_of st)^T *m r_of st.


(* one_step_back in closed form; the `t > last_period_of_observations` branch is the case r = 0 *)
Lemma osb_spec p (f : frec p) st :
  let x := mkFper p f in
  let o := (one_step_back x st).1 in let st' := (one_step_back x st).2 in
  let TG := T_of st *m f_G f in
  let L := T_of st - TG *m p_Z p in
  [/\ r_of st' = f_Zt_Fi f *m f_pe f + L^T *m r_of st,
      s_a o = f_a0 f + f_Q0 f *m r_of st',
      s_u o = u_med (p_us p) + (f_P_cov_u f)^T *m r_of st',
      s_w o = p_w0 p + (f_H_cov_w f)^T *m (f_Fi f *m f_pe f - TG^T *m r_of st) &
      Tr st' = (p_T p)^T *m r_of st'].
Proof.
case: st => [[[N r] Tn]|]; rewrite /one_step_back /Tr /=.
  by rewrite orbT /=.
case: p f => [[|ny] T K us v Z H D cw w0 y] f /=.
  by rewrite !mulmx0 !addr0 !mul_thin_flat !addr0.
by rewrite !mulmx0 !addr0 subr0.
Qed.


(* ---------------------------------------------------------------- *)
(* one period                                                        *)
(* ---------------------------------------------------------------- *)

(* C08 thm 1: the smoothed state is the updated state corrected by what later periods tell,
   alpha_hat_t = a1_t + Q1_t T_{t+1}' r_{t+1} *)
Lemma smooth_alt_step a Q p (f : frec p) st : step_spec a Q f ->
  s_a (one_step_back (mkFper p f) st).1 = f_a1 f + f_Q1 f *m Tr st.
Proof.
move=> sp; have [Er -> _ _ _] := osb_spec f st; rewrite Er.
rewrite (sp_a1 sp) (sp_Q1 sp) (sp_Zt_Fi sp) /Tr.
have Gt := Gt_core (p_Z p) (sp_Q0s sp) (sp_Fis sp); rewrite -(sp_G sp) in Gt.
rewrite linearB /= 2!trmx_mul Gt (sp_G sp).
rewrite !(mulmxDr, mulmxBr, mulmxDl, mulmxBl) ?(mulmxN, mulNmx) !mulmxA ?(mulmxN, mulNmx).
by rewrite !addrA.
Qed.


(* C08 thm 2, one period: the smoothed state of period t is the model's transition equation applied
   to the smoothed state of period t-1 (written through thm 1 as a1_{t-1} + Q1_{t-1} T_t' r_t) with the
   smoothed shocks u_hat_t = u0_t + (P cov_u)' r_t *)
Lemma sim_step a Q p (f : frec p) st : is_sym (u_cov (p_us p)) -> step_spec a Q f ->
  let o := (one_step_back (mkFper p f) st).1 in let st' := (one_step_back (mkFper p f) st).2 in
  s_a o = p_T p *m (a + Q *m Tr st') + p_K p + P_times (p_us p) (s_u o) + v_term p.
Proof.
move=> scu sp /=; have [_ -> -> _ ->] := osb_spec f st.
rewrite (sp_P_cov_u sp) P_times_smooth // (sp_a0 sp) (sp_Q0 sp).
rewrite !(mulmxDr, mulmxDl) !mulmxA.
by mx_abel.
Qed.

(* C08 thm 3, one period: the measurement equations hold exactly on the observed rows *)
Lemma data_step a Q p (f : frec p) st : is_sym (p_cov_w p) -> step_spec a Q f -> f_F f \in unitmx ->
  let o := (one_step_back (mkFper p f) st).1 in
  p_Z p *m s_a o + p_D p + p_H p *m s_w o = p_y p.
Proof.
move=> scw sp uF /=; have [Er -> _ -> _] := osb_spec f st; rewrite Er.
have FFi : f_F f *m f_Fi f = 1%:M by rewrite (sp_Fi sp) mulmxV.
have Gt := Gt_core (p_Z p) (sp_Q0s sp) (sp_Fis sp); rewrite -(sp_G sp) in Gt.
set r := r_of st; set Tn := T_of st.
set W := f_Fi f *m f_pe f - (Tn *m f_G f)^T *m r.
have -> : f_Zt_Fi f *m f_pe f + (Tn - Tn *m f_G f *m p_Z p)^T *m r = (p_Z p)^T *m W + Tn^T *m r.
  rewrite /W (sp_Zt_Fi sp) linearB /= !trmx_mul mulmxBr mulmxBl !mulmxA.
  by mx_abel.
have FW : p_Z p *m f_Q0 f *m (p_Z p)^T *m W + p_H p *m p_cov_w p *m (p_H p)^T *m W
          = f_pe f - p_Z p *m f_Q0 f *m Tn^T *m r.
  rewrite -mulmxDl -(sp_F sp) /W mulmxBr !mulmxA FFi mul1mx trmx_mul Gt !mulmxA FFi mul1mx.
  by [].
clearbody W.
have -> : p_y p = f_y0 f + f_pe f by rewrite (sp_pe sp) addrC subrK.
rewrite (sp_y0 sp) (sp_H_cov_w sp) trmx_mul scw !(mulmxDr, mulmxDl) !mulmxA.
have -> : f_pe f = p_Z p *m f_Q0 f *m (p_Z p)^T *m W + p_H p *m p_cov_w p *m (p_H p)^T *m W
                   + p_Z p *m f_Q0 f *m Tn^T *m r by rewrite FW subrK.
by mx_abel.
Qed.


(* ---------------------------------------------------------------- *)
(* whole runs: any number of periods, any observation pattern        *)
(* ---------------------------------------------------------------- *)
Notation osb := (@one_step_back M n nw).
Notation sback := (@smooth_back M n nw).

(* the transition equation of the period of [s], from the state [a_prev] of the previous period *)
Definition trans_eq (a_prev : 'cV[F]_n) (s : sper) : Prop :=
  let p := fp (sx s) in
  s_a (so s) = p_T p *m a_prev + p_K p + P_times (p_us p) (s_u (so s)) + v_term p.

Fixpoint sim_chain (a_prev : 'cV[F]_n) (l : seq sper) : Prop :=
  if l is s :: l' then trans_eq a_prev s /\ sim_chain (s_a (so s)) l' else True.

(* the measurement equations of the period of [s] on its observed rows *)
Definition meas_eq (s : sper) : Prop :=
  let p := fp (sx s) in
  p_Z p *m s_a (so s) + p_D p + p_H p *m s_w (so s) = p_y p.

Fixpoint all_meas (l : seq sper) : Prop :=
  if l is s :: l' then meas_eq s /\ all_meas l' else True.

Lemma sback_cons x fs :
  sback (x :: fs) = (mkSper x (osb x (sback fs).2).1 :: (sback fs).1, (osb x (sback fs).2).2).
Proof. by rewrite /=; case: (sback fs) => outs st; case: (osb x st). Qed.

(* C08 thm 2: the smoothed states are a simulation of the model driven by the smoothed shocks,
   started from the smoothed initial condition a_init + Q_init T_0' r_0 *)
Local Opaque kf_step one_step_back.

Theorem smooth_is_simulation_run a Q ps : is_sym Q -> all_ok ps ->
  sim_chain (a + Q *m Tr (sback (krun a Q ps)).2) (sback (krun a Q ps)).1.
Proof.
elim: ps a Q => [|p ps IH] a Q sQ; first by [].
case=> okp okps; rewrite krun_cons sback_cons.
have sp := kf_step_spec a sQ okp.
set fs := krun _ _ ps; have IHc := IH (f_a1 (kstep a Q p)) _ (sp_Q1s sp) okps; rewrite -/fs in IHc.
have Ha := smooth_alt_step (sback fs).2 sp.
have Hs := sim_step (sback fs).2 (proj1 okp) sp.
rewrite /=; split; first exact: Hs.
by rewrite Ha.
Qed.

(* C08 thm 3: the smoothed states and measurement shocks reproduce the observed data *)
Theorem smooth_reproduces_data_run a Q ps : is_sym Q -> all_ok ps -> all_unit (krun a Q ps) ->
  all_meas (sback (krun a Q ps)).1.
Proof.
elim: ps a Q => [|p ps IH] a Q sQ; first by [].
case=> okp okps; rewrite krun_cons sback_cons; case=> uF uFs.
have sp := kf_step_spec a sQ okp.
rewrite /=; split; last exact: IH (f_a1 (kstep a Q p)) _ (sp_Q1s sp) okps uFs.
exact: data_step (proj2 okp) sp uF.
Qed.


(* C08 thm 1 for whole runs *)
Fixpoint alt_all (fs : seq fper) : Prop :=
  if fs is x :: fs' then
    s_a (osb x (sback fs').2).1 = f_a1 (ff x) + f_Q1 (ff x) *m Tr (sback fs').2 /\ alt_all fs'
  else True.

Theorem smooth_alt_run a Q ps : is_sym Q -> all_ok ps -> alt_all (krun a Q ps).
Proof.
elim: ps a Q => [|p ps IH] a Q sQ; first by [].
case=> okp okps; rewrite krun_cons /=.
have sp := kf_step_spec a sQ okp.
by split; [exact: smooth_alt_step sp | exact: IH (f_a1 (kstep a Q p)) _ (sp_Q1s sp) okps].
Qed.

(* the update pass (update_med): one_step_back without information from later periods returns the
   filtered state a1, and it reproduces the observed data as well *)
Lemma update_step a Q p (f : frec p) : step_spec a Q f ->
  s_a (osb (mkFper p f) None).1 = f_a1 f.
Proof. by move=> sp; rewrite (smooth_alt_step None sp) /Tr /= mulmx0 mulmx0 addr0. Qed.

Fixpoint all_update (l : seq sper) : Prop :=
  if l is s :: l' then (s_a (so s) = f_a1 (ff (sx s)) /\ meas_eq s) /\ all_update l' else True.

Theorem update_run a Q ps : is_sym Q -> all_ok ps -> all_unit (krun a Q ps) ->
  all_update (update_all (krun a Q ps)).
Proof.
elim: ps a Q => [|p ps IH] a Q sQ; first by [].
case=> okp okps; rewrite krun_cons; case=> uF uFs.
have sp := kf_step_spec a sQ okp.
rewrite /=; split; last exact: IH (f_a1 (kstep a Q p)) _ (sp_Q1s sp) okps uFs.
by split; [exact: update_step sp | exact: data_step (proj2 okp) sp uF].
Qed.


(* ---------------------------------------------------------------- *)
(* deviation mode                                                    *)
(* ---------------------------------------------------------------- *)
Local Transparent kf_step one_step_back.

(* the period seen in deviations from a steady state abar: no constants, data minus steady data *)
Definition dev_period (abar : 'cV[F]_n) p : period :=
  @mkPeriod M n nw (p_ny p) (p_T p) 0 (p_us p) (p_v p) (p_Z p) (p_H p) 0 (p_cov_w p) (p_w0 p)
            (p_y p - (p_Z p *m abar + p_D p)).

(* level results minus steady state *)
Definition dev_frec abar p (f : frec p) : frec (dev_period abar p) :=
  @mkFrec M n nw (dev_period abar p) (f_a0 f - abar) (f_Q0 f) (f_y0 f - (p_Z p *m abar + p_D p))
          (f_F f) (f_Fi f) (f_Zt_Fi f) (f_G f) (f_Q1 f) (f_pe f) (f_a1 f - abar)
          (f_P_cov_u f) (f_H_cov_w f).
Definition dev_fper abar (x : fper) : fper := mkFper (dev_period abar (fp x)) (dev_frec abar (ff x)).
Definition dev_sout abar p (o : sout p) : sout (dev_period abar p) :=
  @mkSout M n nw (dev_period abar p) (s_a o - abar) (s_u o) (s_w o) (s_Q o).
Definition dev_sper abar (s : sper) : sper := mkSper (dev_fper abar (sx s)) (dev_sout abar (so s)).

Definition steady_of (abar : 'cV[F]_n) p : Prop := abar = p_T p *m abar + p_K p.
Fixpoint all_steady abar (ps : seq period) : Prop :=
  if ps is p :: ps' then steady_of abar p /\ all_steady abar ps' else True.

Lemma dev_step abar a Q p : steady_of abar p ->
  kstep (a - abar) Q (dev_period abar p) = dev_frec abar (kstep a Q p).
Proof.
move=> ss.
have E0 : f_a0 (kstep (a - abar) Q (dev_period abar p)) = f_a0 (kstep a Q p) - abar.
  rewrite /kf_step /=; case: (p_v p) => [v|]; rewrite mulmxBr addr0 [in RHS]ss; mx_abel.
have Ey : f_y0 (kstep (a - abar) Q (dev_period abar p)) = f_y0 (kstep a Q p) - (p_Z p *m abar + p_D p).
  rewrite -[LHS]/(p_Z p *m f_a0 (kstep (a - abar) Q (dev_period abar p)) + 0 + p_H p *m p_w0 p) E0.
  rewrite -[f_y0 (kstep a Q p)]/(p_Z p *m f_a0 (kstep a Q p) + p_D p + p_H p *m p_w0 p) mulmxBr.
  by mx_abel.
have Ep : f_pe (kstep (a - abar) Q (dev_period abar p)) = f_pe (kstep a Q p).
  rewrite -[LHS]/(p_y p - (p_Z p *m abar + p_D p) - f_y0 (kstep (a - abar) Q (dev_period abar p))) Ey.
  rewrite -[RHS]/(p_y p - f_y0 (kstep a Q p)).
  by mx_abel.
have E1 : f_a1 (kstep (a - abar) Q (dev_period abar p)) = f_a1 (kstep a Q p) - abar.
  rewrite -[LHS]/(f_a0 (kstep (a - abar) Q (dev_period abar p)) +
                  f_G (kstep a Q p) *m f_pe (kstep (a - abar) Q (dev_period abar p))) E0 Ep.
  rewrite -[f_a1 (kstep a Q p)]/(f_a0 (kstep a Q p) + f_G (kstep a Q p) *m f_pe (kstep a Q p)).
  by rewrite addrAC.
rewrite /dev_frec -E0 -Ey -E1 -Ep.
by [].
Qed.


Lemma dev_osb abar (x : fper) st :
  osb (dev_fper abar x) st = (dev_sout abar (osb x st).1, (osb x st).2).
Proof.
case: x => p f; rewrite /one_step_back /dev_fper /dev_sout /=.
case: ifP => _ /=; last by [].
by case: st => [[[N r] Tn]|] /=; rewrite addrAC.
Qed.

Lemma dev_krun abar a Q ps : all_steady abar ps ->
  krun (a - abar) Q [seq dev_period abar p | p <- ps] = [seq dev_fper abar x | x <- krun a Q ps].
Proof.
elim: ps a Q => [|p ps IH] a Q; first by [].
case=> ss sss; rewrite map_cons !krun_cons map_cons dev_step //.
by rewrite -[f_a1 (dev_frec _ _)]/(f_a1 (kstep a Q p) - abar) -[f_Q1 (dev_frec _ _)]/(f_Q1 (kstep a Q p)) IH.
Qed.

Lemma dev_sback abar (fs : seq fper) :
  sback [seq dev_fper abar x | x <- fs] = ([seq dev_sper abar s | s <- (sback fs).1], (sback fs).2).
Proof.
elim: fs => [|x fs IH]; first by [].
by rewrite map_cons !sback_cons IH /= dev_osb.
Qed.

Lemma dev_update abar (fs : seq fper) :
  update_all [seq dev_fper abar x | x <- fs] = [seq dev_sper abar s | s <- update_all fs].
Proof.
rewrite /update_all; elim: fs => [|x fs IH]; first by [].
by rewrite /= -!/(map _ _) IH dev_osb.
Qed.

Lemma Lmap_dev A (g : fper -> A) abar (fs : seq fper) : (forall x, g (dev_fper abar x) = g x) ->
  List.map g [seq dev_fper abar x | x <- fs] = List.map g fs.
Proof. by move=> E; elim: fs => [|x fs IH] //=; rewrite E IH. Qed.

Lemma dev_likelihood abar b vs (fs : seq fper) :
  likelihood b [seq dev_fper abar x | x <- fs] = likelihood b fs
  /\ contributions vs [seq dev_fper abar x | x <- fs] = contributions vs fs.
Proof.
rewrite /likelihood /contributions.
rewrite (@Lmap_dev _ (@num_obs M n nw)); last by case.
rewrite (@Lmap_dev _ (@log_det_F M n nw)); last by case.
rewrite (@Lmap_dev _ (@pe_Fi_pe M n nw)); last by case.
by rewrite (@Lmap_dev _ (@contribution M n nw vs)); last by case.
Qed.

(* C08 thm 4: running the filter and the smoother on (data - steady data), without constants, from
   (initial state - steady state) returns the level-mode results minus the steady state: predicted,
   updated and smoothed states are shifted by abar, predicted observables by Z abar + D, and every
   covariance, gain, prediction error, smoothed shock, the likelihood and its contributions are
   unchanged *)
Theorem deviation_commutes_run abar a Q ps b vs : all_steady abar ps ->
  let lev := krun a Q ps in
  let dev := krun (a - abar) Q [seq dev_period abar p | p <- ps] in
  [/\ dev = [seq dev_fper abar x | x <- lev],
      (sback dev).1 = [seq dev_sper abar s | s <- (sback lev).1],
      update_all dev = [seq dev_sper abar s | s <- update_all lev],
      likelihood b dev = likelihood b lev &
      contributions vs dev = contributions vs lev].
Proof.
move=> ss /=; rewrite dev_krun // dev_sback dev_update.
by have [-> ->] := dev_likelihood abar b vs (krun a Q ps).
Qed.


(* ---------------------------------------------------------------- *)
(* selection of the observed rows, output mapping                    *)
(* ---------------------------------------------------------------- *)
Section Mapping.
Variables nu nyf nxi : nat.
Variable s : solution M n nw nu nyf nxi.

(* the measurement equations of a generated period are the full measurement block of the model,
   read on the rows that are observed in that period *)
Lemma gen_period_meas (d : pdata M n nw nu nyf) (alpha : 'cV[F]_n) (w : 'cV[F]_nw) :
  let p := gen_period s d in
  p_Z p *m alpha + p_D p + p_H p *m w = mc_sel (d_mask d) (so_Za s *m alpha + so_D s + so_H s *m w)
  /\ p_y p = mc_sel (d_mask d) (d_y d).
Proof. by rewrite /= !mc_sel_add !mc_sel_mul. Qed.

Lemma gen_period_ok (d : pdata M n nw nu nyf) : ok_period (gen_period s d).
Proof.
by split; rewrite /is_sym /= /cov_from_std /=; apply/matrixP=> i j; rewrite !mxE eq_sym;
   case: eqP => // ->.
Qed.

(* C08 thm 5: the values stored for the current-dated transition variables are the rows
   curr_xi_indexes of Ua alpha (and of Ua Q Ua' on the diagonal); the mapping is linear *)
Lemma xi_med_rows (a : 'cV[F]_n) : xi_med s a = mc_rows (so_curr_xi s) (so_Ua s *m a).
Proof. by rewrite /xi_med /= mc_rows_mul. Qed.

Lemma xi_med_entry (a : 'cV[F]_n) (i : 'I_(length (so_curr_xi s))) (r : 'I_nxi) j :
  nth 0%N (so_curr_xi s) i = r -> xi_med s a i j = (so_Ua s *m a) r j.
Proof. by move=> E; rewrite xi_med_rows (mc_rows_entry _ _ E). Qed.

Lemma xi_med_sub (a abar : 'cV[F]_n) : xi_med s (a - abar) = xi_med s a - xi_med s abar.
Proof. by rewrite /xi_med /= mulmxBr. Qed.

Lemma xi_var_entry (Q : 'M[F]_n) (i : 'I_(length (so_curr_xi s))) (r : 'I_nxi) :
  nth 0%N (so_curr_xi s) i = r ->
  let U := mc_rows (so_curr_xi s) (so_Ua s) in
  (U *m Q *m U^T) i i = (so_Ua s *m Q *m (so_Ua s)^T) r r.
Proof.
move=> E /=; rewrite -mc_rows_mul !mxE; apply: eq_bigr => l _.
by rewrite (mc_rows_entry _ _ E) 2![_^T _ _]mxE (mc_rows_entry _ _ E).
Qed.



(* the periods generated from a model solution and a data set always satisfy the side conditions
   (the shock covariances are diagonal matrices of squared standard deviations) *)
Lemma all_ok_gen (data : seq (pdata M n nw nu nyf)) : all_ok (List.map (gen_period s) data).
Proof. by elim: data => [|d data IH] //=; split; [exact: gen_period_ok | exact: IH]. Qed.

Lemma output_mapping (a abar : 'cV[F]_n) (Q : 'M[F]_n) (i : 'I_(length (so_curr_xi s))) (r : 'I_nxi) :
  nth 0%N (so_curr_xi s) i = r ->
  [/\ xi_med s a = mc_rows (so_curr_xi s) (so_Ua s *m a),
      xi_med s a i ord0 = (so_Ua s *m a) r ord0,
      xi_med s (a - abar) = xi_med s a - xi_med s abar &
      let U := mc_rows (so_curr_xi s) (so_Ua s) in
      (U *m Q *m U^T) i i = (so_Ua s *m Q *m (so_Ua s)^T) r r].
Proof.
move=> E; split; [exact: xi_med_rows | exact: xi_med_entry | exact: xi_med_sub | exact: xi_var_entry].
Qed.

End Mapping.

End SmootherProofs.
