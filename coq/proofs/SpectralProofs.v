(* C18, clause "its reported ... eigenvalues ... are those of its companion form": what RedVAR reports as the maximum
   modulus of the eigenvalues and as the stability verdict (model/Spectral.v, defined in terms of the formulas
   regenerated from red_vars/_variants.py) is the spectral radius of the eigenvalue list / the verdict "every eigenvalue
   lies strictly inside the circle of the threshold radius" - for every list of eigenvalues (any length, any order,
   any type of complex numbers C with any modulus function into any totally pre-ordered type T). *)
From Coq Require Import List Bool Permutation QArith Lqa.
From Verif Require Import gen.RedVarGen model.Spectral.
Import ListNotations.

Section Proofs.
Variables C T : Type.
Variable modulus : C -> T.
Variable leb : T -> T -> bool.
Variable of_nat : nat -> T.
Variable cmax : list C -> C.

Hypothesis leb_total : forall a b, leb a b = false -> leb b a = true.
Hypothesis leb_trans : forall a b c, leb a b = true -> leb b c = true -> leb a c = true.

Notation maxT := (maxT leb).
Notation max_of := (max_of leb).
Notation ltb := (ltb leb).

Lemma leb_refl a : leb a a = true.
Proof. destruct (leb a a) eqn:E; [reflexivity | rewrite <- (leb_total _ _ E); symmetry; exact E]. Qed.

Lemma maxT_cases a b : (maxT a b = a /\ leb b a = true) \/ (maxT a b = b /\ leb a b = true).
Proof. unfold Spectral.maxT. destruct (leb a b) eqn:E; [right | left]; auto. Qed.

Lemma maxT_ge_l a b : leb a (maxT a b) = true.
Proof. destruct (maxT_cases a b) as [[-> _] | [-> H]]; auto using leb_refl. Qed.

Lemma maxT_ge_r a b : leb b (maxT a b) = true.
Proof. destruct (maxT_cases a b) as [[-> H] | [-> _]]; auto using leb_refl. Qed.

(* the running maximum never decreases *)
Lemma max_of_ge_start l : forall x, leb x (max_of x l) = true.
Proof.
  induction l as [| y l IH]; intros x; cbn [Spectral.max_of fold_left].
  - apply leb_refl.
  - eapply leb_trans; [apply (maxT_ge_l x y) | apply IH].
Qed.

(* the maximum is attained ... *)
Lemma max_of_attained l : forall x, In (max_of x l) (x :: l).
Proof.
  induction l as [| y l IH]; intros x; cbn [Spectral.max_of fold_left].
  - left; reflexivity.
  - specialize (IH (maxT x y)). unfold Spectral.max_of in IH. destruct IH as [E | H].
    + destruct (maxT_cases x y) as [[Em _] | [Em _]].
      * left. rewrite <- E. symmetry; exact Em.
      * right; left. rewrite <- E. symmetry; exact Em.
    + right; right; exact H.
Qed.

(* ... and bounds every element *)
Lemma max_of_bounds l : forall x y, In y (x :: l) -> leb y (max_of x l) = true.
Proof.
  induction l as [| z l IH]; intros x y Hin; cbn [Spectral.max_of fold_left].
  - destruct Hin as [<- | []]. apply leb_refl.
  - destruct Hin as [<- | [<- | Hin]].
    + eapply leb_trans; [apply (maxT_ge_l x z) | apply (max_of_ge_start l)].
    + eapply leb_trans; [apply (maxT_ge_r x z) | apply (max_of_ge_start l)].
    + apply (IH (maxT x z) y). right; exact Hin.
Qed.

(* any two values that are attained and bound the list are equivalent in the order: the spectral radius is
   determined by the multiset of the eigenvalues (numpy.linalg.eigvals returns them in an unspecified order) *)
Lemma max_of_perm x l y l' :
  Permutation (x :: l) (y :: l') -> leb (max_of x l) (max_of y l') = true /\ leb (max_of y l') (max_of x l) = true.
Proof.
  intros P. split.
  - apply max_of_bounds. eapply Permutation_in; [exact P | apply max_of_attained].
  - apply max_of_bounds. eapply Permutation_in; [apply Permutation_sym; exact P | apply max_of_attained].
Qed.

(* the regenerated formula is numpy.max(numpy.abs(eigenvalues)) *)
Lemma gen_max_abs_is_max_of_moduli z eigs d :
  gen_max_abs_eigenvalue (np_ops C T modulus leb of_nat cmax d) (z :: eigs) = max_of (modulus z) (map modulus eigs).
Proof. reflexivity. Qed.

Lemma max_abs_eigenvalue_none eigs : max_abs_eigenvalue modulus leb of_nat cmax eigs = None <-> eigs = [].
Proof. destruct eigs; cbn; split; congruence. Qed.

(* MAIN 1: the reported maximum is the modulus of one of the eigenvalues and no eigenvalue has a larger modulus *)
Theorem max_abs_eigenvalue_is_spectral_radius eigs :
  eigs <> [] ->
  exists r, max_abs_eigenvalue modulus leb of_nat cmax eigs = Some r
    /\ (exists z, In z eigs /\ r = modulus z)
    /\ (forall z, In z eigs -> leb (modulus z) r = true).
Proof.
  destruct eigs as [| z0 eigs]; [congruence | intros _].
  exists (max_of (modulus z0) (map modulus eigs)). split; [| split].
  - unfold max_abs_eigenvalue. rewrite gen_max_abs_is_max_of_moduli. reflexivity.
  - pose proof (max_of_attained (map modulus eigs) (modulus z0)) as H.
    change (modulus z0 :: map modulus eigs) with (map modulus (z0 :: eigs)) in H.
    apply in_map_iff in H. destruct H as [z [E Hin]]. exists z; split; [exact Hin | symmetry; exact E].
  - intros z Hin. apply max_of_bounds.
    change (modulus z0 :: map modulus eigs) with (map modulus (z0 :: eigs)). apply in_map. exact Hin.
Qed.

(* the characterisation determines the value up to the order's equivalence *)
Theorem spectral_radius_unique eigs r r' :
  (exists z, In z eigs /\ r = modulus z) -> (forall z, In z eigs -> leb (modulus z) r = true) ->
  (exists z, In z eigs /\ r' = modulus z) -> (forall z, In z eigs -> leb (modulus z) r' = true) ->
  leb r r' = true /\ leb r' r = true.
Proof. intros [z [Hz ->]] B [z' [Hz' ->]] B'. split; [apply B' | apply B]; assumption. Qed.

(* the reported maximum does not depend on the order in which eigvals returns the eigenvalues *)
Theorem max_abs_eigenvalue_perm eigs eigs' r r' :
  Permutation eigs eigs' ->
  max_abs_eigenvalue modulus leb of_nat cmax eigs = Some r -> max_abs_eigenvalue modulus leb of_nat cmax eigs' = Some r' ->
  leb r r' = true /\ leb r' r = true.
Proof.
  intros P E E'.
  destruct eigs as [| z eigs]; [discriminate |]. destruct eigs' as [| z' eigs']; [discriminate |].
  unfold max_abs_eigenvalue in E, E'. rewrite gen_max_abs_is_max_of_moduli in E, E'.
  injection E as <-. injection E' as <-.
  apply max_of_perm. change (Permutation (map modulus (z :: eigs)) (map modulus (z' :: eigs'))).
  apply Permutation_map. exact P.
Qed.

(* MAIN 2: the stability verdict.  "stable" is reported exactly when every eigenvalue has a modulus strictly below the
   threshold 1, "unstable" exactly when some eigenvalue has a modulus of at least 1, nothing when there are no
   eigenvalues. *)
Lemma lt_max_iff x l thr : ltb (max_of x l) thr = true <-> forall y, In y (x :: l) -> ltb y thr = true.
Proof.
  unfold Spectral.ltb. split.
  - intros H y Hin. apply negb_true_iff. apply negb_true_iff in H.
    destruct (leb thr y) eqn:E; [| reflexivity].
    rewrite <- H. symmetry. eapply leb_trans; [exact E | apply max_of_bounds; exact Hin].
  - intros H. apply H. apply max_of_attained.
Qed.

Theorem stability_verdict eigs :
  (is_stable modulus leb of_nat cmax eigs = Some true
     <-> eigs <> [] /\ forall z, In z eigs -> ltb (modulus z) (of_nat 1) = true)
  /\ (is_stable modulus leb of_nat cmax eigs = Some false
     <-> exists z, In z eigs /\ leb (of_nat 1) (modulus z) = true)
  /\ (is_stable modulus leb of_nat cmax eigs = None <-> eigs = []).
Proof.
  destruct eigs as [| z0 eigs].
  - cbn. repeat split; try congruence; try (intros [? ?]; congruence).
    + intros [z [[] _]].
  - unfold is_stable, max_abs_eigenvalue. rewrite gen_max_abs_is_max_of_moduli.
    cbn [gen_is_stable np_ops lt_T of_nat_T].
    pose proof (lt_max_iff (modulus z0) (map modulus eigs) (of_nat 1)) as L.
    change (modulus z0 :: map modulus eigs) with (map modulus (z0 :: eigs)) in L.
    split; [| split].
    + split.
      * intros E. injection E as E. split; [congruence |]. intros z Hin.
        apply (proj1 L E). apply in_map. exact Hin.
      * intros [_ H]. f_equal. apply (proj2 L). intros y Hin. apply in_map_iff in Hin.
        destruct Hin as [z [<- Hin]]. apply H; exact Hin.
    + split.
      * intros E. injection E as E. unfold Spectral.ltb in E. apply negb_false_iff in E.
        pose proof (max_of_attained (map modulus eigs) (modulus z0)) as A.
        change (modulus z0 :: map modulus eigs) with (map modulus (z0 :: eigs)) in A.
        apply in_map_iff in A. destruct A as [z [Ez Hin]]. exists z. split; [exact Hin |]. rewrite Ez. exact E.
      * intros [z [Hin E]]. f_equal. apply not_true_is_false. intros S.
        pose proof (proj1 L S (modulus z) (in_map modulus _ _ Hin)) as Hlt.
        unfold Spectral.ltb in Hlt. rewrite E in Hlt. discriminate.
    + split; congruence.
Qed.

(* per variant: entry i of what RedVAR.get_max_abs_eigenvalue / get_stability / get_eigenvalues return is computed
   from the eigenvalues of variant i alone *)
Theorem accessors_per_variant (variants : list (list C)) i :
  nth i (get_max_abs_eigenvalue modulus leb of_nat cmax variants) None
    = max_abs_eigenvalue modulus leb of_nat cmax (nth i variants [])
  /\ nth i (get_stability modulus leb of_nat cmax variants) None = is_stable modulus leb of_nat cmax (nth i variants [])
  /\ nth i (get_eigenvalues variants) [] = nth i variants []
  /\ length (get_max_abs_eigenvalue modulus leb of_nat cmax variants) = length variants
  /\ length (get_stability modulus leb of_nat cmax variants) = length variants.
Proof.
  unfold get_max_abs_eigenvalue, get_stability, get_eigenvalues. rewrite !map_length.
  repeat split.
  - change None with (max_abs_eigenvalue modulus leb of_nat cmax []) at 1. apply map_nth.
  - change None with (is_stable modulus leb of_nat cmax []) at 1. apply map_nth.
  - change (@nil C) with (reported_eigenvalues (@nil C)) at 1. rewrite map_nth. reflexivity.
Qed.
End Proofs.

(* An order embedding commutes with the maximum: the maximum of the SQUARED moduli re^2 + im^2 (what the executable
   instance of the correspondence computes, in exact rational arithmetic) is the square of the maximum modulus, and
   the modulus is below 1 exactly when its square is. *)
Section Embedding.
Variables T T' : Type.
Variable leb : T -> T -> bool.
Variable leb' : T' -> T' -> bool.
Variable f : T -> T'.
Variable P : T -> Prop.     (* the domain on which f is an order embedding, e.g. the non-negative numbers for squaring *)
Hypothesis f_embeds : forall a b, P a -> P b -> leb a b = leb' (f a) (f b).

Lemma maxT_P a b : P a -> P b -> P (maxT leb a b).
Proof. unfold maxT. destruct (leb a b); auto. Qed.

Theorem max_of_embedding l : forall x, P x -> Forall P l -> f (max_of leb x l) = max_of leb' (f x) (map f l).
Proof.
  induction l as [| y l IH]; intros x Px Pl; cbn [max_of fold_left map]; [reflexivity |].
  inversion Pl as [| ? ? Py Pl']; subst.
  specialize (IH (maxT leb x y) (maxT_P x y Px Py) Pl'). unfold max_of in IH. rewrite IH.
  f_equal. unfold maxT. rewrite (f_embeds x y Px Py). destruct (leb' (f x) (f y)); reflexivity.
Qed.
End Embedding.

(* Non-vacuity and the executable instance: complex numbers with rational parts, the squared modulus, Q's order. *)
Definition Qleb (a b : Q) : bool := Qle_bool a b.
Definition normsq (z : Q * Q) : Q := fst z * fst z + snd z * snd z.
Definition Qof_nat (n : nat) : Q := inject_Z (Z.of_nat n).
Definition cmax_dummy (l : list (Q * Q)) : Q * Q := hd (0, 0) l.

Lemma Qleb_total a b : Qleb a b = false -> Qleb b a = true.
Proof.
  unfold Qleb. intros H. apply Qle_bool_iff. destruct (Qlt_le_dec b a) as [L | L].
  - apply Qlt_le_weak; exact L.
  - apply Qle_bool_iff in L. congruence.
Qed.

Lemma Qleb_trans a b c : Qleb a b = true -> Qleb b c = true -> Qleb a c = true.
Proof. unfold Qleb. rewrite !Qle_bool_iff. apply Qle_trans. Qed.

(* squaring is an order embedding on the non-negative rationals *)
Lemma Qsquare_embeds a b : 0 <= a -> 0 <= b -> Qleb a b = Qleb (a * a) (b * b).
Proof.
  intros Ha Hb. unfold Qleb.
  destruct (Qle_bool a b) eqn:E; symmetry.
  - apply Qle_bool_iff in E. apply Qle_bool_iff. apply Qmult_le_compat_nonneg; split; assumption.
  - apply not_true_is_false. intros H. apply Qle_bool_iff in H.
    assert (L : b < a). { apply Qnot_le_lt. intros L. apply Qle_bool_iff in L. congruence. }
    nra.
Qed.

Lemma spectral_hypotheses_satisfiable :
  (forall a b, Qleb a b = false -> Qleb b a = true)
  /\ (forall a b c, Qleb a b = true -> Qleb b c = true -> Qleb a c = true)
  /\ (forall a b, inject_Z 0 <= a -> inject_Z 0 <= b -> Qleb a b = Qleb (a * a) (b * b)).
Proof. split; [exact Qleb_total | split; [exact Qleb_trans | exact Qsquare_embeds]]. Qed.

(* dominant root NEGATIVE (-1.25, outside the unit circle) next to 0.5, and a dominant complex pair 0.125 +- 0.875 i
   next to the real root 0.5: the cases in which "largest modulus" and "largest eigenvalue" differ *)
Example spectral_example_negative_root :
  max_abs_eigenvalue normsq Qleb Qof_nat cmax_dummy [(1 # 2, 0); (-5 # 4, 0)] = Some (25 # 16)
  /\ is_stable normsq Qleb Qof_nat cmax_dummy [(1 # 2, 0); (-5 # 4, 0)] = Some false.
Proof. split; vm_compute; reflexivity. Qed.

Example spectral_example_complex_pair :
  max_abs_eigenvalue normsq Qleb Qof_nat cmax_dummy [(1 # 2, 0); (1 # 8, 7 # 8); (1 # 8, -7 # 8)] = Some (3200 # 4096)   (* = 50/64 *)
  /\ is_stable normsq Qleb Qof_nat cmax_dummy [(1 # 2, 0); (1 # 8, 7 # 8); (1 # 8, -7 # 8)] = Some true.
Proof. split; vm_compute; reflexivity. Qed.
