(* Proofs for the l1 trend filter (lonf) part of C14: the model text of model/L1.v read at the
   MathComp instance [MCOps F] (proofs/HPProofs.v), any realFieldType, no axioms. *)
From Coq Require Import ZArith List Bool Lia.
From mathcomp Require Import all_ssreflect all_algebra.
From mathcomp Require Import ring zify.
From Verif Require Import MxC14 HPGen HP L1 HPProofs.

Set Implicit Arguments.
Unset Strict Implicit.
Unset Printing Implicit Defensive.
Import Order.TTheory GRing.Theory Num.Theory.
Local Open Scope ring_scope.

Section L1Abstract.
Variable F : realFieldType.
Variables (p n : nat) (D : 'M[F]_(p, n)) (y : 'cV[F]_n).

(* the l1 trend-filter objective  1/2 |y - x|^2 + lam |D x|_1 *)
Definition l1_P (lam : F) (x : 'cV[F]_n) : F :=
  2%:R^-1 * (\sum_(j < n) (y j 0 - x j 0) ^+ 2) + lam * (\sum_(i < p) `|(D *m x) i 0|).

Variable nu : 'cV[F]_p.
Definition l1_x : 'cV[F]_n := y - D^T *m nu.
Definition l1_r : 'cV[F]_p := D *m l1_x.

(* trend + gap = data *)
Lemma l1_identity_abs : l1_x + D^T *m nu = y.
Proof. by rewrite /l1_x subrK. Qed.

(* the gradient of the dual objective 1/2 v'(DD')v - (Dy)'v at nu is  - D x *)
Lemma l1_gradient : (D *m D^T) *m nu + (- D) *m y = - l1_r.
Proof. by rewrite /l1_r /l1_x mulmxBr mulNmx -mulmxA opprB addrC. Qed.

(* KKT conditions of the box-constrained QP (bounds -lam <= v_i <= lam, lam > 0), gradient g *)
Definition box_kkt (lam : F) (g : 'cV[F]_p) : Prop :=
  forall i, `|nu i 0| <= lam /\
            (`|nu i 0| < lam -> g i 0 = 0) /\
            (nu i 0 = - lam -> 0 <= g i 0) /\
            (nu i 0 = lam -> g i 0 <= 0).

(* optimality certificate of the l1 problem at x = y - D' nu:  s = nu / lam  is a subgradient of |.|_1 at D x
   (|s_i| <= 1, s_i (Dx)_i = |(Dx)_i|) and  y - x = lam D' s  holds by construction *)
Definition l1_cert (lam : F) : Prop :=
  forall i, `|nu i 0| <= lam /\ nu i 0 * l1_r i 0 = lam * `|l1_r i 0|.

Lemma box_kkt_cert (lam : F) : 0 < lam -> box_kkt lam (- l1_r) <-> l1_cert lam.
Proof.
move=> Hl; split=> H i; have [Hb] := H i.
- move=> [H1 [H2 H3]]; split=> //.
  move: Hb; rewrite le_eqVlt => /orP[/eqP Hb|Hb].
  + case: (lerP 0 (nu i 0)) => Hs.
    * have E : nu i 0 = lam by rewrite -Hb ger0_norm.
      have := H3 E; rewrite mxE oppr_le0 => Hr.
      by rewrite E ger0_norm.
    * have E : nu i 0 = - lam by rewrite -Hb ltr0_norm // opprK.
      have := H2 E; rewrite mxE oppr_ge0 => Hr.
      by rewrite E ler0_norm // mulrN mulNr.
  + by have := H1 Hb; rewrite mxE => /eqP; rewrite oppr_eq0 => /eqP ->; rewrite normr0 !mulr0.
- move=> Hc; split=> //; split; [|split].
  + move=> Hlt; rewrite mxE; apply/eqP; rewrite oppr_eq0; apply/eqP.
    have : (lam - `|nu i 0|) * `|l1_r i 0| = 0.
      rewrite mulrBl -Hc -normrM; apply/eqP; rewrite subr_eq0; apply/eqP.
      by rewrite Hc ger0_norm // mulr_ge0 // ltW.
    move/eqP; rewrite mulf_eq0 subr_eq0 => /orP[/eqP E|]; first by rewrite E ltxx in Hlt.
    by rewrite normr_eq0 => /eqP.
  + move=> E; rewrite mxE oppr_ge0.
    move: Hc; rewrite E mulNr => /eqP; rewrite eqr_oppLR -mulrN => /eqP /(mulfI (lt0r_neq0 Hl)) ->.
    by rewrite oppr_le0.
  + move=> E; rewrite mxE oppr_le0.
    by move: Hc; rewrite E => /(mulfI (lt0r_neq0 Hl)) ->.
Qed.

(* the subgradient form of the certificate *)
Lemma l1_cert_subgradient (lam : F) : 0 < lam -> l1_cert lam ->
  exists s : 'cV[F]_p, (forall i, `|s i 0| <= 1 /\ s i 0 * l1_r i 0 = `|l1_r i 0|) /\ y - l1_x = lam *: (D^T *m s).
Proof.
move=> Hl Hc; exists (lam^-1 *: nu); split.
- move=> i; have [Hb Hr] := Hc i.
  have -> : (lam^-1 *: nu) i 0 = lam^-1 * nu i 0 by rewrite mxE.
  split.
  + by rewrite normrM normfV (gtr0_norm Hl) mulrC ler_pdivr_mulr // mul1r.
  + by rewrite -mulrA Hr mulKf // lt0r_neq0.
- rewrite /l1_x opprB addrC subrK -scalemxAr scalerA mulfV ?scale1r //.
  exact: lt0r_neq0.
Qed.

(* duality gap of nu *)
Definition l1_gap (lam : F) : F := \sum_(i < p) (lam * `|l1_r i 0| - nu i 0 * l1_r i 0).

Lemma dot_sum m (u v : 'cV[F]_m) : (u^T *m v) 0 0 = \sum_i u i 0 * v i 0.
Proof. by rewrite mxE; apply: eq_bigr => i _; rewrite mxE. Qed.

Lemma sqsum_sub m (u v : 'cV[F]_m) :
  \sum_(j < m) (u j 0 - v j 0) ^+ 2 = ((u - v)^T *m (u - v)) 0 0.
Proof. by rewrite quad_sum; apply: eq_bigr => j _; rewrite !mxE. Qed.

Lemma half2 (a : F) : 2%:R^-1 * a + 2%:R^-1 * a = a.
Proof. by rewrite -mulrDl -mulr2n -mulr_natr mulVf ?mul1r // pnatr_eq0. Qed.

Lemma final_id (h b1 b2 b3 b4 l c2 : F) : h * b2 + h * b2 = b2 ->
  h * b1 + l * c2 - (l * c2 - b4) + h * b3 = h * (b1 - b2 - (b2 - b3)) + (b4 + b2).
Proof. by move=> Hh; rewrite -{3}Hh; ring. Qed.

(* soundness of the checker: if |nu_i| <= lam' for all i, then for EVERY x'
   P_lam(x) - gap + 1/2 |x' - x|^2 <= P_lam'(x') *)
Theorem l1_bound (lam lam' : F) (x' : 'cV[F]_n) :
  (forall i, `|nu i 0| <= lam') ->
  (l1_P lam l1_x - l1_gap lam + 2%:R^-1 * (\sum_(j < n) (x' j 0 - l1_x j 0) ^+ 2) <= l1_P lam' x')%R.
Proof.
move=> Hb.
have [e ->] : exists e, x' = l1_x + e by exists (x' - l1_x); rewrite addrC subrK.
(* lam' |Dx'|_1 >= nu . Dx' *)
have H1 : \sum_(i < p) nu i 0 * (D *m (l1_x + e)) i 0 <= lam' * (\sum_(i < p) `|(D *m (l1_x + e)) i 0|).
  rewrite mulr_sumr; apply: ler_sum => i _.
  apply: (le_trans (ler_norm _)); rewrite normrM.
  by apply: ler_wpmul2r; [apply: normr_ge0 | apply: Hb].
have Hg : y - l1_x = D^T *m nu by rewrite /l1_x opprB addrC subrK.
have S1 : \sum_(j < n) (y j 0 - (l1_x + e) j 0) ^+ 2 = ((D^T *m nu - e)^T *m (D^T *m nu - e)) 0 0.
  by rewrite sqsum_sub opprD addrA Hg.
have S2 : \sum_(j < n) (y j 0 - l1_x j 0) ^+ 2 = ((D^T *m nu)^T *m (D^T *m nu)) 0 0.
  by rewrite sqsum_sub Hg.
have S3 : \sum_(j < n) ((l1_x + e) j 0 - l1_x j 0) ^+ 2 = (e^T *m e) 0 0.
  by rewrite sqsum_sub addrC addKr.
have S4 : \sum_(i < p) nu i 0 * (D *m (l1_x + e)) i 0 = (nu^T *m (D *m l1_x) + (D^T *m nu)^T *m e) 0 0.
  by rewrite -dot_sum mulmxDr mulmxDr trmx_mul trmxK !mulmxA.
have S5 : \sum_(i < p) nu i 0 * (D *m l1_x) i 0 = (nu^T *m (D *m l1_x)) 0 0 by rewrite -dot_sum.
apply: (@le_trans _ _ (2%:R^-1 * (\sum_(j < n) (y j 0 - (l1_x + e) j 0) ^+ 2)
                       + \sum_(i < p) nu i 0 * (D *m (l1_x + e)) i 0)); last by rewrite /l1_P ler_add2l.
rewrite le_eqVlt; apply/orP; left; apply/eqP.
rewrite /l1_P /l1_gap /l1_r sumrB -mulr_sumr S1 S2 S3 S4 S5.
move: (D^T *m nu) => g.
move: (nu^T *m (D *m l1_x)) (\sum_(i < p) `|(D *m l1_x) i 0|) => a4 c2.
rewrite !linearB /= ?mulmxBl ?mulmxBr.
have -> : e^T *m g = g^T *m e by rewrite -[LHS]trmx11 trmx_mul trmxK.
set a1 := g^T *m g; set a2 := g^T *m e; set a3 := e^T *m e.
rewrite !mxE.
move: (a1 0 0) (a2 0 0) (a3 0 0) (a4 0 0) => b1 b2 b3 b4.
by apply: final_id; exact: half2.
Qed.

(* exact certificate: zero gap, hence global optimality, and the minimiser is unique *)
Lemma l1_cert_gap0 (lam : F) : l1_cert lam -> l1_gap lam = 0.
Proof. by move=> Hc; rewrite /l1_gap big1 // => i _; have [_ ->] := Hc i; rewrite subrr. Qed.

Theorem l1_optimal_abs (lam : F) : l1_cert lam ->
  forall x' : 'cV[F]_n, l1_P lam l1_x <= l1_P lam x' /\ (l1_P lam x' <= l1_P lam l1_x -> x' = l1_x).
Proof.
move=> Hc x'.
have Hb : forall i, `|nu i 0| <= lam by move=> i; have [] := Hc i.
have := l1_bound lam x' Hb; rewrite (l1_cert_gap0 Hc) subr0 => H.
have He : 0 <= 2%:R^-1 * (\sum_(j < n) (x' j 0 - l1_x j 0) ^+ 2).
  by apply: mulr_ge0; [rewrite invr_ge0 ler0n | apply: sumr_ge0 => j _; apply: sqr_ge0].
split; first by apply: le_trans H; rewrite ler_addl.
move=> Hle.
have H0 : 2%:R^-1 * (\sum_(j < n) (x' j 0 - l1_x j 0) ^+ 2) = 0.
  apply/eqP; rewrite eq_le He andbT -(ler_add2l (l1_P lam l1_x)) addr0.
  exact: le_trans H Hle.
move/eqP: H0; rewrite mulf_eq0 invr_eq0 pnatr_eq0 /= => /eqP H0.
apply/colP => j.
have /(_ j isT) /eqP := psumr_eq0P (fun j _ => sqr_ge0 (x' j 0 - l1_x j 0)) H0.
by rewrite sqrf_eq0 subr_eq0 => /eqP.
Qed.

End L1Abstract.

(* ================================================================== *)
(* the model text of model/L1.v at the MathComp instance                *)
(* ================================================================== *)
Section L1ModelProofs.
Variable F : realFieldType.
Notation O := (MCOps F).

(* ---- list <-> big-operator bridges (the checker is written on lists) ---- *)
Lemma s_sum_from (h : nat -> F) (a m : nat) (acc : F) :
  List.fold_left (s_add O) (List.map h (List.seq a m)) acc = acc + \sum_(a <= i < a + m) h i.
Proof.
elim: m a acc => [|m IH] a acc /=; first by rewrite addn0 big_geq // addr0.
by rewrite IH addSnnS [in RHS]big_ltn ?addrA //; lia.
Qed.

Lemma s_sum_map_seq (h : nat -> F) (m : nat) :
  s_sum O (List.map h (List.seq 0 m)) = \sum_(0 <= i < m) h i.
Proof. by rewrite /s_sum s_sum_from add0r add0n. Qed.

Lemma forallb_map_seq (P : F -> bool) (h : nat -> F) (a m : nat) :
  List.forallb P (List.map h (List.seq a m)) = true -> forall i, (a <= i < a + m)%N -> P (h i).
Proof.
elim: m a => [|m IH] a /=; first by move=> _ i; rewrite addn0; lia.
case/andP => Ha /IH H i Hi.
by case: (i =P a) => [->//|Hne]; apply: H; lia.
Qed.

Lemma combine_map (A B : Type) (f : nat -> A) (g : nat -> B) (l : list nat) :
  List.combine (List.map f l) (List.map g l) = List.map (fun i => (f i, g i)) l.
Proof. by elim: l => //= x l ->. Qed.

Lemma s_absE (v : F) : s_abs O v = `|v|.
Proof.
rewrite /s_abs /=; case: (lerP 0 v) => H; first by rewrite ger0_norm.
by rewrite ltr0_norm // sub0r.
Qed.

(* ---- the generated stencils of D are the first / second difference ---- *)
Lemma l1_stencil1E (k j : nat) :
  stencil_coef l1_stencil_1 (Z.sub (Z.of_nat k) (Z.of_nat j)) =
  if k == j then Zpos 1 else if k == j.+1 then Zneg 1 else Z0.
Proof. by rewrite /l1_stencil_1 /=; do !case: Z.eqb_spec => ?; do !case: eqP => ?; lia. Qed.

Lemma l1_stencil2E (k j : nat) :
  stencil_coef l1_stencil_2 (Z.sub (Z.of_nat k) (Z.of_nat j)) =
  if k == j then Zpos 1 else if k == j.+1 then Zneg 2 else if k == j.+2 then Zpos 1 else Z0.
Proof. by rewrite /l1_stencil_2 /=; do !case: Z.eqb_spec => ?; do !case: eqP => ?; lia. Qed.

(* order-th difference of a vector at position i *)
Definition l1_diff (order n : nat) (x : 'cV[F]_n) (i : nat) : F :=
  if order == 1%N then vget x i - vget x i.+1
  else vget x i - 2%:R * vget x i.+1 + vget x i.+2.

Lemma l1_D_row (order n : nat) (x : 'cV[F]_n) (i : 'I_(n - order)) :
  (order == 1%N) || (order == 2%N) -> (l1_D O order n *m x) i 0 = l1_diff order x i.
Proof.
case/orP => /eqP Ho; subst order; have Hi := ltn_ord i; rewrite mxE /l1_diff /=.
- transitivity (\sum_(0 <= k < n) zF F (stencil_coef l1_stencil_1 (Z.sub (Z.of_nat k) (Z.of_nat i))) * vget x k).
    by rewrite big_mkord; apply: eq_bigr => k _; rewrite /l1_D /band !mxE vgetE.
  rewrite (@sum_support _ _ n [:: nat_of_ord i; i.+1]).
  + rewrite !big_cons big_nil !l1_stencil1E !eqxx.
    have -> : (i.+1 == i) = false by lia.
    by rewrite zF_1 zF_m1; ring.
  + by rewrite /= !inE; lia.
  + by rewrite /=; lia.
  + move=> k; rewrite !inE !negb_or => /andP[H1 H2].
    by rewrite l1_stencil1E (negbTE H1) (negbTE H2) zF_0 mul0r.
- transitivity (\sum_(0 <= k < n) zF F (stencil_coef l1_stencil_2 (Z.sub (Z.of_nat k) (Z.of_nat i))) * vget x k).
    by rewrite big_mkord; apply: eq_bigr => k _; rewrite /l1_D /band !mxE vgetE.
  rewrite (@sum_support _ _ n [:: nat_of_ord i; i.+1; i.+2]).
  + rewrite !big_cons big_nil !l1_stencil2E !eqxx.
    have -> : (i.+1 == i) = false by lia.
    have -> : (i.+2 == i) = false by lia.
    have -> : (i.+2 == i.+1) = false by lia.
    by rewrite zF_1 zF_m2; ring.
  + by rewrite /= !inE; lia.
  + by rewrite /=; lia.
  + move=> k; rewrite !inE !negb_or => /andP[H1 /andP[H2 H3]].
    by rewrite l1_stencil2E (negbTE H1) (negbTE H2) (negbTE H3) zF_0 mul0r.
Qed.

Section Fixed.
Variables (order n : nat) (ys : list F).
Hypothesis order_ok : (order == 1%N) || (order == 2%N).
Notation Dn := (l1_D O order n).
Notation yv := (l1_y O n ys).

(* the l1 trend-filter problem of the given order, written out *)
Definition l1_obj (lam : F) (x : 'cV[F]_n) : F :=
  2%:R^-1 * (\sum_(0 <= j < n) (List.nth j ys 0 - vget x j) ^+ 2)
  + lam * (\sum_(0 <= i < n - order) `|l1_diff order x i|).

Lemma l1_obj_P lam x : l1_obj lam x = l1_P Dn yv lam x.
Proof.
rewrite /l1_obj /l1_P !big_mkord; congr (_ * _ + _ * _).
- by apply: eq_bigr => j _; rewrite vgetE /l1_y mxE.
- by apply: eq_bigr => i _; rewrite l1_D_row.
Qed.

Section WithOracle.
Variable qp : forall m, 'M[F]_m -> 'cV[F]_m -> F -> 'cV[F]_m.
Variable lam : F.
Notation nu := (l1_nu O qp order n lam ys).
Notation trend := (l1_trend_vec O qp order n lam ys).
Notation gap := (l1_gap_vec O qp order n lam ys).

(* trend + gap = data *)
Theorem l1_identity : trend + gap = yv.
Proof. by rewrite /l1_trend_vec /= subrK. Qed.

Lemma l1_trend_x : trend = l1_x Dn yv nu.
Proof. by []. Qed.

(* the gradient of the QP handed to daqp, at its answer *)
Lemma l1_model_gradient : l1_H O order n *m nu + l1_f O order n ys = - l1_r Dn yv nu.
Proof.
have E : sZ O (Zneg 1) = -1 :> F by [].
by rewrite /l1_H /l1_f E /= scaleN1r -(l1_gradient Dn yv nu).
Qed.

(* Theorem: the KKT conditions of the box QP at nu are equivalent to the optimality certificate of the
   l1 trend-filter problem at trend = y - D' nu (s = nu / lam is a subgradient of |.|_1 at D trend) *)
Theorem l1_kkt :
  0 < lam ->
  (box_kkt nu lam (l1_H O order n *m nu + l1_f O order n ys) <-> l1_cert Dn yv nu lam).
Proof. by move=> Hl; rewrite l1_model_gradient; exact: box_kkt_cert. Qed.

(* Theorem: KKT at daqp's answer => the returned trend is THE minimiser of the l1 trend-filter objective *)
Theorem l1_optimal :
  0 < lam -> box_kkt nu lam (l1_H O order n *m nu + l1_f O order n ys) ->
  forall x' : 'cV[F]_n, l1_obj lam trend <= l1_obj lam x' /\ (l1_obj lam x' <= l1_obj lam trend -> x' = trend).
Proof.
move=> Hl /(l1_kkt Hl) Hc x'; rewrite !l1_obj_P l1_trend_x.
exact: l1_optimal_abs.
Qed.

End WithOracle.

(* Theorem: soundness of the checker run on daqp's recorded output: if kkt_ok accepts nu with bound lam'
   and slack eps, then no x' has an objective (with smoothing lam') lower than that of y - D' nu by more than eps *)
Theorem kkt_ok_sound (lam lam' eps : F) (nu : 'cV[F]_(n - order)) :
  kkt_ok O order n lam lam' eps ys nu = true ->
  forall x' : 'cV[F]_n, l1_obj lam (l1_x Dn yv nu) <= l1_obj lam' x' + eps.
Proof.
rewrite /kkt_ok => /andP[Hb Hg] x'.
have Hb' : forall i : 'I_(n - order), `|nu i 0| <= lam'.
  move=> i; have := forallb_map_seq Hb (i := i); rewrite add0n ltn_ord /= => /(_ isT).
  by rewrite s_absE /= -/(vget nu i) vgetE.
have Hg' : l1_gap Dn yv nu lam <= eps.
  move: Hg; rewrite /l1_dgap /l1_resid /l1_nu_list combine_map List.map_map s_sum_map_seq /=.
  rewrite big_mkord /l1_gap => H; apply: le_trans H; rewrite le_eqVlt; apply/orP; left; apply/eqP.
  apply: eq_bigr => i _; rewrite s_absE -/(vget _ i) -/(vget nu i) !vgetE.
  by [].
have := l1_bound Dn yv lam x' Hb'; rewrite -!l1_obj_P => H.
have He : 0 <= 2%:R^-1 * (\sum_(j < n) (x' j 0 - (l1_x Dn yv nu) j 0) ^+ 2).
  by apply: mulr_ge0; [rewrite invr_ge0 ler0n | apply: sumr_ge0 => j _; apply: sqr_ge0].
rewrite -ler_subl_addr; apply: le_trans (ler_sub (lexx _) Hg') _.
by apply: le_trans H; rewrite ler_addl.
Qed.

End Fixed.
End L1ModelProofs.

(* ---- the lists returned by the model; non-vacuity of the KKT premise ---- *)
Section L1Extra.
Variable F : realFieldType.
Notation O := (MCOps F).

(* the lists returned by l1_variant (what lonf puts into the Series) are the entries of trend_vec / gap_vec,
   so trend + gap = data entry by entry *)
Theorem l1_variant_identity (qp : forall m, 'M[F]_m -> 'cV[F]_m -> F -> 'cV[F]_m) (order : nat) (lam : F)
        (ys : list F) (i : nat) :
  (i < length ys)%N ->
  List.nth i (fst (l1_variant O qp order lam ys)) 0 + List.nth i (snd (l1_variant O qp order lam ys)) 0
  = List.nth i ys 0.
Proof.
move=> Hi; rewrite /l1_variant /=.
have Hi' := ssrnat.ltP Hi.
rewrite !(nth_map_seq _ _ _ _ Hi').
have := @l1_identity F order (length ys) ys qp lam.
move/(congr1 (fun A : 'cV[F]_(length ys) => A (Ordinal Hi) 0)).
rewrite mxE -!(mc_getE _ (Ordinal Hi) 0) /= => ->.
by rewrite (mc_getE _ (Ordinal Hi) 0) /l1_y mxE.
Qed.

(* non-vacuity of the KKT premise, and "nothing to smooth": if the order-th differences of the data vanish
   (constant data for order 1, a straight line for order 2), nu = 0 satisfies the KKT conditions and the
   data are returned unchanged *)
Theorem l1_kkt_zero (order n : nat) (ys : list F) (lam : F) :
  0 < lam -> l1_D O order n *m l1_y O n ys = 0 ->
  let qp0 := fun m (_ : 'M[F]_m) (_ : 'cV[F]_m) (_ : F) => (0 : 'cV[F]_m) in
  box_kkt (l1_nu O qp0 order n lam ys) lam
          (l1_H O order n *m l1_nu O qp0 order n lam ys + l1_f O order n ys)
  /\ l1_trend_vec O qp0 order n lam ys = l1_y O n ys.
Proof.
move=> Hl HD qp0; split; last by rewrite /l1_trend_vec /l1_gap_vec /l1_nu /= mulmx0 subr0.
rewrite l1_model_gradient /l1_nu /= /l1_r /l1_x mulmx0 subr0 HD oppr0 => i.
by rewrite !mxE normr0; split; [exact: ltW | split=> // ; split=> _; rewrite ?lexx].
Qed.

End L1Extra.
