(* C19, round 5: the export block on an arbitrary list of selected periods (model/Csv5.v). *)
From Coq Require Import String Ascii ZArith List Bool Lia.
From Verif Require Import lib.Arith lib.ArithOptZ model.Series model.SeriesOps model.Databox gen.CsvGen gen.Csv5Gen
  model.Csv model.Csv5 proofs.CsvProofs.
Import ListNotations.
Open Scope Z_scope.

Lemma map_flat_map {X Y Z0} (f : Y -> Z0) (g : X -> list Y) l :
  map f (flat_map g l) = flat_map (fun x => map f (g x)) l.
Proof. induction l as [|x l IH]; [reflexivity|]. cbn [flat_map]. now rewrite map_app, IH. Qed.

Lemma combine_map_same {X Y Z0} (F : X -> Y) (G : X -> Z0) l :
  combine (map F l) (map G l) = map (fun t => (F t, G t)) l.
Proof. induction l as [|x l IH]; [reflexivity|]. cbn [map combine]. now rewrite IH. Qed.

Lemma combine_map_r {X Y} (G : X -> Y) l : combine l (map G l) = map (fun t => (t, G t)) l.
Proof. induction l as [|x l IH]; [reflexivity|]. cbn [map combine]. now rewrite IH. Qed.

Lemma repeat_as_map {X Y} (y : Y) (l : list X) : repeat y (length l) = map (fun _ => y) l.
Proof. induction l as [|x l IH]; [reflexivity|]. cbn [length repeat map]. now rewrite IH. Qed.

Section Csv5Proofs.
Variable A : Arith.
Notation V := (car A).
Notation series := (series A).
Notation itemsT := (list (string * (string * series))).
Variable fmt_period : Z -> Z -> string.
Variable fmt_val : V -> string.
Variable rnd : V -> V.

Lemma hstack2_maps (F G : Z -> list V) ps :
  hstack2 A (map F ps) (map G ps) = map (fun t => F t ++ G t) ps.
Proof. unfold hstack2. rewrite combine_map_same, map_map. reflexivity. Qed.

(* the accessor regenerated from the source is the per-period lookup *)
Lemma series_rows_eq (s : series) ps : series_rows A s ps = map (row_at A s) ps.
Proof. reflexivity. Qed.

Lemma hstack_maps (its : itemsT) : forall (F : Z -> list V) ps,
  hstack A (map F ps) (map (fun p => series_rows A (snd (snd p)) ps) its)
  = map (fun t => F t ++ flat_map (fun p => row_at A (snd (snd p)) t) its) ps.
Proof.
  induction its as [|p its IH]; intros F ps.
  - cbn [map flat_map]. unfold hstack. cbn [fold_left]. apply map_ext. intros t. now rewrite app_nil_r.
  - cbn [map flat_map]. unfold hstack. cbn [fold_left].
    rewrite (series_rows_eq (snd (snd p)) ps), hstack2_maps.
    change (fold_left (hstack2 A) ?b ?l) with (hstack A l b).
    rewrite IH. apply map_ext. intros t. now rewrite app_assoc.
Qed.

(* the array the exporter builds: row i = the values of all series of the block AT period i of the list *)
Theorem data_array_rows (its : itemsT) ps :
  data_array A its ps = map (fun t => flat_map (fun p => row_at A (snd (snd p)) t) its) ps.
Proof. unfold data_array. rewrite (repeat_as_map (@nil V) ps). rewrite hstack_maps. reflexivity. Qed.

Corollary data_array_length (its : itemsT) ps : length (data_array A its ps) = length ps.
Proof. now rewrite data_array_rows, map_length. Qed.

(* the block of the source is the block of model/Csv.v, for every list of periods *)
Theorem block_grid_src_eq (o : wopts) total f ps (its : itemsT) :
  block_grid_src A fmt_period fmt_val rnd o total f ps its = block_grid A fmt_period fmt_val rnd o total f ps its.
Proof.
  unfold block_grid_src, block_grid, data_rows_src. rewrite data_array_rows, combine_map_r, map_map.
  do 3 f_equal. apply map_ext. intros t. cbn [fst snd]. now rewrite map_flat_map.
Qed.

(* row i of the data part: the date of period i, then for every series its (rounded) values at period i *)
Theorem block_row_at_its_period (o : wopts) total f ps (its : itemsT) i :
  (i < length ps)%nat ->
  nth ((if w_desc o then 2 else 1) + i) (block_grid_src A fmt_period fmt_val rnd o total f ps its) []
  = fmt_period f (nth i ps 0)
    :: flat_map (fun p => map (val_cell A fmt_val rnd (w_nan o)) (row_at A (snd (snd p)) (nth i ps 0))) its
    ++ [""%string].
Proof.
  intros Hi. rewrite block_grid_src_eq. unfold block_grid. cbv zeta.
  match goal with |- nth _ (?h0 ++ ?d0 ++ ?r0 ++ ?p0) [] = _ => set (h := h0); set (d := d0); set (rows := r0); set (pad := p0) end.
  assert (E : nth ((if w_desc o then 2 else 1) + i) (h ++ d ++ rows ++ pad) [] = nth i (rows ++ pad) []).
  { rewrite app_assoc. assert (Hl : length (h ++ d) = (if w_desc o then 2 else 1)%nat)
      by (unfold h, d; destruct (w_desc o); reflexivity).
    rewrite <- Hl. apply app_nth2_plus. }
  refine (eq_trans E _). rewrite app_nth1 by (unfold rows; now rewrite map_length).
  unfold rows.
  match goal with |- nth i (map ?F0 ps) _ = _ => set (F := F0) end.
  rewrite nth_indep with (d' := F 0) by now rewrite map_length.
  exact (map_nth F ps 0 i).
Qed.

(* ---- when would one slice from the first to the last selected period do? ---- *)
Lemma zrange_hd_last a b : a <= b -> hd 0 (zrange a (b + 1)) = a /\ last (zrange a (b + 1)) 0 = b.
Proof.
  intros H. unfold zrange. replace (Z.to_nat (b + 1 - a)) with (S (Z.to_nat (b - a))) by lia. split.
  - cbn [seq map hd]. lia.
  - rewrite seq_S, map_app. cbn [map]. rewrite last_last. lia.
Qed.

(* on a run of consecutive increasing periods the slice is the per-period lookup ... *)
Theorem sliced_rows_on_runs (s : series) a b : a <= b ->
  sliced_rows A s (zrange a (b + 1)) = get_data A s (zrange a (b + 1)).
Proof.
  intros H. unfold sliced_rows, get_data_from_until, get_data.
  destruct (zrange_hd_last a b H) as [-> ->]. reflexivity.
Qed.

End Csv5Proofs.

(* ... and on other lists it is not (every second period; descending): such an exporter would write the right dates
   next to other periods' values *)
Definition s5 : series OZArith := mkSeries (A:=OZArith) 4 (Some 10) 1%nat [[Some 1]; [Some 2]; [Some 3]; [Some 4]; [Some 5]].

Theorem sliced_rows_refuted :
  (exists (s : series OZArith) ps, NoDup ps /\ sliced_rows OZArith s ps <> get_data OZArith s ps) /\
  sliced_rows OZArith s5 [10; 12; 14] = [[Some 1]; [Some 2]; [Some 3]; [Some 4]; [Some 5]] /\
  get_data OZArith s5 [10; 12; 14] = [[Some 1]; [Some 3]; [Some 5]] /\
  sliced_rows OZArith s5 [12; 11; 10] = [] /\
  get_data OZArith s5 [12; 11; 10] = [[Some 3]; [Some 2]; [Some 1]].
Proof.
  split; [|repeat split; reflexivity].
  exists s5, [10; 12; 14]. split.
  - repeat constructor; cbn; intuition discriminate.
  - vm_compute. discriminate.
Qed.

(* non-vacuity: a block with two series (two variants and one), periods picked by hand in no order, with a period
   outside the data *)
Example block_rows_example :
  let fp := fun (_ t : Z) => match t with 10 => "p10" | 12 => "p12" | 13 => "p13" | _ => "p?" end%string in
  let fv := fun x : option Z => match x with Some 1 => "1" | Some 3 => "3" | Some 4 => "4" | Some 7 => "7" | Some 9 => "9"
                                        | Some _ => "n" | None => "?" end%string in
  let a := mkSeries (A:=OZArith) 4 (Some 10) 2%nat [[Some 1; Some 7]; [Some 2; None]; [Some 3; Some 9]] in
  let b := mkSeries (A:=OZArith) 4 (Some 12) 1%nat [[Some 4]] in
  block_grid_src OZArith fp fv (fun x => x) (mkWopts None default_fspan false "NA") 4 4 [12; 10; 13]
    [("a", ("", a)); ("b", ("", b))]%string
  = [["__quarterly__"; "a"; "*"; "b"; ""];
     ["p12"; "3"; "9"; "4"; ""];
     ["p10"; "1"; "7"; "NA"; ""];
     ["p13"; "NA"; "NA"; "NA"; ""];
     [""; ""; ""; ""; ""]]%string.
Proof. vm_compute. reflexivity. Qed.
