(* C02 proofs, part 3: column selection of the steady Jacobian under a steady plan; the cached terminal rows. *)
From Coq Require Import ZArith List Bool Arith Lia.
From Verif Require Import model.AldiSelect.
Import ListNotations.

(* ---- (a) column selection ------------------------------------------------------------------------- *)

Lemma select_app : forall {T} (m1 m2 : list bool) (l1 l2 : list T),
  length m1 = length l1 -> select (m1 ++ m2) (l1 ++ l2) = select m1 l1 ++ select m2 l2.
Proof.
  intros T m1. induction m1 as [|b m IH]; intros m2 l1 l2 H; destruct l1 as [|x r]; simpl in H; try discriminate.
  - reflexivity.
  - cbn [app select]. injection H as H. rewrite (IH m2 r l2 H). destruct b; reflexivity.
Qed.

Lemma select_map : forall {T U} (f : T -> U) (m : list bool) (l : list T),
  select m (map f l) = map f (select m l).
Proof.
  intros T U f m. induction m as [|b m IH]; intros [|x r]; cbn [map select]; try reflexivity.
  rewrite IH. destruct b; reflexivity.
Qed.

(* the labels of the columns kept are exactly the unknowns, in the order of the vector of unknowns *)
Theorem reduced_labels : forall (wrt : list Z) (ml mc : list bool),
  length ml = length wrt ->
  select (ml ++ mc) (full_labels wrt) = unknown_labels wrt ml mc.
Proof.
  intros wrt ml mc H. unfold full_labels, unknown_labels.
  rewrite select_app by (rewrite map_length; exact H).
  rewrite !select_map. reflexivity.
Qed.

(* FOR EVERY plan (every pair of subsets): if entry c of a row of the full Jacobian is the derivative d(label c)
   w.r.t. the c-th full label, then entry j of the reduced row is the derivative w.r.t. unknown j *)
Theorem reduced_row_is_unknowns : forall {V} (d : label -> V) (wrt : list Z) (ml mc : list bool),
  length ml = length wrt ->
  reduce_row ml mc (map d (full_labels wrt)) = map d (unknown_labels wrt ml mc).
Proof.
  intros V d wrt ml mc H. unfold reduce_row. rewrite select_map, reduced_labels by exact H. reflexivity.
Qed.

Corollary reduced_entry_is_unknown : forall {V} (d : label -> V) (wrt : list Z) (ml mc : list bool) (j : nat) (u : label) (dflt : V),
  length ml = length wrt ->
  nth_error (unknown_labels wrt ml mc) j = Some u ->
  nth j (reduce_row ml mc (map d (full_labels wrt))) dflt = d u.
Proof.
  intros V d wrt ml mc j u dflt H Hu. rewrite reduced_row_is_unknowns by exact H.
  apply nth_error_nth. rewrite nth_error_map, Hu. reflexivity.
Qed.

Theorem reduced_jacobian_is_unknowns : forall {V} (d : nat -> label -> V) (wrt : list Z) (ml mc : list bool) (nrows : nat),
  length ml = length wrt ->
  reduce_jacobian ml mc (map (fun r => map (d r) (full_labels wrt)) (seq 0 nrows))
  = map (fun r => map (d r) (unknown_labels wrt ml mc)) (seq 0 nrows).
Proof.
  intros V d wrt ml mc nrows H. unfold reduce_jacobian. rewrite map_map. apply map_ext. intro r.
  apply reduced_row_is_unknowns. exact H.
Qed.

(* the masks built from the plan's two lists have the length of wrt_qids *)
Lemma mask_of_length : forall wrt chosen, length (mask_of wrt chosen) = length wrt.
Proof. intros. unfold mask_of. apply map_length. Qed.

Theorem plan_reduced_row_is_unknowns : forall {V} (d : label -> V) (wrt levels changes : list Z),
  reduce_row (mask_of wrt levels) (mask_of wrt changes) (map d (full_labels wrt))
  = map d (unknown_labels wrt (mask_of wrt levels) (mask_of wrt changes)).
Proof. intros. apply reduced_row_is_unknowns. apply mask_of_length. Qed.

(* integer index vectors: the positions offset by the number of ALL wrt quantities select the same columns *)
Lemma gather_positions_ext : forall {V} (post : list V) (d : V) (mask : list bool) (pre l : list V),
  length mask = length l ->
  gather (positions mask (length pre)) (pre ++ l ++ post) d = select mask l.
Proof.
  intros V post d mask. induction mask as [|b m IH]; intros pre l H; destruct l as [|x r]; simpl in H; try discriminate.
  - reflexivity.
  - injection H as H.
    assert (E : gather (positions m (S (length pre))) (pre ++ (x :: r) ++ post) d = select m r).
    { specialize (IH (pre ++ [x]) r H). rewrite app_length in IH. simpl in IH.
      replace (length pre + 1) with (S (length pre)) in IH by lia. rewrite <- app_assoc in IH. exact IH. }
    cbn [positions select]. destruct b.
    + unfold gather in *. cbn [map]. rewrite E. f_equal. rewrite app_nth2 by lia. rewrite Nat.sub_diag. reflexivity.
    + exact E.
Qed.

Theorem column_index_correct : forall {V} (ml mc : list bool) (rowL rowC : list V) (d : V),
  length ml = length rowL -> length mc = length rowC ->
  gather (column_index ml mc (length rowL)) (rowL ++ rowC) d = reduce_row ml mc (rowL ++ rowC).
Proof.
  intros V ml mc rowL rowC d HL HC. unfold column_index, reduce_row.
  rewrite select_app by exact HL. unfold gather. rewrite map_app. f_equal.
  - exact (gather_positions_ext rowC d ml [] rowL HL).
  - pose proof (gather_positions_ext [] d mc rowL rowC HC) as G. rewrite app_nil_r in G. exact G.
Qed.

(* ... and offset by the number of ITERATED levels (the layout of the vector of unknowns) they do not: with a fixed
   level the change columns are taken one place too far left *)
Theorem column_index_offset_by_iterated_levels_refuted :
  exists (wrt : list Z) (ml mc : list bool),
    gather (column_index ml mc (count_true ml)) (full_labels wrt) (false, 0%Z)
    <> unknown_labels wrt ml mc.
Proof.
  exists [1%Z; 2%Z], [false; true], [true; true]. vm_compute. discriminate.
Qed.

Example column_selection_nonvacuous :
  reduce_row (mask_of [5;6;7]%Z [6;7]%Z) (mask_of [5;6;7]%Z [5;6]%Z) (full_labels [5;6;7]%Z)
  = [(false, 6%Z); (false, 7%Z); (true, 5%Z); (true, 6%Z)].
Proof. reflexivity. Qed.

(* ---- (b) the cached rows of the terminal map ------------------------------------------------------------ *)

Lemma In_insert_nodup : forall x y l, In x (insert_nodup y l) <-> x = y \/ In x l.
Proof.
  intros x y l. induction l as [|z r IH]; cbn [insert_nodup].
  - simpl. intuition.
  - destruct (Nat.ltb y z).
    + simpl. intuition.
    + destruct (Nat.eqb_spec y z).
      * subst. simpl. intuition.
      * simpl. rewrite IH. intuition.
Qed.

Lemma In_sorted_set : forall x l, In x (sorted_set l) <-> In x l.
Proof.
  intros x l. unfold sorted_set. induction l as [|y r IH]; cbn [fold_right].
  - reflexivity.
  - rewrite In_insert_nodup, IH. simpl. intuition.
Qed.

(* the structural pattern does not depend on the values stored *)
Theorem coo_rows_structural : forall {V W} (m : coo V) (m' : coo W),
  map (fun e => fst e) m = map (fun e => fst e) m' -> coo_rows m = coo_rows m'.
Proof.
  intros V W m m' H. unfold coo_rows. f_equal.
  replace (map (fun e => fst (fst e)) m) with (map fst (map (fun e => fst e) m)) by (rewrite map_map; reflexivity).
  replace (map (fun e => fst (fst e)) m') with (map fst (map (fun e => fst e) m')) by (rewrite map_map; reflexivity).
  rewrite H. reflexivity.
Qed.

(* a row outside the structural pattern has no stored entry (so the whole row of the terminal block is zero) *)
Theorem outside_coo_rows_no_entry : forall {V} (m : coo V) r c v, ~ In r (coo_rows m) -> ~ In (r, c, v) m.
Proof.
  intros V m r c v H Hin. apply H. unfold coo_rows. rewrite In_sorted_set.
  apply in_map_iff. exists (r, c, v). split; [reflexivity | exact Hin].
Qed.

Section TerminateProofs.
Context {V : Type}.
Variable zero : V.
Variable add : V -> V -> V.
Hypothesis add_zero_r : forall x, add x zero = x.

Definition zero_outside (S : list nat) (addm : nat -> nat -> V) : Prop :=
  forall r, ~ In r S -> forall c, addm r c = zero.

Lemma corrected_complete : forall rows pairs regular addm,
  zero_outside rows addm ->
  forall r c, corrected add rows pairs regular addm r c = corrected_all add pairs regular addm r c.
Proof.
  intros rows pairs regular addm Hz r c. unfold corrected, corrected_all.
  destruct (existsb (Nat.eqb r) rows) eqn:E; [reflexivity|].
  destruct (rhs_for pairs c) as [rc|]; [|reflexivity].
  rewrite Hz.
  - rewrite add_zero_r. reflexivity.
  - intro Hin. assert (existsb (Nat.eqb r) rows = true) as X.
    { apply existsb_exists. exists r. split; [exact Hin | apply Nat.eqb_refl]. }
    rewrite X in E. discriminate.
Qed.

(* every call of a whole run (any number of calls, any evaluation points): when the rows cached are the structural
   pattern S (the same at every point) and the correction matrix is zero outside S at every point, each call returns
   the full correction *)
Theorem trun_structural_valid : forall (S : list nat) pairs calls st,
  (st = None \/ st = Some S) ->
  Forall (fun call => fst (fst call) = S /\ zero_outside S (snd call)) calls ->
  Forall2 (fun out call => forall r c, out r c = corrected_all add pairs (snd (fst call)) (snd call) r c)
          (trun add st pairs calls) calls.
Proof.
  intros S pairs calls. induction calls as [|[[rows_now regular] addm] rest IH]; intros st Hst HF.
  - constructor.
  - pose proof (Forall_inv HF) as [Hrows Hz]. pose proof (Forall_inv_tail HF) as HF'. cbn [trun tstep]. simpl in Hrows, Hz.
    assert (Hr : match st with Some r => r | None => rows_now end = S).
    { destruct Hst as [-> | ->]; [exact Hrows | reflexivity]. }
    rewrite Hr. constructor.
    + intros r c. simpl. apply corrected_complete. exact Hz.
    + apply IH; [right; reflexivity | exact HF'].
Qed.
End TerminateProofs.

(* rows taken from the VALUES of the first call: a later call at another point is wrong *)
Theorem trun_value_pattern_refuted :
  exists (pairs : list (nat * nat)) (t1 t2 : coo Z) (regular : nat -> nat -> Z),
    map (fun e => fst e) t1 = map (fun e => fst e) t2 /\
    let addm (t : coo Z) : nat -> nat -> Z :=
        fun r c => fold_right Z.add 0%Z (map (fun e => if Nat.eqb (fst (fst e)) r && Nat.eqb (snd (fst e)) c then snd e else 0%Z) t) in
    let calls := [ (nonzero_rows (Z.eqb 0) t1, regular, addm t1); (nonzero_rows (Z.eqb 0) t2, regular, addm t2) ] in
    exists out1 out2, trun Z.add None pairs calls = [out1; out2] /\
      out2 0 0 <> corrected_all Z.add pairs regular (addm t2) 0 0.
Proof.
  exists [(0, 0)], [(0, 0, 0%Z)], [(0, 0, 3%Z)], (fun _ _ => 0%Z). split; [reflexivity|].
  cbn zeta. eexists. eexists. split; [reflexivity|]. vm_compute. discriminate.
Qed.

(* the same two calls with the structural pattern are right (non-vacuity of trun_structural_valid) *)
Example trun_structural_nonvacuous :
  let t1 : coo Z := [(0, 0, 0%Z)] in let t2 : coo Z := [(0, 0, 3%Z)] in
  let addm (t : coo Z) : nat -> nat -> Z := fun r c => match t with [(_, _, v)] => if Nat.eqb r 0 && Nat.eqb c 0 then v else 0%Z | _ => 0%Z end in
  let outs := trun Z.add None [(0, 0)] [ (coo_rows t1, (fun _ _ => 0%Z), addm t1); (coo_rows t2, (fun _ _ => 0%Z), addm t2) ] in
  coo_rows t1 = coo_rows t2 /\ map (fun o => o 0 0) outs = [0%Z; 3%Z].
Proof. vm_compute. split; reflexivity. Qed.
