(* Proofs about model/CodecsExt.v (C11, round 4):
   (A) the date columns of a multi-frequency sheet round-trip, for every number of blocks, every block length and
       every padding, under both documented codec pairs (SDMX text / ISO text at any position);
   (B) under every history of period arithmetic with int or numpy-int offsets the serial is a builtin int, the period
       equals the one obtained on plain integers, and its repr text is the plain repr (hence eval(repr(p)) = p). *)
From Coq Require Import ZArith Bool Ascii String List Lia.
From Verif Require Import lib.Calendar lib.RegexSub lib.PyStr lib.DatesBase gen.DatesGen model.Dates model.Codecs
     gen.CodecsExtGen model.CodecsExt proofs.DatesProofs proofs.CodecsProofs.
Import ListNotations.
Open Scope Z_scope.

(* ================================================================== (A) *)

Definition block_ok (dom : period -> Prop) (b : Z * list period) : Prop :=
  snd b <> [] /\ Forall (fun p => dom p /\ p_freq p = fst b) (snd b).

Fixpoint zrange (i : Z) (n : nat) : list Z := match n with O => [] | S k => i :: zrange (i + 1) k end.

Section SheetGeneric.
  Variable enc : period -> dres str.
  Variable dec : Z -> str -> dres period.
  Variable dom : period -> Prop.
  Hypothesis H_rt : forall p, dom p -> exists x, enc p = Ok x /\ dec (p_freq p) x = Ok p.
  Hypothesis H_ne : forall p, dom p -> enc p <> Ok [].

  Lemma extract_rows_pad : forall start f k i, extract_rows dec false start f (repeat [] k) i = Ok [].
  Proof. induction k; intros; cbn; auto. Qed.

  Lemma map_dres_enc : forall f ps, Forall (fun p => dom p /\ p_freq p = f) ps -> exists cells, map_dres enc ps = Ok cells.
  Proof.
    induction ps as [|p ps IH]; intros F.
    - exists []. reflexivity.
    - inversion F as [|? ? [D _] F']; subst. destruct (H_rt p D) as (x & E & _). destruct (IH F') as (c & C).
      exists (x :: c). cbn. rewrite E. cbn. rewrite C. reflexivity.
  Qed.

  Lemma extract_rows_enc : forall f start ps, Forall (fun p => dom p /\ p_freq p = f) ps ->
    forall cells, map_dres enc ps = Ok cells ->
    forall k i, extract_rows dec false start f (cells ++ repeat [] k) i = Ok (enumerate_from i ps).
  Proof.
    induction ps as [|p ps IH]; intros F cells M k i.
    - cbn in M. injection M as <-. cbn [app enumerate_from]. apply extract_rows_pad.
    - inversion F as [|? ? [D Fq] F']; subst.
      destruct (H_rt p D) as (x & E & R). pose proof (H_ne p D) as NE.
      cbn in M. rewrite E in M. cbn in M. destruct (map_dres enc ps) as [c|e] eqn:C; cbn in M; [|discriminate].
      injection M as <-. destruct x as [|ch x]; [exfalso; apply NE; exact E|].
      cbn [app extract_rows gen_row_selected orb]. unfold gen_cell_period. rewrite R. cbn [bind].
      rewrite (IH F' c eq_refl k (i + 1)). reflexivity.
  Qed.

  Lemma extract_block_enc : forall b total, block_ok dom b ->
    exists cells, export_column enc total (snd b) = Ok cells /\
                  extract_block dec false (fst b) cells = Ok (enumerate_from 0 (snd b)).
  Proof.
    intros [f ps] total [NE F]. cbn [fst snd] in *.
    destruct (map_dres_enc f ps F) as (c & C).
    unfold export_column. rewrite C. cbn [dmap]. eexists. split; [reflexivity|].
    destruct ps as [|p ps]; [congruence|].
    inversion F as [|? ? [D Fq] F']; subst.
    destruct (H_rt p D) as (x & E & R).
    pose proof C as C'. cbn in C'. rewrite E in C'. cbn in C'.
    destruct (map_dres enc ps) as [c'|e]; cbn in C'; [|discriminate]. injection C' as <-.
    cbn [app extract_block]. unfold gen_cell_period at 1. rewrite R. cbn [bind].
    change (x :: c' ++ repeat [] (gen_export_padding total (length (p :: ps))))
      with ((x :: c') ++ repeat [] (gen_export_padding total (length (p :: ps)))).
    apply (extract_rows_enc (p_freq p) p (p :: ps) F (x :: c') C).
  Qed.

  (* the sheet: every block is decoded with its own frequency, whatever the other blocks contain *)
  Theorem sheet_roundtrip_total : forall total blocks, Forall (block_ok dom) blocks ->
    exists cols,
      map_dres (fun b => dmap (fun c => (fst b, c)) (export_column enc total (snd b))) blocks = Ok cols /\
      import_sheet dec false cols = Ok (map (fun b => (fst b, enumerate_from 0 (snd b))) blocks).
  Proof.
    induction blocks as [|b bl IH]; intros F.
    - exists []. split; reflexivity.
    - inversion F as [|? ? B F']; subst. destruct (IH F') as (cols & X & I).
      destruct (extract_block_enc b total B) as (cells & C & E).
      exists ((fst b, cells) :: cols). split.
      + cbn. rewrite C. cbn. rewrite X. reflexivity.
      + unfold import_sheet in *. cbn. rewrite E. cbn. rewrite I. reflexivity.
  Qed.

  Theorem sheet_roundtrip_generic : forall blocks, Forall (block_ok dom) blocks ->
    exists cols, export_sheet enc blocks = Ok cols /\
                 import_sheet dec false cols = Ok (map (fun b => (fst b, enumerate_from 0 (snd b))) blocks).
  Proof. intros. apply sheet_roundtrip_total. assumption. Qed.

  (* start_period_only: row i of the block is start + i, where start is the decoded first cell (no other cell is parsed) *)
  Lemma extract_rows_start_only : forall start f cells i,
    extract_rows dec true start f cells i = Ok (map (fun j => (j, padd start j)) (zrange i (length cells))).
  Proof.
    induction cells as [|x r IH]; intros i; [reflexivity|].
    cbn [extract_rows gen_row_selected orb length zrange map bind]. rewrite IH. reflexivity.
  Qed.

  Theorem start_only_block : forall p total, dom p ->
    exists x cells, export_column enc total [p] = Ok (x :: cells) /\
      extract_block dec true (p_freq p) (x :: cells) = Ok (map (fun j => (j, padd p j)) (zrange 0 (S (length cells)))).
  Proof.
    intros p total D. destruct (H_rt p D) as (x & E & R).
    exists x, (repeat [] (gen_export_padding total 1)). split.
    - unfold export_column. cbn. rewrite E. reflexivity.
    - cbn [extract_block]. unfold gen_cell_period. rewrite R. cbn [bind]. apply extract_rows_start_only.
  Qed.
End SheetGeneric.

Lemma from_sdmx_as_empty : forall p, sdmx_domain p -> from_sdmx_as (p_freq p) [] <> Ok p.
Proof.
  intros [f s] D. destruct D as [[[R Y] | [E C]] | E]; cbn [p_freq p_serial] in *.
  - destruct (regular_cases f R) as [-> | [-> | [-> | ->]]]; vm_compute; discriminate.
  - subst f. vm_compute. discriminate.
  - subst f. vm_compute. discriminate.
Qed.

Lemma from_iso_empty : forall f, from_iso f [] = Err ErrValue.
Proof. intros f. reflexivity. Qed.

(* default codecs: str(period) / Period.from_sdmx_string(cell, frequency=<frequency of the mark>) *)
Theorem sheet_sdmx_roundtrip : forall blocks, Forall (block_ok sdmx_domain) blocks ->
  exists cols, export_sheet (fmt_period FmtSdmx) blocks = Ok cols /\
               import_sheet (parse_cell ParSdmx) false cols = Ok (map (fun b => (fst b, enumerate_from 0 (snd b))) blocks).
Proof.
  apply sheet_roundtrip_generic.
  - intros p D. destruct (sdmx_roundtrip_autodetect p D) as (x & A & B & _). exists x. split; assumption.
  - intros p D E. destruct (sdmx_roundtrip_autodetect p D) as (x & A & B & _).
    cbn [fmt_period] in E. rewrite E in A. injection A as <-. exact (from_sdmx_as_empty p D B).
Qed.

(* ISO codecs: p.to_iso_string(position=pos) / Period.from_iso_string(cell, frequency=<frequency of the mark>):
   blocks of different frequencies may hold the very same text *)
Theorem sheet_iso_roundtrip : forall pos blocks, Forall (block_ok in_domain) blocks ->
  exists cols, export_sheet (fmt_period (FmtIso pos)) blocks = Ok cols /\
               import_sheet (parse_cell ParIso) false cols = Ok (map (fun b => (fst b, enumerate_from 0 (snd b))) blocks).
Proof.
  intros pos. apply sheet_roundtrip_generic.
  - intros p D. destruct (iso_roundtrip p pos D) as (x & A & B). exists x. split; assumption.
  - intros p D E. destruct (iso_roundtrip p pos D) as (x & A & B).
    cbn [fmt_period] in E. rewrite E in A. injection A as <-. cbn [parse_cell] in B.
    rewrite from_iso_empty in B. discriminate.
Qed.

Theorem sheet_start_only_sdmx : forall p total, sdmx_domain p ->
  exists x cells, export_column (fmt_period FmtSdmx) total [p] = Ok (x :: cells) /\
    extract_block (parse_cell ParSdmx) true (p_freq p) (x :: cells)
      = Ok (map (fun j => (j, padd p j)) (zrange 0 (S (length cells)))).
Proof.
  intros p total D. apply (start_only_block _ _ sdmx_domain); [|assumption].
  intros q Dq. destruct (sdmx_roundtrip_autodetect q Dq) as (x & A & B & _). exists x. split; assumption.
Qed.

(* non-vacuity: yy(2021) and qq(2021,1) are both written as 2021-01-01 and each comes back under its own mark *)
Example sheet_iso_example :
  block_ok in_domain (1, [mkP 1 2021; mkP 1 2022]) /\ block_ok in_domain (4, [mkP 4 8084]) /\
  export_sheet (fmt_period (FmtIso PStart)) [(1, [mkP 1 2021; mkP 1 2022]); (4, [mkP 4 8084])]
    = Ok [(1, [s2l "2021-01-01"; s2l "2022-01-01"]); (4, [s2l "2021-01-01"; []])] /\
  import_sheet (parse_cell ParIso) false [(1, [s2l "2021-01-01"; s2l "2022-01-01"]); (4, [s2l "2021-01-01"; []])]
    = Ok [(1, [(0, mkP 1 2021); (1, mkP 1 2022)]); (4, [(0, mkP 4 8084)])].
Proof.
  assert (D1 : forall s, 1 <= s <= 9999 -> in_domain (mkP 1 s)).
  { intros s H. left. cbn [p_freq p_serial]. split; [reflexivity|]. rewrite Z.div_1_r. unfold MAXYEAR. lia. }
  assert (D4 : in_domain (mkP 4 8084)).
  { left. cbn [p_freq p_serial]. split; [reflexivity|]. change (8084 / 4) with 2021. unfold MAXYEAR. lia. }
  split; [|split; [|split]].
  - split; [discriminate|]. cbn [fst snd]. apply Forall_cons; [split; [apply D1; lia|reflexivity]|].
    apply Forall_cons; [split; [apply D1; lia|reflexivity]|apply Forall_nil].
  - split; [discriminate|]. cbn [fst snd]. apply Forall_cons; [split; [apply D4|reflexivity]|apply Forall_nil].
  - vm_compute. reflexivity.
  - vm_compute. reflexivity.
Qed.

(* ================================================================== (B) *)

Lemma tv_cast : forall b x, tv (cast b x) = tv x.
Proof. intros [] x; reflexivity. Qed.

Lemma tp_init_py : forall c f s, c_init c = true -> tt (tp_serial (tp_init c f s)) = TPy.
Proof. intros c f s H. unfold tp_init. rewrite H. reflexivity. Qed.

Lemma astep_py : forall c p o, c_init c = true -> tt (tp_serial (astep c p o)) = TPy.
Proof. intros c p [k|k|k|k] H; cbn [astep]; unfold tp_sub, tp_add; apply tp_init_py; assumption. Qed.

Lemma run_arith_py : forall c ops p, c_init c = true -> tt (tp_serial p) = TPy -> tt (tp_serial (run_arith c p ops)) = TPy.
Proof.
  unfold run_arith. induction ops as [|o r IH]; intros p H T; [exact T|].
  cbn [fold_left]. apply IH; [assumption|]. apply astep_py. assumption.
Qed.

(* whatever the types of the offsets and however long the history, the serial is a builtin int *)
Theorem arith_serial_pyint_c : forall c f s ops, c_init c = true ->
  tt (tp_serial (run_arith c (tp_init c f s) ops)) = TPy.
Proof. intros. apply run_arith_py; [assumption|]. apply tp_init_py. assumption. Qed.

Lemma gen_init_casts_true : c_init gen_casts = true.
Proof. reflexivity. Qed.

Theorem arith_serial_pyint : forall f s ops, tt (tp_serial (run_arith gen_casts (tp_init gen_casts f s) ops)) = TPy.
Proof. intros. apply arith_serial_pyint_c. exact gen_init_casts_true. Qed.

(* the period reached is the one computed on plain integers (model/Dates.v: padd, psub_int) *)
Lemma astep_untag : forall c p o, untag (astep c p o) = pstep (untag p) o.
Proof.
  intros c [f s] [k|k|k|k]; cbn [astep pstep]; unfold tp_sub, tp_add, tp_init, untag, padd, psub_int;
    cbn [tp_freq tp_serial p_freq p_serial tv]; rewrite ?tv_cast; cbn [tv]; rewrite ?tv_cast; try reflexivity.
  unfold gen_period_add, gen_period_sub_int, t_neg. cbn [tv]. rewrite tv_cast. reflexivity.
Qed.

Theorem arith_untag : forall c ops p, untag (run_arith c p ops) = run_plain (untag p) ops.
Proof.
  unfold run_arith, run_plain. induction ops as [|o r IH]; intros p; [reflexivity|].
  cbn [fold_left]. rewrite IH, astep_untag. reflexivity.
Qed.

Lemma render_t_py : forall l, render_t TPy l = render l.
Proof.
  induction l as [|p r IH]; [reflexivity|]. cbn [render_t render]. rewrite IH.
  destruct p; reflexivity.
Qed.

Lemma repr_str_t_py : forall p, tt (tp_serial p) = TPy -> repr_str_t p = repr_str (untag p).
Proof.
  intros p T. unfold repr_str_t, repr_str. rewrite T.
  replace (if tp_freq p =? freq_DAILY then TPy else TPy) with TPy by (destruct (tp_freq p =? freq_DAILY); reflexivity).
  destruct (repr_pieces (untag p)) as [[l b]|e]; [|reflexivity]. cbn [bind]. rewrite render_t_py. reflexivity.
Qed.

(* repr of a period reached by any arithmetic history is the repr of the plain period, and evaluates back to it *)
Theorem arith_repr_roundtrip : forall f s ops,
  let q := run_arith gen_casts (tp_init gen_casts f s) ops in
  sdmx_domain (untag q) ->
  untag q = run_plain (mkP f (tv s)) ops /\ repr_str_t q = repr_str (untag q) /\
  exists t, repr_term (untag q) = Ok t /\ eval_term t = Ok (untag q).
Proof.
  intros f s ops q D. split; [|split].
  - unfold q. rewrite arith_untag. unfold tp_init, untag. cbn [tp_freq tp_serial]. rewrite tv_cast. reflexivity.
  - apply repr_str_t_py. apply arith_serial_pyint.
  - apply repr_roundtrip. exact D.
Qed.

(* the int() in Period.__init__ is what the theorem rests on: without the casts one numpy offset is enough *)
Theorem arith_without_casts_refuted :
  let c := mkCasts false false false in
  let q := run_arith c (tp_init c 4 (mkT 8080 TPy)) [AAdd (mkT 3 TNp); AAdd (mkT 1 TPy)] in
  tt (tp_serial q) = TNp /\ untag q = mkP 4 8084 /\
  repr_str_t q = Ok (s2l "qq(np.int64(2021),np.int64(1))") /\ repr_str (untag q) = Ok (s2l "qq(2021,1)").
Proof. vm_compute. repeat split; reflexivity. Qed.

Example arith_example :
  let q := run_arith gen_casts (tp_init gen_casts 4 (mkT 8080 TNp)) [AAdd (mkT 3 TNp); ASub (mkT (-1) TNp); ARAdd (mkT 0 TPy)] in
  sdmx_domain (untag q) /\ untag q = mkP 4 8084 /\ repr_str_t q = Ok (s2l "qq(2021,1)").
Proof.
  cbv zeta. split; [|split; vm_compute; reflexivity].
  left. left. vm_compute. split; [reflexivity|]. split; discriminate.
Qed.
